#!/bin/sh
# Build the framework from files on disk only (offline).  Generated model parts are
# produced from /repo's working tree, then the whole Lean library and the driver are built.
set -e
cd "$(dirname "$0")"
REPO="${MUNGE_REPO:-/repo}"
if [ ! -f "$REPO/config.h" ]; then
    (cd "$REPO" && ./configure >/dev/null 2>&1) || { echo "cannot configure $REPO"; exit 1; }
fi
python3 -m tools.gen.all
cd lean && lake build Munge munge_driver
