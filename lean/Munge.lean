-- Root of the library: model, generated parts and one theorem file per property.
import Munge.C.Int
import Munge.C.Kernel
import Munge.C.Hex
import Munge.Model.Base64
