-- Root of the library: C semantics, models (generated parts are produced by tools/gen before the build),
-- helper lemmas and one theorem file per property.
import Munge.C.Int
import Munge.C.Kernel
import Munge.C.Hex
import Munge.Model.Base64
import Munge.Model.Cred
import Munge.Model.ToyPrims
import Munge.Model.PrimLaws
import Munge.Model.SpecV3
import Munge.Lemmas.ToyLaws
import Munge.Props.C01
import Munge.Props.C02
import Munge.Props.C03
import Munge.Props.C04
import Munge.Props.C05
import Munge.Props.C06
import Munge.Props.C07
import Munge.Props.C08
import Munge.Props.C09
import Munge.Props.C10
import Munge.Props.C12
import Munge.Props.C14
import Munge.Props.C16
import Munge.Props.C18
import Munge.Props.C19
import Munge.Props.C20
