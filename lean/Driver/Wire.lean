import Driver.Util
import Munge.Model.Wire
/- Line-protocol handler for the `wire` model (message codec, C14); same protocol as harness/h_wire.c. -/
namespace Driver.Wire
open Munge Munge.Wire Munge.Gen.Wire

structure St where
  /-- `malloc (n)` succeeds iff `n ≤ limit` (the harness runs under ASan's max_allocation_size_mb) -/
  limit : Nat := 67108864

def init : St := {}

/-- integer members printed by the harness, in its order -/
def dumpInts : List String :=
  ["type", "retry", "pkt_len", "cipher", "mac", "zip", "realm_len", "ttl", "addr_len", "time0", "time1",
   "client_uid", "client_gid", "cred_uid", "cred_gid", "auth_uid", "auth_gid", "data_len", "auth_s_len",
   "auth_c_len", "error_num"]

/-- pointer members printed by the harness with the member holding their length -/
def dumpPtrs : List (String × String) :=
  [("realm_str", "realm_len"), ("data", "data_len"), ("auth_s_str", "auth_s_len"), ("auth_c_str", "auth_c_len")]

def showPtr (m : Msg) (full : Bool) (f l : String) : String :=
  match m.buf f with
  | none => s!" {f}=null"
  | some d => if full then s!" {f}={Hex.showHex (d.take (m.int l))}" else s!" {f}=set"

def dump (m : Msg) (full : Bool) : String :=
  let ints := String.join (dumpInts.map fun f => s!" {f}={m.int f}")
  let el := if full then s!" error_len={m.int "error_len"}" else ""
  let ptrs := String.join (dumpPtrs.map fun (f, l) => showPtr m full f l)
  let es := if full then showPtr m full "error_str" "error_len" else ""
  s!"{ints}{el} addr={Hex.showHex (m.fix "addr")}{ptrs}{es}"

def fixCap (f : String) : Nat := ((fixMembers.find? (·.1 == f)).map (·.2)).getD 0

def setField (m : Msg) (tok : String) : Option Msg :=
  match tok.splitOn "=" with
  | [k, v] =>
      if ptrMembers.contains k then (Hex.ofHex v).map fun b => m.setBuf k (some b)
      else if (fixMembers.map (·.1)).contains k then
        (Hex.ofHex v).map fun b => m.setFix k (b.take (fixCap k) ++ (m.fix k).drop b.length)
      else v.toNat?.map fun n => m.setInt k n
  | _ => none

def setFields (m : Msg) (toks : List String) : Option Msg :=
  toks.foldlM setField m

def oobMark (st : USt) (n : Nat) : String := if st.oob n then " MODEL-OOB" else ""

def doUnpack (mok : Nat → Bool) (t : Nat) (b : List UInt8) : String :=
  let (rc, st) := unpack mok t Msg.fresh b b.length
  s!"rc={rc}{dump st.m (rc == EMUNGE_SUCCESS)}{oobMark st b.length}"

def doRt (mok : Nat → Bool) (t : Nat) (m : Msg) : String :=
  let n := length t m
  if n ≤ 0 then s!"n={n}" else
  let (rc, m', out) := pack t m n
  if rc ≠ EMUNGE_SUCCESS then s!"n={n} rc={rc} err={m'.int "error_num"}" else
  let (urc, st) := unpack mok t Msg.fresh out out.length
  s!"n={n} rc={rc} out={Hex.showHex out} urc={urc}{dump st.m (urc == EMUNGE_SUCCESS)}{oobMark st out.length}"

def doRecv (mok : Nat → Bool) (type : Nat) (maxlen : Int) (s : List UInt8) : String :=
  let r := recv mok Msg.fresh type maxlen s
  let oob := match r.body with | some st => oobMark st (r.consumed - recvHdrLen) | none => ""
  s!"rc={r.rc} pkt={if r.pktSet then "set" else "null"} left={s.length - r.consumed}{dump r.m (r.rc == EMUNGE_SUCCESS)}{oob}"

def doSend (mok : Nat → Bool) (t : Nat) (maxlen : Int) (m : Msg) : String :=
  let (rc, m', out) := send mok m t maxlen
  s!"rc={rc} err={m'.int "error_num"} pkt_len={m'.int "pkt_len"} out={Hex.showHex out}"

def doSetErr (seq : String) : String :=
  let calls := (seq.splitOn ",").map fun tok =>
    match tok.splitOn ":" with
    | [e, s] => (e.toNat?, if s == "null" then some none else (Hex.ofHex s).map some)
    | _ => (none, none)
  if calls.any (fun c => c.1.isNone || c.2.isNone) then "bad-op" else
  let (m, rets) := calls.foldl (fun (acc : Msg × List Int) c =>
    let (m', r) := setErr acc.1 (c.1.getD 0) (c.2.getD none)
    (m', acc.2 ++ [r])) (Msg.fresh, [])
  let es := match m.buf "error_str" with | none => "null" | some d => Hex.showHex d
  s!"ret={String.intercalate "," (rets.map toString)} error_num={m.int "error_num"} error_len={m.int "error_len"} error_str={es}"

def doReset (m : Msg) : String :=
  let m' := reset m
  s!"reset{dump m' true} realm_is_copy={m'.int "realm_is_copy"} data_is_copy={m'.int "data_is_copy"}"

def step (st : St) (args : List String) : St × String :=
  let mok : Nat → Bool := fun n => decide (n ≤ st.limit)
  match args with
  | ["limit", n] => match n.toNat? with
    | some n => ({ st with limit := n }, "ok")
    | none => (st, "bad-op")
  | _ =>
  (st, match args with
  | "rt" :: t :: fields =>
      match t.toNat?, setFields Msg.fresh fields with
      | some t, some m => doRt mok t m
      | _, _ => "bad-op"
  | ["unpack", t, h] =>
      match t.toNat?, hexArg h with
      | some t, some b => doUnpack mok t b
      | _, _ => "bad-op"
  | ["recv", t, ml, h] =>
      match t.toNat?, ml.toInt?, hexArg h with
      | some t, some ml, some b => doRecv mok t ml b
      | _, _, _ => "bad-op"
  | "send" :: t :: ml :: fields =>
      match t.toNat?, ml.toInt?, setFields Msg.fresh fields with
      | some t, some ml, some m => doSend mok t ml m
      | _, _, _ => "bad-op"
  | ["seterr", seq] => doSetErr seq
  | "reset" :: fields =>
      match setFields Msg.fresh fields with
      | some m => doReset m
      | none => "bad-op"
  | _ => "bad-op")

end Driver.Wire
