import Driver.Util
import Munge.Model.Sys
import Munge.Model.ToyPrims
/- Line-protocol handler for the `sys` model (same ops as harness/h_sys.c): one concurrent scenario per line. -/
namespace Driver.Sys
open Munge Munge.Cred Munge.Sys

structure St where
  dummy : Unit := ()

def init : St := {}

def kvOf (w : String) : Option (String × String) :=
  match w.splitOn "=" with
  | [k, v] => some (k, v)
  | _ => none

def flag (args : List String) (key : String) : Option String :=
  (args.filterMap kvOf).find? (·.1 == key) |>.map (·.2)

/-- the configuration of harness/h_sys.c (`conf_defaults`) -/
def cf0 : Conf :=
  { macKey := (List.range 20).map (fun i => UInt8.ofNat (0x11 + i)),
    dekKey := (List.range 20).map (fun i => UInt8.ofNat (0x77 - i)) }

/-- `mem=v:u:g;…` : membership triples (gid-map version, uid, gid) -/
def parseMem (s : String) : List (Nat × Nat × Nat) :=
  if s == "-" then [] else
  (s.splitOn ";").filterMap fun t =>
    match t.splitOn ":" with
    | [v, u, g] => do pure ((← v.toNat?), (← u.toNat?), (← g.toNat?))
    | _ => none

def world (mem : List (Nat × Nat × Nat)) : World :=
  { P := ToyPrims.prims, cf := cf0,
    gidMaps := fun ver u g => mem.contains (ver % 4, u, g),
    stream := fun i => UInt8.ofNat ((((i / 4) * 2654435761 + 12345) % 4294967296) / 256 ^ (i % 4) % 256) }

/-- `r=<hex>:<uid|fail>:<gid>:<now|fail>:<sendok>` -/
def parseReq (s : String) : Option Req :=
  match s.splitOn ":" with
  | [h, u, g, t, ok] => do
    let bytes ← hexArg h
    let peer : Option (Nat × Nat) := if u == "fail" then none else some (u.toNat?.getD 0, g.toNat?.getD 0)
    let now : Int := if t == "fail" then -1 else t.toInt?.getD 0
    pure { bytes := bytes, peer := peer, now := now, sendOk := ok != "0" }
  | _ => none

def stepOfName : String → Option Step
  | "recv" => some .recv | "lookup" => some .lookup | "salt" => some .salt | "iv" => some .iv
  | "insert" => some .insert | "send" => some .send | "remove" => some .remove
  | _ => none

def parseAct (s : String) : Option Act :=
  if s == "swap" then some .swap
  else if s.startsWith "purge@" then (s.drop 6).toString.toInt?.map Act.purge
  else match s.splitOn "." with
    | [i, st] => do pure (.req (← i.toNat?) (← stepOfName st))
    | _ => none

def showOuts (σ : State) (k : Nat) : String :=
  String.intercalate " " ((List.range k).map fun i => s!"o{i}={Hex.showHex ((outOf σ i).getD [])}")

def step (st : St) (args : List String) : St × String :=
  match args with
  | "scen" :: rest =>
    let reqs := rest.filterMap fun w => if w.startsWith "r=" then parseReq (w.drop 2).toString else none
    match flag rest "sched" with
    | none => (st, "bad-op")
    | some sched =>
      if reqs.isEmpty then (st, "bad-op")
      else if sched == "free" then (st, "free")
      else
        let W := world (parseMem ((flag rest "mem").getD "-"))
        let acts := (sched.splitOn ",").filterMap parseAct
        -- the harness runs whatever is left to completion, request by request
        let acts := acts ++ (List.range reqs.length).flatMap program
        let σ := run W reqs (initState []) acts
        (st, s!"{showOuts σ reqs.length} rs={σ.sh.replay.length}")
  | ["one", h, u, g, t] =>
    match parseReq s!"{h}:{u}:{g}:{t}:1" with
    | none => (st, "bad-op")
    | some r =>
      let σ := run (world []) [r] (initState []) (program 0)
      (st, showOuts σ 1)
  | _ => (st, "bad-op")

end Driver.Sys
