import Driver.Util
import Munge.Gen.Job
import Munge.Gen.Work
/- Line-protocol handler for the accept loop of job_accept (translation validation of Gen/Job.lean):
   `job run <trip> <trip> ...` with trip = gr:ra:errno:time:rn:rc:rb:rq  ->  the events of all trips in order, then the do_wait argument of the closing work_fini (Gen.Work).
   The variables that live across trips (last_log_errno, last_log_time) are threaded through the kernel's writes. -/
namespace Driver.Job
open Munge.C Munge.Gen.Job

structure St where
  dummy : Unit := ()
def init : St := {}

def renderEvents (o : KOut) : String :=
  String.intercalate ";" (o.events.map fun (n, a) => s!"{n}({String.intercalate "," (a.map toString)})")

def trips (ts : List (List Int)) (lle llt : Int) (acc : List String) : Option (List String) :=
  match ts with
  | [] => some acc.reverse
  | [gr, ra, e, t, rn, rc, rb, rq] :: rest =>
      let o := job_accept_iter gr e lle llt ra t rn rc rb rq
      trips rest (o.get "last_log_errno" lle) (o.get "last_log_time" llt) (renderEvents o :: acc)
  | _ => none

def step (st : St) (args : List String) : St × String :=
  match args with
  | "run" :: rest =>
      match rest.mapM (fun w => ints (w.splitOn ":")) with
      | some ts => match trips ts 0 0 [] with
        | some out => (st, String.intercalate ";" (out.filter (· ≠ "")) ++ s!" fini={if Munge.Gen.Work.jobStopDoWait then 1 else 0}")
        | none => (st, "bad-op")
      | none => (st, "bad-op")
  | _ => (st, "bad-op")

end Driver.Job
