import Driver.Fd
/- Stand-alone entry for the `Fd` model (Driver/Main.lean is shared and does not dispatch `fd`):
   cd lean && lake env lean --run Driver/FdMain.lean   -- reads op lines `fd ...` on stdin, one answer line each -/

partial def fdLoop (h : IO.FS.Stream) (out : IO.FS.Stream) (st : Driver.Fd.St) : IO Unit := do
  let line ← h.getLine
  if line.isEmpty then return ()
  let (st', o) := match Driver.words line with
    | "fd" :: args => Driver.Fd.step st args
    | _ => (st, "bad-op")
  out.putStrLn o
  fdLoop h out st'

def main : IO Unit := do
  let stdin ← IO.getStdin
  let stdout ← IO.getStdout
  fdLoop stdin stdout Driver.Fd.init
