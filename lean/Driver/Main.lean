import Driver.Util
import Driver.B64
/-
Line-protocol driver for the executable models.  One operation per input line,
exactly one output line per operation.  The first word selects the model.
Stateful models keep their state in `St`.
-/
namespace Driver

structure St where
  dummy : Unit := ()

def step (st : St) (line : String) : St × String :=
  match words line with
  | "b64" :: args => (st, B64.handle args)
  | _ => (st, "bad-op")

partial def loop (h : IO.FS.Stream) (out : IO.FS.Stream) (st : St) : IO Unit := do
  let line ← h.getLine
  if line.isEmpty then return ()
  let (st', o) := step st line
  out.putStrLn o
  loop h out st'

end Driver

def main : IO Unit := do
  let stdin ← IO.getStdin
  let stdout ← IO.getStdout
  Driver.loop stdin stdout {}
