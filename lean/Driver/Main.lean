import Driver.Util
import Driver.B64
import Driver.Wire
import Driver.Kern
import Driver.Hash
import Driver.Work
import Driver.Timer
import Driver.Gids
import Driver.Path
import Driver.Hkdf
import Driver.Start
import Driver.Cred
import Driver.Retry
import Driver.Sys
import Driver.Job
/-
Line-protocol driver for the executable models.  One operation per input line,
exactly one output line per operation.  The first word selects the model; each
model owns `Driver/<Model>.lean` (`St`, `init`, `step`).
-/
namespace Driver

structure St where
  wire : Wire.St := Wire.init
  kern : Kern.St := Kern.init
  hash : Hash.St := Hash.init
  work : Work.St := Work.init
  timer : Timer.St := Timer.init
  gids : Gids.St := Gids.init
  path : Path.St := Path.init
  hkdf : Hkdf.St := Hkdf.init
  start : Start.St := Start.init
  cred : Cred.St := Cred.init
  retry : Retry.St := Retry.init
  sys : Sys.St := Sys.init

def step (st : St) (line : String) : St × String :=
  match words line with
  | "b64" :: args => (st, B64.handle args)
  | "wire" :: args => let (s, o) := Wire.step st.wire args; ({ st with wire := s }, o)
  | "kern" :: args => let (s, o) := Kern.step st.kern args; ({ st with kern := s }, o)
  | "hash" :: args => let (s, o) := Hash.step st.hash args; ({ st with hash := s }, o)
  | "work" :: args => let (s, o) := Work.step st.work args; ({ st with work := s }, o)
  | "timer" :: args => let (s, o) := Timer.step st.timer args; ({ st with timer := s }, o)
  | "gids" :: args => let (s, o) := Gids.step st.gids args; ({ st with gids := s }, o)
  | "path" :: args => let (s, o) := Path.step st.path args; ({ st with path := s }, o)
  | "hkdf" :: args => let (s, o) := Hkdf.step st.hkdf args; ({ st with hkdf := s }, o)
  | "start" :: args => let (s, o) := Start.step st.start args; ({ st with start := s }, o)
  | "cred" :: args => let (s, o) := Cred.step st.cred args; ({ st with cred := s }, o)
  | "retry" :: args => let (s, o) := Retry.step st.retry args; ({ st with retry := s }, o)
  | "sys" :: args => let (s, o) := Sys.step st.sys args; ({ st with sys := s }, o)
  | "job" :: args => (st, (Job.step {} args).2)
  | _ => (st, "bad-op")

partial def loop (h : IO.FS.Stream) (out : IO.FS.Stream) (st : St) : IO Unit := do
  let line ← h.getLine
  if line.isEmpty then return ()
  let (st', o) := step st line
  out.putStrLn o
  loop h out st'

end Driver

def main : IO Unit := do
  let stdin ← IO.getStdin
  let stdout ← IO.getStdout
  Driver.loop stdin stdout {}
