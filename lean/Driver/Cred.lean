import Driver.Util
import Munge.Model.ToyPrims
/- Line-protocol handler for the credential / request model (same ops as harness/h_cred.c, toy variant). -/
namespace Driver.Cred
open Munge Munge.Cred

structure St where
  cf : Conf := { macKey := (List.range 20).map (fun i => UInt8.ofNat (0x11 + i)),
                 dekKey := (List.range 20).map (fun i => UInt8.ofNat (0x77 - i)) }
  now : Int := 1000000
  peer : Option (Nat × Nat) := some (1000, 1000)
  rnd : Bytes := []
  mem : List (Nat × Nat) := []
  rs : ReplaySet := []

def init : St := {}

def kvOf (w : String) : Option (String × String) :=
  match w.splitOn "=" with
  | [k, v] => some (k, v)
  | _ => none

def parsePair (s : String) : Option (Nat × Nat) :=
  match s.splitOn ":" with
  | [a, b] => do pure ((← a.toNat?), (← b.toNat?))
  | _ => none

def hexNat (s : String) : Nat :=
  s.toList.foldl (fun acc c => acc * 16 + ((Hex.hexVal c).getD 0)) 0

def setEnv (st : St) (args : List String) : St :=
  args.foldl (fun st w =>
    match kvOf w with
    | some ("now", v) => { st with now := if v == "fail" then -1 else (v.toInt?.getD st.now) }
    | some ("peer", v) => { st with peer := if v == "fail" then none else parsePair v }
    | some ("rnd", v) => { st with rnd := ((Hex.ofHex v).getD []).take 64 }
    | some ("mem", v) => { st with mem := if v == "-" then [] else (v.splitOn ";").filterMap parsePair }
    | some ("maxttl", v) => { st with cf := { st.cf with maxTtl := v.toInt?.getD 0 } }
    | some ("defttl", v) => { st with cf := { st.cf with defTtl := v.toInt?.getD 0 } }
    | some ("skew", v) => { st with cf := { st.cf with gotClockSkew := v != "0" } }
    | some ("rootauth", v) => { st with cf := { st.cf with gotRootAuth := v != "0" } }
    | some ("retryflag", v) => { st with cf := { st.cf with gotSocketRetry := v != "0" } }
    | some ("defc", v) => { st with cf := { st.cf with defCipher := v.toNat?.getD 0 } }
    | some ("defm", v) => { st with cf := { st.cf with defMac := v.toNat?.getD 0 } }
    | some ("defz", v) => { st with cf := { st.cf with defZip := v.toNat?.getD 0 } }
    | some ("addr", v) => { st with cf := { st.cf with addr := be32 (hexNat v) } }
    | some ("mackey", v) => { st with cf := { st.cf with macKey := ((Hex.ofHex v).getD []).take 64 } }
    | some ("dekkey", v) => { st with cf := { st.cf with dekKey := ((Hex.ofHex v).getD []).take 64 } }
    | _ => st) st

def flag (args : List String) (key : String) : Option String :=
  (args.filterMap kvOf).find? (·.1 == key) |>.map (·.2)

def step (st : St) (args : List String) : St × String :=
  match args with
  | "req" :: h :: rest =>
    match hexArg h with
    | none => (st, "bad-op")
    | some req =>
      let st := setEnv st rest
      let sendOk := (flag rest "sendfail").getD "0" == "0"
      let req := match (flag rest "cut").bind String.toNat? with
        | some k => req.take k
        | none => req
      -- a stalled client: the daemon gets a prefix and, after its I/O timeout, drops the connection
      let req := match (flag rest "stall").bind String.toNat? with
        | some k => req.take k
        | none => req
      let env : Env := { now := st.now, peer := st.peer, rnd := st.rnd,
                         member := fun u g => st.mem.contains (u, g) }
      let (rsp, rs') := jobExec ToyPrims.prims st.cf env st.rs req sendOk
      let oob := match recvMsg req with
        | .dec m => (decProcess ToyPrims.prims st.cf env st.rs m).oob
        | _ => false
      ({ st with rs := rs' }, if oob then "oob" else s!"rsp={Hex.showHex (rsp.getD [])} leak=0")
  | ["forge", c, mc, z, realm, iv, plain] =>
    match c.toNat?, mc.toNat?, z.toNat?, hexArg realm, hexArg iv, hexArg plain with
    | some c, some mc, some z, some realm, some iv, some plain =>
      (st, s!"cred={Hex.showHex (forge ToyPrims.prims st.cf c mc z realm iv plain)}")
    | _, _, _, _, _, _ => (st, "bad-op")
  | ["zip", z, h] =>
    match z.toNat?, hexArg h with
    | some z, some b => (st, s!"zip={Hex.showHex (zipCompress ToyPrims.prims z b)}")
    | _, _ => (st, "bad-op")
  | "conf" :: rest => (setEnv st rest, "ok")
  | "replay-reset" :: _ => ({ st with rs := [] }, "ok")
  | "purge" :: rest => let st := setEnv st rest; ({ st with rs := purge st.rs st.now }, "ok")
  | "reset-conf" :: _ => ({ st with cf := init.cf }, "ok")
  | _ => (st, "bad-op")

end Driver.Cred
