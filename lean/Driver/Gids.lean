import Driver.Util
/- Line-protocol handler for the `gids` model (stub until the model exists). -/
namespace Driver.Gids

structure St where
  dummy : Unit := ()

def init : St := {}

def step (st : St) (_args : List String) : St × String := (st, "bad-op")

end Driver.Gids
