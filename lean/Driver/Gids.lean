import Driver.Util
import Munge.Model.Gids
/-
Line-protocol handler for the `Gids` model (C17).  One line = one self-contained scenario
(see harness/h_gids.c and tools/props/c17.py for the syntax):

    gids <gnu|eb> <step> <step> ...

The refresh is executed with the verified definitions only: `scanItem` consumes the `xgetgrent`
results produced by the concrete reader (`xgetgrent` over the scripted `getgrent_r`), and the same
item list is then replayed through the micro-step system `sysStep`, with the armed lookups / SIGHUP
inserted at the requested point of the build.
-/
namespace Driver.Gids
open Munge Munge.C Munge.Gids Munge.Gen.Gids

structure St where
  dummy : Unit := ()

def init : St := {}

/-- scenario state -/
structure Sc where
  eb : Bool
  sys : Option (Sys PwEnv) := none
  pend : List (Int × Int) := []            -- pending timers (id, msec), oldest first
  env : UpdEnv := ⟨0, 0, 0⟩
  scans : List (List GrSItem) := []
  pwScripts : List (String × List PwResp) := []
  grbuflen : Nat := 0                       -- the function-local statics of `_gids_map_create`
  pwbuflen : Nat := 0
  gtodFail : Nat := 0
  armL : Option (Nat × List (Int × Int)) := none
  armU : Nat := 0

def splitNE (s : String) (sep : String) : List String := s.splitOn sep

def memberName (s : String) : String := if s == "~" then "" else s

def parseNat (s : String) : Nat := s.toNat?.getD 0
def parseInt (s : String) : Int := s.toInt?.getD 0

/-- `g<gid>=<m>,<m>[@need][!eintr]` or `e<errno>` -/
def parseGrItem (s : String) : GrSItem :=
  if s.startsWith "e" then .err (parseInt (s.drop 1).toString) else
  let (s, eintr) := match s.splitOn "!" with
    | [a, b] => (a, parseNat b)
    | _ => (s, 0)
  let (s, need) := match s.splitOn "@" with
    | [a, b] => (a, parseNat b)
    | _ => (s, 0)
  match s.splitOn "=" with
  | [g, ms] =>
    let mem := if ms == "" then [] else (ms.splitOn ",").map memberName
    .ent (parseInt (g.drop 1).toString) mem need eintr
  | _ => .err 0

def parseGroups (s : String) : List (List GrSItem) :=
  if s == "-" then [] else
  (s.splitOn "|").map fun sc => if sc == "" then [] else (sc.splitOn ";").map parseGrItem

def parsePwResp (s : String) : PwResp :=
  if s.startsWith "e" then .rc (parseInt (s.drop 1).toString) else
  match s.splitOn "@" with
  | [a, b] => .uid (parseInt a) (parseNat b)
  | _ => .uid (parseInt s) 0

def parsePasswd (s : String) : List (String × List PwResp) :=
  if s == "-" then [] else
  (s.splitOn ";").map fun e =>
    match e.splitOn "=" with
    | [n, rs] => (memberName n, (rs.splitOn "/").map parsePwResp)
    | _ => (e, [])

def parsePairs (s : String) : List (Int × Int) :=
  (s.splitOn ",").map fun p =>
    match p.splitOn "." with
    | [u, g] => (parseInt u, parseInt g)
    | _ => (parseInt p, 0)

/-- apply the timer events of a kernel run to the pending queue; returns the printed tokens -/
def timerEvents (evs : List (String × List Int)) (newId : Int) (pend : List (Int × Int)) :
    List (Int × Int) × List String :=
  evs.foldl (fun (acc : List (Int × Int) × List String) e =>
    let (pend, out) := acc
    match e with
    | ("timer_set_relative", [ms]) => (pend ++ [(newId, ms)], out ++ [s!"S{ms}"])
    | ("timer_cancel", [id]) =>
      if pend.any (·.1 == id) then (pend.filter (·.1 != id), out ++ ["X1"]) else (pend, out ++ ["X0"])
    | _ => (pend, out)) (pend, [])

def bits (l : List Bool) : String := String.ofList (l.map fun b => if b then '1' else '0')

/-- pass 1: let the verified scan loop consume the reader; returns the `xgetgrent` results of this build -/
def collect (eb : Bool) : Nat → GrEnv → BSt PwEnv → List GrItem → List GrItem × GrEnv
  | 0, rd, _, acc => (acc.reverse, rd)
  | fuel + 1, rd, st, acc =>
    let (it, rd') := xgetgrent eb 200 rd
    match scanItem pwOracle st it with
    | .done _ _ => ((it :: acc).reverse, rd')
    | .cont st' restarted => collect eb fuel (if restarted then rd'.init else rd') st' (it :: acc)

def isEnt : GrItem → Bool
  | .ent .. => true
  | _ => false

/-- pass 2: the micro-step system over the collected items, with the armed actions before the k-th entry -/
def replay (sc : Sc) : Sys PwEnv → List GrItem → Nat → List (Int × Int) → List String → Option String →
    Sys PwEnv × List (Int × Int) × List String × Option String
  | s, [], _, pend, evs, lres => (s, pend, evs, lres)
  | s, it :: rest, delivered, pend, evs, lres =>
    let delivered := if isEnt it then delivered + 1 else delivered
    let lres := match sc.armL with
      | some (k, qs) =>
        if isEnt it ∧ delivered = k then some (bits (qs.map fun (u, g) => isMember s.sh.installed u g)) else lres
      | none => lres
    let (s, pend, evs) :=
      if isEnt it ∧ sc.armU ≠ 0 ∧ delivered = sc.armU then
        let k := hupKernel s.sh s.timerSeq
        let (pend', o) := timerEvents k.events s.timerSeq pend
        ((sysStep pwOracle s .hup).1, pend', evs ++ o)
      else (s, pend, evs)
    match s.phase with
    | .building .. => replay sc (sysStep pwOracle s .upd).1 rest delivered pend evs lres
    | _ => (s, pend, evs, lres)

def stepT (sc : Sc) : Sc × String :=
  match sc.sys, sc.pend with
  | some s0, _ :: pendRest =>
    let pw0 : PwEnv := { buflen := if sc.pwbuflen = 0 then PW_SYS_SIZE.toNat else sc.pwbuflen, scripts := sc.pwScripts }
    let s0 := { s0 with env := sc.env, pw := pw0 }
    let s1 := (sysStep pwOracle s0 .upd).1                       -- first locked section
    let (d, t) := match s1.phase with
      | .sec1 d t => (d, t)
      | _ => (s0.sh.doStat, s0.sh.tLast)
    let wants := wantsBuild d t s1.sh s1.env
    let rd0 : GrEnv := { buflen := if sc.grbuflen = 0 then GR_SYS_SIZE.toNat else sc.grbuflen, scans := sc.scans }
    -- the build
    let (s2, rd, pend, evs, lres) :=
      if wants ∧ sc.gtodFail = 1 then
        -- `_gids_map_create` fails before it starts to scan
        ({ s1 with phase := .built d t s1.env none }, rd0, pendRest, [], (none : Option String))
      else if wants then
        let (items, rd) := collect sc.eb 1000000 rd0.init (initBSt pw0) []
        let s1 := { s1 with db := items }
        let sb := (sysStep pwOracle s1 .upd).1
        let (s2, pend, evs, lres) := replay sc sb items 0 pendRest [] none
        (s2, rd, pend, evs, lres)
      else ((sysStep pwOracle s1 .upd).1, rd0, pendRest, [], none)
    -- second locked section
    let (res, ok) := match s2.phase with
      | .built _ _ _ r => (r, true)
      | _ => (none, false)
    let res := if sc.gtodFail = 2 then none else res
    let s2 := if sc.gtodFail = 2 then { s2 with phase := .built d t s1.env none } else s2
    let k := updKernel d t s2.sh s1.env res s2.timerSeq
    let (pend, o) := timerEvents k.events s2.timerSeq pend
    let s3 := (sysStep pwOracle s2 .upd).1
    let built := res.isSome
    let sc' := { sc with sys := some s3, pend := pend, pwScripts := s3.pw.scripts,
                         grbuflen := if built then rd.buflen else sc.grbuflen,
                         pwbuflen := if built then s3.pw.buflen else sc.pwbuflen,
                         gtodFail := 0, armL := none, armU := 0 }
    let ltxt := match sc.armL with
      | some _ => "{" ++ lres.getD "-" ++ "}"
      | none => ""
    let inits := if wants ∧ sc.gtodFail ≠ 1 then rd.scanIdx else 0
    let grl := if wants ∧ sc.gtodFail ≠ 1 then rd.lastLen else 0
    let pwl := if wants ∧ sc.gtodFail ≠ 1 then s3.pw.lastLen else 0
    (sc', s!"T{inits}.{grl}.{pwl}[{String.intercalate "," (evs ++ o)}]{ltxt}" ++ (if ok then "" else "!phase"))
  | _, _ => (sc, "T-")

def step1 (sc : Sc) (w : String) : Sc × String :=
  let f := w.splitOn ":"
  match f with
  | ["C", i, d] =>
    match create (parseInt i) (parseInt d) 1 with
    | none => ({ sc with sys := none }, "C-")
    | some sh =>
      let k := hupKernel { installed := none, tLast := 0, doStat := parseInt d, interval := parseInt i, timer := 0 } 1
      let (pend, o) := timerEvents k.events 1 sc.pend
      let s : Sys PwEnv := { sh := sh, phase := .idle, env := sc.env, db := [], pw := { buflen := 0, scripts := [] },
                             timerSeq := 2 }
      ({ sc with sys := some s, pend := pend }, s!"C[{String.intercalate "," o}]")
  | ["E", now, mt] =>
    let env : UpdEnv := if mt == "x" then ⟨parseInt now, -1, 0⟩ else ⟨parseInt now, 0, parseInt mt⟩
    ({ sc with env := env }, "E")
  | ["D", g, p] =>
    ({ sc with scans := parseGroups g, pwScripts := parsePasswd p }, "D")
  | ["G", k] => ({ sc with gtodFail := parseNat k }, "G")
  | ["L", k, qs] => ({ sc with armL := some (parseNat k, parsePairs qs) }, "L")
  | ["U", k] => ({ sc with armU := parseNat k }, "U")
  | ["H"] =>
    match sc.sys with
    | some s =>
      let k := hupKernel s.sh s.timerSeq
      let (pend, o) := timerEvents k.events s.timerSeq sc.pend
      ({ sc with sys := some (sysStep pwOracle s .hup).1, pend := pend }, s!"H[{String.intercalate "," o}]")
    | none => (sc, "H[]")
  | ["Q", qs] =>
    (sc, "Q" ++ bits ((parsePairs qs).map fun (u, g) =>
      match sc.sys with
      | some s => isMember s.sh.installed u g
      | none => false))          -- `gids == NULL`: gids_is_member returns 0
  | ["T"] => stepT sc
  | _ => (sc, "?")

def scenario (variant : String) (ws : List String) : String :=
  let sc0 : Sc := { eb := variant == "eb" }
  let (_, outs) := ws.foldl (fun (acc : Sc × List String) w =>
    let (sc, o) := step1 acc.1 w
    (sc, acc.2 ++ [o])) (sc0, [])
  String.intercalate " " outs

def step (st : St) (args : List String) : St × String :=
  match args with
  | v :: ws => if v == "gnu" ∨ v == "eb" then (st, scenario v ws) else (st, "bad-op")
  | _ => (st, "bad-op")

end Driver.Gids
