import Driver.Util
import Munge.Model.Base64
namespace Driver.B64
open Munge Munge.Base64

def decs (chunks : List (List UInt8)) : String :=
  let r := chunks.foldl (fun (acc : DecCtx × List UInt8 × Int) ch =>
    let (x, out, rc) := acc
    if rc != 0 then acc else
    let (rc', o, x') := decodeUpdate x ch
    (x', out ++ o, rc')) ({}, [], 0)
  let (x, out, rc) := r
  let rc := if rc != 0 then rc else decodeFinal x
  s!"rc={rc} out={Hex.showHex out}"

def handle : List String → String
  | ["enc", h] => match hexArg h with
    | some b => s!"out={Hex.showHex (encodeBlock b)} w={encodeBlockWritten b}"
    | none => "bad-op"
  | ["encs", cs] => match chunksArg cs with
    | some c => s!"out={Hex.showHex (encodeChunks c)}"
    | none => "bad-op"
  | ["dec", h] => match hexArg h with
    | some b => let r := decodeBlock b; s!"rc={r.1} out={Hex.showHex r.2} w={decodeBlockWritten b}"
    | none => "bad-op"
  | ["decs", cs] => match chunksArg cs with
    | some c => decs c
    | none => "bad-op"
  | ["elen", n] => match intArg n with
    | some n => s!"{(Gen.Base64.base64_encode_length n).ret}"
    | none => "bad-op"
  | ["dlen", n] => match intArg n with
    | some n => s!"{(Gen.Base64.base64_decode_length n).ret}"
    | none => "bad-op"
  | _ => "bad-op"

end Driver.B64
