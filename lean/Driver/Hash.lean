import Driver.Util
import Munge.Model.Replay
/- Line-protocol handler for the `hash` model: `Munge.Hash` (raw table over integer keys),
   `Munge.Replay` (replay.c on top of it) and the daemon-level decode step.  The C side is
   harness/h_hash.c; every op prints exactly one line. -/
namespace Driver.Hash
open Munge Munge.C Munge.Hash Munge.Replay Munge.Gen.Hash

structure St where
  replay : Replay.State := {}
  cfg : Replay.Cfg := {}
  now : Int := 0
  raw : Table Int := Table.empty 1
  rawShift : Nat := 0

def init : St := {}

def sgn (x : Int) : Int := if x < 0 then -1 else if x > 0 then 1 else 0

/-- comparator / key function of the raw table in the harness: numeric order, slot of `k` is `(k >>> shift) % size` -/
def rawCmp (a b : Int) : Int := if a < b then -1 else if a > b then 1 else 0
def rawKey (shift : Nat) (k : Int) : Nat := k.toNat >>> shift

def showKey (k : Key) : String := s!"{Hex.showHex k.mac}:{k.exp}"

def count (st : Replay.State) : Int := match st.table with | some t => t.count | none => -1

def showOutcome (o : Outcome) (n : Int) : String :=
  let ins := match o.insertRet with | some r => toString r | none => "x"
  s!"code={o.code} delivered={if o.delivered then 1 else 0} ins={ins} withdrew={if o.withdrew then 1 else 0} n={n}"

def b (s : String) : Option Bool := match s with | "1" => some true | "0" => some false | _ => none

def step (st : St) (args : List String) : St × String :=
  match args with
  | ["init"] => ({ st with replay := Replay.init st.replay }, "ok")
  | ["fini"] => ({ st with replay := Replay.fini st.replay }, "ok")
  | ["bench", v] => match b v with
    | some v => ({ st with replay := { st.replay with benchmark := v } }, "ok")
    | none => (st, "bad-op")
  | ["conf", a, b', c] => match intArg a, intArg b', intArg c with
    | some a, some b', some c => ({ st with cfg := ⟨a, b', c⟩ }, "ok")
    | _, _, _ => (st, "bad-op")
  | ["clock", t] => match intArg t with
    | some t => ({ st with now := t }, "ok")
    | none => (st, "bad-op")
  | ["ins", m, t0, ttl] => match hexArg m, intArg t0, intArg ttl with
    | some m, some t0, some ttl =>
      let (s', rc, _) := Replay.insert st.replay ⟨m, t0, ttl⟩
      ({ st with replay := s' }, s!"rc={rc} n={count s'}")
    | _, _, _ => (st, "bad-op")
  | ["rem", m, t0, ttl] => match hexArg m, intArg t0, intArg ttl with
    | some m, some t0, some ttl =>
      let (s', rc) := Replay.remove st.replay ⟨m, t0, ttl⟩
      ({ st with replay := s' }, s!"rc={rc} n={count s'}")
    | _, _, _ => (st, "bad-op")
  | ["purge", t] => match intArg t with
    | some t =>
      let (s', k) := Replay.purge st.replay t
      ({ st with replay := s', now := t },
        s!"purged={k} n={count s'} rearm={if s'.table.isSome then purgeRearmMsecs else -1}")
    | none => (st, "bad-op")
  | ["find", m, e] => match hexArg m, intArg e with
    | some m, some e =>
      let r := match st.replay.table with
        | some t => (Hash.find Replay.cmp keyf t ⟨m.take MAC_KEEP, e⟩).isSome
        | none => false
      (st, s!"found={if r then 1 else 0}")
    | _, _ => (st, "bad-op")
  | ["dump"] =>
    let l := st.replay.items
    (st, s!"n={count st.replay} " ++ (if l.isEmpty then "-" else String.intercalate "," (l.map showKey)))
  | ["cmp", m1, e1, m2, e2] => match hexArg m1, intArg e1, hexArg m2, intArg e2 with
    | some m1, some e1, some m2, some e2 =>
      (st, s!"{sgn (Replay.cmp ⟨m1.take MAC_KEEP, e1⟩ ⟨m2.take MAC_KEEP, e2⟩)}")
    | _, _, _, _ => (st, "bad-op")
  | ["key", m] => match hexArg m with
    | some m => (st, s!"{keyf ⟨m.take MAC_KEEP, 0⟩}")
    | none => (st, "bad-op")
  | ["exp", e, t] => match intArg e, intArg t with
    | some e, some t => (st, s!"{isExpired t ⟨[], e⟩}")
    | _, _ => (st, "bad-op")
  | ["vt", t0, ttl, t1, mx, sk] => match ints [t0, ttl, t1, mx, sk] with
    | some [t0, ttl, t1, mx, sk] =>
      let o := dec_validate_time t0 ttl t1 mx sk
      (st, s!"rc={o.ret} err={if o.ret < 0 then errOf o else 0} ttl={ttlAfter o ttl}")
    | _ => (st, "bad-op")
  | ["vr", m, t0, ttl, retry, gsr] => match hexArg m, ints [t0, ttl, retry, gsr] with
    | some m, some [t0, ttl, retry, gsr] =>
      let (s', ins, errno) := Replay.insert st.replay ⟨m, t0, ttl⟩
      let o := dec_validate_replay retry gsr errno ins
      ({ st with replay := s' }, s!"rc={o.ret} err={if o.ret < 0 then errOf o else 0} n={count s'}")
    | _, _ => (st, "bad-op")
  | ["req", m, t0, ttl, retry, pre, auth, send] =>
    match hexArg m, ints [t0, ttl, retry, pre], b auth, b send with
    | some m, some [t0, ttl, retry, pre], some auth, some send =>
      let (d', o) := attempt genRollback st.cfg ⟨st.replay, st.now⟩ ⟨m, t0, ttl, retry, pre, auth, send⟩
      ({ st with replay := d'.replay }, showOutcome o (count d'.replay))
    | _, _, _, _ => (st, "bad-op")
  | ["race", k, m, t0, ttl] => match natArg k, hexArg m, intArg t0, intArg ttl with
    | some k, some m, some t0, some ttl =>
      -- `replay_insert` is one atomic step: whatever the schedule, the k calls happen in some order
      let (s', z, e, x) := (List.range k).foldl (fun (acc : Replay.State × Nat × Nat × Nat) _ =>
        let (s, z, e, x) := acc
        let (s', rc, _) := Replay.insert s ⟨m, t0, ttl⟩
        if rc = 0 then (s', z + 1, e, x) else if rc = 1 then (s', z, e + 1, x) else (s', z, e, x + 1)) (st.replay, 0, 0, 0)
      ({ st with replay := s' }, s!"zeros={z} ones={e} errs={x} n={count s'}")
    | _, _, _, _ => (st, "bad-op")
  | ["hnew", n, sh] => match natArg n, natArg sh with
    | some n, some sh => ({ st with raw := Table.empty n, rawShift := sh }, "ok")
    | _, _ => (st, "bad-op")
  | ["hins", k] => match intArg k with
    | some k =>
      let (t', r) := Hash.insert rawCmp (rawKey st.rawShift) st.raw k
      ({ st with raw := t' }, s!"r={if r then 1 else 0} n={t'.count}")
    | none => (st, "bad-op")
  | ["hrem", k] => match intArg k with
    | some k =>
      let (t', r) := Hash.remove rawCmp (rawKey st.rawShift) st.raw k
      ({ st with raw := t' }, s!"r={match r with | some d => toString d | none => "-"} n={t'.count}")
    | none => (st, "bad-op")
  | ["hfind", k] => match intArg k with
    | some k =>
      (st, s!"r={match Hash.find rawCmp (rawKey st.rawShift) st.raw k with | some d => toString d | none => "-"}")
    | none => (st, "bad-op")
  | ["hdel", m, r] => match intArg m, intArg r with
    | some m, some r =>
      -- arg_f returns 1 when k % m = r, 0 when k % m = r + 1 (mod m), -1 otherwise
      let f : Int → Int := fun k => if k % m = r then 1 else if k % m = (r + 1) % m then 0 else -1
      let (t', n) := Hash.deleteIf f st.raw
      ({ st with raw := t' }, s!"r={n} n={t'.count}")
    | _, _ => (st, "bad-op")
  | ["hdump"] =>
    let l := st.raw.toList
    (st, s!"n={st.raw.count} " ++ (if l.isEmpty then "-" else String.intercalate "," (l.map toString)))
  | _ => (st, "bad-op")

end Driver.Hash
