import Driver.Util
import Munge.Model.Start
/-
Line-protocol handler for the `Start` model (C15).

  start prog                 the compiled program:  startup=<op,op,…> shutdown=<op,…> reval=<0|1>
  start sys                  the generated call order on the main path of `main` (helpers inlined): <sys,sys,…>
  start run <ev,ev,…>        run a schedule from the initial state and print the observation of the final state
      events:  s<p> start   x<p> one call of p   x<p>*<n> n calls   X<p> run p until it serves or is gone
               t<p> SIGTERM   k<p> SIGKILL
  start runx <variant> <ev,…>  same on a variant of the program:  cur | strip (no re-validation) | add (re-validation added)
  observation:  sock=<0|1> lock=<0|1> pid=<0|1> seed=<0|1> server=<p|-> owners=<p+p|-> ph=<p>:<phase>:<pc>;…
-/
namespace Driver.Start
open Munge.Start Munge.Gen.Start

structure St where
  dummy : Unit := ()

def init : St := {}

def nameStr : Name → String
  | .sock => "sock" | .lock => "lock" | .pid => "pid" | .seed => "seed" | .other => "other"

def fdStr : Fd → String
  | .listen => "listen" | .lock => "lock" | .tmp => "tmp"

def opStr : Op → String
  | .unlink n => s!"unlink:{nameStr n}"
  | .openLock c e m => s!"openLock:{if c then 1 else 0}{if e then 1 else 0}:{m}"
  | .fstatLock => "fstatLock"
  | .setlk => "setlk"
  | .revalidate => "revalidate"
  | .socket => "socket"
  | .bind => "bind"
  | .listen => "listen"
  | .create n m => s!"create:{nameStr n}:{m}"
  | .closeListen => "closeListen"
  | .closeLock => "closeLock"

def sysStr : Sys → String
  | .unlink n => s!"unlink:{nameStr n}"
  | .openF n c e _ m => s!"open:{nameStr n}:{if c then 1 else 0}{if e then 1 else 0}:{m}"
  | .fopenW n => s!"fopenw:{nameStr n}"
  | .close fd => s!"close:{fdStr fd}"
  | .fstat fd => s!"fstat:{fdStr fd}"
  | .stat n => s!"stat:{nameStr n}"
  | .setlk x w => s!"setlk:{if x then 1 else 0}{if w then 1 else 0}"
  | .setlkw x w => s!"setlkw:{if x then 1 else 0}{if w then 1 else 0}"
  | .getlk => "getlk"
  | .socket => "socket"
  | .bind n => s!"bind:{nameStr n}"
  | .listen => "listen"
  | .umask (some v) => s!"umask:{v}"
  | .umask none => "umask:-"
  | .write fd => s!"write:{fdStr fd}"
  | .check f => s!"check:{f}"
  | .call f => s!"call:{f}"
  | .serve => "serve"
  | .die => "die"
  | .dieUnlessForce => "dieUnlessForce"
  | .exit => "exit"

def phaseStr : Phase → String
  | .idle => "idle" | .starting => "starting" | .serving => "serving" | .stopping => "stopping"
  | .exited true => "exit0" | .exited false => "exit1" | .crashed => "killed"

def parseEv (tok : String) : Option (List (Option Event × Pid)) :=
  -- returns events; `none` event = "run p to completion"
  match tok.toList with
  | c :: rest =>
    let body := String.ofList rest
    match body.splitOn "*" with
    | [p] => match p.toNat? with
      | some p => match c with
        | 's' => some [(some (.start p), p)]
        | 'x' => some [(some (.exec p), p)]
        | 't' => some [(some (.term p), p)]
        | 'k' => some [(some (.crash p), p)]
        | 'X' => some [(none, p)]
        | _ => none
      | none => none
    | [p, n] => match p.toNat?, n.toNat? with
      | some p, some n => if c == 'x' then some (List.replicate n (some (.exec p), p)) else none
      | _, _ => none
    | _ => none
  | [] => none

def busy (s : State) (p : Pid) : Bool :=
  ((s.procs p).phase == .starting || (s.procs p).phase == .stopping) && !(s.procs p).todo.isEmpty

def runToEnd (P : Prog) : Nat → State → Pid → State
  | 0, s, _ => s
  | n + 1, s, p => if busy s p then runToEnd P n (step P s (.exec p)) p else s

def pcOf (P : Prog) (pr : Proc) : Nat :=
  match pr.phase with
  | .starting => P.startup.length - pr.todo.length
  | .stopping => P.shutdown.length - pr.todo.length
  | _ => 0

def insertPid (l : List Pid) (p : Pid) : List Pid := if l.contains p then l else l ++ [p]

def observe (P : Prog) (s : State) (pids : List Pid) : String :=
  let b (n : Name) : String := if (s.names n).isSome then "1" else "0"
  let owners := pids.filter fun p => (s.procs p).own
  let ownersS := if owners.isEmpty then "-" else "+".intercalate (owners.map toString)
  let server := match serverOf s with | some p => toString p | none => "-"
  let ph := ";".intercalate (pids.map fun p => s!"{p}:{phaseStr (s.procs p).phase}:{pcOf P (s.procs p)}")
  s!"sock={b .sock} lock={b .lock} pid={b .pid} seed={b .seed} server={server} owners={ownersS} ph={ph}"

def runSchedule (P : Prog) (sched : String) : String :=
  match (sched.splitOn ",").mapM parseEv with
  | none => "bad-op"
  | some evs =>
    let evs := evs.flatten
    let (s, pids) := evs.foldl (fun (acc : State × List Pid) (e : Option Event × Pid) =>
      let (s, pids) := acc
      let pids := insertPid pids e.2
      match e.1 with
      | some ev => (step P s ev, pids)
      | none => (runToEnd P 200 s e.2, pids)) (Munge.Start.init, [])
    observe P s pids

def variant : String → Option Prog
  | "cur" => some prog
  | "strip" => some (stripReval prog)
  | "add" => some (addReval prog)
  | _ => none

def step (st : St) (args : List String) : St × String :=
  match args with
  | ["prog"] =>
    (st, s!"startup={",".intercalate (prog.startup.map opStr)} shutdown={",".intercalate (prog.shutdown.map opStr)} reval={if lockRevalidates then 1 else 0}")
  | ["sys"] => (st, ",".intercalate (mainPath.map sysStr))
  | ["run", sched] => (st, runSchedule prog sched)
  | ["runx", v, sched] => match variant v with
    | some P => (st, runSchedule P sched)
    | none => (st, "bad-op")
  | _ => (st, "bad-op")

end Driver.Start
