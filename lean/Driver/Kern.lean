import Driver.Util
import Munge.Gen.Dec
/- Line-protocol handler for the translated kernels of dec.c / enc.c (translation validation). -/
namespace Driver.Kern
open Munge.C Munge.Gen.Dec

structure St where
  dummy : Unit := ()

def init : St := {}

def show1 (o : KOut) (fields : List (String × String × Int)) : String :=
  let fs := fields.map fun (label, path, old) => s!" {label}={o.get path old}"
  s!"ret={o.ret} err={o.err}{String.join fs}"

def run (name : String) (a : List Int) : String :=
  match name, a with
  | "dec_validate_time", [ttl, t0, t1, mx, sk] =>
      show1 (dec_validate_time ttl t0 t1 mx sk) [("ttl", "c.msg.ttl", ttl)]
  | "dec_validate_auth", [au, ag, cu, cg, root, mem] =>
      show1 (dec_validate_auth au ag cu cg root (fun _ _ => mem)) []
  | "dec_validate_replay", [retry, gotRetry, errno, ins] =>
      show1 (dec_validate_replay retry gotRetry errno 0 0 ins) []
  | "dec_check_retry", [retry] => show1 (dec_check_retry retry 0 0) []
  | "enc_check_retry", [retry] => show1 (enc_check_retry retry 0 0) []
  | "dec_validate_msg", [dl, ptr] => show1 (dec_validate_msg dl ptr) []
  | "enc_validate_msg", [c, m, z, dl, ttl, dc, dm, dz, dt, mt] =>
      show1 (enc_validate_msg c m z dl ttl dc dm dz dt mt cipher_map_enum_real mac_map_enum_real mac_size_real
              cipher_key_size_real zip_is_valid_type_real)
        [("cipher", "m.cipher", c), ("mac", "m.mac", m), ("zip", "m.zip", z), ("ttl", "m.ttl", ttl)]
  | _, _ => "bad-op"

def step (st : St) (args : List String) : St × String :=
  match args with
  | name :: rest => match ints rest with
    | some a => (st, run name a)
    | none => (st, "bad-op")
  | _ => (st, "bad-op")

end Driver.Kern
