import Driver.Util
import Munge.Model.Fd
/- Line-protocol handler for the `Fd` model (same ops as harness/h_fd.c).

   fd rd <fd> <ptr> <n> <skip> <when> <start> <data> <pollQ> <ioQ>     fd_timed_read_n; <data> = the peer's byte stream
   fd wr <fd> <ptr> <n> <skip> <when> <start> <data> <pollQ> <ioQ>     fd_timed_write_n; <data> = the user buffer (>= n bytes)
   fd wv <fd> <ptr> <chunks> <skip> <when> <start> <pollQ> <ioQ>       fd_timed_write_iov; <chunks> = hex,hex,.. (`-` empty, `none` = no element)
   fd gtv <now> <msecs> <rv>                                           _get_timeval at wall clock <now> µs (rv = gettimeofday's result)
   <when> = null | sec,usec      <start> = wall clock at entry, µs
   <pollQ> = - | r<dt>:<revents> | f<dt>:<errno> | j<delta>, comma separated      <ioQ> = - | x<k> | e<errno>, comma separated
   answer: ret= errno= out=<hex: user buffer (rd) / bytes the peer received (wr, wv)> ngt= tmo=<poll timeouts ;-separated> nio= wall= blocked= -/
namespace Driver.Fd
open Munge Munge.Fd

structure St where
  unit : Unit := ()

def init : St := {}

def two (s : String) (sep : String) : Option (String × String) :=
  match s.splitOn sep with
  | [a, b] => some (a, b)
  | _ => none

def parsePoll (s : String) : Option PollEv :=
  match s.toList with
  | 'j' :: r => (String.ofList r).toInt?.map .jump
  | 'r' :: r => do
    let (a, b) ← two (String.ofList r) ":"
    pure (.ready (← a.toNat?) (← b.toInt?))
  | 'f' :: r => do
    let (a, b) ← two (String.ofList r) ":"
    pure (.fail (← a.toNat?) (← b.toInt?))
  | _ => none

def parseIo (s : String) : Option IoEv :=
  match s.toList with
  | 'x' :: r => (String.ofList r).toNat?.map .xfer
  | 'e' :: r => (String.ofList r).toInt?.map .fail
  | _ => none

def parseList {α} (f : String → Option α) (s : String) : Option (List α) :=
  if s == "-" then some [] else (s.splitOn ",").mapM f

/-- (whenP, ws, wu) -/
def parseWhen (s : String) : Option (Int × Int × Int) :=
  if s == "null" then some (0, 0, 0) else do
    let (a, b) ← two s ","
    pure (1, ← a.toInt?, ← b.toInt?)

def showTrace (t : List Call) : String :=
  let tm := t.filterMap fun c => match c with
    | .poll m _ _ => some (toString m)
    | _ => none
  let ngt := (t.filter fun c => match c with | .gettime _ => true | _ => false).length
  let nio := (t.filter fun c => match c with | .io _ => true | _ => false).length
  s!"ngt={ngt} tmo={if tm.isEmpty then "-" else String.intercalate ";" tm} nio={nio}"

def render (kind : Kind) (r : Result) : String :=
  if r.diverged then "diverged" else
  let out := match kind with
    | .readN => r.st.buf
    | _ => r.st.sink
  s!"ret={r.ret} errno={r.errno} out={Hex.showHex out} {showTrace r.st.trace} wall={r.st.wall} blocked={r.st.blocked}"

def rw (r : Routine) (fd ptr n skip wh start data pq iq : String) : Option String := do
  let (wp, ws, wu) ← parseWhen wh
  let cfg : Cfg := { fd := ← fd.toInt?, ptr := ← ptr.toInt?, n := ← n.toInt?, skip := ← skip.toInt?, whenP := wp, ws := ws, wu := wu,
                     start := ← start.toInt?, data := ← Hex.ofHex data }
  pure (render r.kind (run r cfg (← parseList parsePoll pq) (← parseList parseIo iq)))

def wv (fd ptr chunks skip wh start pq iq : String) : Option String := do
  let (wp, ws, wu) ← parseWhen wh
  let ch ← if chunks == "none" then some [] else chunksArg chunks
  let cfg : Cfg := { fd := ← fd.toInt?, ptr := ← ptr.toInt?, chunks := ch, skip := ← skip.toInt?, whenP := wp, ws := ws, wu := wu,
                     start := ← start.toInt? }
  pure (render .writeIov (run writeIov cfg (← parseList parsePoll pq) (← parseList parseIo iq)))

def handle : List String → String
  | ["rd", fd, ptr, n, skip, wh, start, data, pq, iq] => (rw readN fd ptr n skip wh start data pq iq).getD "bad-op"
  | ["wr", fd, ptr, n, skip, wh, start, data, pq, iq] => (rw writeN fd ptr n skip wh start data pq iq).getD "bad-op"
  | ["wv", fd, ptr, chunks, skip, wh, start, pq, iq] => (wv fd ptr chunks skip wh start pq iq).getD "bad-op"
  | ["gtv", now, ms, rv] => match now.toInt?, ms.toInt?, rv.toInt? with
    | some now, some ms, some rv => let t := getTimeval now ms rv; s!"tv={t.1},{t.2}"
    | _, _, _ => "bad-op"
  | _ => "bad-op"

def step (st : St) (args : List String) : St × String := (st, handle args)

end Driver.Fd
