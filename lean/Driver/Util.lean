import Munge.C.Hex
import Munge.C.Kernel
/- Helpers for the line-protocol driver. -/
namespace Driver
open Munge

def words (s : String) : List String :=
  (s.trimAscii.toString.splitOn " ").filter (· ≠ "")

def hexArg (s : String) : Option (List UInt8) := Hex.ofHex s

def intArg (s : String) : Option Int := s.toInt?
def natArg (s : String) : Option Nat := s.toNat?

/-- comma separated hex chunks; "-" = empty chunk -/
def chunksArg (s : String) : Option (List (List UInt8)) :=
  (s.splitOn ",").mapM Hex.ofHex

def ints (l : List String) : Option (List Int) := l.mapM intArg

end Driver
