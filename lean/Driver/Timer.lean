import Driver.Util
import Munge.Model.Timer
/- Line-protocol handler for the `timer` model (C18); the C side is harness/h_timer.c. -/
namespace Driver.Timer
open Munge Munge.Timer

/-- scripted callback: p plain, c cancels id a1, s sets a plain timer a1 ms ahead, a sets a plain
    timer at (a1,a2), r re-arms itself a1 ms ahead, x sets a timer a1 ms ahead and cancels it again -/
structure Desc where
  kind : Char
  a1 : Int
  a2 : Int

structure St where
  sys : Sys := {}
  descs : Array Desc := #[]

def init : St := { sys := settle (fun _ _ => []) 4 {} }

def showTs (t : TS) : String := s!"{t.1}.{t.2}"

def actsOf (descs : Array Desc) (s : State) (t : Tm) : List Act × Array Desc :=
  match descs[t.cb]? with
  | none => ([], descs)
  | some d =>
    let plain : Desc := ⟨'p', 0, 0⟩
    if d.kind == 'c' then ([.cancel d.a1], descs)
    else if d.kind == 's' then ([.setRel d.a1 descs.size], descs.push plain)
    else if d.kind == 'a' then ([.setAbs (d.a1, d.a2) descs.size], descs.push plain)
    else if d.kind == 'r' then ([.setRel d.a1 t.cb], descs)
    else if d.kind == 'x' then ([.setRel d.a1 descs.size, .cancel (bumpId s.nextId)], descs.push plain)
    else ([], descs)

/-- return values of the requests a callback makes, in the harness's notation -/
def actResults (s : State) : List Act → String
  | [] => ""
  | a :: r =>
    let (s1, rv, _) := applyAct s a
    (match a with
     | .cancel _ => s!":c{rv}"
     | _ => s!":s{rv}") ++ actResults s1 r

/-- run the timer thread until it blocks; collects the callback log -/
def settleLog : Nat → Sys → Array Desc → List String → Sys × Array Desc × List String
  | 0, y, ds, lg => (y, ds, lg)
  | n + 1, y, ds, lg =>
    if blocked y.thr then (y, ds, lg) else
    match y.st.batch with
    | t :: _ =>
      let (acts, ds') := actsOf ds y.st t
      let e := s!"k{t.cb}@{showTs y.st.now}" ++ actResults (dispatch y.st) acts
      -- the model's own dispatch log is not needed here (the entries are rendered as they happen): keep it empty
      let y' := sysStep (fun _ _ => acts) y .thread
      settleLog n { y' with st := { y'.st with log := [] } } ds' (e :: lg)
    | [] => settleLog n (sysStep (fun _ _ => []) y .thread) ds lg

def showState (y : Sys) (lg : List String) : String :=
  let pend := y.st.active.map fun t => s!"{t.id}/k{t.cb}@{showTs t.ts}"
  let thr := match y.thr with
    | .running => "R"
    | .waitEmpty => "W"
    | .timedWait dl => s!"T:{showTs dl}"
  s!" log=[{String.intercalate "," lg.reverse}] pend=[{String.intercalate "," pend}] thr={thr}"

/-- thread steps per operation; a timer that re-arms itself in the past spins forever (the harness reports HANG) -/
def fuel : Nat := 4000

def finish (_st : St) (y : Sys) (ds : Array Desc) (pre : String) : St × String :=
  let (y', ds', lg) := settleLog fuel y ds []
  ({ sys := y', descs := ds' }, pre ++ showState y' lg)

def parseKind : List String → Option Desc
  | ["p"] => some ⟨'p', 0, 0⟩
  | ["c", a] => (intArg a).map fun x => ⟨'c', x, 0⟩
  | ["s", a] => (intArg a).map fun x => ⟨'s', x, 0⟩
  | ["r", a] => (intArg a).map fun x => ⟨'r', x, 0⟩
  | ["x", a] => (intArg a).map fun x => ⟨'x', x, 0⟩
  | ["a", a, b] => match intArg a, intArg b with
    | some x, some y => some ⟨'a', x, y⟩
    | _, _ => none
  | _ => none

def doSet (st : St) (a : Act) : St × String :=
  let (s', id, sig) := applyAct st.sys.st a
  let y : Sys := { st := s', thr := if sig then .running else st.sys.thr }
  finish st y st.descs s!"id={id} k={st.descs.size - 1}"

def step (st : St) (args : List String) : St × String :=
  match args with
  | ["reset"] =>
    let y : Sys := { st := { nextId := st.sys.st.nextId }, thr := .running }
    finish st y #[] "ok"
  | "seta" :: s :: n :: k =>
    match intArg s, intArg n, parseKind k with
    | some s, some n, some d =>
      let st := { st with descs := st.descs.push d }
      doSet st (.setAbs (s, n) (st.descs.size - 1))
    | _, _, _ => (st, "bad-op")
  | "setr" :: ms :: k =>
    match intArg ms, parseKind k with
    | some ms, some d =>
      let st := { st with descs := st.descs.push d }
      doSet st (.setRel ms (st.descs.size - 1))
    | _, _ => (st, "bad-op")
  | ["cancel", id] =>
    match intArg id with
    | some id =>
      let (s', rc, sig) := cancel st.sys.st id
      finish st { st := s', thr := if sig then .running else st.sys.thr } st.descs s!"rc={rc}"
    | none => (st, "bad-op")
  | ["adv", s, n] =>
    match intArg s, intArg n with
    | some s, some n => finish st (sysStep (fun _ _ => []) st.sys (.tick (s, n))) st.descs "ok"
    | _, _ => (st, "bad-op")
  | ["setid", n] =>
    match intArg n with
    | some n => finish st { st.sys with st := { st.sys.st with nextId := n } } st.descs "ok"
    | none => (st, "bad-op")
  | ["guard", c, t] =>
    match intArg c, intArg t with
    | some c, some t =>
      if c != 0 && t != 0 then (st, "bad-op") else
      let o := Gen.Timer.timer_set_guard c t
      finish st st.sys st.descs s!"rc={o.ret} errno={(o.written "errno").getD 0}"
    | _, _ => (st, "bad-op")
  | ["le", a, b, c, d] =>
    match ints [a, b, c, d] with
    | some [a, b, c, d] => (st, s!"{(Gen.Timer.clock_is_timespec_le 1 1 a b c d).ret}")
    | _ => (st, "bad-op")
  | ["addms", s, n, ms] =>
    match ints [s, n, ms] with
    | some [s, n, ms] =>
      (st, s!"rc={(Gen.Timer.clock_get_timespec 1 s n ms 0).ret} {showTs (addMs (s, n) ms)}")
    | _ => (st, "bad-op")
  | _ => (st, "bad-op")

end Driver.Timer
