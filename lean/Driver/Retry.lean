import Driver.Util
import Driver.Cred
import Munge.Model.Retry
import Munge.Model.ToyPrims
/- Line-protocol handler for the `retry` model (same ops as harness/h_retry.c, toy-primitive build).

   retry conf k=v ..                     set the daemon's environment / configuration (keys as for `cred conf`)
   retry reset                           empty the daemon's replay cache
   retry enc <sched> c= m= z= ttl= au= ag= realm=<hex|-> data=<hex|-|rep:XX:N> [k=v ..]
   retry dec <sched> cred=<hex> [k=v ..]
   <sched> = `-` or comma separated  qN | QN | f | pN | ok   (one entry per attempt) -/
namespace Driver.Retry
open Munge Munge.Cred Munge.Retry

structure St where
  c : Driver.Cred.St := {}

def init : St := {}

def parseFault (s : String) : Option Fault :=
  if s == "f" then some .f
  else if s == "ok" then some .ok
  else match s.toList with
    | 'q' :: r => (String.ofList r).toNat?.map .q
    | 'Q' :: r => (String.ofList r).toNat?.map .q
    | 'p' :: r => (String.ofList r).toNat?.map .p
    | _ => none

def parseSched (s : String) : Option (List Fault) :=
  if s == "-" then some [] else (s.splitOn ",").mapM parseFault

/-- `<hex>`, `-`, or `rep:XX:N` (N copies of byte XX) -/
def parseData (s : String) : Option Bytes :=
  match s.splitOn ":" with
  | ["rep", b, n] => do
    let bb ← Hex.ofHex b
    let k ← n.toNat?
    pure (List.replicate k (bb.getD 0 0))
  | _ => Hex.ofHex s

def envOf (c : Driver.Cred.St) : Env :=
  { now := c.now, peer := c.peer, rnd := c.rnd, member := fun u g => c.mem.contains (u, g) }

def showTrace (tr : List (Nat × Nat)) : String :=
  if tr.isEmpty then "-" else
  String.intercalate "," (tr.map fun (r, d) => if d ≥ 7 then toString r else "-")

def showSleeps (sl : List Int) : String :=
  if sl.isEmpty then "-" else String.intercalate "," (sl.map toString)

def optHex (b : Option Bytes) : String :=
  match b with
  | none => "NULL"
  | some x => Hex.showHex x

def cstr (b : Bytes) : Bytes := b.takeWhile (· ≠ 0)

def num (args : List String) (key : String) (dflt : Nat) : Nat :=
  ((Driver.Cred.flag args key).bind String.toNat?).getD dflt

def step (st : St) (args : List String) : St × String :=
  match args with
  | "conf" :: rest => ({ st with c := Driver.Cred.setEnv st.c rest }, "ok")
  | "reset" :: _ => ({ st with c := { st.c with rs := [] } }, "ok")
  | "enc" :: sch :: rest =>
    match parseSched sch, ((Driver.Cred.flag rest "realm").getD "-" |> Hex.ofHex),
          ((Driver.Cred.flag rest "data").getD "-" |> parseData) with
    | some sched, some realm, some data =>
      let c := Driver.Cred.setEnv st.c rest
      let m : Msg := { cipher := num rest "c" 1, mac := num rest "m" 1, zip := num rest "z" 1,
                       realmLen := realm.length % 256, realm := realm, ttl := num rest "ttl" 0,
                       authUid := num rest "au" 4294967295, authGid := num rest "ag" 4294967295,
                       dataLen := data.length, data := data }
      let (r, x) := mungeEncode ToyPrims.prims c.cf (envOf c) c.rs m sched
      ({ st with c := { c with rs := x.rs } },
       s!"err={r.err} cred={optHex (r.cred.map cstr)} n={x.trace.length} tr={showTrace x.trace} sl={showSleeps x.sleeps}")
    | _, _, _ => (st, "bad-op")
  | "dec" :: sch :: rest =>
    match parseSched sch, ((Driver.Cred.flag rest "cred").getD "-" |> Hex.ofHex) with
    | some sched, some cred =>
      let c := Driver.Cred.setEnv st.c rest
      let (r, x) := mungeDecode ToyPrims.prims c.cf (envOf c) c.rs (cred ++ [0]) sched
      ({ st with c := { c with rs := x.rs } },
       s!"err={r.err} data={optHex r.data} len={r.len} uid={r.uid} gid={r.gid} cipher={r.cipher} mac={r.mac} zip={r.zip} " ++
       s!"realm={optHex (r.realm.map cstr)} ttl={r.ttl} addr={Hex.showHex r.addr} t0={r.time0} t1={r.time1} " ++
       s!"au={r.authUid} ag={r.authGid} n={x.trace.length} tr={showTrace x.trace} sl={showSleeps x.sleeps}")
    | _, _ => (st, "bad-op")
  | _ => (st, "bad-op")

end Driver.Retry
