import Driver.Util
import Munge.Model.Hkdf
/- Line-protocol handler for the `hkdf` model (C20): HKDF over the toy MAC, mungekey's `--bits`
   arithmetic and `create_key` on a one-name file system, `create_subkeys` over the toy digest. -/
namespace Driver.Hkdf
open Munge Munge.Hkdf Munge.Gen.Hkdf

structure St where
  dummy : Unit := ()

def init : St := {}

/-- "N" = not set, "-" = empty, else hex -/
def optHex (s : String) : Option (Option (List UInt8)) :=
  if s == "N" then some none else (Hex.ofHex s).map some

def octal (n : Nat) : String :=
  let s := String.ofList (Nat.toDigits 8 n)
  String.ofList (List.replicate (4 - s.length) '0') ++ s

def parseOctal (s : String) : Option Nat :=
  s.toList.foldl (fun acc c => match acc with
    | none => none
    | some a => if '0' ≤ c ∧ c ≤ '7' then some (a * 8 + (c.toNat - 48)) else none) (some 0)

/-- `hkdf toy <md> <salt|N> <ikm> <info|N> <L>` -/
def doToy (md : Nat) (salt : Option (List UInt8)) (ikm info : List UInt8) (L : Nat) : String :=
  let okm := Hkdf.run (Toy.mac md) md salt ikm info L
  s!"rc=0 n={okm.length} okm={Hex.showHex okm}"

/-- the 256 bytes the harness' `entropy_read` stub delivers for a seed -/
def ikmOfSeed (seed : Nat) (n : Nat) : List UInt8 := Toy.squeeze (UInt64.ofNat seed) n

/-- `hkdf bits <l|->` -/
def doBits (b : Option Int) : String :=
  match Mungekey.keyNumBytes b with
  | none => "refused"
  | some n => s!"bytes={n}"

/-- `hkdf mk <force> <umask> <pre> <bits|-> <seed> <salt>`; pre = `none` or `<mode>:<hex>` -/
def doMk (bin : Bool) (force : Bool) (umask : Nat) (pre : Option Mungekey.File) (bits : Option Int) (seed : Nat) (salt : List UInt8) : String :=
  let fs0 : Mungekey.FS := fun p => if p = "key" then pre else none
  let show_ (ok : Bool) (fs : Mungekey.FS) : String :=
    match fs "key" with
    | none => s!"ok={if ok then 1 else 0} exists=0"
    | some f =>
      let tail := if bin then s!"same={if (pre.map (·.content)) = some f.content then 1 else 0}" else s!"content={Hex.showHex f.content}"
      s!"ok={if ok then 1 else 0} exists=1 size={f.content.length} mode={octal f.mode} {tail}"
  match Mungekey.keyNumBytes bits with
  | none => show_ false fs0
  | some n =>
    let md := DEFAULT_MAC.toNat
    let secret := Mungekey.keySecret (Toy.mac md) md (ikmOfSeed seed ikmLen) salt (secretLen n)
    let (fs, ok) := Mungekey.createKey fs0 "key" force umask n secret
    show_ ok fs

/-- read script: comma separated `d<hex>` data, `i` EINTR, `e<errno>` failure, `z` end of file -/
def parseEv (s : String) : Option Subkeys.ReadEv :=
  match s.toList with
  | 'd' :: rest => (Hex.ofHex (String.ofList rest)).map fun b => { n := b.length, errno := 0, data := b }
  | ['i'] => some { n := -1, errno := EINTR, data := [] }
  | ['z'] => some { n := 0, errno := 0, data := [] }
  | 'e' :: rest => (String.ofList rest).toInt?.map fun e => { n := -1, errno := e, data := [] }
  | _ => none

def showSub (tag : String) (r : Option (List (String × List UInt8))) : String :=
  match r with
  | none => tag ++ "refused"
  | some outs =>
    -- canonical order (the harness prints conf->dek_key, then conf->mac_key)
    let get (k : String) : String := match outs.lookup k with
      | some v => Hex.showHex v
      | none => "unset"
    s!"{tag}dek_key={get "dek_key"} {tag}mac_key={get "mac_key"}"

def chunk1024 : List UInt8 → Nat → List (List UInt8)
  | [], _ => []
  | _, 0 => []
  | l, fuel + 1 => l.take readBuf :: chunk1024 (l.drop readBuf) fuel

/-- `create_subkeys` on a real file: the kernel hands out full buffers, then the rest, then 0 -/
def subOfFile (b : List UInt8) : Option (List (String × List UInt8)) :=
  let evs := (chunk1024 b (b.length + 1)).map fun c => ({ n := c.length, errno := 0, data := c } : Subkeys.ReadEv)
  Subkeys.createSubkeys Toy.digest (evs ++ [{ n := 0, errno := 0, data := [] }])

def parsePre (pre : String) : Option (Option Mungekey.File) :=
  if pre == "none" then some none else
  match pre.splitOn ":" with
  | [m, h] => match parseOctal m, Hex.ofHex h with
    | some m, some h => some (some { content := h, mode := m })
    | _, _ => none
  | _ => none

def parseBitsArg (bits : String) : Option (Option Int) :=
  if bits == "-" then some none else bits.toInt?.map some

def step (st : St) (args : List String) : St × String :=
  (st, match args with
  | ["toy", md, salt, ikm, info, l] =>
    match md.toNat?, optHex salt, Hex.ofHex ikm, optHex info, l.toNat? with
    | some md, some salt, some ikm, some info, some l => doToy md salt ikm (info.getD []) l
    | _, _, _, _, _ => "bad-op"
  | ["bits", b] =>
    if b == "-" then doBits none else match b.toInt? with
    | some l => doBits (some l)
    | none => "bad-op"
  | ["mk", force, umask, pre, bits, seed, salt, "toy"] =>
    match parseOctal umask, parsePre pre, parseBitsArg bits, seed.toNat?, Hex.ofHex salt with
    | some u, some pre, some bits, some seed, some salt => doMk false (force == "1") u pre bits seed salt
    | _, _, _, _, _ => "bad-op"
  | ["bin", force, umask, pre, bits] =>
    match parseOctal umask, parsePre pre, parseBitsArg bits with
    | some u, some pre, some bits => doMk true (force == "1") u pre bits 0 [0, 0, 0, 0]
    | _, _, _ => "bad-op"
  | ["sub", script, "toy"] =>
    match (if script == "-" then some [] else (script.splitOn ",").mapM parseEv) with
    | some evs => showSub "" (Subkeys.createSubkeys Toy.digest evs)
    | none => "bad-op"
  | ["subf", h, "toy"] =>
    match Hex.ofHex h with
    | some b => showSub "" (subOfFile b)
    | none => "bad-op"
  | ["subpair", h, off, x, "toy"] =>
    match Hex.ofHex h, off.toNat?, x.toNat? with
    | some b, some off, some x =>
      if off < b.length then
        let b' := b.set off (b.getD off 0 ^^^ UInt8.ofNat x)
        showSub "a:" (subOfFile b) ++ " " ++ showSub "b:" (subOfFile b')
      else "bad-op"
    | _, _, _ => "bad-op"
  | _ => "bad-op")

end Driver.Hkdf
