import Driver.Util
import Munge.Model.Work
/-
Line-protocol handler for the `Work` model (C12).

  work run <n> <prog> <sched>
      n      number of worker threads
      prog   program of the accepting/stopping thread, comma separated:  q = work_queue (next item id),
             w = work_wait, f0 / f1 = work_fini (wp, 0 / 1);  "-" = empty
      sched  forced schedule, comma separated thread picks:  <k> = worker k takes its next step (a spurious
             wake-up if it is blocked and was not signalled),  m or m<r> = the accepting thread takes its next
             step (r selects which blocked worker a signal wakes);  "-" = empty.
             A pick whose thread has no enabled step is skipped and reported as `x`.
      After the forced schedule the run is completed deterministically without spurious wake-ups: the accepting
      thread first, else the lowest-numbered worker that is runnable (not yet blocked, signalled, in work_func, or
      blocked with a cancellation request pending).
  output:  acts=<one of . x per pick> rets=<w:Q/P|f:Q/P;..> runs=<finished count per item> taken=<dequeue count per item> end=<..>
      rets   at every return of work_wait / work_fini: Q = items accepted but never dequeued, P = dequeued but not finished
      end    done (work_fini returned) | open (program exhausted without work_fini, nothing runnable) |
             deadlock (a thread is blocked, nothing runnable) | crash | fuel
-/
namespace Driver.Work
open Munge.Work

structure St where
  dummy : Unit := ()

def init : St := {}

inductive MOp where
  | q | w | f (d : Bool)
deriving DecidableEq, Repr

structure Run where
  s : State
  prog : List MOp
  next : Nat := 0
  rets : List String := []
  /-- the accepting thread is inside work_wait (true) — used to recognise its return -/
  inWait : Bool := false

def P : Params := genParams

def parseProg (t : String) : Option (List MOp) :=
  if t == "-" then some [] else
  (t.splitOn ",").mapM fun x =>
    if x == "q" then some MOp.q else if x == "w" then some MOp.w
    else if x == "f0" then some (MOp.f false) else if x == "f1" then some (MOp.f true) else none

inductive Pick where
  | main (r : Nat)
  | wrk (k : Nat)

def parseSched (t : String) : Option (List Pick) :=
  if t == "-" then some [] else
  (t.splitOn ",").mapM fun x =>
    if x.startsWith "m" then
      let r := (x.drop 1).toString
      if r.isEmpty then some (Pick.main 0) else r.toNat?.map Pick.main
    else x.toNat?.map Pick.wrk

def snapshot (s : State) : String :=
  let q := s.accepted.length - s.taken.length
  let p := s.taken.length - s.done.length
  s!"{q}/{p}"

/-- the next action of the accepting thread, if it has one -/
def mainAct (r : Run) (sel : Nat) : Option Act :=
  match r.s.main with
  | .accepting =>
      match r.prog with
      | [] => none
      | .q :: _ => some (.enq r.next)
      | .w :: _ => some .waitCall
      | .f d :: _ => some (.fini d)
  | .signalling => some (.sig sel)
  | .waitFin _ _ => some .mainWake
  | .cancelling _ => some .cancelOne
  | .joining => some .join
  | .finished => none

def stepMain (r : Run) (sel : Nat) : Option Run :=
  match mainAct r sel with
  | none => none
  | some a =>
    match step P r.s a with
    | none => none
    | some s' =>
      let r1 : Run := match a with
        | .enq _ => { r with s := s', prog := r.prog.drop 1, next := r.next + 1 }
        | .waitCall => { r with s := s', prog := r.prog.drop 1, inWait := true }
        | .fini _ => { r with s := s', prog := r.prog.drop 1 }
        | _ => { r with s := s' }
      -- returns of work_wait / work_fini
      let r2 : Run :=
        if r1.inWait && s'.main == .accepting then
          { r1 with inWait := false, rets := r1.rets ++ ["w:" ++ snapshot s'] }
        else if s'.main == .finished then { r1 with rets := r1.rets ++ ["f:" ++ snapshot s'] }
        else r1
      some r2

def stepWrk (r : Run) (k : Nat) : Option Run :=
  (step P r.s (.wrk k)).map fun s' => { r with s := s' }

def pick (r : Run) : Pick → Option Run
  | .main sel => stepMain r sel
  | .wrk k => stepWrk r k

/-- the accepting thread can step without a spurious wake-up -/
def mainReady (r : Run) : Bool :=
  match r.s.main with
  | .accepting => !r.prog.isEmpty
  | .signalling => true
  | .waitFin _ woken => woken
  | .cancelling _ => true
  | .joining => r.s.w.all (· == .cancelled)
  | .finished => false

def wrkReady (s : State) (k : Nat) : Bool :=
  match s.w[k]? with
  | some .starting => true
  | some (.waitRecv woken) => woken || s.cancelReq k
  | some (.working _) => true
  | _ => false

def firstReady (s : State) : Option Nat :=
  (List.range s.w.length).find? (wrkReady s)

def complete : Nat → Run → Run × String
  | 0, r => (r, "fuel")
  | fuel + 1, r =>
    if r.s.w.any (· == .crashed) then (r, "crash") else
    if mainReady r then
      match stepMain r 0 with
      | some r' => complete fuel r'
      | none => (r, "stuck")
    else match firstReady r.s with
      | some k =>
        match stepWrk r k with
        | some r' => complete fuel r'
        | none => (r, "stuck")
      | none =>
        let e := match r.s.main with
          | .finished => "done"
          | .accepting => "open"
          | _ => "deadlock"
        (r, e)

def countOf (l : List Nat) (i : Nat) : Nat := l.count i

def runScenario (n : Nat) (prog : List MOp) (sched : List Pick) : String :=
  let r0 : Run := { s := Munge.Work.init n, prog := prog }
  let (r1, acts) := sched.foldl (fun (acc : Run × String) p =>
      match pick acc.1 p with
      | some r' => (r', acc.2 ++ ".")
      | none => (acc.1, acc.2 ++ "x")) (r0, "")
  let (r2, e) := complete 100000 r1
  let items := List.range r2.next
  let runs := items.map fun i => toString (countOf r2.s.done i)
  let taken := items.map fun i => toString (countOf (r2.s.taken.map Prod.snd) i)
  let show' (l : List String) := if l.isEmpty then "-" else String.intercalate "," l
  let rets := if r2.rets.isEmpty then "-" else String.intercalate ";" r2.rets
  s!"acts={if acts.isEmpty then "-" else acts} rets={rets} runs={show' runs} taken={show' taken} end={e}"

def step (st : St) (args : List String) : St × String :=
  match args with
  | ["run", n, prog, sched] =>
    match n.toNat?, parseProg prog, parseSched sched with
    | some n, some p, some sc => if n == 0 || n > 64 then (st, "bad-op") else (st, runScenario n p sc)
    | _, _, _ => (st, "bad-op")
  | _ => (st, "bad-op")

end Driver.Work
