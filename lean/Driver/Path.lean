import Driver.Util
import Munge.Model.Path
/- Line-protocol handler for the `Path` model (C16).  Same op lines as harness/h_path.c. -/
namespace Driver.Path
open Munge Munge.C Munge.Path Munge.Gen.Path

structure St where
  dummy : Unit := ()

def init : St := {}

def nat? (s : String) : Option Int := s.toNat?.map Int.ofNat

/-- `mode:uid:gid` -/
def stat3? (s : String) : Option Stat :=
  match s.splitOn ":" with
  | [m, u, g] => do pure { mode := ← nat? m, uid := ← nat? u, gid := ← nat? g }
  | _ => none

/-- `path:mode:uid:gid,...` or `-` -/
def table? (s : String) : Option (List (List Char × Stat)) :=
  if s == "-" then some [] else
  (s.splitOn ",").mapM fun e =>
    match e.splitOn ":" with
    | [p, m, u, g] => do pure (p.toList, { mode := ← nat? m, uid := ← nat? u, gid := ← nat? g })
    | _ => none

def tgid? (s : String) : Option Int := if s == "-" then some GID_SENTINEL else nat? s

def siteTag (sites : List (String × String)) (k : Nat) : String :=
  match sites[k]? with
  | some (_, fmt) => classify fmt
  | none => "nosite"

def showPath (p : List Char) : String := if p.isEmpty then "-" else String.ofList p

def verdictLine (v : Verdict) : String :=
  if v.rc == 1 then "rc=1 why=- at=-" else
  let why := match v.site with
    | some k => siteTag dirCheck_sites k
    | none => v.tag
  s!"rc={v.rc} why={why} at={showPath v.at_}"

/-- is `p` the directory `base` or one of its ancestors? -/
def isAncestorOrSelf (p base : List Char) : Bool :=
  p == base || p == ['/'] || (p.isPrefixOf base && (base.drop p.length).head? == some '/')

def dirMode (perm : Int) : Int := S_IFDIR + perm

/-- the real-file-system scenarios: `base` and everything above it is a root-owned 0755 directory (the harness
    checks this at `fsinit`), below it the directories `d1/d2/…` of the op line, then the file -/
def fsEnv (base : List Char) (dirs : List Stat) : Env × List Char :=
  let rec build (cur : List Char) (ds : List Stat) (i : Nat) (acc : List (List Char × Stat)) : List (List Char × Stat) × List Char :=
    match ds with
    | [] => (acc, cur)
    | d :: rest =>
      let nxt := cur ++ ("/d" ++ toString i).toList
      build nxt rest (i + 1) ((nxt, { d with mode := dirMode d.mode }) :: acc)
  let (tbl, leafdir) := build base dirs 1 []
  (fun p => match tbl.lookup p with
    | some s => some s
    | none => if isAncestorOrSelf p base then some { mode := dirMode 0o755, uid := 0, gid := 0 } else none,
   leafdir)

def dirs? (s : String) : Option (List Stat) :=
  if s == "-" then some [] else (s.splitOn ",").mapM stat3?

def typeBits : String → Option Int
  | "reg" => some S_IFREG
  | "dir" => some S_IFDIR
  | "chr" => some S_IFCHR
  | "sock" => some S_IFSOCK
  | _ => none

/-- lstat/stat view of `<leafdir>/<name>`: the file itself, or a symbolic link (root-owned, 0777) to it -/
def fileView (ftype : String) (perm uid gid : Int) (link : Bool) : FileView :=
  let tgt : Option Stat := (typeBits ftype).map fun t => { mode := t + perm, uid := uid, gid := gid }
  if link then { l := some { mode := S_IFLNK + 0o777, uid := 0, gid := 0 }, s := tgt }
  else { l := tgt, s := tgt }

def tags (sites : List (String × String)) (ks : List Nat) : String :=
  if ks.isEmpty then "-" else String.intercalate "+" (ks.map (siteTag sites))

def fatalTag (sites : List (String × String)) (o : KOut) : String :=
  match fatalSite o with
  | some k => siteTag sites k
  | none => "-"

def b2n (b : Bool) : Nat := if b then 1 else 0

def keyOp (base : List Char) (force euid tgid : Int) (ftype : String) (perm uid gid : Int) (link : Bool)
    (dirs : List Stat) : String :=
  let (env, leafdir) := fsEnv base dirs
  let v := fileView ftype perm uid gid link
  let sec := fun fl => (isSecure fl tgid euid env (some leafdir)).rc
  let o := keyfile force euid 47 v sec 3
  s!"fatal={b2n (fatal o)} site={fatalTag conf_open_keyfile_sites o} warns={tags conf_open_keyfile_sites (warned o)} fd={if fatal o then "-" else "ok"}"

def seedOp (base : List Char) (force euid tgid : Int) (ftype : String) (perm uid gid : Int) (link : Bool)
    (size : Int) (dirs : List Stat) : String :=
  let (env, leafdir) := fsEnv base dirs
  let v := fileView ftype perm uid gid link
  let sec := fun fl => (isSecure fl tgid euid env (some leafdir)).rc
  -- open(2) as root: a missing file gives ENOENT, a socket ENXIO, everything else opens
  let (fd, en) : Int × Int := match v.s with
    | none => (-1, ENOENT)
    | some _ => if ftype == "sock" then (-1, 6) else (3, 0)
  let avail : Int := if ftype == "reg" then size else 0
  let rd := fun nb => readSeed euid v.l fd en v.s avail nb
  -- unlink(2) as root fails on a directory only
  let isdirEntry := !link && ftype == "dir"
  let missing := v.l.isNone
  let (urc, uen) : Int × Int := if missing then (-1, ENOENT) else if isdirEntry then (-1, 21) else (0, 0)
  let o := seedFromFile force 47 sec rd urc uen
  let unlinked := o.events.any (·.1 == "unlink")
  let added : Int := if fatal o || (sec 0 < 0) || (sec 0 == 0 && force == 0) then 0 else seedBytesAdded (rd 1024)
  let existsAfter := !missing && !(unlinked && urc == 0)
  s!"ret={if fatal o then "-" else toString o.ret} fatal={b2n (fatal o)} site={fatalTag random_read_entropy_from_file_sites o} warns={tags random_read_entropy_from_file_sites (warned o)} added={added} exists={b2n existsAfter}"

def modeOp (site : String) (u : Int) : String :=
  let (ms, after) : List Int × List Int := match site with
    | "sock" => (sockModes u, sock_create_umaskAfter u)
    | "lock" => (lockModes u, lock_create_umaskAfter u)
    | "pid" => (pidModes u, write_pidfile_umaskAfter u)
    | "log" => (logModes u, open_logfile_umaskAfter u)
    | "seed" => (seedModes u, random_write_seed_umaskAfter u)
    | _ => ([], [])
  match ms, after with
  | [m], [a] => s!"mode={m} after={a}"
  | _, _ => s!"mode=? after=? ({ms.length} creation sites, {after.length} final umasks)"

/-- `_random_write_seed` over something that already sits at the seed path (a regular file with permission bits `perm` owned by
    `uid`, or a symlink to a victim file), as root under umask `u`: what is at the path afterwards.  If the generated kernel
    unlinks before its creating `open`, the object is fresh (mode argument applies); if it does not, `open (O_CREAT|O_TRUNC)`
    re-uses a regular file as it is and follows a symlink. -/
def seedPreOp (kind : String) (perm uid u : Int) : String :=
  let o := random_write_seed u 1024 0 0 3 0 0 0 0
  let fresh := match o.events with
    | ("unlink", _) :: ("open", _) :: _ => true
    | _ => false
  match seedModes u with
  | [m] =>
    if fresh then s!"mode={m} type=reg uid=0 victim=intact"
    else if kind == "link" then "mode=511 type=link uid=0 victim=overwritten"
    else s!"mode={perm} type=reg uid={uid} victim=intact"
  | ms => s!"mode=? ({ms.length} creation sites)"

/-- `lock_create` over a lock file that already exists with permission bits `perm` and owner `uid` -/
def lockPreOp (perm uid euid : Int) : String :=
  let o := lock_create 0 1 0 (-1) 0 0 0 3 0 0 0
  if fatal o then s!"fatal=1 site={fatalTag lock_create_sites o} mode={perm}" else
  if o.events.any (·.1 == "_lock_stat") then
    let s := lock_stat 0 (S_IFREG + perm) uid euid
    s!"fatal={b2n (fatal s)} site={fatalTag lock_stat_sites s} mode={perm}"
  else s!"fatal=0 site=- mode={perm}"

/-- the directory gate of a creation site on the real file system (nothing exists yet in the leaf directory) -/
def gateOp (base : List Char) (site : String) (force euid tgid : Int) (dirs : List Stat) : String :=
  let (env, leafdir) := fsEnv base dirs
  let sec := fun fl => (isSecure fl tgid euid env (some leafdir)).rc
  -- path_is_accessible: every directory on the path has all three execute bits (base and above: 0755)
  let acc : Int := if dirs.all (fun d => d.mode % 2 == 1 && d.mode / 8 % 2 == 1 && d.mode / 64 % 2 == 1) then 1 else 0
  let r : Option (KOut × List (String × String)) := match site with
    | "pid" => some (write_pidfile 18 1 47 force 0 (-1) ENOENT 1 1 0 sec, write_pidfile_sites)
    | "log" => some (open_logfile 18 1 47 force 6 (-1) 0 (-1) ENOENT 0 0 euid 0 1 sec, open_logfile_sites)
    | "sock" => some (sock_create 18 1 1 47 force 5 0 acc (-1) ENOENT 3 10 108 0 0 sec, sock_create_sites)
    | _ => none
  match r with
  | some (o, sites) => s!"fatal={b2n (fatal o)} site={fatalTag sites o} warns={tags sites (warned o)}"
  | none => "bad-op"

def step (st : St) (args : List String) : St × String :=
  let out : Option String := match args with
    | ["fsinit", _] => some "ok"
    | ["sec", fl, tg, eu, canon, tbl] => do
        let fl ← nat? fl; let tg ← tgid? tg; let eu ← nat? eu; let tbl ← table? tbl
        let env : Env := fun p => tbl.lookup p
        let c := if canon == "-" then none else some canon.toList
        pure (verdictLine (isSecure fl tg eu env c))
    | ["key", base, force, eu, tg, ftype, perm, uid, gid, link, dirs] => do
        pure (keyOp base.toList (← nat? force) (← nat? eu) (← tgid? tg) ftype (← nat? perm) (← nat? uid) (← nat? gid)
          (link == "1") (← dirs? dirs))
    | ["seed", base, force, eu, tg, ftype, perm, uid, gid, link, size, dirs] => do
        pure (seedOp base.toList (← nat? force) (← nat? eu) (← tgid? tg) ftype (← nat? perm) (← nat? uid) (← nat? gid)
          (link == "1") (← nat? size) (← dirs? dirs))
    | ["gate", base, site, force, eu, tg, dirs] => do
        pure (gateOp base.toList site (← nat? force) (← nat? eu) (← tgid? tg) (← dirs? dirs))
    | ["mode", _, site, u] => do pure (modeOp site (← nat? u))
    | ["seedpre", _, kind, perm, uid, u] => do pure (seedPreOp kind (← nat? perm) (← nat? uid) (← nat? u))
    | ["lockpre", _, perm, uid, eu, _] => do pure (lockPreOp (← nat? perm) (← nat? uid) (← nat? eu))
    | _ => none
  (st, out.getD "bad-op")

end Driver.Path
