import Munge.Gen.Retry
import Munge.Model.Cred
/-
Executable model of a libmunge call over a faulty connection (C13).

* Client: `m_msg_client_xfer` (src/libmunge/m_msg_client.c) as a loop over a *fault schedule*, one entry
  per attempt.  The shape of the loop -- initial attempt counter, which links of an attempt are retried
  and which leave the loop, the exit tests and their order, the value stored into the header's retry
  byte, the counter update -- is `Munge.Gen.Retry`, extracted from the C source on every run.
  `munge_encode` / `munge_decode` (encode.c, decode.c) wrap it: request construction, output
  initialisation, `_encode_rsp` / `_decode_rsp`.
* Daemon: each attempt is one run of `_job_exec` on the bytes that reached it: `Munge.Cred.recvMsg`,
  `encProcess`, `decProcess` (the hand-written mirror of enc.c / dec.c over the translated kernels of
  `Munge.Gen.Dec`), with the decision whether a failed send withdraws the replay record read off the
  translated orchestration `Munge.Gen.Dec.dec_process_msg` (`genRollback`).
* Faults.  `q n`: the connection breaks after `n` bytes of the request have reached the daemon (always a
  strict prefix: `n` is clamped to |request| - 1).  `f`: the daemon receives and processes the whole
  request but cannot send the reply (it sees the failure); the client receives nothing.  `p n`: the
  daemon sends the whole reply (it sees success); the client receives only the first `n` bytes (clamped
  to |reply| - 1).  `ok`: nothing breaks.  That every byte offset of a fault falls in one of these classes
  rests on `m_msg_recv` accepting nothing but a complete header + body (`C13.recv_all_or_nothing`).
-/
namespace Munge.Retry
open Munge.Cred Munge.C Munge.Gen.Retry

inductive Fault where
  | q (n : Nat)
  | f
  | p (n : Nat)
  | ok
deriving Repr, DecidableEq

/-! ### requests as libmunge packs them -/

/-- body of an ENC_REQ (`_msg_pack`): cipher, mac, zip, realm_len, realm, ttl, auth_uid, auth_gid, data_len, data -/
def encBody (m : Msg) : Bytes :=
  [UInt8.ofNat m.cipher, UInt8.ofNat m.mac, UInt8.ofNat m.zip, UInt8.ofNat m.realmLen] ++ m.realm.take m.realmLen ++
  be32 m.ttl ++ be32 m.authUid ++ be32 m.authGid ++ be32 m.dataLen ++ m.data.take m.dataLen

/-- body of a DEC_REQ: data_len, data (`_decode_req` passes the credential string with its NUL) -/
def decBody (cred : Bytes) : Bytes := be32 cred.length ++ cred

/-- header (always repacked, carrying the current retry byte) followed by the body (packed once) -/
def reqBytes (type retry : Nat) (body : Bytes) : Bytes := hdrBytes type retry body.length ++ body

/-! ### the daemon side of one attempt -/

/-- Does `dec_process_msg` call `replay_remove` when its final `m_msg_send` fails?  Evaluated on the
    orchestration kernel translated from dec.c: every stage before the replay check succeeded, the replay
    check returned `rc`, this request's `replay_insert` returned 0 iff `inserted`. -/
def genRollback (rc : Int) (inserted : Bool) : Bool :=
  (Munge.Gen.Dec.dec_process_msg (if rc = 0 then 0 else 17) 1 (b2int inserted) 0 0 0 0 0 0 0 0 0 0 0 0
    (if rc = 0 then 0 else -1) (-1)).calls "replay_remove"

/-- one `_job_exec` on the bytes `req` (then end-of-file); `sendOk = false`: the reply cannot be sent -/
def daemon (P : Prims) (cf : Conf) (env : Env) (rs : ReplaySet) (req : Bytes) (sendOk : Bool) :
    Option Bytes × ReplaySet :=
  match recvMsg req with
  | .drop _ => (none, rs)
  | .enc m =>
    let (m', _) := encProcess P cf env m
    (if sendOk then some (encRsp m') else none, rs)
  | .dec m =>
    let o := decProcess P cf env rs m
    if sendOk then (some (decRsp o.msg), o.replay)
    else
      let rs' := if genRollback o.rc o.inserted then (match o.key with | some k => o.replay.erase k | none => o.replay)
                 else o.replay
      (none, rs')

/-! ### the client's `m_msg_recv` on a stream that delivers `s` and then end-of-file -/

/-- `_msg_unpack` of an ENC_RSP / DEC_RSP body.  `none`: the unpack fails (a field runs past the end of the
    packet, a length that is negative as a C `int`, an address longer than `m->addr`). Trailing bytes are
    not looked at. -/
def clientUnpack (type retry : Nat) (body : Bytes) : Option Msg :=
  match body with
  | en :: el :: rest =>
    match takeField rest el.toNat with
    | none => none
    | some (_, rest) =>
      if type = MUNGE_MSG_ENC_RSP.toNat then
        if rest.length < 4 then none else
        let dl := rd32 (rest.take 4)
        match takeField (rest.drop 4) dl with
        | none => none
        | some (data, _) => some { type := type, retry := retry, errorNum := en.toNat, dataLen := dl, data := data }
      else if type = MUNGE_MSG_DEC_RSP.toNat then
        match rest with
        | c :: mc :: z :: rl :: rest =>
          match takeField rest rl.toNat with
          | none => none
          | some (realm, rest) =>
            if rest.length < 4 then none else
            let ttl := rd32 (rest.take 4)
            match rest.drop 4 with
            | [] => none
            | al :: rest =>
              if (al.toNat : Int) > ADDR_SIZE then none else
              match takeField rest al.toNat with
              | none => none
              | some (addr, rest) =>
                if rest.length < 28 then none else
                let dl := rd32 ((rest.drop 24).take 4)
                match takeField (rest.drop 28) dl with
                | none => none
                | some (data, _) =>
                  some { type := type, retry := retry, errorNum := en.toNat, cipher := c.toNat, mac := mc.toNat,
                         zip := z.toNat, realmLen := rl.toNat, realm := realm, ttl := ttl, addrLen := al.toNat,
                         addr := addr ++ List.replicate (ADDR_SIZE.toNat - addr.length) 0,
                         time0 := rd32 (rest.take 4), time1 := rd32 ((rest.drop 4).take 4),
                         credUid := rd32 ((rest.drop 8).take 4), credGid := rd32 ((rest.drop 12).take 4),
                         authUid := rd32 ((rest.drop 16).take 4), authGid := rd32 ((rest.drop 20).take 4),
                         dataLen := dl, data := data }
        | _ => none
      else none
  | _ => none

/-- `m_msg_recv (mrsp, mrsp_type, recvMaxLen)`: the reply message, or the error code it returns -/
def clientRecv (expect : Nat) (s : Bytes) : Except Int Msg :=
  if s.length < MUNGE_MSG_HDR_SIZE.toNat then .error EMUNGE_SOCKET else
  let magic := rd32 (s.take 4)
  let ver := (s.getD 4 0).toNat
  let type := (s.getD 5 0).toNat
  let retry := (s.getD 6 0).toNat
  let len := rd32 ((s.drop 7).take 4)
  let body := (s.drop MUNGE_MSG_HDR_SIZE.toNat).take len
  if (magic : Int) ≠ MUNGE_MSG_MAGIC then .error EMUNGE_SOCKET else
  if (ver : Int) ≠ MUNGE_MSG_VERSION then .error EMUNGE_SOCKET else
  if type ≠ expect then .error EMUNGE_SOCKET else
  if recvMaxLen > 0 ∧ (len : Int) > recvMaxLen then .error EMUNGE_BAD_LENGTH else
  if body.length < len then .error EMUNGE_SOCKET else
  match clientUnpack type retry body with
  | none => .error EMUNGE_SOCKET
  | some m => .ok m

/-! ### one attempt -/

/-- what one pass through the `else if` chain yields -/
structure Attempt where
  err : Int                 -- `e` after the chain
  link : String             -- the link that failed ("" if none)
  rsp : Option Msg          -- `mrsp` when the chain succeeded
  rs : ReplaySet            -- the daemon's replay set afterwards
  delivered : Nat           -- request bytes that reached the daemon

def rspType (reqType : Nat) : Nat :=
  if reqType = MUNGE_MSG_ENC_REQ.toNat then MUNGE_MSG_ENC_RSP.toNat else MUNGE_MSG_DEC_RSP.toNat

/-- the failure of link `name` is retried (falls through to the exit tests) rather than leaving the loop -/
def linkRetries (name : String) : Bool := attemptChain.any (fun l => l.1 == name && l.2.1 == "retry")

/-- the tail of the chain once the request has been sent: `m_msg_recv` on the bytes `got` (then end-of-file) -/
def finish (type : Nat) (rs : ReplaySet) (got : Bytes) (delivered : Nat) : Attempt :=
  match clientRecv (rspType type) got with
  | .error e => { err := e, link := "m_msg_recv", rsp := none, rs := rs, delivered := delivered }
  | .ok m => { err := EMUNGE_SUCCESS, link := "", rsp := some m, rs := rs, delivered := delivered }

/-- what the client receives of the reply `b` under the fault `p n`: a strict prefix -/
def cutReply (n : Nat) (b : Option Bytes) : Bytes :=
  match b with
  | none => []
  | some b => b.take (min n (b.length - 1))

def attempt (P : Prims) (cf : Conf) (env : Env) (rs : ReplaySet) (type retry : Nat) (body : Bytes) (ft : Fault) : Attempt :=
  -- m_msg_send: the body is longer than `maxlen`: nothing is written; the daemon sees a connection that closes
  if sendMaxLen > 0 ∧ (body.length : Int) > sendMaxLen then
    { err := EMUNGE_BAD_LENGTH, link := "m_msg_send", rsp := none, rs := (daemon P cf env rs [] false).2, delivered := 0 }
  else
  match ft with
  | .q n =>
    { err := EMUNGE_SOCKET, link := "m_msg_send", rsp := none,
      rs := (daemon P cf env rs ((reqBytes type retry body).take (min n ((reqBytes type retry body).length - 1))) false).2,
      delivered := min n ((reqBytes type retry body).length - 1) }
  | .f =>
    { err := EMUNGE_SOCKET, link := "m_msg_recv", rsp := none, rs := (daemon P cf env rs (reqBytes type retry body) false).2,
      delivered := (reqBytes type retry body).length }
  | .p n =>
    finish type (daemon P cf env rs (reqBytes type retry body) true).2
      (cutReply n (daemon P cf env rs (reqBytes type retry body) true).1) (reqBytes type retry body).length
  | .ok =>
    finish type (daemon P cf env rs (reqBytes type retry body) true).2
      ((daemon P cf env rs (reqBytes type retry body) true).1.getD []) (reqBytes type retry body).length

/-! ### `m_msg_client_xfer` -/

structure XferOut where
  err : Int
  rsp : Option Msg
  rs : ReplaySet
  /-- per attempt: (retry byte of the request header, request bytes that reached the daemon) -/
  trace : List (Nat × Nat)
  /-- arguments of the back-off sleeps between attempts, milliseconds -/
  sleeps : List Int := []

/-- the exit tests after a failed attempt: leave the loop if any holds -/
def stop (i e : Int) : Bool := stopTests.any (fun t => t i e)

def xferLoop (P : Prims) (cf : Conf) (env : Env) (type : Nat) (body : Bytes) :
    List Fault → Int → Nat → ReplaySet → List (Nat × Nat) → List Int → XferOut
  | [], _, _, rs, tr, sl => { err := -1, rsp := none, rs := rs, trace := tr, sleeps := sl }  -- schedule exhausted: see `xfer`
  | ft :: rest, i, retry, rs, tr, sl =>
    let a := attempt P cf env rs type retry body ft
    let tr := tr ++ [(retry, a.delivered)]
    if a.err = EMUNGE_SUCCESS then { err := EMUNGE_SUCCESS, rsp := a.rsp, rs := a.rs, trace := tr, sleeps := sl }
    else if ¬ linkRetries a.link then { err := a.err, rsp := none, rs := a.rs, trace := tr, sleeps := sl }
    else if stop i a.err then { err := a.err, rsp := none, rs := a.rs, trace := tr, sleeps := sl }
    else xferLoop P cf env type body rest (nextI i a.err) (retryOf i a.err retry).toNat a.rs tr (sl ++ [sleepMsecs i a.err])

/-- the network is healthy once the listed faults are used up (the padding is longer than any run of the
    loop: the out-of-schedule value `-1` is never returned, `C13.retry_header_range`) -/
def padded (sched : List Fault) : List Fault :=
  sched ++ List.replicate (MUNGE_SOCKET_RETRY_ATTEMPTS.toNat + 1) .ok

def xfer (P : Prims) (cf : Conf) (env : Env) (rs : ReplaySet) (type : Nat) (body : Bytes) (sched : List Fault) : XferOut :=
  xferLoop P cf env type body (padded sched) loopInit 0 rs [] []

/-! ### `munge_encode` / `munge_decode` -/

structure EncResult where
  err : Int
  /-- `*cred`: none = NULL -/
  cred : Option Bytes
deriving Repr, DecidableEq

/-- `munge_encode (&cred, ctx, buf, len)` with the ctx options in `m` (cipher, mac, zip, realm, ttl,
    restrictions) and the payload in `m.data` -/
def mungeEncode (P : Prims) (cf : Conf) (env : Env) (rs : ReplaySet) (m : Msg) (sched : List Fault) : EncResult × XferOut :=
  let x := xfer P cf env rs MUNGE_MSG_ENC_REQ.toNat (encBody m) sched
  if x.err ≠ EMUNGE_SUCCESS then ({ err := x.err, cred := none }, x) else
  match x.rsp with
  | none => ({ err := EMUNGE_SNAFU, cred := none }, x)
  | some r =>
    -- _encode_rsp
    if (r.type : Int) ≠ MUNGE_MSG_ENC_RSP then ({ err := EMUNGE_SNAFU, cred := none }, x)
    else if r.dataLen = 0 then ({ err := EMUNGE_SNAFU, cred := none }, x)
    else ({ err := r.errorNum, cred := some r.data }, x)

/-- outputs of `munge_decode`: return value, `*buf` / `*len` / `*uid` / `*gid`, the ctx fields -/
structure DecResult where
  err : Int
  data : Option Bytes := none            -- *buf (none = NULL)
  len : Nat := 0
  uid : Nat := 4294967295                -- UID_SENTINEL
  gid : Nat := 4294967295
  cipher : Int := -1
  mac : Int := -1
  zip : Int := -1
  realm : Option Bytes := none
  ttl : Int := -1
  addr : Bytes := [0, 0, 0, 0]
  time0 : Int := -1
  time1 : Int := -1
  authUid : Nat := 4294967295
  authGid : Nat := 4294967295
deriving Repr, DecidableEq

/-- `_decode_rsp` -/
def decodeRsp (r : Msg) : DecResult :=
  { err := r.errorNum, data := if r.dataLen > 0 then some r.data else none, len := r.dataLen,
    uid := r.credUid, gid := r.credGid, cipher := r.cipher, mac := r.mac, zip := r.zip,
    realm := if r.realmLen > 0 then some r.realm else none, ttl := r.ttl, addr := r.addr,
    time0 := r.time0, time1 := r.time1, authUid := r.authUid, authGid := r.authGid }

/-- `munge_decode (cred, ctx, &buf, &len, &uid, &gid)`; `cred` is the C string including its NUL -/
def mungeDecode (P : Prims) (cf : Conf) (env : Env) (rs : ReplaySet) (cred : Bytes) (sched : List Fault) : DecResult × XferOut :=
  let x := xfer P cf env rs MUNGE_MSG_DEC_REQ.toNat (decBody cred) sched
  if x.err ≠ EMUNGE_SUCCESS then ({ err := x.err }, x) else
  match x.rsp with
  | none => ({ err := EMUNGE_SNAFU }, x)
  | some r =>
    if (r.type : Int) ≠ MUNGE_MSG_DEC_RSP then ({ err := EMUNGE_SNAFU }, x)
    else (decodeRsp r, x)

end Munge.Retry
