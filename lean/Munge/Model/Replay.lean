import Munge.Model.Hash
/-
Model of `src/munged/replay.c` on top of `Munge.Hash`, and of the daemon's use of it in
`src/munged/dec.c` (`dec_validate_time` → `dec_validate_replay` → send → roll back) at request
granularity (C05, C07).  Constants, the comparator kernel, the purge predicate, the expiry
expression, the retry gate, the time check and the roll-back condition are `Munge.Gen.Hash.*`.
-/
namespace Munge.Replay
open Munge.C Munge.Hash Munge.Gen.Hash

/-- key of a replay node: the kept MAC bytes and `t_expired` -/
structure Key where
  mac : List UInt8
  exp : Int
deriving DecidableEq, Repr

/-- C `memcmp` over the kept MAC bytes: the sign of the first difference (C specifies only the
    sign; the model returns the difference of the two bytes).  The C only ever compares strings
    of exactly `MAC_KEEP` bytes; for strings of different length the model orders a proper
    prefix first, which makes it a total order on all byte strings. -/
def memcmp : List UInt8 → List UInt8 → Int
  | [], [] => 0
  | [], _ :: _ => -1
  | _ :: _, [] => 1
  | a :: as, b :: bs => if a = b then memcmp as bs else (a.toNat : Int) - (b.toNat : Int)

/-- `replay_cmp_f` (translated kernel; the `memcmp` result is its input) -/
def cmp (k1 k2 : Key) : Int :=
  (replay_cmp_f k1.exp k2.exp (if memcmpSwapped then memcmp k2.mac k1.mac else memcmp k1.mac k2.mac)).ret

/-- weighted byte sum -/
def wsum : List Nat → List UInt8 → Nat
  | w :: ws, b :: bs => w * b.toNat + wsum ws bs
  | _, _ => 0

/-- `replay_key_f` -/
def keyf (k : Key) : Nat := wsum keyWeights k.mac % 4294967296

/-- `replay_is_expired (r, key, &now)` -/
def isExpired (now : Int) (k : Key) : Int := (replay_is_expired k.exp now).ret

/-- what `replay_insert` / `replay_remove` read from the credential: `c->mac` and, through
    `c->msg`, `time0` and `ttl` (already capped by `dec_validate_time`) -/
structure Cred where
  mac : List UInt8
  time0 : Int
  ttl : Int
deriving DecidableEq, Repr

/-- key built by `replay_insert`: `memcpy (r->data.mac, c->mac, sizeof (r->data.mac))`, expiry expression -/
def insertKey (c : Cred) : Key := ⟨c.mac.take MAC_KEEP, insertExpiry c.time0 c.ttl⟩
/-- key rebuilt by `replay_remove` -/
def removeKey (c : Cred) : Key := ⟨c.mac.take MAC_KEEP, removeExpiry c.time0 c.ttl⟩

/-- `replay_hash` (NULL before `replay_init` and after `replay_fini`) and `conf->got_benchmark` -/
structure State where
  table : Option (Table Key) := none
  benchmark : Bool := false

/-- `replay_init` with the table size as a parameter (the daemon uses `REPLAY_HASH_SIZE`) -/
def initSized (size : Nat) (st : State) : State :=
  match st.table with
  | some _ => st
  | none => if st.benchmark then st else { st with table := some (Table.empty size) }

def init (st : State) : State := initSized REPLAY_HASH_SIZE st

/-- `replay_fini` -/
def fini (st : State) : State := { st with table := none }

/-- `replay_insert`: `(state', return value, errno)`; 0 inserted, 1 already present, -1 error -/
def insert (st : State) (c : Cred) : State × Int × Int :=
  match st.table with
  | none => if st.benchmark then (st, 0, 0) else (st, -1, EPERM)
  | some t =>
    match Hash.insert cmp keyf t (insertKey c) with
    | (t', true) => ({ st with table := some t' }, 0, 0)
    | (_, false) => (st, 1, EEXIST)

/-- `replay_remove`: 0 removed, -1 absent / no table -/
def remove (st : State) (c : Cred) : State × Int :=
  match st.table with
  | none => if st.benchmark then (st, 0) else (st, -1)
  | some t =>
    match Hash.remove cmp keyf t (removeKey c) with
    | (t', some _) => ({ st with table := some t' }, 0)
    | (_, none) => (st, -1)

/-- `replay_purge` with `time ()` returning `now`: number of nodes purged -/
def purge (st : State) (now : Int) : State × Nat :=
  match st.table with
  | none => (st, 0)
  | some t => let r := Hash.deleteIf (isExpired now) t; ({ st with table := some r.1 }, r.2)

/-- items of the table in `hash_for_each` order -/
def State.items (st : State) : List Key := match st.table with | some t => t.toList | none => []

/-- the key is in the replay table -/
def State.has (st : State) (k : Key) : Prop := k ∈ st.items
instance (st : State) (k : Key) : Decidable (st.has k) := by unfold State.has; infer_instance

/-! ### the daemon's decode path around the replay table -/

/-- configuration read by the two kernels -/
structure Cfg where
  max_ttl : Int := 3600
  got_clock_skew : Int := 1
  got_socket_retry : Int := 1

/-- one decode request as far as C05/C07 are concerned -/
structure Req where
  mac : List UInt8          -- `c->mac`, the MAC `dec_validate_mac` verified
  time0 : Int               -- encode time carried in the credential
  ttl : Int                 -- ttl carried in the credential (not yet capped)
  retry : Int               -- header retry count
  preErr : Int              -- error of the stages before `dec_validate_auth` (0: armor, MAC, ... all fine)
  authOk : Bool             -- verdict of `dec_validate_auth`
  sendOk : Bool             -- whether `m_msg_send` of the reply succeeds
deriving DecidableEq, Repr

/-- what happened to a request -/
structure Outcome where
  code : Int                -- `m->error_num` of the reply (0 = EMUNGE_SUCCESS)
  delivered : Bool          -- the reply reached the client
  insertRet : Option Int    -- return value of this request's `replay_insert`, if it got that far
  withdrew : Bool           -- this request called `replay_remove`
deriving DecidableEq, Repr

/-- roll-back decision: `rc` (0 iff every stage succeeded) and the credential fields written by the replay stage -/
abbrev RollbackPred := Int → (String → Int) → Bool

/-- the decision the source makes today (regenerated) -/
def genRollback : RollbackPred := fun rc fld => decide (rollbackCond rc fld)

/-- error code a kernel reported through `m_msg_set_err` -/
def errOf (o : KOut) : Int :=
  match o.events.find? (·.1 == "m_msg_set_err") with
  | some (_, [e]) => e
  | _ => EMUNGE_SNAFU

/-- `m->ttl` after `dec_validate_time` -/
def ttlAfter (o : KOut) (ttl : Int) : Int := (o.written "c.msg.ttl").getD ttl

/-- credential handed to `replay_insert` by a request whose time check passed at `now` -/
def credOf (cfg : Cfg) (now : Int) (r : Req) : Cred :=
  ⟨r.mac, r.time0, ttlAfter (dec_validate_time r.time0 r.ttl (wrapU32 now) cfg.max_ttl cfg.got_clock_skew) r.ttl⟩

/-- fields of the per-request credential after the replay stage (zero unless written) -/
def fieldsOf (o : KOut) : String → Int := fun p => (o.written p).getD 0

/-- the daemon as seen by C05/C07: the replay table and the clock -/
structure Daemon where
  replay : State
  now : Int

/-- One decode request, start to finish, with nothing interleaved:
    … earlier stages → `dec_validate_auth` → `dec_validate_time` → `dec_validate_replay`
    → `m_msg_send` → (`replay_remove` if the send failed and the roll-back condition holds). -/
def attempt (rb : RollbackPred) (cfg : Cfg) (d : Daemon) (r : Req) : Daemon × Outcome :=
  if r.preErr ≠ 0 then (d, ⟨r.preErr, r.sendOk, none, false⟩)
  else if !r.authOk then (d, ⟨EMUNGE_CRED_UNAUTHORIZED, r.sendOk, none, false⟩)
  else
    let tv := dec_validate_time r.time0 r.ttl (wrapU32 d.now) cfg.max_ttl cfg.got_clock_skew
    if tv.ret < 0 then (d, ⟨errOf tv, r.sendOk, none, false⟩)
    else
      let c : Cred := ⟨r.mac, r.time0, ttlAfter tv r.ttl⟩
      let (st', ins, errno) := insert d.replay c
      let rv := dec_validate_replay r.retry cfg.got_socket_retry errno ins
      let rc : Int := if rv.ret < 0 then -1 else 0
      let code : Int := if rv.ret < 0 then errOf rv else EMUNGE_SUCCESS
      if r.sendOk then ({ d with replay := st' }, ⟨code, true, some ins, false⟩)
      else if rb rc (fieldsOf rv) then ({ d with replay := (remove st' c).1 }, ⟨code, false, some ins, true⟩)
      else ({ d with replay := st' }, ⟨code, false, some ins, false⟩)

/-- events of a daemon history -/
inductive Ev where
  | req (r : Req)           -- a decode request handled start to finish
  | tick (δ : Nat)          -- the clock advances
  | purge                   -- the purge timer fires (`replay_purge`)
deriving DecidableEq, Repr

def stepEv (rb : RollbackPred) (cfg : Cfg) (d : Daemon) : Ev → Daemon × Option Outcome
  | .req r => let (d', o) := attempt rb cfg d r; (d', some o)
  | .tick δ => ({ d with now := d.now + δ }, none)
  | .purge => ({ d with replay := (purge d.replay d.now).1 }, none)

/-- run a history; the outcomes are listed in order (`none` for clock and purge events) -/
def run (rb : RollbackPred) (cfg : Cfg) : Daemon → List Ev → Daemon × List (Option Outcome)
  | d, [] => (d, [])
  | d, e :: es =>
    let (d', o) := stepEv rb cfg d e
    let (d'', os) := run rb cfg d' es
    (d'', o :: os)

/-! ### the same path cut into its atomic steps, for interleavings (C05 `at_most_once_conc`)

Only requests that reach `dec_validate_replay` are represented: the earlier stages touch
nothing shared.  A request is at `pc` 0 (before the replay stage), 1 (replay stage done, reply
not yet sent), 2 (send done) or 3 (finished). -/

structure CReq where
  cred : Cred               -- as handed to `replay_insert` / `replay_remove`
  retry : Int
  sendOk : Bool

structure Local where
  pc : Nat := 0
  ins : Int := 0            -- return value of `replay_insert`
  rc : Int := -1
  code : Int := 0
  fld : String → Int := fun _ => 0
  withdrew : Bool := false

structure Sys where
  replay : State
  loc : Nat → Local

/-- request `i` performs its next atomic step -/
def Sys.step (rb : RollbackPred) (cfg : Cfg) (reqs : Nat → CReq) (s : Sys) (i : Nat) : Sys :=
  let r := reqs i
  let l := s.loc i
  let upd (l' : Local) : Nat → Local := fun j => if j = i then l' else s.loc j
  match l.pc with
  | 0 =>
    let (st', ins, errno) := insert s.replay r.cred
    let rv := dec_validate_replay r.retry cfg.got_socket_retry errno ins
    { replay := st',
      loc := upd { l with pc := 1, ins := ins, rc := if rv.ret < 0 then -1 else 0,
                          code := if rv.ret < 0 then errOf rv else EMUNGE_SUCCESS, fld := fieldsOf rv } }
  | 1 => { s with loc := upd { l with pc := 2 } }
  | 2 =>
    if !r.sendOk && rb l.rc l.fld then
      { replay := (remove s.replay r.cred).1, loc := upd { l with pc := 3, withdrew := true } }
    else { s with loc := upd { l with pc := 3 } }
  | _ => s

/-- run a schedule (a list of request indices) -/
def Sys.run (rb : RollbackPred) (cfg : Cfg) (reqs : Nat → CReq) (s : Sys) (sched : List Nat) : Sys :=
  sched.foldl (Sys.step rb cfg reqs) s

end Munge.Replay
