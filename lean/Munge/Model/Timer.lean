import Munge.Gen.Timer
/-
`Timer` — executable model of `src/munged/timer.c` (+ `clock.c`) for C18.

Everything that decides behaviour comes from `Munge.Gen.Timer`, regenerated from the
sources on every run: the timespec comparator and the clock arithmetic (translated
kernels), the comparison used at the sorted-insert walk and at the expiry scan (which
comparator, argument order, polarity), the head-change tests that trigger
`pthread_cond_signal`, the id-counter bump, the argument guards and return values.

Granularity (licensed by the generated event orders `setEvents`, `cancelEvents`,
`threadEvents`): `timer_set_absolute` and `timer_cancel` run entirely under
`_timer_mutex`, so each is one atomic step; one iteration of `_timer_thread` is
"read clock, detach the expired prefix" under the mutex, then one callback at a time with
the mutex released, then "recycle, go to sleep on the head's timespec" under the mutex.

`seq`/`nset` are ghost (the number of timers set so far): they give every timer an
identity that survives the wrap of the `long` id counter.
-/
namespace Munge.Timer
open Munge.C

/-- a `struct timespec` as (tv_sec, tv_nsec) -/
abbrev TS := Int × Int

/-- `clock_is_timespec_le (&a, &b)` on non-NULL pointers, as a truth value -/
def le (a b : TS) : Bool := (Gen.Timer.clock_is_timespec_le 1 1 a.1 a.2 b.1 b.2).ret != 0

/-- `clock_get_timespec (&ts, ms)` when `clock_gettime` stores `now` and returns 0 -/
def addMs (now : TS) (ms : Int) : TS :=
  let o := Gen.Timer.clock_get_timespec 1 now.1 now.2 ms 0
  ((o.written "tsp.tv_sec").getD now.1, (o.written "tsp.tv_nsec").getD now.2)

structure Tm where
  id : Int
  ts : TS
  cb : Nat
  seq : Nat
deriving DecidableEq, Repr

/-- what a caller (any thread, or a running callback) can ask of the timer module -/
inductive Act where
  | setAbs (ts : TS) (cb : Nat)
  | setRel (ms : Int) (cb : Nat)
  | cancel (id : Int)
deriving DecidableEq, Repr

structure State where
  /-- `_timer_active` -/
  active : List Tm := []
  /-- `timer_expired`: detached, being dispatched with the mutex released -/
  batch : List Tm := []
  /-- `_timer_id` -/
  nextId : Int := 0
  /-- ghost: number of timers set so far -/
  nset : Nat := 0
  /-- dispatch log: (timer, clock reading when its callback started) -/
  log : List (Tm × TS) := []
  /-- the clock -/
  now : TS := (0, 0)
deriving Repr

def init : State := {}

/-! ### timer_set_absolute -/

/-- the sorted-insert walk: `while (*pp && <walk test>) pp = &(*pp)->next; t->next = *pp; *pp = t` -/
def insertAt (t : Tm) : List Tm → List Tm
  | [] => [t]
  | e :: r => if Gen.Timer.insertWalkContinues e.ts t.ts then e :: insertAt t r else t :: e :: r

/-- number of elements the walk stepped past (`pp == &_timer_active` iff 0) -/
def insertPos (ts : TS) : List Tm → Nat
  | [] => 0
  | e :: r => if Gen.Timer.insertWalkContinues e.ts ts then insertPos ts r + 1 else 0

/-- the new value of `_timer_id` / `t->id` -/
def bumpId (id : Int) : Int := (Gen.Timer.timer_id_bump id).ret

/-- returns (state, returned id, whether `pthread_cond_signal` is called) -/
def setAbs (s : State) (ts : TS) (cb : Nat) : State × Int × Bool :=
  let id := bumpId s.nextId
  let t : Tm := { id := id, ts := ts, cb := cb, seq := s.nset }
  ({ s with active := insertAt t s.active, nextId := id, nset := s.nset + 1 },
   id, Gen.Timer.setSignals (insertPos ts s.active) s.active.length)

/-- `timer_set_relative`: the absolute time is computed from the clock *now* -/
def setRel (s : State) (ms : Int) (cb : Nat) : State × Int × Bool :=
  setAbs s (addMs s.now ms) cb

/-! ### timer_cancel -/

def hasId (id : Int) (t : Tm) : Bool := t.id == id

/-- returns (state, return value, whether `pthread_cond_signal` is called) -/
def cancel (s : State) (id : Int) : State × Int × Bool :=
  let g := Gen.Timer.timer_cancel_guard id
  if g.ret ≠ 0 then (s, g.ret, false) else
  match s.active.find? (hasId id) with
  | none => (s, (Gen.Timer.timer_cancel_ret 0).ret, false)
  | some _ =>
    ({ s with active := s.active.eraseP (hasId id) }, (Gen.Timer.timer_cancel_ret 1).ret,
     Gen.Timer.cancelSignals (s.active.findIdx (hasId id)) s.active.length)

def applyAct (s : State) : Act → State × Int × Bool
  | .setAbs ts cb => setAbs s ts cb
  | .setRel ms cb => setRel s ms cb
  | .cancel id => cancel s id

/-- a sequence of requests; the Bool says whether any of them signalled -/
def applyActs (s : State) : List Act → State × Bool
  | [] => (s, false)
  | a :: r =>
    let (s1, _, sig) := applyAct s a
    let (s2, sig2) := applyActs s1 r
    (s2, sig || sig2)

/-! ### the timer thread -/

/-- the clock only moves forward (the property quantifies over forward jumps of any size) -/
def tick (s : State) (now' : TS) : State :=
  if le s.now now' then { s with now := now' } else s

/-- `clock_get_timespec (&ts_now, <offset>)` -/
def scanNow (s : State) : TS := addMs s.now Gen.Timer.scanOffsetMs

def expired (now : TS) (t : Tm) : Bool := Gen.Timer.scanWalkContinues t.ts now

/-- detach the expired prefix (only when no batch is being dispatched: the thread scans again
    only after the dispatch loop has finished) -/
def scan (s : State) : State :=
  match s.batch with
  | [] => { s with batch := s.active.takeWhile (expired (scanNow s)),
                   active := s.active.dropWhile (expired (scanNow s)) }
  | _ :: _ => s

/-- the dispatch loop takes the next detached timer and logs the start of its callback -/
def dispatch (s : State) : State :=
  match s.batch with
  | [] => s
  | t :: b => { s with batch := b, log := s.log ++ [(t, s.now)] }

/-- dispatch the next detached timer with the mutex released; what its callback asks of the
    timer module is `acts` -/
def run (s : State) (acts : List Act) : State :=
  match s.batch with
  | [] => s
  | _ :: _ => (applyActs (dispatch s) acts).1

inductive Op where
  /-- requests from any other thread -/
  | ext (acts : List Act)
  | tick (now : TS)
  | scan
  | run (acts : List Act)
deriving Repr

def step (s : State) : Op → State
  | .ext acts => (applyActs s acts).1
  | .tick n => tick s n
  | .scan => scan s
  | .run acts => run s acts

def exec (s : State) (ops : List Op) : State := ops.foldl step s

/-! ### observation helpers used by the theorems -/

def logged (s : State) : List Tm := s.log.map (·.1)

/-- dispatched, being dispatched, pending — in this order -/
def line (s : State) : List Tm := logged s ++ s.batch ++ s.active

/-- strict (expiry time, set order) order: `a` must fire before `b` -/
def before (a b : Tm) : Prop := le a.ts b.ts = true ∧ (le b.ts a.ts = true → a.seq < b.seq)

/-- state invariant of the timer module (`sorted_inv` and friends) -/
structure TimerInv (s : State) : Prop where
  /-- `_timer_active` is sorted by (expiry time, set order) -/
  sorted : s.active.Pairwise before
  /-- ghost sequence numbers are below the counter … -/
  fresh : ∀ t ∈ line s, t.seq < s.nset
  /-- … and pairwise distinct: a timer is in at most one of log / batch / active, once -/
  nodup : ((line s).map Tm.seq).Nodup
  /-- everything detached had expired at the clock reading of its scan -/
  batchExp : ∀ t ∈ s.batch, le t.ts s.now = true
  /-- no callback started before its expiry time -/
  logOk : ∀ p ∈ s.log, le p.1.ts p.2 = true

/-- `b` never precedes `a` in `l` -/
def NeverBefore (b a : Tm) (l : List Tm) : Prop := l.Pairwise (fun x y => ¬ (x = b ∧ y = a))

/-- the timer ids in use are positive, at most the counter, and pairwise distinct -/
structure IdInv (s : State) : Prop where
  counter : 0 ≤ s.nextId
  range : ∀ t ∈ s.batch ++ s.active, 0 < t.id ∧ t.id ≤ s.nextId
  distinct : (s.batch ++ s.active).Pairwise (fun a b => a.id ≠ b.id)

def isSet : Act → Bool
  | .cancel _ => false
  | _ => true

def actCb : Act → Option Nat
  | .setAbs _ c => some c
  | .setRel _ c => some c
  | .cancel _ => none

/-- number of `timer_set_*` calls in a list of requests / in a trace -/
def setCount (acts : List Act) : Nat := (acts.filter isSet).length
def opSets : Op → Nat
  | .ext acts => setCount acts
  | .run acts => setCount acts
  | _ => 0
def traceSets (ops : List Op) : Nat := (ops.map opSets).sum

/-- some request in the trace is `timer_cancel (id)` -/
def actsCancel (id : Int) (acts : List Act) : Prop := Act.cancel id ∈ acts
def opCancels (id : Int) : Op → Prop
  | .ext acts => actsCancel id acts
  | .run acts => actsCancel id acts
  | _ => False
def traceCancels (id : Int) (ops : List Op) : Prop := ∃ op ∈ ops, opCancels id op

def runCount (ops : List Op) : Nat := (ops.filter (fun o => match o with | .run _ => true | _ => false)).length

/-! ### recurring services -/

/-- a timer whose callback is `c` is pending or being dispatched -/
def Pending (c : Nat) (s : State) : Prop := ∃ t ∈ s.batch ++ s.active, t.cb = c

/-- no request of the list cancels a pending timer of callback `c` -/
def Harmless (c : Nat) : State → List Act → Prop
  | _, [] => True
  | s, a :: r =>
    (match a with
     | .cancel id => ∀ t ∈ s.active, t.id = id → t.cb ≠ c
     | _ => True) ∧ Harmless c (applyAct s a).1 r

/-- the list sets a timer with callback `c`, and nothing after that cancels it -/
def Rearms (c : Nat) (s : State) (acts : List Act) : Prop :=
  ∃ pre a post, acts = pre ++ a :: post ∧ actCb a = some c ∧
    Harmless c (applyActs s (pre ++ [a])).1 post

/-- requests from outside either leave `c`'s timer alone or (like `gids_update`: cancel, then
    set with delay 0) set it again before they are done -/
def Keeps (c : Nat) (s : State) (acts : List Act) : Prop := Harmless c s acts ∨ Rearms c s acts

/-- the trace respects the recurrence protocol for callback `c`: the callback itself always
    re-arms, everybody else keeps -/
def RecursOK (c : Nat) : State → List Op → Prop
  | _, [] => True
  | s, op :: rest =>
    (match op with
     | .ext acts => Keeps c s acts
     | .run acts =>
       match s.batch with
       | t :: _ => if t.cb = c then Rearms c (dispatch s) acts else Keeps c (dispatch s) acts
       | [] => True
     | _ => True) ∧ RecursOK c (step s op) rest

/-! ### the thread's sleeping logic (for `no_missed_head`) -/

inductive Thr where
  | running
  /-- blocked in `pthread_cond_wait` of `while (!_timer_active)` -/
  | waitEmpty
  /-- blocked in `pthread_cond_timedwait` with this deadline -/
  | timedWait (dl : TS)
deriving DecidableEq, Repr

structure Sys where
  st : State := {}
  thr : Thr := .running
deriving Repr

inductive SOp where
  | ext (acts : List Act)
  | tick (now : TS)
  /-- one step of the timer thread (if it is not blocked) -/
  | thread
deriving Repr

def blocked : Thr → Bool
  | .running => false
  | _ => true

/-- behaviour of callbacks: what the callback of timer `t`, started in state `s`, asks for -/
abbrev Beh := Tm → State → List Act

def sysStep (beh : Beh) (y : Sys) : SOp → Sys
  | .ext acts =>
    let (s', sig) := applyActs y.st acts
    -- a signal wakes a blocked thread; a signal sent while it runs is lost
    { st := s', thr := if sig then .running else y.thr }
  | .tick n =>
    let s' := tick y.st n
    { st := s', thr := match y.thr with
        | .timedWait dl => if le dl s'.now then .running else .timedWait dl
        | t => t }
  | .thread =>
    match y.thr with
    | .running =>
      match y.st.batch with
      | t :: _ => { y with st := run y.st (beh t y.st) }
      | [] =>
        match y.st.active with
        | [] => { y with thr := .waitEmpty }
        | _ :: _ =>
          let s' := scan y.st
          match s'.batch, s'.active with
          | [], h :: _ => { st := s', thr := .timedWait h.ts }
          | _, _ => { st := s', thr := .running }
    | _ => y

/-- run the thread until it blocks (fuel bounds the number of thread steps) -/
def settle (beh : Beh) : Nat → Sys → Sys
  | 0, y => y
  | n + 1, y => if blocked y.thr then y else settle beh n (sysStep beh y .thread)

/-- what must hold while the thread is blocked: it waits without deadline only if nothing is
    pending; otherwise its deadline is still in the future and not later than any pending timer -/
def SInv (y : Sys) : Prop :=
  match y.thr with
  | .running => True
  | .waitEmpty => y.st.active = [] ∧ y.st.batch = []
  | .timedWait dl => y.st.batch = [] ∧ (∀ x ∈ y.st.active, le dl x.ts = true) ∧ le dl y.st.now = false

end Munge.Timer
