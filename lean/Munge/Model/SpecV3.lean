import Munge.Model.Cred
/-
An independent statement of the documented MUNGE credential v3 format (doc/credential_v3_format.txt),
written from that document alone: its own big-endian and base64 definitions, the layout of OUTER and
INNER, MAC over OUTER‖INNER(compressed) under the MAC subkey, DEK = HMAC(DEK subkey, MAC), CBC/PKCS#5
over the (compressed) INNER, base64 of OUTER‖MAC‖INNER between "MUNGE:" and ":".  It shares only the
abstract primitives (`Prims`) with the model of the daemon.
-/
namespace Munge.SpecV3
open Munge.Cred

/-- the fields of a credential -/
structure Fields where
  cipher : Nat
  mac : Nat
  zip : Nat
  realm : Bytes          -- without the terminating NUL
  iv : Bytes
  salt : Bytes           -- 64 bits
  addr : Bytes           -- origin IP address
  time0 : Nat
  ttl : Nat
  uid : Nat
  gid : Nat
  authUid : Nat
  authGid : Nat
  payload : Bytes
deriving Repr, DecidableEq

/-- 32-bit big-endian (network byte order) -/
def u32be (n : Nat) : Bytes :=
  [UInt8.ofNat (n / 2 ^ 24 % 256), UInt8.ofNat (n / 2 ^ 16 % 256), UInt8.ofNat (n / 2 ^ 8 % 256), UInt8.ofNat (n % 256)]

def b64Alphabet : List Char := "ABCDEFGHIJKLMNOPQRSTUVWXYZabcdefghijklmnopqrstuvwxyz0123456789+/".toList
def b64Char (n : Nat) : UInt8 := UInt8.ofNat (b64Alphabet.getD n 'A').toNat
/-- RFC 4648 base64 with padding -/
def base64 : Bytes → Bytes
  | a :: b :: c :: rest =>
      let n := a.toNat * 65536 + b.toNat * 256 + c.toNat
      b64Char (n / 262144) :: b64Char (n / 4096 % 64) :: b64Char (n / 64 % 64) :: b64Char (n % 64) :: base64 rest
  | [a, b] =>
      let n := a.toNat * 65536 + b.toNat * 256
      [b64Char (n / 262144), b64Char (n / 4096 % 64), b64Char (n / 64 % 64), 61]
  | [a] =>
      let n := a.toNat * 65536
      [b64Char (n / 262144), b64Char (n / 4096 % 64), 61, 61]
  | [] => []

def outer (f : Fields) : Bytes :=
  [3, UInt8.ofNat f.cipher, UInt8.ofNat f.mac, UInt8.ofNat f.zip, UInt8.ofNat f.realm.length] ++ f.realm ++ f.iv

def inner (f : Fields) : Bytes :=
  f.salt ++ [UInt8.ofNat f.addr.length] ++ f.addr ++ u32be f.time0 ++ u32be f.ttl ++ u32be f.uid ++ u32be f.gid ++
  u32be f.authUid ++ u32be f.authGid ++ u32be f.payload.length ++ f.payload

/-- 64-bit compression header (magic 0xCACACACA, original length) followed by the compressed stream -/
def compressed (P : Prims) (f : Fields) : Bytes :=
  if f.zip = 0 then inner f else u32be 3402287818 ++ u32be (inner f).length ++ P.deflate f.zip (inner f)

/-- the credential string for fields `f` under the two subkeys (steps 1–5 of the document) -/
def emit (P : Prims) (macKey dekKey : Bytes) (f : Fields) : Bytes :=
  let o := outer f
  let z := compressed P f
  let tag := P.mac f.mac macKey (o ++ z)
  let body := if f.cipher = 0 then z else P.encrypt f.cipher (P.mac f.mac dekKey tag) f.iv z
  "MUNGE:".toUTF8.toList ++ base64 (o ++ tag ++ body) ++ ":".toUTF8.toList

/-- well-formed fields: what a conforming encoder may put into a credential -/
structure WF (P : Prims) (f : Fields) : Prop where
  cipher_ok : f.cipher = 0 ∨ P.cipherValid f.cipher = true
  mac_ok : P.macValid f.mac = true
  dek_ok : P.keyLen f.cipher ≤ P.macLen f.mac
  zip_ok : f.zip = 0 ∨ P.zipValid f.zip = true
  realm_len : f.realm.length < 255
  iv_len : (f.iv.length : Int) = if f.cipher = 0 then 0 else P.ivLen f.cipher
  salt_len : f.salt.length = 8
  addr_len : f.addr.length = 4 ∨ f.addr.length = 0
  ranges : f.cipher < 256 ∧ f.mac < 256 ∧ f.zip < 256 ∧ f.time0 < 2 ^ 32 ∧ f.ttl < 2 ^ 32 ∧ f.uid < 2 ^ 32 ∧
           f.gid < 2 ^ 32 ∧ f.authUid < 2 ^ 32 ∧ f.authGid < 2 ^ 32 ∧ f.payload.length ≤ 1048576

end Munge.SpecV3
