import Munge.Gen.Hkdf
/-
Hand-written executable model for C20 (keys and HKDF).

* `Hkdf.run`        mirrors `hkdf()` / `_hkdf_extract` / `_hkdf_expand` of `src/common/hkdf.c` over an abstract
                    `mac : key → message → tag`.  Which source keys each MAC call, what is fed in which order under
                    which guard, the round update, the copy length and the stop test are `Munge.Gen.Hkdf.*`,
                    regenerated from the C source on every run.
* `Spec.rfc5869`    the definition of RFC 5869 section 2, written from the RFC text only.
* `Mungekey.*`      `--bits` handling of `src/mungekey/conf.c`, the distinguisher and HKDF call of
                    `_create_key_secret`, and `create_key` as a step of an abstract file system
                    (`unlink` under `--force`, `open` with the generated flags and mode, `write`).
* `Subkeys.*`       `create_subkeys` of `src/munged/conf.c`: an interpreter for the generated straight-line digest
                    program over an abstract streaming digest and a script of `read()` results.
* `Toy.*`           a keyed checksum with the `mac_*` / `md_*` streaming API that the C harness reproduces byte for
                    byte (it stands in for HMAC / SHA so that model and code can be diffed exactly).
-/
namespace Munge.Hkdf
open Munge.C Munge.Gen.Hkdf

abbrev Bytes := List UInt8
/-- an abstract MAC: key, message ↦ tag -/
abbrev Mac := Bytes → Bytes → Bytes

/-- a buffer of `n` bytes allocated with `calloc` into which `b` was written from the start -/
def fit (n : Nat) (b : Bytes) : Bytes := (b ++ List.replicate n 0).take n

/-- the salt `hkdf()` uses: the one set by `hkdf_ctx_set_salt`, else a freshly allocated default -/
def effSalt (mdlen : Nat) : Option Bytes → Bytes
  | some s => s
  | none => List.replicate (defaultSaltLen mdlen).toNat defaultSaltByte

/-- the bytes a `Src` denotes in a given MAC call -/
def srcBytes (salt ikm info prk prev : Bytes) (round : Int) : Src → Bytes
  | .salt => salt
  | .ikm => ikm
  | .info => info
  | .prk => prk
  | .prev => prev
  | .counter => [UInt8.ofNat round.toNat]

/-- concatenation of the successive `mac_update` arguments -/
def feedBytes (salt ikm info prk prev : Bytes) (round : Int) (l : List Src) : Bytes :=
  (l.map (srcBytes salt ikm info prk prev round)).flatten

/-- `_hkdf_extract` -/
def extract (mac : Mac) (salt ikm info : Bytes) : Bytes :=
  mac (srcBytes salt ikm info [] [] 0 extractKey) (feedBytes salt ikm info [] [] 0 extractMsg)

/-- the `while` loop of `_hkdf_expand`.  `fuel` bounds the number of iterations (every iteration with a
    non-empty tag consumes output, so `fuel = L` is enough); `okm` is the scratch block (the previous tag). -/
def expandLoop (mac : Mac) (salt ikm info prk : Bytes) : Nat → Int → Bytes → Int → Bytes
  | 0, _, _, _ => []
  | fuel + 1, round, okm, left =>
    if expandMore left then
      let round' := roundNext round
      let okm' := mac (srcBytes salt ikm info prk okm round' expandKey)
                      (feedBytes salt ikm info prk okm round' (expandFeeds round' info.length))
      let n := expandCopy okm'.length left
      okm'.take n.toNat ++
        (if expandStop round' then [] else expandLoop mac salt ikm info prk fuel round' okm' (left - n))
    else []

/-- `_hkdf_expand`: the bytes written to `dst` (`*dstlenp` is their number) -/
def expand (mac : Mac) (mdlen : Nat) (salt ikm info prk : Bytes) (L : Nat) : Bytes :=
  expandLoop mac salt ikm info prk L roundInit (List.replicate mdlen okmInitByte) L

/-- `hkdf()` with digest length `mdlen = mac_size (md)`, an optional salt, and a destination of `L` bytes:
    the output keying material written (the call returns 0) -/
def run (mac : Mac) (mdlen : Nat) (salt : Option Bytes) (ikm info : Bytes) (L : Nat) : Bytes :=
  let s := effSalt mdlen salt
  let prk := fit (prkLen mdlen).toNat (extract mac s ikm info)
  expand mac mdlen s ikm info prk L

end Munge.Hkdf

/-! ## RFC 5869, section 2 — written from the RFC text, independent of the code above -/
namespace Munge.Spec
open Munge.Hkdf (Bytes Mac)

/-- 2.2  `PRK = HMAC-Hash(salt, IKM)`; "salt: optional salt value (a non-secret random value); if not
    provided, it is set to a string of HashLen zeros." -/
def hkdfExtract (hmac : Mac) (hashLen : Nat) (salt : Option Bytes) (ikm : Bytes) : Bytes :=
  hmac (salt.getD (List.replicate hashLen 0)) ikm

/-- 2.3  `T(0) = empty string`, `T(i) = HMAC-Hash(PRK, T(i-1) | info | i)` with `i` a single octet -/
def hkdfT (hmac : Mac) (prk info : Bytes) : Nat → Bytes
  | 0 => []
  | i + 1 => hmac prk (hkdfT hmac prk info i ++ info ++ [UInt8.ofNat (i + 1)])

/-- 2.3  `N = ceil(L/HashLen)`, `T = T(1) | T(2) | … | T(N)`, `OKM = first L octets of T` -/
def hkdfExpand (hmac : Mac) (hashLen : Nat) (prk info : Bytes) (L : Nat) : Bytes :=
  let N := (L + hashLen - 1) / hashLen
  (((List.range N).map fun i => hkdfT hmac prk info (i + 1)).flatten).take L

/-- HKDF (defined by the RFC for `L ≤ 255·HashLen`) -/
def rfc5869 (hmac : Mac) (hashLen : Nat) (salt : Option Bytes) (ikm info : Bytes) (L : Nat) : Bytes :=
  hkdfExpand hmac hashLen (hkdfExtract hmac hashLen salt ikm) info L

end Munge.Spec

/-! ## mungekey -/
namespace Munge.Mungekey
open Munge.C Munge.Gen.Hkdf Munge.Hkdf

/-- `_conf_parse_bits_opt` applied to the number `strtol` produced: the byte count stored, or `none` when
    the program exits with "invalid value" -/
def parseBits (l : Int) : Option Int :=
  if setIntRejects l bitsMin bitsMax then none else some (bitsToBytes (setIntValue l))

/-- `_conf_validate` accepts (no fatal `log_err`) -/
def validates (keyNumBytes : Int) : Bool := (conf_validate 1 1 keyNumBytes).events.isEmpty

/-- `create_conf` + `parse_cmdline` for an optional `--bits` value: `confp->key_num_bytes`, or `none` = exit 1 -/
def keyNumBytes (bits : Option Int) : Option Int :=
  if !validates dflBytes then none else
  match bits with
  | none => some dflBytes
  | some l =>
    match parseBits l with
    | none => none
    | some n => if validates n then some n else none

/-- decimal digits of an `int` as `%d` prints them -/
def decimal (n : Int) : Bytes := (toString n).toList.map fun c => UInt8.ofNat c.toNat

/-- bytes an argument of the `snprintf` contributes -/
def argBytes (mdName : Bytes) (bits : Int) : InfoArg → Bytes
  | .lit s => s
  | .mdName => mdName
  | .bits => decimal bits

/-- `snprintf (info, …, fmt, args…)` for formats made of literal characters, `%s` and `%d` -/
def fmtInfo (mdName : Bytes) (bits : Int) : List UInt8 → List InfoArg → Bytes
  | 37 :: 115 :: rest, a :: as => argBytes mdName bits a ++ fmtInfo mdName bits rest as
  | 37 :: 100 :: rest, a :: as => argBytes mdName bits a ++ fmtInfo mdName bits rest as
  | c :: rest, as => c :: fmtInfo mdName bits rest as
  | [], _ => []

/-- the distinguisher `_create_key_secret` builds for a buffer of `buflen` bytes -/
def keyInfo (buflen : Int) : Bytes := fmtInfo DEFAULT_MAC_NAME (numBits buflen) infoFormat infoArgs

/-- `_create_key_secret (buf, buflen)`: HKDF over the default MAC of the entropy read (`ikm`, `salt`) -/
def keySecret (mac : Mac) (mdlen : Nat) (ikm salt : Bytes) (buflen : Int) : Bytes :=
  Hkdf.run mac mdlen (some salt) ikm (keyInfo buflen) buflen.toNat

/-- a file of the abstract file system -/
structure File where
  content : Bytes
  mode : Nat
deriving Repr, DecidableEq

/-- abstract file system: a partial map from names to files -/
abbrev FS := String → Option File

def FS.set (fs : FS) (p : String) (f : Option File) : FS := fun q => if q = p then f else fs q

def hasFlag (flags : Nat) (f : Int) : Bool := flags &&& f.toNat != 0

/-- the creation mask in force at the `open` (a `umask ()` call before it replaces the inherited one) -/
def effUmask (u : Nat) : Nat :=
  permCalls.foldl (fun acc c => if c.1 = "umask" ∧ c.2.2 = true then c.2.1 else acc) u

/-- the mode after any `fchmod`/`chmod` that follows the `open` -/
def finalMode (m : Nat) : Nat :=
  permCalls.foldl (fun acc c => if (c.1 = "fchmod" ∨ c.1 = "chmod" ∨ c.1 = "fchmodat") ∧ c.2.2 = false then c.2.1 else acc) m

/-- `mode & ~mask`: the bits of `mode` that are not in `mask` -/
def maskMode (mode mask : Nat) : Nat := mode ^^^ (mode &&& mask)

/-- POSIX `open (path, flags, mode)` under creation mask `umask`: the new file system, or `none` when it fails
    (`EEXIST` for `O_CREAT|O_EXCL` on an existing name, `ENOENT` without `O_CREAT` on a missing one) -/
def posixOpen (fs : FS) (path : String) (flags mode umask : Nat) : Option FS :=
  match fs path with
  | some f =>
    if hasFlag flags O_CREAT && hasFlag flags O_EXCL then none
    else some (if hasFlag flags O_TRUNC then fs.set path (some { f with content := [] }) else fs)
  | none =>
    if hasFlag flags O_CREAT then some (fs.set path (some { content := [], mode := maskMode mode umask }))
    else none

/-- `write` of `b` at offset 0 of an open file -/
def writeAt0 (f : File) (b : Bytes) : File := { f with content := b ++ f.content.drop b.length }

/-- `create_key`: `(file system afterwards, exited successfully?)`.  `secret` is what `_create_key_secret`
    put into `buf`. -/
def createKey (fs : FS) (path : String) (force : Bool) (umask : Nat) (keyNumBytes : Int) (secret : Bytes) :
    FS × Bool :=
  -- unlink under --force: rv = 0 if the name existed, else -1 / ENOENT
  let unl := forceUnlinks && force
  let rv : Int := if (fs path).isSome then 0 else -1
  if unl ∧ unlinkFatal rv ENOENT then (fs, false) else
  let fs1 := if unl then fs.set path none else fs
  match posixOpen fs1 path openFlags openMode (effUmask umask) with
  | none => (fs1, false)
  | some fs2 =>
    match fs2 path with
    | none => (fs2, false)
    | some f =>
      let w := writeAt0 f ((fit (secretLen keyNumBytes).toNat secret).take (writeLen keyNumBytes).toNat)
      (fs2.set path (some { w with mode := finalMode w.mode }), true)

end Munge.Mungekey

/-! ## munged: `create_subkeys` -/
namespace Munge.Subkeys
open Munge.C Munge.Gen.Hkdf Munge.Hkdf

/-- an abstract streaming digest (`md_init` / `md_update` / `md_final`; `md_copy` copies the state) -/
structure Digest (σ : Type) where
  init : Nat → σ
  update : σ → Bytes → σ
  final : σ → Bytes

/-- the one-shot hash a streaming digest computes -/
def Digest.hash {σ : Type} (d : Digest σ) (alg : Nat) (x : Bytes) : Bytes := d.final (d.update (d.init alg) x)

/-- one return of `read (fd, buf, sizeof (buf))`: the value, `errno`, and the bytes placed in `buf` -/
structure ReadEv where
  n : Int
  errno : Int
  data : Bytes
deriving Repr, DecidableEq

/-- `ReadsOf file evs`: `evs` is a possible sequence of `read()` results on a file with content `file` — any
    number of `EINTR` failures, non-empty chunks in order (whatever `errno` happens to hold), then 0 at the end -/
inductive ReadsOf : Bytes → List ReadEv → Prop
  | eof (e : Int) : ReadsOf [] [{ n := 0, errno := e, data := [] }]
  | eintr {f : Bytes} {evs : List ReadEv} : ReadsOf f evs → ReadsOf f ({ n := -1, errno := EINTR, data := [] } :: evs)
  | data {f : Bytes} {evs : List ReadEv} (c : Bytes) (e : Int) :
      c ≠ [] → ReadsOf f evs → ReadsOf (c ++ f) ({ n := c.length, errno := e, data := c } :: evs)

/-- the `for (;;)` read loop: `some (digest state, n_total)` at end of file, `none` on a fatal read error.
    (If the script of read results ends, that counts as end of file.) -/
def readLoop {σ : Type} (d : Digest σ) (s : σ) (nTotal : Int) : List ReadEv → Option (σ × Int)
  | [] => some (s, nTotal)
  | ev :: rest =>
    if readEof ev.n ev.errno then some (s, nTotal)
    else if readRetry ev.n ev.errno then readLoop d s nTotal rest
    else if readFail ev.n ev.errno then none
    else readLoop d (d.update s ev.data) (nTotal + ev.n) rest

/-- interpreter state: digest contexts by number, `n_total`, the subkeys stored so far, fatal-error flag -/
structure St (σ : Type) where
  ctxs : List (Nat × σ) := []
  nTotal : Int := nTotalInit
  outs : List (String × Bytes) := []
  refused : Bool := false

def St.get {σ : Type} (d : Digest σ) (st : St σ) (c : Nat) : σ :=
  match st.ctxs.lookup c with
  | some s => s
  | none => d.init 0

def St.put {σ : Type} (st : St σ) (c : Nat) (s : σ) : St σ :=
  { st with ctxs := (c, s) :: st.ctxs.filter (fun p => p.1 != c) }

/-- one digest call of `create_subkeys` -/
def step {σ : Type} (d : Digest σ) (evs : List ReadEv) (st : St σ) : SkOp → St σ
  | .init c alg => st.put c (d.init alg)
  | .feedFile c =>
    match readLoop d (st.get d c) st.nTotal evs with
    | none => { st with refused := true }
    | some (s, n) => { st.put c s with nTotal := n }
  | .checkLen => if keyTooShort st.nTotal then { st with refused := true } else st
  | .copy dst src => st.put dst (st.get d src)
  | .feed c lit => st.put c (d.update (st.get d c) lit)
  | .final c dest => { st with outs := st.outs ++ [(dest, d.final (st.get d c))] }
  | .cleanup _ => st

def runProg {σ : Type} (d : Digest σ) (evs : List ReadEv) : St σ → List SkOp → St σ
  | st, [] => st
  | st, op :: rest => if st.refused then st else runProg d evs (step d evs st op) rest

/-- `create_subkeys`: the subkeys stored into `conf`, by field name — or `none` when the daemon refuses to
    start (short key file, read error) -/
def createSubkeys {σ : Type} (d : Digest σ) (evs : List ReadEv) : Option (List (String × Bytes)) :=
  let st := runProg d evs {} subkeyProgram
  if st.refused then none else some st.outs

end Munge.Subkeys

/-! ## toy primitives (reproduced byte for byte by `harness/h_hkdf.c`) -/
namespace Munge.Hkdf.Toy
open Munge.Hkdf (Bytes)

def mix (h : UInt64) (b : UInt8) : UInt64 := ((h ^^^ (h >>> 31)) ^^^ b.toUInt64) * 1099511628211

def absorb (h : UInt64) (bs : Bytes) : UInt64 := bs.foldl mix h

def squeeze (h : UInt64) : Nat → Bytes
  | 0 => []
  | n + 1 => let h' := mix h 0xa5; (h' >>> 40).toUInt8 :: squeeze h' n

def seed : UInt64 := 14695981039346656037

/-- toy `mac_init (key)`: absorb the key, a separator and the key length -/
def macInit (key : Bytes) : UInt64 := mix (mix (absorb seed key) 0x80) (UInt8.ofNat key.length)

/-- toy MAC with tag length `n` -/
def mac (n : Nat) (key msg : Bytes) : Bytes := squeeze (absorb (macInit key) msg) n

/-- toy digest length for algorithm number `alg` -/
def mdLen (alg : Nat) : Nat := 16 + alg

/-- toy streaming digest: state = (algorithm, accumulator) -/
def digest : Munge.Subkeys.Digest (Nat × UInt64) where
  init alg := (alg, mix seed (UInt8.ofNat alg))
  update s b := (s.1, absorb s.2 b)
  final s := squeeze s.2 (mdLen s.1)

end Munge.Hkdf.Toy
