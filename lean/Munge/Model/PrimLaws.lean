import Munge.Model.Cred
/-
The laws of the cryptographic / compression primitives that the credential theorems use.
They are hypotheses of those theorems (never axioms).  `Munge/Lemmas/ToyLaws.lean` proves them for the
toy instance, so they are satisfiable; for the real OpenSSL / zlib / bzlib primitives they are
validated by the real-primitive harness (round trips, lengths, padding failures), not proved.
Cryptographic STRENGTH is not part of `PrimLaws`; it appears only as separate, named hypotheses
(`Unforgeable`, `KeySeparation`) of the theorems that need it.
-/
namespace Munge.Cred

structure PrimLaws (P : Prims) : Prop where
  /-- NONE (0) and DEFAULT (1) are not algorithms -/
  mac_low : P.macValid 0 = false ∧ P.macValid 1 = false
  cipher_low : P.cipherValid 0 = false ∧ P.cipherValid 1 = false
  zip_low : P.zipValid 0 = false ∧ P.zipValid 1 = false
  /-- digests are at least MUNGE_MINIMUM_MD_LEN and at most MUNGE_MAXIMUM_MD_LEN bytes -/
  macLen_range : ∀ t, P.macValid t = true → 16 ≤ P.macLen t ∧ P.macLen t ≤ 64
  mac_length : ∀ t k x, P.macValid t = true → ((P.mac t k x).length : Int) = P.macLen t
  ivLen_range : ∀ c, P.cipherValid c = true → 0 ≤ P.ivLen c ∧ P.ivLen c ≤ 16
  keyLen_range : ∀ c, P.cipherValid c = true → 0 < P.keyLen c ∧ P.keyLen c ≤ 32
  keyLen_none : P.keyLen 0 ≤ 0
  /-- CBC with PKCS#5 padding: decryption inverts encryption under the same key and IV -/
  dec_enc : ∀ c k iv pt, P.cipherValid c = true → P.decrypt c k iv (P.encrypt c k iv pt) = (pt, true)
  /-- … and is injective on the ciphertexts it accepts -/
  dec_inj : ∀ c k iv c1 c2 pt, P.cipherValid c = true →
    P.decrypt c k iv c1 = (pt, true) → P.decrypt c k iv c2 = (pt, true) → c1 = c2
  /-- the back-end decompressor inverts the compressor when given a buffer of the original size -/
  inflate_deflate : ∀ z x, P.zipValid z = true → x ≠ [] → P.inflate z (P.deflate z x) x.length = some x

end Munge.Cred
