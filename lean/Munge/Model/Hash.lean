import Munge.Gen.Hash
/-
Model of `src/munged/hash.c` (C05, C07): an array of buckets, each a singly linked chain.
The chain walks of `hash_find` / `hash_insert` / `hash_remove` are mirrored statement by
statement; the tests they make on the comparator's result (`Gen.Hash.*_skip`, `*_match`),
the comparator's argument order and the selection test of `hash_delete_if` are regenerated
from the source on every run.  The mutex is not modelled: every function below is one
atomic step (each C function holds `h->mutex` from before its first to after its last
access of the table).  Allocation failure of a node is not modelled.
-/
namespace Munge.Hash
open Munge.Gen.Hash

variable {κ : Type}

/-- the comparator as the walk calls it: `cmp_f (p->hkey, key)` or the other way round -/
@[inline] def cmpAt (nodeFirst : Bool) (cmp : κ → κ → Int) (p k : κ) : Int :=
  if nodeFirst then cmp p k else cmp k p

/-- `hash_find`'s walk over one chain: `continue` while the test `find_skip` holds, then the
    node is either the match or the walk stops (`break`) -/
def chainFind (cmp : κ → κ → Int) (k : κ) : List κ → Option κ
  | [] => none
  | p :: rest =>
    let c := cmpAt find_nodeFirst cmp p k
    if find_skip c then chainFind cmp k rest
    else if find_match c then some p
    else none

/-- `hash_insert`'s walk: `none` = `EEXIST`; otherwise the new node is linked in front of the
    node at which the walk stopped (`p->next = *pp; *pp = p`) -/
def chainInsert (cmp : κ → κ → Int) (k : κ) : List κ → Option (List κ)
  | [] => some [k]
  | p :: rest =>
    let c := cmpAt insert_nodeFirst cmp p k
    if insert_skip c then (chainInsert cmp k rest).map (p :: ·)
    else if insert_match c then none
    else some (k :: p :: rest)

/-- `hash_remove`'s walk: the matching node is unlinked (`*pp = p->next`) and its data returned -/
def chainRemove (cmp : κ → κ → Int) (k : κ) : List κ → Option (κ × List κ)
  | [] => none
  | p :: rest =>
    let c := cmpAt remove_nodeFirst cmp p k
    if remove_skip c then (chainRemove cmp k rest).map (fun r => (r.1, p :: r.2))
    else if remove_match c then some (p, rest)
    else none

/-- `struct hash`: `size` slots, each the head of a chain -/
structure Table (κ : Type) where
  buckets : Array (List κ)

namespace Table

/-- `hash_create (size, ..)` (the caller passes a positive size) -/
def empty (size : Nat) : Table κ := ⟨Array.replicate size []⟩

def size (t : Table κ) : Nat := t.buckets.size

/-- chain hanging off slot `i` -/
def chain (t : Table κ) (i : Nat) : List κ := t.buckets[i]?.getD []

def setChain (t : Table κ) (i : Nat) (c : List κ) : Table κ := ⟨t.buckets.setIfInBounds i c⟩

/-- every item, in `hash_for_each` order (slot by slot, each chain front to back) -/
def toList (t : Table κ) : List κ := t.buckets.toList.flatten

/-- `h->count` (the C keeps a counter; the model counts the nodes) -/
def count (t : Table κ) : Nat := t.buckets.foldl (fun n c => n + c.length) 0

end Table

/-- `slot = h->key_f (key) % h->size` -/
def slot (hf : κ → Nat) (t : Table κ) (k : κ) : Nat := hf k % t.size

/-- `hash_find` -/
def find (cmp : κ → κ → Int) (hf : κ → Nat) (t : Table κ) (k : κ) : Option κ :=
  chainFind cmp k (t.chain (slot hf t k))

/-- `hash_insert`: `(table', true)` = inserted, `(table, false)` = `EEXIST` -/
def insert (cmp : κ → κ → Int) (hf : κ → Nat) (t : Table κ) (k : κ) : Table κ × Bool :=
  match chainInsert cmp k (t.chain (slot hf t k)) with
  | some c => (t.setChain (slot hf t k) c, true)
  | none => (t, false)

/-- `hash_remove`: the removed item, if any -/
def remove (cmp : κ → κ → Int) (hf : κ → Nat) (t : Table κ) (k : κ) : Table κ × Option κ :=
  match chainRemove cmp k (t.chain (slot hf t k)) with
  | some (d, c) => (t.setChain (slot hf t k) c, some d)
  | none => (t, none)

/-- `hash_delete_if (h, arg_f, arg)`: every node whose `arg_f` value passes `delete_sel` is
    unlinked, the others stay in place and in order; returns the number unlinked -/
def deleteIf (f : κ → Int) (t : Table κ) : Table κ × Nat :=
  let t' : Table κ := ⟨t.buckets.map (fun c => c.filter (fun p => !decide (delete_sel (f p))))⟩
  (t', t.count - t'.count)

end Munge.Hash
