import Munge.Gen.Start
/-
`Start` — start-up, service and shutdown of munged as a transition system over an abstract file system
(C15; mirrors `sock_create`, `lock_create`, `write_pidfile`, `sock_destroy`, the tail of `main`,
`destroy_conf`'s pid-file unlink and `random_fini`'s seed write).

The *program* every process runs (`prog`) is not written here: it is compiled from the callee lists that
`tools/gen/g_start.py` extracts from the C sources on every run (`Munge.Gen.Start`).  Hand-written below are only
  * the semantics of each security-relevant system call on the abstract file system (POSIX assumptions:
    names → inodes, `open(O_CREAT)`, `unlink`, `bind` failing on an existing name, `fcntl(F_SETLK)` write locks that
    belong to a process and vanish when it closes the file or dies, inode numbers not reused while a descriptor
    is open), and
  * the scheduler: `start p`, `exec p` (one system call of p), `term p` (SIGTERM while serving), `crash p` (SIGKILL
    at any point: the kernel closes p's descriptors — locks released, listening socket gone, names stay).
Any failing call on these paths ends in `log_err`/`log_errno`, i.e. `exit(1)` without cleanup (`Gen.Start.*Exits`),
which for the file system is the same as a crash.
-/
namespace Munge.Start
open Munge.Gen.Start (Name Fd Guard Sys Call)

abbrev Ino := Nat
abbrev Pid := Nat

inductive Kind | reg | socket
  deriving DecidableEq, Repr

structure Inode where
  kind : Kind
  mode : Nat
  deriving DecidableEq, Repr

/-- The system calls the model gives a meaning to. -/
inductive Op
  | unlink (n : Name)
  | openLock (creat excl : Bool) (mode : Nat)   -- open(lockfile, O_WRONLY|O_TRUNC [|O_CREAT] [|O_EXCL], mode) → lockfile_fd
  | fstatLock                                   -- `_lock_stat`: regular file with the expected permission bits
  | setlk                                       -- fcntl(lockfile_fd, F_SETLK, whole-file write lock)
  | revalidate                                  -- fstat(lockfile_fd) and stat(lockfile_name) agree on (st_dev, st_ino)
  | socket | bind | listen
  | create (n : Name) (mode : Nat)              -- open(O_CREAT|O_TRUNC) / fopen("w") of the pid or seed file
  | closeListen | closeLock
  deriving DecidableEq, Repr

structure Prog where
  startup : List Op
  shutdown : List Op
  statReg : Bool          -- `_lock_stat` insists on a regular file
  statMode : Option Nat   -- … with exactly these permission bits

inductive Phase | idle | starting | serving | stopping | exited (ok : Bool) | crashed
  deriving DecidableEq, Repr

structure Proc where
  phase : Phase := .idle
  todo : List Op := []            -- rest of the start-up / shutdown sequence (the program counter)
  lockFd : Option Ino := none     -- conf->lockfile_fd
  held : Bool := false            -- F_SETLK succeeded on lockFd
  own : Bool := false             -- past the lock step (and the re-validation, if the code has one), lock file not yet unlinked
  hasSock : Bool := false
  bound : Option Ino := none      -- inode the listening socket was bound to

structure State where
  names : Name → Option Ino := fun _ => none
  inode : Ino → Option Inode := fun _ => none
  next : Ino := 0
  lockOwner : Ino → Option Pid := fun _ => none
  listener : Ino → Option Pid := fun _ => none
  procs : Pid → Proc := fun _ => {}

def upd {α β} [DecidableEq α] (f : α → β) (a : α) (b : β) : α → β := fun x => if x = a then b else f x

@[simp] theorem upd_same {α β} [DecidableEq α] (f : α → β) (a : α) (b : β) : upd f a b a = b := by simp [upd]
@[simp] theorem upd_other {α β} [DecidableEq α] (f : α → β) (a x : α) (b : β) (h : x ≠ a) : upd f a b x = f x := by
  simp [upd, h]
theorem upd_apply {α β} [DecidableEq α] (f : α → β) (a x : α) (b : β) : upd f a b x = if x = a then b else f x := rfl

def Phase.live : Phase → Bool
  | .starting | .serving | .stopping => true
  | _ => false

def init : State := {}

/-- p's process image is gone: the kernel closes all its descriptors; names stay. -/
def kill (s : State) (p : Pid) (ph : Phase) : State :=
  { s with
    lockOwner := fun i => if s.lockOwner i = some p then none else s.lockOwner i
    listener := fun i => if s.listener i = some p then none else s.listener i
    procs := upd s.procs p { phase := ph } }

/-- continue with the rest of the sequence; an exhausted start-up means serving, an exhausted shutdown `exit(0)` -/
def cont (s : State) (p : Pid) (pr : Proc) (rest : List Op) : State :=
  match rest with
  | [] =>
    if pr.phase = .stopping then kill s p (.exited true)
    else { s with procs := upd s.procs p { pr with todo := [], phase := .serving } }
  | _ :: _ => { s with procs := upd s.procs p { pr with todo := rest } }

def fail (s : State) (p : Pid) : State := kill s p (.exited false)

def statOk (P : Prog) (nd : Option Inode) : Bool :=
  match nd with
  | some nd => (!P.statReg || nd.kind == .reg) && (match P.statMode with | some m => nd.mode == m | none => true)
  | none => false

/-- The effect of one call of process `p` (record `pr`) on the file system and on `pr`; `none`: the call fails,
    which on these paths is fatal (`log_err`, `exit(1)`, nothing cleaned up). -/
def effect (P : Prog) (s : State) (p : Pid) (pr : Proc) (op : Op) (rest : List Op) : Option (State × Proc) :=
  match op with
  | .unlink n =>
    some ({ s with names := upd s.names n none }, { pr with own := if n = .lock then false else pr.own })
  | .openLock creat excl mode =>
    match s.names .lock with
    | some i => if excl then none else some (s, { pr with lockFd := some i })
    | none =>
      if creat then
        some ({ s with inode := upd s.inode s.next (some ⟨.reg, mode⟩), next := s.next + 1,
                       names := upd s.names .lock (some s.next) }, { pr with lockFd := some s.next })
      else none
  | .fstatLock =>
    match pr.lockFd with
    | some i => if statOk P (s.inode i) then some (s, pr) else none
    | none => none
  | .setlk =>
    match pr.lockFd with
    | some i =>
      if s.lockOwner i = none ∨ s.lockOwner i = some p then
        some ({ s with lockOwner := upd s.lockOwner i (some p) },
              { pr with held := true, own := !rest.contains .revalidate })
      else none              -- EAGAIN/EACCES: F_GETLK, "pid … bound to socket", exit
    | none => none
  | .revalidate =>
    match pr.lockFd with
    | some i => if s.names .lock = some i then some (s, { pr with own := pr.held }) else none
    | none => none
  | .socket => some (s, { pr with hasSock := true })
  | .bind =>
    if pr.hasSock = true ∧ s.names .sock = none then
      some ({ s with inode := upd s.inode s.next (some ⟨.socket, 0o777⟩), next := s.next + 1,
                     names := upd s.names .sock (some s.next) }, { pr with bound := some s.next })
    else none                -- EADDRINUSE
  | .listen =>
    match pr.bound with
    | some i => some ({ s with listener := upd s.listener i (some p) }, pr)
    | none => none
  | .create n mode =>
    match s.names n with
    | some _ => some (s, pr)
    | none =>
      some ({ s with inode := upd s.inode s.next (some ⟨.reg, mode⟩), next := s.next + 1,
                     names := upd s.names n (some s.next) }, pr)
  | .closeListen =>
    some ({ s with listener := fun i => if s.listener i = some p then none else s.listener i },
          { pr with bound := none, hasSock := false })
  | .closeLock =>
    some ({ s with lockOwner := fun i => if s.lockOwner i = some p then none else s.lockOwner i },
          { pr with lockFd := none, held := false, own := false })

def execOp (P : Prog) (s : State) (p : Pid) (pr : Proc) (op : Op) (rest : List Op) : State :=
  match effect P s p pr op rest with
  | some (s1, pr1) => cont s1 p pr1 rest
  | none => fail s p

inductive Event
  | start (p : Pid) | exec (p : Pid) | term (p : Pid) | crash (p : Pid)
  deriving DecidableEq, Repr

/-- One scheduler step.  Events that are not enabled leave the state unchanged. -/
def step (P : Prog) (s : State) : Event → State
  | .start p =>
    if (s.procs p).phase = .idle then cont s p { phase := .starting } P.startup else s
  | .exec p =>
    let pr := s.procs p
    if pr.phase = .starting ∨ pr.phase = .stopping then
      match pr.todo with
      | op :: rest => execOp P s p pr op rest
      | [] => s
    else s
  | .term p =>
    let pr := s.procs p
    if pr.phase = .serving then cont s p { pr with phase := .stopping } P.shutdown else s
  | .crash p =>
    if (s.procs p).phase.live then kill s p .crashed else s

def run (P : Prog) (s : State) (evs : List Event) : State := evs.foldl (step P) s

/-- p is past the lock step and has not yet given the lock file up. -/
def Owner (s : State) (p : Pid) : Prop := (s.procs p).own = true

/-- The C15 invariant: at most one process is past the lock step, and it holds the write lock on the inode that the
    lock-file name refers to now. -/
def SingleOwner (s : State) : Prop :=
  (∀ p q, Owner s p → Owner s q → p = q) ∧
  (∀ p, Owner s p → ∃ i, s.names .lock = some i ∧ (s.procs p).lockFd = some i ∧ s.lockOwner i = some p)

/-- the process a client connecting to the socket path reaches -/
def serverOf (s : State) : Option Pid :=
  match s.names .sock with
  | some i => s.listener i
  | none => none

/-! ### the program, compiled from the generated callee lists -/

def mainGuard (g : Guard) : Bool :=
  g == .isSet || g == .lockFdOpen || g == .listenFdOpen || g == .loop

/-- replace calls to extracted functions by their bodies (guards accumulate) -/
def inline : Nat → List Call → List Call
  | 0, cs => cs
  | n + 1, cs => cs.flatMap fun c =>
    match c.sys with
    | .call f =>
      if Gen.Start.functions.contains f then
        (inline n (Gen.Start.body f)).map fun d => { d with guard := c.guard ++ d.guard }
      else [c]
    | _ => [c]

/-- all calls of `main`, start-up to exit, helpers inlined -/
def flatMain : List Call := inline 8 Gen.Start.main_

/-- the calls on the path taken without --force, in the foreground, when nothing fails -/
def mainPath : List Sys := (flatMain.filter fun c => c.guard.all mainGuard).map (·.sys)

def toOp : Sys → Option Op
  | .unlink n => some (.unlink n)
  | .openF .lock creat excl _ mode => some (.openLock creat excl mode)
  | .openF n creat _ _ mode => if creat then some (.create n mode) else none
  | .fopenW n => some (.create n 0o666)
  | .fstat .lock => some .fstatLock
  | .stat .lock => if Gen.Start.lockRevalidates then some .revalidate else none
  | .setlk _ _ => some .setlk
  | .socket => some .socket
  | .bind .sock => some .bind
  | .listen => some .listen
  | .close .listen => some .closeListen
  | .close .lock => some .closeLock
  | _ => none

def beforeServe (l : List Sys) : List Sys := l.takeWhile (· != .serve)
def afterServe (l : List Sys) : List Sys := (l.dropWhile (· != .serve)).drop 1

/-- The program of the current source tree. -/
def prog : Prog where
  startup := (beforeServe mainPath).filterMap toOp
  shutdown := (afterServe mainPath).filterMap toOp
  statReg := Gen.Start.lockStatRegular
  statMode := Gen.Start.lockStatMode

/-- the same program without the re-validation step (what `lock_create` does if it only locks) -/
def stripReval (P : Prog) : Prog := { P with startup := P.startup.filter (· != .revalidate) }

/-- the same program with a re-validation step right after the F_SETLK (what a repaired `lock_create` does) -/
def addReval (P : Prog) : Prog :=
  { P with startup := (stripReval P).startup.flatMap fun o => if o = .setlk then [.setlk, .revalidate] else [o] }

/-! ### observation helpers (driver, `decide`) -/

def ownB (s : State) (p : Pid) : Bool := (s.procs p).own
def servingB (s : State) (p : Pid) : Bool := (s.procs p).phase == .serving

end Munge.Start
