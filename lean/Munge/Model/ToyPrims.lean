import Munge.Model.Cred
/-
Toy primitives: byte-for-byte twins of harness/toy_prims.c.  They exist so that (a) the hypotheses
on `Prims` used by the theorems are demonstrably satisfiable, and (b) the credential model is
executable and can be compared exactly with the real enc.c/dec.c linked against the same toys.
No cryptographic value.
-/
namespace Munge.ToyPrims
open Munge.Cred

def macLen (t : Nat) : Int :=
  match t with
  | 2 => 16 | 3 => 20 | 4 => 20 | 5 => 32 | 6 => 64 | _ => -1

structure MacSt where
  h : Array UInt8
  cnt : Nat

def absorb (s : MacSt) (b : UInt8) : MacSt :=
  let n := s.h.size
  let j := s.cnt % n
  let v := s.h[j]! * 5 + b + s.h[(j + 1) % n]! + UInt8.ofNat (s.cnt % 256)
  { h := s.h.set! j v, cnt := s.cnt + 1 }

def macInit (t : Nat) (key : Bytes) : MacSt :=
  let n := (macLen t).toNat
  let h0 : Array UInt8 := (Array.range n).map (fun i => UInt8.ofNat ((t * 37 + i * 11 + 1) % 256))
  absorb (key.foldl absorb { h := h0, cnt := 0 }) 0xA5

def macFinal (s : MacSt) : Bytes :=
  let n := s.h.size
  let s' := (List.range (2 * n)).foldl (fun st r => absorb st st.h[r % n]!) s
  s'.h.toList

def mac (t : Nat) (key msg : Bytes) : Bytes :=
  if macLen t ≤ 0 then [] else macFinal (msg.foldl absorb (macInit t key))

def blk (c : Nat) : Int := match c with | 2 => 8 | 3 => 8 | 4 => 16 | 5 => 16 | _ => -1
def klen (c : Nat) : Int := match c with | 2 => 16 | 3 => 16 | 4 => 16 | 5 => 32 | _ => -1

/-- toy block function and its inverse on one block -/
def blkE (key : Bytes) (kl : Nat) (b : Bytes) : Bytes :=
  (List.range b.length).map fun i => (b.getD i 0 ^^^ key.getD (i % kl) 0) + UInt8.ofNat (i + 1)
def blkD (key : Bytes) (kl : Nat) (b : Bytes) : Bytes :=
  (List.range b.length).map fun i => (b.getD i 0 - UInt8.ofNat (i + 1)) ^^^ key.getD (i % kl) 0

def xorB (a b : Bytes) : Bytes := (List.range a.length).map fun i => a.getD i 0 ^^^ b.getD i 0

/-- CBC encryption of already padded data (length a multiple of `bl`) -/
def cbcEnc (key : Bytes) (kl bl : Nat) (prev : Bytes) (fuel : Nat) (p : Bytes) : Bytes :=
  match fuel with
  | 0 => []
  | fuel + 1 =>
    if p.isEmpty then [] else
    let c := blkE key kl (xorB (p.take bl) prev)
    c ++ cbcEnc key kl bl c fuel (p.drop bl)

def cbcDec (key : Bytes) (kl bl : Nat) (prev : Bytes) (fuel : Nat) (c : Bytes) : Bytes :=
  match fuel with
  | 0 => []
  | fuel + 1 =>
    if c.isEmpty then [] else
    let cur := c.take bl
    xorB (blkD key kl cur) prev ++ cbcDec key kl bl cur fuel (c.drop bl)

def encrypt (c : Nat) (key iv pt : Bytes) : Bytes :=
  let bl := (blk c).toNat
  let kl := (klen c).toNat
  let pad := bl - pt.length % bl
  let p := pt ++ List.replicate pad (UInt8.ofNat pad)
  cbcEnc (key.take kl) kl bl (iv.take bl) (p.length / bl + 1) p

/-- like OpenSSL: complete blocks except a held-back last one are released even on failure -/
def decrypt (c : Nat) (key iv ct : Bytes) : Bytes × Bool :=
  let bl := (blk c).toNat
  let kl := (klen c).toNat
  let nblk := ct.length / bl
  let release := if ct.length % bl = 0 then nblk - 1 else nblk
  let all := cbcDec (key.take kl) kl bl (iv.take bl) (nblk + 1) (ct.take (nblk * bl))
  let head := all.take (release * bl)
  if ct.length = 0 ∨ ct.length % bl ≠ 0 then (head, false) else
  let last := (all.drop (release * bl)).take bl
  let pad := (last.getD (bl - 1) 0).toNat
  if pad < 1 ∨ pad > bl then (head, false) else
  if (last.drop (bl - pad)).all (fun x => x.toNat = pad) then (head ++ last.take (bl - pad), true)
  else (head, false)

/-- run-length pairs (count ≤ 255, byte) -/
def rle (fuel : Nat) (src : Bytes) : Bytes :=
  match fuel with
  | 0 => []
  | fuel + 1 =>
    match src with
    | [] => []
    | b :: rest =>
      let run := (rest.takeWhile (· == b)).length
      let run := if run > 254 then 254 else run
      UInt8.ofNat (run + 1) :: b :: rle fuel (rest.drop run)

def tag0 (t : Nat) : UInt8 := if t = 2 then 0x10 else 0x00

def deflate (t : Nat) (src : Bytes) : Bytes :=
  let r := rle src.length src
  if r.length < src.length then (tag0 t + 1) :: r else tag0 t :: src

def unrle (fuel : Nat) (src : Bytes) (cap : Nat) (acc : Nat) : Option Bytes :=
  match fuel with
  | 0 => if src.isEmpty then some [] else none
  | fuel + 1 =>
    match src with
    | [] => some []
    | [_] => none
    | n :: b :: rest =>
      if n = 0 then none
      else if acc + n.toNat > cap then none
      else (unrle fuel rest cap (acc + n.toNat)).map (fun tl => List.replicate n.toNat b ++ tl)

def inflate (t : Nat) (src : Bytes) (cap : Nat) : Option Bytes :=
  match src with
  | [] => none
  | tg :: rest =>
    if tg = tag0 t then (if rest.length > cap then none else some rest)
    else if tg = tag0 t + 1 then (if rest.length % 2 = 1 then none else unrle rest.length rest cap 0)
    else none

def prims : Prims where
  macValid t := macLen t > 0
  macLen := macLen
  mac := mac
  cipherValid c := blk c > 0
  keyLen := klen
  blockLen := blk
  ivLen := blk
  encrypt := encrypt
  decrypt := decrypt
  zipValid z := z = 2 ∨ z = 3
  deflate := deflate
  inflate := inflate

end Munge.ToyPrims
