import Munge.Gen.Path
/-
Model `Path` (C16): start-up security decisions and file-creation modes of munged.

Everything that is a *decision* or a *constant* comes from `Munge.Gen.Path`, which is regenerated from
`src/munged/{path,conf,random,lock,munged}.c` on every run (K+ translation, see tools/gen/g_path.py):
`dirCheck` (the per-directory tests of `path_is_secure`'s loop body), `conf_open_keyfile`, `random_read_seed`,
`random_read_entropy_from_file`, `random_write_seed`, `lock_create`, `lock_stat`, `open_logfile`,
`write_pidfile`, `sock_create`, and per creation site the mode argument and the umask in force.

Hand-written here (and tied to the code by the correspondence harness `harness/h_path.c` plus the generator's
shape obligations): the string loop of `path_is_secure` (strip the last component until the buffer is empty),
the wiring of stat results into the generated kernels, and two facts about the platform that munge relies on:
a created file gets `mode & ~umask`, and `fopen`/`bind` create with 0666/0777.
-/
namespace Munge.Path
open Munge.C Munge.Gen.Path

/-- what `lstat`/`stat`/`fstat` report (`mode` includes the file-type bits) -/
structure Stat where
  mode : Int
  uid : Int
  gid : Int
deriving Repr, DecidableEq, Inhabited

/-- the `lstat` view of the file system: `none` = the call fails -/
abbrev Env := List Char → Option Stat

/-! ### `path_is_secure` -/

/-- `strrchr (buf, '/')` as an index into `buf` -/
def lastSlash : List Char → Option Nat
  | [] => none
  | c :: cs =>
    match lastSlash cs with
    | some i => some (i + 1)
    | none => if c = '/' then some 0 else none

/-- the tail of the loop body: `p = strrchr (buf, '/'); if (p == buf && buf[1]) p++; *p = 0`;
    `none` is the "internal error" return -/
def advance (buf : List Char) : Option (List Char) :=
  match lastSlash buf with
  | none => none
  | some p => some (buf.take (if p = 0 ∧ 1 < buf.length then 1 else p))

/-- the generated per-directory checks applied to what `lstat (buf)` reports -/
def checkDir (flags tgid euid : Int) (env : Env) (buf : List Char) : KOut :=
  match env buf with
  | none => dirCheck flags tgid euid (-1) 0 0 0
  | some s => dirCheck flags tgid euid 0 s.mode s.uid s.gid

/-- outcome of `path_is_secure`: return value, which message (site index into `dirCheck_sites`, or a tag for
    the hand-modelled returns), and the path named in the message -/
structure Verdict where
  rc : Int
  site : Option Nat := none
  tag : String := ""
  at_ : List Char := []
deriving Repr, DecidableEq

def errSite (o : KOut) : Option Nat :=
  match o.events.find? (·.1 == "err") with
  | some (_, k :: _) => some k.toNat
  | _ => none

/-- `while (buf[0] != '\0') { checks; advance }` with explicit fuel (`buf.length + 1` always suffices) -/
def walk (flags tgid euid : Int) (env : Env) : Nat → List Char → Verdict
  | 0, buf => { rc := -1, tag := "fuel", at_ := buf }
  | fuel + 1, buf =>
    if buf = [] then { rc := 1 }
    else
      let o := checkDir flags tgid euid env buf
      if o.ret ≠ 2 then { rc := o.ret, site := errSite o, at_ := buf }
      else
        match advance buf with
        | none => { rc := -1, tag := "internal", at_ := buf }
        | some b => walk flags tgid euid env fuel b

def isDirMode (m : Int) : Prop := band m S_IFMT = S_IFDIR
instance (m : Int) : Decidable (isDirMode m) := by unfold isDirMode; infer_instance

/-- the part of `path_is_secure` before the loop: a leaf that is not a directory loses its last component -/
def startBuf (s : Stat) (p : List Char) : List Char :=
  if isDirMode s.mode then p
  else match lastSlash p with
    | some i => p.take i
    | none => p

/-- `path_is_secure (path, …, flags)` given the result of `realpath` (`none` = failure) -/
def isSecure (flags tgid euid : Int) (env : Env) (canon : Option (List Char)) : Verdict :=
  match canon with
  | none => { rc := -1, tag := "canon" }
  | some p =>
    if p.head? ≠ some '/' then { rc := -1, tag := "canon" }
    else
      match env p with
      | none => { rc := -1, tag := "stat", at_ := p }
      | some s =>
        let buf := startBuf s p
        walk flags tgid euid env (buf.length + 1) buf

/-! ### key file, seed file -/

/-- what the checks see of a file named in the configuration -/
structure FileView where
  l : Option Stat        -- lstat (name): the directory entry itself
  s : Option Stat        -- stat (name): after following links
deriving Repr

def rcOf (o : Option Stat) : Int := if o.isSome then 0 else -1
def modeOf (o : Option Stat) : Int := (o.getD default).mode
def uidOf (o : Option Stat) : Int := (o.getD default).uid

/-- `_conf_open_keyfile (name, force)`; `secure flags` = result of `path_is_secure (dirname, …, flags)` -/
def keyfile (force : Int) (euid : Int) (name0 : Int) (v : FileView) (secure : Int → Int) (openFd : Int) : KOut :=
  conf_open_keyfile 1 name0 force (rcOf v.l) (modeOf v.l) (rcOf v.s) (modeOf v.s) (uidOf v.s) euid 0 openFd secure

def fatal (o : KOut) : Bool := o.events.any (·.1 == "fatal")
def fatalSite (o : KOut) : Option Nat :=
  match o.events.find? (·.1 == "fatal") with
  | some (_, k :: _) => some k.toNat
  | _ => none
/-- indices of the `log_err_or_warn` sites that only warned (because of `--force`) -/
def warned (o : KOut) : List Nat :=
  o.writes.filterMap fun (p, v) =>
    if p.startsWith "warn" ∧ v ≠ 0 then (p.drop 4).toNat? else none

/-- `_random_read_seed (path, nb)`: `openFd`/`openErrno` as returned by `open`, `f` = `fstat` of the
    descriptor, `avail` = bytes the read loop obtains -/
def readSeed (euid : Int) (l : Option Stat) (openFd openErrno : Int) (f : Option Stat) (avail : Int) (nb : Int) : KOut :=
  random_read_seed nb (rcOf l) (modeOf l) openFd openErrno (rcOf f) (modeOf f) (uidOf f) euid
    (nb - (if avail < nb then avail else nb)) 0 0 0

/-- bytes added to the entropy pool by a `_random_read_seed` run: the pool is only fed inside the loop -/
def seedBytesAdded (o : KOut) : Int := if o.events.any (·.1 == "loop") ∧ 0 ≤ o.ret then o.ret else 0

/-- `_random_read_entropy_from_file (path)` -/
def seedFromFile (force : Int) (name0 : Int) (secure : Int → Int) (read : Int → KOut) (unlinkRc unlinkErrno : Int) : KOut :=
  random_read_entropy_from_file 1 name0 force 0 unlinkRc unlinkErrno secure (fun nb => (read nb).ret)

/-! ### created files -/

/-- mode implied by a creating call that takes no mode argument (libc / kernel behaviour, not munge's) -/
def libcMode : String → Int
  | "fopen" => 0o666
  | "bind" => 0o777
  | _ => 0

/-- permission bits of the file created by one creation site: `mode & ~umask` -/
def createdMode (c : String × Int × Int) : Int :=
  let m := if c.2.1 < 0 then libcMode c.1 else c.2.1
  band m (4095 - band c.2.2 511)

def sockModes (u : Int) : List Int := (sock_create_creates u).map createdMode
def lockModes (u : Int) : List Int := (lock_create_creates u).map createdMode
def pidModes (u : Int) : List Int := (write_pidfile_creates u).map createdMode
def logModes (u : Int) : List Int := (open_logfile_creates u).map createdMode
def seedModes (u : Int) : List Int := (random_write_seed_creates u).map createdMode

/-- `a ⊆ b` on permission bits -/
def within (a b : Int) : Prop := band a b = a
instance (a b : Int) : Decidable (within a b) := by unfold within; infer_instance

/-- the `path_is_secure` flags each start-up site passes (argument 4 of the call, recorded by the generator
    as the oracle argument): evaluated by handing the kernel an oracle that returns its argument -/
def flagsProbe (f : (Int → Int) → KOut) : List Int :=
  [0, 1].filter fun fl => fatal (f (fun x => if x = fl then 0 else 1))

/-- classification of munge's message formats, shared (by construction: same table) with the harness -/
def classify (fmt : String) : String :=
  let has (p : String) : Bool := (fmt.splitOn p).length > 1
  if has "cannot canonicalize" then "canon"
  else if has "cannot stat" then "stat"
  else if has "unexpected file type" then "type"
  else if has "invalid ownership" then "owner"
  else if has "group-writable" then "group"
  else if has "world-writable" then "world"
  else if has "internal error" then "internal"
  else if has "symbolic link" then "symlink"
  else if has "owned by" then "owner"
  else if has "by group" then "group"
  else if has "by other" then "other"
  else if has "regular file" then "type"
  else if has "Failed to find" then "missing"
  else if has "undefined" then "noname"
  else if has "dirname" then "dirname"
  else if has "absolute path" then "relative"
  else if has "Failed to check" then "direrr"
  else if has "insecure: %s" then "dir"
  else if has "inaccessible: %s" then "access"
  else if has "Failed to open" then "open"
  else if has "only have permissions" then "perms"
  else if has "cannot stat" then "stat"
  else "other"

end Munge.Path
