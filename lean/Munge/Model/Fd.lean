import Munge.C.Kernel
import Munge.Gen.Fd
/-
Executable model of the timed I/O routines of src/libcommon/fd.c (`fd_timed_read_n`, `fd_timed_write_n`,
`fd_timed_write_iov`) and of `_get_timeval` (src/libcommon/m_msg.c): sub-model "Fd" of C08 (item "Deadline").

The three routines share one loop shape, which `step` below mirrors statement by statement:

    if (do_skip_first_poll && nleft > 0) { msecs = -1; goto io; }                  -- `Routine.skip`
    while (nleft > 0) {                                                            -- `Routine.cond`
        msecs = _fd_get_poll_timeout (when);                                       -- `Routine.tmo`  (reads the clock)
        nfd = poll (&pfd, 1, msecs);                                               -- `doPoll`        (environment)
        <if-chain on nfd / errno / pfd.revents: continue | break | return -1>      -- `Routine.afterPoll`
    io: n = read|write (fd, p, nleft)  |  writev (fd, iov, iov_cnt);               -- `doIo`          (environment)
        <n < 0: EINTR/EAGAIN continue, else return -1; n == 0: break (read only);
         nleft -= n; [p += n;] if (msecs == 0) break; [advance the iovec]>         -- `Routine.afterIo`, `iovAdvance`
    }
    return (n - nleft);                                                            -- `Routine.ret`

Everything inside <..> and every `Routine` field is a kernel cut out of the C source and translated by
tools/gen/g_fd.py (`Munge.Gen.Fd`); the order of the phases is checked there by AST pattern.  `step` adds no
test of its own.

The environment is a *script*: a queue of poll events (the descriptor becomes ready after `dt` microseconds
with some `revents`; poll fails after `dt` microseconds with some errno, e.g. EINTR; the wall clock steps by
`delta` before it is next read) and a queue of I/O events (the kernel transfers at most `k` bytes; the call
fails with some errno, e.g. EAGAIN = spurious readiness).  Time is virtual: `blocked` is the time really spent
inside poll(), `wall` is what gettimeofday() reports (they differ by the clock steps).  The descriptor is
non-blocking (job.c / m_msg_client.c set O_NONBLOCK), so the I/O call itself takes no time.
-/
namespace Munge.Fd
open Munge.C

/-- poll-side events of the environment script -/
inductive PollEv where
  /-- the descriptor is ready with `revents`, `dt` µs after the poll in progress began -/
  | ready (dt : Nat) (revents : Int)
  /-- poll returns -1 with `errno`, `dt` µs after it began (EINTR: a signal) -/
  | fail (dt : Nat) (errno : Int)
  /-- the wall clock steps by `delta` µs (applied when the clock is next consulted) -/
  | jump (delta : Int)
deriving Repr, DecidableEq

/-- I/O-side events of the environment script -/
inductive IoEv where
  /-- the kernel transfers at most `k` bytes (read: `k = 0` is end-of-file) -/
  | xfer (k : Nat)
  /-- the call returns -1 with `errno` (EINTR; EAGAIN = the readiness was spurious; ECONNRESET ...) -/
  | fail (errno : Int)
deriving Repr, DecidableEq

inductive Kind where
  | readN | writeN | writeIov
deriving Repr, DecidableEq

/-- what the routine did, in order (for the statements about the shape of a run) -/
inductive Call where
  | gettime (wall : Int)
  | poll (msecs : Int) (nfd : Int) (slept : Int)
  | io (got : Int)
deriving Repr, DecidableEq

/-- errno the scripted environment reports when a queue is exhausted while the routine insists (ENOSYS) -/
def ESCRIPT : Int := 38

/-- The decision kernels of one routine (all cut out of the C source by the generator). -/
structure Routine where
  kind : Kind
  /-- `pfd.events` -/
  events : Int
  /-- argument guard: (fd, buf|iov_orig, iov_cnt, errno) ↦ (0 | -1, errno') -/
  guard : Int → Int → Int → Int → Int × Int
  /-- the do_skip_first_poll test: (do_skip, nleft) ↦ (jump taken ≠ 0, msecs) -/
  skip : Int → Int → Int × Int
  /-- loop condition on nleft (C truth value) -/
  cond : Int → Int
  /-- `_fd_get_poll_timeout`: (when ≠ NULL, when.sec, when.usec, now.sec, now.usec) ↦ (msecs, was the clock read) -/
  tmo : Int → Int → Int → Int → Int → Int × Bool
  /-- chain after poll: (nfd, errno, revents) ↦ (control code, errno') -/
  afterPoll : Int → Int → Int → Int × Int
  /-- tail after the I/O call: (n, errno, nleft, msecs) ↦ (control code, nleft') -/
  afterIo : Int → Int → Int → Int → Int × Int
  /-- final return expression: (total, nleft) ↦ value -/
  ret : Int → Int → Int
  /-- iovec-advance loop: condition (i, iov_cnt, nwritten) and body (nwritten, iov[i].iov_len) ↦ (code, n, nwritten', len') -/
  advCond : Int → Int → Int → Int
  advBody : Int → Int → Int × Int × Int × Int

/-- Parameters of one call. -/
structure Cfg where
  fd : Int := 5
  /-- `buf` / `iov_orig` (0 = NULL) -/
  ptr : Int := 1
  /-- requested byte count (read_n / write_n) -/
  n : Int := 0
  /-- contents of the iovec elements (write_iov) -/
  chunks : List (List UInt8) := []
  skip : Int := 0
  /-- `when` (0 = NULL) and its members -/
  whenP : Int := 1
  ws : Int := 0
  wu : Int := 0
  /-- wall clock at entry, µs since the Epoch -/
  start : Int := 0
  /-- read: the bytes the peer will deliver, in order; write: contents of the user buffer -/
  data : List UInt8 := []
deriving Repr

structure St where
  nleft : Int
  /-- `p - buf` -/
  p : Int
  /-- private iovec copy: (offset of iov_base in the arena `buf`, iov_len) -/
  iov : List (Int × Int)
  errno : Int
  /-- virtual time spent inside poll so far, µs -/
  blocked : Int
  wall : Int
  pollQ : List PollEv
  ioQ : List IoEv
  /-- read: bytes not yet taken from the peer's stream -/
  src : List UInt8
  /-- read: the user buffer being filled; write: the user data (arena of the iovec elements) -/
  buf : List UInt8
  /-- write: what the peer has received -/
  sink : List UInt8
  trace : List Call
deriving Repr

structure Result where
  ret : Int
  errno : Int
  st : St
  /-- the fuel ran out (never for the routines as they are: `Munge.C08Fd.terminates`) -/
  diverged : Bool := false
deriving Repr

inductive Outcome where
  | cont (s : St)
  | done (r : Result)

/-! ### the environment -/

/-- apply the pending clock steps at the head of the poll queue -/
def drain : List PollEv → Int → List PollEv × Int
  | .jump d :: q, w => drain q (w + d)
  | q, w => (q, w)

/-- outcome of `poll (&pfd, 1, msecs)`: (nfd, errno, revents, µs slept, rest of the queue, wall clock steps applied) -/
def doPoll (msecs : Int) (errno : Int) : List PollEv → Int → Int × Int × Int × Int × List PollEv × Int
  | .jump d :: q, w => doPoll msecs errno q (w + d)
  | [], w => if msecs < 0 then (-1, ESCRIPT, 0, 0, [], w) else (0, errno, 0, 1000 * msecs, [], w)
  | .ready dt rev :: q, w =>
    if msecs < 0 ∨ (dt : Int) ≤ 1000 * msecs then (1, errno, rev, dt, q, w)
    else (0, errno, 0, 1000 * msecs, .ready (dt - (1000 * msecs).toNat) rev :: q, w)
  | .fail dt e :: q, w =>
    if msecs < 0 ∨ (dt : Int) ≤ 1000 * msecs then (-1, e, 0, dt, q, w)
    else (0, errno, 0, 1000 * msecs, .fail (dt - (1000 * msecs).toNat) e :: q, w)

/-- bytes `writev` gathers from the iovec when the kernel accepts `m` bytes -/
def gather (arena : List UInt8) : List (Int × Int) → Nat → List UInt8
  | [], _ => []
  | (b, l) :: rest, m =>
    let t := min m l.toNat
    (arena.drop b.toNat).take t ++ gather arena rest (m - t)

def iovTotal (iov : List (Int × Int)) : Nat := (iov.map (fun e => e.2.toNat)).sum

/-- outcome of the I/O call: (return value, errno, state) -/
def doIo (kind : Kind) (s : St) : Int × Int × St :=
  match s.ioQ with
  | [] => (-1, ESCRIPT, s)
  | .fail e :: q => (-1, e, { s with ioQ := q })
  | .xfer k :: q =>
    match kind with
    | .readN =>
      let m := min k (min s.nleft.toNat s.src.length)
      (m, s.errno, { s with ioQ := q, src := s.src.drop m,
                            buf := s.buf.take s.p.toNat ++ s.src.take m ++ s.buf.drop (s.p.toNat + m) })
    | .writeN =>
      let m := min k s.nleft.toNat
      (m, s.errno, { s with ioQ := q, sink := s.sink ++ (s.buf.drop s.p.toNat).take m })
    | .writeIov =>
      let m := min k (iovTotal s.iov)
      (m, s.errno, { s with ioQ := q, sink := s.sink ++ gather s.buf s.iov m })

/-! ### the routine -/

/-- `for (i = 0; (i < iov_cnt) && (nwritten > 0); i++) { .. }` over the private iovec copy -/
def iovAdvance (r : Routine) (cnt : Int) : Int → List (Int × Int) → Int → List (Int × Int)
  | _, [], _ => []
  | i, (b, l) :: rest, nw =>
    if r.advCond i cnt nw = 0 then (b, l) :: rest
    else
      let (code, n, nw', l') := r.advBody nw l
      (if code = Gen.Fd.CONT then b else b + n, l') :: iovAdvance r cnt (i + 1) rest nw'

def total (r : Routine) (cfg : Cfg) : Int :=
  match r.kind with
  | .writeIov => ((cfg.chunks.map (fun c => (c.length : Int))).sum)
  | _ => cfg.n

def finish (r : Routine) (cfg : Cfg) (s : St) : Result :=
  { ret := r.ret (total r cfg) s.nleft, errno := s.errno, st := s }

/-- from the I/O call to the end of the loop body -/
def ioPhase (r : Routine) (cfg : Cfg) (msecs : Int) (s : St) : Outcome :=
  let (nio, e, s1) := doIo r.kind s
  let s1 := { s1 with errno := e, trace := s1.trace ++ [Call.io nio] }
  let (code, nleft') := r.afterIo nio e s.nleft msecs
  if code = 0 then
    match r.kind with
    | .writeIov => .cont { s1 with nleft := nleft', iov := iovAdvance r (cfg.chunks.length : Nat) 0 s1.iov nio }
    | _ => .cont { s1 with nleft := nleft', p := s1.p + nio }
  else if code = Gen.Fd.CONT then .cont { s1 with nleft := nleft' }
  else if code = Gen.Fd.BRK then .done (finish r cfg { s1 with nleft := nleft' })
  else .done { ret := -1, errno := e, st := s1 }

/-- one trip around the `while` loop, entered at its condition -/
def step (r : Routine) (cfg : Cfg) (s : St) : Outcome :=
  if r.cond s.nleft = 0 then .done (finish r cfg s) else
  -- msecs = _fd_get_poll_timeout (when)
  let (q0, w0) := drain s.pollQ s.wall
  let (msecs, reads) := r.tmo cfg.whenP cfg.ws cfg.wu (w0 / 1000000) (w0 % 1000000)
  let s := if reads then { s with pollQ := q0, wall := w0, trace := s.trace ++ [Call.gettime w0] } else s
  -- nfd = poll (&pfd, 1, msecs)
  let (nfd, e1, rev, slept, q1, w1) := doPoll msecs s.errno s.pollQ s.wall
  let s := { s with pollQ := q1, wall := w1 + slept, blocked := s.blocked + slept, trace := s.trace ++ [Call.poll msecs nfd slept] }
  let (code, e2) := r.afterPoll nfd e1 rev
  let s := { s with errno := e2 }
  if code = 0 then ioPhase r cfg msecs s
  else if code = Gen.Fd.CONT then .cont s
  else if code = Gen.Fd.BRK then .done (finish r cfg s)
  else .done { ret := -1, errno := e2, st := s }

def iterate (r : Routine) (cfg : Cfg) : Nat → St → Result
  | 0, s => { ret := -2, errno := s.errno, st := s, diverged := true }
  | f + 1, s =>
    match step r cfg s with
    | .done x => x
    | .cont s' => iterate r cfg f s'

/-- base offsets of the iovec elements in the arena (concatenation of the chunks) -/
def iovOf : List (List UInt8) → Int → List (Int × Int)
  | [], _ => []
  | c :: cs, off => (off, (c.length : Int)) :: iovOf cs (off + c.length)

def init (r : Routine) (cfg : Cfg) (pollQ : List PollEv) (ioQ : List IoEv) : St :=
  { nleft := total r cfg, p := 0, iov := iovOf cfg.chunks 0, errno := 0, blocked := 0, wall := cfg.start,
    pollQ := pollQ, ioQ := ioQ,
    src := if r.kind = .readN then cfg.data else [],
    buf := match r.kind with
           | .readN => List.replicate cfg.n.toNat 0
           | .writeN => cfg.data
           | .writeIov => cfg.chunks.flatten,
    sink := [], trace := [] }

/-- fuel that is always enough for the routines as they are (every trip that continues consumes an event) -/
def fuelFor (pollQ : List PollEv) (ioQ : List IoEv) : Nat := pollQ.length + ioQ.length + 2

/-- One call of the routine `r` with parameters `cfg` against the environment script (`pollQ`, `ioQ`);
    errno is 0 at entry (as m_msg_send / m_msg_recv arrange). -/
def run (r : Routine) (cfg : Cfg) (pollQ : List PollEv) (ioQ : List IoEv) : Result :=
  let s0 := init r cfg pollQ ioQ
  let (g, e0) := r.guard cfg.fd cfg.ptr (cfg.chunks.length : Nat) 0
  if g ≠ 0 then { ret := g, errno := e0, st := { s0 with errno := e0 } } else
  let (taken, msecs) := r.skip cfg.skip s0.nleft
  if taken ≠ 0 then
    match ioPhase r cfg msecs s0 with
    | .done x => x
    | .cont s => iterate r cfg (fuelFor pollQ ioQ) s
  else iterate r cfg (fuelFor pollQ ioQ) s0

/-! ### the routines of fd.c, assembled from the generated kernels -/

def tmoGen (whenP ws wu ns nu : Int) : Int × Bool :=
  let k := Gen.Fd.fd_get_poll_timeout whenP ws wu ns nu 0
  (k.ret, k.calls "gettimeofday")

def readN : Routine :=
  { kind := .readN, events := Gen.Fd.read_events
    guard := fun fd p _ e => let k := Gen.Fd.read_guard fd p; (k.ret, k.get "errno" e)
    skip := fun d nl => let k := Gen.Fd.read_skip d nl; (k.ret, k.get "msecs" 0)
    cond := fun nl => (Gen.Fd.read_cond nl).ret
    tmo := tmoGen
    afterPoll := fun nfd e rev => let k := Gen.Fd.read_afterPoll nfd e rev; (k.ret, k.get "errno" e)
    afterIo := fun n e nl ms => let k := Gen.Fd.read_afterIo n e nl ms; (k.ret, k.get "nleft" nl)
    ret := fun n nl => (Gen.Fd.read_ret n nl).ret
    advCond := fun _ _ _ => 0
    advBody := fun nw l => (0, 0, nw, l) }

def writeN : Routine :=
  { kind := .writeN, events := Gen.Fd.write_events
    guard := fun fd p _ e => let k := Gen.Fd.write_guard fd p; (k.ret, k.get "errno" e)
    skip := fun d nl => let k := Gen.Fd.write_skip d nl; (k.ret, k.get "msecs" 0)
    cond := fun nl => (Gen.Fd.write_cond nl).ret
    tmo := tmoGen
    afterPoll := fun nfd e rev => let k := Gen.Fd.write_afterPoll nfd e rev; (k.ret, k.get "errno" e)
    afterIo := fun n e nl ms => let k := Gen.Fd.write_afterIo n e nl ms; (k.ret, k.get "nleft" nl)
    ret := fun n nl => (Gen.Fd.write_ret n nl).ret
    advCond := fun _ _ _ => 0
    advBody := fun nw l => (0, 0, nw, l) }

def writeIov : Routine :=
  { kind := .writeIov, events := Gen.Fd.iov_events
    guard := fun fd p c e => let k := Gen.Fd.iov_guard fd p c; (k.ret, k.get "errno" e)
    skip := fun d nl => let k := Gen.Fd.iov_skip d nl; (k.ret, k.get "msecs" 0)
    cond := fun nl => (Gen.Fd.iov_cond nl).ret
    tmo := tmoGen
    afterPoll := fun nfd e rev => let k := Gen.Fd.iov_afterPoll nfd e rev; (k.ret, k.get "errno" e)
    afterIo := fun n e nl ms => let k := Gen.Fd.iov_afterIo n e nl ms; (k.ret, k.get "nleft" nl)
    ret := fun n nl => (Gen.Fd.iov_ret n nl).ret
    advCond := fun i c nw => (Gen.Fd.iovadv_cond i c nw).ret
    advBody := fun nw l => let k := Gen.Fd.iovadv_body nw l; (k.ret, k.get "n" 0, k.get "nwritten" nw, k.get "iov[i].iov_len" l) }

/-- `_get_timeval (&tv, msecs)` at wall clock `now` µs (`rv` = what gettimeofday returns; it stores the time only
    when it succeeds): the deadline as (tv_sec, tv_usec).  `old` = previous contents of `*tv`. -/
def getTimeval (now msecs : Int) (rv : Int := 0) (old : Int × Int := (0, 0)) : Int × Int :=
  let sec := if rv < 0 then old.1 else now / 1000000
  let usec := if rv < 0 then old.2 else now % 1000000
  let k := Gen.Fd.get_timeval 1 sec usec msecs rv
  (k.get "tv.tv_sec" sec, k.get "tv.tv_usec" usec)

end Munge.Fd
