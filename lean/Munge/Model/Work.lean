import Munge.Gen.Work
/-
Hand-written model of `src/munged/work.c` (property C12): a transition system whose atomic steps are exactly
the mutex-protected sections of the C code (DESIGN appendix A.1).

  thread      step                       C code between two points where other threads can run
  ---------   ------------------------   ---------------------------------------------------------------------
  acceptor    `enq i`                    `work_queue`: lock .. unlock   (test `got_fini`, enqueue, idle test)
              `sig r`                    `work_queue`: `pthread_cond_signal (&received_work)` after the unlock
              `waitCall`                 `work_wait`: lock, first test of the loop condition
              `fini d`                   `work_fini`: lock, `got_fini = 1`, first test of the loop condition
              `mainWake`                 return of `pthread_cond_wait (&finished_work)`: re-test (spurious allowed)
              `cancelOne`                one `pthread_cancel (workers[j])`
              `join`                     the `pthread_join` loop (enabled once every worker has exited)
  worker k    `wrk k`                    starting : lock, loop top
                                         waitRecv : return of `pthread_cond_wait (&received_work)` (cancellation
                                                    point; spurious wake-ups allowed), re-test, dequeue .. unlock
                                         working i: `work_func` returns (or is cancelled inside if cancellation is
                                                    not masked), lock, `n_working--`, signal test, loop top ..

Everything that `tools/gen/g_work.py` extracts from the source enters through `Params` (instantiated by
`genParams` from `Munge.Gen.Work`): the wait/signal predicates, the idle test, the guard of the wait in
`work_fini`, and two facts computed from the generated event order of `_work_exec` (is `work_func` called with
cancellation disabled; is there a `pthread_testcancel` at the top of the loop).

pthread semantics assumed: a signal wakes one thread currently blocked on the condition variable (if any);
`pthread_cond_wait` may return spuriously; cancellation is deferred: it acts only at `pthread_testcancel`,
`pthread_cond_wait` and cancellation points inside `work_func`, and never while the state is DISABLE;
a cancelled `pthread_cond_wait` re-acquires the mutex before the cleanup handler runs.
-/
namespace Munge.Work
open Munge.Gen.Work (Ev)

/-! ### what the generator supplies -/

structure Params where
  /-- loop condition of `work_wait`  (nWorkers, nWorking, queue non-empty) -/
  waitW : Int → Int → Bool → Bool
  /-- loop condition of `work_fini` -/
  waitF : Int → Int → Bool → Bool
  /-- `_work_exec` signals `finished_work` when … -/
  signal : Int → Int → Bool → Bool
  /-- loop condition of the worker's wait on `received_work` -/
  recvWait : Int → Int → Bool → Bool
  /-- `work_queue` signals `received_work` when … -/
  idle : Int → Int → Bool → Bool
  /-- `work_fini (wp, d)` enters its wait loop when … -/
  finiWaits : Bool → Bool
  /-- `work_func` runs with cancellation disabled -/
  masked : Bool
  /-- `pthread_testcancel` at the top of the worker loop (cancellation enabled there) -/
  testcancelTop : Bool

/-- all `call` events of an event list happen with cancellation disabled (`dis` = state so far) -/
def callsMasked : Bool → List Ev → Bool
  | _, [] => true
  | _, .disable :: r => callsMasked true r
  | _, .restore :: r => callsMasked false r
  | _, .enable :: r => callsMasked false r
  | d, .call :: r => d && callsMasked d r
  | d, _ :: r => callsMasked d r

/-- the cancellation state with which one loop iteration ends (`restore` re-installs the state saved by `disable`,
    which is ENABLE because every iteration starts enabled — see `endsEnabled`) -/
def cancelStateAfter : Bool → List Ev → Bool
  | d, [] => d
  | _, .disable :: r => cancelStateAfter true r
  | _, .restore :: r => cancelStateAfter false r
  | _, .enable :: r => cancelStateAfter false r
  | d, _ :: r => cancelStateAfter d r

/-- `work_func` is called, and only with cancellation disabled -/
def maskedOf (loop : List Ev) : Bool := loop.contains .call && callsMasked false loop

/-- an iteration leaves cancellation enabled again -/
def endsEnabled (loop : List Ev) : Bool := !cancelStateAfter false loop

/-- `pthread_testcancel` precedes the wait and the dequeue, with cancellation enabled -/
def testcancelTopOf (loop : List Ev) : Bool :=
  let pre := loop.takeWhile (fun e => e != .waitRecv && e != .dequeue)
  pre.contains .testcancel && !pre.contains .disable

/-- lock discipline of an event list: starting with the mutex `held`, every lock/unlock alternates, shared state is
    touched and condition waits are issued only with the mutex held, `work_func` is called and threads are
    cancelled/joined only with the mutex free; result = mutex state at the end, `none` on a violation -/
def lockScan : Bool → List Ev → Option Bool
  | h, [] => some h
  | h, .lock :: r => if h then none else lockScan true r
  | h, .unlock :: r => if h then lockScan false r else none
  | h, .call :: r => if h then none else lockScan h r
  | h, .cancel :: r => if h then none else lockScan h r
  | h, .join :: r => if h then none else lockScan h r
  | h, .signalRecv :: r => lockScan h r           -- signalling is allowed inside or outside the monitor
  | h, .signalFinished :: r => if h then lockScan h r else none   -- must be atomic with the test that guards it
  | h, .testcancel :: r => if h then lockScan h r else none       -- the cleanup handler unlocks: must hold the mutex
  | h, .disable :: r => lockScan h r
  | h, .restore :: r => lockScan h r
  | h, .enable :: r => lockScan h r
  | h, .cleanupPush :: r => lockScan h r
  | _, .other :: _ => none
  | h, _ :: r => if h then lockScan h r else none  -- waitRecv waitFinished dequeue enqueue incWorking decWorking setFini testFini idleTest

/-- the order of the state-changing events of one worker iteration that the model's `wrk` step mirrors -/
def semanticOrder (loop : List Ev) : List Ev :=
  loop.filter (fun e => e == .waitRecv || e == .dequeue || e == .incWorking || e == .call || e == .decWorking || e == .signalFinished)

def genParams : Params where
  waitW := Gen.Work.waitPredWait
  waitF := Gen.Work.waitPredFini
  signal := Gen.Work.signalPred
  recvWait := Gen.Work.recvWaitPred
  idle := Gen.Work.idleTest
  finiWaits := Gen.Work.finiWaits
  masked := maskedOf Gen.Work.execLoop
  testcancelTop := testcancelTopOf Gen.Work.execLoop

/-! ### state -/

inductive WPc where
  | starting                    -- created, has not yet locked the mutex
  | waitRecv (woken : Bool)     -- blocked in `pthread_cond_wait (&received_work)`; `woken` = a signal was delivered
  | working (i : Nat)           -- between the unlock before `work_func (i)` and the lock after it
  | cancelled                   -- exited through cancellation (cleanup handler released the mutex)
  | crashed                     -- dequeued from an empty queue (`work_func (NULL)`): undefined behaviour
deriving DecidableEq, Repr

inductive MPc where
  | accepting                           -- outside any `work_*` call
  | signalling                          -- in `work_queue`, between unlock and `pthread_cond_signal`
  | waitFin (inFini woken : Bool)       -- blocked on `finished_work` in `work_wait` / `work_fini`
  | cancelling (j : Nat)                -- `work_fini`: about to cancel worker `j`
  | joining
  | finished                            -- `work_fini` returned
deriving DecidableEq, Repr

structure State where
  queue : List Nat := []
  nWorking : Int := 0
  gotFini : Bool := false
  w : List WPc
  main : MPc := .accepting
  /-- ghost: argument of the `work_fini` call -/
  finiArg : Bool := false
  /-- ghost: items `work_queue` accepted, finished by `work_func`, lost to a cancellation inside `work_func` -/
  accepted : List Nat := []
  done : List Nat := []
  lost : List Nat := []
  /-- ghost: dequeue log (worker, item) -/
  taken : List (Nat × Nat) := []
deriving Repr

def init (n : Nat) : State := { w := List.replicate n .starting }

def WPc.item? : WPc → Option Nat
  | .working i => some i
  | _ => none

/-- items currently held by workers -/
def held (w : List WPc) : List Nat := w.filterMap WPc.item?

def State.qne (s : State) : Bool := !s.queue.isEmpty
def State.nWorkers (s : State) : Int := s.w.length

/-- has `pthread_cancel (workers[k])` been issued (cancellation goes in index order) -/
def State.cancelReq (s : State) (k : Nat) : Bool :=
  match s.main with
  | .cancelling j => decide (k < j)
  | .joining => true
  | .finished => true
  | _ => false

/-- workers blocked on `received_work` that no signal has been delivered to yet -/
def unwoken (w : List WPc) : List Nat :=
  (List.range w.length).filter (fun k => w[k]? == some (.waitRecv false))

/-! ### worker steps -/

/-- `while (<recvWait>) pthread_cond_wait (..); … work = _work_dequeue (wp); wp->n_working++; unlock` -/
def takeOrWait (P : Params) (s : State) (k : Nat) : State :=
  if P.recvWait s.nWorkers s.nWorking s.qne then { s with w := s.w.set k (.waitRecv false) }
  else match s.queue with
    | i :: q => { s with queue := q, nWorking := s.nWorking + 1, w := s.w.set k (.working i),
                         taken := s.taken ++ [(k, i)] }
    | [] => { s with nWorking := s.nWorking + 1, w := s.w.set k .crashed }

/-- top of the `for (;;)` loop, mutex held -/
def loopTop (P : Params) (s : State) (k : Nat) : State :=
  if P.testcancelTop && s.cancelReq k then { s with w := s.w.set k .cancelled } else takeOrWait P s k

/-- `pthread_cond_signal (&finished_work)` -/
def wakeMain (s : State) : State :=
  match s.main with
  | .waitFin b _ => { s with main := .waitFin b true }
  | _ => s

/-- `work_func (i)` has returned: lock, `n_working--`, restore cancel state, signal test, loop top -/
def finishItem (P : Params) (s : State) (k i : Nat) : State :=
  let s1 := { s with nWorking := s.nWorking - 1, done := s.done ++ [i] }
  let s2 := if P.signal s1.nWorkers s1.nWorking s1.qne then wakeMain s1 else s1
  loopTop P s2 k

def wrkStep (P : Params) (s : State) (k : Nat) : Option State :=
  match s.w[k]? with
  | some .starting => some (loopTop P s k)
  | some (.waitRecv _) =>
      some (if s.cancelReq k then { s with w := s.w.set k .cancelled } else takeOrWait P s k)
  | some (.working i) =>
      if !P.masked && s.cancelReq k then some { s with w := s.w.set k .cancelled, lost := s.lost ++ [i] }
      else some (finishItem P s k i)
  | _ => none

/-! ### steps of the accepting / stopping thread -/

inductive Act where
  | enq (i : Nat)
  | sig (r : Nat)
  | waitCall
  | fini (doWait : Bool)
  | mainWake
  | cancelOne
  | join
  | wrk (k : Nat)
deriving DecidableEq, Repr

def afterWait (inFini : Bool) : MPc := if inFini then .cancelling 0 else .accepting

def step (P : Params) (s : State) : Act → Option State
  | .enq i =>
      if s.main = .accepting ∧ i ∉ s.accepted then
        if s.gotFini then some s          -- EPERM: not accepted
        else
          let s1 := { s with queue := s.queue ++ [i], accepted := s.accepted ++ [i] }
          some (if P.idle s1.nWorkers s1.nWorking s1.qne then { s1 with main := .signalling } else s1)
      else none
  | .sig r =>
      if s.main = .signalling then
        let c := unwoken s.w
        let s1 := match c[r % c.length]? with
          | some k => { s with w := s.w.set k (.waitRecv true) }
          | none => s
        some { s1 with main := .accepting }
      else none
  | .waitCall =>
      if s.main = .accepting then
        some (if P.waitW s.nWorkers s.nWorking s.qne then { s with main := .waitFin false false } else s)
      else none
  | .fini d =>
      if s.main = .accepting then
        let s1 := { s with gotFini := true, finiArg := d }
        some (if P.finiWaits d && P.waitF s1.nWorkers s1.nWorking s1.qne then { s1 with main := .waitFin true false }
              else { s1 with main := .cancelling 0 })
      else none
  | .mainWake =>
      match s.main with
      | .waitFin b _ =>
          let p := if b then P.waitF else P.waitW
          some (if p s.nWorkers s.nWorking s.qne then { s with main := .waitFin b false }
                else { s with main := afterWait b })
      | _ => none
  | .cancelOne =>
      match s.main with
      | .cancelling j => some { s with main := if j + 1 < s.w.length then .cancelling (j + 1) else .joining }
      | _ => none
  | .join =>
      if s.main = .joining ∧ s.w.all (· == .cancelled) then some { s with main := .finished } else none
  | .wrk k => wrkStep P s k

/-- states reachable with `n` workers -/
inductive Reachable (P : Params) (n : Nat) : State → Prop
  | init : Reachable P n (init n)
  | step {s s' : State} (a : Act) : Reachable P n s → step P s a = some s' → Reachable P n s'

/-- a worker that will take its next step without a spurious wake-up: it has not blocked yet, a signal was
    delivered to it, or it is running `work_func` (assumed to return) -/
def WPc.runnable : WPc → Bool
  | .starting => true
  | .waitRecv woken => woken
  | .working _ => true
  | _ => false

/-- termination measure of the worker steps -/
def measure (s : State) : Int := 2 * s.queue.length + s.nWorking

end Munge.Work
