/-
Descriptor types for the client–daemon message codec (`src/libcommon/m_msg.c`).
`Munge.Gen.Wire` (regenerated from the C source on every run by tools/gen/g_wire.py)
emits values of these types; `Munge.Model.Wire` interprets them.  Types only.
-/
namespace Munge.Wire

/-- comparison operator of an interposed bounds test `m->len OP k` -/
inductive Cmp
  | lt | le | gt | ge | eq | ne
deriving DecidableEq, Repr

def Cmp.eval : Cmp → Nat → Nat → Bool
  | .lt, a, b => decide (a < b)
  | .le, a, b => decide (a ≤ b)
  | .gt, a, b => decide (a > b)
  | .ge, a, b => decide (a ≥ b)
  | .eq, a, b => decide (a = b)
  | .ne, a, b => decide (a ≠ b)

/-- where a variable-length field lives: behind a pointer member (`m->Y`, a heap block whose
    size is whatever `_alloc` made it) or inside the struct (`&(m->Y)`, `sizeof` = `cap`) -/
inductive Dest
  | heap
  | fixed (cap : Nat)
deriving DecidableEq, Repr

/-- one link of an `if … else if …` chain of `_msg_pack`/`_msg_unpack`, or one `n += …`
    statement of `_msg_length`.  Members are named by their C member name; the two locals of
    the header case are named `local.magic` / `local.version`. -/
inductive Fld
  /-- `_pack (&p, &(m->f), sizeof (m->f), q)` / `_unpack (&(m->f), &p, sizeof (m->f), q)` /
      `n += sizeof (m->f)` with `sizeof = w` -/
  | int (f : String) (w : Nat)
  /-- `_alloc (&(m->f), m->len)`; failure leaves through `nomem` -/
  | alloc (f len : String)
  /-- `_copy (…, m->len, p, q, &p)` between the packet and member `f` -/
  | bytes (f len : String) (d : Dest)
  /-- `else if (m->len OP k) ;` — an interposed test; true leaves through `err` -/
  | guard (len : String) (c : Cmp) (k : Nat)
  /-- `n += m->len` (length lists only) -/
  | var (len : String)
deriving DecidableEq, Repr

end Munge.Wire
