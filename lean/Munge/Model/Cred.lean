import Munge.Gen.Dec
import Munge.Model.Base64
/-
Executable model of the daemon's request path: `_job_exec` (job.c) → `m_msg_recv` (header and
ENC_REQ / DEC_REQ body) → `enc_process_msg` (enc.c) / `dec_process_msg` (dec.c) → `m_msg_send`.

* Cryptography and compression are parameters (`Prims`); nothing here re-implements them.
* The decision kernels (`enc_validate_msg`, `dec_validate_auth`, `dec_validate_time`,
  `dec_validate_replay`, the retry checks) are the ones tools/gen/g_dec.py translates from the C
  source on every run (`Munge.Gen.Dec`); constants and error texts likewise.
* The parsers and packers are hand-written mirrors of the C, statement by statement: the model
  checks a bound only where the C checks one and reports the same error text, so that a check
  removed from (or added to) the C shows up as a differing reply in the correspondence run.
  `oob` records a read the C would perform outside the buffer it parses.
-/
namespace Munge.Cred
open Munge.Gen.Dec Munge.C

abbrev Bytes := List UInt8

/-- cryptographic / compression primitives as the daemon sees them -/
structure Prims where
  macValid : Nat → Bool                         -- mac_map_enum (t) ≥ 0
  macLen : Nat → Int                            -- mac_size (t)
  mac : Nat → Bytes → Bytes → Bytes             -- type, key, message
  cipherValid : Nat → Bool                      -- cipher_map_enum (t) ≥ 0
  keyLen : Nat → Int                            -- cipher_key_size
  blockLen : Nat → Int
  ivLen : Nat → Int
  encrypt : Nat → Bytes → Bytes → Bytes → Bytes          -- type, key, iv, plaintext
  decrypt : Nat → Bytes → Bytes → Bytes → Bytes × Bool   -- bytes produced, `final` succeeded
  zipValid : Nat → Bool
  deflate : Nat → Bytes → Bytes                 -- back-end compress of a non-empty block
  inflate : Nat → Bytes → Nat → Option Bytes    -- back-end uncompress into a buffer of given size

structure Conf where
  defCipher : Nat := 4
  defMac : Nat := 5
  defZip : Nat := 0
  defTtl : Int := 300
  maxTtl : Int := 3600
  gotClockSkew : Bool := true
  gotRootAuth : Bool := false
  gotSocketRetry : Bool := true
  macKey : Bytes := []
  dekKey : Bytes := []
  addr : Bytes := [127, 0, 0, 1]
deriving Repr

/-- the environment of one request -/
structure Env where
  now : Int := 1000000                      -- `time()`; -1 = failure
  peer : Option (Nat × Nat) := some (1000, 1000)   -- SO_PEERCRED; none = failure
  rnd : Bytes := []                         -- scripted PRNG stream (cyclic); [] = 0x30+i per call
  member : Nat → Nat → Bool := fun _ _ => false

/-- the fields of `struct m_msg` that the request path uses -/
structure Msg where
  type : Nat := 0
  retry : Nat := 0
  cipher : Nat := 0
  mac : Nat := 0
  zip : Nat := 0
  realmLen : Nat := 0
  realm : Bytes := []
  ttl : Nat := 0
  addrLen : Nat := 0
  addr : Bytes := [0, 0, 0, 0]
  time0 : Nat := 0
  time1 : Nat := 0
  clientUid : Nat := 0
  clientGid : Nat := 0
  credUid : Nat := 0
  credGid : Nat := 0
  authUid : Nat := 0
  authGid : Nat := 0
  dataLen : Nat := 0
  data : Bytes := []
  errorNum : Nat := 0
  errorStr : String := ""
deriving Repr

def UID_ANY : Nat := MUNGE_UID_ANY.toNat
def GID_ANY : Nat := MUNGE_GID_ANY.toNat

/-! ### byte helpers -/
def be32 (n : Nat) : Bytes :=
  [UInt8.ofNat (n / 16777216 % 256), UInt8.ofNat (n / 65536 % 256), UInt8.ofNat (n / 256 % 256), UInt8.ofNat (n % 256)]
def rd32 (b : Bytes) : Nat :=
  match b with
  | [a, b, c, d] => a.toNat * 16777216 + b.toNat * 65536 + c.toNat * 256 + d.toNat
  | _ => 0
def strBytes (s : String) : Bytes := s.toUTF8.toList

/-! ### `m_msg_set_err` and `m_msg_reset` -/
/-- first error wins; a NULL string defaults to `munge_strerror (e)` -/
def setErr (m : Msg) (e : Int) (s : Option String) : Msg :=
  if m.errorNum = 0 ∧ e ≠ 0 then
    { m with errorNum := e.toNat, errorStr := s.getD (strerrorTbl.getD e.toNat "Unknown") }
  else m

def reset (m : Msg) : Msg :=
  { m with cipher := 0, mac := 0, zip := 0, realmLen := 0, realm := [], ttl := 0, addrLen := 0,
           time0 := 0, time1 := 0, credUid := UID_ANY, credGid := GID_ANY, authUid := UID_ANY,
           authGid := GID_ANY, dataLen := 0, data := [] }

/-! ### wire: header, request bodies, replies -/
def hdrBytes (type retry len : Nat) : Bytes :=
  be32 6319435 ++ [4, UInt8.ofNat type, UInt8.ofNat retry] ++ be32 len

/-- error string on the wire: `error_len` counts the NUL; `error_len` is a `uint8_t` -/
def errWire (m : Msg) : Bytes :=
  if m.errorNum = 0 then [0] else
  let s := strBytes m.errorStr ++ [0]
  [UInt8.ofNat (s.length % 256)] ++ s.take (s.length % 256)

def encRsp (m : Msg) : Bytes :=
  let body := [UInt8.ofNat m.errorNum] ++ errWire m ++ be32 m.dataLen ++ m.data.take m.dataLen
  hdrBytes 3 m.retry body.length ++ body

def decRsp (m : Msg) : Bytes :=
  let body := [UInt8.ofNat m.errorNum] ++ errWire m ++
    [UInt8.ofNat m.cipher, UInt8.ofNat m.mac, UInt8.ofNat m.zip, UInt8.ofNat m.realmLen] ++ m.realm.take m.realmLen ++
    be32 m.ttl ++ [UInt8.ofNat m.addrLen] ++ m.addr.take m.addrLen ++
    be32 m.time0 ++ be32 m.time1 ++ be32 m.credUid ++ be32 m.credGid ++ be32 m.authUid ++ be32 m.authGid ++
    be32 m.dataLen ++ m.data.take m.dataLen
  hdrBytes 5 m.retry body.length ++ body

/-- result of receiving: a request message, or "no reply" (connection dropped) -/
inductive Recv where
  | enc (m : Msg)
  | dec (m : Msg)
  | drop (why : String)
deriving Repr

/-- `_alloc` + `_copy` of a variable field of `len` bytes at `b`: none = unpack error -/
def takeField (b : Bytes) (len : Nat) : Option (Bytes × Bytes) :=
  if len ≥ 2147483648 then none            -- length is passed as a C `int`: negative
  else if len > b.length then none
  else some (b.take len, b.drop len)

/-- `m_msg_recv` on a request whose header says type 1 (`MUNGE_MSG_HDR`): the body is unpacked with the HEADER
    chain, which checks a second magic / version and OVERWRITES `m->type` and `m->retry` (and `pkt_len`) with the
    body's; `_job_exec` then dispatches on that second type with every other field still zero.  Bytes after the
    second header are ignored (the `assert` on the cursor is compiled out). -/
def recvHdrBody (body : Bytes) : Recv :=
  if body.length < 11 then .drop "unpack" else
  if rd32 (body.take 4) ≠ 6319435 then .drop "magic" else
  if (body.getD 4 0).toNat ≠ 4 then .drop "version" else
  let type := (body.getD 5 0).toNat
  let retry := (body.getD 6 0).toNat
  if type = 2 then .enc { type := 2, retry := retry }
  else if type = 4 then .dec { type := 4, retry := retry }
  else .drop "type"

def recvMsg (req : Bytes) : Recv :=
  if req.length < 11 then .drop "incomplete header" else
  let magic := rd32 (req.take 4)
  let ver := (req.getD 4 0).toNat
  let type := (req.getD 5 0).toNat
  let retry := (req.getD 6 0).toNat
  let len := rd32 ((req.drop 7).take 4)
  let body := (req.drop 11).take len
  if magic ≠ 6319435 then .drop "magic" else
  if ver ≠ 4 then .drop "version" else
  if (len : Int) > MUNGE_MAXIMUM_REQ_LEN then .drop "length" else
  if body.length < len then .drop "incomplete body" else
  if type = 2 then
    match body with
    | c :: mc :: z :: rl :: rest =>
      match takeField rest rl.toNat with
      | none => .drop "unpack"
      | some (realm, rest) =>
        if rest.length < 12 then .drop "unpack" else
        let ttl := rd32 (rest.take 4)
        let au := rd32 ((rest.drop 4).take 4)
        let ag := rd32 ((rest.drop 8).take 4)
        let rest := rest.drop 12
        if rest.length < 4 then .drop "unpack" else
        let dl := rd32 (rest.take 4)
        match takeField (rest.drop 4) dl with
        | none => .drop "unpack"
        | some (data, _) =>
          .enc { type := 2, retry := retry, cipher := c.toNat, mac := mc.toNat, zip := z.toNat,
                 realmLen := rl.toNat, realm := realm, ttl := ttl, authUid := au, authGid := ag,
                 dataLen := dl, data := data }
    | _ => .drop "unpack"
  else if type = 4 then
    if body.length < 4 then .drop "unpack" else
    let dl := rd32 (body.take 4)
    match takeField (body.drop 4) dl with
    | none => .drop "unpack"
    | some (data, _) => .dec { type := 4, retry := retry, dataLen := dl, data := data }
  else if type = 1 then recvHdrBody body
  else .drop "type"

/-! ### randomness: `random_pseudo_bytes` over the scripted stream -/
def rndTake (rnd : Bytes) (pos n : Nat) : Bytes :=
  if rnd.isEmpty then (List.range n).map (fun i => UInt8.ofNat (48 + i))
  else (List.range n).map (fun i => rnd.getD ((pos + i) % rnd.length) 0)

/-- outcome of a parser: a value, an error reply (code, text), or `oob`: the C would have read outside
    the buffer it is parsing.  The parsers below test a bound only where the C tests one; every actual
    access goes through `byteAt` / `takeN`, which yield `oob` when it is out of range. -/
inductive PR (α : Type) where
  | ok (a : α)
  | err (e : Int × String)
  | oob
deriving Repr

def byteAt (b : Bytes) (i : Nat) : Option UInt8 := b[i]?
/-- `memcpy (dst, p, n)` from the cursor: the bytes and the advanced cursor, or none if `n` exceeds what is left -/
def takeN (b : Bytes) (n : Nat) : Option (Bytes × Bytes) := if n ≤ b.length then some (b.take n, b.drop n) else none

/-! ### zip.c on top of the back ends -/
def zipHeader (n : Nat) : Bytes := be32 ZIP_MAGIC.toNat ++ be32 n

/-- `zip_compress_block`: header ‖ back-end output (the back end is never handed an empty block:
    the inner layer always has ≥ 41 bytes) -/
def zipCompress (P : Prims) (t : Nat) (src : Bytes) : Bytes := zipHeader src.length ++ P.deflate t src

/-- `zip_decompress_length`: -1 if shorter than the header or wrong magic, else the stored length as `int` -/
def zipLength (src : Bytes) : Int :=
  if src.length < 8 then -1
  else if rd32 (src.take 4) ≠ ZIP_MAGIC.toNat then -1
  else wrapS32 (rd32 ((src.drop 4).take 4))
/-- the header reads of `zip_decompress_length` stay inside the block whenever it gets past its length test -/
def zipHeaderReadsInBounds (src : Bytes) : Bool := src.length < 8 || (takeN src 8).isSome

/-! ### encode: `enc_process_msg` -/

/-- apply the writes of a translated kernel to the message -/
def applyWrites (m : Msg) (o : KOut) (pfx : String) : Msg :=
  { m with cipher := (o.get (pfx ++ "cipher") m.cipher).toNat, mac := (o.get (pfx ++ "mac") m.mac).toNat,
           zip := (o.get (pfx ++ "zip") m.zip).toNat, ttl := (o.get (pfx ++ "ttl") m.ttl).toNat }

def b2int (b : Bool) : Int := if b then 1 else 0

def encValidate (P : Prims) (cf : Conf) (m : Msg) : KOut :=
  enc_validate_msg m.cipher m.mac m.zip m.dataLen m.ttl cf.defCipher cf.defMac cf.defZip cf.defTtl cf.maxTtl
    (fun c => if P.cipherValid c.toNat then 0 else -1) (fun x => if P.macValid x.toNat then 0 else -1)
    (fun x => P.macLen x.toNat) (fun c => P.keyLen c.toNat) (fun z => b2int (P.zipValid z.toNat))

/-- text of the error raised by `enc_validate_msg` (the kernel gives the code; the texts are format
    strings over the offending values, evaluated on the message as it is at that point) -/
def encValidateText (P : Prims) (m m' : Msg) (code : Int) : String :=
  if code = EMUNGE_BAD_CIPHER then s!"Invalid cipher type {m.cipher}"
  else if code = EMUNGE_BAD_ZIP then s!"Invalid compression type {m.zip}"
  else if ¬ (m.mac = 1) ∧ ¬ P.macValid m.mac then s!"Invalid MAC type {m.mac}"
  else s!"Invalid MAC type {m'.mac} with cipher type {m'.cipher}"

/-- outer layer: version, cipher, mac, zip, realm_len, realm, iv -/
def packOuter (m : Msg) (iv : Bytes) : Bytes :=
  [UInt8.ofNat MUNGE_CRED_VERSION.toNat, UInt8.ofNat m.cipher, UInt8.ofNat m.mac, UInt8.ofNat m.zip,
   UInt8.ofNat m.realmLen] ++ m.realm.take m.realmLen ++ iv

/-- inner layer: salt, addr_len(=4), addr, time0, ttl, uid, gid, auth_uid, auth_gid, data_len, data -/
def packInner (cf : Conf) (m : Msg) (salt : Bytes) : Bytes :=
  salt ++ [4] ++ cf.addr.take 4 ++ be32 m.time0 ++ be32 m.ttl ++ be32 m.clientUid ++ be32 m.clientGid ++
  be32 m.authUid ++ be32 m.authGid ++ be32 m.dataLen ++ m.data.take m.dataLen

def prefixB : Bytes := strBytes PREFIX
def suffixB : Bytes := strBytes SUFFIX

/-- `enc_armor`: prefix, base64 of outer‖mac‖inner by three streaming updates and a final, suffix, NUL -/
def armor (outer mac inner : Bytes) : Bytes :=
  prefixB ++ Base64.encodeChunks [outer, mac, inner] ++ suffixB ++ [0]

/-- result of the encode pipeline: the message as it is sent, and rc -/
def encProcess (P : Prims) (cf : Conf) (env : Env) (m0 : Msg) : Msg × Int :=
  let fail (m : Msg) : Msg × Int := (reset m, -1)
  -- enc_validate_msg
  let v := encValidate P cf m0
  let m := applyWrites m0 v "m."
  if v.ret < 0 then fail (setErr m v.err (some (encValidateText P m0 m v.err))) else
  -- enc_init: salt, iv
  let salt := rndTake env.rnd 0 MUNGE_CRED_SALT_LEN.toNat
  let ivLen := if m.cipher = 0 then 0 else (P.ivLen m.cipher).toNat
  let iv := rndTake env.rnd MUNGE_CRED_SALT_LEN.toNat ivLen
  -- enc_authenticate
  match env.peer with
  | none => fail (setErr m EMUNGE_SNAFU (some "Failed to determine client identity"))
  | some (uid, gid) =>
  let m := { m with clientUid := uid, clientGid := gid }
  -- enc_check_retry
  let r := enc_check_retry m.retry m.clientUid m.clientGid
  if r.ret < 0 then fail (setErr m r.err (some "Exceeded maximum number of encode attempts")) else
  -- enc_timestamp
  if env.now = -1 then fail (setErr m EMUNGE_SNAFU (some "Failed to query current time")) else
  let m := { m with time0 := (wrapU32 env.now).toNat, time1 := 0 }
  -- enc_pack_outer (packed below, after the zip fall-back is known) / enc_pack_inner (addr_len := 4)
  let m := { m with addrLen := 4 }
  let inner := packInner cf m salt
  -- enc_compress: fall back to none when not shorter, patching the zip byte of the outer layer
  let z := if m.zip = 0 then inner else zipCompress P m.zip inner
  let useZip := m.zip ≠ 0 ∧ z.length < inner.length
  let m := if m.zip ≠ 0 ∧ ¬ useZip then { m with zip := 0 } else m
  let outer := packOuter m iv
  let inner := if useZip then z else inner
  -- enc_mac
  let macv := P.mac m.mac cf.macKey (outer ++ inner)
  -- enc_encrypt: DEK = MAC (dek subkey, mac)
  let inner := if m.cipher = 0 then inner else
    let dek := P.mac m.mac cf.dekKey macv
    P.encrypt m.cipher dek iv inner
  -- enc_armor, enc_fini
  let cred := armor outer macv inner
  ({ m with data := cred, dataLen := cred.length }, 0)

/-- Build a credential around ARBITRARY bytes `plain` as the (possibly "compressed") inner layer, with a
    valid MAC and encryption under the daemon's keys: used by the checks to present validly-MAC'd but
    malformed interiors (truncated fields, corrupt zip streams, lying lengths) to the decoder. -/
def forge (P : Prims) (cf : Conf) (c mc z : Nat) (realm iv plain : Bytes) : Bytes :=
  let outer := [UInt8.ofNat MUNGE_CRED_VERSION.toNat, UInt8.ofNat c, UInt8.ofNat mc, UInt8.ofNat z,
                UInt8.ofNat realm.length] ++ realm ++ iv
  let macv := P.mac mc cf.macKey (outer ++ plain)
  let inner := if c = 0 then plain else P.encrypt c (P.mac mc cf.dekKey macv) iv plain
  armor outer macv inner

/-! ### decode: `dec_process_msg` -/

/-- the credential being decoded (`struct munge_cred` scratch) -/
structure Scratch where
  outer : Bytes := []        -- OUTER (after unpack: exactly the outer layer)
  mac : Bytes := []
  inner : Bytes := []
  iv : Bytes := []
  macLen : Nat := 0
deriving Repr

def isSpaceC (c : UInt8) : Bool := c = 9 || c = 10 || c = 11 || c = 12 || c = 13 || c = 32

/-- position of the last occurrence of the suffix character at or before the end (search from the end) -/
def lastIndexOf (b : Bytes) (ch : UInt8) : Option Nat :=
  let idx := (List.range b.length).reverse.find? (fun i => b.getD i 0 == ch)
  idx

/-- `dec_unarmor`: strip leading whitespace, prefix, last suffix; base64-decode -/
def unarmor (m : Msg) : Except (Int × String) Bytes :=
  let d := m.data.take m.dataLen
  let d := d.dropWhile isSpaceC
  if d.isEmpty ∨ d.head? = some 0 then .error (EMUNGE_BAD_ARG, "No credential specified") else
  -- strncmp against the prefix stops at a NUL, so a shorter string cannot match
  if d.take prefixB.length ≠ prefixB then .error (EMUNGE_BAD_CRED, "Failed to match armor prefix") else
  let d := d.drop prefixB.length
  match lastIndexOf d (suffixB.getD 0 58) with
  | none => .error (EMUNGE_BAD_CRED, "Failed to match armor suffix")
  | some k =>
    let r := Base64.decodeBlock (d.take k)
    if r.1 < 0 then .error (EMUNGE_BAD_CRED, "Failed to base64-decode credential") else .ok r.2

/-- `dec_unpack_outer` over the unarmored bytes (`len` = bytes remaining, as in the C) -/
def unpackOuter (P : Prims) (m : Msg) (buf : Bytes) : PR (Msg × Scratch) :=
  -- version
  if 1 > buf.length then .err (EMUNGE_BAD_CRED, "Truncated credential version") else
  match byteAt buf 0 with
  | none => .oob
  | some ver =>
  if (ver.toNat : Int) ≠ MUNGE_CRED_VERSION then .err (EMUNGE_BAD_VERSION, s!"Invalid credential version {ver.toNat}") else
  -- cipher
  if 1 > buf.length - 1 then .err (EMUNGE_BAD_CRED, "Truncated cipher type") else
  match byteAt buf 1 with
  | none => .oob
  | some cb =>
  let c := cb.toNat
  let m := { m with cipher := c }
  if c ≠ 0 ∧ ¬ P.cipherValid c then .err (EMUNGE_BAD_CIPHER, s!"Invalid cipher type {c}") else
  let ivLen : Int := if c = 0 then 0 else P.ivLen c
  if ivLen < 0 then .err (EMUNGE_SNAFU, s!"Failed to determine IV length for cipher type {c}") else
  -- mac
  if 1 > buf.length - 2 then .err (EMUNGE_BAD_CRED, "Truncated MAC type") else
  match byteAt buf 2 with
  | none => .oob
  | some mb =>
  let mc := mb.toNat
  let m := { m with mac := mc }
  if ¬ P.macValid mc then .err (EMUNGE_BAD_MAC, s!"Invalid MAC type {mc}") else
  let macLen := P.macLen mc
  if macLen ≤ 0 then .err (EMUNGE_SNAFU, s!"Failed to determine digest length for MAC type {mc}") else
  if P.macLen mc < P.keyLen c then .err (EMUNGE_BAD_MAC, s!"Invalid MAC type {mc} with cipher type {c}") else
  -- zip
  if 1 > buf.length - 3 then .err (EMUNGE_BAD_CRED, "Truncated compression type") else
  match byteAt buf 3 with
  | none => .oob
  | some zb =>
  let z := zb.toNat
  let m := { m with zip := z }
  if z ≠ 0 ∧ ¬ P.zipValid z then .err (EMUNGE_BAD_ZIP, s!"Invalid compression type {z}") else
  -- realm
  if 1 > buf.length - 4 then .err (EMUNGE_BAD_CRED, "Truncated security realm length") else
  match byteAt buf 4 with
  | none => .oob
  | some rb =>
  let rl := rb.toNat
  let m := { m with realmLen := rl }
  let rest := buf.drop 5
  if rl > 0 ∧ rl > rest.length then .err (EMUNGE_BAD_CRED, "Truncated security realm string") else
  match takeN rest rl with
  | none => .oob
  | some (realm, rest) =>
  -- the realm string is copied and NUL-terminated; realm_len (uint8) becomes rl+1
  let m := if rl > 0 then { m with realm := realm ++ [0], realmLen := (rl + 1) % 256 } else m
  -- iv
  if ivLen > 0 ∧ ivLen > rest.length then .err (EMUNGE_BAD_CRED, "Truncated cipher IV") else
  match takeN rest ivLen.toNat with
  | none => .oob
  | some (iv, rest) =>
  let outerLen := buf.length - rest.length
  -- MAC
  if macLen > rest.length then .err (EMUNGE_BAD_CRED, "Truncated MAC") else
  match takeN rest macLen.toNat with
  | none => .oob
  | some (macv, inner) =>
  .ok (m, { outer := buf.take outerLen, mac := macv, inner := inner, iv := iv, macLen := macLen.toNat })

/-- `dec_decrypt`: returns plaintext (as far as produced) and the message with the deferred error -/
def decDecrypt (P : Prims) (cf : Conf) (m : Msg) (s : Scratch) : Msg × Scratch :=
  if m.cipher = 0 then (m, s) else
  let dek := P.mac m.mac cf.dekKey s.mac
  let r := P.decrypt m.cipher dek s.iv s.inner
  let m := if r.2 then m else setErr m EMUNGE_CRED_INVALID none
  (m, { s with inner := r.1 })

/-- `dec_validate_mac`: recompute over outer ‖ inner, compare `mac_len` bytes -/
def decValidateMac (P : Prims) (cf : Conf) (m : Msg) (s : Scratch) : Except Msg Msg :=
  let macv := P.mac m.mac cf.macKey (s.outer ++ s.inner)
  if macv.length ≠ s.macLen ∨ macv ≠ s.mac then .error (setErr m EMUNGE_CRED_INVALID none)
  else if m.errorNum ≠ 0 then .error m
  else .ok m

/-- `dec_decompress` -/
def decDecompress (P : Prims) (m : Msg) (s : Scratch) : Except (Int × Option String) Scratch :=
  if m.zip = 0 then .ok s else
  let n := zipLength s.inner
  if n ≤ 0 then .error (EMUNGE_SNAFU, some "Failed to decompress credential") else
  -- zip_decompress_block: srclen > 0 holds; the back end gets the bytes after the header
  match P.inflate m.zip (s.inner.drop 8) n.toNat with
  | none => .error (EMUNGE_CRED_INVALID, none)
  | some d => .ok { s with inner := d }

/-- read a big-endian `uint32_t` at the cursor after the C's `n > len` test -/
def take32 (rest : Bytes) (what : String) : PR (Nat × Bytes) :=
  if 4 > rest.length then .err (EMUNGE_BAD_CRED, what) else
  match takeN rest 4 with
  | none => .oob
  | some (v, rest) => .ok (rd32 v, rest)

/-- `dec_unpack_inner` -/
def unpackInner (m : Msg) (buf : Bytes) : PR Msg :=
  let saltLen := MUNGE_CRED_SALT_LEN.toNat
  if saltLen > buf.length then .err (EMUNGE_BAD_CRED, "Truncated salt") else
  match takeN buf saltLen with
  | none => .oob
  | some (_, rest) =>
  if 1 > rest.length then .err (EMUNGE_BAD_CRED, "Truncated origin IP addr length") else
  match byteAt rest 0 with
  | none => .oob
  | some ab =>
  let al := ab.toNat
  let m := { m with addrLen := al }
  let rest := rest.drop 1
  if al > rest.length then .err (EMUNGE_BAD_CRED, "Truncated origin IP addr") else
  if al ≠ 4 ∧ al ≠ 0 then .err (EMUNGE_BAD_CRED, "Invalid origin IP addr length") else
  match takeN rest al with
  | none => .oob
  | some (a, rest) =>
  let m := { m with addr := if al = 4 then a else [0, 0, 0, 0] }
  match take32 rest "Truncated encode time" with
  | .oob => .oob | .err e => .err e
  | .ok (v, rest) =>
  let m := { m with time0 := v }
  match take32 rest "Truncated time-to-live" with
  | .oob => .oob | .err e => .err e
  | .ok (v, rest) =>
  let m := { m with ttl := v }
  match take32 rest "Truncated UID" with
  | .oob => .oob | .err e => .err e
  | .ok (v, rest) =>
  let m := { m with credUid := v }
  match take32 rest "Truncated GID" with
  | .oob => .oob | .err e => .err e
  | .ok (v, rest) =>
  let m := { m with credGid := v }
  match take32 rest "Truncated UID restriction" with
  | .oob => .oob | .err e => .err e
  | .ok (v, rest) =>
  let m := { m with authUid := v }
  match take32 rest "Truncated GID restriction" with
  | .oob => .oob | .err e => .err e
  | .ok (v, rest) =>
  let m := { m with authGid := v }
  match take32 rest "Truncated data length" with
  | .oob => .oob | .err e => .err e
  | .ok (dl, rest) =>
  let m := { m with dataLen := dl }
  if dl > 0 ∧ dl > rest.length then .err (EMUNGE_BAD_CRED, "Truncated data") else
  -- the payload is not copied: `m->data` points into the buffer; the reply later reads `dl` bytes from it.
  -- Trailing bytes after the payload are not rejected (`assert (len == 0)` is compiled out).
  match takeN rest dl with
  | none => .oob
  | some (d, _) => .ok { m with data := d }

/-- the replay cache as the daemon keys it: first 16 MAC bytes and the expiry second -/
abbrev ReplayKey := Bytes × Nat
abbrev ReplaySet := List ReplayKey

def replayKey (m : Msg) (s : Scratch) : ReplayKey := (s.mac.take 16, (m.time0 + m.ttl) % 4294967296)

/-- result of `dec_process_msg` before the send: message, rc, whether this request inserted, new set -/
structure DecOut where
  msg : Msg
  rc : Int
  inserted : Bool
  key : Option ReplayKey
  replay : ReplaySet
  oob : Bool := false        -- the C would have read outside the credential buffer

/-- failure exit of `dec_process_msg`: the message is reset, nothing is recorded -/
def decFail (rs : ReplaySet) (m : Msg) : DecOut :=
  { msg := reset m, rc := -1, inserted := false, key := none, replay := rs }
def decErr (rs : ReplaySet) (m : Msg) (e : Int × String) : DecOut := decFail rs (setErr m e.1 (some e.2))

/-- front part of `dec_process_msg`: validate_msg, timestamp, authenticate, check_retry, unarmor,
    unpack_outer.  Either the final outcome (a failure) or the message and the parsed layers. -/
def decFront (P : Prims) (env : Env) (rs : ReplaySet) (m0 : Msg) : DecOut ⊕ (Msg × Scratch) :=
  -- dec_validate_msg (after unpack the data pointer is non-NULL iff data_len > 0)
  let v := dec_validate_msg m0.dataLen (if m0.dataLen > 0 then 1 else 0)
  if v.ret < 0 then .inl (decErr rs m0 (v.err, "No credential specified in decode request")) else
  -- dec_timestamp
  if env.now = -1 then .inl (decErr rs m0 (EMUNGE_SNAFU, "Failed to query current time")) else
  let m := { m0 with time0 := 0, time1 := (wrapU32 env.now).toNat }
  -- dec_authenticate
  match env.peer with
  | none => .inl (decErr rs m (EMUNGE_SNAFU, "Failed to determine client identity"))
  | some (uid, gid) =>
  let m := { m with clientUid := uid, clientGid := gid }
  -- dec_check_retry
  let r := dec_check_retry m.retry m.clientUid m.clientGid
  if r.ret < 0 then .inl (decErr rs m (r.err, "Exceeded maximum number of decode attempts")) else
  -- dec_unarmor (the request data is released: data := NULL, data_len := 0)
  match unarmor m with
  | .error e => .inl (decErr rs m e)
  | .ok raw =>
  let m := { m with data := [], dataLen := 0 }
  match unpackOuter P m raw with
  | .oob => .inl { (decFail rs m) with oob := true }
  | .err e => .inl (decErr rs m e)          -- fields unpacked before the failing check are wiped by the reset
  | .ok (m, s) => .inr (m, s)

/-- middle part: decrypt, validate_mac, decompress, unpack_inner -/
def decMid (P : Prims) (cf : Conf) (rs : ReplaySet) (m : Msg) (s : Scratch) : DecOut ⊕ (Msg × Scratch) :=
  let (m, s) := decDecrypt P cf m s
  match decValidateMac P cf m s with
  | .error m => .inl (decFail rs m)
  | .ok m =>
  match decDecompress P m s with
  | .error e => .inl (decFail rs (setErr m e.1 e.2))
  | .ok s =>
  match unpackInner m s.inner with
  | .oob => .inl { (decFail rs m) with oob := true }
  | .err e => .inl (decErr rs m e)
  | .ok m => .inr (m, s)

/-- tail: validate_auth, validate_time, validate_replay (the translated kernels) -/
def decTail (cf : Conf) (env : Env) (rs : ReplaySet) (m : Msg) (s : Scratch) : DecOut :=
  -- dec_validate_auth
  let a := dec_validate_auth m.authUid m.authGid m.clientUid m.clientGid (b2int cf.gotRootAuth)
            (fun u g => b2int (env.member u.toNat g.toNat))
  if a.ret < 0 then
    decErr rs m (a.err, s!"Unauthorized credential for client UID={m.clientUid} GID={m.clientGid}") else
  -- dec_validate_time (soft errors: no reset)
  let t := dec_validate_time m.ttl m.time0 m.time1 cf.maxTtl (b2int cf.gotClockSkew)
  let m := { m with ttl := (t.get "c.msg.ttl" m.ttl).toNat }
  if t.ret < 0 then { msg := setErr m t.err none, rc := -1, inserted := false, key := none, replay := rs } else
  -- dec_validate_replay
  let key := replayKey m s
  let present := rs.contains key
  let ins : Int := if present then 1 else 0
  let rs' := if present then rs else key :: rs
  let rp := dec_validate_replay m.retry (b2int cf.gotSocketRetry) 0 m.clientUid m.clientGid ins
  if rp.ret < 0 then { msg := setErr m rp.err none, rc := -1, inserted := false, key := some key, replay := rs' }
  else { msg := m, rc := 0, inserted := ¬ present, key := some key, replay := rs' }

def decProcess (P : Prims) (cf : Conf) (env : Env) (rs : ReplaySet) (m0 : Msg) : DecOut :=
  match decFront P env rs m0 with
  | .inl o => o
  | .inr (m, s) =>
    match decMid P cf rs m s with
    | .inl o => o
    | .inr (m, s) => decTail cf env rs m s

/-! ### `_job_exec`: one whole transaction -/

/-- what the client end receives (`none` = connection closed without a reply), and the new cache.
    `sendOk = false`: the reply cannot be delivered; a successful decode that itself inserted the
    replay record then withdraws it (`replay_remove`). -/
def jobExec (P : Prims) (cf : Conf) (env : Env) (rs : ReplaySet) (req : Bytes) (sendOk : Bool) :
    Option Bytes × ReplaySet :=
  match recvMsg req with
  | .drop _ => (none, rs)
  | .enc m =>
    let (m', _) := encProcess P cf env m
    (if sendOk then some (encRsp m') else none, rs)
  | .dec m =>
    let o := decProcess P cf env rs m
    if sendOk then (some (decRsp o.msg), o.replay)
    else
      let rs' := if o.rc = 0 ∧ o.inserted then (match o.key with | some k => o.replay.erase k | none => o.replay) else o.replay
      (none, rs')

/-- `replay_purge` at time `now` -/
def purge (rs : ReplaySet) (now : Int) : ReplaySet := rs.filter (fun k => ¬ ((k.2 : Int) < now))

end Munge.Cred
