import Munge.Model.Cred
/-
`Sys` — the daemon at request granularity (C11): m in-flight requests, each with a private record
and a program counter over atomic steps, over one shared state.

  recv ; (private: enc_validate_msg | dec front + middle stages)
       ; encode:  salt draw ; iv draw (+ all remaining private stages)
       ; decode:  gids lookup ; replay insert (= `Cred.decTail`: auth, time window, replay_insert)
       ; send ok / fail ; (replay_remove  if the send failed ∧ rc = 0 ∧ this request inserted)

* Everything a step computes is `Cred.recvMsg / encValidate / encProcess / decFront / decMid / decTail /
  encRsp / decRsp`: the pipeline is not re-modelled here.
* The ONLY places where a step reads or writes `Shared` are the ones the generator finds in the source
  (`Munge.Gen.Sys.sharedCalls`): `random_pseudo_bytes` (salt, iv), `gids_is_member`, `replay_insert`,
  `replay_remove` (`random_add` and `log_msg` have no effect the model can express: entropy stirring, log lines).
* The timer thread appears as two environment actions: `swap` (a refreshed gid map is installed) and
  `purge now` (`replay_purge`).
* `State.obs`, `State.lin`, `State.answers` are history ("ghost") variables: they record what each request
  read from the shared state and the order of the linearisation points.  No step reads them.

What the model cannot exhibit: data races, static buffers, non-reentrant libc calls — those live in the C and
are looked for with ThreadSanitizer and the per-client oracle of tools/props/c11.py.
-/
namespace Munge.Sys
open Munge.Cred Munge.Gen.Dec

/-- what is fixed after start-up: primitives, configuration (keys), the successive gid maps the timer
    thread installs (version ↦ uid ↦ gid ↦ member) and the PRNG output stream -/
structure World where
  P : Prims
  cf : Conf
  gidMaps : Nat → Nat → Nat → Bool
  stream : Nat → UInt8

/-- one client's request: its bytes, the identity the kernel reports for ITS socket, ITS clock read
    (`time()` in enc_timestamp / dec_timestamp), and whether ITS connection still accepts the reply -/
structure Req where
  bytes : Bytes
  peer : Option (Nat × Nat)
  now : Int
  sendOk : Bool := true

/-- the state shared between worker threads (and the timer thread) -/
structure Shared where
  replay : ReplaySet := []
  gidVer : Nat := 0
  rndPos : Nat := 0

/-- the atomic steps of a request, in program order -/
inductive Step where
  | recv | lookup | salt | iv | insert | send | remove
deriving DecidableEq, Repr

/-- private record + program counter of one in-flight request -/
inductive Local where
  /-- nothing received yet -/
  | start
  /-- ENC_REQ received and validated; `ivLen` bytes of IV will be needed -/
  | encV (m : Msg) (ivLen : Nat)
  /-- salt drawn -/
  | encSalt (m : Msg) (ivLen : Nat) (salt : Bytes)
  /-- DEC_REQ received; front and middle stages passed (message + parsed layers) -/
  | dec (m : Msg) (s : Scratch)
  /-- membership answer obtained -/
  | decAns (m : Msg) (s : Scratch) (ans : Bool)
  /-- reply built; `undo` = the replay record this request inserted (to withdraw if the send fails) -/
  | ready (rsp : Bytes) (undo : Option ReplayKey)
  /-- the send failed and a record is to be withdrawn -/
  | unsent (k : ReplayKey)
  /-- finished: what the client received -/
  | done (out : Option Bytes)

def saltLen : Nat := MUNGE_CRED_SALT_LEN.toNat

/-- `random_pseudo_bytes (buf, n)` at stream position `pos` -/
def draw (W : World) (pos n : Nat) : Bytes := (List.range n).map (fun i => W.stream (pos + i))

/-- the environment `Cred` sees for request `r`: its own clock and peer, the bytes it drew, the
    membership answer it got -/
def envOf (r : Req) (rnd : Bytes) (ans : Bool) : Env :=
  { now := r.now, peer := r.peer, rnd := rnd, member := fun _ _ => ans }

/-- does `enc_validate_msg` pass, and how many IV bytes will `enc_init` draw -/
def encPlan (W : World) (m : Msg) : Option Nat :=
  let v := encValidate W.P W.cf m
  if v.ret < 0 then none else
  let m' := applyWrites m v "m."
  some (if m'.cipher = 0 then 0 else (W.P.ivLen m'.cipher).toNat)

def stepOf : Local → Option Step
  | .start => some .recv
  | .encV _ _ => some .salt
  | .encSalt _ _ _ => some .iv
  | .dec _ _ => some .lookup
  | .decAns _ _ _ => some .insert
  | .ready _ _ => some .send
  | .unsent _ => some .remove
  | .done _ => none

/-- a request that has not yet reached its linearisation point -/
def isPre : Local → Bool
  | .start | .encV _ _ | .encSalt _ _ _ | .dec _ _ | .decAns _ _ _ => true
  | _ => false

/-- one atomic step of request `r` in local state `l` over the shared state -/
def advance (W : World) (r : Req) (l : Local) (sh : Shared) : Local × Shared :=
  match l with
  | .start =>
    match recvMsg r.bytes with
    | .drop _ => (.done none, sh)
    | .enc m =>
      match encPlan W m with
      | none => (.ready (encRsp (encProcess W.P W.cf (envOf r [] false) m).1) none, sh)
      | some n => (.encV m n, sh)
    | .dec m =>
      match decFront W.P (envOf r [] false) [] m with
      | .inl o => (.ready (decRsp o.msg) none, sh)
      | .inr (m1, s1) =>
        match decMid W.P W.cf [] m1 s1 with
        | .inl o => (.ready (decRsp o.msg) none, sh)
        | .inr (m2, s2) => (.dec m2 s2, sh)
  | .encV m n =>
    (.encSalt m n (draw W sh.rndPos saltLen), { sh with rndPos := sh.rndPos + saltLen })
  | .encSalt m n salt =>
    (.ready (encRsp (encProcess W.P W.cf (envOf r (salt ++ draw W sh.rndPos n) false) m).1) none,
     { sh with rndPos := sh.rndPos + n })
  | .dec m s => (.decAns m s (W.gidMaps sh.gidVer m.clientUid m.authGid), sh)
  | .decAns m s ans =>
    let o := decTail W.cf (envOf r [] ans) sh.replay m s
    (.ready (decRsp o.msg) (if o.rc = 0 ∧ o.inserted then o.key else none), { sh with replay := o.replay })
  | .ready rsp undo =>
    if r.sendOk then (.done (some rsp), sh)
    else match undo with
      | some k => (.unsent k, sh)
      | none => (.done none, sh)
  | .unsent k => (.done none, { sh with replay := sh.replay.erase k })
  | .done o => (.done o, sh)

/-! ### history variables -/

/-- what a step read from the shared state -/
inductive Obs where
  | priv
  | member (b : Bool)
  | bytes (b : Bytes)
  | present (b : Bool)
deriving DecidableEq, Repr

/-- the observation the next step of `r` makes on `sh`: drawn bytes, the membership answer, whether its own
    replay key is present (when its tail gets as far as `replay_insert`); nothing otherwise -/
def observe (W : World) (r : Req) (l : Local) (sh : Shared) : Obs :=
  match l with
  | .encV _ _ => .bytes (draw W sh.rndPos saltLen)
  | .encSalt _ n _ => .bytes (draw W sh.rndPos n)
  | .dec m _ => .member (W.gidMaps sh.gidVer m.clientUid m.authGid)
  | .decAns m s ans =>
    match (decTail W.cf (envOf r [] ans) [] m s).key with
    | some k => .present (sh.replay.contains k)
    | none => .priv
  | _ => .priv

/-- items of the linearisation order: a request (with the membership answer and the PRNG bytes it
    obtained), a purge by the timer thread, the withdrawal of a record after a failed send -/
inductive LinItem where
  | req (i : Nat) (ans : Bool) (drawn : Bytes)
  | purge (now : Int)
  | undo (k : ReplayKey)
deriving DecidableEq, Repr

def LinItem.isUndo : LinItem → Bool
  | .undo _ => true
  | _ => false

def LinItem.isReq (i : Nat) : LinItem → Bool
  | .req j _ _ => j == i
  | _ => false

/-- the item(s) a step contributes: a request is linearised at the step that completes its reply
    (for a decode that reaches it: the replay-insert step) -/
def linOf (W : World) (i : Nat) (l l' : Local) (sh : Shared) : List LinItem :=
  match l with
  | .start => if isPre l' then [] else [.req i false []]
  | .encSalt _ n salt => [.req i false (salt ++ draw W sh.rndPos n)]
  | .decAns _ _ ans => [.req i ans []]
  | .unsent k => [.undo k]
  | _ => []

def ansOf (i : Nat) (l l' : Local) : List (Nat × Bytes) :=
  if isPre l then (match l' with | .ready rsp _ => [(i, rsp)] | _ => []) else []

def upd {α : Type} (f : Nat → α) (i : Nat) (v : α) : Nat → α := fun j => if j = i then v else f j

structure State where
  locals : Nat → Local := fun _ => .start
  sh : Shared := {}
  /-- ghost: per request, what each of its executed steps observed (newest first) -/
  obs : Nat → List Obs := fun _ => []
  /-- ghost: linearisation order (chronological) -/
  lin : List LinItem := []
  /-- ghost: replies in the order in which they were completed -/
  answers : List (Nat × Bytes) := []

/-- a schedule entry: step `s` of request `i` (skipped when it is not `i`'s next step), or an action of
    the timer thread -/
inductive Act where
  | req (i : Nat) (s : Step)
  | swap
  | purge (now : Int)
deriving DecidableEq, Repr

/-- the state after request `i` (= `r`) takes its next step -/
def stepState (W : World) (r : Req) (i : Nat) (σ : State) : State :=
  { locals := upd σ.locals i (advance W r (σ.locals i) σ.sh).1,
    sh := (advance W r (σ.locals i) σ.sh).2,
    obs := upd σ.obs i (observe W r (σ.locals i) σ.sh :: σ.obs i),
    lin := σ.lin ++ linOf W i (σ.locals i) (advance W r (σ.locals i) σ.sh).1 σ.sh,
    answers := σ.answers ++ ansOf i (σ.locals i) (advance W r (σ.locals i) σ.sh).1 }

def fire (W : World) (reqs : List Req) (σ : State) : Act → State
  | .swap => { σ with sh := { σ.sh with gidVer := σ.sh.gidVer + 1 } }
  | .purge now => { σ with sh := { σ.sh with replay := purge σ.sh.replay now }, lin := σ.lin ++ [.purge now] }
  | .req i s =>
    match reqs[i]? with
    | none => σ
    | some r => if stepOf (σ.locals i) = some s then stepState W r i σ else σ

def initState (rs0 : ReplaySet) : State := { sh := { replay := rs0 } }

/-- the run of a schedule -/
def run (W : World) (reqs : List Req) (σ : State) (sched : List Act) : State := sched.foldl (fire W reqs) σ

/-- what client `i` has received (`none`: nothing, or not finished) -/
def outOf (σ : State) (i : Nat) : Option Bytes :=
  match σ.locals i with
  | .done o => o
  | _ => none

def finished (σ : State) (i : Nat) : Bool :=
  match σ.locals i with
  | .done _ => true
  | _ => false

/-! ### the sequential reference: whole transactions (`Cred.jobExec`), one after the other -/

/-- one item of a sequential execution.  `deliver r` says whether request `r`'s reply is deliverable in
    that execution. -/
def seqItem (W : World) (reqs : List Req) (deliver : Req → Bool) (acc : ReplaySet × List (Nat × Bytes)) :
    LinItem → ReplaySet × List (Nat × Bytes)
  | .req i ans drawn =>
    match reqs[i]? with
    | none => acc
    | some r =>
      let x := jobExec W.P W.cf (envOf r drawn ans) acc.1 r.bytes (deliver r)
      (x.2, match x.1 with | some b => acc.2 ++ [(i, b)] | none => acc.2)
  | .purge now => (purge acc.1 now, acc.2)
  | .undo k => (acc.1.erase k, acc.2)

/-- sequential execution of `order` from replay set `rs0`: final replay set and the replies (request, bytes)
    in order -/
def seqRun (W : World) (reqs : List Req) (deliver : Req → Bool) (rs0 : ReplaySet) (order : List LinItem) :
    ReplaySet × List (Nat × Bytes) :=
  order.foldl (seqItem W reqs deliver) (rs0, [])

/-- the sequential reference in which every reply is deliverable -/
def allDeliver : Req → Bool := fun _ => true

/-- number of times request `i` occurs in an order -/
def countReq (i : Nat) (lin : List LinItem) : Nat := (lin.filter (LinItem.isReq i)).length

/-- the C functions through which a step reaches the shared state -/
def stepCalls : Step → List String
  | .recv => []
  | .lookup => ["gids_is_member"]
  | .salt => ["random_pseudo_bytes"]
  | .iv => ["random_pseudo_bytes"]
  | .insert => ["replay_insert"]
  | .send => []
  | .remove => ["replay_remove"]

def allSteps : List Step := [.recv, .lookup, .salt, .iv, .insert, .send, .remove]

/-- shared-state calls of the request path without an effect the model can express: log lines, and
    `random_add` (the decoder stirs a valid credential's salt into the PRNG's entropy pool) -/
def noEffectCalls : List String := ["log_msg", "random_add"]

/-- the full program of one request (every step name in program order; steps that do not apply are skipped) -/
def program (i : Nat) : List Act :=
  [.req i .recv, .req i .lookup, .req i .salt, .req i .iv, .req i .insert, .req i .send, .req i .remove]

end Munge.Sys
