import Munge.Gen.Wire
/-
Hand-written executable model of the client–daemon message codec
(`src/libcommon/m_msg.c`): generic interpreters for `_msg_length`, `_msg_pack`,
`_msg_unpack` over the field-descriptor lists of `Munge.Gen.Wire` (regenerated
from the C source on every run), plus `m_msg_recv`, `m_msg_send`,
`m_msg_set_err`, `m_msg_reset`.

The helpers `_pack/_unpack/_alloc/_copy` are mirrored statement by statement:
lengths travel as C `int` (a `uint32_t` length ≥ 2^31 is negative there),
`len == 0` is a no-op, `_alloc` makes a block of `len + 1` bytes, nothing checks
that the cursor reached the end of the packet (`assert` is compiled out).

The unpack interpreter does NOT guard its accesses: every step appends the source
range it read to `reads` and `(destination, bytes written, destination capacity)`
to `writes`; `oob` is computed from these logs.  A bounds test happens only where
the C has one: inside `_unpack`/`_copy` (against the end of the packet) and
wherever the descriptor list contains a `guard`.
-/
namespace Munge.Wire
open Munge.Gen.Wire Munge.C

/-! ### the message object -/

/-- `struct m_msg`, keyed by C member name.  `int`: integer members (and the two header locals
    `local.magic`, `local.version`); `buf`: pointer members (`none` = NULL, `some d` = a block
    whose first bytes are `d`); `fix`: in-struct byte members (`addr`). -/
structure Msg where
  int : String → Nat
  buf : String → Option (List UInt8)
  fix : String → List UInt8

def Msg.setInt (m : Msg) (f : String) (v : Nat) : Msg :=
  { m with int := fun k => if k = f then v else m.int k }
def Msg.setBuf (m : Msg) (f : String) (v : Option (List UInt8)) : Msg :=
  { m with buf := fun k => if k = f then v else m.buf k }
def Msg.setFix (m : Msg) (f : String) (v : List UInt8) : Msg :=
  { m with fix := fun k => if k = f then v else m.fix k }

/-- `m_msg_create`: `calloc`, `sd = -1` (as an unsigned value), `type = MUNGE_MSG_UNDEF` -/
def Msg.fresh : Msg :=
  { int := fun k => if k = "sd" then 4294967295 else 0
    buf := fun _ => none
    fix := fun k => List.replicate (((fixMembers.find? (·.1 == k)).map (·.2)).getD 0) 0 }

/-- the bytes a `_copy` out of member `f` reads -/
def Msg.bytesOf (m : Msg) (f : String) : Dest → List UInt8
  | .heap => (m.buf f).getD []
  | .fixed _ => m.fix f

/-! ### integers on the wire (MSBF) -/

/-- `w` bytes, most significant first, of `v mod 256^w` (`htons`/`htonl` + `memcpy`) -/
def beBytes : Nat → Nat → List UInt8
  | 0, _ => []
  | w + 1, v => beBytes w (v / 256) ++ [UInt8.ofNat (v % 256)]

/-- value of a most-significant-first byte string (`memcpy` + `ntohs`/`ntohl`) -/
def beVal (bs : List UInt8) : Nat := bs.foldl (fun a b => a * 256 + b.toNat) 0

/-- a member passed as an `int` argument -/
def cInt (v : Nat) : Int := wrapS32 (v : Int)

/-- a comparison at type `int` -/
def Cmp.evalInt : Cmp → Int → Int → Bool
  | .lt, a, b => decide (a < b)
  | .le, a, b => decide (a ≤ b)
  | .gt, a, b => decide (a > b)
  | .ge, a, b => decide (a ≥ b)
  | .eq, a, b => decide (a = b)
  | .ne, a, b => decide (a ≠ b)

/-- the widths `_pack`/`_unpack` have a `case` for -/
def okWidth (w : Nat) : Bool := w == 1 || w == 2 || w == 4

/-- outcome of a chain: fell through to `break`, left via `goto err`, left via `goto nomem` -/
inductive Rc
  | ok | err | nomem
deriving DecidableEq, Repr

def lookup (tab : List (Nat × List Fld)) (t : Nat) : Option (List Fld) :=
  (tab.find? (fun e => e.1 == t)).map (·.2)

/-! ### `_msg_length` -/

/-- the `n += …` statements; `n` is an `int` -/
def lengthRun (m : Msg) : List Fld → Int → Int
  | [], n => n
  | .int _ w :: fs, n => lengthRun m fs (wrapS32 (n + w))
  | .var l :: fs, n => lengthRun m fs (wrapS32 (n + m.int l))
  | _ :: fs, n => lengthRun m fs n

def length (t : Nat) (m : Msg) : Int :=
  match lookup lengthTable t with
  | none => lengthDefault
  | some fl => lengthRun m fl 0

/-! ### `_msg_pack` -/

/-- one link of a pack chain; the cursor is `out.length`, `q - dst` is `dstlen` -/
def pstep (dstlen : Int) (m : Msg) (out : List UInt8) : Fld → Rc × List UInt8
  | .int f w =>
      if (out.length : Int) + w > dstlen then (.err, out)
      else if !okWidth w then (.err, out)
      else (.ok, out ++ beBytes w (m.int f))
  | .bytes f l d =>
      let len := cInt (m.int l)
      if len < 0 then (.err, out)
      else if len = 0 then (.ok, out)
      else if (out.length : Int) + len > dstlen then (.err, out)
      else (.ok, out ++ (m.bytesOf f d).take len.toNat)
  | .guard l c k => if c.eval (m.int l) k then (.err, out) else (.ok, out)
  | .alloc _ _ => (.err, out)
  | .var _ => (.err, out)

def prun (dstlen : Int) (m : Msg) : List Fld → List UInt8 → Rc × List UInt8
  | [], out => (.ok, out)
  | f :: fs, out =>
      match pstep dstlen m out f with
      | (.ok, out') => prun dstlen m fs out'
      | r => r

/-- the header locals as `_msg_pack` initialises them -/
def withLocals (m : Msg) : Msg := packInits.foldl (fun m e => m.setInt e.1 e.2) m

/-! ### `m_msg_set_err`, `m_msg_reset` -/

/-- `strlen` -/
def cstr (s : List UInt8) : List UInt8 := s.takeWhile (· ≠ 0)

def strerror (e : Nat) : List UInt8 := strerrorTab.getD e []

/-- `m_msg_set_err (m, e, s)`: the first error wins; always returns -1.  `s = none` is a NULL
    string (then `munge_strerror (e)` is used).  `error_len` is a `uint8_t`. -/
def setErr (m : Msg) (e : Nat) (s : Option (List UInt8)) : Msg × Int :=
  if m.int "error_num" = EMUNGE_SUCCESS ∧ e ≠ EMUNGE_SUCCESS then
    let str := cstr (match s with | some s => s | none => strerror e)
    ((((m.setInt "error_num" (e % 256)).setBuf "error_str" (some (str ++ [0]))).setInt "error_len"
        ((str.length + 1) % 256)), -1)
  else (m, -1)

def ptrVal (m : Msg) (f : String) : Int := if (m.buf f).isSome then 1 else 0

/-- apply one write `m.<member> = v` of a translated kernel -/
def applyWrite (m : Msg) (w : String × Int) : Msg :=
  let name := String.ofList (w.1.toList.drop 2)
  if ptrMembers.contains name then (if w.2 = 0 then m.setBuf name none else m)
  else m.setInt name w.2.toNat

/-- `m_msg_reset`: the writes of the kernel translated from the C source -/
def reset (m : Msg) : Msg :=
  (m_msg_reset (ptrVal m "realm_str") (m.int "realm_is_copy") (ptrVal m "data") (m.int "data_is_copy")).writes.foldl
    applyWrite m

/-- text of the `strdupf` in the `err` exits (only its presence matters to C14) -/
def failText (what : String) (t : Nat) : List UInt8 :=
  (s!"Failed to {what} message type {t}").toUTF8.toList

/-- `_msg_pack (m, type, dst, dstlen)`: return code, message (error set on failure), bytes written -/
def pack (t : Nat) (m : Msg) (dstlen : Int) : Nat × Msg × List UInt8 :=
  match lookup packTable t with
  | none => (packErr.2, (setErr m packErr.1 (some (failText "pack" t))).1, [])
  | some fl =>
      match prun dstlen (withLocals m) fl [] with
      | (.ok, out) => (packOk, m, out)
      | (_, out) => (packErr.2, (setErr m packErr.1 (some (failText "pack" t))).1, out)

/-! ### `_msg_unpack` -/

/-- state of an unpack chain -/
structure USt where
  m : Msg
  /-- cursor `p - src` -/
  p : Nat
  /-- size of the heap block behind each pointer member (0 = not allocated by this call) -/
  caps : String → Nat
  /-- source ranges read: (start, length) -/
  reads : List (Nat × Nat)
  /-- variable-length writes: (destination member, bytes written, destination capacity) -/
  writes : List (String × Nat × Nat)
  /-- `malloc`s: (member, size) -/
  allocs : List (String × Nat)

/-- one link of an unpack chain over the packet `src`; `q - src` is `srclen`; `mok n` says whether
    `malloc (n)` succeeds (arbitrary: the theorems quantify over it) -/
def ustep (mok : Nat → Bool) (src : List UInt8) (srclen : Int) (st : USt) : Fld → Rc × USt
  | .int f w =>
      if (st.p : Int) + w > srclen then (.err, st)
      else if !okWidth w then (.err, st)
      else (.ok, { st with m := st.m.setInt f (beVal ((src.drop st.p).take w)),
                           p := st.p + w, reads := st.reads ++ [(st.p, w)] })
  | .alloc f l =>
      let len := cInt (st.m.int l)
      if len = 0 then (.ok, st)
      else if len < 0 then (.nomem, st)
      else if !mok (len.toNat + 1) then (.nomem, st)
      else (.ok, { st with m := st.m.setBuf f (some []),
                           caps := fun k => if k = f then len.toNat + 1 else st.caps k,
                           allocs := st.allocs ++ [(f, len.toNat + 1)] })
  | .bytes f l d =>
      let len := cInt (st.m.int l)
      if len < 0 then (.err, st)
      else if len = 0 then (.ok, st)
      else if (st.p : Int) + len > srclen then (.err, st)
      else
        let n := len.toNat
        let data := (src.drop st.p).take n
        match d with
        | .heap => (.ok, { st with m := st.m.setBuf f (some data), p := st.p + n,
                                   reads := st.reads ++ [(st.p, n)],
                                   writes := st.writes ++ [(f, n, st.caps f)] })
        | .fixed cap => (.ok, { st with m := st.m.setFix f (data ++ (st.m.fix f).drop n), p := st.p + n,
                                        reads := st.reads ++ [(st.p, n)],
                                        writes := st.writes ++ [(f, n, cap)] })
  | .guard l c k => if c.eval (st.m.int l) k then (.err, st) else (.ok, st)
  | .var _ => (.err, st)

def urun (mok : Nat → Bool) (src : List UInt8) (srclen : Int) : List Fld → USt → Rc × USt
  | [], st => (.ok, st)
  | f :: fs, st =>
      match ustep mok src srclen st f with
      | (.ok, st') => urun mok src srclen fs st'
      | r => r

def USt.init (m : Msg) : USt :=
  { m := m, p := 0, caps := fun _ => 0, reads := [], writes := [], allocs := [] }

/-- some access of the chain left the packet (of `n` bytes) or its destination -/
def USt.oob (st : USt) (n : Nat) : Bool :=
  st.reads.any (fun r => decide (r.1 + r.2 > n)) || st.writes.any (fun w => decide (w.2.1 > w.2.2))

/-- the `if (type == MUNGE_MSG_HDR)` block after the switch: first failing check, if any -/
def postFail (m : Msg) : List (String × Nat × Nat × Nat) → Option (Nat × Nat)
  | [] => none
  | (l, v, e, r) :: cs => if m.int l ≠ v then some (e, r) else postFail m cs

/-- `_msg_unpack (m, type, src, srclen)`: return code and final chain state (message inside) -/
def unpack (mok : Nat → Bool) (t : Nat) (m : Msg) (src : List UInt8) (srclen : Int) : Nat × USt :=
  let st0 := USt.init m
  match lookup unpackTable t with
  | none => (unpackErr.2, { st0 with m := (setErr m unpackErr.1 (some (failText "unpack" t))).1 })
  | some fl =>
      match urun mok src srclen fl st0 with
      | (.ok, st) =>
          if t = postCheckType then
            match postFail st.m postChecks with
            | some (e, r) => (r, { st with m := (setErr st.m e (some (failText "validate" t))).1 })
            | none => (unpackOk, st)
          else (unpackOk, st)
      | (.err, st) => (unpackErr.2, { st with m := (setErr st.m unpackErr.1 (some (failText "unpack" t))).1 })
      | (.nomem, st) => (unpackNomem.2, { st with m := (setErr st.m unpackNomem.1 none).1 })

/-! ### `m_msg_recv`, `m_msg_send` -/

def chainExit (tag : String) : Nat × Nat :=
  ((recvChain.find? (·.1 == tag)).map (·.2)).getD (EMUNGE_SNAFU, EMUNGE_SNAFU)

structure RecvOut where
  rc : Nat
  m : Msg
  /-- bytes taken from the socket -/
  consumed : Nat
  /-- `malloc (m->pkt_len)` calls made (sizes) -/
  pktAllocs : List Nat
  /-- `m->pkt` still set on return -/
  pktSet : Bool
  /-- chain state of the body unpack, if it ran -/
  body : Option USt

/-- `m_msg_recv (m, type, maxlen)` reading from a socket that delivers `s` and then end-of-file
    (read errors and time-outs do not occur in this environment). -/
def recv (mok : Nat → Bool) (m : Msg) (type : Nat) (maxlen : Int) (s : List UInt8) : RecvOut :=
  let fail (tag : String) (m : Msg) (consumed : Nat) (allocs : List Nat) (body : Option USt) : RecvOut :=
    { rc := (chainExit tag).2, m := (setErr m (chainExit tag).1 (some (failText tag 0))).1,
      consumed := consumed, pktAllocs := allocs, pktSet := !allocs.isEmpty, body := body }
  let hdr := s.take recvHdrLen
  if hdr.length ≠ recvHdrLen then fail "short_hdr" m hdr.length [] none
  else
    let (rc, st) := unpack mok MUNGE_MSG_HDR m hdr recvHdrLen
    let m := st.m
    if rc ≠ EMUNGE_SUCCESS then fail "unpack_hdr" m recvHdrLen [] none
    else if type ≠ MUNGE_MSG_UNDEF ∧ m.int "type" ≠ type then fail "type_check" m recvHdrLen [] none
    else if recvGate maxlen (m.int "pkt_len") then fail "gate" m recvHdrLen [] none
    else
      let n := m.int "pkt_len"
      let bodyBytes := (s.drop recvHdrLen).take n
      if !mok n then fail "malloc" m recvHdrLen [] none
      else if bodyBytes.length ≠ n then fail "short_body" m (recvHdrLen + bodyBytes.length) [n] none
      else
        let (rc, st) := unpack mok (m.int "type") m bodyBytes (cInt n)
        if rc ≠ EMUNGE_SUCCESS then fail "unpack_body" st.m (recvHdrLen + n) [n] (some st)
        else { rc := recvOk, m := st.m.setInt "pkt_len" 0, consumed := recvHdrLen + n, pktAllocs := [n],
               pktSet := false, body := some st }

/-- `m_msg_send (m, type, maxlen)` for a message with no packed body yet (`m->pkt == NULL`):
    return code, message, bytes written to the socket -/
def send (mok : Nat → Bool) (m : Msg) (t : Nat) (maxlen : Int) : Nat × Msg × List UInt8 :=
  let n := length t m
  if sendLenTest.1.evalInt n sendLenTest.2 then
    (EMUNGE_SNAFU, (setErr m EMUNGE_NO_MEMORY (some (failText "length" t))).1, [])
  else if !mok n.toNat then
    (EMUNGE_NO_MEMORY, (setErr m EMUNGE_NO_MEMORY (some (failText "allocate" t))).1, [])
  else
    let m := (m.setInt "pkt_len" n.toNat).setInt "type" t
    let (e, m, body) := pack t m n
    if e ≠ EMUNGE_SUCCESS then (e, (setErr m e (some (failText "pack body" t))).1, [])
    else if sendGate maxlen (m.int "pkt_len") then
      (sendGateExit.2, (setErr m sendGateExit.1 (some (failText "send" t))).1, [])
    else
      let (e, m, hdr) := pack MUNGE_MSG_HDR m HDR_SIZE
      if e ≠ EMUNGE_SUCCESS then (e, (setErr m e (some (failText "pack header" t))).1, [])
      else (EMUNGE_SUCCESS, m, hdr ++ body)

end Munge.Wire
