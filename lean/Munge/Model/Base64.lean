import Munge.Gen.Base64
/-
Hand-written executable model of `src/munged/base64.c`.  The two tables, the
class constants and the length formulas come from `Munge.Gen.Base64`, which is
regenerated from the C source on every run.  Everything else mirrors the C
statement by statement; in particular the model records how many bytes each
routine *writes* into its destination (including the terminating NUL and the
partially assembled byte the decoder stores at `*pdst`), so that the
destination-bound theorems speak about what the C code really touches.
-/
namespace Munge.Base64
open Munge.Gen.Base64

/-- `bin2asc[i]` -/
def b2a (i : UInt8) : UInt8 := bin2asc.getD i.toNat 0
/-- `asc2bin[c]` -/
def a2b (c : UInt8) : UInt8 := asc2bin.getD c.toNat ERR

/-- the four sextet expressions of `base64_encode_block` -/
def sx0 (a : UInt8) : UInt8 := (a >>> (2 : UInt8)) &&& 0x3f
def sx1 (a b : UInt8) : UInt8 := ((a <<< (4 : UInt8)) &&& 0x30) ||| ((b >>> (4 : UInt8)) &&& 0x0f)
def sx2 (b c : UInt8) : UInt8 := ((b <<< (2 : UInt8)) &&& 0x3c) ||| ((c >>> (6 : UInt8)) &&& 0x03)
def sx3 (c : UInt8) : UInt8 := c &&& 0x3f
/-- the tail expressions used for a 2-byte and a 1-byte remainder -/
def sx2' (b : UInt8) : UInt8 := (b <<< (2 : UInt8)) &&& 0x3c
def sx1' (a : UInt8) : UInt8 := (a <<< (4 : UInt8)) &&& 0x30

/-- `base64_encode_block`: output characters (the C also writes a NUL after them). -/
def encodeBlock : List UInt8 → List UInt8
  | a :: b :: c :: rest =>
      b2a (sx0 a) :: b2a (sx1 a b) :: b2a (sx2 b c) :: b2a (sx3 c) :: encodeBlock rest
  | [a, b] => [b2a (sx0 a), b2a (sx1 a b), b2a (sx2' b), PADCHAR]
  | [a] => [b2a (sx0 a), b2a (sx1' a), PADCHAR, PADCHAR]
  | [] => []

/-- bytes of the destination written by `base64_encode_block` (characters + NUL) -/
def encodeBlockWritten (src : List UInt8) : Nat := (encodeBlock src).length + 1

/-- streaming encoder context: `buf[0..num)` -/
structure EncCtx where
  buf : List UInt8 := []
deriving Repr, DecidableEq

/-- `base64_encode_update`: new context and the characters produced by this call -/
def encodeUpdate (x : EncCtx) (src : List UInt8) : EncCtx × List UInt8 :=
  if src.length = 0 then (x, []) else
  -- encode leftover data if the context buffer can be filled
  let numRead := 3 - x.buf.length
  let fill := x.buf.length > 0 ∧ src.length ≥ numRead
  let out1 := if fill then encodeBlock (x.buf ++ src.take numRead) else []
  let src1 := if fill then src.drop numRead else src
  let buf1 := if fill then [] else x.buf
  -- encode the maximum amount of data without requiring a pad
  let n3 := (src1.length / 3) * 3
  let out2 := if src1.length ≥ 3 then encodeBlock (src1.take n3) else []
  let src2 := if src1.length ≥ 3 then src1.drop n3 else src1
  -- save leftover data
  ({ buf := buf1 ++ src2 }, out1 ++ out2)

/-- `base64_encode_final` -/
def encodeFinal (x : EncCtx) : List UInt8 :=
  if x.buf.length > 0 then encodeBlock x.buf else []

/-- whole streaming encode over a list of chunks -/
def encodeChunks (chunks : List (List UInt8)) : List UInt8 :=
  let r := chunks.foldl (fun (acc : EncCtx × List UInt8) ch =>
    let (x', o) := encodeUpdate acc.1 ch; (x', acc.2 ++ o)) ({}, [])
  r.2 ++ encodeFinal r.1

/-- decoder state while scanning: position in the quantum, pads seen, completed
    output bytes, and the partially assembled byte stored at `*pdst` -/
structure DecSt where
  i : Nat := 0
  pad : Nat := 0
  out : List UInt8 := []     -- completed bytes, in order
  cur : UInt8 := 0           -- the byte at `*pdst`
  err : Bool := false
deriving Repr, DecidableEq

/-- the byte expressions of the `switch (i)` in `base64_decode_update` -/
def dc0 (c : UInt8) : UInt8 := (c <<< (2 : UInt8)) &&& 0xfc
def dc1a (c : UInt8) : UInt8 := (c >>> (4 : UInt8)) &&& 0x03
def dc1b (c : UInt8) : UInt8 := (c <<< (4 : UInt8)) &&& 0xf0
def dc2a (c : UInt8) : UInt8 := (c >>> (2 : UInt8)) &&& 0x0f
def dc2b (c : UInt8) : UInt8 := (c <<< (6 : UInt8)) &&& 0xc0
def dc3 (c : UInt8) : UInt8 := c &&& 0x3f

/-- one iteration of the `while` loop of `base64_decode_update` (not called once `err`) -/
def decStep (s : DecSt) (ch : UInt8) : DecSt :=
  let c := a2b ch
  if c = IGN then s
  else if c = PAD ∧ s.pad < 2 then { s with pad := s.pad + 1 }
  else if c = ERR ∨ s.pad > 0 then { s with err := true }
  else
    match s.i with
    | 0 => { s with cur := dc0 c, i := 1 }
    | 1 => { s with out := s.out ++ [s.cur ||| dc1a c], cur := dc1b c, i := 2 }
    | 2 => { s with out := s.out ++ [s.cur ||| dc2a c], cur := dc2b c, i := 3 }
    | _ => { s with out := s.out ++ [s.cur ||| dc3 c], i := 0 }

/-- the `while` loop: stops at the first error (`break`) -/
def decLoop (s : DecSt) : List UInt8 → DecSt
  | [] => s
  | ch :: rest => let s' := decStep s ch; if s'.err then s' else decLoop s' rest

/-- `base64_decode_block` (context NULL): `(rc, decoded bytes)`.
    The C stores `dstlen = pdst - dst` bytes and additionally writes a NUL at `*pdst`. -/
def decodeBlock (src : List UInt8) : Int × List UInt8 :=
  let s := decLoop {} src
  let err := s.err || ((s.i + s.pad) % 4 != 0)
  (if err then -1 else 0, s.out)

/-- highest destination index written by `base64_decode_block`, plus one -/
def decodeBlockWritten (src : List UInt8) : Nat := (decodeBlock src).2.length + 1

/-- streaming decoder context (`num`, `pad`, `buf[0]`) -/
structure DecCtx where
  num : Nat := 0
  pad : Nat := 0
  buf0 : UInt8 := 0
deriving Repr, DecidableEq

/-- `base64_decode_update` with a context: `(rc, bytes, new ctx)` -/
def decodeUpdate (x : DecCtx) (src : List UInt8) : Int × List UInt8 × DecCtx :=
  let s := decLoop { i := x.num, pad := x.pad, cur := x.buf0 } src
  (if s.err then -1 else 0, s.out, { num := s.i, pad := s.pad, buf0 := s.cur })

/-- `base64_decode_final` -/
def decodeFinal (x : DecCtx) : Int := if (x.num + x.pad) % 4 != 0 then -1 else 0

end Munge.Base64
