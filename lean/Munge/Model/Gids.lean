import Munge.Gen.Gids
/-
Model of `src/munged/gids.c` (supplementary-group map), C17.

Everything named `Gen.Gids.*` is regenerated from the C sources on every run
(tools/gen/g_gids.py): whole loop-free functions (`user_to_uid`, `map_update`,
`gids_update`, `gid_head_cmp`), the conditions / bodies / tails of the loops
(`member_walk_*`, `insert_walk_skip`, `insert_tail`, `scan_err`, `scan_member`,
`scan_begin`), `max_inits`, what `_gids_map_create` returns on its two exits,
and the atomicity certificates.  The hand-written part below only supplies the
data structures those fragments run on:

* the gid hash is an association list `uid ↦ node list` searched with the
  generated key comparison (first match wins), new heads are appended;
* the uid cache of one build is an association list `name ↦ uid`;
* the user database is an oracle with its own state (`PwOracle`), one `ask` per
  `xgetpwnam` call, so that answers may change between calls (transient errors);
* the group database is the sequence of `xgetgrent` results of one build
  (`GrItem`: an entry or a failure with its errno; the end of the list is ENOENT).

Part 2 is the concrete environment used by the correspondence driver (buffer
growth in xgetgr.c / xgetpw.c over scripted `getgrent_r` / `getpwnam_r`);
part 3 is the refresh (`_gids_map_update`, `gids_update`) and the interleaving
of lookups, SIGHUPs and a running refresh at the granularity of the mutex sections.
-/
namespace Munge.Gids
open Munge.C Munge.Gen.Gids

/-! ## 1. The map and one build -/

/-- result of one `xgetpwnam` call: the uid, or -1 with this errno (`ENOENT` = no such user) -/
inductive PwRes where
  | found (uid : Int)
  | fail (errno : Int)
deriving DecidableEq, Repr

/-- result of one `xgetgrent` call -/
inductive GrItem where
  | ent (gid : Int) (members : List String)
  | fail (errno : Int)
deriving DecidableEq, Repr

/-- a group-database entry -/
structure GrEnt where
  gid : Int
  members : List String
deriving DecidableEq, Repr

/-- `gid_hash`: uid ↦ list of gid nodes -/
abbrev GidMap := List (Int × List Int)
/-- `uid_hash`: user name ↦ uid (UID_SENTINEL for a cached negative answer) -/
abbrev Cache := List (String × Int)

/-- the user database as seen through `xgetpwnam`, with its own state -/
structure PwOracle (σ : Type) where
  ask : σ → String → PwRes × σ

/-- a user database that answers every call for a name in the same way -/
def constOracle (p : String → PwRes) : PwOracle Unit := ⟨fun s n => (p n, s)⟩

/-- pointer ids handed to the translated fragments: a node of the list / the freshly allocated node -/
def P_NODE : Int := 1
def P_NEW : Int := 2

/-- hash key comparison of `gid_hash` (`hash_find` / `hash_insert` call `cmp_f (stored, key)`) -/
def keyEq (stored key : Int) : Bool := (gid_head_cmp stored key).ret == 0

def findHead (m : GidMap) (uid : Int) : Option (List Int) :=
  (m.find? (fun e => keyEq e.1 uid)).map (·.2)

def setHead : GidMap → Int → List Int → GidMap
  | [], _, _ => []
  | e :: r, uid, l => if keyEq e.1 uid then (e.1, l) :: r else e :: setHead r uid l

/-- the statements after the walk of `_gids_gid_add`, at the position where the walk stopped -/
def insertAt (gid : Int) (l : List Int) : Int × List Int :=
  let cur : Int := if l.isEmpty then 0 else P_NODE
  let k := insert_tail cur (l.headD 0) gid P_NEW
  if k.ret = 1 ∧ k.written "*nodep" = some P_NEW ∧ k.written "node.next" = some cur then (k.ret, gid :: l)
  else (k.ret, l)

/-- `_gids_gid_add` on the node list of one uid: (return value, new list) -/
def insertGid (gid : Int) : List Int → Int × List Int
  | [] => insertAt gid []
  | n :: rest =>
    if insert_walk_skip P_NODE n gid then
      let r := insertGid gid rest
      (r.1, n :: r.2)
    else insertAt gid (n :: rest)

/-- `_gids_gid_add`: (return value, new map) -/
def gidAdd (m : GidMap) (uid gid : Int) : Int × GidMap :=
  match findHead m uid with
  | some l => let r := insertGid gid l; (r.1, setHead m uid r.2)
  | none => let r := insertGid gid []; (r.1, m ++ [(uid, r.2)])

/-- the walk of `gids_is_member` over the node list, `acc` = the result variable -/
def walkMember (gid : Int) : List Int → Int → Int
  | [], acc => acc
  | n :: rest, acc =>
    if member_walk_cont P_NODE n gid then
      let k := member_walk_body n gid 0
      let acc' := (k.written "is_member").getD acc
      if k.ret = K_BREAK then acc' else walkMember gid rest acc'
    else acc

/-- `gids_is_member` on the installed map (`none` = `gids->gid_hash == NULL`) -/
def isMember (inst : Option GidMap) (uid gid : Int) : Bool :=
  match inst with
  | none => member_init != 0
  | some m =>
    match findHead m uid with
    | none => member_init != 0
    | some l => walkMember gid l member_init != 0

def uidAdd (c : Cache) (user : String) (uid : Int) : Cache :=
  if user = "" then c else c ++ [(user, uid)]       -- `_gids_uid_node_create` refuses an empty name

/-- `_gids_user_to_uid`: new oracle state, new cache, and the uid on success -/
def userToUid (O : PwOracle σ) (s : σ) (c : Cache) (user : String) : σ × Cache × Option Int :=
  let hit := c.lookup user
  let cachedP : Int := if hit.isSome then 1 else 0
  let cu := hit.getD 0
  let fin := fun (k : KOut) (s' : σ) =>
    let c' := match k.events.find? (·.1 == "_gids_uid_add") with
      | some (_, [u]) => uidAdd c user u
      | _ => c
    (s', c', if k.ret = 0 then k.written "*uid_resultp" else none)
  let k0 := user_to_uid cachedP cu 0 0 0 1 0
  if k0.calls "xgetpwnam" then
    let (r, s') := O.ask s user
    match r with
    | .found u => fin (user_to_uid cachedP cu 0 u 0 1 0) s'
    | .fail e => fin (user_to_uid cachedP cu (-1) 0 e 1 0) s'
  else fin k0 s

/-- state of one `_gids_map_create` -/
structure BSt (σ : Type) where
  pw : σ
  cache : Cache
  map : GidMap
  inits : Int

/-- body of the member loop; `none` = `goto err` -/
def addMember (O : PwOracle σ) (st : BSt σ) (gid : Int) (user : String) : Option (BSt σ) :=
  let (s', c', r) := userToUid O st.pw st.cache user
  let rv : Int := if r.isSome then 0 else -1
  let st' : BSt σ := { st with pw := s', cache := c' }
  if (scan_member rv 0).calls "_gids_gid_add" then
    match r with
    | some uid =>
      let (rc, m') := gidAdd st.map uid gid
      if (scan_member rv rc).ret = K_ERR then none else some { st' with map := m' }
    | none => none
  else if (scan_member rv 0).ret = K_ERR then none else some st'

def addMembers (O : PwOracle σ) (st : BSt σ) (gid : Int) : List String → Option (BSt σ)
  | [] => some st
  | u :: us =>
    match addMember O st gid u with
    | none => none
    | some st' => addMembers O st' gid us

/-- outcome of one iteration of the scan loop -/
inductive StepRes (σ : Type) where
  | cont (st : BSt σ) (restarted : Bool)
  | done (res : Option GidMap) (pw : σ)

def finishOk (st : BSt σ) : StepRes σ :=
  .done (if create_ok_returns_map then some st.map else none) st.pw
def finishErr (st : BSt σ) : StepRes σ :=
  .done (if create_err_returns_null then none else some st.map) st.pw

/-- the statements between `restart:` and the loop -/
def scanBegin (st : BSt σ) : BSt σ :=
  { st with inits := ((scan_begin st.inits).written "num_inits").getD st.inits }

/-- one iteration of the scan loop on the given `xgetgrent` result -/
def scanItem (O : PwOracle σ) (st : BSt σ) : GrItem → StepRes σ
  | .ent gid ms =>
    match addMembers O st gid ms with
    | some st' => .cont st' false
    | none => finishErr st
  | .fail e =>
    let k := scan_err e st.inits max_inits
    if k.ret = K_BREAK then finishOk st
    else if k.ret = K_CONTINUE then .cont st false
    else if k.ret = K_RESTART then
      let st1 : BSt σ := if k.calls "hash_reset:gid_hash" then { st with map := [] } else st
      let st2 : BSt σ := if k.calls "hash_reset:uid_hash" then { st1 with cache := [] } else st1
      .cont (scanBegin st2) true
    else finishErr st

/-- the scan loop over the `xgetgrent` results of this build; past the end `xgetgrent` reports ENOENT -/
def scanLoop (O : PwOracle σ) : BSt σ → List GrItem → Option GidMap × σ
  | st, [] =>
    match scanItem O st (.fail ENOENT) with
    | .done r p => (r, p)
    | .cont st' _ => (none, st'.pw)
  | st, it :: rest =>
    match scanItem O st it with
    | .done r p => (r, p)
    | .cont st' _ => scanLoop O st' rest

def initBSt (pw : σ) : BSt σ :=
  scanBegin { pw := pw, cache := [], map := [], inits := num_inits_init }

/-- `_gids_map_create`: the new map (or `none` = NULL) and the final oracle state -/
def mapCreate (O : PwOracle σ) (pw : σ) (items : List GrItem) : Option GidMap × σ :=
  scanLoop O (initBSt pw) items

def entItems (g : List GrEnt) : List GrItem := g.map fun e => .ent e.gid e.members

/-- one clean scan of group database `g` against user database `p` -/
def build (g : List GrEnt) (p : String → PwRes) : Option GidMap :=
  (mapCreate (constOracle p) () (entItems g)).1

/-! ## 2. Concrete environment of the correspondence driver (xgetgr.c / xgetpw.c over scripted libc) -/

/-- scripted answer of `getpwnam_r`: an entry needing `need` bytes of buffer, or return value `e` with no entry -/
inductive PwResp where
  | uid (u : Int) (need : Nat)
  | rc (e : Int)
deriving Repr

structure PwEnv where
  buflen : Nat
  scripts : List (String × List PwResp)
  lastLen : Nat := 0        -- buffer length seen by the last getpwnam_r call (0 = no call)
deriving Repr

def PwEnv.head (st : PwEnv) (name : String) : PwResp :=
  match st.scripts.lookup name with
  | some (r :: _) => r
  | _ => .rc 0

def PwEnv.consume (st : PwEnv) (name : String) : PwEnv :=
  { st with scripts := st.scripts.map fun (n, rs) =>
      if n == name then (n, match rs with | _ :: r2 :: rest => r2 :: rest | l => l) else (n, rs) }

/-- `xgetpwnam`: the restart loop around `getpwnam_r` -/
def xgetpwnam : Nat → PwEnv → String → PwRes × PwEnv
  | 0, st, _ => (.fail EINTR, st)
  | fuel + 1, st, name =>
    if name = "" then (.fail EINVAL, st) else
    let st := { st with lastLen := st.buflen }
    let (rv, ptr, u, st1) : Int × Int × Int × PwEnv := match st.head name with
      | .uid u need => if st.buflen < need then (ERANGE, 0, 0, st) else (0, 1, u, st.consume name)
      | .rc e => (e, 0, 0, st.consume name)
    let k := xgetpwnam_step rv ptr 0 0
    let st2 := if k.calls "_xgetpwbuf_grow" then { st1 with buflen := st1.buflen * 2 } else st1
    if k.ret = 100 then xgetpwnam fuel st2 name
    else if k.ret = 0 then (.found u, st2)
    else (.fail ((k.written "errno").getD 0), st2)

def pwOracle : PwOracle PwEnv := ⟨fun st n => xgetpwnam 200 st n⟩

/-- scripted group-database item: an entry (buffer need, number of EINTR answers first) or a failure -/
inductive GrSItem where
  | ent (gid : Int) (members : List String) (need : Nat) (eintr : Nat)
  | err (e : Int)
deriving Repr

structure GrEnv where
  buflen : Nat
  scans : List (List GrSItem)
  scanIdx : Nat := 0          -- number of setgrent calls so far in this update
  pos : Nat := 0
  eintrLeft : Option Nat := none
  lastLen : Nat := 0
deriving Repr

def GrEnv.cur (st : GrEnv) : List GrSItem :=
  match st.scans with
  | [] => []
  | _ => st.scans.getD (min (st.scanIdx - 1) (st.scans.length - 1)) []

def GrEnv.init (st : GrEnv) : GrEnv := { st with scanIdx := st.scanIdx + 1, pos := 0, eintrLeft := none }

/-- `xgetgrent` (`eb` = built with HAVE_GETGRENT_R_ERANGE_BROKEN): the restart loop around `getgrent_r` -/
def xgetgrent (eb : Bool) : Nat → GrEnv → GrItem × GrEnv
  | 0, st => (.fail EINTR, st)
  | fuel + 1, st =>
    let st := { st with lastLen := st.buflen }
    let (rv, ptr, gid, ms, st1) : Int × Int × Int × List String × GrEnv := match (st.cur[st.pos]? : Option GrSItem) with
      | none => (ENOENT, 0, 0, [], st)
      | some (GrSItem.err e) => (e, 0, 0, [], { st with pos := st.pos + 1 })
      | some (GrSItem.ent gid ms need eintr) =>
        let left := st.eintrLeft.getD eintr
        if left > 0 then (EINTR, 0, 0, [], { st with eintrLeft := some (left - 1) })
        else if st.buflen < need then (ERANGE, 0, 0, [], { st with eintrLeft := some 0 })
        else (0, 1, gid, ms, { st with pos := st.pos + 1, eintrLeft := none })
    let k := if eb then xgetgrent_step_eb rv ptr 0 0 else xgetgrent_step rv ptr 0 0
    let st2 := if k.calls "_xgetgrbuf_grow" then { st1 with buflen := st1.buflen * 2 } else st1
    if k.ret = 100 then xgetgrent eb fuel st2
    else if k.ret = 0 then (.ent gid ms, st2)
    else (.fail ((k.written "errno").getD 0), st2)

/-! ## 3. Refresh and interleavings -/

/-- the fields of `struct gids` that the mutex protects -/
structure Shared where
  installed : Option GidMap
  tLast : Int
  doStat : Int
  interval : Int
  timer : Int
deriving Repr

/-- what `_gids_map_update` reads from its environment: `time()`, and `stat()` of the group file -/
structure UpdEnv where
  now : Int
  statrv : Int
  mtime : Int
deriving Repr

def P_OLD : Int := 1
def ptrOf (m : Option GidMap) (id : Int) : Int := if m.isSome then id else 0

/-- `_gids_map_update` as translated, on: the values read in the first locked section (`d`, `t`), the struct as
    it is when the second section runs, the environment, and the result of the build (if one was made) -/
def updKernel (d t : Int) (sh : Shared) (env : UpdEnv) (res : Option GidMap) (newTimer : Int) : KOut :=
  map_update d t sh.doStat sh.tLast (ptrOf sh.installed P_OLD) (ptrOf res P_NEW) sh.interval
    env.now env.statrv env.mtime newTimer 0

/-- does this run of `_gids_map_update` call `_gids_map_create`? -/
def wantsBuild (d t : Int) (sh : Shared) (env : UpdEnv) : Bool :=
  (updKernel d t sh env none 0).calls "_gids_map_create"

/-- the second locked section of `_gids_map_update` -/
def commit (d t : Int) (sh : Shared) (env : UpdEnv) (res : Option GidMap) (newTimer : Int) : Shared :=
  let k := updKernel d t sh env res newTimer
  let inst := match k.written "gids.gid_hash" with
    | none => sh.installed
    | some v =>
      if v ≠ 0 ∧ v = ptrOf res P_NEW then res
      else if v = ptrOf sh.installed P_OLD then sh.installed
      else none
  { installed := inst
    tLast := (k.written "gids.t_last_update").getD sh.tLast
    doStat := (k.written "gids.do_group_stat").getD sh.doStat
    interval := sh.interval
    timer := (k.written "gids.timer").getD sh.timer }

/-- map pointers passed to `hash_destroy` by this run -/
def destroyed (d t : Int) (sh : Shared) (env : UpdEnv) (res : Option GidMap) : List Int :=
  ((updKernel d t sh env res 0).events.filter (·.1 == "hash_destroy")).flatMap (·.2)

def hupKernel (sh : Shared) (newTimer : Int) : KOut := gids_update 1 sh.timer sh.doStat newTimer

/-- `gids_update` (SIGHUP, and the initial call from `gids_create`) -/
def hup (sh : Shared) (newTimer : Int) : Shared :=
  let k := hupKernel sh newTimer
  { sh with timer := (k.written "gids.timer").getD sh.timer
            doStat := (k.written "gids.do_group_stat").getD sh.doStat }

/-- `gids_create` -/
def create (interval doStat newTimer : Int) : Option Shared :=
  if interval < 0 then none
  else some (hup { installed := none, tLast := 0, doStat := doStat, interval := interval, timer := 0 } newTimer)

/-- a whole `_gids_map_update` with nothing interleaved -/
def mapUpdate (O : PwOracle σ) (sh : Shared) (env : UpdEnv) (pw : σ) (items : List GrItem) (newTimer : Int) :
    Shared × σ :=
  if wantsBuild sh.doStat sh.tLast sh env then
    let r := mapCreate O pw items
    (commit sh.doStat sh.tLast sh env r.1 newTimer, r.2)
  else (commit sh.doStat sh.tLast sh env none newTimer, pw)

/-- where the refresh thread is -/
inductive Phase (σ : Type) where
  | idle
  | sec1 (d t : Int)                                             -- first locked section done
  | building (d t : Int) (env : UpdEnv) (st : BSt σ) (todo : List GrItem)   -- off-lock, partial map in `st`
  | built (d t : Int) (env : UpdEnv) (res : Option GidMap)        -- `_gids_map_create` returned (or was skipped)

structure Sys (σ : Type) where
  sh : Shared
  phase : Phase σ
  env : UpdEnv
  db : List GrItem
  pw : σ
  commits : Nat := 0
  timerSeq : Int := 1

inductive Act (σ : Type) where
  | lookup (uid gid : Int)          -- `gids_is_member`: one locked section
  | hup                             -- `gids_update`: one locked section
  | upd                             -- the refresh thread advances by one step
  | setEnv (env : UpdEnv) (db : List GrItem) (pw : σ)   -- the databases / the clock change

def sysStep (O : PwOracle σ) (s : Sys σ) : Act σ → Sys σ × Option Bool
  | .lookup u g => (s, some (isMember s.sh.installed u g))
  | .hup => ({ s with sh := hup s.sh s.timerSeq, timerSeq := s.timerSeq + 1 }, none)
  | .setEnv env db pw =>
    match s.phase with
    | .building .. => ({ s with env := env, db := db }, none)     -- the running build keeps its oracle state
    | _ => ({ s with env := env, db := db, pw := pw }, none)
  | .upd =>
    match s.phase with
    | .idle => ({ s with phase := .sec1 s.sh.doStat s.sh.tLast }, none)
    | .sec1 d t =>
      if wantsBuild d t s.sh s.env then ({ s with phase := .building d t s.env (initBSt s.pw) s.db }, none)
      else ({ s with phase := .built d t s.env none }, none)
    | .building d t env st todo =>
      match todo with
      | [] =>
        match scanItem O st (.fail ENOENT) with
        | .done r p => ({ s with phase := .built d t env r, pw := p }, none)
        | .cont st' _ => ({ s with phase := .built d t env none, pw := st'.pw }, none)
      | it :: rest =>
        match scanItem O st it with
        | .done r p => ({ s with phase := .built d t env r, pw := p }, none)
        | .cont st' _ => ({ s with phase := .building d t env st' rest }, none)
    | .built d t env res =>
      ({ s with sh := commit d t s.sh env res s.timerSeq, phase := .idle, commits := s.commits + 1,
                timerSeq := s.timerSeq + 1 }, none)

/-- a lookup as recorded in a run: arguments, answer, number of swaps completed before it -/
structure LookupRec where
  uid : Int
  gid : Int
  ans : Bool
  epoch : Nat
deriving Repr, DecidableEq

def run (O : PwOracle σ) : Sys σ → List (Act σ) → Sys σ × List LookupRec
  | s, [] => (s, [])
  | s, a :: rest =>
    let (s', o) := sysStep O s a
    let (s'', l) := run O s' rest
    match a, o with
    | .lookup u g, some b => (s'', ⟨u, g, b, s.commits⟩ :: l)
    | _, _ => (s'', l)

end Munge.Gids
