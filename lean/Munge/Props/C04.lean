import Munge.Gen.Dec
import Munge.Lemmas.ConfReads
/-
C04 — UID/GID decode restrictions are enforced, silently to the unauthorized.

Theorems about the generated kernels `dec_validate_auth` and `dec_process_msg`
(re-translated from src/munged/dec.c on every run).  Group membership
(`gids_is_member`) is a parameter here; that its answer equals the databases is C17.
-/
namespace Munge.C04
open Munge.C Munge.Gen.Dec

/-- all identities are `uint32_t`; the root-exemption flag is one bit -/
def Ranges (authUid authGid clientUid clientGid rootAuth : Int) : Prop :=
  0 ≤ authUid ∧ authUid < 4294967296 ∧ 0 ≤ authGid ∧ authGid < 4294967296 ∧
  0 ≤ clientUid ∧ clientUid < 4294967296 ∧ 0 ≤ clientGid ∧ clientGid < 4294967296 ∧
  0 ≤ rootAuth ∧ rootAuth ≤ 1

/-- the statement's authorisation condition -/
def Authorized (authUid authGid clientUid clientGid rootAuth : Int) (member : Int → Int → Int) : Prop :=
  (authUid = MUNGE_UID_ANY ∨ authUid = clientUid ∨ (rootAuth ≠ 0 ∧ clientUid = 0)) ∧
  (authGid = MUNGE_GID_ANY ∨ authGid = clientGid ∨ member clientUid authGid ≠ 0)

/-- The kernel accepts exactly the authorised clients: UID restriction equal (or ANY, or the
    compile-time root exemption), AND GID restriction equal to the client's GID or a group the
    database lists the client's UID in (or ANY) — for every identity in `uint32`, every membership
    relation. -/
theorem auth_spec (authUid authGid clientUid clientGid rootAuth : Int) (member : Int → Int → Int)
    (h : Ranges authUid authGid clientUid clientGid rootAuth) :
    (dec_validate_auth authUid authGid clientUid clientGid rootAuth member).ret = 0 ↔
      Authorized authUid authGid clientUid clientGid rootAuth member := by
  unfold Ranges at h
  unfold dec_validate_auth Authorized MUNGE_UID_ANY MUNGE_GID_ANY
  simp only [apply_ite KOut.ret]
  unfold wrapS32
  omega

/-- Every refusal is reported as `EMUNGE_CRED_UNAUTHORIZED` (and nothing else is written). -/
theorem refusal_is_unauthorized (authUid authGid clientUid clientGid rootAuth : Int) (member : Int → Int → Int) :
    let r := dec_validate_auth authUid authGid clientUid clientGid rootAuth member
    r.writes = [] ∧ (r.ret ≠ 0 → r.ret = -1 ∧ r.err = EMUNGE_CRED_UNAUTHORIZED) ∧ (r.ret = 0 → r.err = 0) := by
  unfold dec_validate_auth EMUNGE_CRED_UNAUTHORIZED
  simp only [apply_ite KOut.ret, apply_ite KOut.err, apply_ite KOut.writes]
  simp only [KOut.err, List.find?, String.reduceBEq]
  refine ⟨?_, ?_, ?_⟩
  · repeat' split
    all_goals rfl
  · omega
  · omega

/-- Root is not exempt unless the daemon was built to allow it: the flag the daemon uses is the
    compile-time `MUNGE_AUTH_ROOT_ALLOW_FLAG` (generated; 0 in this tree), and with it a root client is
    treated like any other UID. -/
theorem root_not_exempt (authUid authGid clientGid : Int) (member : Int → Int → Int)
    (h : Ranges authUid authGid 0 clientGid MUNGE_AUTH_ROOT_ALLOW_FLAG)
    (hu : authUid ≠ MUNGE_UID_ANY) (hu0 : authUid ≠ 0) :
    (dec_validate_auth authUid authGid 0 clientGid MUNGE_AUTH_ROOT_ALLOW_FLAG member).ret = -1 := by
  unfold Ranges MUNGE_AUTH_ROOT_ALLOW_FLAG at h
  unfold MUNGE_UID_ANY at hu
  unfold dec_validate_auth MUNGE_AUTH_ROOT_ALLOW_FLAG
  simp only [apply_ite KOut.ret]
  unfold wrapS32
  omega

/-- Authorisation is decided BEFORE the time window and the replay cache: when `dec_validate_auth`
    refuses, neither `dec_validate_time` nor `dec_validate_replay` (the only stage that records a
    credential) runs, and nothing is withdrawn from the replay cache either — whatever the clock and
    the replay state are.  Hence the unauthorised client gets UNAUTHORIZED whether or not the
    credential is also expired, rewound or already decoded, and the attempt does not consume it. -/
theorem unauthorized_wins_and_does_not_consume
    (e r1 r2 r3 r4 r5 r6 r7 r8 r9 r10 r11 r12 r13 r14 rs ri : Int) (hauth : r12 < 0) :
    let out := dec_process_msg e r2 ri r1 r3 r4 r5 r6 r7 r8 r9 r10 r11 r12 r13 r14 rs
    out.count "dec_validate_time" = 0 ∧ out.count "dec_validate_replay" = 0 ∧
    out.count "replay_remove" = 0 ∧ out.ret = -1 := by
  unfold dec_process_msg
  simp only [apply_ite KOut.ret, apply_ite (fun o => KOut.count o "dec_validate_time"),
    apply_ite (fun o => KOut.count o "dec_validate_replay"), apply_ite (fun o => KOut.count o "replay_remove")]
  simp only [KOut.count, List.filter, String.reduceBEq, List.length]
  omega

/-- … and the reply to it is sanitised: with the error code UNAUTHORIZED in the message the reset
    runs exactly once before the single send (no payload, identity or metadata is disclosed). -/
theorem unauthorized_reply_is_reset
    (r1 r2 r3 r4 r5 r6 r7 r8 r9 r10 r11 r12 r13 r14 rs ri : Int) (hauth : r12 < 0) :
    let out := dec_process_msg EMUNGE_CRED_UNAUTHORIZED r2 ri r1 r3 r4 r5 r6 r7 r8 r9 r10 r11 r12 r13 r14 rs
    out.count "m_msg_reset" = 1 ∧ out.count "m_msg_send" = 1 := by
  unfold dec_process_msg EMUNGE_CRED_UNAUTHORIZED
  simp only [apply_ite (fun o => KOut.count o "m_msg_reset"), apply_ite (fun o => KOut.count o "m_msg_send")]
  simp only [KOut.count, List.filter, String.reduceBEq, List.length]
  omega

/-- The authorisation stage itself runs only after the MAC has been validated and the inner layer
    unpacked: the restriction fields it reads are authenticated. -/
theorem auth_reads_authenticated_fields
    (e r1 r2 r3 r4 r5 r6 r7 r8 r9 r10 r11 r12 r13 r14 rs ri : Int) :
    let out := dec_process_msg e r2 ri r1 r3 r4 r5 r6 r7 r8 r9 r10 r11 r12 r13 r14 rs
    out.count "dec_validate_auth" = 1 →
      r9 ≥ 0 ∧ r11 ≥ 0 ∧ out.count "dec_validate_mac" = 1 ∧ out.count "dec_unpack_inner" = 1 := by
  unfold dec_process_msg
  simp only [apply_ite (fun o => KOut.count o "dec_validate_auth"), apply_ite (fun o => KOut.count o "dec_validate_mac"),
    apply_ite (fun o => KOut.count o "dec_unpack_inner")]
  simp only [KOut.count, List.filter, String.reduceBEq, List.length]
  omega

/-! ### non-vacuity -/
example : Authorized 1000 4294967295 1000 50 0 (fun _ _ => 0) := by
  unfold Authorized MUNGE_UID_ANY MUNGE_GID_ANY; omega
example : (dec_validate_auth 1000 4294967295 1000 50 0 (fun _ _ => 0)).ret = 0 := by decide
example : (dec_validate_auth 1000 4294967295 0 0 0 (fun _ _ => 0)).err = EMUNGE_CRED_UNAUTHORIZED := by decide
example : (dec_validate_auth 4294967295 77 1000 50 0 (fun u g => if u = 1000 ∧ g = 77 then 1 else 0)).ret = 0 := by decide
example : (dec_validate_auth 4294967295 77 1001 50 0 (fun u g => if u = 1000 ∧ g = 77 then 1 else 0)).ret = -1 := by decide

/-- The pipeline's source files consult exactly the configuration fields that the model's `Conf` carries (table regenerated
    from the source on every run): the theorems above, stated for every `cf`, cover every configuration switch that can
    influence the authorisation verdict.  A new `conf->…` dependence in enc.c / dec.c / cred.c / m_msg.c breaks this. -/
theorem conf_fields_as_modelled : Munge.Gen.Dec.confReads = Munge.Cred.confAsModelled :=
  Munge.Cred.conf_reads_as_modelled

end Munge.C04
