import Munge.Model.Cred
import Munge.Model.PrimLaws
import Munge.Lemmas.CredC
/-
C02 — any altered or foreign-key credential is rejected and discloses nothing.

What is PROVED is the logic: nothing of the interior is released unless the recomputed MAC — under the
daemon's MAC subkey, over exactly OUTER ‖ (decrypted, still compressed) INNER, compared over the full
digest length — equals the received MAC; every other outcome is a hard error whose reply is sanitised.
What is ASSUMED is cryptographic strength, as explicit named hypotheses of the last theorems
(`Unforgeable`, `KeySeparation`) — never as axioms.
-/
namespace Munge.C02
open Munge.Cred Munge.Cred.C Munge.Gen.Dec

/-- outcomes that disclose fields of the credential -/
def discloses (e : Nat) : Prop :=
  e = 0 ∨ (e : Int) = EMUNGE_CRED_EXPIRED ∨ (e : Int) = EMUNGE_CRED_REWOUND ∨ (e : Int) = EMUNGE_CRED_REPLAYED

/-- the plaintext (still compressed) inner layer the daemon MACs -/
def plainOf (P : Prims) (cf : Conf) (m : Msg) (s : Scratch) : Bytes := (decDecrypt P cf m s).2.inner

/-- ACCEPT ⇒ MAC.  If a decode ends in success or a soft error (the only outcomes that disclose
    anything), then the credential parsed as OUTER ‖ MAC ‖ INNER, padding removal (if encrypted)
    succeeded, and MAC = mac(macKey, OUTER ‖ plain INNER). -/
theorem accept_implies_mac (P : Prims) (cf : Conf) (env : Env) (rs : ReplaySet) (m0 : Msg) (h0 : m0.errorNum = 0)
    (hd : discloses (decProcess P cf env rs m0).msg.errorNum) :
    ∃ m s, decFront P env rs m0 = .inr (m, s) ∧
      P.mac m.mac cf.macKey (s.outer ++ plainOf P cf m s) = s.mac ∧
      (m.cipher ≠ 0 → (P.decrypt m.cipher (P.mac m.mac cf.dekKey s.mac) s.iv s.inner).2 = true) := by
  unfold decProcess at hd
  cases hf : decFront P env rs m0 with
  | inl o =>
    rw [hf] at hd
    dsimp only at hd
    obtain ⟨m, e, rfl, hm0, he⟩ := decFront_inl P env rs m0 o h0 hf
    obtain ⟨_, hn, _⟩ := decErr_hard rs m e hm0 he
    rw [hn] at hd
    exfalso
    unfold HardCode at he
    unfold discloses EMUNGE_CRED_EXPIRED EMUNGE_CRED_REWOUND EMUNGE_CRED_REPLAYED at hd
    omega
  | inr p =>
    obtain ⟨m, s⟩ := p
    rw [hf] at hd
    dsimp only at hd
    obtain ⟨_, _, _, _, _, hme, _⟩ := decFront_inr P env rs m0 m s hf
    rcases decMid_cases P cf rs m s (hme.trans h0) with ⟨m2, hmid, h14⟩ | ⟨hmac, hdec⟩
    · rw [hmid] at hd
      dsimp only at hd
      exfalso
      have : (decFail rs m2).msg.errorNum = 14 := h14
      rw [this] at hd
      unfold discloses EMUNGE_CRED_EXPIRED EMUNGE_CRED_REWOUND EMUNGE_CRED_REPLAYED at hd
      omega
    · exact ⟨m, s, rfl, hmac, hdec⟩

/-- BAD MAC ⇒ NOTHING.  Conversely, if the recomputed MAC differs from the received one, the decode is
    a hard error and the message that is sent has every data-bearing field at its "nothing" value. -/
theorem bad_mac_discloses_nothing (P : Prims) (cf : Conf) (env : Env) (rs : ReplaySet) (m0 m : Msg) (s : Scratch)
    (h0 : m0.errorNum = 0) (hf : decFront P env rs m0 = .inr (m, s))
    (hbad : P.mac m.mac cf.macKey (s.outer ++ plainOf P cf m s) ≠ s.mac) :
    let o := decProcess P cf env rs m0
    o.rc = -1 ∧ (o.msg.errorNum : Int) = EMUNGE_CRED_INVALID ∧ o.msg.dataLen = 0 ∧ o.msg.data = [] ∧
    o.msg.credUid = UID_ANY ∧ o.msg.credGid = GID_ANY ∧ o.msg.ttl = 0 ∧ o.msg.time0 = 0 ∧ o.replay = rs := by
  intro o
  obtain ⟨_, _, _, _, _, hme, _⟩ := decFront_inr P env rs m0 m s hf
  rcases decMid_cases P cf rs m s (hme.trans h0) with ⟨m2, hmid, h14⟩ | ⟨hmac, _⟩
  · have ho : o = decFail rs m2 := by
      show decProcess P cf env rs m0 = _
      unfold decProcess
      rw [hf]
      dsimp only
      rw [hmid]
    rw [ho]
    exact decFail_invalid rs m2 h14
  · exact absurd hmac hbad

/-- the comparison covers the whole digest: a credential whose MAC field agrees with the correct MAC
    on all bytes but one is rejected (no prefix comparison) -/
theorem mac_compare_is_full_length (P : Prims) (cf : Conf) (m : Msg) (s : Scratch)
    (hne : P.mac m.mac cf.macKey (s.outer ++ s.inner) ≠ s.mac) :
    ∃ m', decValidateMac P cf m s = .error m' := by
  unfold decValidateMac
  dsimp only
  rw [if_pos (.inr hne)]
  exact ⟨_, rfl⟩

/-- every parse failure before the MAC is a hard error too (truncations, bad version, unknown types,
    bad armor): the front part either fails with a sanitised message or yields the parsed layers -/
theorem front_failure_discloses_nothing (P : Prims) (env : Env) (rs : ReplaySet) (m0 : Msg) (o : DecOut)
    (h0 : m0.errorNum = 0) (hf : decFront P env rs m0 = .inl o) :
    o.rc = -1 ∧ o.msg.errorNum ≠ 0 ∧ ¬ discloses o.msg.errorNum ∧ o.msg.dataLen = 0 ∧ o.msg.data = [] ∧
    o.msg.credUid = UID_ANY ∧ o.msg.credGid = GID_ANY ∧ o.replay = rs := by
  obtain ⟨m, e, rfl, hm0, he⟩ := decFront_inl P env rs m0 o h0 hf
  obtain ⟨h1, hn, h3, h4, h5, h6, h7⟩ := decErr_hard rs m e hm0 he
  refine ⟨h1, ?_, ?_, h3, h4, h5, h6, h7⟩
  · rw [hn]; unfold HardCode at he; omega
  · rw [hn]
    unfold HardCode at he
    unfold discloses EMUNGE_CRED_EXPIRED EMUNGE_CRED_REWOUND EMUNGE_CRED_REPLAYED
    omega

/-- Cryptographic idealisation, stated as a hypothesis about the finite world at hand: the only
    (type, message, tag) triples valid under the daemon's MAC key that anybody can present are those the
    daemon(s) holding the key emitted. -/
def Unforgeable (P : Prims) (macKey : Bytes) (emitted : List (Nat × Bytes × Bytes)) : Prop :=
  ∀ t msg tag, P.mac t macKey msg = tag → (t, msg, tag) ∈ emitted

/-- REJECT ALTERED.  Under `Unforgeable`: any decode that discloses anything was of a credential whose
    (MAC type, OUTER ‖ plain INNER, MAC) was emitted by a holder of the key.  Contrapositive: a body that
    differs from every emitted one in its MAC'd content or MAC — a flipped bit, a truncation, an extension,
    a splice, a rewritten header — gets a hard error, and by `bad_mac_discloses_nothing` /
    `front_failure_discloses_nothing` a reply with no payload, UID, GID or metadata. -/
theorem reject_altered (P : Prims) (cf : Conf) (env : Env) (rs : ReplaySet) (m0 : Msg) (h0 : m0.errorNum = 0)
    (emitted : List (Nat × Bytes × Bytes)) (hU : Unforgeable P cf.macKey emitted)
    (hd : discloses (decProcess P cf env rs m0).msg.errorNum) :
    ∃ m s, decFront P env rs m0 = .inr (m, s) ∧ (m.mac, s.outer ++ plainOf P cf m s, s.mac) ∈ emitted := by
  obtain ⟨m, s, hf, hmac, _⟩ := accept_implies_mac P cf env rs m0 h0 hd
  exact ⟨m, s, hf, hU _ _ _ hmac⟩

/-- different key files give different MAC subkeys, and tags under different subkeys do not coincide on
    the messages at hand (collision-freeness of the subkey derivation and of the MAC) -/
def KeySeparation (P : Prims) (k1 k2 : Bytes) : Prop :=
  ∀ t msg, P.macValid t = true → P.mac t k1 msg ≠ P.mac t k2 msg

/-- REJECT FOREIGN KEY.  Under `KeySeparation`, a credential whose MAC was computed under another key is
    never accepted by this daemon: its decode cannot disclose anything. -/
theorem reject_foreign_key (P : Prims) (L : PrimLaws P) (cf : Conf) (otherKey : Bytes) (env : Env) (rs : ReplaySet)
    (m0 m : Msg) (s : Scratch) (h0 : m0.errorNum = 0) (hK : KeySeparation P cf.macKey otherKey)
    (hf : decFront P env rs m0 = .inr (m, s))
    (hforeign : s.mac = P.mac m.mac otherKey (s.outer ++ plainOf P cf m s)) :
    ¬ discloses (decProcess P cf env rs m0).msg.errorNum := by
  intro hd
  obtain ⟨m', s', hf', hmac, _⟩ := accept_implies_mac P cf env rs m0 h0 hd
  rw [hf] at hf'
  cases hf'
  obtain ⟨_, _, _, _, _, _, hv⟩ := decFront_inr P env rs m0 m s hf
  exact hK m.mac _ hv (hmac.trans hforeign)

end Munge.C02
