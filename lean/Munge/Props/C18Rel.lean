import Munge.Gen.TimerRel
/-!
# C18 (relative timers): `timer_set_relative` as translated from timer.c

The clock query `clock_get_timespec (&ts, msec)` and `timer_set_absolute (cb, arg, &ts)` are events; the timespec the first
stores through `&ts` is an opaque token.  (`clock_get_timespec` itself - "now + msec, normalised; now when msec ≤ 0" - is a
translated kernel with its own theorems in Props/C18.lean.)
-/
namespace Munge.C18Rel
open Munge.C Munge.Gen.TimerRel

/-- **A relative timer always asks the clock, whatever the delay - also for a delay of zero or less -, and is queued for exactly
    the time the clock query produced**: one clock query with the caller's `msec`, then one `timer_set_absolute` with that very
    timespec, whose result is returned.  (So a "due now" timer is keyed by the moment it was set and cannot sort ahead of
    timers that expired earlier and are still pending: the sorted-by-expiry order of the active list is the firing order.) -/
theorem relative_timer_is_keyed_by_the_clock (msec ts rc rs : Int) (hok : 0 ≤ rc) :
    (timer_set_relative msec ts rc rs).events = [("clock_get_timespec", [msec]), ("timer_set_absolute", [ts])] ∧
    (timer_set_relative msec ts rc rs).ret = rs := by
  have h : ¬ rc < 0 := by omega
  unfold timer_set_relative
  simp [h]

/-- a failing clock is logged as fatal before anything is queued -/
theorem failing_clock_is_fatal (msec ts rc rs : Int) (hf : rc < 0) :
    (timer_set_relative msec ts rc rs).events.take 2 = [("clock_get_timespec", [msec]), ("log_errno", [])] := by
  unfold timer_set_relative
  simp [hf]

example : (timer_set_relative 0 777 0 5).events = [("clock_get_timespec", [0]), ("timer_set_absolute", [777])] := by decide
example : (timer_set_relative (-5) 777 0 5).events = [("clock_get_timespec", [-5]), ("timer_set_absolute", [777])] := by decide

end Munge.C18Rel
