import Munge.Gen.Memcmp
/-!
# C02 (the MAC comparison itself): `crypto_memcmp` reports a difference exactly when the two strings differ

`crypto_memcmp` is a loop; tools/gen/g_memcmp.py checks its header on the AST (`for (i = 0, x = 0; i < n; i++)`, then
`return (x != 0)`) and translates the single statement of its body into `Gen.Memcmp.crypto_memcmp_step` (C types explicit: the
accumulator has `accBits` bits).  The model below runs that step over the byte pairs exactly as the loop does.
-/
namespace Munge.C02Memcmp
open Munge.C Munge.Gen.Memcmp

/-- the loop: the translated body, folded over the byte pairs from the current accumulator and index -/
def memcmpAcc : Int → Nat → List UInt8 → List UInt8 → Int
  | x, _, [], _ => x
  | x, _, _ :: _, [] => x
  | x, i, a :: as, b :: bs => memcmpAcc (crypto_memcmp_step i x a.toNat b.toNat).ret (i + 1) as bs

/-- `crypto_memcmp (a, b, n)` for two strings of `n` bytes: `x` starts at 0, the result is `x != 0` -/
def cryptoMemcmp (a b : List UInt8) : Int := if memcmpAcc 0 0 a b ≠ 0 then 1 else 0

theorem xor_eq_zero {a b : Nat} : a ^^^ b = 0 ↔ a = b := by
  constructor
  · intro h
    apply Nat.eq_of_testBit_eq
    intro i
    have := congrArg (fun n => n.testBit i) h
    simpa [Nat.testBit_xor] using this
  · rintro rfl; exact Nat.xor_self _

theorem step_zero_iff (i : Int) (x : Int) (a b : UInt8) (hx : 0 ≤ x) :
    (crypto_memcmp_step i x a.toNat b.toNat).ret = 0 ↔ x = 0 ∧ a = b := by
  unfold crypto_memcmp_step bor bxor
  simp only [Int.toNat_natCast, Int.ofNat_eq_natCast, Int.natCast_eq_zero, Nat.or_eq_zero_iff, xor_eq_zero]
  constructor
  · rintro ⟨h1, h2⟩
    exact ⟨by omega, UInt8.toNat_inj.mp h2⟩
  · rintro ⟨h1, h2⟩
    exact ⟨by omega, by rw [h2]⟩

theorem step_nonneg (i : Int) (x : Int) (a b : UInt8) : 0 ≤ (crypto_memcmp_step i x a.toNat b.toNat).ret := by
  unfold crypto_memcmp_step bor; exact Int.natCast_nonneg _

theorem acc_zero_iff (as bs : List UInt8) (h : as.length = bs.length) (x : Int) (i : Nat) (hx : 0 ≤ x) :
    memcmpAcc x i as bs = 0 ↔ x = 0 ∧ as = bs := by
  induction as generalizing bs x i with
  | nil =>
    cases bs with
    | nil => simp [memcmpAcc]
    | cons b bs => simp at h
  | cons a as ih =>
    cases bs with
    | nil => simp at h
    | cons b bs =>
      simp only [memcmpAcc]
      rw [ih bs (by simpa using h) _ _ (step_nonneg _ _ _ _), step_zero_iff _ _ _ _ hx]
      constructor
      · rintro ⟨⟨h1, h2⟩, h3⟩; exact ⟨h1, by rw [h2, h3]⟩
      · rintro ⟨h1, h2⟩; cases h2; exact ⟨⟨h1, rfl⟩, rfl⟩

/-- **The comparison used for the MAC reports "equal" exactly when every byte is equal**: for two strings of the same length
    (the caller passes `mac_len` for both), `crypto_memcmp` returns 0 ⇔ the strings are identical - no byte position is
    skipped, no bit of a difference is dropped by the accumulator.  (C02-m1, `x =` for `x |=`, and C02-r3m1, a word-wise loop
    with a 32-bit accumulator, both change the generated step or the loop header.) -/
theorem ct_compare_detects_every_difference (a b : List UInt8) (h : a.length = b.length) :
    cryptoMemcmp a b = 0 ↔ a = b := by
  unfold cryptoMemcmp
  have := acc_zero_iff a b h 0 0 (by omega)
  by_cases hz : memcmpAcc 0 0 a b = 0
  · simp [hz]; exact (this.mp hz).2
  · simp [hz]; intro hab; exact hz (this.mpr ⟨rfl, hab⟩)

/-- the accumulator is a single byte wide and the step touches nothing but it -/
theorem step_is_pure (i x a b : Int) : (crypto_memcmp_step i x a b).writes = [] ∧ (crypto_memcmp_step i x a b).events = [] ∧ accBits = 8 := by
  unfold crypto_memcmp_step accBits; simp

example : cryptoMemcmp [1, 2, 3] [1, 2, 3] = 0 ∧ cryptoMemcmp [1, 2, 3] [1, 2, 131] = 1 ∧ cryptoMemcmp [0, 0, 0, 0, 16] [0, 0, 0, 0, 0] = 1 := by decide

end Munge.C02Memcmp
