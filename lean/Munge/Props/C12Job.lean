import Munge.Gen.Job
/-!
# C12, acceptor side: one trip of the accept loop of `job_accept` (src/munged/job.c)

`Munge.Gen.Job.job_accept_iter` is the body of `while (!got_terminate) { … }`, translated from clang's AST on every run
(tools/gen/g_job.py): inputs are the variables that live across trips and the results of the calls the body makes, the
events are the calls in order, `ret` says whether the trip ended in `continue` (`CONT`) or ran to the end (`NEXT`).
The errno values are those of the platform the check runs on (Linux: EINTR 4, ENOMEM 12, ENFILE 23, EMFILE 24,
ECONNABORTED 103, ENOBUFS 105), as they appear in the AST.

"Every request munged accepts is handed to exactly one worker thread exactly once" starts here: the theorems say that an
accepted connection is queued exactly once or released exactly once, and that descriptor / memory exhaustion ALWAYS waits
for the backlog (`work_wait`) before `accept` is called again - on every trip, not only when the rate-limited log line is
written.  The worker side (`work.c`) is Props/C12.lean.
-/
namespace Munge.C12Job
open Munge.C Munge.Gen.Job

/-- Whatever happens, a trip calls `accept` exactly once. -/
theorem one_accept_per_trip (gr e lle llt ra rt rn rc rb rq : Int) :
    (job_accept_iter gr e lle llt ra rt rn rc rb rq).count "accept" = 1 := by
  unfold job_accept_iter
  simp only [apply_ite (fun o : KOut => KOut.count o "accept")]
  simp [KOut.count]

/-- EMFILE / ENFILE / ENOBUFS / ENOMEM from `accept`: the acceptor waits for the backlog exactly once, queues nothing, and
    the wait is the last thing it does before it goes back to `accept` - whatever the log rate limiter (last_log_time,
    last_log_errno, the clock) decides. -/
theorem exhaustion_waits_for_backlog (gr e lle llt ra rt rn rc rb rq : Int)
    (hacc : ra < 0) (he : e = 24 ∨ e = 23 ∨ e = 105 ∨ e = 12) :
    (job_accept_iter gr e lle llt ra rt rn rc rb rq).ret = CONT ∧
    (job_accept_iter gr e lle llt ra rt rn rc rb rq).count "work_wait" = 1 ∧
    (job_accept_iter gr e lle llt ra rt rn rc rb rq).count "work_queue" = 0 ∧
    (job_accept_iter gr e lle llt ra rt rn rc rb rq).events.getLast? = some ("work_wait", []) := by
  unfold job_accept_iter
  simp only [apply_ite KOut.ret, apply_ite KOut.events, apply_ite (fun o : KOut => KOut.count o "work_wait"),
    apply_ite (fun o : KOut => KOut.count o "work_queue"), apply_ite List.getLast?]
  rcases he with rfl | rfl | rfl | rfl <;> simp [hacc, KOut.count, CONT]

/-- ECONNABORTED / EINTR: the trip just goes round again: nothing is queued, closed, destroyed or waited for. -/
theorem transient_errors_retry (gr e lle llt ra rt rn rc rb rq : Int)
    (hacc : ra < 0) (he : e = 103 ∨ e = 4) :
    (job_accept_iter gr e lle llt ra rt rn rc rb rq).ret = CONT ∧
    (job_accept_iter gr e lle llt ra rt rn rc rb rq).count "work_wait" = 0 ∧
    (job_accept_iter gr e lle llt ra rt rn rc rb rq).count "work_queue" = 0 ∧
    (job_accept_iter gr e lle llt ra rt rn rc rb rq).count "close" = 0 ∧
    (job_accept_iter gr e lle llt ra rt rn rc rb rq).count "m_msg_destroy" = 0 := by
  unfold job_accept_iter
  simp only [apply_ite KOut.ret, apply_ite (fun o : KOut => KOut.count o "work_wait"),
    apply_ite (fun o : KOut => KOut.count o "work_queue"), apply_ite (fun o : KOut => KOut.count o "close"),
    apply_ite (fun o : KOut => KOut.count o "m_msg_destroy")]
  rcases he with rfl | rfl <;> simp [hacc, KOut.count, CONT]

/-- An accepted connection whose set-up succeeds is queued exactly once and not touched again by the acceptor. -/
theorem accepted_is_queued_once (gr e lle llt ra rt rn rc rb rq : Int)
    (hacc : 0 ≤ ra) (hn : 0 ≤ rn) (hc : rc = 0) (hb : rb = 0) (hq : 0 ≤ rq) :
    (job_accept_iter gr e lle llt ra rt rn rc rb rq).ret = NEXT ∧
    (job_accept_iter gr e lle llt ra rt rn rc rb rq).count "work_queue" = 1 ∧
    (job_accept_iter gr e lle llt ra rt rn rc rb rq).count "close" = 0 ∧
    (job_accept_iter gr e lle llt ra rt rn rc rb rq).count "m_msg_destroy" = 0 ∧
    (job_accept_iter gr e lle llt ra rt rn rc rb rq).count "work_wait" = 0 := by
  have h1 : ¬ ra < 0 := by omega
  have h2 : ¬ rn < 0 := by omega
  have h3 : ¬ rq < 0 := by omega
  subst hc hb
  unfold job_accept_iter
  simp only [apply_ite KOut.ret, apply_ite (fun o : KOut => KOut.count o "work_wait"),
    apply_ite (fun o : KOut => KOut.count o "work_queue"), apply_ite (fun o : KOut => KOut.count o "close"),
    apply_ite (fun o : KOut => KOut.count o "m_msg_destroy")]
  simp [h1, h2, h3, KOut.count, NEXT, wrapU32]

/-- An accepted connection is handed over at most once; if it is NOT handed over successfully it is released exactly once
    (descriptor closed or message destroyed) - never twice, never leaked; if it is handed over, the acceptor does not
    touch it again. -/
theorem accepted_released_or_queued (gr e lle llt ra rt rn rc rb rq : Int) (hacc : 0 ≤ ra) :
    (job_accept_iter gr e lle llt ra rt rn rc rb rq).count "work_queue" ≤ 1 ∧
    (((job_accept_iter gr e lle llt ra rt rn rc rb rq).count "work_queue" = 1 ∧ 0 ≤ rq ∧
       (job_accept_iter gr e lle llt ra rt rn rc rb rq).count "close" + (job_accept_iter gr e lle llt ra rt rn rc rb rq).count "m_msg_destroy" = 0) ∨
     ((job_accept_iter gr e lle llt ra rt rn rc rb rq).count "close" + (job_accept_iter gr e lle llt ra rt rn rc rb rq).count "m_msg_destroy" = 1 ∧
       ((job_accept_iter gr e lle llt ra rt rn rc rb rq).count "work_queue" = 1 → rq < 0))) := by
  have h1 : ¬ ra < 0 := by omega
  unfold job_accept_iter
  simp only [apply_ite (fun o : KOut => KOut.count o "work_queue"), apply_ite (fun o : KOut => KOut.count o "close"),
    apply_ite (fun o : KOut => KOut.count o "m_msg_destroy")]
  simp only [h1, if_false, KOut.count]
  by_cases hg : gr = 0 <;> by_cases hn : rn < 0 <;> by_cases hc : wrapU32 rc = 0 <;> by_cases hb : wrapU32 rb = 0 <;>
    by_cases hq : rq < 0 <;> simp [hg, hn, hc, hb, hq] <;> omega

/-- non-vacuity: the second exhaustion within the log interval (nothing is logged) still waits -/
example : (job_accept_iter 0 24 24 1000 (-1) 1010 0 0 0 0).events = [("accept", []), ("work_wait", [])] := by decide

end Munge.C12Job
