import Munge.Model.Path
import Munge.Lemmas.Path
/-
C16 — Start-up refuses insecure key, path and file settings; created files are safe.

Property theorems only; helper lemmas live in `Munge/Lemmas/Path.lean`.  Every decision procedure mentioned
below (`dirCheck`, `conf_open_keyfile`, `random_read_seed`, `random_read_entropy_from_file`, `lock_stat`,
`write_pidfile`, `open_logfile`, `sock_create`, the `*_creates` / `*_umaskAfter` tables) is `Munge.Gen.Path.*`,
regenerated from `src/munged/{path,conf,random,lock,munged}.c` on every run, so each theorem is re-checked
against what the C source says now.  The vocabulary of the statements (`IsDir`, `groupW`, `sticky`, …) is written
here independently, as arithmetic on `st_mode`, not with the generated masks.
-/
set_option linter.unusedSimpArgs false
namespace Munge.C16
open Munge.C Munge.Path Munge.Gen.Path

/-! ### vocabulary of the statement (POSIX `st_mode` encoding) -/

/-- the file-type field of `st_mode` (`st_mode >> 12`) -/
def fileType (m : Int) : Int := m / 4096 % 16
/-- directory: `0040000` -/
def IsDir (m : Int) : Prop := fileType m = 4
/-- regular file: `0100000` -/
def IsReg (m : Int) : Prop := fileType m = 8
/-- symbolic link: `0120000` -/
def IsLnk (m : Int) : Prop := fileType m = 10
/-- group read `0040`, group write `0020`, other read `0004`, other write `0002`, sticky `01000` -/
def groupR (m : Int) : Prop := m / 32 % 2 = 1
def groupW (m : Int) : Prop := m / 16 % 2 = 1
def otherR (m : Int) : Prop := m / 4 % 2 = 1
def otherW (m : Int) : Prop := m / 2 % 2 = 1
def sticky (m : Int) : Prop := m / 512 % 2 = 1
/-- bit 0 of the flags argument: the directory holds the log file -/
def ignoreGroupWrite (flags : Int) : Prop := flags % 2 = 1
/-- value of `_path_trusted_gid` when no `--trusted-group` was given: `(gid_t) -1` -/
def noTrustedGroup : Int := 4294967295

/-- The statement's condition on one directory: owned by root or the effective user; not group-writable without
    the sticky bit (tolerated for the trusted group and for log directories); not world-writable without it. -/
structure DirSecure (flags tgid euid : Int) (s : Stat) : Prop where
  owner : s.uid = 0 ∨ s.uid = euid
  group : groupW s.mode → sticky s.mode ∨ ignoreGroupWrite flags ∨ (tgid ≠ noTrustedGroup ∧ s.gid = tgid)
  world : otherW s.mode → sticky s.mode

/-- The statement's condition on the key file as `lstat`/`stat` see it: it exists, is a regular file, the name
    is not a symbolic link, the owner is the effective user, and group and other can neither read nor write. -/
structure KeyFileOk (euid : Int) (v : FileView) : Prop where
  notLink : ¬ ∃ l, v.l = some l ∧ IsLnk l.mode
  ok : ∃ s, v.s = some s ∧ IsReg s.mode ∧ s.uid = euid ∧
    ¬ groupR s.mode ∧ ¬ groupW s.mode ∧ ¬ otherR s.mode ∧ ¬ otherW s.mode

/-! ### the platform constants the kernels were compiled against -/

/-- the probed `S_I*` macros are the POSIX/Linux values the vocabulary above is written in -/
theorem platform_constants :
    S_IFMT = 0o170000 ∧ S_IFDIR = 0o040000 ∧ S_IFREG = 0o100000 ∧ S_IFLNK = 0o120000 ∧ S_ISVTX = 0o1000 ∧
    S_IWUSR = 0o200 ∧ S_IRGRP = 0o040 ∧ S_IWGRP = 0o020 ∧ S_IROTH = 0o004 ∧ S_IWOTH = 0o002 ∧
    GID_SENTINEL = noTrustedGroup ∧ PATH_SECURITY_NO_FLAGS = 0 ∧ PATH_SECURITY_IGNORE_GROUP_WRITE = 1 := by
  decide

/-! ### one directory -/

/-- The generated per-directory test of `path_is_secure`'s loop body says "continue" (2) exactly for a directory
    satisfying the statement's condition, "insecure" (0) exactly for a directory violating it, and "error" (-1)
    exactly for a non-directory. -/
theorem dir_secure_spec (flags tgid euid : Int) (s : Stat) (hm : 0 ≤ s.mode) (hf : 0 ≤ flags) :
    let r := (dirCheck flags tgid euid 0 s.mode s.uid s.gid).ret
    (r = 2 ↔ IsDir s.mode ∧ DirSecure flags tgid euid s) ∧
    (r = 0 ↔ IsDir s.mode ∧ ¬ DirSecure flags tgid euid s) ∧
    (r = -1 ↔ ¬ IsDir s.mode) := by
  intro r
  have hr : r = (dirCheck flags tgid euid 0 s.mode s.uid s.gid).ret := rfl
  have hiff : DirSecure flags tgid euid s ↔
      (s.uid = 0 ∨ s.uid = euid) ∧
      (groupW s.mode → sticky s.mode ∨ ignoreGroupWrite flags ∨ (tgid ≠ noTrustedGroup ∧ s.gid = tgid)) ∧
      (otherW s.mode → sticky s.mode) :=
    ⟨fun h => ⟨h.1, h.2, h.3⟩, fun h => ⟨h.1, h.2.1, h.2.2⟩⟩
  rw [hiff]
  unfold dirCheck at hr
  simp only [apply_ite KOut.ret] at hr
  kband [hm, hf] at hr
  unfold IsDir fileType groupW otherW sticky ignoreGroupWrite noTrustedGroup
  generalize s.mode = m at *
  generalize s.uid = u at *
  generalize s.gid = g at *
  omega

/-- a directory that cannot be `lstat`ed is an error, never "secure" -/
theorem dir_unstatable (flags tgid euid rc m u g : Int) (h : rc < 0) :
    (dirCheck flags tgid euid rc m u g).ret = -1 := by
  unfold dirCheck
  simp only [apply_ite KOut.ret]
  omega

/-- the per-directory test never answers 1 ("secure"): 1 is only returned after the loop has run out of ancestors -/
theorem dir_check_never_one (flags tgid euid rc m u g : Int) : (dirCheck flags tgid euid rc m u g).ret ≠ 1 := by
  unfold dirCheck
  simp only [apply_ite KOut.ret]
  repeat' split
  all_goals omega

/-! ### every ancestor, any depth -/

/-- the per-directory check applied to the `lstat` view of a path succeeds exactly for an existing directory
    satisfying the statement's condition -/
theorem dir_check_on_env (flags tgid euid : Int) (env : Env) (a : List Char)
    (hmodes : ∀ p s, env p = some s → 0 ≤ s.mode) (hf : 0 ≤ flags) :
    (checkDir flags tgid euid env a).ret = 2 ↔
      ∃ s, env a = some s ∧ IsDir s.mode ∧ DirSecure flags tgid euid s := by
  unfold checkDir
  cases h : env a with
  | none =>
    simp only [dir_unstatable flags tgid euid (-1) 0 0 0 (by omega)]
    constructor
    · intro h'; omega
    · rintro ⟨s, hs, _⟩; cases hs
  | some s =>
    have := (dir_secure_spec flags tgid euid s (hmodes a s h) hf).1
    simp only at this ⊢
    rw [this]
    constructor
    · intro h'; exact ⟨s, rfl, h'⟩
    · rintro ⟨s', hs, h'⟩; cases hs; exact h'

/-- `path_is_secure` on a canonical directory path `/c₁/…/cₙ` of ANY depth returns 1 exactly when the directory
    and EVERY ancestor up to and including `/` exists, is a directory and satisfies the statement's condition
    (`cs.take k` for `k = 0 … n` enumerates `/`, `/c₁`, …, `/c₁/…/cₙ`).  The string loop that strips one component
    per iteration is hand-modelled (`Path.walk`, tied to path.c by the generator's shape obligations and by the
    correspondence stream); the per-directory test is the generated `dirCheck`. -/
theorem path_secure_all_ancestors (flags tgid euid : Int) (env : Env) (cs : List (List Char)) (hcs : Comps cs)
    (hleaf : ∃ s, env (render cs) = some s ∧ IsDir s.mode)
    (hmodes : ∀ p s, env p = some s → 0 ≤ s.mode) (hf : 0 ≤ flags) :
    (isSecure flags tgid euid env (some (render cs))).rc = 1 ↔
      ∀ k, k ≤ cs.length → ∃ s, env (render (cs.take k)) = some s ∧ IsDir s.mode ∧ DirSecure flags tgid euid s := by
  obtain ⟨s0, hs0, hd0⟩ := hleaf
  have hdm : isDirMode s0.mode := by
    unfold isDirMode S_IFMT S_IFDIR
    rw [band_61440 _ (hmodes _ _ hs0)]
    unfold IsDir fileType at hd0; omega
  unfold isSecure
  simp only [render_head cs hcs, ne_eq, not_true_eq_false, if_false, hs0, startBuf, hdm, if_true]
  rw [walk_render _ _ _ _ _ hcs, firstFail_one_iff _ _ _ _ _ (fun a => by unfold checkDir; split <;> exact dir_check_never_one _ _ _ _ _ _ _)]
  constructor
  · intro h k hk
    have hmem : render (cs.take k) ∈ ancestors cs := by
      unfold ancestors
      rw [List.mem_reverse, List.mem_map]
      exact ⟨k, List.mem_range.2 (by omega), rfl⟩
    exact (dir_check_on_env _ _ _ _ _ hmodes hf).1 (h _ hmem)
  · intro h a ha
    unfold ancestors at ha
    rw [List.mem_reverse, List.mem_map] at ha
    obtain ⟨k, hk, rfl⟩ := ha
    exact (dir_check_on_env _ _ _ _ _ hmodes hf).2 (h k (by have := List.mem_range.1 hk; omega))

/-- … and it never answers "secure" by accident: a result other than 1 is 0 or -1, and 0 ("insecure", the case
    `--force` may override) is returned only when some ancestor is a directory violating the condition. -/
theorem path_insecure_witness (flags tgid euid : Int) (env : Env) (cs : List (List Char)) (hcs : Comps cs)
    (hleaf : ∃ s, env (render cs) = some s ∧ IsDir s.mode)
    (hmodes : ∀ p s, env p = some s → 0 ≤ s.mode) (hf : 0 ≤ flags)
    (h0 : (isSecure flags tgid euid env (some (render cs))).rc = 0) :
    ∃ k, k ≤ cs.length ∧ ∃ s, env (render (cs.take k)) = some s ∧ IsDir s.mode ∧ ¬ DirSecure flags tgid euid s := by
  obtain ⟨s0, hs0, hd0⟩ := hleaf
  have hdm : isDirMode s0.mode := by
    unfold isDirMode S_IFMT S_IFDIR
    rw [band_61440 _ (hmodes _ _ hs0)]
    unfold IsDir fileType at hd0; omega
  unfold isSecure at h0
  simp only [render_head cs hcs, ne_eq, not_true_eq_false, if_false, hs0, startBuf, hdm, if_true] at h0
  rw [walk_render _ _ _ _ _ hcs] at h0
  have key : ∀ l : List (List Char), (firstFail flags tgid euid env l).rc = 0 →
      ∃ a ∈ l, (checkDir flags tgid euid env a).ret = 0 := by
    intro l
    induction l with
    | nil => simp [firstFail]
    | cons a rest ih =>
      simp only [firstFail]
      by_cases h : (checkDir flags tgid euid env a).ret = 2
      · simp only [h, ne_eq, not_true_eq_false, if_false]
        intro h'; obtain ⟨b, hb, hb'⟩ := ih h'
        exact ⟨b, List.mem_cons_of_mem _ hb, hb'⟩
      · simp only [h, ne_eq, not_false_eq_true, if_true]
        intro h'; exact ⟨a, List.mem_cons_self, h'⟩
  obtain ⟨a, ha, hr⟩ := key _ h0
  unfold ancestors at ha
  rw [List.mem_reverse, List.mem_map] at ha
  obtain ⟨k, hk, rfl⟩ := ha
  refine ⟨k, by have := List.mem_range.1 hk; omega, ?_⟩
  unfold checkDir at hr
  cases he : env (render (cs.take k)) with
  | none =>
    rw [he] at hr
    rw [dir_unstatable flags tgid euid (-1) 0 0 0 (by omega)] at hr
    omega
  | some s =>
    rw [he] at hr
    exact ⟨s, rfl, ((dir_secure_spec flags tgid euid s (hmodes _ _ he) hf).2.1).1 hr⟩

/-! ### which flag each start-up site passes -/

/-- The log-file site consults `path_is_secure` only with `PATH_SECURITY_IGNORE_GROUP_WRITE` (group-writable log
    directories are tolerated); the key, seed, pid and socket sites only with `PATH_SECURITY_NO_FLAGS`. -/
theorem site_flags (sec sec' : Int → Int) :
    (sec 1 = sec' 1 → ∀ a b c d e f g h i j k l m n,
      open_logfile a b c d e f g h i j k l m n sec = open_logfile a b c d e f g h i j k l m n sec') ∧
    (sec 0 = sec' 0 →
      (∀ a b c d e f g h i j k, conf_open_keyfile a b c d e f g h i j k sec = conf_open_keyfile a b c d e f g h i j k sec') ∧
      (∀ a b c d e f rd, random_read_entropy_from_file a b c d e f sec rd = random_read_entropy_from_file a b c d e f sec' rd) ∧
      (∀ a b c d e f g h i j, write_pidfile a b c d e f g h i j sec = write_pidfile a b c d e f g h i j sec') ∧
      (∀ a b c d e f g h i j k l m n o, sock_create a b c d e f g h i j k l m n o sec = sock_create a b c d e f g h i j k l m n o sec')) := by
  refine ⟨fun h => ?_, fun h => ⟨?_, ?_, ?_, ?_⟩⟩
  · intros; unfold open_logfile; simp only [h]
  · intros; unfold conf_open_keyfile; simp only [h]
  · intros; unfold random_read_entropy_from_file; simp only [h]
  · intros; unfold write_pidfile; simp only [h]
  · intros; unfold sock_create; simp only [h]

/-- Start-up hands each checked function the configured file name and the configured `--force` flag (the argument
    expressions at the call sites in `main`, `create_subkeys`, `random_init`, `random_fini`, `sock_create`, extracted
    from the AST), so the per-function theorems below speak about what the daemon actually runs. -/
theorem call_sites : ∀ c ∈ callSites, c.2.1 = c.2.2 := by
  decide

/-! ### the key file -/

/-- The exact survival condition of `_conf_open_keyfile` in arithmetic form (`lrc/lmode` from `lstat`, `src/smode/suid`
    from `stat`, `sec 0` the answer of `path_is_secure` on the key's directory): without `--force` every condition of
    the statement is required; with `--force` only existence, file type, an error-free directory check and `open`. -/
theorem keyfile_decision (force name0 lrc lmode src smode suid euid fd : Int) (sec : Int → Int)
    (hl : 0 ≤ lmode) (hs : 0 ≤ smode) (hname : name0 ≠ 0) (hsec : sec 0 ≤ 1) :
    (force = 0 →
      (fatal (conf_open_keyfile 1 name0 force lrc lmode src smode suid euid 0 fd sec) = false ↔
        (¬ src < 0 ∧ smode / 4096 % 16 = 8 ∧ ¬ (lrc = 0 ∧ lmode / 4096 % 16 = 10) ∧ suid = euid ∧
         smode / 16 % 4 = 0 ∧ smode / 2 % 4 = 0 ∧ sec 0 = 1 ∧ 0 ≤ fd))) ∧
    (force ≠ 0 →
      (fatal (conf_open_keyfile 1 name0 force lrc lmode src smode suid euid 0 fd sec) = false ↔
        (¬ src < 0 ∧ smode / 4096 % 16 = 8 ∧ 0 ≤ sec 0 ∧ 0 ≤ fd))) := by
  unfold conf_open_keyfile
  generalize sec 0 = z at *
  kband [hl, hs]
  simp only [fatal_ite]
  simp only [fatal, List.any_cons, List.any_nil, String.reduceBEq, Bool.or_false]
  kbool
  constructor <;> intro hforce <;> omega


/-- Without `--force`, `_conf_open_keyfile` survives (reaches no fatal `log_err`) exactly when the key file is a
    regular, non-symlinked file owned by the effective user without group/other read or write permission, its
    directory path is secure (`path_is_secure … = 1`, characterised by `path_secure_all_ancestors`), and it can be
    opened.  `sec` is the answer of `path_is_secure` on the key's directory. -/
theorem keyfile_spec (euid name0 : Int) (v : FileView) (sec : Int → Int) (fd : Int)
    (hname : name0 ≠ 0) (hl : 0 ≤ modeOf v.l) (hs : 0 ≤ modeOf v.s) (hsec : sec 0 ≤ 1) :
    fatal (keyfile 0 euid name0 v sec fd) = false ↔ KeyFileOk euid v ∧ sec 0 = 1 ∧ 0 ≤ fd := by
  unfold keyfile
  rw [(keyfile_decision 0 name0 _ _ _ _ _ euid fd sec hl hs hname hsec).1 rfl]
  rcases v with ⟨l, s⟩
  constructor
  · rintro ⟨h1, h2, h3, h4, h5, h6, h7, h8⟩
    cases s with
    | none => simp [rcOf] at h1
    | some st =>
      simp only [modeOf, uidOf, Option.getD_some] at h2 h4 h5 h6
      refine ⟨⟨?_, st, rfl, h2, h4, ?_, ?_, ?_, ?_⟩, h7, h8⟩
      · rintro ⟨l', hl', hlnk⟩
        simp only at hl'; subst hl'
        exact h3 ⟨by simp [rcOf], by simpa [modeOf, IsLnk, fileType] using hlnk⟩
      all_goals (simp only [groupR, groupW, otherR, otherW]; omega)
  · rintro ⟨⟨hnl, st, hst, hreg, huid, hgr, hgw, hor, how⟩, h7, h8⟩
    simp only at hst; subst hst
    unfold groupR at hgr; unfold groupW at hgw; unfold otherR at hor; unfold otherW at how
    refine ⟨by simp [rcOf], by simpa [modeOf, IsReg, fileType] using hreg, ?_, by simpa [uidOf] using huid,
      by simp only [modeOf, Option.getD_some]; omega, by simp only [modeOf, Option.getD_some]; omega, h7, h8⟩
    rintro ⟨hrc, hlm⟩
    cases l with
    | none => simp [rcOf] at hrc
    | some l' => exact hnl ⟨l', rfl, by simpa [modeOf, IsLnk, fileType] using hlm⟩

/-- With `--force` the ownership, permission, symlink and directory conditions only warn; what stays fatal is a
    missing key, a key that is not a regular file, an error (as opposed to "insecure") from the directory check, and
    a failing `open`. -/
theorem keyfile_forced (force euid name0 : Int) (v : FileView) (sec : Int → Int) (fd : Int) (hforce : force ≠ 0)
    (hname : name0 ≠ 0) (hl : 0 ≤ modeOf v.l) (hs : 0 ≤ modeOf v.s) (hsec : sec 0 ≤ 1) :
    fatal (keyfile force euid name0 v sec fd) = false ↔
      (∃ s, v.s = some s ∧ IsReg s.mode) ∧ 0 ≤ sec 0 ∧ 0 ≤ fd := by
  unfold keyfile
  rw [(keyfile_decision force name0 _ _ _ _ _ euid fd sec hl hs hname hsec).2 hforce]
  rcases v with ⟨l, s⟩
  cases s with
  | none => simp [rcOf]
  | some st => simp [rcOf, modeOf, IsReg, fileType]

/-! ### refusal without `--force` at the other sites -/

/-- Without `--force`, whenever `path_is_secure` does not answer 1 for the directory of the pid file, the socket,
    the log file or the seed file (with the flag shown in `site_flags`), start-up dies in a fatal `log_err`:
    none of these functions returns normally.  (Key file: `keyfile_spec`.) -/
theorem refuse_without_force (sec : Int → Int) :
    (sec 0 ≤ 0 → ∀ u p p0 dn ur ue fo fp fc, fatal (write_pidfile u p p0 0 dn ur ue fo fp fc sec) = true) ∧
    (sec 0 ≤ 0 → ∀ u c sn sn0 lb dn ac ur ue sfd sl sz brc lrc,
      fatal (sock_create u c sn sn0 0 lb dn ac ur ue sfd sl sz brc lrc sec) = true) ∧
    (sec 1 ≤ 0 → ∀ u lf lf0 pr lrc lm src sen sm su eu dn fo,
      fatal (open_logfile u lf lf0 0 pr lrc lm src sen sm su eu dn fo sec) = true) ∧
    (sec 0 ≤ 0 → ∀ p p0 dn ur ue rd, p ≠ 0 → p0 ≠ 0 →
      fatal (random_read_entropy_from_file p p0 0 dn ur ue sec rd) = true) := by
  refine ⟨fun h => ?_, fun h => ?_, fun h => ?_, fun h => ?_⟩
  · intros
    unfold write_pidfile
    generalize sec 0 = z at *
    simp only [fatal_ite]
    simp only [fatal, List.any_cons, List.any_nil, String.reduceBEq, Bool.or_false, Bool.false_or, Bool.or_self]
    kbool
    omega
  · intros
    unfold sock_create
    generalize sec 0 = z at *
    simp only [fatal_ite]
    simp only [fatal, List.any_cons, List.any_nil, String.reduceBEq, Bool.or_false, Bool.false_or, Bool.or_self]
    kbool
    unfold wrapS32
    omega
  · intros
    unfold open_logfile
    generalize sec 1 = z at *
    simp only [fatal_ite]
    simp only [fatal, List.any_cons, List.any_nil, String.reduceBEq, Bool.or_false, Bool.false_or, Bool.or_self]
    simp only [b2i]
    kbool
    omega
  · intro p p0 dn ur ue rd hp hp0
    unfold random_read_entropy_from_file
    generalize sec 0 = z at *
    generalize rd 1024 = n at *
    simp only [fatal_ite]
    simp only [fatal, List.any_cons, List.any_nil, String.reduceBEq, Bool.or_false, Bool.false_or, Bool.or_self]
    kbool
    unfold wrapS32
    omega

/-! ### created files, for every inherited umask -/

/-- For all 512 inherited umasks: the socket is created 0777 and the lock file 0200 exactly; the pid, log and seed
    files are never more permissive than 0644, 0640 and 0600; each function creates exactly one file; and each
    leaves the process umask as it found it.  (`*_creates` / `*_umaskAfter` are generated from the `umask (…)` and
    `open`/`fopen`/`bind` calls of the C functions; `createdMode` is `mode & ~umask` with 0666 for `fopen` and 0777
    for `bind`.) -/
theorem modes : ∀ u : Fin 512,
    sockModes (u.val : Int) = [0o777] ∧
    lockModes (u.val : Int) = [0o200] ∧
    ((pidModes (u.val : Int)).length = 1 ∧ ∀ m ∈ pidModes (u.val : Int), within m 0o644) ∧
    ((logModes (u.val : Int)).length = 1 ∧ ∀ m ∈ logModes (u.val : Int), within m 0o640) ∧
    ((seedModes (u.val : Int)).length = 1 ∧ ∀ m ∈ seedModes (u.val : Int), within m 0o600) ∧
    sock_create_umaskAfter (u.val : Int) = [(u.val : Int)] ∧
    lock_create_umaskAfter (u.val : Int) = [(u.val : Int)] ∧
    write_pidfile_umaskAfter (u.val : Int) = [(u.val : Int)] ∧
    open_logfile_umaskAfter (u.val : Int) = [(u.val : Int)] ∧
    random_write_seed_umaskAfter (u.val : Int) = [(u.val : Int)] := by
  decide +kernel

/-- The seed is written to a FRESH file: whatever sits at the seed path by then (a file of another owner or mode planted while
    the daemon ran, a symbolic link) is unlinked immediately before the creating `open`, for every input - so the mode
    argument of that `open` (bounded by `modes` above) is what the seed file gets, and no link is followed. -/
theorem seed_written_fresh (u nb ur eur fd nl nw n cr : Int) :
    (random_write_seed u nb ur eur fd nl nw n cr).events.take 2 = [("unlink", []), ("open", [0o600, u])] := by
  unfold random_write_seed
  split <;> rfl

/-- A lock file that already exists is only accepted if it is a regular file with permission bits exactly 0200
    owned by the effective user: `_lock_stat` is fatal otherwise (with or without `--force`), … -/
theorem lock_exact (frc fmode fuid euid : Int) (hm : 0 ≤ fmode) :
    fatal (lock_stat frc fmode fuid euid) = false ↔
      0 ≤ frc ∧ IsReg fmode ∧ fmode % 4096 = 0o200 ∧ fuid = euid := by
  unfold lock_stat
  kband [hm]
  simp only [fatal_ite]
  simp only [fatal, List.any_cons, List.any_nil, String.reduceBEq, Bool.or_false]
  kbool
  unfold IsReg fileType
  omega

/-- … and `lock_create` runs that check on every path on which the lock file was opened. -/
theorem lock_checked (u c f ofd ur ue crc fd ls lp st : Int) (hfd : 0 ≤ fd) (hc : c ≠ 0) (hclose : ofd < 0 ∨ 0 ≤ crc) :
    (lock_create u c f ofd ur ue crc fd ls lp st).calls "_lock_stat" = true := by
  unfold lock_create
  simp only [calls_ite]
  simp only [KOut.calls, List.any_cons, List.any_nil, String.reduceBEq, Bool.or_false, Bool.false_or, Bool.or_true,
    Bool.true_or, Bool.or_self]
  kbool
  unfold wrapS32
  omega

/-! ### the seed file -/

/-- the statement's condition on an existing seed file: regular, not a symlink, owned by the effective user, no
    group/other read or write permission (`l` = `lstat` of the name, `f` = `fstat` of the opened descriptor) -/
structure SeedFileOk (euid : Int) (l f : Option Stat) : Prop where
  notLink : ¬ ∃ s, l = some s ∧ IsLnk s.mode
  ok : ∃ s, f = some s ∧ IsReg s.mode ∧ s.uid = euid ∧
    ¬ groupR s.mode ∧ ¬ groupW s.mode ∧ ¬ otherR s.mode ∧ ¬ otherW s.mode

/-- `_random_read_seed` reaches its read loop exactly when every vetting condition holds (not a symlink, `fstat` succeeds,
    regular file, owned by the effective user, no group/other read or write bits); otherwise it returns -1 without
    reading (arithmetic form; `fd ≥ 0`: the file exists and could be opened). -/
theorem seed_vetting (nb lrc lmode fd en frc fmode fuid euid left : Int) (hl : 0 ≤ lmode) (hf : 0 ≤ fmode)
    (hfd : 0 ≤ fd) (o : KOut) (ho : o = random_read_seed nb lrc lmode fd en frc fmode fuid euid left 0 0 0) :
    ((¬ (lrc = 0 ∧ lmode / 4096 % 16 = 10) ∧ 0 ≤ frc ∧ fmode / 4096 % 16 = 8 ∧ fuid = euid ∧ fmode / 16 % 4 = 0 ∧
        fmode / 2 % 4 = 0) → o.calls "loop" = true ∧ o.ret = wrapS32 (nb - left)) ∧
    (¬ (¬ (lrc = 0 ∧ lmode / 4096 % 16 = 10) ∧ 0 ≤ frc ∧ fmode / 4096 % 16 = 8 ∧ fuid = euid ∧ fmode / 16 % 4 = 0 ∧
        fmode / 2 % 4 = 0) → o.calls "loop" = false ∧ o.ret = -1) := by
  unfold random_read_seed at ho
  kband [hl, hf] at ho
  subst ho
  simp only [calls_ite, apply_ite KOut.ret]
  simp only [KOut.calls, List.any_cons, List.any_nil, String.reduceBEq, Bool.or_false]
  constructor
  · intro h
    refine ⟨?_, ?_⟩
    · kbool; omega
    · generalize wrapS32 (nb - left) = w; omega
  · intro h
    refine ⟨?_, ?_⟩
    · kbool; omega
    · generalize wrapS32 (nb - left) = w; omega


/-- the entropy pool is fed (`_random_add`) only inside the read loop of `_random_read_seed` -/
theorem pool_fed_only_in_loop :
    "_random_add" ∉ random_read_seed_outsideLoopCalls ∧
    ∃ calls, random_read_seed_loopCalls = [(0, calls)] ∧ "_random_add" ∈ calls := by
  refine ⟨by decide, _, rfl, by decide⟩

/-- An existing seed file (it can be opened) that fails ANY of the vetting conditions is not read into the pool
    — the read loop, the only place that feeds the pool, is not reached and `_random_read_seed` returns -1 — and
    `_random_read_entropy_from_file`, unless it died on an insecure directory, then `unlink`s it and reports no
    entropy from it.  A file meeting all conditions is read and is not unlinked. -/
theorem bad_seed_removed (force euid name0 : Int) (l f : Option Stat) (fd en avail : Int) (sec : Int → Int)
    (urc uen : Int) (hname : name0 ≠ 0) (hfd : 0 ≤ fd) (hl : 0 ≤ modeOf l) (hf : 0 ≤ modeOf f)
    (hav : 0 ≤ avail) (hsec : sec 0 ≤ 1) :
    let rd := fun nb => readSeed euid l fd en f avail nb
    let o := seedFromFile force name0 sec rd urc uen
    (¬ SeedFileOk euid l f →
      (∀ nb, (rd nb).calls "loop" = false ∧ (rd nb).ret = -1 ∧ seedBytesAdded (rd nb) = 0) ∧
      (fatal o = false → o.calls "unlink" = true ∧ o.ret ≤ 0)) ∧
    (SeedFileOk euid l f →
      (∀ nb, 0 ≤ nb → nb < 2147483648 → (rd nb).calls "loop" = true ∧ (rd nb).ret = (if avail < nb then avail else nb)) ∧
      o.calls "unlink" = false) := by
  intro rd o
  -- the arithmetic form of the vetting conditions
  have harith : SeedFileOk euid l f ↔
      (¬ (rcOf l = 0 ∧ modeOf l / 4096 % 16 = 10) ∧ 0 ≤ rcOf f ∧ modeOf f / 4096 % 16 = 8 ∧ uidOf f = euid ∧
        modeOf f / 16 % 4 = 0 ∧ modeOf f / 2 % 4 = 0) := by
    constructor
    · rintro ⟨hnl, st, hst, hreg, huid, hgr, hgw, hor, how⟩
      subst hst
      unfold groupR at hgr; unfold groupW at hgw; unfold otherR at hor; unfold otherW at how
      refine ⟨?_, by simp [rcOf], by simpa [modeOf, IsReg, fileType] using hreg, by simpa [uidOf] using huid,
        by simp only [modeOf, Option.getD_some]; omega, by simp only [modeOf, Option.getD_some]; omega⟩
      rintro ⟨hrc, hlm⟩
      cases l with
      | none => simp [rcOf] at hrc
      | some l' => exact hnl ⟨l', rfl, by simpa [modeOf, IsLnk, fileType] using hlm⟩
    · rintro ⟨h1, h2, h3, h4, h5, h6⟩
      cases f with
      | none => simp [rcOf] at h2
      | some st =>
        simp only [modeOf, uidOf, Option.getD_some] at h3 h4 h5 h6
        refine ⟨?_, st, rfl, h3, h4, ?_, ?_, ?_, ?_⟩
        · rintro ⟨l', hl', hlnk⟩
          subst hl'
          exact h1 ⟨by simp [rcOf], by simpa [modeOf, IsLnk, fileType] using hlnk⟩
        all_goals (simp only [groupR, groupW, otherR, otherW]; omega)
  have hrd : ∀ nb, rd nb = random_read_seed nb (rcOf l) (modeOf l) fd en (rcOf f) (modeOf f) (uidOf f) euid
      (nb - (if avail < nb then avail else nb)) 0 0 0 := fun nb => rfl
  constructor
  · intro hbad
    rw [harith] at hbad
    have hr : ∀ nb, (rd nb).calls "loop" = false ∧ (rd nb).ret = -1 := fun nb => by
      exact (seed_vetting nb _ _ fd en _ _ _ euid _ hl hf hfd _ (hrd nb)).2 hbad
    refine ⟨fun nb => ⟨(hr nb).1, (hr nb).2, ?_⟩, ?_⟩
    · unfold seedBytesAdded
      have := (hr nb).1
      simp only [KOut.calls] at this
      simp [this]
    · have h1024 : (rd 1024).ret = -1 := (hr 1024).2
      show fatal (random_read_entropy_from_file 1 name0 force 0 urc uen sec fun nb => (rd nb).ret) = false →
        (random_read_entropy_from_file 1 name0 force 0 urc uen sec fun nb => (rd nb).ret).calls "unlink" = true ∧
        (random_read_entropy_from_file 1 name0 force 0 urc uen sec fun nb => (rd nb).ret).ret ≤ 0
      unfold random_read_entropy_from_file
      simp only [h1024]
      generalize sec 0 = z at *
      simp only [fatal_ite, calls_ite, apply_ite KOut.ret]
      simp only [fatal, KOut.calls, List.any_cons, List.any_nil, String.reduceBEq, Bool.or_false]
      kbool
      unfold wrapS32
      omega
  · intro hgood
    rw [harith] at hgood
    have hr : ∀ nb, 0 ≤ nb → nb < 2147483648 →
        (rd nb).calls "loop" = true ∧ (rd nb).ret = (if avail < nb then avail else nb) := fun nb h0 h1 => by
      have := (seed_vetting nb _ _ fd en _ _ _ euid (nb - (if avail < nb then avail else nb)) hl hf hfd _ (hrd nb)).1 hgood
      refine ⟨this.1, ?_⟩
      rw [this.2]; unfold wrapS32; omega
    refine ⟨hr, ?_⟩
    have h1024 : (rd 1024).ret = (if avail < 1024 then avail else 1024) := (hr 1024 (by omega) (by omega)).2
    show (random_read_entropy_from_file 1 name0 force 0 urc uen sec fun nb => (rd nb).ret).calls "unlink" = false
    unfold random_read_entropy_from_file
    simp only [h1024]
    generalize sec 0 = z at *
    simp only [calls_ite]
    simp only [KOut.calls, List.any_cons, List.any_nil, String.reduceBEq, Bool.or_false]
    kbool
    omega

/-! ### non-vacuity -/

/-- `/etc/munge` with root-owned 0755 ancestors is secure; making `/etc` group-writable is refused; a trusted group
    or the sticky bit makes it acceptable again; the refusal is found at depth, not only at the leaf -/
private def demoEnv (etcMode etcGid : Int) : Env := fun p =>
  if p = "/".toList then some ⟨0o040755, 0, 0⟩
  else if p = "/etc".toList then some ⟨etcMode, 0, etcGid⟩
  else if p = "/etc/munge".toList then some ⟨0o040700, 1000, 1000⟩
  else none
example : (isSecure 0 noTrustedGroup 1000 (demoEnv 0o040755 0) (some "/etc/munge".toList)).rc = 1 := by decide
example : (isSecure 0 noTrustedGroup 1000 (demoEnv 0o040775 0) (some "/etc/munge".toList)).rc = 0 := by decide
example : (isSecure 0 42 1000 (demoEnv 0o040775 42) (some "/etc/munge".toList)).rc = 1 := by decide
example : (isSecure 0 noTrustedGroup 1000 (demoEnv 0o041777 0) (some "/etc/munge".toList)).rc = 1 := by decide
example : (isSecure 1 noTrustedGroup 1000 (demoEnv 0o040775 0) (some "/etc/munge".toList)).rc = 1 := by decide
example : (isSecure 1 noTrustedGroup 1000 (demoEnv 0o040757 0) (some "/etc/munge".toList)).rc = 0 := by decide
example : render ["etc".toList, "munge".toList] = "/etc/munge".toList ∧
    ancestors ["etc".toList, "munge".toList] = ["/etc/munge".toList, "/etc".toList, "/".toList] := by decide
example : IsDir 0o040755 ∧ IsReg 0o100600 ∧ IsLnk 0o120777 ∧ groupW 0o775 ∧ ¬ groupW 0o755 ∧ otherW 0o757 ∧ sticky 0o1777 := by
  unfold IsDir IsReg IsLnk fileType groupW otherW sticky; decide
/-- a good key is accepted, a group-readable one refused without `--force` and accepted (with a warning) with it -/
example : fatal (keyfile 0 0 47 ⟨some ⟨0o100600, 0, 0⟩, some ⟨0o100600, 0, 0⟩⟩ (fun _ => 1) 3) = false := by decide
example : fatal (keyfile 0 0 47 ⟨some ⟨0o100640, 0, 0⟩, some ⟨0o100640, 0, 0⟩⟩ (fun _ => 1) 3) = true := by decide
example : fatal (keyfile 1 0 47 ⟨some ⟨0o100640, 0, 0⟩, some ⟨0o100640, 0, 0⟩⟩ (fun _ => 1) 3) = false ∧
    (keyfile 1 0 47 ⟨some ⟨0o100640, 0, 0⟩, some ⟨0o100640, 0, 0⟩⟩ (fun _ => 1) 3).writes.any (fun w => w.2 = 1) = true := by
  decide
/-- the pid-file site returns normally when its directory is secure -/
example : fatal (write_pidfile 0o022 1 47 0 0 0 0 1 1 0 (fun _ => 1)) = false := by decide
example : pidModes 0 = [0o644] ∧ logModes 0 = [0o640] ∧ seedModes 0 = [0o600] ∧ pidModes 0o077 = [0o600] := by decide

end Munge.C16
