import Munge.Model.Gids
import Munge.Lemmas.Gids
/-
C17 — Supplementary-group answers equal the group and user databases.

Property theorems only; helper lemmas live in `Munge/Lemmas/Gids.lean`.  The model
(`Munge/Model/Gids.lean`) executes fragments that are regenerated from `src/munged/gids.c` on every
run (`Munge.Gen.Gids`): `_gids_user_to_uid`, `_gids_map_update`, `gids_update`, the key comparison,
the conditions/bodies of the two sorted-list walks, the tail of `_gids_gid_add`, the error dispatch and
the member body of the scan loop, `max_inits`, the return values of `_gids_map_create`, and the
lock/unlock/access paths of the functions the model treats as atomic.  Each theorem below is therefore
re-checked against what the C source says now.

Vocabulary: `build g p` is one clean scan of group database `g` against user database `p`;
`mapCreate O pw items` is `_gids_map_create` over an arbitrary sequence of `xgetgrent` results and a
user database with state (answers may change between calls); `isMember` is `gids_is_member`;
`mapUpdate` is `_gids_map_update`; `run` executes any interleaving of lookups, SIGHUPs, database
edits and steps of the refresh thread (one step per mutex section / per group entry).
-/
set_option linter.unusedSimpArgs false
namespace Munge.C17
open Munge.Gids Munge.Gen.Gids Munge.C

/-! ### the answer equals the databases -/

/-- `gids_is_member` says yes exactly when some group entry with that gid lists a user name that the user
    database maps to that uid — for every database: duplicate gids, duplicate names, several names for one
    uid, unknown users, empty and arbitrarily large groups.  (`SENT` = `(uid_t) -1` is munge's "no such user"
    value; `p n = .fail e` covers both "not found" and lookup errors: neither makes anybody a member.) -/
theorem member_spec (g : List GrEnt) (p : String → PwRes) (u gid : Int) :
    isMember (build g p) u gid = true ↔
      ∃ e ∈ g, e.gid = gid ∧ ∃ n ∈ e.members, p n = .found u ∧ u ≠ SENT := by
  rw [build_eq, isMember_some _ _ _ (allSorted_buildMap p g), mem_buildMap]

/-- the lists the map keeps per uid are strictly increasing (sorted, duplicate-free), whatever the
    databases, the lookup errors and the restarts were -/
theorem map_sorted_dupfree (O : PwOracle σ) (p : String → PwRes) (hO : Cons O p) (pw : σ) (items : List GrItem)
    (m : GidMap) (h : (mapCreate O pw items).1 = some m) :
    ∀ e ∈ m, List.Pairwise (· < ·) e.2 := by
  rcases hmc : mapCreate O pw items with ⟨r, s'⟩
  rw [hmc] at h; simp only at h; subst h
  unfold mapCreate at hmc
  rw [initBSt_eq] at hmc
  exact (scanLoop_sound O p hO items items (fun _ h => h) _ (cacheOK_nil p) allSorted_nil
    (fun u g hm => absurd hm (mem_nil u g)) m s' hmc).1

/-- Lookup errors fail closed.  If every answer of the user database during the build is either what `p` says
    or an error (any errno but ENOENT; answers may differ from call to call), then the build still succeeds and
    the map it produces answers yes only where the error-free build would: authorisation can be lost for the
    length of one refresh interval, never gained. -/
theorem errors_underapproximate (O : PwOracle σ) (p : String → PwRes) (hO : Cons O p) (pw : σ) (g : List GrEnt) :
    (∃ m, (mapCreate O pw (entItems g)).1 = some m) ∧
      ∀ u gid, isMember (mapCreate O pw (entItems g)).1 u gid = true → isMember (build g p) u gid = true := by
  obtain ⟨m, hm⟩ : ∃ m, (mapCreate O pw (entItems g)).1 = some m := by
    unfold mapCreate; exact scanLoop_ents_isSome O g _
  refine ⟨⟨m, hm⟩, ?_⟩
  intro u gid h
  rcases hmc : mapCreate O pw (entItems g) with ⟨r, s'⟩
  rw [hmc] at hm h; simp only at hm h; subst hm
  unfold mapCreate at hmc
  rw [initBSt_eq] at hmc
  have hs := scanLoop_sound O p hO (entItems g) (entItems g) (fun _ h => h) _ (cacheOK_nil p) allSorted_nil
    (fun u g hm => absurd hm (mem_nil u g)) m s' hmc
  rw [isMember_some _ _ _ hs.1] at h
  exact (member_spec g p u gid).mpr (specItems_ents p g u gid (hs.2 u gid h))

/-- Any number of ERANGE restarts yields the same map as one clean scan.  `pre` are the `xgetgrent` results of
    the scans that ended in ERANGE (arbitrary entries — the database may have been different each time — and
    EINTRs), `fin` those of the scan that reached the end; as long as the restarts stay within `max_inits` the
    result is exactly the map of a clean scan of the entries of `fin` alone. -/
theorem restart_same (p : String → PwRes) (pre : List (List GrItem)) (fin : List GrItem)
    (hpre : ∀ b ∈ pre, Benign b) (hfin : Benign fin) (hlen : (pre.length : Int) < max_inits) :
    (mapCreate (constOracle p) () (restartPrefix pre ++ fin)).1 = build (entsOf fin) p := by
  unfold mapCreate
  rw [initBSt_eq, build_eq]
  rw [max_inits_val] at hlen
  exact restart_lemma p pre fin _ hpre hfin (cacheOK_nil p) (by simp) (by simp; omega) (fun _ => rfl)

/-- … and the bound: the `max_inits`-th ERANGE makes `_gids_map_create` fail (return NULL) instead of looping -/
theorem restart_gives_up (p : String → PwRes) (pre : List (List GrItem)) (rest : List GrItem)
    (hpre : ∀ b ∈ pre, Benign b) (hlen : (pre.length : Int) = max_inits) :
    (mapCreate (constOracle p) () (restartPrefix pre ++ rest)).1 = none := by
  unfold mapCreate
  rw [initBSt_eq]
  rw [max_inits_val] at hlen
  exact restart_giveup_lemma p pre rest _ hpre (cacheOK_nil p) (by simp) (by simp) (by simp; omega)

/-! ### what reaches the build from libc (xgetpw.c, xgetgr.c) -/

/-- One pass of `xgetpwnam`'s loop is three-valued the way the build assumes: a passwd entry is success; "no entry" with
    return value 0 / ENOENT / ESRCH is *not found* (errno ENOENT, which the build caches negatively); EINTR and ERANGE
    (after growing the buffer) ask again; EIO / EMFILE / ENFILE are *lookup errors* handed up with their errno (the
    build skips the member and caches nothing). -/
theorem xgetpwnam_classification (rv rv_pwp errnoV growrv : Int) :
    (rv_pwp ≠ 0 → (xgetpwnam_step rv rv_pwp errnoV growrv).ret = 0) ∧
    (rv_pwp = 0 → (rv = 0 ∨ rv = ENOENT ∨ rv = ESRCH) →
      (xgetpwnam_step rv rv_pwp errnoV growrv).ret = -1 ∧
      (xgetpwnam_step rv rv_pwp errnoV growrv).written "errno" = some ENOENT) ∧
    (rv_pwp = 0 → rv = EINTR → (xgetpwnam_step rv rv_pwp errnoV growrv).ret = 100) ∧
    (rv_pwp = 0 → rv = ERANGE → growrv = 0 →
      (xgetpwnam_step rv rv_pwp errnoV growrv).ret = 100 ∧
      (xgetpwnam_step rv rv_pwp errnoV growrv).calls "_xgetpwbuf_grow" = true) ∧
    (rv_pwp = 0 → (rv = Munge.Gen.Gids.EIO ∨ rv = EMFILE ∨ rv = ENFILE) →
      (xgetpwnam_step rv rv_pwp errnoV growrv).ret = -1 ∧
      (xgetpwnam_step rv rv_pwp errnoV growrv).written "errno" = some rv) := by
  refine ⟨?_, ?_, ?_, ?_, ?_⟩
  · intro h; simp [xgetpwnam_step, h]
  · rintro h (h1 | h1 | h1) <;> subst h <;> subst h1 <;> simp [xgetpwnam_step, KOut.written, ENOENT, ESRCH]
  · intro h h1; subst h; subst h1; simp [xgetpwnam_step, EINTR]
  · intro h h1 h2; subst h; subst h1; subst h2; simp [xgetpwnam_step, ERANGE, KOut.calls]
  · rintro h (h1 | h1 | h1) <;> subst h <;> subst h1 <;>
      simp [xgetpwnam_step, KOut.written, Munge.Gen.Gids.EIO, EMFILE, ENFILE]

/-- One pass of `xgetgrent`'s loop, as configured and in the `HAVE_GETGRENT_R_ERANGE_BROKEN` build: an entry is success,
    the end of the database is ENOENT, ERANGE grows the buffer and either asks again (as configured) or reports ERANGE to
    `_gids_map_create` (which then restarts the scan), and every other error reaches the caller with its errno. -/
theorem xgetgrent_classification (rv rv_grp errnoV growrv : Int) :
    (rv = 0 → rv_grp ≠ 0 →
      (xgetgrent_step rv rv_grp errnoV growrv).ret = 0 ∧ (xgetgrent_step_eb rv rv_grp errnoV growrv).ret = 0) ∧
    ((rv = 0 ∨ rv = ENOENT) → rv_grp = 0 →
      (xgetgrent_step rv rv_grp errnoV growrv).ret = -1 ∧
      (xgetgrent_step rv rv_grp errnoV growrv).written "errno" = some ENOENT ∧
      (xgetgrent_step_eb rv rv_grp errnoV growrv).ret = -1 ∧
      (xgetgrent_step_eb rv rv_grp errnoV growrv).written "errno" = some ENOENT) ∧
    (rv = ERANGE → growrv = 0 →
      (xgetgrent_step rv rv_grp errnoV growrv).ret = 100 ∧
      (xgetgrent_step rv rv_grp errnoV growrv).calls "_xgetgrbuf_grow" = true ∧
      (xgetgrent_step_eb rv rv_grp errnoV growrv).ret = -1 ∧
      (xgetgrent_step_eb rv rv_grp errnoV growrv).written "errno" = some ERANGE ∧
      (xgetgrent_step_eb rv rv_grp errnoV growrv).calls "_xgetgrbuf_grow" = true) ∧
    (rv ≠ 0 → rv ≠ ENOENT → rv ≠ ERANGE →
      (xgetgrent_step rv rv_grp errnoV growrv).ret = -1 ∧
      (xgetgrent_step rv rv_grp errnoV growrv).written "errno" = some rv ∧
      (xgetgrent_step_eb rv rv_grp errnoV growrv).ret = -1 ∧
      (xgetgrent_step_eb rv rv_grp errnoV growrv).written "errno" = some rv) := by
  refine ⟨?_, ?_, ?_, ?_⟩
  · intro h h1; subst h; simp [xgetgrent_step, xgetgrent_step_eb, h1]
  · rintro (h | h) h1 <;> subst h <;> subst h1 <;> simp [xgetgrent_step, xgetgrent_step_eb, KOut.written, ENOENT]
  · intro h h1; subst h; subst h1
    simp [xgetgrent_step, xgetgrent_step_eb, KOut.written, KOut.calls, ERANGE]
  · intro h0 h1 h2
    have h1' : rv ≠ 2 := h1
    have h2' : rv ≠ 34 := h2
    simp [xgetgrent_step, xgetgrent_step_eb, KOut.written, h0, h1', h2']

/-! ### refresh -/

/-- A failed refresh keeps the old map (and the old load time, so that the next refresh tries again). -/
theorem failed_refresh_keeps_old (O : PwOracle σ) (sh : Shared) (env : UpdEnv) (pw : σ) (items : List GrItem) (nt : Int)
    (hfail : (mapCreate O pw items).1 = none) :
    (mapUpdate O sh env pw items nt).1.installed = sh.installed ∧
      (mapUpdate O sh env pw items nt).1.tLast = sh.tLast := by
  unfold mapUpdate
  by_cases hw : wantsBuild sh.doStat sh.tLast sh env = true
  · simp only [hw, if_true, hfail]
    exact commit_none ..
  · simp only [hw]
    exact commit_none ..

/-- After a completed refresh the map is the one built from the current databases whenever the mtime check is
    off, `stat` failed, or the group file's mtime is newer than the last successful load; the load time
    becomes the time read at the start of this refresh. -/
theorem refresh_reflects (O : PwOracle σ) (sh : Shared) (env : UpdEnv) (pw : σ) (items : List GrItem) (nt : Int)
    (m : GidMap) (hnewer : sh.doStat ≤ 0 ∨ env.statrv < 0 ∨ env.mtime > sh.tLast)
    (hbuilt : (mapCreate O pw items).1 = some m) :
    (mapUpdate O sh env pw items nt).1.installed = some m ∧
      (mapUpdate O sh env pw items nt).1.tLast = env.now := by
  have hw : wantsBuild sh.doStat sh.tLast sh env = true := by
    rw [wantsBuild_iff]; omega
  unfold mapUpdate
  simp only [hw, if_true, hbuilt]
  exact commit_some _ _ _ _ _ _ hw

/-- in particular, with a clean scan the answers after the refresh are those of the current databases -/
theorem refresh_reflects_databases (sh : Shared) (env : UpdEnv) (g : List GrEnt) (p : String → PwRes) (nt : Int)
    (hnewer : sh.doStat ≤ 0 ∨ env.statrv < 0 ∨ env.mtime > sh.tLast) (u gid : Int) :
    isMember (mapUpdate (constOracle p) sh env () (entItems g) nt).1.installed u gid = true ↔
      ∃ e ∈ g, e.gid = gid ∧ ∃ n ∈ e.members, p n = .found u ∧ u ≠ SENT := by
  have hb : (mapCreate (constOracle p) () (entItems g)).1 = some (buildMap p g) := build_eq g p
  rw [(refresh_reflects (constOracle p) sh env () (entItems g) nt _ hnewer hb).1, ← build_eq, member_spec]

/-- the scan is skipped only when the check is on, `stat` worked, and the file is not newer than the last load
    (strictly: an mtime equal to the load time does not count as newer) -/
theorem refresh_skips_only_if_not_newer (sh : Shared) (env : UpdEnv) :
    wantsBuild sh.doStat sh.tLast sh env = false ↔ (sh.doStat > 0 ∧ env.statrv ≥ 0 ∧ env.mtime ≤ sh.tLast) := by
  have := wantsBuild_iff sh.doStat sh.tLast sh env
  constructor
  · intro h; rw [h] at this; simp at this; omega
  · intro h
    cases hw : wantsBuild sh.doStat sh.tLast sh env
    · rfl
    · rw [hw] at this; exact absurd h (this.mp rfl)

/-- a failing `stat` switches the mtime check off (so every later refresh rescans) until a SIGHUP switches it on
    again; neither touches the installed map -/
theorem stat_failure_disables_check_until_sighup (d t : Int) (sh : Shared) (env : UpdEnv) (res : Option GidMap) (nt : Int)
    (hd : d > 0) (hs : env.statrv < 0) :
    (commit d t sh env res nt).doStat = -1 ∧
      (hup (commit d t sh env res nt) nt).doStat = 1 ∧
      (hup sh nt).installed = sh.installed := by
  have h1 := commit_doStat d t sh env res nt
  simp only [hd, hs, and_self, if_true] at h1
  refine ⟨h1, ?_, (hup_spec sh nt).2.1⟩
  rw [(hup_spec _ nt).1, h1]; simp

/-- Scheduling.  SIGHUP (`gids_update`) cancels the pending refresh, if any, and schedules one that is due at once;
    every run of `_gids_map_update` re-arms the periodic refresh (interval × 1000 ms) exactly when the interval is
    positive, whether or not it rebuilt the map. -/
theorem refresh_is_scheduled (d t : Int) (sh : Shared) (env : UpdEnv) (res : Option GidMap) (nt : Int) :
    ((hupKernel sh nt).events.filter (fun e => e.1 == "timer_cancel" || e.1 == "timer_set_relative") =
        (if sh.timer > 0 then [("timer_cancel", [sh.timer])] else []) ++ [("timer_set_relative", [0])]) ∧
    (hup sh nt).timer = nt ∧
    ((updKernel d t sh env res nt).events.filter (fun e => e.1 == "timer_cancel" || e.1 == "timer_set_relative") =
        if sh.interval > 0 then [("timer_set_relative", [wrapS32 (sh.interval * 1000)])] else []) ∧
    (commit d t sh env res nt).timer = (if sh.interval > 0 then nt else 0) := by
  refine ⟨?_, ?_, ?_, ?_⟩
  · unfold hupKernel gids_update
    by_cases ht : sh.timer > 0 <;> simp [ht]
  · unfold hup hupKernel gids_update
    by_cases ht : sh.timer > 0 <;> simp [KOut.written, ht]
  · unfold updKernel map_update
    cases res <;>
    by_cases hd : d > 0 <;> by_cases hs : env.statrv < 0 <;> by_cases hm : env.mtime ≤ t <;>
      by_cases hi : sh.interval > 0 <;> by_cases ho : sh.installed.isSome <;>
      simp [ptrOf, P_OLD, P_NEW, hd, hs, hm, hi, ho]
  · unfold commit updKernel map_update
    cases res <;>
    by_cases hd : d > 0 <;> by_cases hs : env.statrv < 0 <;> by_cases hm : env.mtime ≤ t <;>
      by_cases hi : sh.interval > 0 <;> by_cases ho : sh.installed.isSome <;>
      simp [KOut.written, ptrOf, P_OLD, P_NEW, hd, hs, hm, hi, ho]

/-- `_gids_map_update` never hands the map it has just installed (nor a still-installed one) to `hash_destroy`:
    the only map destroyed is the old one, and only after a new one took its place -/
theorem swap_never_destroys_installed (d t : Int) (sh : Shared) (env : UpdEnv) (res : Option GidMap) :
    ∀ ptr ∈ destroyed d t sh env res, ptr ≠ 0 → ptr = ptrOf sh.installed P_OLD ∧ res.isSome = true :=
  destroyed_spec d t sh env res

/-! ### lookups concurrent with a refresh -/

/-- In every interleaving of lookups, SIGHUPs, database edits and steps of the refresh thread (one step per
    mutex section and per group entry processed off-lock), every lookup is answered from one whole map: there is
    a sequence of maps `Ms`, one per epoch (= number of swaps so far), such that each lookup's answer is
    `isMember` of the map of its epoch, `Ms` starts with the installed map, and each next map is either the
    previous one or the complete result of one `_gids_map_create` — never the partial map the refresh thread is
    working on.  So a lookup concurrent with a refresh sees the old map (before the swap) or the new one (after). -/
theorem lookup_sees_whole_map (O : PwOracle σ) (s : Sys σ) (hidle : s.phase = .idle) (acts : List (Act σ)) :
    ∃ Ms : Nat → Option GidMap,
      Ms s.commits = s.sh.installed ∧
      (∀ r ∈ (run O s acts).2, r.ans = isMember (Ms r.epoch) r.uid r.gid) ∧
      (∀ k, s.commits ≤ k → Ms (k + 1) = Ms k ∨
        ∃ pw items, (mapCreate O pw items).1 = Ms (k + 1) ∧ (Ms (k + 1)).isSome = true) := by
  obtain ⟨Ms, h1, h2, h3⟩ := run_whole O acts s (by rw [hidle]; trivial)
  exact ⟨Ms, h1, fun r hr => (h2 r hr).2, h3⟩

/-- the steps of the refresh thread before its swap, SIGHUPs and database edits leave the installed map untouched -/
theorem only_the_swap_changes_the_map (O : PwOracle σ) (s : Sys σ) (a : Act σ) (h : isCommit s a = false) :
    (sysStep O s a).1.sh.installed = s.sh.installed :=
  (step_noncommit O s a h).1

/-! ### atomicity certificates (structure of the C functions, regenerated) -/

/-- walk one control-flow path: shared fields (all of `*gids` except `exempt`) and map nodes are touched only
    while `gids->mutex` is held, lock/unlock alternate, and the function returns with the mutex released -/
def wellLocked (exempt : List String) : Bool → List Ev → Bool
  | held, [] => !held
  | held, .lock :: r => !held && wellLocked exempt true r
  | held, .unlock :: r => held && wellLocked exempt false r
  | held, .ret :: r => !held && r.isEmpty
  | held, .read f :: r => (held || exempt.contains f) && wellLocked exempt held r
  | held, .write f :: r => (held || exempt.contains f) && wellLocked exempt held r
  | held, .node _ :: r => held && wellLocked exempt held r
  | _, .otherlock _ :: _ => false
  | held, .free _ :: r => !held && wellLocked exempt held r

/-- the events of each locked section of a path (`cur` = the section being collected, newest first) -/
def sectionsAux : Option (List Ev) → List Ev → List (List Ev)
  | none, [] => []
  | some c, [] => [c.reverse]
  | none, .lock :: r => sectionsAux (some []) r
  | none, _ :: r => sectionsAux none r
  | some c, .unlock :: r => c.reverse :: sectionsAux none r
  | some c, e :: r => sectionsAux (some (e :: c)) r

def lockedSections (p : List Ev) : List (List Ev) := sectionsAux none p

/-- `gids_is_member` is one critical section: on every path the map pointer and every node are read between lock
    and unlock, and it returns unlocked.  `gids_update` likewise.  `_gids_map_update` consists of two critical
    sections; outside them it touches only `ghost_hash` (which belongs to the single refresh thread); the new map
    pointer and the load time are written in the same section.  `gids_destroy` frees the struct after unlocking. -/
theorem atomicity_certificates :
    (∀ p ∈ paths_is_member, wellLocked [] false p = true) ∧
    (∀ p ∈ paths_gids_update, wellLocked [] false p = true) ∧
    (∀ p ∈ paths_map_update, wellLocked ["ghost_hash"] false p = true) ∧
    (∀ p ∈ paths_map_update, (lockedSections p).length ≤ 2 ∧
        ∀ sec ∈ lockedSections p, sec.contains (.write "gid_hash") = sec.contains (.write "t_last_update")) ∧
    (∀ p ∈ paths_map_update, ∀ sec ∈ (lockedSections p).take 1, sec.all (fun e => match e with | .write _ => false | _ => true)) ∧
    (∀ p ∈ paths_gids_destroy, wellLocked [] false p = true) := by
  refine ⟨by decide, by decide, by decide, by decide, by decide, by decide⟩

/-! ### non-vacuity -/

/-- a small database with a duplicate gid, a duplicate member, an unknown user, a sentinel uid and a lookup error -/
def exDb : List GrEnt := [⟨50, ["a", "b", "zz"]⟩, ⟨40, ["a", "s", "x", "a"]⟩, ⟨50, ["a"]⟩, ⟨60, []⟩, ⟨45, ["b", "a"]⟩]
def exPw : String → PwRes := fun n =>
  if n = "a" then .found 1000 else if n = "b" then .found 1001 else if n = "s" then .found 4294967295
  else if n = "x" then .fail 5 else .fail 2

example : build exDb exPw = some [(1000, [40, 45, 50]), (1001, [45, 50])] := by decide
example : isMember (build exDb exPw) 1000 45 = true ∧ isMember (build exDb exPw) 1000 46 = false ∧
    isMember (build exDb exPw) 4294967295 40 = false ∧ isMember (build exDb exPw) 1001 40 = false := by decide
/-- the hypotheses of `restart_same` are satisfiable with a non-trivial prefix, and the conclusion is not `none = none` -/
example : (mapCreate (constOracle exPw) () (restartPrefix [[.ent 7 ["a"], .fail 4], [.ent 8 ["b"]]] ++ entItems exDb)).1
    = some [(1000, [40, 45, 50]), (1001, [45, 50])] := by decide
/-- a user database whose first two calls fail with EIO and which then answers like `exPw`: it satisfies the hypothesis
    of `errors_underapproximate`, the build succeeds, and the map is a strict subset (1001 loses group 50, whose only listing of "b" fell on a failing call) -/
def flaky : PwOracle Nat := ⟨fun k n => if k < 2 then (.fail 5, k + 1) else (exPw n, k + 1)⟩
example : Cons flaky exPw := by
  intro k n
  by_cases h : k < 2
  · right; exact ⟨5, by simp [flaky, h], by decide⟩
  · left; simp [flaky, h]
example : (mapCreate flaky 0 (entItems exDb)).1 = some [(1000, [40, 45, 50]), (1001, [45])] := by decide

/-- a refresh in progress: the partial map differs from both the old and the new one, and a lookup made at that
    point is answered from the old map -/
example :
    let old : GidMap := [(1000, [7])]
    let s0 : Sys Unit := { sh := ⟨some old, 100, 1, 60, 0⟩, phase := .idle, env := ⟨200, 0, 150⟩,
                           db := entItems exDb, pw := () }
    let r := run (constOracle exPw) s0 [.upd, .upd, .upd, .lookup 1000 50, .lookup 1000 7, .upd, .upd, .upd, .upd, .upd, .upd,
                                          .lookup 1000 7, .lookup 1000 45]
    r.2.map (·.ans) = [false, true, false, true] ∧ r.2.map (·.epoch) = [0, 0, 1, 1] ∧
      r.1.sh.installed = build exDb exPw := by decide

end Munge.C17
