import Munge.Model.Cred
import Munge.Lemmas.CredA
/-
C09 — failure replies carry no credential data; padding and MAC failures look alike.
Theorems about the credential model (`Munge/Model/Cred.lean`), whose decision kernels, constants and
error texts are regenerated from the C source each run and whose parsers are tied byte-for-byte to the
real dec.c/enc.c by the correspondence harness.  (That `dec_process_msg` resets before the single send
for every hard error is also proved on the translated orchestration itself: C06.soft_errors_keep_payload,
C04.unauthorized_reply_is_reset.)
-/
namespace Munge.C09
open Munge.Cred Munge.Gen.Dec

/-- every field of a reply that could carry credential data is at its "nothing" value -/
def Sanitized (m : Msg) : Prop :=
  m.cipher = 0 ∧ m.mac = 0 ∧ m.zip = 0 ∧ m.realmLen = 0 ∧ m.realm = [] ∧ m.ttl = 0 ∧ m.addrLen = 0 ∧
  m.time0 = 0 ∧ m.time1 = 0 ∧ m.credUid = UID_ANY ∧ m.credGid = GID_ANY ∧ m.authUid = UID_ANY ∧
  m.authGid = GID_ANY ∧ m.dataLen = 0 ∧ m.data = []

/-- the DEC_RSP that carries an error code and message and nothing else: a function of
    (retry, code, text) alone -/
def errorOnlyRsp (retry code : Nat) (text : String) : Bytes :=
  decRsp { (reset {}) with retry := retry, errorNum := code, errorStr := text }

def soft (e : Nat) : Prop := e = 0 ∨ (e : Int) = EMUNGE_CRED_EXPIRED ∨ (e : Int) = EMUNGE_CRED_REWOUND ∨ (e : Int) = EMUNGE_CRED_REPLAYED

/-- a failed decode always carries an error code -/
theorem failure_has_error (P : Prims) (cf : Conf) (env : Env) (rs : ReplaySet) (m : Msg) (hm : m.errorNum = 0) :
    let o := decProcess P cf env rs m
    o.rc ≠ 0 → o.msg.errorNum ≠ 0 := by
  intro o h
  have _ := hm   -- not needed: a pre-set error only makes the failure exits more likely
  exact ((exit_facts (decProcess_spec P cf env rs m)).2.2.1 h).1

/-- For EVERY decode request, environment, cache state and primitive table: if the decode fails for any
    reason other than expired / rewound / replayed, the message that is sent is sanitised … -/
theorem hard_error_sanitized (P : Prims) (cf : Conf) (env : Env) (rs : ReplaySet) (m : Msg) :
    let o := decProcess P cf env rs m
    ¬ soft o.msg.errorNum → Sanitized o.msg ∧ o.msg.retry = m.retry := by
  intro o hs
  rcases decProcess_spec P cf env rs m with ⟨m', ho, hr, _⟩ | ⟨_, _, h3, _, _⟩
  · have : o.msg = reset m' := by rw [show o = decFail rs m' from ho]; rfl
    rw [this]
    exact ⟨⟨rfl, rfl, rfl, rfl, rfl, rfl, rfl, rfl, rfl, rfl, rfl, rfl, rfl, rfl, rfl⟩, hr⟩
  · exfalso
    apply hs
    show soft (decProcess P cf env rs m).msg.errorNum
    unfold soft EMUNGE_CRED_EXPIRED EMUNGE_CRED_REWOUND EMUNGE_CRED_REPLAYED
    omega

/-- … hence the reply bytes are exactly `errorOnlyRsp retry code text`: payload length 0, UID/GID and the
    restrictions at the ANY sentinel, cipher/MAC/zip/TTL/times/address zero, no realm/address/payload
    bytes — nothing derived from the credential. -/
theorem hard_error_reply (P : Prims) (cf : Conf) (env : Env) (rs : ReplaySet) (m : Msg) :
    let o := decProcess P cf env rs m
    ¬ soft o.msg.errorNum → decRsp o.msg = errorOnlyRsp m.retry o.msg.errorNum o.msg.errorStr := by
  intro o hs
  have h := hard_error_sanitized P cf env rs m hs
  rw [← h.2]
  exact decRsp_of_blank _ h.1

/-- the same for encode: a failed encode returns an ENC_RSP with the error and an empty payload -/
theorem enc_error_sanitized (P : Prims) (cf : Conf) (env : Env) (m : Msg) :
    let r := encProcess P cf env m
    r.2 ≠ 0 → Sanitized r.1 ∧ r.1.errorNum ≠ 0 := by
  intro r h
  rcases encProcess_cases P cf env m with ⟨m', he, hn⟩ | h0
  · have : r = (reset m', -1) := he
    rw [this]
    exact ⟨⟨rfl, rfl, rfl, rfl, rfl, rfl, rfl, rfl, rfl, rfl, rfl, rfl, rfl, rfl, rfl⟩, hn⟩
  · exact absurd h0 h

/-- Padding failure ≡ MAC failure.  For a credential that parses up to the outer layer and is
    encrypted: whether the final cipher block fails padding removal, or decryption succeeds but the
    recomputed MAC differs, the reply is THE SAME byte string — code EMUNGE_CRED_INVALID with the default
    message — so the two cannot be told apart by content. -/
theorem padding_eq_mac (P : Prims) (cf : Conf) (env : Env) (rs : ReplaySet) (m m1 : Msg) (s : Scratch)
    (hfront : decFront P env rs m = .inr (m1, s)) (hc : m1.cipher ≠ 0) (he : m.errorNum = 0)
    (hbad : (P.decrypt m1.cipher (P.mac m1.mac cf.dekKey s.mac) s.iv s.inner).2 = false ∨
            P.mac m1.mac cf.macKey (s.outer ++ (P.decrypt m1.cipher (P.mac m1.mac cf.dekKey s.mac) s.iv s.inner).1) ≠ s.mac) :
    decRsp (decProcess P cf env rs m).msg = errorOnlyRsp m.retry EMUNGE_CRED_INVALID.toNat "Invalid credential" := by
  have hf := decFront_spec P env rs m
  rw [hfront] at hf
  obtain ⟨hr, hen, _⟩ := hf
  have h0 : m1.errorNum = 0 := by rw [hen, he]
  have hp : decProcess P cf env rs m = decFail rs (setErr m1 EMUNGE_CRED_INVALID none) := by
    unfold decProcess
    rw [hfront]
    simp only []
    rw [decMid_bad P cf rs m1 s hc h0 hbad]
  rw [hp]
  have hi := setErr_invalid m1 h0
  have hS : Sanitized (decFail rs (setErr m1 EMUNGE_CRED_INVALID none)).msg :=
    ⟨rfl, rfl, rfl, rfl, rfl, rfl, rfl, rfl, rfl, rfl, rfl, rfl, rfl, rfl, rfl⟩
  rw [show decRsp _ = errorOnlyRsp _ _ _ from decRsp_of_blank _ hS]
  show errorOnlyRsp (setErr m1 EMUNGE_CRED_INVALID none).retry (setErr m1 EMUNGE_CRED_INVALID none).errorNum
    (setErr m1 EMUNGE_CRED_INVALID none).errorStr = _
  rw [setErr_retry, hi.1, hi.2, hr]
  rfl

/-- and on the padding-failure path the MAC is still computed (the error is deferred to
    `dec_validate_mac`), which is what makes the two paths take the same steps -/
theorem padding_failure_still_macs (P : Prims) (cf : Conf) (m : Msg) (s : Scratch) (hc : m.cipher ≠ 0)
    (hpad : (P.decrypt m.cipher (P.mac m.mac cf.dekKey s.mac) s.iv s.inner).2 = false) (he : m.errorNum = 0) :
    (decDecrypt P cf m s).1.errorNum = EMUNGE_CRED_INVALID.toNat ∧
    (decDecrypt P cf m s).1.errorStr = "Invalid credential" ∧
    ∃ m', decValidateMac P cf (decDecrypt P cf m s).1 (decDecrypt P cf m s).2 = .error m' ∧
          m'.errorNum = EMUNGE_CRED_INVALID.toNat ∧ m'.errorStr = "Invalid credential" := by
  rw [decDecrypt_pad P cf m s hc hpad]
  have hi := setErr_invalid m he
  have h14 : EMUNGE_CRED_INVALID.toNat = 14 := by decide
  rw [h14]
  refine ⟨hi.1, hi.2, _, decValidateMac_of_err _ _ _ _ (by rw [hi.1]; decide), hi.1, hi.2⟩

end Munge.C09
