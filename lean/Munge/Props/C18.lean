import Munge.Model.Timer
import Munge.Lemmas.Timer
/-
C18 — timers fire once, on time and in order; periodic services keep running.

Model: `Munge/Model/Timer.lean` (mirrors `src/munged/timer.c`, `clock.c`).  Everything that
decides behaviour is `Munge.Gen.Timer.*`, regenerated from the sources on every run: the timespec
comparator and clock arithmetic (translated), which comparator/argument order/polarity the sorted
insert walk and the expiry scan use, the head-change tests that guard `pthread_cond_signal`, the
id-counter bump, guards and return values, the lock/dispatch event order of the thread function,
the re-arm sites of the three periodic callbacks and the callers of the timer API.

Vocabulary (defined in the model file): a trace is a list of `Op`s — `ext acts` (requests
`setAbs/setRel/cancel` from any other thread), `tick now'` (the clock moves forward by any amount),
`scan` (the thread reads the clock and detaches the expired prefix), `run acts` (the thread
dispatches the next detached timer with the mutex released; `acts` is what that callback asks of the
timer module).  Every interleaving of callers with the timer thread is such a trace, because
set/cancel/scan are critical sections of `_timer_mutex` (certificates below).  `seq` is a ghost
serial number (set order); `line s` = dispatched ++ being dispatched ++ pending.
-/
namespace Munge.C18
open Munge.Timer Munge.Gen.Timer Munge.C

/-! ### the order timers must fire in -/

/-- `before a b` (used below) is exactly: earlier expiry time, or the same expiry time and set earlier -/
theorem before_iff (a b : Tm) :
    before a b ↔ (a.ts.1 < b.ts.1 ∨ (a.ts.1 = b.ts.1 ∧ a.ts.2 < b.ts.2)) ∨ (a.ts = b.ts ∧ a.seq < b.seq) := by
  unfold before; rw [le_iff, le_iff]
  constructor
  · rintro ⟨h1, h2⟩
    by_cases h : a.ts.1 < b.ts.1 ∨ (a.ts.1 = b.ts.1 ∧ a.ts.2 < b.ts.2)
    · exact Or.inl h
    · right
      have e : a.ts.1 = b.ts.1 ∧ a.ts.2 = b.ts.2 := by omega
      exact ⟨Prod.ext e.1 e.2, h2 (by omega)⟩
  · rintro (h | ⟨h, hs⟩)
    · exact ⟨by omega, fun h' => by omega⟩
    · rw [h]; exact ⟨by omega, fun _ => hs⟩

/-! ### sorted_inv -/

/-- The state invariant holds in every reachable state, for every trace: `_timer_active` is sorted
    by (expiry time, set order) — stable insertion —, a timer is in at most one of
    log / detached batch / active list and at most once, every detached timer had expired at its
    scan, and no callback has started before its expiry time. -/
theorem sorted_inv (ops : List Op) : TimerInv (exec init ops) :=
  inv_exec inv_init ops

/-- … and it is inductive: it is preserved from any state that satisfies it. -/
theorem sorted_inv_step {s : State} (h : TimerInv s) (ops : List Op) :
    TimerInv (exec s ops) ∧ (exec s ops).active.Pairwise before :=
  ⟨inv_exec h ops, (inv_exec h ops).sorted⟩

/-! ### fires_once -/

/-- At most once: no timer (identified by its set-order serial number) is dispatched twice,
    whatever the callers, the callbacks and the clock do. -/
theorem fires_at_most_once (ops : List Op) : ((exec init ops).log.map (·.1.seq)).Nodup := by
  have h := (sorted_inv ops).nodup
  rw [line_def, List.map_append, List.map_append, List.append_assoc] at h
  have := (List.nodup_append.1 h).1
  rw [List.map_map] at this
  exact this

/-- Exactly once: a pending timer that nobody cancels, once the thread scans at a clock reading
    `now ≥ ts` and then works through the detached batch, has had its callback started (and by
    `fires_at_most_once` only once).  That the thread does scan then is `no_missed_head`. -/
theorem fires_once {s : State} {t : Tm} (h : TimerInv s) (ht : t ∈ s.active)
    (ops₁ rest : List Op) (hc : ¬ traceCancels t.id ops₁)
    (hb : (exec s ops₁).batch = []) (hnow : le t.ts (exec s ops₁).now = true)
    (hr : (scan (exec s ops₁)).batch.length ≤ runCount rest) :
    t ∈ logged (exec s (ops₁ ++ Op.scan :: rest)) := by
  have hi := inv_exec h ops₁
  have hl : t ∈ line (exec s ops₁) := exec_line_keep ops₁ (by simp [line_def, ht]) hc
  have e : exec s (ops₁ ++ Op.scan :: rest) = exec (scan (exec s ops₁)) rest := by
    simp [exec, List.foldl_append, step]
  rw [e]
  rw [line_def, hb, List.append_nil] at hl
  rcases List.mem_append.1 hl with hl | hl
  · exact exec_logged_mono rest (by unfold scan; rw [hb]; exact hl)
  · have hm := scan_moves hi hb hl hnow
    obtain ⟨pre, post, hsplit⟩ := List.append_of_mem hm
    refine batch_drains rest hsplit ?_
    rw [hsplit] at hr; simp at hr; omega

/-! ### never_early -/

/-- No callback starts before its timer's expiry time: every log entry `(t, at)` has
    `t.ts ≤ at` in the sense of the real `clock_is_timespec_le`. -/
theorem never_early (ops : List Op) : ∀ p ∈ (exec init ops).log, le p.1.ts p.2 = true :=
  (sorted_inv ops).logOk

/-- A relative timer is never due before `now + msec`: for a normalised clock reading and a
    non-negative delay (no `long` overflow) `clock_get_timespec` returns exactly now + msec,
    normalised. -/
theorem set_relative_time (now : TS) (ms : Int) (hn : 0 ≤ now.2 ∧ now.2 < 1000000000)
    (hs : 0 ≤ now.1 ∧ now.1 < 4000000000000) (hm : 0 ≤ ms ∧ ms < 4000000000000000) :
    let r := addMs now ms
    r.1 * 1000000000 + r.2 = now.1 * 1000000000 + now.2 + ms * 1000000 ∧
    0 ≤ r.2 ∧ r.2 < 1000000000 ∧ le now r = true := by
  intro r
  have hr : r = addMs now ms := rfl
  unfold addMs clock_get_timespec at hr
  by_cases hz : ms > 0
  · have e1 : cmod ms 1000 = ms % 1000 := Int.tmod_eq_emod_of_nonneg (by omega)
    have e2 : cdiv ms 1000 = ms / 1000 := Int.tdiv_eq_ediv_of_nonneg (by omega)
    have hq : 0 ≤ now.2 + ms % 1000 * 1000 * 1000 := by omega
    have w1 : wrapS64 (now.2 + ms % 1000 * 1000 * 1000) = now.2 + ms % 1000 * 1000 * 1000 := by
      unfold wrapS64; omega
    have e3 : cdiv (now.2 + ms % 1000 * 1000 * 1000) 1000000000 = (now.2 + ms % 1000 * 1000 * 1000) / 1000000000 :=
      Int.tdiv_eq_ediv_of_nonneg hq
    have e4 : cmod (now.2 + ms % 1000 * 1000 * 1000) 1000000000 = (now.2 + ms % 1000 * 1000 * 1000) % 1000000000 :=
      Int.tmod_eq_emod_of_nonneg hq
    simp only [hz, KOut.written, e1, e2, w1, e3, e4] at hr
    simp at hr
    rw [le_iff, hr]
    by_cases hc : now.2 + ms % 1000 * 1000 * 1000 ≥ 1000000000
    · simp only [hc, if_true, wrapS64]; omega
    · simp only [hc, if_false, wrapS64]; omega
  · have : ms = 0 := by omega
    subst this
    have : r = now := by rw [hr]; simp [KOut.written]
    rw [this, le_iff]; omega

/-! ### order -/

/-- Timers fire in expiry order, ties in the order set: if `a` and `b` are pending at the same time
    and `a` must fire first, then in every later state in which `b`'s callback has started, `a`'s
    callback started earlier — unless `a` was cancelled in between (it is then nowhere in the line). -/
theorem order {s : State} {a b : Tm} (h : TimerInv s) (ha : a ∈ s.active) (hb : b ∈ s.active)
    (hab : before a b) (ops : List Op) (l₁ l₂ : List Tm)
    (hlog : logged (exec s ops) = l₁ ++ b :: l₂) (hline : a ∈ line (exec s ops)) : a ∈ l₁ := by
  have hsa : a.seq < s.nset := h.fresh a (by simp [line_def, ha])
  have hsb : b.seq < s.nset := h.fresh b (by simp [line_def, hb])
  have hne : a ≠ b := by
    intro e; subst e; have := hab.2 hab.1; omega
  -- in the starting state `b` never precedes `a`
  have h0 : NeverBefore b a (line s) := by
    have hnd := h.nodup
    rw [line_def, List.append_assoc] at hnd ⊢
    have hnotin : ∀ x ∈ s.log.map (·.1) ++ s.batch, x ≠ b := by
      intro x hx e; subst e
      rw [← List.append_assoc, List.map_append] at hnd
      exact (List.nodup_append.1 hnd).2.2 _ (List.mem_map_of_mem hx) _ (List.mem_map_of_mem hb) rfl
    unfold NeverBefore
    rw [← List.append_assoc, List.pairwise_append]
    refine ⟨?_, neverBefore_of_sorted h.sorted hab, ?_⟩
    · exact List.Pairwise.imp_of_mem (fun hx _ _ hxy => hnotin _ hx hxy.1) (List.pairwise_of_forall (fun _ _ => trivial))
    · intro x hx y _ hxy; exact hnotin x hx hxy.1
  have h1 := exec_neverBefore ops h0 hsa hsb
  rw [line_def] at h1 hline
  unfold logged at hlog
  rw [hlog] at h1 hline
  unfold NeverBefore at h1
  -- `a` is somewhere in l₁ ++ b :: (l₂ ++ batch ++ active); it cannot be after `b`
  have hrest : a ∉ l₂ ++ (exec s ops).batch ++ (exec s ops).active := by
    intro hm
    have h2 : List.Pairwise (fun x y => ¬(x = b ∧ y = a)) (l₁ ++ b :: (l₂ ++ (exec s ops).batch ++ (exec s ops).active)) := by
      simpa [List.append_assoc] using h1
    have h3 := (List.pairwise_append.1 h2).2.1
    exact (List.pairwise_cons.1 h3).1 a hm ⟨rfl, rfl⟩
  have hmem : a ∈ l₁ ++ b :: (l₂ ++ (exec s ops).batch ++ (exec s ops).active) := by
    simpa [List.append_assoc] using hline
  rcases List.mem_append.1 hmem with hm | hm
  · exact hm
  · rcases List.mem_cons.1 hm with hm | hm
    · exact absurd hm hne
    · exact absurd hm hrest

/-- … in particular, if nobody calls `timer_cancel` with `a`'s id, `a` fires before `b`. -/
theorem order_not_cancelled {s : State} {a b : Tm} (h : TimerInv s) (ha : a ∈ s.active) (hb : b ∈ s.active)
    (hab : before a b) (ops : List Op) (hc : ¬ traceCancels a.id ops) (l₁ l₂ : List Tm)
    (hlog : logged (exec s ops) = l₁ ++ b :: l₂) : a ∈ l₁ :=
  order h ha hb hab ops l₁ l₂ hlog (exec_line_keep ops (by simp [line_def, ha]) hc)

/-! ### cancel_spec -/

/-- `timer_cancel (id)`:
    * a non-positive id is rejected with -1 (EINVAL) and nothing changes;
    * an id that no pending timer carries (never set, already fired, being dispatched, already
      cancelled) returns 0 and nothing changes;
    * otherwise it returns 1, the first pending timer `x` with that id leaves the active list and
      nothing else changes, and `x`'s callback will never start, whatever happens later.
    (`ids_distinct` below: there is only one such `x`.) -/
theorem cancel_spec (s : State) (id : Int) (h : TimerInv s) :
    (id ≤ 0 → cancel s id = (s, -1, false)) ∧
    (0 < id → (∀ t ∈ s.active, t.id ≠ id) → (cancel s id).1 = s ∧ (cancel s id).2.1 = 0) ∧
    (∀ x, 0 < id → s.active.find? (fun t => t.id == id) = some x →
      (cancel s id).2.1 = 1 ∧
      (cancel s id).1 = { s with active := s.active.eraseP (fun t => t.id == id) } ∧
      x ∈ s.active ∧ x.id = id ∧ x ∉ (cancel s id).1.active ∧
      ∀ ops, x ∉ logged (exec (cancel s id).1 ops)) := by
  refine ⟨?_, ?_, ?_⟩
  · intro hid
    rcases cancel_cases s id with ⟨_, e⟩ | ⟨h', _⟩ | ⟨h', _⟩
    · exact e
    · omega
    · omega
  · intro hid hno
    rcases cancel_cases s id with ⟨h', _⟩ | ⟨_, _, e⟩ | ⟨_, x, hf, _⟩
    · omega
    · rw [e]; exact ⟨rfl, rfl⟩
    · have := List.find?_some hf
      have hm := List.mem_of_find?_eq_some hf
      simp [hasId] at this; exact absurd this (hno x hm)
  · intro x hid hf
    have hf' : s.active.find? (hasId id) = some x := hf
    rcases cancel_cases s id with ⟨h', _⟩ | ⟨_, hn, _⟩ | ⟨_, y, hy, e⟩
    · omega
    · rw [hf'] at hn; cases hn
    · rw [hf'] at hy; cases hy
      have hm := List.mem_of_find?_eq_some hf'
      have hid' : x.id = id := by have := List.find?_some hf'; simpa [hasId] using this
      have hnd : (s.active.map Tm.seq).Nodup := by
        have := h.nodup; rw [line_def, List.map_append] at this
        exact (List.nodup_append.1 this).2.1
      have hgone : x ∉ s.active.eraseP (hasId id) := not_mem_eraseP_of_find hf' hnd
      rw [e]
      refine ⟨rfl, rfl, hm, hid', hgone, ?_⟩
      intro ops hlog
      have hx : x ∈ line s := by simp [line_def, hm]
      have hfresh := h.fresh x hx
      have hnl : x ∉ line { s with active := s.active.eraseP (hasId id) } := by
        intro hin
        rw [line_def] at hin; simp only at hin
        rcases List.mem_append.1 hin with hin | hin
        · -- x would be in log ++ batch and in active: contradicts nodup
          have hnd2 := h.nodup
          rw [line_def, List.map_append] at hnd2
          exact (List.nodup_append.1 hnd2).2.2 _ (List.mem_map_of_mem hin) _ (List.mem_map_of_mem hm) rfl
        · exact hgone hin
      exact exec_not_in_line (s := { s with active := s.active.eraseP (hasId id) }) ops hfresh hnl (logged_sub_line hlog)

/-- Timer ids in use are positive and pairwise distinct as long as fewer than `LONG_MAX` timers
    have been set in total (the counter then never wraps), so `timer_cancel (id)` can only hit the
    timer the caller means.  (`bump_positive`: even after a wrap the id is positive.) -/
theorem ids_distinct (ops : List Op) (hw : (traceSets ops : Int) ≤ LONG_MAX) : IdInv (exec init ops) :=
  idInv_exec idInv_init ops (by simp [init]; exact hw)

/-- the id handed out is always positive (`assert (t->id > 0)`), also when the counter wraps -/
theorem bump_positive (id : Int) : 0 < bumpId id := bumpId_pos id

/-! ### callbacks_reentrant -/

def idxOf (e : String) (l : List String) : Nat := l.idxOf e

/-- Lock discipline, from the generated event orders: the thread function releases the mutex after
    detaching and before dispatching, re-acquires it only after the dispatch loop, and the dispatch
    loop runs over the detached list; set and cancel touch the lists only between lock and unlock and
    signal after unlocking.  Hence a callback that calls `timer_set_*`/`timer_cancel` cannot
    deadlock on `_timer_mutex`. -/
theorem lock_free_during_dispatch :
    idxOf "detach?" threadEvents < idxOf "unlock" threadEvents ∧
    idxOf "unlock" threadEvents < idxOf "dispatch" threadEvents ∧
    idxOf "dispatch" threadEvents < idxOf "lock" threadEvents ∧
    idxOf "lock" threadEvents < idxOf "recycle" threadEvents ∧
    idxOf "recycle" threadEvents < idxOf "timedwait" threadEvents ∧
    dispatchOverDetached = true ∧
    (∀ e ∈ ["alloc", "idbump", "init", "walk", "link", "headtest"],
      idxOf "lock" setEvents < idxOf e setEvents ∧ idxOf e setEvents < idxOf "unlock" setEvents) ∧
    idxOf "unlock" setEvents < idxOf "signal?" setEvents ∧
    (∀ e ∈ ["walk", "unlink?", "headtest?"],
      idxOf "lock" cancelEvents < idxOf e cancelEvents ∧ idxOf e cancelEvents < idxOf "unlock" cancelEvents) ∧
    idxOf "unlock" cancelEvents < idxOf "signal?" cancelEvents := by
  decide

/-- Set/cancel from a running callback (any state, in particular while a batch is being
    dispatched) always return, preserve the invariant, and touch neither the batch being dispatched
    nor the log. -/
theorem callbacks_reentrant {s : State} (h : TimerInv s) (acts : List Act) :
    TimerInv (applyActs s acts).1 ∧ (applyActs s acts).1.batch = s.batch ∧
    (applyActs s acts).1.log = s.log ∧ TimerInv (run s acts) :=
  ⟨inv_applyActs h acts, applyActs_batch s acts, applyActs_log s acts, inv_run h acts⟩

/-! ### recurs -/

/-- A self re-arming callback stays "pending or being dispatched" forever: for every trace that
    respects the protocol (`RecursOK`: the callback always re-arms; other requests either do not
    cancel its timer or — like `gids_update` — set it again), for every clock sequence including
    arbitrary forward jumps. -/
theorem recurs {s : State} {c : Nat} (ops : List Op) (h : Pending c s) (hk : RecursOK c s ops) :
    Pending c (exec s ops) :=
  pending_exec ops h hk

/-- Issue 15 batching: a (possibly wrong, far-future) clock reading cannot make a recurring timer
    spin inside one scan.  Requests made by callbacks never add to the batch being dispatched — the
    re-armed timer goes to the active list, relative to a fresh clock read — so every `run`
    shortens the batch by one and the thread re-reads the clock after `length batch` callbacks. -/
theorem recurs_no_spin (s : State) (acts : List Act) (op : Op) :
    (run s acts).batch = s.batch.tail ∧
    (s.batch ≠ [] → (step s op).batch.length ≤ s.batch.length) := by
  refine ⟨?_, ?_⟩
  · rw [run_eq]; split
    · rename_i hb; rw [hb]; rfl
    · rw [applyActs_batch, dispatch_batch]
  · intro hb
    cases op with
    | ext a => simp only [step, applyActs_batch]; exact Nat.le_refl _
    | tick n => simp only [step, tick_batch]; exact Nat.le_refl _
    | scan =>
      simp only [step]; unfold scan; split
      · rename_i h; exact absurd h hb
      · exact Nat.le_refl _
    | run a =>
      simp only [step]; rw [run_eq, if_neg hb, applyActs_batch, dispatch_batch]; simp

/-- The three periodic services re-arm themselves as the sources say now: each has exactly one
    `timer_set_relative (itself, …)`, skipped only when the service is disabled
    (`!replay_hash`; `interval_secs <= 0`; `_random_stir_secs <= 0`), and the purge period is
    60 s.  For each, the one-request behaviour `[setRel ms c]` satisfies `Rearms`. -/
theorem services_rearm :
    rearmSites.map (fun r => (r.callback, r.earlyReturns, r.guards)) =
      [("replay_purge", ["!replay_hash"], []),
       ("_gids_map_update", [], ["(gids->interval_secs > 0)"]),
       ("_random_stir_entropy", ["(_random_stir_secs <= 0)"], [])] ∧
    replayPurgeMs = REPLAY_PURGE_SECS * 1000 ∧ REPLAY_PURGE_SECS = 60 ∧
    (∀ (c : Nat) (s : State) (ms : Int), Rearms c s [Act.setRel ms c]) ∧
    (∀ (c : Nat) (s : State) (id : Int), Rearms c s [Act.cancel id, Act.setRel 0 c]) := by
  refine ⟨by decide, by decide, by decide, ?_, ?_⟩
  · intro c s ms; exact ⟨[], _, [], rfl, rfl, trivial⟩
  · intro c s id; exact ⟨[Act.cancel id], _, [], rfl, rfl, trivial⟩

/-- The F6 caller classes, as extracted from the sources: every caller of the timer API runs while
    the timer thread does not exist (a), on the timer thread (b), or holds the gids mutex (c). -/
theorem caller_classes :
    ∀ c ∈ callers, c.2.2.2 = "a" ∨ c.2.2.2 = "b" ∨ c.2.2.2 = "c" ∨ c.2.2.2 = "wrapper" := by
  decide

/-! ### no_missed_head -/

def sysExec (beh : Beh) (y : Sys) (ops : List SOp) : Sys := ops.foldl (sysStep beh) y

/-- Whenever the timer thread is blocked it is blocked on the right thing: in `pthread_cond_wait`
    only if nothing is pending, else in `pthread_cond_timedwait` with a deadline that is still in the
    future and not later than the expiry time of any pending timer.  This holds after every request from every thread because a
    request that changes the head signals (generated tests `t_prev_ptr == &_timer_active`), after
    every clock movement because the timed wait ends at its deadline, and after every thread step. -/
theorem no_missed_head (beh : Beh) (ops : List SOp) :
    SInv (sysExec beh {} ops) ∧ TimerInv (sysExec beh {} ops).st := by
  have : ∀ y, SInv y → TimerInv y.st → SInv (sysExec beh y ops) ∧ TimerInv (sysExec beh y ops).st := by
    induction ops with
    | nil => intro y h hi; exact ⟨h, hi⟩
    | cons op r ih => intro y h hi; exact ih _ (sInv_step beh h hi op) (inv_sysStep beh hi op)
  exact this _ (by simp [SInv]) inv_init

/-- Hence no expired timer is ever left waiting: while the thread is blocked, no pending timer has
    `ts ≤ now` — for every interleaving of callers, clock movements and thread steps. -/
theorem no_expired_while_blocked (beh : Beh) (ops : List SOp)
    (hb : blocked (sysExec beh {} ops).thr = true) :
    ∀ t ∈ (sysExec beh {} ops).st.active, le t.ts (sysExec beh {} ops).st.now = false :=
  quiescent_none_expired (no_missed_head beh ops).1 hb

/-! ### non-vacuity -/

/-- two timers set for the same time and one earlier one; the clock jumps past all of them;
    they fire earliest first, ties in set order -/
example :
    (exec init [.ext [.setAbs (5, 0) 0, .setAbs (5, 0) 1, .setAbs (3, 0) 2], .tick (9, 0), .scan,
                .run [], .run [], .run []]).log.map (fun p => (p.1.cb, p.2)) =
      [(2, (9, 0)), (0, (9, 0)), (1, (9, 0))] := by decide

/-- cancel of a pending id returns 1 and the callback never runs; a second cancel returns 0 -/
example :
    let s := (applyActs init [.setAbs (5, 0) 7]).1
    (cancel s 1).2.1 = 1 ∧ (cancel (cancel s 1).1 1).2.1 = 0 ∧ (cancel s 0).2.1 = -1 ∧
    (exec (cancel s 1).1 [.tick (9, 0), .scan, .run []]).log = [] := by decide

/-- a self re-arming callback: the protocol hypothesis of `recurs` is satisfiable (the timer fires,
    re-arms; a `gids_update`-like caller cancels and re-sets it; the clock jumps; it fires again) -/
example : RecursOK 4 (applyActs init [.setRel 0 4]).1
    [.tick (1, 0), .scan, .run [.setRel 60000 4], .ext [.cancel 2, .setRel 0 4], .tick (1000000, 0), .scan,
     .run [.setRel 60000 4]] := by
  refine ⟨trivial, trivial, ?_, ?_, trivial, trivial, ?_, trivial⟩
  · show (match (exec (applyActs init [.setRel 0 4]).1 [.tick (1, 0), .scan]).batch with
      | t :: _ => if t.cb = 4 then Rearms 4 (dispatch _) [Act.setRel 60000 4] else Keeps 4 (dispatch _) [Act.setRel 60000 4]
      | [] => True)
    have hb : (exec (applyActs init [.setRel 0 4]).1 [.tick (1, 0), .scan]).batch = [⟨1, (0, 0), 4, 0⟩] := by decide
    rw [hb]; exact ⟨[], _, [], rfl, rfl, trivial⟩
  · exact Or.inr ⟨[Act.cancel 2], _, [], rfl, rfl, trivial⟩
  · show (match (exec (applyActs init [.setRel 0 4]).1 [.tick (1, 0), .scan, .run [.setRel 60000 4],
        .ext [.cancel 2, .setRel 0 4], .tick (1000000, 0), .scan]).batch with
      | t :: _ => if t.cb = 4 then Rearms 4 (dispatch _) [Act.setRel 60000 4] else Keeps 4 (dispatch _) [Act.setRel 60000 4]
      | [] => True)
    have hb : (exec (applyActs init [.setRel 0 4]).1 [.tick (1, 0), .scan, .run [.setRel 60000 4],
        .ext [.cancel 2, .setRel 0 4], .tick (1000000, 0), .scan]).batch = [⟨3, (1, 0), 4, 2⟩] := by decide
    rw [hb]; exact ⟨[], _, [], rfl, rfl, trivial⟩

/-- … and the conclusion is not trivial: the same service without the re-arm is gone after one firing -/
example : ¬ Pending 4 (exec (applyActs init [.setRel 0 4]).1 [.tick (1, 0), .scan, .run []]) := by
  intro ⟨t, ht, _⟩
  have hb : (exec (applyActs init [.setRel 0 4]).1 [.tick (1, 0), .scan, .run []]).batch ++
      (exec (applyActs init [.setRel 0 4]).1 [.tick (1, 0), .scan, .run []]).active = [] := by decide
  rw [hb] at ht; cases ht

/-- the thread sleeps on the head and is woken by a new head -/
example :
    (sysExec (fun _ _ => []) {} [.thread, .ext [.setAbs (10, 0) 0], .thread, .ext [.setAbs (5, 0) 1]]).thr = .running ∧
    (sysExec (fun _ _ => []) {} [.thread, .ext [.setAbs (10, 0) 0], .thread, .ext [.setAbs (5, 0) 1], .thread]).thr
      = .timedWait (5, 0) ∧
    (sysExec (fun _ _ => []) {} [.thread, .ext [.setAbs (10, 0) 0], .thread, .ext [.setAbs (15, 0) 1]]).thr
      = .timedWait (10, 0) := by decide

end Munge.C18
