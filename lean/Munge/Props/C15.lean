import Munge.Model.Start
import Munge.Lemmas.Start
/-
C15 — one daemon per socket; a crash never blocks the next start.

Property theorems only; helper lemmas live in `Munge/Lemmas/Start.lean`, the transition system in
`Munge/Model/Start.lean`.  The program every process runs (`Munge.Start.prog`) is compiled from the callee lists that
the generator extracts from `src/munged/{munged,lock,conf,random}.c` on every run (`Munge.Gen.Start`), so the
theorems that mention `prog` or `Gen.Start.*` are re-checked against what the C source says now; the theorems about an
arbitrary program `P` are the generic facts they are instances of.

Vocabulary (definitions in the two files above):
  `run P s evs`      the state after the schedule `evs` (`start p`, `exec p` = one system call of p, `term p` = SIGTERM
                     while serving, `crash p` = SIGKILL at any point; events that are not enabled do nothing);
  `Owner s p`        p is past the lock step of start-up and has not yet unlinked the lock file in shutdown;
  `SingleOwner s`    at most one owner, and it holds the fcntl write lock on the inode the lock-file *name* refers to;
  `WF P`             structural facts about the call order (lock before any use of the socket/pid names, the lock
                     file is never unlinked during start-up, socket unlinked and closed before the lock file is
                     given up, lock file created with the mode `_lock_stat` insists on, …);
  `Revalidates P`    every F_SETLK is followed by a comparison of the locked descriptor with the file name;
  `Quiet s e`        if `e` is an `unlink(lockfile)`, no other start-up has the lock file open without owning it.
-/
namespace Munge.C15
open Munge.Start Munge.Gen.Start

/-! ### facts about the extracted code -/

/-- all system calls of `main`, start-up to exit, with helpers inlined and the guard each one sits under -/
def allCalls : List Call := flatMain

/-- `lock_create` takes the lock exactly once, with `F_SETLK` (never the blocking `F_SETLKW`), as a write lock
    (`F_WRLCK`) on the whole file (`l_whence = SEEK_SET, l_start = 0, l_len = 0`). -/
theorem lock_is_exclusive :
    (allCalls.filter fun c => match c.sys with | .setlk _ _ | .setlkw _ _ => true | _ => false).map (·.sys)
      = [.setlk true true] := by
  decide

/-- When `F_SETLK` reports a conflicting lock, and when it fails for any other reason, every branch ends in a fatal
    logger (`log_err_or_warn (conf->got_force, …)`): without --force the process exits before the next call. -/
theorem lock_failure_is_fatal : lockBusyExits = true ∧ lockErrorExits = true := by
  decide

/-- Call order of the current source: during start-up the lock is taken before the socket name is unlinked, the
    socket is bound and listened on, and the pid file is replaced, in this order; in shutdown the socket name is
    unlinked before the lock file is, and the lock file is unlinked before its descriptor is closed. -/
theorem lock_before_unlink :
    prog.startup.idxOf .setlk < prog.startup.idxOf (.unlink .sock) ∧
    prog.startup.idxOf (.unlink .sock) < prog.startup.idxOf .bind ∧
    prog.startup.idxOf .bind < prog.startup.idxOf .listen ∧
    prog.startup.idxOf .listen < prog.startup.idxOf (.unlink .pid) ∧
    prog.startup.idxOf (.unlink .pid) < prog.startup.length ∧
    prog.shutdown.idxOf (.unlink .sock) < prog.shutdown.idxOf (.unlink .lock) ∧
    prog.shutdown.idxOf (.unlink .lock) < prog.shutdown.idxOf .closeLock ∧
    prog.shutdown.idxOf .closeLock < prog.shutdown.length := by
  decide

/-- The extracted program satisfies every structural condition the generic theorems need. -/
theorem program_well_formed : WF prog = true := by
  decide

/-! ### one owner -/

/-- **Generic, full strength.**  For every well-formed program that re-validates the locked descriptor against the
    lock-file name, every schedule — any number of concurrent start-ups, clean shutdowns overlapping them, crashes
    at any point — leads to a state with at most one owner, which holds the lock on the named inode. -/
theorem single_owner_of_revalidate (P : Prog) (hwf : WF P = true) (hrv : Revalidates P = true) (evs : List Event) :
    SingleOwner (run P init evs) := by
  have h : WFr P true = true := by simp [WFr, hwf]; exact hrv
  exact singleOwner_of_inv (inv_run_reval h evs (inv_init P true))

/-- The schedule of finding F5: A serves; B starts and has opened the lock file (its next call is the F_SETLK);
    A gets SIGTERM and completes its shutdown; B continues; C starts. -/
def toctouTrace (P : Prog) : List Event :=
  let n := P.startup.length
  let k := P.startup.idxOf .setlk
  let m := P.shutdown.length
  [.start 1] ++ List.replicate n (.exec 1) ++ [.start 2] ++ List.replicate k (.exec 2) ++ [.term 1] ++
    List.replicate m (.exec 1) ++ List.replicate (n - k) (.exec 2) ++ [.start 3] ++ List.replicate n (.exec 3)

set_option maxRecDepth 100000 in
/-- **The full-strength invariant is false when `lock_create` only locks** (F5).  On the extracted program without a
    re-validation step the schedule above ends with B and C both owners and both serving, B's lock being on an inode
    no name refers to, and C having replaced B's socket. -/
theorem toctou_reachable :
    let s := run (stripReval prog) init (toctouTrace (stripReval prog))
    Owner s 2 ∧ Owner s 3 ∧ ((s.procs 2).phase = .serving ∧ (s.procs 3).phase = .serving) ∧
    s.names .lock ≠ (s.procs 2).lockFd ∧ serverOf s = some 3 ∧ ¬ SingleOwner s := by
  have h : (let s := run (stripReval prog) init (toctouTrace (stripReval prog))
            ownB s 2 && ownB s 3 && servingB s 2 && servingB s 3 && (s.names .lock != (s.procs 2).lockFd) &&
            (serverOf s == some 3)) = true := by decide
  simp only [Bool.and_eq_true, ownB, servingB, beq_iff_eq, bne_iff_ne, ne_eq] at h
  obtain ⟨⟨⟨⟨⟨h1, h2⟩, h3⟩, h4⟩, h5⟩, h6⟩ := h
  refine ⟨h1, h2, ⟨h3, h4⟩, h5, h6, fun hs => ?_⟩
  exact absurd (hs.1 2 3 h1 h2) (by decide)

/-- **What holds of the current code.**  On every schedule that is quiet — whenever an instance unlinks the lock file
    (the start of the window `unlink(lockfile) … close(lockfile_fd)` of `sock_destroy`), no other start-up has the
    lock file open without owning the lock — there is at most one owner, whatever else is interleaved or crashes.
    (A start-up cannot obtain a descriptor for the unlinked inode later, so this is exactly "no start-up holds the
    lock file open during the window".) -/
theorem single_owner_partial (evs : List Event) (hq : QuietRun prog init evs) :
    SingleOwner (run prog init evs) := by
  have h : WFr prog false = true := by simp [WFr, program_well_formed]
  exact singleOwner_of_inv (inv_run_quiet h evs (inv_init prog false) hq)

/-- A start-up that is not the owner — in particular one that will find the lock held — harms nobody: no call it
    makes changes what the socket name or the pid-file name refer to, removes the lock-file name, or touches another
    process's listening socket, record lock or state.  On every schedule, with or without re-validation. -/
theorem loser_leaves_owner_untouched (evs : List Event) (p : Pid) :
    let s := run prog init evs
    (s.procs p).phase = .starting → ¬ Owner s p → Untouched p s (step prog s (.exec p)) := by
  intro s hst hown
  have h : WFr prog false = true := by simp [WFr, program_well_formed]
  exact loser_harmless (baseInv_run h evs (baseInv_init prog false)).procs p hst (by simpa [Owner] using hown)

/-- … and finding the lock held is the end of it: the next state has it exited with an error, and a dead process
    never moves again (so it executes none of unlink-socket / bind / write-pidfile). -/
theorem lock_held_exits (P : Prog) (s : State) (p o : Pid) (i : Ino) (rest : List Op)
    (hph : (s.procs p).phase = .starting) (htd : (s.procs p).todo = .setlk :: rest)
    (hfd : (s.procs p).lockFd = some i) (hbusy : s.lockOwner i = some o) (hne : o ≠ p) :
    ((step P s (.exec p)).procs p).phase = .exited false ∧
    ∀ evs, ((run P (step P s (.exec p)) evs).procs p).phase = .exited false := by
  have h1 := lock_busy_exits P s p o i rest hph htd hfd hbusy hne
  refine ⟨h1, fun evs => ?_⟩
  generalize step P s (.exec p) = t at h1
  induction evs generalizing t with
  | nil => exact h1
  | cons e es ih =>
    simp only [run, List.foldl_cons]
    exact ih _ (by rw [dead_stays_dead P t e p false (Or.inl h1)]; exact h1)

/-- **Full-strength obligation.**  `lock_create` re-validates, and therefore every schedule of the extracted
    program has at most one owner.  (False of a source tree whose `lock_create` only locks: see `toctou_reachable`.) -/
theorem single_owner :
    lockRevalidates = true ∧ ∀ evs : List Event, SingleOwner (run prog init evs) :=
  ⟨by decide, fun evs => single_owner_of_revalidate prog program_well_formed (by decide) evs⟩

/-! ### a crash never blocks the next start; clean stop -/

/-- From every reachable state in which no process is alive — whatever was killed, at whatever point of start-up,
    service or shutdown, and whatever names it left behind — a fresh start without --force, running alone, completes:
    it is serving, it is the owner, and a client connecting to the socket path reaches it. -/
theorem restart_after_crash (evs : List Event) (p : Pid) :
    let s := run prog init evs
    (∀ q, (s.procs q).phase.live = false) → (s.procs p).phase = .idle →
    let s' := run prog s (.start p :: List.replicate prog.startup.length (.exec p))
    (s'.procs p).phase = .serving ∧ serverOf s' = some p ∧ Owner s' p := by
  intro s hdead hidle
  have h : WFr prog false = true := by simp [WFr, program_well_formed]
  exact restart_generic h (by decide) (baseInv_run h evs (baseInv_init prog false)) p hidle hdead

/-- After a shutdown that runs to completion, the socket, the lock file and the pid file are gone, a seed file
    exists, and the exit status is 0 — from any state in which the process is serving. -/
theorem clean_stop (s : State) (p : Pid) (hserv : (s.procs p).phase = .serving) :
    let s' := run prog s (.term p :: List.replicate prog.shutdown.length (.exec p))
    s'.names .sock = none ∧ s'.names .lock = none ∧ s'.names .pid = none ∧ s'.names .seed ≠ none ∧
    (s'.procs p).phase = .exited true :=
  clean_stop_generic (by decide) s p hserv

/-! ### what the statement does not cover -/

/-- A stops; as soon as it has unlinked the lock file and closed it, B starts and serves; A's remaining calls follow. -/
def pidTailTrace (P : Prog) : List Event :=
  let n := P.startup.length
  let k := P.shutdown.idxOf .closeLock + 1
  [.start 1] ++ List.replicate n (.exec 1) ++ [.term 1] ++ List.replicate k (.exec 1) ++
    [.start 2] ++ List.replicate n (.exec 2) ++ List.replicate (P.shutdown.length - k) (.exec 1)

set_option maxRecDepth 100000 in
/-- **Recorded, not part of C15 as stated** (and independent of re-validation): `destroy_conf` unlinks the pid file
    after `sock_destroy` has given the lock up, so an instance that starts during the tail of another's shutdown is
    the single owner and serves, but loses its pid file.  (`allowed` therefore demands ownership for the pid-file calls
    only during start-up.)  Shown on the real binary with `strace -e inject=unlink:delay_enter=…:when=6`. -/
theorem pidfile_tail_race_reachable :
    let s := run (addReval prog) init (pidTailTrace (addReval prog))
    Owner s 2 ∧ (s.procs 2).phase = .serving ∧ serverOf s = some 2 ∧ SingleOwner s ∧ s.names .pid = none := by
  have h : (let s := run (addReval prog) init (pidTailTrace (addReval prog))
            ownB s 2 && servingB s 2 && (serverOf s == some 2) && (s.names .pid == none)) = true := by decide
  simp only [Bool.and_eq_true, ownB, servingB, beq_iff_eq] at h
  obtain ⟨⟨⟨h1, h2⟩, h3⟩, h4⟩ := h
  exact ⟨h1, h2, h3, single_owner_of_revalidate _ (by decide) (by decide) _, h4⟩

/-! ### non-vacuity -/

/-- a start-up alone reaches serving as owner (so `Owner`, `serving` are inhabited in reachable states) -/
theorem sanity_start_alone : let s := run prog init (.start 1 :: List.replicate prog.startup.length (.exec 1))
    (ownB s 1 && servingB s 1 && (serverOf s == some 1)) = true := by decide

/-- a second start while the first serves exits with an error and the first still serves on the same inode -/
theorem sanity_second_start_refused : let s := run prog init (.start 1 :: List.replicate prog.startup.length (.exec 1))
    let s' := run prog s (.start 2 :: List.replicate prog.startup.length (.exec 2))
    ((s'.procs 2).phase == .exited false && (serverOf s' == some 1) && (s'.names .sock == s.names .sock) &&
     (s'.names .pid == s.names .pid) && (s'.names .lock == s.names .lock)) = true := by decide

set_option maxRecDepth 100000 in
/-- with a re-validation step the F5 schedule ends with B refused and C the only owner -/
theorem sanity_revalidation_closes_window : let s := run (addReval prog) init (toctouTrace (addReval prog))
    ((s.procs 2).phase == .exited false && ownB s 3 && !ownB s 2 && (serverOf s == some 3)) = true := by decide

/-- the generic theorem is not vacuous: the extracted program with a re-validation step satisfies its hypotheses -/
theorem sanity_repaired_program_well_formed : WF (addReval prog) = true ∧ Revalidates (addReval prog) = true := by decide

/-- sequential schedules are quiet -/
example : QuietRun prog init [.start 1, .exec 1] := by
  simp only [QuietRun, and_true]
  refine ⟨fun r hr => (by cases hr), fun r hr h => ?_⟩
  cases hr
  exact absurd h (by decide)

end Munge.C15
