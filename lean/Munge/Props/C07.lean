import Munge.Model.Replay
import Munge.Lemmas.Hash
import Munge.Lemmas.Replay
/-
C07 — the replay memory lasts as long as the credential could still be valid, and no longer
than one purge period beyond.

Property theorems only; helper lemmas live in `Munge/Lemmas/{Hash,Replay}.lean`.  Regenerated
from the sources on every run (`Munge.Gen.Hash`): the purge predicate `replay_is_expired`
(kernel; its comparison against `now` is what `purge_exact` pins down), the selection test of
`hash_delete_if`, the expiry expression `t_expired = (time_t) (time0 + ttl)` of
`replay_insert`, the kernel `dec_validate_time` (ttl cap before the window test; inclusive upper
bound), `MUNGE_REPLAY_PURGE_SECS` and the fact that `replay_purge` re-arms itself with it.

Histories are lists of events `req r | tick δ | purge` (`Munge.Replay.Ev`); the clock only
moves forward (`δ : Nat`).  The roll-back decision `rb` of a request whose reply cannot be sent
is a parameter, as in C05: the theorems need it to be sound (`RollbackSound`, the obligation
`C05.rollback_implies_inserted` on the source) or, failing that, that no request about the
credential in question loses its reply in the history considered (`repliesDelivered`).
-/
set_option linter.unusedSimpArgs false
set_option linter.unusedSectionVars false
set_option linter.unnecessarySimpa false
namespace Munge.C07
open Munge.C Munge.Hash Munge.Replay Munge.Gen.Hash

/-- `replay_purge` at clock `now` removes exactly the entries with `t_expired < now` — strictly —
    and keeps all others, in their order; the count it reports is the number removed. -/
theorem purge_exact (st : State) (now : Int) :
    (purge st now).1.items = st.items.filter (fun k => !decide (k.exp < now)) ∧
    (∀ k, (purge st now).1.has k ↔ st.has k ∧ ¬ k.exp < now) ∧
    (purge st now).2 = st.items.length - (purge st now).1.items.length := by
  refine ⟨items_purge st now, has_purge st now, ?_⟩
  unfold purge State.items
  cases h : st.table with
  | none => simp
  | some t => simp [deleteIf, Table.count_eq]

/-- The purge timer is re-armed by `replay_purge` itself with the period `MUNGE_REPLAY_PURGE_SECS`
    (read from the call in the source), which is 60 s. -/
theorem purge_period : purgeRearmMsecs = PURGE_SECS * 1000 ∧ PURGE_SECS = 60 := by decide

/-- The expiry stored with an entry is the last second at which the time check still accepts the
    credential: a request that passes `dec_validate_time` at clock `now` (within `uint32` range) has
    `now ≤ t_expired`.  (`ttl` is capped by the decoding daemon's `max_ttl` before both.) -/
theorem valid_implies_not_expired (cfg : Cfg) (hv : cfg.Valid) (now : Int) (hnow : 0 ≤ now ∧ now < 4294967296)
    (r : Req) (h : timeOk cfg now r) : now ≤ (keyOf cfg r).exp ∧ (keyOf cfg r).exp = wrapU32 (r.time0 + capTtl cfg r.ttl) := by
  have := timeOk_le_exp cfg hv now r h
  have hw : wrapU32 now = now := by unfold wrapU32; omega
  rw [hw] at this
  exact ⟨this, rfl⟩

/-- KEPT WHILE VALID.  Let request `ri` be answered SUCCESS with the reply delivered, on any
    daemon state.  After any further history `mid` (requests, clock advances, any number of purge
    ticks at any positions), if a request `rj` for the same credential still passes the time check
    at that point — i.e. up to and including the last valid second — then the entry is still in
    the table and `rj` is reported REPLAYED, never SUCCESS (the documented retry exception apart).
    Needs: the roll-back decision is sound, or no request for this credential in `mid` loses its reply. -/
theorem kept_while_valid (rb : RollbackPred) (cfg : Cfg) (hv : cfg.Valid) (d : Daemon) (hok : d.Ok)
    (ri rj : Req) (mid : List Ev)
    (hrb : RollbackSound rb ∨ repliesDelivered cfg (keyOf cfg ri) mid)
    (hkey : keyOf cfg rj = keyOf cfg ri)
    (hsucc : (attempt rb cfg d ri).2.code = EMUNGE_SUCCESS ∧ (attempt rb cfg d ri).2.delivered = true)
    (hrange : 0 ≤ (run rb cfg (attempt rb cfg d ri).1 mid).1.now ∧ (run rb cfg (attempt rb cfg d ri).1 mid).1.now < 4294967296)
    (htime : timeOk cfg (run rb cfg (attempt rb cfg d ri).1 mid).1.now rj) :
    (run rb cfg (attempt rb cfg d ri).1 mid).1.replay.has (keyOf cfg ri) ∧
    ((attempt rb cfg (run rb cfg (attempt rb cfg d ri).1 mid).1 rj).2.code = EMUNGE_SUCCESS → Exempt cfg rj.retry) ∧
    (rj.preErr = 0 → rj.authOk = true → ¬ Exempt cfg rj.retry →
      (attempt rb cfg (run rb cfg (attempt rb cfg d ri).1 mid).1 rj).2.code = EMUNGE_CRED_REPLAYED) := by
  have hi_ok := attempt_ok rb cfg hv d hok ri
  -- after `ri` the entry is present
  have hpres1 : (attempt rb cfg d ri).1.replay.has (keyOf cfg ri) := by
    rcases passes_or_fails cfg d.now ri with ⟨h1, h2, h3⟩ | h
    · by_cases hp : d.replay.has (keyOf cfg ri)
      · have := attempt_present rb cfg hv d hok ri h1 h2 h3 hp
        have hs : ri.sendOk = true := by rw [← this.2.2.2.1]; exact hsucc.2
        rw [(this.2.2.2.2 (Or.inr hs)).1]; exact hp
      · have := attempt_absent rb cfg hv d hok ri h1 h2 h3 hp
        have hs : ri.sendOk = true := by rw [← this.2.2.1]; exact hsucc.2
        exact (this.2.2.2.2.2.2.1 (this.2.2.2.2.2.1 hs) _).2 (Or.inl rfl)
    · have hf := attempt_fail rb cfg d ri h
      exfalso
      -- a failed request is not answered SUCCESS
      revert hsucc
      unfold attempt
      by_cases h1 : ri.preErr ≠ 0
      · rw [if_pos h1]; intro hs; exact h1 hs.1
      · by_cases h2 : ri.authOk = false
        · simp [h1, h2, EMUNGE_SUCCESS, EMUNGE_CRED_UNAUTHORIZED]
        · have h2' : ri.authOk = true := by simpa using h2
          have h3 : (dec_validate_time ri.time0 ri.ttl (wrapU32 d.now) cfg.max_ttl cfg.got_clock_skew).ret < 0 := by
            rcases h with h | h | h
            · exact absurd h h1
            · exact absurd h h2
            · unfold timeOk at h; exact Classical.not_not.1 h
          simp only [h1, h2', h3, if_true, if_false, Bool.not_true, Bool.false_eq_true]
          intro hs; exact dvt_err_ne _ _ _ _ _ h3 hs.1
  have hrun := run_ok rb cfg hv mid _ hi_ok.1
  -- the clock at the end is ≤ the expiry, hence so it was at every purge tick
  have hle : (run rb cfg (attempt rb cfg d ri).1 mid).1.now ≤ (keyOf cfg ri).exp := by
    have := timeOk_le_exp cfg hv _ rj htime
    have hw : wrapU32 (run rb cfg (attempt rb cfg d ri).1 mid).1.now = (run rb cfg (attempt rb cfg d ri).1 mid).1.now := by
      unfold wrapU32; omega
    rw [hw, hkey] at this; exact this
  have hkept := keptBy_of_final_le rb cfg hv (keyOf cfg ri) mid _ hi_ok.1 hle
  have hpres2 := run_keeps rb cfg hv (keyOf cfg ri) mid _ hrb hi_ok.1 hpres1 hkept
  refine ⟨hpres2, fun hc => ?_, fun h1 h2 hne => ?_⟩
  · by_cases h1 : rj.preErr = 0
    · by_cases h2 : rj.authOk = true
      · by_cases he : Exempt cfg rj.retry
        · exact he
        · have := (attempt_present rb cfg hv _ hrun.1 rj h1 h2 htime (hkey ▸ hpres2)).2.2.1 he
          rw [this] at hc; exact absurd hc (by decide)
      · have h2' : rj.authOk = false := by simpa using h2
        exfalso; revert hc
        unfold attempt
        simp [h1, h2', EMUNGE_SUCCESS, EMUNGE_CRED_UNAUTHORIZED]
    · exfalso; revert hc
      unfold attempt
      rw [if_pos h1]; exact h1
  · exact (attempt_present rb cfg hv _ hrun.1 rj h1 h2 htime (hkey ▸ hpres2)).2.2.1 hne

/-- DISCARDED AFTER EXPIRY.  Right after a purge tick at clock `p` no entry with `t_expired < p`
    remains.  Consequently, in any history (from a state whose entries all have `t_expired ≥ lo`,
    e.g. the empty table), every entry present at the end has `t_expired ≥` the clock value of the
    last purge tick; so if that tick was at most `P` seconds ago (the timer recurs every
    `MUNGE_REPLAY_PURGE_SECS`, C18), every entry has `t_expired ≥ now − P`. -/
theorem discarded_after (rb : RollbackPred) (cfg : Cfg) (hv : cfg.Valid) (d : Daemon) (hok : d.Ok) (evs : List Ev)
    (lo : Int) (hlo : lo ≤ d.now) (h0 : ∀ k, d.replay.has k → lo ≤ k.exp)
    (hrange : 0 ≤ d.now ∧ (run rb cfg d evs).1.now < 4294967296) :
    (∀ p k, (purge d.replay p).1.has k → p ≤ k.exp) ∧
    (∀ k, (run rb cfg d evs).1.replay.has k → lastPurge lo d.now evs ≤ k.exp) ∧
    (∀ (P : Int) k, (run rb cfg d evs).1.now - lastPurge lo d.now evs ≤ P → (run rb cfg d evs).1.replay.has k →
      (run rb cfg d evs).1.now - P ≤ k.exp) := by
  have h := run_discards rb cfg hv evs d lo hok hrange.1 hrange.2 hlo h0
  refine ⟨fun p k hk => ?_, h.2, fun P k hP hk => ?_⟩
  · have := ((has_purge _ _ _).1 hk).2; omega
  · have := h.2 k hk; omega

/-- SIZE BOUND.  Start from an empty table.  Every entry present at the end of a history was put
    there by a request that passed the time check at some clock value `t` of that history, and (for
    requests whose window does not wrap around 0 or 2^32) with `now − P ≤ t_expired` as above:
    `t ≥ now − P − ttl' − skew` in general (`skew = ttl'` with clock skew allowed, else 1: a
    credential dated up to `skew` ahead of the decoding clock is remembered that much longer), and
    `t ≥ now − P − ttl'` when the credential was not dated ahead of the decoding clock
    (`time0 ≤ t`).  With `ttl' ≤ max_ttl`: the table holds nothing but credentials decoded during
    the last `max_ttl` (resp. `2·max_ttl`) seconds plus one purge period. -/
theorem size_bound (rb : RollbackPred) (cfg : Cfg) (hv : cfg.Valid) (d : Daemon) (hok : d.Ok) (evs : List Ev)
    (hempty : ∀ k, ¬ d.replay.has k) (hrange : 0 ≤ d.now ∧ (run rb cfg d evs).1.now < 4294967296)
    (P : Int) (hP : (run rb cfg d evs).1.now - lastPurge d.now d.now evs ≤ P) :
    ∀ k, (run rb cfg d evs).1.replay.has k →
      ∃ r t, keyOf cfg r = k ∧ d.now ≤ t ∧ t ≤ (run rb cfg d evs).1.now ∧ passes cfg t r ∧
        (r.NoWrap cfg →
          (run rb cfg d evs).1.now - P - capTtl cfg r.ttl - skewOf cfg r.ttl ≤ t ∧
          (r.time0 ≤ t → (run rb cfg d evs).1.now - P - capTtl cfg r.ttl ≤ t) ∧
          capTtl cfg r.ttl ≤ cfg.max_ttl) := by
  intro k hk
  have hdis := (discarded_after rb cfg hv d hok evs d.now (Int.le_refl _) (fun k hk => absurd hk (hempty k)) hrange).2.2 P k hP hk
  have hprov := run_provenance rb cfg hv
    (fun now k => ∃ r t, keyOf cfg r = k ∧ d.now ≤ t ∧ t ≤ now ∧ passes cfg t r)
    (fun k t t' htt' ⟨r, t0, h1, h2, h3, h4⟩ => ⟨r, t0, h1, h2, Int.le_trans h3 htt', h4⟩)
    evs d hok (fun k hk => absurd hk (hempty k))
    (fun r t ht1 _ hp => ⟨r, t, rfl, ht1, Int.le_refl _, hp⟩) k hk
  obtain ⟨r, t, hkey, ht1, ht2, hp⟩ := hprov
  refine ⟨r, t, hkey, ht1, ht2, hp, fun hnw => ?_⟩
  have hw := accepted_window cfg hv t ⟨by omega, by omega⟩ r hnw hp.2.2
  rw [hkey] at hw
  have hcap : capTtl cfg r.ttl ≤ cfg.max_ttl := by unfold capTtl; split <;> omega
  refine ⟨by omega, fun h => by omega, hcap⟩

/-! ### non-vacuity: the boundary second -/

/-- a credential encoded at 1000 with ttl 300, decoded at 1000; a purge tick exactly at its last
    valid second (1300) keeps it and a second presentation at 1300 is REPLAYED; a purge tick one
    second later removes it, and the time check then rejects the credential as EXPIRED -/
example :
    let r : Req := ⟨[1, 2, 3, 4, 5, 6, 7, 8, 9, 10, 11, 12, 13, 14, 15, 16], 1000, 300, 0, 0, true, true⟩
    ((run genRollback {} ⟨initSized 3 {}, 1000⟩
        [.req r, .tick 300, .purge, .req r, .tick 1, .purge, .req r]).2.map (fun o => o.map (·.code))) =
      [some 0, none, none, some 17, none, none, some 15] := by
  decide +kernel

end Munge.C07
