import Munge.Gen.Unpack
import Munge.Gen.Dec
/-!
# C08 / C14 (parsers): the credential parsers never read outside the buffer they are given

`Munge.Gen.Unpack.dec_unpack_outer` and `dec_unpack_inner` are regenerated from `src/munged/dec.c` on every run by
the K+cursor translator (tools/gen/kcursor.py): each byte the C reads through its cursor is an event `("rd", [off, n])`,
each copy an event `("cp:<destination>", [off, n])`.  The theorems quantify over every buffer content, every length
an `int` can hold and every answer of the primitive tables (`cipher_iv_size`, `mac_size`, … are arbitrary functions).
-/
namespace Munge.C08Unpack
open Munge.C Munge.Gen.Unpack

/-- a predicate on (name, arguments) holds for every event of the list -/
def evAll (P : String → List Int → Prop) : List (String × List Int) → Prop
  | [] => True
  | (nm, args) :: t => P nm args ∧ evAll P t

/-- an `rd` event lies inside `[0, len]` -/
def RdWithin (len : Int) (nm : String) (args : List Int) : Prop :=
  nm = "rd" → match args with
              | [off, n] => 0 ≤ off ∧ 0 ≤ n ∧ off + n ≤ len
              | _ => False

/-- every `rd` event of the list lies inside `[0, len]` -/
def readsWithin (len : Int) (evs : List (String × List Int)) : Prop := evAll (RdWithin len) evs

/-- a copy (or fill) into the fixed-size destination `dst` moves at most `cap` bytes -/
def CpFits (dst : String) (cap : Int) (nm : String) (args : List Int) : Prop :=
  (nm = "cp:" ++ dst ∨ nm = "set:" ++ dst) → match args with
                                             | [_, n] => 0 ≤ n ∧ n ≤ cap
                                             | _ => False

/-- the heap block `realm_mem`: it is allocated (with a positive size) before it is used, the copy into it and the
    terminating store stay inside the allocated size.  `cap` = size of the allocation so far (0 = not allocated). -/
def heapOK : Int → List (String × List Int) → Prop
  | _, [] => True
  | cap, (nm, args) :: t =>
    if nm = "malloc" then 0 < args.getD 0 0 ∧ heapOK (args.getD 0 0) t
    else if nm = "cp:c.realm_mem" then (0 < cap ∧ 0 ≤ args.getD 1 (-1) ∧ args.getD 1 (-1) ≤ cap) ∧ heapOK cap t
    else if nm = "st:c.realm_mem" then (0 ≤ args.getD 0 (-1) ∧ args.getD 0 (-1) < cap) ∧ heapOK cap t
    else heapOK cap t

/-- what a successful `dec_unpack_outer` leaves in the credential: outer layer, MAC and inner layer tile the buffer -/
def OuterTiles (len : Int) (o : KOut) : Prop :=
  o.ret = 0 →
    5 ≤ o.get "c.outer_len" (-1) ∧ 0 < o.get "c.mac_len" (-1) ∧
    o.get "c.inner.off" (-1) = o.get "c.outer_len" (-1) + o.get "c.mac_len" (-1) ∧
    0 ≤ o.get "c.inner_len" (-1) ∧ o.get "c.inner.off" (-1) + o.get "c.inner_len" (-1) = len

/-- what a successful `dec_unpack_inner` leaves in the message: the payload pointer and length stay inside the layer -/
def InnerPayloadInside (len : Int) (o : KOut) : Prop :=
  o.ret = 0 →
    (o.get "c.msg.data" (-1) = 0 ∧ o.get "c.msg.data_len" (-1) = 0) ∨
    (o.get "c.msg.data" (-1) = 1 ∧ 0 < o.get "c.msg.data_len" (-1) ∧ 37 ≤ o.get "c.msg.data.off" (-1) ∧
      o.get "c.msg.data.off" (-1) + o.get "c.msg.data_len" (-1) ≤ len)

theorem ite_intro {c : Prop} [Decidable c] {P Q : Prop} (hp : c → P) (hq : ¬c → Q) : if c then P else Q := by
  by_cases h : c
  · rw [if_pos h]; exact hp h
  · rw [if_neg h]; exact hq h

/-- close the leaves of a translated kernel after the case split -/
macro "kleaves" : tactic =>
  `(tactic| (all_goals (try simp only [wrapS32, wrapU64, wrapU8, wrapU32] at *)
             all_goals (simp [SZ_iv, SZ_mac, SZ_salt, SZ_addr, OuterTiles, InnerPayloadInside, evAll, readsWithin, RdWithin, CpFits, heapOK, KOut.written, KOut.get] <;> omega)))

/-! ## `dec_unpack_outer` -/

/-- **Every byte `dec_unpack_outer` reads lies inside the unarmored credential**: for every buffer content, every
    length `0 ≤ outer_len ≤ INT_MAX` and every answer of the cipher / MAC tables, each read through the cursor
    (`*p`, `memcpy (…, p, n)`) has `0 ≤ off`, `0 ≤ n` and `off + n ≤ outer_len`.  (F1 - the MAC copied without a
    remaining-length test - makes this statement false.) -/
theorem outer_reads_in_bounds (outer_len malloc_ret : Int) (outer cme civ mme ms cks zv : Int → Int)
    (h : -2147483648 ≤ outer_len ∧ outer_len ≤ 2147483647) :
    readsWithin outer_len (dec_unpack_outer outer_len malloc_ret outer cme civ mme ms cks zv).events := by
  have r4 := rdU8_range outer 4
  unfold dec_unpack_outer
  simp only [apply_ite KOut.events, apply_ite (readsWithin outer_len)]
  repeat' (first | with_reducible apply ite_intro | intro _)
  kleaves

/-- **The copies into the fixed-size members `c->iv` and `c->mac` fit**, provided the tables never report an IV longer
    than `sizeof (c->iv)` or a digest longer than `sizeof (c->mac)` (proved for the probed tables below). -/
theorem outer_copies_fit (outer_len malloc_ret : Int) (outer cme civ mme ms cks zv : Int → Int)
    (hiv : ∀ x, civ x ≤ SZ_iv) (hmac : ∀ x, ms x ≤ SZ_mac) :
    evAll (fun nm a => CpFits "c.iv" SZ_iv nm a ∧ CpFits "c.mac" SZ_mac nm a)
      (dec_unpack_outer outer_len malloc_ret outer cme civ mme ms cks zv).events := by
  have r4 := rdU8_range outer 4
  have r1 := hiv (rdU8 outer 1)
  have r2 := hmac (rdU8 outer 2)
  unfold SZ_iv at r1; unfold SZ_mac at r2
  unfold dec_unpack_outer
  simp only [apply_ite KOut.events, apply_ite (evAll _)]
  repeat' (first | with_reducible apply ite_intro | intro _)
  kleaves

/-- **The realm string's heap block is used inside its allocation**: it is allocated with `realm_len + 1 > 0` bytes
    before any use, `realm_len` bytes are copied into it and the terminator is stored at index `realm_len`. -/
theorem outer_heap_ok (outer_len malloc_ret : Int) (outer cme civ mme ms cks zv : Int → Int) :
    heapOK 0 (dec_unpack_outer outer_len malloc_ret outer cme civ mme ms cks zv).events := by
  have r4 := rdU8_range outer 4
  unfold dec_unpack_outer
  simp only [apply_ite KOut.events, apply_ite (heapOK 0)]
  repeat' (first | with_reducible apply ite_intro | intro _)
  kleaves

/-- **What `dec_unpack_outer` hands to the later stages is inside the buffer**: on success the outer layer, the MAC
    and the inner layer tile the buffer - `5 ≤ c->outer_len`, `c->inner = outer + c->outer_len + c->mac_len` with
    `c->mac_len > 0`, `0 ≤ c->inner_len` and `inner offset + c->inner_len = outer_len`; so the MAC that is verified
    and the inner layer that is decrypted are exactly the bytes after the outer layer, and none lie outside. -/
theorem outer_result_tiles (outer_len malloc_ret : Int) (outer cme civ mme ms cks zv : Int → Int)
    (h : -2147483648 ≤ outer_len ∧ outer_len ≤ 2147483647) (hiv : ∀ x, civ x ≤ SZ_iv) (hmac : ∀ x, ms x ≤ SZ_mac) :
    OuterTiles outer_len (dec_unpack_outer outer_len malloc_ret outer cme civ mme ms cks zv) := by
  have r4 := rdU8_range outer 4
  have r1 := hiv (rdU8 outer 1)
  have r2 := hmac (rdU8 outer 2)
  unfold SZ_iv at r1; unfold SZ_mac at r2
  unfold dec_unpack_outer
  simp only [apply_ite (OuterTiles outer_len)]
  repeat' (first | with_reducible apply ite_intro | intro _)
  kleaves

/-! ## `dec_unpack_inner` -/

/-- **Every byte `dec_unpack_inner` reads lies inside the (decrypted, decompressed) inner layer**, for every content,
    every length an `int` can hold and either cipher setting. -/
theorem inner_reads_in_bounds (inner_len cipher : Int) (inner : Int → Int)
    (h : -2147483648 ≤ inner_len ∧ inner_len ≤ 2147483647) :
    readsWithin inner_len (dec_unpack_inner inner_len cipher inner).events := by
  have r8 := rdU8_range inner 8
  unfold dec_unpack_inner
  simp only [apply_ite KOut.events, apply_ite (readsWithin inner_len)]
  repeat' (first | with_reducible apply ite_intro | intro _)
  kleaves

/-- **The salt and the origin address fit their members**: at most `sizeof (c->salt)` bytes go to the salt and at most
    `sizeof (m->addr)` bytes are copied to (or cleared in) the address. -/
theorem inner_copies_fit (inner_len cipher : Int) (inner : Int → Int) :
    evAll (fun nm a => CpFits "c.salt" SZ_salt nm a ∧ CpFits "c.msg.addr" SZ_addr nm a)
      (dec_unpack_inner inner_len cipher inner).events := by
  have r8 := rdU8_range inner 8
  unfold dec_unpack_inner
  simp only [apply_ite KOut.events, apply_ite (evAll _)]
  repeat' (first | with_reducible apply ite_intro | intro _)
  kleaves

/-- **The payload handed to the client lies inside the inner layer**: on success either `data = NULL` and
    `data_len = 0`, or `data` points at least 37 bytes into the layer and `data + data_len` does not pass its end -
    a reply can never disclose bytes beyond the authenticated inner layer (C08-m1 breaks this). -/
theorem inner_payload_inside (inner_len cipher : Int) (inner : Int → Int)
    (h : -2147483648 ≤ inner_len ∧ inner_len ≤ 2147483647) :
    InnerPayloadInside inner_len (dec_unpack_inner inner_len cipher inner) := by
  have r8 := rdU8_range inner 8
  have rb := rdBE32_range inner (9 + rdU8 inner 8 + 4 + 4 + 4 + 4 + 4 + 4)
  unfold dec_unpack_inner
  simp only [apply_ite (InnerPayloadInside inner_len)]
  repeat' (first | with_reducible apply ite_intro | intro _)
  kleaves

/-! ## `zip_decompress_length` (zip.c): the 8-byte header of a compressed inner layer -/

/-- **The compression header is read only when it is there**: for every non-negative length (what `dec_unpack_outer` hands on,
    see `outer_result_tiles`) the two 4-byte reads of `zip_decompress_length` lie inside the block. -/
theorem zip_header_reads_in_bounds (type len : Int) (src : Int → Int) (h : 0 ≤ len ∧ len ≤ 2147483647) :
    readsWithin len (zip_decompress_length type len src).events := by
  unfold zip_decompress_length
  simp only [apply_ite KOut.events, apply_ite (readsWithin len)]
  repeat' (first | with_reducible apply ite_intro | intro _)
  kleaves

/-- **What it answers**: -1 for a block shorter than the header or without the magic number, otherwise the stored original
    length read big-endian at offset 4 and converted to `int` (so a stored length ≥ 2^31 comes out negative and is refused by
    `dec_decompress_bad_length_refused`). -/
theorem zip_length_spec (type len : Int) (src : Int → Int) (h : 0 ≤ len ∧ len ≤ 2147483647) :
    (zip_decompress_length type len src).ret =
      (if len < 8 ∨ rdBE32 src 0 ≠ ZIP_MAGIC then -1 else wrapS32 (rdBE32 src 4)) := by
  unfold zip_decompress_length ZIP_MAGIC wrapU64
  by_cases h1 : len < 8
  · have : len % 18446744073709551616 < 8 := by omega
    simp [h1, this]
  · have : ¬ len % 18446744073709551616 < 8 := by omega
    by_cases h2 : rdBE32 src 0 = 3402287818 <;> simp [h1, this, h2]

/-- (why the non-negativity matters: `len < sizeof (zip_meta_t)` is an unsigned comparison in C - a negative `int` would pass it) -/
example : (zip_decompress_length 0 (-1) (fun _ => 0)).events = [("rd", [0, 4])] := by decide

/-! ## the probed tables of the real primitives satisfy the size hypotheses -/

theorem getD_le_of_all {l : List Int} {b d : Int} (hl : ∀ v ∈ l, v ≤ b) (hd : d ≤ b) (n : Nat) : l.getD n d ≤ b := by
  rw [List.getD_eq_getElem?_getD]
  cases hn : l[n]? with
  | none => simpa using hd
  | some v => simpa using hl v (List.mem_of_getElem? hn)

/-- **No cipher of this build reports an IV longer than `sizeof (c->iv)`** (table probed from cipher.c / OpenSSL) -/
theorem real_iv_size_fits (x : Int) : Munge.Gen.Dec.cipher_iv_size_real x ≤ SZ_iv := by
  unfold Munge.Gen.Dec.cipher_iv_size_real
  exact getD_le_of_all (by decide +kernel) (by decide) _

/-- **No MAC of this build reports a digest longer than `sizeof (c->mac)`** (table probed from mac.c / OpenSSL) -/
theorem real_mac_size_fits (x : Int) : Munge.Gen.Dec.mac_size_real x ≤ SZ_mac := by
  unfold Munge.Gen.Dec.mac_size_real
  exact getD_le_of_all (by decide +kernel) (by decide) _

/-! ## non-vacuity: concrete buffers on which the kernels succeed, with the reads the theorems speak about -/

/-- version 3, cipher 0 (none), MAC 5, zip 0, realm "ab", then 32 MAC bytes and 3 inner bytes -/
def sampleOuter : Int → Int := bufOf ([3, 0, 5, 0, 2, 97, 98] ++ List.replicate 32 7 ++ [1, 2, 3])

example : (dec_unpack_outer 42 1 sampleOuter (fun _ => 0) (fun _ => 0) (fun _ => 0) (fun _ => 32) (fun _ => 0) (fun _ => 1)).ret = 0 := by
  decide +kernel
example : (dec_unpack_outer 42 1 sampleOuter (fun _ => 0) (fun _ => 0) (fun _ => 0) (fun _ => 32) (fun _ => 0) (fun _ => 1)).events
    = [("rd", [0, 1]), ("rd", [1, 1]), ("rd", [2, 1]), ("rd", [3, 1]), ("rd", [4, 1]), ("malloc", [3]), ("rd", [5, 2]),
       ("cp:c.realm_mem", [5, 2]), ("st:c.realm_mem", [2, 0]), ("rd", [7, 32]), ("cp:c.mac", [7, 32])] := by
  decide +kernel
/-- the MAC check that F1 lacked: one byte short of the MAC is refused (`"Truncated MAC"`), nothing past the end is read -/
example : (dec_unpack_outer 38 1 sampleOuter (fun _ => 0) (fun _ => 0) (fun _ => 0) (fun _ => 32) (fun _ => 0) (fun _ => 1)).events.getLast?
    = some ("m_msg_set_err", [8, 15]) := by
  decide +kernel
example : dec_unpack_outer_errStrings.getD 15 "" = "Truncated MAC" := by decide

/-- 8 salt bytes, address length 4, address, seven big-endian words (the last = payload length 2), payload "hi" -/
def sampleInner : Int → Int :=
  bufOf (List.replicate 8 9 ++ [4, 127, 0, 0, 1] ++ [0, 0, 0, 100, 0, 0, 1, 44, 0, 0, 3, 232, 0, 0, 3, 233,
    255, 255, 255, 255, 255, 255, 255, 255, 0, 0, 0, 2] ++ [104, 105])

example : (dec_unpack_inner 43 4 sampleInner).ret = 0 ∧
    (dec_unpack_inner 43 4 sampleInner).get "c.msg.data.off" (-1) = 41 ∧
    (dec_unpack_inner 43 4 sampleInner).get "c.msg.data_len" (-1) = 2 ∧
    (dec_unpack_inner 43 4 sampleInner).get "c.msg.cred_uid" (-1) = 1000 ∧
    (dec_unpack_inner 43 4 sampleInner).get "c.msg.auth_uid" (-1) = 4294967295 := by
  decide +kernel

end Munge.C08Unpack
