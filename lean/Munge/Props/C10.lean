import Munge.Model.Cred
import Munge.Model.PrimLaws
import Munge.Model.SpecV3
import Munge.Lemmas.CredB
/-
C10 — credentials conform to the documented v3 format in both directions.
`Munge.SpecV3` is written from doc/credential_v3_format.txt alone (own byte order, own base64, own
layout); these theorems relate it to the model of the daemon, generically in the primitives.
-/
namespace Munge.C10
open Munge.Cred Munge.Cred.B Munge.SpecV3 Munge.Gen.Dec

/-- the fields a successful encode put into the credential, read off the message it returns and the
    environment it ran in -/
def fieldsOf (P : Prims) (cf : Conf) (env : Env) (e : Msg) : Fields :=
  { cipher := e.cipher, mac := e.mac, zip := e.zip, realm := e.realm.take e.realmLen,
    iv := rndTake env.rnd MUNGE_CRED_SALT_LEN.toNat (if e.cipher = 0 then 0 else (P.ivLen e.cipher).toNat),
    salt := rndTake env.rnd 0 MUNGE_CRED_SALT_LEN.toNat, addr := cf.addr.take 4,
    time0 := e.time0, ttl := e.ttl, uid := e.clientUid, gid := e.clientGid,
    authUid := e.authUid, authGid := e.authGid, payload := [] }

/-- the decode request carrying credential string `cred` -/
def decReq (cred : Bytes) : Msg := { type := 4, retry := 0, dataLen := cred.length, data := cred }

/-- DAEMON → REFERENCE.  Every credential the daemon emits is exactly what the documented format
    prescribes for the resolved fields (with the request's payload), for every request, configuration,
    environment and primitive table: armor, version 3, header, MAC over OUTER‖INNER under the MAC
    subkey, DEK from the MAC under the DEK subkey, CBC/PKCS#5, 8-byte zip header, big-endian inner
    layout. -/
theorem encode_is_spec (P : Prims) (L : PrimLaws P) (cf : Conf) (env : Env) (m : Msg)
    (hm : m.data.length = m.dataLen ∧ m.realm.length = m.realmLen ∧ m.realmLen < 256 ∧ m.dataLen < 4294967296)
    (ha : cf.addr.length = 4)
    (hok : (encProcess P cf env m).2 = 0) :
    let e := (encProcess P cf env m).1
    e.data = emit P cf.macKey cf.dekKey { (fieldsOf P cf env e) with payload := m.data } ++ [0] := by
  have _ := L
  obtain ⟨uid, gid, _, _, _, he⟩ := encProcess_ok P cf env m hok
  intro e
  have hF : { (fieldsOf P cf env e) with payload := m.data } =
      encF P cf env (applyWrites m (encValidate P cf m) "m.") uid gid := by
    show encFieldsOf P cf env (encProcess P cf env m).1 (applyWrites m (encValidate P cf m) "m.").data = _
    rw [he, encFieldsOf_body]
  rw [hF]
  show (encProcess P cf env m).1.data = _
  rw [he, encBody_eq]
  exact encCred_spec P cf env _ uid gid hm.1 hm.2.1 ha

/-- REFERENCE → DAEMON.  Every credential the reference builds from well-formed fields under the same
    two subkeys is accepted by the daemon (authorised client, inside the window, not seen before) with
    the same field values. -/
theorem decode_accepts_spec (P : Prims) (L : PrimLaws P) (cf : Conf) (env : Env) (rs : ReplaySet) (f : Fields)
    (hf : WF P f) (uid gid : Nat) (hp : env.peer = some (uid, gid)) (hid : uid < 4294967296 ∧ gid < 4294967296)
    (hcf : 1 ≤ cf.maxTtl ∧ cf.maxTtl ≤ MUNGE_MAXIMUM_TTL)
    (hnow : 0 ≤ env.now ∧ env.now < 4294967296)
    (hauth : (f.authUid = UID_ANY ∨ f.authUid = uid ∨ (cf.gotRootAuth = true ∧ uid = 0)) ∧
             (f.authGid = GID_ANY ∨ f.authGid = gid ∨ env.member uid f.authGid = true))
    (hwin : let ttl' : Int := if (f.ttl : Int) > cf.maxTtl then cf.maxTtl else f.ttl
            let sk : Int := if cf.gotClockSkew then ttl' else 1
            sk ≤ f.time0 ∧ f.time0 + ttl' < 4294967296 ∧ (f.time0 : Int) - sk ≤ env.now ∧ env.now ≤ f.time0 + ttl')
    (hzip : f.zip = 0 ∨ (inner f) ≠ [])
    (hfresh : ∀ k, (decProcess P cf env [] (decReq (emit P cf.macKey cf.dekKey f))).key = some k → k ∉ rs) :
    let o := decProcess P cf env rs (decReq (emit P cf.macKey cf.dekKey f))
    o.rc = 0 ∧ o.msg.data = f.payload ∧ o.msg.credUid = f.uid ∧ o.msg.credGid = f.gid ∧
    o.msg.authUid = f.authUid ∧ o.msg.authGid = f.authGid ∧ o.msg.cipher = f.cipher ∧ o.msg.mac = f.mac ∧
    o.msg.zip = f.zip ∧ o.msg.time0 = f.time0 ∧
    o.msg.addrLen = f.addr.length ∧ (f.addr.length = 4 → o.msg.addr = f.addr) ∧
    (f.realm ≠ [] → o.msg.realm = f.realm ++ [0]) := by
  have _ := hzip
  have hd : (decReq (emit P cf.macKey cf.dekKey f)).data.take (decReq (emit P cf.macKey cf.dekKey f)).dataLen =
      emit P cf.macKey cf.dekKey f ++ [] := by
    show (emit P cf.macKey cf.dekKey f).take (emit P cf.macKey cf.dekKey f).length = _
    rw [List.take_length, List.append_nil]
  have h0 := decode_emit P L cf env [] f hf uid gid hp hid hcf hnow hauth hwin (decReq (emit P cf.macKey cf.dekKey f)) []
    (by simp) hd (by show (0 : Nat) ≤ 5; omega) rfl (by simp)
  have hk := hfresh _ (by rw [h0])
  have h1 := decode_emit P L cf env rs f hf uid gid hp hid hcf hnow hauth hwin (decReq (emit P cf.macKey cf.dekKey f)) []
    (by simp) hd (by show (0 : Nat) ≤ 5; omega) rfl hk
  intro o
  have ho : o = _ := h1
  rw [ho]
  refine ⟨rfl, rfl, rfl, rfl, rfl, rfl, rfl, rfl, rfl, rfl, rfl, ?_, ?_⟩
  · intro h4
    show (if f.addr.length = 4 then f.addr else [0, 0, 0, 0]) = f.addr
    rw [if_pos h4]
  · intro hr
    show (if f.realm.length > 0 then f.realm ++ [0] else _) = _
    rw [if_pos (List.length_pos_iff.mpr hr)]

/-- the reference's base64 is the daemon's armor: the model's streaming encoder over OUTER, MAC, INNER
    equals the independent RFC 4648 definition on the concatenation -/
theorem armor_is_rfc4648 (o t i : Bytes) : Base64.encodeChunks [o, t, i] = base64 (o ++ t ++ i) := by
  exact armor_rfc o t i

/-- big-endian helpers agree -/
theorem be32_is_u32be (n : Nat) : be32 n = u32be n := by
  exact be32_eq_u32be n

end Munge.C10
