import Munge.Model.Cred
import Munge.Model.PrimLaws
import Munge.Model.SpecV3
import Munge.Lemmas.CredB
/-
C10 — credentials conform to the documented v3 format in both directions.
`Munge.SpecV3` is written from doc/credential_v3_format.txt alone (own byte order, own base64, own
layout); these theorems relate it to the model of the daemon, generically in the primitives.
-/
namespace Munge.C10
open Munge.Cred Munge.Cred.B Munge.SpecV3 Munge.Gen.Dec

/-- the fields a successful encode put into the credential, read off the message it returns and the
    environment it ran in -/
def fieldsOf (P : Prims) (cf : Conf) (env : Env) (e : Msg) : Fields :=
  { cipher := e.cipher, mac := e.mac, zip := e.zip, realm := e.realm.take e.realmLen,
    iv := rndTake env.rnd MUNGE_CRED_SALT_LEN.toNat (if e.cipher = 0 then 0 else (P.ivLen e.cipher).toNat),
    salt := rndTake env.rnd 0 MUNGE_CRED_SALT_LEN.toNat, addr := cf.addr.take 4,
    time0 := e.time0, ttl := e.ttl, uid := e.clientUid, gid := e.clientGid,
    authUid := e.authUid, authGid := e.authGid, payload := [] }

/-- the decode request carrying credential string `cred` -/
def decReq (cred : Bytes) : Msg := { type := 4, retry := 0, dataLen := cred.length, data := cred }

/-- DAEMON → REFERENCE.  Every credential the daemon emits is exactly what the documented format
    prescribes for the resolved fields (with the request's payload), for every request, configuration,
    environment and primitive table: armor, version 3, header, MAC over OUTER‖INNER under the MAC
    subkey, DEK from the MAC under the DEK subkey, CBC/PKCS#5, 8-byte zip header, big-endian inner
    layout. -/
theorem encode_is_spec (P : Prims) (L : PrimLaws P) (cf : Conf) (env : Env) (m : Msg)
    (hm : m.data.length = m.dataLen ∧ m.realm.length = m.realmLen ∧ m.realmLen < 256 ∧ m.dataLen < 4294967296)
    (ha : cf.addr.length = 4)
    (hok : (encProcess P cf env m).2 = 0) :
    let e := (encProcess P cf env m).1
    e.data = emit P cf.macKey cf.dekKey { (fieldsOf P cf env e) with payload := m.data } ++ [0] := by
  have _ := L
  obtain ⟨uid, gid, _, _, _, he⟩ := encProcess_ok P cf env m hok
  intro e
  have hF : { (fieldsOf P cf env e) with payload := m.data } =
      encF P cf env (applyWrites m (encValidate P cf m) "m.") uid gid := by
    show encFieldsOf P cf env (encProcess P cf env m).1 (applyWrites m (encValidate P cf m) "m.").data = _
    rw [he, encFieldsOf_body]
  rw [hF]
  show (encProcess P cf env m).1.data = _
  rw [he, encBody_eq]
  exact encCred_spec P cf env _ uid gid hm.1 hm.2.1 ha

/-- REFERENCE → DAEMON.  Every credential the reference builds from well-formed fields under the same
    two subkeys is accepted by the daemon (authorised client, inside the window, not seen before) with
    the same field values. -/
theorem decode_accepts_spec (P : Prims) (L : PrimLaws P) (cf : Conf) (env : Env) (rs : ReplaySet) (f : Fields)
    (hf : WF P f) (uid gid : Nat) (hp : env.peer = some (uid, gid)) (hid : uid < 4294967296 ∧ gid < 4294967296)
    (hcf : 1 ≤ cf.maxTtl ∧ cf.maxTtl ≤ MUNGE_MAXIMUM_TTL)
    (hnow : 0 ≤ env.now ∧ env.now < 4294967296)
    (hauth : (f.authUid = UID_ANY ∨ f.authUid = uid ∨ (cf.gotRootAuth = true ∧ uid = 0)) ∧
             (f.authGid = GID_ANY ∨ f.authGid = gid ∨ env.member uid f.authGid = true))
    (hwin : let ttl' : Int := if (f.ttl : Int) > cf.maxTtl then cf.maxTtl else f.ttl
            let sk : Int := if cf.gotClockSkew then ttl' else 1
            sk ≤ f.time0 ∧ f.time0 + ttl' < 4294967296 ∧ (f.time0 : Int) - sk ≤ env.now ∧ env.now ≤ f.time0 + ttl')
    (hzip : f.zip = 0 ∨ (inner f) ≠ [])
    (hfresh : ∀ k, (decProcess P cf env [] (decReq (emit P cf.macKey cf.dekKey f))).key = some k → k ∉ rs) :
    let o := decProcess P cf env rs (decReq (emit P cf.macKey cf.dekKey f))
    o.rc = 0 ∧ o.msg.data = f.payload ∧ o.msg.credUid = f.uid ∧ o.msg.credGid = f.gid ∧
    o.msg.authUid = f.authUid ∧ o.msg.authGid = f.authGid ∧ o.msg.cipher = f.cipher ∧ o.msg.mac = f.mac ∧
    o.msg.zip = f.zip ∧ o.msg.time0 = f.time0 ∧
    o.msg.addrLen = f.addr.length ∧ (f.addr.length = 4 → o.msg.addr = f.addr) ∧
    (f.realm ≠ [] → o.msg.realm = f.realm ++ [0]) := by
  have _ := hzip
  have hd : (decReq (emit P cf.macKey cf.dekKey f)).data.take (decReq (emit P cf.macKey cf.dekKey f)).dataLen =
      emit P cf.macKey cf.dekKey f ++ [] := by
    show (emit P cf.macKey cf.dekKey f).take (emit P cf.macKey cf.dekKey f).length = _
    rw [List.take_length, List.append_nil]
  have h0 := decode_emit P L cf env [] f hf uid gid hp hid hcf hnow hauth hwin (decReq (emit P cf.macKey cf.dekKey f)) []
    (by simp) hd (by show (0 : Nat) ≤ 5; omega) rfl (by simp)
  have hk := hfresh _ (by rw [h0])
  have h1 := decode_emit P L cf env rs f hf uid gid hp hid hcf hnow hauth hwin (decReq (emit P cf.macKey cf.dekKey f)) []
    (by simp) hd (by show (0 : Nat) ≤ 5; omega) rfl hk
  intro o
  have ho : o = _ := h1
  rw [ho]
  refine ⟨rfl, rfl, rfl, rfl, rfl, rfl, rfl, rfl, rfl, rfl, rfl, ?_, ?_⟩
  · intro h4
    show (if f.addr.length = 4 then f.addr else [0, 0, 0, 0]) = f.addr
    rw [if_pos h4]
  · intro hr
    show (if f.realm.length > 0 then f.realm ++ [0] else _) = _
    rw [if_pos (List.length_pos_iff.mpr hr)]

/-- the reference's base64 is the daemon's armor: the model's streaming encoder over OUTER, MAC, INNER
    equals the independent RFC 4648 definition on the concatenation -/
theorem armor_is_rfc4648 (o t i : Bytes) : Base64.encodeChunks [o, t, i] = base64 (o ++ t ++ i) := by
  exact armor_rfc o t i

/-- big-endian helpers agree -/
theorem be32_is_u32be (n : Nat) : be32 n = u32be n := by
  exact be32_eq_u32be n

/-! ### the packers follow the source, statement by statement

`enc_pack_outer_layout` / `enc_pack_inner_layout` are extracted from the AST of enc.c on every run: the
ordered list of what each function writes through its cursor (`*p = x`, `u32 = htonl (x); memcpy (p, &u32, …)`,
`memcpy (p, src, len)`, with the guarding `if`).  The hand-written packers of the model are proved equal to
the interpretation of those lists, so a field dropped, added, reordered or re-encoded in the C breaks this
(in addition to the byte-exact correspondence run). -/

/-- the bytes one extracted write contributes, given the message, configuration, salt and IV -/
def itemBytes (cf : Conf) (m : Msg) (salt iv : Bytes) (kind expr : String) : Bytes :=
  if kind = "byte" ∧ expr = "c->version" then [UInt8.ofNat MUNGE_CRED_VERSION.toNat]
  else if kind = "byte" ∧ expr = "m->cipher" then [UInt8.ofNat m.cipher]
  else if kind = "byte" ∧ expr = "m->mac" then [UInt8.ofNat m.mac]
  else if kind = "byte" ∧ expr = "m->zip" then [UInt8.ofNat m.zip]
  else if kind = "byte" ∧ expr = "m->realm_len" then [UInt8.ofNat m.realmLen]
  else if kind = "bytes" ∧ expr = "m->realm_str len m->realm_len" then m.realm.take m.realmLen
  else if kind = "bytes" ∧ expr = "c->iv len c->iv_len" then iv
  else if kind = "bytes" ∧ expr = "c->salt len c->salt_len" then salt
  else if kind = "byte" ∧ expr = "m->addr_len=sizeof(m->addr)" then [4]
  else if kind = "bytes" ∧ expr = "&conf->addr len sizeof(m->addr)" then cf.addr.take 4
  else if kind = "be32" ∧ expr = "m->time0" then be32 m.time0
  else if kind = "be32" ∧ expr = "m->ttl" then be32 m.ttl
  else if kind = "be32" ∧ expr = "m->client_uid" then be32 m.clientUid
  else if kind = "be32" ∧ expr = "m->client_gid" then be32 m.clientGid
  else if kind = "be32" ∧ expr = "m->auth_uid" then be32 m.authUid
  else if kind = "be32" ∧ expr = "m->auth_gid" then be32 m.authGid
  else if kind = "be32" ∧ expr = "m->data_len" then be32 m.dataLen
  else if kind = "bytes" ∧ expr = "m->data len m->data_len" then m.data.take m.dataLen
  else [0xEE, 0xEE, 0xEE, 0xEE, 0xEE]      -- an item the model does not know: makes the equalities below fail

def renderLayout (cf : Conf) (m : Msg) (salt iv : Bytes) (lay : List (String × String × String)) : Bytes :=
  (lay.map fun (k, e, _) => itemBytes cf m salt iv k e).flatten

/-- `packOuter` is the interpretation of what `enc_pack_outer` writes, in source order, for every message -/
theorem pack_outer_follows_source (cf : Conf) (m : Msg) (salt iv : Bytes) :
    packOuter m iv = renderLayout cf m salt iv enc_pack_outer_layout := by
  simp [packOuter, renderLayout, enc_pack_outer_layout, itemBytes]

/-- `packInner` is the interpretation of what `enc_pack_inner` writes, in source order, for every message -/
theorem pack_inner_follows_source (cf : Conf) (m : Msg) (salt iv : Bytes) :
    packInner cf m salt = renderLayout cf m salt iv enc_pack_inner_layout := by
  simp [packInner, renderLayout, enc_pack_inner_layout, itemBytes]

end Munge.C10
