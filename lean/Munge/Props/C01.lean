import Munge.Model.Cred
import Munge.Model.PrimLaws
import Munge.Lemmas.CredB
/-
C01 — encode then decode returns the identical payload, identity and options.
Theorems about the credential model (`Munge/Model/Cred.lean`): generic in the primitives (`Prims`)
under the structural laws `PrimLaws` (proved for the toy instance in Lemmas/ToyLaws.lean, validated on
OpenSSL/zlib/bzlib by the real-primitive harness).
-/
namespace Munge.C01
open Munge.Cred Munge.Cred.B Munge.Gen.Dec Munge.C

/-- a well-formed encode request as `m_msg_recv` delivers it: lengths agree with the byte strings, all
    integers in their C ranges -/
structure ReqOk (m : Msg) : Prop where
  type_enc : m.type = 2
  noerr : m.errorNum = 0
  cipher : m.cipher < 256
  mac : m.mac < 256
  zip : m.zip < 256
  realm : m.realm.length = m.realmLen ∧ m.realmLen < 255
  ttl : m.ttl < 4294967296
  auth : m.authUid < 4294967296 ∧ m.authGid < 4294967296
  data : m.data.length = m.dataLen ∧ m.dataLen ≤ 1048576     -- what the MUNGE_MAXIMUM_REQ_LEN gate of m_msg_recv guarantees
  retry : m.retry ≤ 5

/-- the daemon's configuration is sane: defaults name valid algorithms, TTLs in range, 4-byte address -/
structure ConfOk (P : Prims) (cf : Conf) : Prop where
  defCipher : cf.defCipher = 0 ∨ P.cipherValid cf.defCipher = true
  defMac : P.macValid cf.defMac = true
  defZip : cf.defZip = 0 ∨ P.zipValid cf.defZip = true
  small : cf.defCipher < 256 ∧ cf.defMac < 256 ∧ cf.defZip < 256
  ttl : 1 ≤ cf.defTtl ∧ cf.defTtl ≤ MUNGE_MAXIMUM_TTL ∧ 1 ≤ cf.maxTtl ∧ cf.maxTtl ≤ MUNGE_MAXIMUM_TTL
  addr : cf.addr.length = 4

/-- the decode request that carries exactly the credential an encode returned -/
def decReqOf (enc : Msg) : Msg := { type := 4, retry := 0, dataLen := enc.dataLen, data := enc.data }

/-- Options are resolved as the statement says: DEFAULT selects the daemon default; an empty payload
    disables compression; TTL 0 selects the default and anything above the maximum is clamped; and
    compression is REPORTED as none exactly when it was requested/defaulted off, the payload was empty, or
    the compressed inner layer would not be shorter. -/
theorem encode_resolution (P : Prims) (L : PrimLaws P) (cf : Conf) (hcf : ConfOk P cf) (env : Env) (m : Msg)
    (hm : ReqOk m) (hok : (encProcess P cf env m).2 = 0) :
    let e := (encProcess P cf env m).1
    e.cipher = (if m.cipher = 1 then cf.defCipher else m.cipher) ∧
    e.mac = (if m.mac = 1 then cf.defMac else m.mac) ∧
    (e.zip = 0 ∨ e.zip = (if m.zip = 1 then cf.defZip else m.zip)) ∧
    (m.dataLen = 0 → e.zip = 0) ∧
    (e.ttl : Int) = (if m.ttl = 0 then cf.defTtl else if (m.ttl : Int) > cf.maxTtl then cf.maxTtl else m.ttl) := by
  have _ := L
  have _ := hm
  obtain ⟨uid, gid, _, hv, _, he⟩ := encProcess_ok P cf env m hok
  obtain ⟨v1, v2, v3, v4, _⟩ := encValidate_ok P cf m hv
  obtain ⟨s1, s2, s3⟩ := hcf.small
  obtain ⟨t1, t2, t3, t4⟩ := hcf.ttl
  unfold MUNGE_MAXIMUM_TTL at t2 t4
  intro e
  have hE : e = _ := he.trans (encBody_eq P cf env _ uid gid)
  have hz : e.zip = encZip P cf env (applyWrites m (encValidate P cf m) "m.") uid gid := by rw [hE]
  have hzz : e.zip = 0 ∨ e.zip = (applyWrites m (encValidate P cf m) "m.").zip := by
    rw [hz]; unfold encZip; split
    · exact Or.inr rfl
    · exact Or.inl rfl
  refine ⟨?_, ?_, ?_, ?_, ?_⟩
  · rw [hE]; show (applyWrites m (encValidate P cf m) "m.").cipher = _
    rw [v1, Nat.mod_eq_of_lt s1]
  · rw [hE]; show (applyWrites m (encValidate P cf m) "m.").mac = _
    rw [v2, Nat.mod_eq_of_lt s2]
  · rw [v3, Nat.mod_eq_of_lt s3] at hzz
    rcases hzz with h | h
    · exact Or.inl h
    · by_cases h0 : m.dataLen = 0
      · rw [if_pos h0] at h; exact Or.inl h
      · rw [if_neg h0] at h; exact Or.inr h
  · intro h0
    rw [v3, if_pos h0] at hzz
    rcases hzz with h | h <;> exact h
  · rw [hE]; show ((applyWrites m (encValidate P cf m) "m.").ttl : Int) = _
    rw [v4, wrapU32_id (by omega) (by omega), wrapU32_id (by omega) (by omega)]

/-- ROUND TRIP.  For every primitive table satisfying `PrimLaws`, every sane configuration, every
    well-formed request (any payload, cipher, MAC, zip, TTL, restriction), every salt/IV, every encoder
    identity and encode time: if encode succeeds, then a decode of exactly that credential — by an
    authorised client, inside the validity window (no 32-bit wrap), not seen before by this daemon —
    succeeds and returns the byte-identical payload and length, the encoder's UID and GID, the
    restrictions, the resolved cipher/MAC/zip, the TTL capped by the decoder's maximum, the encode time
    and the origin address. -/
theorem roundtrip (P : Prims) (L : PrimLaws P) (cf : Conf) (hcf : ConfOk P cf) (envE envD : Env)
    (rs : ReplaySet) (m : Msg) (hm : ReqOk m)
    (uid gid : Nat) (hpe : envE.peer = some (uid, gid)) (hid : uid < 4294967296 ∧ gid < 4294967296)
    (hnowE : 0 ≤ envE.now ∧ envE.now < 4294967296)
    (hok : (encProcess P cf envE m).2 = 0)
    (duid dgid : Nat) (hpd : envD.peer = some (duid, dgid)) (hdid : duid < 4294967296 ∧ dgid < 4294967296)
    (hnowD : 0 ≤ envD.now ∧ envD.now < 4294967296)
    (hauth : let e := (encProcess P cf envE m).1
             (e.authUid = UID_ANY ∨ e.authUid = duid ∨ (cf.gotRootAuth = true ∧ duid = 0)) ∧
             (e.authGid = GID_ANY ∨ e.authGid = dgid ∨ envD.member duid e.authGid = true))
    (hwin : let e := (encProcess P cf envE m).1
            let ttl' : Int := if (e.ttl : Int) > cf.maxTtl then cf.maxTtl else e.ttl
            let sk : Int := if cf.gotClockSkew then ttl' else 1
            sk ≤ envE.now ∧ envE.now + ttl' < 4294967296 ∧ envE.now - sk ≤ envD.now ∧ envD.now ≤ envE.now + ttl')
    (hfresh : ∀ k, (decProcess P cf envD [] (decReqOf (encProcess P cf envE m).1)).key = some k → k ∉ rs) :
    let e := (encProcess P cf envE m).1
    let o := decProcess P cf envD rs (decReqOf e)
    o.rc = 0 ∧ o.msg.errorNum = 0 ∧
    o.msg.data = m.data ∧ o.msg.dataLen = m.dataLen ∧
    o.msg.credUid = uid ∧ o.msg.credGid = gid ∧
    o.msg.authUid = m.authUid ∧ o.msg.authGid = m.authGid ∧
    o.msg.cipher = e.cipher ∧ o.msg.mac = e.mac ∧ o.msg.zip = e.zip ∧
    (o.msg.ttl : Int) = (if (e.ttl : Int) > cf.maxTtl then cf.maxTtl else e.ttl) ∧
    (o.msg.time0 : Int) = envE.now ∧ (o.msg.time1 : Int) = envD.now ∧
    o.msg.addrLen = 4 ∧ o.msg.addr = cf.addr := by
  obtain ⟨uid', gid', hp', hv, _, he⟩ := encProcess_ok P cf envE m hok
  have hug : uid' = uid ∧ gid' = gid := by
    rw [hpe] at hp'; injection hp' with h; injection h with h1 h2; exact ⟨h1.symm, h2.symm⟩
  rw [hug.1, hug.2] at he
  obtain ⟨_, _, _, v4, _⟩ := encValidate_ok P cf m hv
  obtain ⟨t1, t2, t3, t4⟩ := hcf.ttl
  have hE := he.trans (encBody_eq P cf envE _ uid gid)
  have hWF := encF_WF P L cf envE m uid gid hv hcf.defCipher hcf.defMac hcf.defZip hcf.small hm.cipher hm.mac hm.zip
    hm.realm.2 hm.ttl hm.auth hid (by rw [hm.data.1]; exact hm.data.2) hcf.addr
  have hwE := wrapU32_id hnowE.1 hnowE.2
  have hwD := wrapU32_id hnowD.1 hnowD.2
  rw [hE] at hauth hwin hfresh ⊢
  have hd : (decReqOf { encMsg envE (applyWrites m (encValidate P cf m) "m.") uid gid with
        zip := encZip P cf envE (applyWrites m (encValidate P cf m) "m.") uid gid,
        data := encCred P cf envE (applyWrites m (encValidate P cf m) "m.") uid gid,
        dataLen := (encCred P cf envE (applyWrites m (encValidate P cf m) "m.") uid gid).length }).data.take
      (decReqOf { encMsg envE (applyWrites m (encValidate P cf m) "m.") uid gid with
        zip := encZip P cf envE (applyWrites m (encValidate P cf m) "m.") uid gid,
        data := encCred P cf envE (applyWrites m (encValidate P cf m) "m.") uid gid,
        dataLen := (encCred P cf envE (applyWrites m (encValidate P cf m) "m.") uid gid).length }).dataLen =
      SpecV3.emit P cf.macKey cf.dekKey (encF P cf envE (applyWrites m (encValidate P cf m) "m.") uid gid) ++ [0] := by
    show (encCred P cf envE _ uid gid).take (encCred P cf envE _ uid gid).length = _
    rw [List.take_length]
    exact encCred_spec P cf envE _ uid gid hm.data.1 hm.realm.1 hcf.addr
  have hwin' : (let ttl' : Int := if ((applyWrites m (encValidate P cf m) "m.").ttl : Int) > cf.maxTtl then cf.maxTtl
                    else (applyWrites m (encValidate P cf m) "m.").ttl
      let sk : Int := if cf.gotClockSkew then ttl' else 1
      sk ≤ ((wrapU32 envE.now).toNat : Int) ∧ ((wrapU32 envE.now).toNat : Int) + ttl' < 4294967296 ∧
        ((wrapU32 envE.now).toNat : Int) - sk ≤ envD.now ∧ envD.now ≤ ((wrapU32 envE.now).toNat : Int) + ttl') := by
    rw [Int.toNat_of_nonneg (by omega), hwE]; exact hwin
  have h0 := decode_emit P L cf envD [] _ hWF duid dgid hpd hdid ⟨t3, t4⟩ hnowD hauth hwin' _ [0] (by decide) hd
    (by show (0 : Nat) ≤ 5; omega) rfl (by simp)
  have hk := hfresh _ (by rw [h0])
  have h1 := decode_emit P L cf envD rs _ hWF duid dgid hpd hdid ⟨t3, t4⟩ hnowD hauth hwin' _ [0] (by decide) hd
    (by show (0 : Nat) ≤ 5; omega) rfl hk
  intro e o
  have ho : o = _ := h1
  rw [ho]
  refine ⟨rfl, rfl, rfl, hm.data.1, rfl, rfl, rfl, rfl, rfl, rfl, rfl, ?_, ?_, ?_, ?_, ?_⟩
  · show ((capT cf (applyWrites m (encValidate P cf m) "m.").ttl : Nat) : Int) = _
    unfold capT
    rw [Int.toNat_of_nonneg (by split <;> omega)]
    rfl
  · show (((wrapU32 envE.now).toNat : Nat) : Int) = _
    rw [Int.toNat_of_nonneg (by omega), hwE]
  · show (((wrapU32 envD.now).toNat : Nat) : Int) = _
    rw [Int.toNat_of_nonneg (by omega), hwD]
  · show (cf.addr.take 4).length = 4
    rw [List.length_take, hcf.addr]; rfl
  · show (if (cf.addr.take 4).length = 4 then cf.addr.take 4 else [0, 0, 0, 0]) = cf.addr
    have : cf.addr.take 4 = cf.addr := List.take_of_length_le (by rw [hcf.addr]; omega)
    rw [this, if_pos hcf.addr]

/-- the size gate: a request or credential whose packed length exceeds MUNGE_MAXIMUM_REQ_LEN is refused
    with no data-bearing reply at all (never a truncated payload) -/
theorem length_gate (P : Prims) (cf : Conf) (env : Env) (rs : ReplaySet) (req : Bytes) (sendOk : Bool)
    (h : req.length ≥ 11) (hl : (rd32 ((req.drop 7).take 4) : Int) > MUNGE_MAXIMUM_REQ_LEN) :
    jobExec P cf env rs req sendOk = (none, rs) := by
  have hr : ∃ w, recvMsg req = .drop w := by
    unfold recvMsg
    simp only [show ¬ req.length < 11 by omega, if_false]
    by_cases h1 : rd32 (req.take 4) ≠ 6319435
    · exact ⟨_, if_pos h1⟩
    · rw [if_neg h1]
      by_cases h2 : (req.getD 4 0).toNat ≠ 4
      · exact ⟨_, if_pos h2⟩
      · rw [if_neg h2, if_pos hl]; exact ⟨_, rfl⟩
  obtain ⟨w, hw⟩ := hr
  unfold jobExec
  rw [hw]

end Munge.C01
