import Munge.Model.Hkdf
import Munge.Lemmas.Hkdf
/-
C20 — Keys: exact-size, private, never overwritten; HKDF per RFC 5869; whole-file keying.

Property theorems only; helper lemmas live in `Munge/Lemmas/Hkdf.lean`, the executable model in
`Munge/Model/Hkdf.lean`.  Everything named `Munge.Gen.Hkdf.*` (the structure of the HKDF loop, the `--bits`
arithmetic and range tests, `open` flags and mode, the `--force` unlink, the digest program of `create_subkeys`,
its length test and read-loop tests, and all constants) is regenerated from the C sources on every run, so every
statement in this file is re-checked against what the code says now.
-/
namespace Munge.C20
open Munge.C Munge.Gen.Hkdf Munge.Hkdf Munge.Spec Munge.Mungekey Munge.Subkeys

/-! ### HKDF -/

/-- `hkdf()` equals the RFC 5869 definition for every MAC with tags of `hashLen > 0` octets (`hashLen` is what
    `mac_size` returns, a C `int`), every input keying material, optional salt (absent = HashLen zeros), info and
    every output length up to 255 blocks. -/
theorem hkdf_is_rfc (mac : Mac) (hashLen : Nat) (salt : Option Bytes) (ikm info : Bytes) (L : Nat)
    (hpos : 0 < hashLen) (hint : hashLen ≤ 2147483647) (hlen : ∀ k m, (mac k m).length = hashLen)
    (hL : L ≤ 255 * hashLen) :
    Hkdf.run mac hashLen salt ikm info L = rfc5869 mac hashLen salt ikm info L := by
  unfold Hkdf.run rfc5869 expand
  simp only [effSalt_eq, extract_eq, prk_eq hashLen _ (hlen _ _), hkdfExtract, roundInit_eq]
  rw [hkdfExpand_eq_blocks]
  exact expandLoop_spec mac hashLen hpos hint hlen _ ikm info _ L 0 _ L _ (by omega) (Nat.le_refl _)
    (by omega) (ceil_mul_ge L hashLen hpos) (Or.inl rfl)

/-- … and it delivers exactly the `L` octets asked for. -/
theorem hkdf_length (mac : Mac) (hashLen : Nat) (salt : Option Bytes) (ikm info : Bytes) (L : Nat)
    (hpos : 0 < hashLen) (hint : hashLen ≤ 2147483647) (hlen : ∀ k m, (mac k m).length = hashLen)
    (hL : L ≤ 255 * hashLen) :
    (Hkdf.run mac hashLen salt ikm info L).length = L := by
  rw [hkdf_is_rfc mac hashLen salt ikm info L hpos hint hlen hL]
  exact rfc5869_length mac hashLen hpos hlen salt ikm info L

/-! ### mungekey: size -/

/-- `--bits b` with `256 ≤ b ≤ 8192` yields a key of exactly `⌈b/8⌉` bytes, which lies within 32..1024; any
    other value makes mungekey exit with an error; without `--bits` the key has `MUNGE_KEY_LEN_DFL_BYTES` bytes. -/
theorem key_size (b : Int) :
    (256 ≤ b ∧ b ≤ 8192 →
      keyNumBytes (some b) = some ((b + 7) / 8) ∧ 8 * ((b + 7) / 8) ≥ b ∧ 8 * ((b + 7) / 8) < b + 8 ∧
        32 ≤ (b + 7) / 8 ∧ (b + 7) / 8 ≤ 1024) ∧
    (¬ (256 ≤ b ∧ b ≤ 8192) → keyNumBytes (some b) = none) ∧
    keyNumBytes none = some KEY_LEN_DFL_BYTES := by
  have hd : validates dflBytes = true := by decide
  refine ⟨fun h => ?_, fun h => ?_, ?_⟩
  · have hv : validates ((b + 7) / 8) = true := (validates_iff _).2 (by omega)
    refine ⟨?_, by omega, by omega, by omega, by omega⟩
    simp [keyNumBytes, hd, parseBits_in b h.1 h.2, hv]
  · simp [keyNumBytes, hd, parseBits_out b h]
  · simp [keyNumBytes, hd]; rfl

/-- The file mungekey creates holds exactly the requested number of bytes, and they are the RFC 5869 HKDF
    (default MAC, the entropy read as keying material and salt, the `MUNGEKEY:<mac>:<bits>:` distinguisher)
    — for every `--bits` value in range, every umask, on a fresh name or with `--force`. -/
theorem key_exact (mac : Mac) (hlen : ∀ k m, (mac k m).length = DEFAULT_MAC_LEN.toNat) (ikm salt : Bytes)
    (b : Int) (hb : 256 ≤ b ∧ b ≤ 8192) (fs : FS) (path : String) (force : Bool) (umask : Nat)
    (hfresh : fs path = none ∨ force = true) :
    let n := (b + 7) / 8
    let r := createKey fs path force umask n (keySecret mac DEFAULT_MAC_LEN.toNat ikm salt (secretLen n))
    r.2 = true ∧ ∃ f, r.1 path = some f ∧ f.content.length = n.toNat ∧
      f.content = rfc5869 mac DEFAULT_MAC_LEN.toNat (some salt) ikm (keyInfo n) n.toNat := by
  intro n r
  have hn : 32 ≤ n ∧ n ≤ 1024 := by show 32 ≤ (b + 7) / 8 ∧ (b + 7) / 8 ≤ 1024; omega
  have hsl : secretLen n = n := by unfold secretLen wrapU64; omega
  have hwl : (writeLen n).toNat = n.toNat := by unfold writeLen wrapU64; omega
  have hmd : DEFAULT_MAC_LEN.toNat = 32 := rfl
  have hr : r = _ := createKey_fresh fs path force umask n _ hfresh
  have hrun : keySecret mac DEFAULT_MAC_LEN.toNat ikm salt n =
      rfc5869 mac DEFAULT_MAC_LEN.toNat (some salt) ikm (keyInfo n) n.toNat := by
    unfold keySecret
    exact hkdf_is_rfc mac _ (some salt) ikm (keyInfo n) n.toNat (by rw [hmd]; omega) (by rw [hmd]; omega) hlen
      (by rw [hmd]; omega)
  have hlen' : (rfc5869 mac DEFAULT_MAC_LEN.toNat (some salt) ikm (keyInfo n) n.toNat).length = n.toNat :=
    rfc5869_length mac _ (by rw [hmd]; omega) hlen _ _ _ _
  have hcontent : List.take (writeLen n).toNat (fit (secretLen n).toNat
        (keySecret mac DEFAULT_MAC_LEN.toNat ikm salt (secretLen n))) =
      rfc5869 mac DEFAULT_MAC_LEN.toNat (some salt) ikm (keyInfo n) n.toNat := by
    rw [hsl, hwl, hrun, fit_eq _ _ hlen', List.take_of_length_le (by omega)]
  rw [hr]
  refine ⟨rfl, _, FS.set_same _ _ _, ?_, ?_⟩
  · show (List.take _ _).length = _
    rw [hcontent, hlen']
  · exact hcontent

/-! ### mungekey: privacy and exclusive creation -/

/-- Whatever the umask (all of them, not only the 512 permission masks), a key file that mungekey created
    grants nothing to group or others. -/
theorem key_private (fs : FS) (path : String) (force : Bool) (umask : Nat) (n : Int) (secret : Bytes) :
    (createKey fs path force umask n secret).2 = true →
      ∃ f, (createKey fs path force umask n secret).1 path = some f ∧ f.mode &&& 0o077 = 0 := by
  intro hok
  by_cases h : fs path = none ∨ force = true
  · rw [createKey_fresh fs path force umask n secret h]
    exact ⟨_, FS.set_same _ _ _, maskMode_and openMode umask 0o077 (by decide)⟩
  · have hf : force = false := by cases force <;> simp_all
    obtain ⟨old, ho⟩ : ∃ old, fs path = some old := by
      cases hp : fs path with
      | none => exact absurd (Or.inl hp) h
      | some o => exact ⟨o, rfl⟩
    subst hf
    rw [createKey_exists fs path umask n secret old ho] at hok
    exact absurd hok (by simp)

/-- An existing key file is never replaced without `--force`: the exclusive `open` fails and the file system
    is left exactly as it was. -/
theorem no_overwrite (fs : FS) (path : String) (umask : Nat) (n : Int) (secret : Bytes) (old : File)
    (h : fs path = some old) : createKey fs path false umask n secret = (fs, false) :=
  createKey_exists fs path umask n secret old h

/-- With `--force` (or on a name that does not exist) the key is created afresh: the name now denotes a new file
    with the new bytes, and no other name is touched. -/
theorem force_replaces (fs : FS) (path : String) (force : Bool) (umask : Nat) (n : Int) (secret : Bytes)
    (h : fs path = none ∨ force = true) :
    let r := createKey fs path force umask n secret
    r.2 = true ∧
    r.1 path = some { content := (fit (secretLen n).toNat secret).take (writeLen n).toNat,
                      mode := maskMode openMode umask } ∧
    ∀ q, q ≠ path → r.1 q = fs q := by
  intro r
  have hr : r = _ := createKey_fresh fs path force umask n secret h
  rw [hr]
  exact ⟨rfl, FS.set_same _ _ _, fun q hq => FS.set_other _ _ _ _ hq⟩

/-! ### munged: whole-file keying -/

/-- the cipher subkey and the MAC subkey that `create_subkeys` stored into `conf` -/
def dekKey (r : Option (List (String × Bytes))) : Option Bytes := r.bind (·.lookup "dek_key")
def macKey (r : Option (List (String × Bytes))) : Option Bytes := r.bind (·.lookup "mac_key")

/-- For every file content of at least 32 bytes and **every** way `read()` may chop it up (any chunk sizes, any
    number of `EINTR`s), the two subkeys are the digest of the entire file followed by "1" (cipher key) and by
    "2" (MAC key).  Needs only the streaming law of the digest. -/
theorem whole_file_keying {σ : Type} (d : Digest σ) (law : StreamLaw d) (file : Bytes) (evs : List ReadEv)
    (hr : ReadsOf file evs) (hlen : 32 ≤ file.length) :
    dekKey (createSubkeys d evs) = some (d.hash MAC_SHA1.toNat (file ++ [0x31])) ∧
    macKey (createSubkeys d evs) = some (d.hash MAC_SHA1.toNat (file ++ [0x32])) := by
  obtain ⟨s', hs, _, he⟩ := createSubkeys_eval d file evs hr
  obtain ⟨outs, ho, hd, hm⟩ := he (by omega)
  have hne : file ≠ [] := by intro h; subst h; simp at hlen
  rw [ho, hs law] at *
  simp [dekKey, macKey, hd, hm, Digest.hash, fed, hne, law _ _ _]

/-- A key file shorter than 32 bytes is refused and one of at least 32 bytes is accepted — for every digest
    and every read chunking. -/
theorem min_len {σ : Type} (d : Digest σ) (file : Bytes) (evs : List ReadEv) (hr : ReadsOf file evs) :
    (createSubkeys d evs = none ↔ file.length < 32) := by
  obtain ⟨s', _, h1, h2⟩ := createSubkeys_eval d file evs hr
  constructor
  · intro hn
    apply Classical.byContradiction
    intro hc
    obtain ⟨outs, ho, _⟩ := h2 hc
    rw [hn] at ho
    exact absurd ho (by simp)
  · exact h1

/-- the hypothesis under which different key files give different subkeys: the digest does not collide on the two
    given inputs (a hypothesis of `same_key_iff`, never an axiom) -/
def NoCollision {σ : Type} (d : Digest σ) (alg : Nat) (x y : Bytes) : Prop := d.hash alg x = d.hash alg y → x = y

/-- byte-identical key files give identical subkeys (the whole result of `create_subkeys` is the same), however
    each daemon's reads were chunked -/
theorem same_file_same_keys {σ : Type} (d : Digest σ) (law : StreamLaw d) (file : Bytes) (e1 e2 : List ReadEv)
    (h1 : ReadsOf file e1) (h2 : ReadsOf file e2) : createSubkeys d e1 = createSubkeys d e2 := by
  apply createSubkeys_congr
  intro s n
  obtain ⟨s1, r1, l1⟩ := readLoop_reads d file e1 h1 s n
  obtain ⟨s2, r2, l2⟩ := readLoop_reads d file e2 h2 s n
  rw [r1, r2, l1 law, l2 law]

/-- Two daemons hold the same subkeys exactly when their key files are byte-identical — "only if" under the
    explicit hypothesis that the digest does not collide on the two suffixed files. -/
theorem same_key_iff {σ : Type} (d : Digest σ) (law : StreamLaw d) (f1 f2 : Bytes) (e1 e2 : List ReadEv)
    (h1 : ReadsOf f1 e1) (h2 : ReadsOf f2 e2) (l1 : 32 ≤ f1.length) (l2 : 32 ≤ f2.length)
    (hnc : NoCollision d MAC_SHA1.toNat (f1 ++ [0x31]) (f2 ++ [0x31]) ∨
           NoCollision d MAC_SHA1.toNat (f1 ++ [0x32]) (f2 ++ [0x32])) :
    createSubkeys d e1 = createSubkeys d e2 ↔ f1 = f2 := by
  constructor
  · intro h
    have w1 := whole_file_keying d law f1 e1 h1 l1
    have w2 := whole_file_keying d law f2 e2 h2 l2
    rw [h] at w1
    rcases hnc with hn | hn
    · exact List.append_cancel_right (hn (Option.some.inj (w1.1.symm.trans w2.1)))
    · exact List.append_cancel_right (hn (Option.some.inj (w1.2.symm.trans w2.2)))
  · intro h
    subst h
    exact same_file_same_keys d law f1 e1 e2 h1 h2

/-! ### non-vacuity -/

/-- the toy MAC the harness shares with the driver satisfies the length hypothesis (`Toy.mac_length`) -/
example (salt : Option Bytes) (ikm info : Bytes) (L : Nat) (h : L ≤ 255 * 20) :
    Hkdf.run (Toy.mac 20) 20 salt ikm info L = rfc5869 (Toy.mac 20) 20 salt ikm info L :=
  hkdf_is_rfc _ 20 salt ikm info L (by omega) (by omega) (Toy.mac_length 20) h

/-- a digest that satisfies the streaming law and never collides: the identity -/
def idDigest : Digest Bytes := { init := fun _ => [], update := fun s b => s ++ b, final := fun s => s }
example : StreamLaw idDigest := fun s a b => List.append_assoc s a b
example (x y : Bytes) : NoCollision idDigest 3 x y := by
  intro h; simpa [Digest.hash, idDigest] using h

/-- a 33-byte file read as 1 + EINTR + 32 bytes -/
example : ReadsOf (7 :: List.replicate 32 9)
    [{ n := 1, errno := 0, data := [7] }, { n := -1, errno := EINTR, data := [] },
     { n := 32, errno := 4, data := List.replicate 32 9 }, { n := 0, errno := 0, data := [] }] := by
  have h := ReadsOf.data (List.replicate 32 9) 4 (by decide) (ReadsOf.eof 0)
  exact ReadsOf.data [7] 0 (by decide) (ReadsOf.eintr (by simpa using h))

/-- … on which `create_subkeys` over the identity digest returns the whole file followed by "1" / "2" -/
example : (dekKey (createSubkeys idDigest
    [{ n := 1, errno := 0, data := [7] }, { n := -1, errno := EINTR, data := [] },
     { n := 32, errno := 4, data := List.replicate 32 9 }, { n := 0, errno := 0, data := [] }]),
   macKey (createSubkeys idDigest
    [{ n := 33, errno := 0, data := 7 :: List.replicate 32 9 }, { n := 0, errno := 0, data := [] }]))
    = (some (7 :: List.replicate 32 9 ++ [0x31]), some (7 :: List.replicate 32 9 ++ [0x32])) := by decide
example : createSubkeys idDigest [{ n := 31, errno := 0, data := List.replicate 31 9 }, { n := 0, errno := 0, data := [] }]
    = none := by decide

example : keyNumBytes (some 257) = some 33 := by decide
example : keyNumBytes (some 255) = none := by decide
example : ((createKey (fun _ => none) "k" false 0o022 32 (List.replicate 32 1)).1 "k").map (·.content)
    = some (List.replicate 32 1) := by decide

end Munge.C20
