import Munge.Model.Replay
import Munge.Lemmas.Hash
import Munge.Lemmas.Replay
/-
C05 — on one daemon a credential decodes successfully at most once.

Property theorems only; helper lemmas live in `Munge/Lemmas/{Hash,Replay}.lean`.  What is
regenerated from the sources on every run (`Munge.Gen.Hash`): the tests of the chain walks of
`hash_find/insert/remove`, the selection test of `hash_delete_if`, `REPLAY_HASH_SIZE`, the number
of MAC bytes kept, the comparator kernel `replay_cmp_f`, the expiry expression of
`replay_insert/remove`, the kernels `dec_validate_replay` (retry gate) and `dec_validate_time`,
the stage order of `dec_process_msg` and the condition under which it calls `replay_remove`
after a failed send (`rollbackCond`).

The model (`Munge.Replay.attempt`, `Sys.step`) takes the roll-back decision as a parameter
`rb`.  Theorems named `…_of_rollback_inserted` hold for every decision that fires only for a
request whose own `replay_insert` returned 0 (`RollbackSound`); `rollback_implies_inserted` is
the obligation that the decision read from the source is of that kind, and the unsuffixed
theorems instantiate the general ones with it.  `f7_counterexample` shows that the obligation is
not a technicality: with the decision "overall success" (the source before the F7 repair) the
full statement is false.
-/
set_option linter.unusedSimpArgs false
set_option linter.unusedSectionVars false
set_option linter.unnecessarySimpa false
namespace Munge.C05
open Munge.C Munge.Hash Munge.Replay Munge.Gen.Hash

/-! ### the hash table is a finite set -/

/-- For every comparator that is a total order, every hash function, every table size and every
    sequence of insert / remove / find / delete-if operations, the real table's answers are those
    of a plain finite set, its chains stay sorted and every item stays in the slot of its hash.
    In particular `insert` reports a duplicate iff the key is present, and keys that share a
    bucket (`hf` constant is allowed) or a hash prefix never mask each other. -/
theorem hash_refines_set {κ : Type} [DecidableEq κ] (cmp : κ → κ → Int) (ho : CmpOrder cmp) (hf : κ → Nat)
    (size : Nat) (hsize : 0 < size) (ops : List (Op κ)) :
    (runTable cmp hf (Table.empty size) ops).2 = (runSet (fun _ => false) ops).2 ∧
    Inv cmp hf (runTable cmp hf (Table.empty size) ops).1 ∧
    ∀ x, x ∈ (runTable cmp hf (Table.empty size) ops).1.toList ↔ (runSet (fun _ => false) ops).1 x = true :=
  run_refines ho ops _ _ (inv_empty cmp hf hsize) (fun x => by simp [Table.toList_empty])

/-- `replay_cmp_f` (as translated, with C's `memcmp` on the kept MAC bytes) is such a total order:
    two replay keys compare equal iff they have the same kept MAC bytes and the same expiry. -/
theorem replay_cmp_total_order : CmpOrder Replay.cmp := cmpOrder

/-- `replay_insert` answers 1 (EEXIST) iff the key is in the table, 0 otherwise, and then exactly
    that key is added; `replay_remove` removes exactly the key `replay_insert` would build. -/
theorem replay_insert_spec (st : State) (hok : st.Ok) (c : Cred) :
    (st.has (insertKey c) → insert st c = (st, 1, EEXIST)) ∧
    (¬ st.has (insertKey c) → (insert st c).2.1 = 0 ∧ ∀ x, (insert st c).1.has x ↔ x = insertKey c ∨ st.has x) ∧
    (∀ x, (remove st c).1.has x ↔ st.has x ∧ x ≠ insertKey c) := by
  refine ⟨fun h => ?_, fun h => ?_, fun x => ?_⟩
  · rcases insert_cases hok c with ⟨_, he⟩ | ⟨hn, _⟩
    · exact he
    · exact absurd h hn
  · rcases insert_cases hok c with ⟨hp, _⟩ | ⟨_, st', he, _, hm⟩
    · exact absurd hp h
    · rw [he]; exact ⟨rfl, hm⟩
  · rcases remove_cases hok c with ⟨hn, he⟩ | ⟨_, st', he, _, hm⟩
    · rw [he]
      exact ⟨fun hx => ⟨hx, fun e => hn (e ▸ hx)⟩, fun hx => hx.1⟩
    · rw [he]; exact hm x

/-! ### failed decodes consume nothing; distinct credentials do not interfere -/

/-- The replay check is the last stage of `dec_process_msg`, after the MAC, authorisation and
    time checks (stage list read from the source). -/
theorem stage_order :
    stages.getLast? = some "dec_validate_replay" ∧
    stages.idxOf "dec_validate_mac" < stages.idxOf "dec_validate_auth" ∧
    stages.idxOf "dec_validate_auth" < stages.idxOf "dec_validate_time" ∧
    stages.idxOf "dec_validate_time" < stages.idxOf "dec_validate_replay" ∧
    stages.idxOf "dec_validate_replay" < stages.length := by
  decide

/-- A decode that ends invalid (any earlier stage failed), unauthorised, expired or rewound leaves
    the daemon's state — in particular the replay table — exactly as it was. -/
theorem failed_no_consume (rb : RollbackPred) (cfg : Cfg) (d : Daemon) (r : Req)
    (h : r.preErr ≠ 0 ∨ r.authOk = false ∨ ¬ timeOk cfg d.now r) :
    (attempt rb cfg d r).1 = d ∧ (attempt rb cfg d r).2.insertRet = none :=
  ⟨(attempt_fail rb cfg d r h).1, (attempt_fail rb cfg d r h).2.1⟩

/-- … and such a decode is never answered SUCCESS. -/
theorem failed_not_success (rb : RollbackPred) (cfg : Cfg) (d : Daemon) (r : Req)
    (h : r.preErr ≠ 0 ∨ r.authOk = false ∨ ¬ timeOk cfg d.now r) :
    (attempt rb cfg d r).2.code ≠ EMUNGE_SUCCESS := by
  unfold attempt
  by_cases h1 : r.preErr ≠ 0
  · rw [if_pos h1]; exact h1
  · by_cases h2 : r.authOk = false
    · simp [h1, h2, EMUNGE_SUCCESS, EMUNGE_CRED_UNAUTHORIZED]
    · have h2' : r.authOk = true := by simpa using h2
      have h3 : (dec_validate_time r.time0 r.ttl (wrapU32 d.now) cfg.max_ttl cfg.got_clock_skew).ret < 0 := by
        rcases h with h | h | h
        · exact absurd h h1
        · exact absurd h h2
        · unfold timeOk at h; exact Classical.not_not.1 h
      simp only [h1, h2', h3, if_true, if_false, Bool.not_true, Bool.false_eq_true]
      exact dvt_err_ne _ _ _ _ _ h3

/-- Requests for credentials with different replay keys (kept MAC bytes, expiry) never affect each
    other: whatever request `r1` did, the outcome of `r2` is what it would have been without it,
    and `r1` leaves the presence of every other key unchanged.  Holds for every roll-back
    decision. -/
theorem distinct_no_interference (rb : RollbackPred) (cfg : Cfg) (hv : cfg.Valid) (d : Daemon) (hok : d.Ok)
    (r1 r2 : Req) (hne : keyOf cfg r1 ≠ keyOf cfg r2) :
    (attempt rb cfg (attempt rb cfg d r1).1 r2).2 = (attempt rb cfg d r2).2 ∧
    ∀ x, x ≠ keyOf cfg r1 → ((attempt rb cfg d r1).1.replay.has x ↔ d.replay.has x) := by
  have h1 := attempt_ok rb cfg hv d hok r1
  refine ⟨attempt_outcome rb cfg hv d hok r2 _ h1.1 h1.2 ?_, fun x hx => attempt_other rb cfg hv d hok r1 hx⟩
  exact attempt_other rb cfg hv d hok r1 (Ne.symm hne)

/-- Credentials whose MACs differ within the kept bytes have different replay keys (so, under the
    assumption that the MAC binds the salt — `Mac16Binding`, not proved here — two credentials
    minted by identical requests in the same second never report each other as replayed). -/
theorem distinct_macs_distinct_keys (cfg : Cfg) (r1 r2 : Req)
    (h : r1.mac.take MAC_KEEP ≠ r2.mac.take MAC_KEEP) : keyOf cfg r1 ≠ keyOf cfg r2 := by
  intro e; apply h; simpa [keyOf] using congrArg Key.mac e

/-! ### the roll-back obligation -/

/-- OBLIGATION on the source: `dec_process_msg` withdraws the replay entry after a failed send
    only if *this request's* `replay_insert` returned 0.  (On the source before the F7 repair the
    condition is `rc == 0`, which also holds for a retry-exempted request that inserted nothing:
    this theorem then fails to check, which is the intended alarm.) -/
theorem rollback_implies_inserted : RollbackSound genRollback := by
  intro retry gsr errno ins
  unfold genRollback rollbackCond fieldsOf KOut.written dec_validate_replay
  by_cases h0 : ins = 0
  · intro _; exact h0
  · intro h
    exfalso
    revert h
    simp only [h0, if_false]
    (repeat' split) <;> simp_all

/-- With the roll-back keyed on overall success (`rc == 0`) the decision is unsound: a request
    carrying retry = 1 is let through on an entry it did not insert, and would withdraw it. -/
theorem success_keyed_rollback_unsound : ¬ RollbackSound (fun rc _ => decide (rc = 0)) := by
  intro h
  have := h 1 1 EEXIST 1 (by decide)
  omega

/-! ### sequential histories -/

/-- First decode: if the entry is absent, an authorised in-time request is answered SUCCESS, its
    `replay_insert` returned 0, and — when the reply is delivered — the entry is present
    afterwards. -/
theorem first_succeeds (rb : RollbackPred) (cfg : Cfg) (hv : cfg.Valid) (d : Daemon) (hok : d.Ok) (r : Req)
    (hpre : r.preErr = 0) (hauth : r.authOk = true) (ht : timeOk cfg d.now r)
    (habs : ¬ d.replay.has (keyOf cfg r)) :
    (attempt rb cfg d r).2.code = EMUNGE_SUCCESS ∧ (attempt rb cfg d r).2.insertRet = some 0 ∧
    (r.sendOk = true → (attempt rb cfg d r).2.delivered = true ∧ (attempt rb cfg d r).1.replay.has (keyOf cfg r)) := by
  have h := attempt_absent rb cfg hv d hok r hpre hauth ht habs
  refine ⟨h.2.1, h.1, fun hs => ⟨by rw [h.2.2.1, hs], ?_⟩⟩
  exact (h.2.2.2.2.2.2.1 (h.2.2.2.2.2.1 hs) _).2 (Or.inl rfl)

/-- Later decode: if the entry is present, an authorised in-time request is answered REPLAYED,
    unless it is the documented exception (retries enabled and header retry count in
    `1..MUNGE_SOCKET_RETRY_ATTEMPTS`), which is answered SUCCESS. -/
theorem later_replayed (rb : RollbackPred) (cfg : Cfg) (hv : cfg.Valid) (d : Daemon) (hok : d.Ok) (r : Req)
    (hpre : r.preErr = 0) (hauth : r.authOk = true) (ht : timeOk cfg d.now r)
    (hpres : d.replay.has (keyOf cfg r)) :
    (¬ Exempt cfg r.retry → (attempt rb cfg d r).2.code = EMUNGE_CRED_REPLAYED) ∧
    (Exempt cfg r.retry → (attempt rb cfg d r).2.code = EMUNGE_SUCCESS) := by
  have h := attempt_present rb cfg hv d hok r hpre hauth ht hpres
  exact ⟨h.2.2.1, h.2.1⟩

/-- AT MOST ONCE, sequentially, for any sound roll-back decision.  On any daemon state (i.e. after
    any history), let request `ri` be answered SUCCESS with the reply delivered.  Then after any
    further history `mid` in which the entry is not purged (every purge tick comes at a clock value
    `≤` the key's expiry), a request `rj` for the same credential is not answered SUCCESS unless
    it is the documented retry exception; if it is authorised and in time it is answered
    REPLAYED. -/
theorem at_most_once_of_rollback_inserted (rb : RollbackPred) (hrb : RollbackSound rb)
    (cfg : Cfg) (hv : cfg.Valid) (d : Daemon) (hok : d.Ok) (ri rj : Req) (mid : List Ev)
    (hkey : keyOf cfg rj = keyOf cfg ri)
    (hsucc : (attempt rb cfg d ri).2.code = EMUNGE_SUCCESS ∧ (attempt rb cfg d ri).2.delivered = true)
    (hlive : keptBy (keyOf cfg ri) d.now mid) :
    ((attempt rb cfg (run rb cfg (attempt rb cfg d ri).1 mid).1 rj).2.code = EMUNGE_SUCCESS → Exempt cfg rj.retry) ∧
    (rj.preErr = 0 → rj.authOk = true → timeOk cfg (run rb cfg (attempt rb cfg d ri).1 mid).1.now rj →
      ¬ Exempt cfg rj.retry → (attempt rb cfg (run rb cfg (attempt rb cfg d ri).1 mid).1 rj).2.code = EMUNGE_CRED_REPLAYED) := by
  -- after `ri` the entry is present
  have hi_ok := attempt_ok rb cfg hv d hok ri
  have hpres1 : (attempt rb cfg d ri).1.replay.has (keyOf cfg ri) := by
    rcases passes_or_fails cfg d.now ri with ⟨h1, h2, h3⟩ | h
    · by_cases hp : d.replay.has (keyOf cfg ri)
      · have := attempt_present rb cfg hv d hok ri h1 h2 h3 hp
        rw [(this.2.2.2.2 (Or.inl hrb)).1]; exact hp
      · have := attempt_absent rb cfg hv d hok ri h1 h2 h3 hp
        have hs : ri.sendOk = true := by rw [← this.2.2.1]; exact hsucc.2
        exact (this.2.2.2.2.2.2.1 (this.2.2.2.2.2.1 hs) _).2 (Or.inl rfl)
    · exact absurd hsucc.1 (failed_not_success rb cfg d ri h)
  -- it stays through `mid`
  have hrun := run_ok rb cfg hv mid _ hi_ok.1
  have hpres2 := run_keeps rb cfg hv (keyOf cfg ri) mid _ (Or.inl hrb) hi_ok.1 hpres1 (by rw [hi_ok.2]; exact hlive)
  rw [← hkey] at hpres2
  refine ⟨fun hc => ?_, fun h1 h2 h3 hne => ?_⟩
  · rcases passes_or_fails cfg (run rb cfg (attempt rb cfg d ri).1 mid).1.now rj with ⟨h1, h2, h3⟩ | h
    · by_cases he : Exempt cfg rj.retry
      · exact he
      · have := (attempt_present rb cfg hv _ hrun.1 rj h1 h2 h3 hpres2).2.2.1 he
        rw [this] at hc; exact absurd hc (by decide)
    · exact absurd hc (failed_not_success rb cfg _ rj h)
  · exact (attempt_present rb cfg hv _ hrun.1 rj h1 h2 h3 hpres2).2.2.1 hne

/-- AT MOST ONCE, sequentially, for the daemon as its source reads now. -/
theorem at_most_once_seq (cfg : Cfg) (hv : cfg.Valid) (d : Daemon) (hok : d.Ok) (ri rj : Req) (mid : List Ev)
    (hkey : keyOf cfg rj = keyOf cfg ri)
    (hsucc : (attempt genRollback cfg d ri).2.code = EMUNGE_SUCCESS ∧ (attempt genRollback cfg d ri).2.delivered = true)
    (hlive : keptBy (keyOf cfg ri) d.now mid) :
    ((attempt genRollback cfg (run genRollback cfg (attempt genRollback cfg d ri).1 mid).1 rj).2.code = EMUNGE_SUCCESS →
      Exempt cfg rj.retry) ∧
    (rj.preErr = 0 → rj.authOk = true → timeOk cfg (run genRollback cfg (attempt genRollback cfg d ri).1 mid).1.now rj →
      ¬ Exempt cfg rj.retry →
      (attempt genRollback cfg (run genRollback cfg (attempt genRollback cfg d ri).1 mid).1 rj).2.code = EMUNGE_CRED_REPLAYED) :=
  at_most_once_of_rollback_inserted genRollback rollback_implies_inserted cfg hv d hok ri rj mid hkey hsucc hlive

/-- What holds of every roll-back decision, sound or not (in particular of the source before the
    F7 repair): the same conclusion, provided every request for this credential in between has its
    reply delivered. -/
theorem at_most_once_partial (rb : RollbackPred) (cfg : Cfg) (hv : cfg.Valid) (d : Daemon) (hok : d.Ok)
    (ri rj : Req) (mid : List Ev) (hkey : keyOf cfg rj = keyOf cfg ri)
    (hpres1 : (attempt rb cfg d ri).1.replay.has (keyOf cfg ri))
    (hdel : repliesDelivered cfg (keyOf cfg ri) mid)
    (hlive : keptBy (keyOf cfg ri) d.now mid) :
    (attempt rb cfg (run rb cfg (attempt rb cfg d ri).1 mid).1 rj).2.code = EMUNGE_SUCCESS → Exempt cfg rj.retry := by
  have hi_ok := attempt_ok rb cfg hv d hok ri
  have hrun := run_ok rb cfg hv mid _ hi_ok.1
  have hpres2 := run_keeps rb cfg hv (keyOf cfg ri) mid _ (Or.inr hdel) hi_ok.1 hpres1 (by rw [hi_ok.2]; exact hlive)
  rw [← hkey] at hpres2
  intro hc
  rcases passes_or_fails cfg (run rb cfg (attempt rb cfg d ri).1 mid).1.now rj with ⟨h1, h2, h3⟩ | h
  · by_cases he : Exempt cfg rj.retry
    · exact he
    · have := (attempt_present rb cfg hv _ hrun.1 rj h1 h2 h3 hpres2).2.2.1 he
      rw [this] at hc; exact absurd hc (by decide)
  · exact absurd hc (failed_not_success rb cfg _ rj h)

/-! ### interleavings -/

/-- AT MOST ONCE, concurrently, for any sound roll-back decision.  `k` requests that reach the
    replay stage run their atomic steps (replay stage incl. `replay_insert` | send | roll back) in
    an arbitrary interleaving `sched`, starting from any well-formed table.  Then at every point:
    per key at most one request has inserted and not withdrawn ("holder"), a holder's key is
    present, every present key was either there initially or has a holder — so starting from an
    empty table, the number of holders of a key is 1 iff the key is present; keys present
    initially stay present.  Hence two different first-attempt (not retry-exempted) requests for
    the same credential are never both answered SUCCESS with the reply delivered, and none is if
    the key was present initially. -/
theorem at_most_once_conc_of_rollback_inserted (rb : RollbackPred) (hrb : RollbackSound rb)
    (cfg : Cfg) (hv : cfg.Valid) (reqs : Nat → CReq) (st : State) (hok : st.Ok) (sched : List Nat) :
    let s := Sys.run rb cfg reqs ⟨st, fun _ => {}⟩ sched
    (∀ i j, i ≠ j → ckey reqs i = ckey reqs j → ¬ (holder s i ∧ holder s j)) ∧
    (∀ i, holder s i → s.replay.has (ckey reqs i)) ∧
    (∀ k, s.replay.has k → st.has k ∨ ∃ i, holder s i ∧ ckey reqs i = k) ∧
    (∀ k, st.has k → s.replay.has k) ∧
    (∀ i j, i ≠ j → ckey reqs i = ckey reqs j → ¬ Exempt cfg (reqs i).retry → ¬ Exempt cfg (reqs j).retry →
      ¬ (deliveredSuccess reqs s i ∧ deliveredSuccess reqs s j)) ∧
    (∀ i, st.has (ckey reqs i) → ¬ Exempt cfg (reqs i).retry → ¬ deliveredSuccess reqs s i) := by
  intro s
  have hinv : ConcInv cfg reqs (fun k => st.has k) s :=
    concInv_run rb hrb cfg reqs _ sched _ (concInv_init cfg reqs st hok)
  -- a delivered first-attempt SUCCESS belongs to a holder
  have hds : ∀ i, ¬ Exempt cfg (reqs i).retry → deliveredSuccess reqs s i → holder s i := by
    intro i hne ⟨hpc, hsend, hcode⟩
    obtain ⟨hins, errno, _, _, hc⟩ := hinv.cons i (by omega)
    have hw : (s.loc i).withdrew = false := by
      cases h : (s.loc i).withdrew with
      | false => rfl
      | true => have := (hinv.wd i h).2; rw [hsend] at this; exact absurd this (by decide)
    refine ⟨by omega, ?_, hw⟩
    rcases hins with h0 | h1
    · exact h0
    · exfalso
      have := (dvr_spec (reqs i).retry cfg.got_socket_retry errno 1 hv.retry01).2.2 (by omega) hne
      rw [h1] at hc
      rw [hc] at hcode
      simp [codeOf, this.1, this.2, EMUNGE_CRED_REPLAYED, EMUNGE_SUCCESS] at hcode
  refine ⟨hinv.uniq, hinv.held, hinv.owned, hinv.basek, fun i j hij hkey hi hj h => ?_, fun i hb hne h => ?_⟩
  · exact hinv.uniq i j hij hkey ⟨hds i hi h.1, hds j hj h.2⟩
  · exact hinv.hbase i (hds i hne h) hb

/-- AT MOST ONCE, concurrently, for the daemon as its source reads now. -/
theorem at_most_once_conc (cfg : Cfg) (hv : cfg.Valid) (reqs : Nat → CReq) (st : State) (hok : st.Ok) (sched : List Nat) :
    let s := Sys.run genRollback cfg reqs ⟨st, fun _ => {}⟩ sched
    (∀ i j, i ≠ j → ckey reqs i = ckey reqs j → ¬ (holder s i ∧ holder s j)) ∧
    (∀ i, holder s i → s.replay.has (ckey reqs i)) ∧
    (∀ k, s.replay.has k → st.has k ∨ ∃ i, holder s i ∧ ckey reqs i = k) ∧
    (∀ k, st.has k → s.replay.has k) ∧
    (∀ i j, i ≠ j → ckey reqs i = ckey reqs j → ¬ Exempt cfg (reqs i).retry → ¬ Exempt cfg (reqs j).retry →
      ¬ (deliveredSuccess reqs s i ∧ deliveredSuccess reqs s j)) ∧
    (∀ i, st.has (ckey reqs i) → ¬ Exempt cfg (reqs i).retry → ¬ deliveredSuccess reqs s i) :=
  at_most_once_conc_of_rollback_inserted genRollback rollback_implies_inserted cfg hv reqs st hok sched

/-! ### F7: why the roll-back obligation matters -/

/-- the concrete history of F7 on a fresh daemon: `A` decodes (retry 0, delivered); `D` presents
    the same credential with header retry = 1 and its reply cannot be sent; `E` presents it again
    with retry 0 -/
def f7Cred : List UInt8 := [1, 2, 3, 4, 5, 6, 7, 8, 9, 10, 11, 12, 13, 14, 15, 16]
def f7A : Req := ⟨f7Cred, 1000, 300, 0, 0, true, true⟩
def f7D : Req := ⟨f7Cred, 1000, 300, 1, 0, true, false⟩
def f7Start : Daemon := ⟨initSized 3 {}, 1000⟩

/-- With the roll-back keyed on overall success, the history `[A; D; E]` answers SUCCESS to two
    first-attempt requests for the same credential with no purge in between: the full-strength
    statement is FALSE of that decision.  (This is defect F7 of the source before its repair.) -/
theorem f7_counterexample :
    let rb : RollbackPred := fun rc _ => decide (rc = 0)
    let out := (run rb {} f7Start [.req f7A, .req f7D, .req f7A]).2
    out.map (fun o => o.map (fun o => (o.code, o.delivered))) =
      [some (EMUNGE_SUCCESS, true), some (EMUNGE_SUCCESS, false), some (EMUNGE_SUCCESS, true)] := by
  decide +kernel

/-! ### non-vacuity -/

/-- the default configuration is valid, the fresh daemon is well-formed -/
example : ({} : Cfg).Valid := ⟨by decide, by decide, by decide⟩
example : f7Start.Ok := ⟨wf_initSized _ (fun t h => by simp at h) (by decide), ⟨_, rfl⟩⟩
/-- with a sound decision ("this request inserted"), the same history answers REPLAYED to `E` -/
example :
    ((run (fun rc fld => decide (rc = 0) && decide (fld "inserted" ≠ 0)) {} f7Start [.req f7A, .req f7D, .req f7A]).2.map
      (fun o => o.map (fun o => o.code))) = [some 0, some 0, some 17] := by
  decide +kernel

end Munge.C05
