import Munge.Lemmas.Fd
/-
C08, item "Deadline": the timed I/O routines of src/libcommon/fd.c never wait past their deadline (plus rounding),
report exactly what they transferred, do not spin, and never lose, repeat or reorder a byte -- for EVERY environment
script (arrival times, EINTR storms, spurious readiness, EOF, errors, short writes of every size, clock steps).

The statements are about `run (routineOf k)`, the model of lean/Munge/Model/Fd.lean over the decision kernels that
tools/gen/g_fd.py cuts out of the current fd.c (`Munge.Gen.Fd`).  `kernels_are_spec` re-proves on every run that those
kernels are the reviewed ones; everything else is transported from lean/Munge/Lemmas/Fd.lean.  harness/h_fd.c diffs the
model against the real fd.c on scripted environments.
-/
set_option linter.unusedSimpArgs false
namespace Munge.C08Fd
open Munge.Fd Munge.C Munge

/-- the routine of fd.c of each kind, assembled from the generated kernels -/
def routineOf : Kind → Routine
  | .readN => readN
  | .writeN => writeN
  | .writeIov => writeIov

macro "kernel_eq" : tactic => `(tactic|
  ((repeat' split) <;> first | rfl | omega | (exfalso; omega) | (simp_all [KOut.get, KOut.written, KOut.calls]; done) |
    (simp [KOut.get, KOut.written, KOut.calls] <;> omega) | (simp_all [KOut.get, KOut.written, KOut.calls] <;> omega)))

/-- `_fd_get_poll_timeout` as translated from fd.c computes what the reviewed reading `Spec.tmo` says:
    -1 without reading the clock for `when == NULL`, 0 without reading the clock for a zero `when`, otherwise
    `max 0 ((when.sec - now.sec) * 1000 + (when.usec - now.usec + 999) / 1000)` in C `long`/`int` arithmetic. -/
theorem tmo_is_spec : tmoGen = Spec.tmo := by
  funext wp ws wu ns nu
  unfold tmoGen Gen.Fd.fd_get_poll_timeout Spec.tmo Spec.rawMsecs
  kernel_eq

/-- The decision kernels generated from the current `fd_timed_read_n` are the reviewed ones: argument guard, the
    do_skip_first_poll jump, loop condition, remaining-time computation, the chain after poll (EINTR/EAGAIN continue,
    other errors -1, 0 = timeout with errno ETIMEDOUT and break, POLLNVAL -> EBADF, POLLERR -> EIO), the tail after read
    (EINTR/EAGAIN continue, other errors -1, 0 = EOF break, accumulate, break if the timeout was 0), `return n - nleft`. -/
theorem readN_is_spec : readN = Spec.routine .readN := by
  simp only [readN, Spec.routine, Routine.mk.injEq]
  refine ⟨trivial, rfl, ?_, ?_, ?_, tmo_is_spec, ?_, ?_, ?_, trivial, trivial⟩
  · funext fd p c e; unfold Gen.Fd.read_guard Spec.guard2; kernel_eq
  · funext d nl; unfold Gen.Fd.read_skip Spec.skip; kernel_eq
  · funext nl; unfold Gen.Fd.read_cond Spec.cond; kernel_eq
  · funext nfd e rev; unfold Gen.Fd.read_afterPoll Spec.afterPollR; kernel_eq
  · funext n e nl ms; unfold Gen.Fd.read_afterIo Spec.afterIoR; kernel_eq
  · funext n nl; rfl

/-- The same for `fd_timed_write_n` (additionally POLLHUP -> break; no EOF case after write). -/
theorem writeN_is_spec : writeN = Spec.routine .writeN := by
  simp only [writeN, Spec.routine, Routine.mk.injEq]
  refine ⟨trivial, rfl, ?_, ?_, ?_, tmo_is_spec, ?_, ?_, ?_, trivial, trivial⟩
  · funext fd p c e; unfold Gen.Fd.write_guard Spec.guard2; kernel_eq
  · funext d nl; unfold Gen.Fd.write_skip Spec.skip; kernel_eq
  · funext nl; unfold Gen.Fd.write_cond Spec.cond; kernel_eq
  · funext nfd e rev; unfold Gen.Fd.write_afterPoll Spec.afterPollW; kernel_eq
  · funext n e nl ms; unfold Gen.Fd.write_afterIo Spec.afterIoW; kernel_eq
  · funext n nl; rfl

/-- The same for `fd_timed_write_iov`, including the loop that advances the private iovec copy after a short write:
    `for (i = 0; i < iov_cnt && nwritten > 0; i++) { n = min (nwritten, iov[i].iov_len); if (n == 0) continue;
    nwritten -= n; iov[i].iov_len -= n; iov[i].iov_base += n; }`. -/
theorem writeIov_is_spec : writeIov = Spec.routine .writeIov := by
  simp only [writeIov, Spec.routine, Routine.mk.injEq]
  refine ⟨trivial, rfl, ?_, ?_, ?_, tmo_is_spec, ?_, ?_, ?_, ?_, ?_⟩
  · funext fd p c e; unfold Gen.Fd.iov_guard Spec.guard3; kernel_eq
  · funext d nl; unfold Gen.Fd.iov_skip Spec.skip; kernel_eq
  · funext nl; unfold Gen.Fd.iov_cond Spec.cond; kernel_eq
  · funext nfd e rev; unfold Gen.Fd.iov_afterPoll Spec.afterPollW; kernel_eq
  · funext n e nl ms; unfold Gen.Fd.iov_afterIo Spec.afterIoW; kernel_eq
  · funext n nl; rfl
  · funext i c nw; unfold Gen.Fd.iovadv_cond Spec.advCond; kernel_eq
  · funext nw l; unfold Gen.Fd.iovadv_body Spec.advBody Spec.advTake; kernel_eq

/-- all three at once -/
theorem kernels_are_spec (k : Kind) : routineOf k = Spec.routine k := by
  cases k
  · exact readN_is_spec
  · exact writeN_is_spec
  · exact writeIov_is_spec

/-- errno / poll constants the reviewed kernels are written with are the platform's -/
theorem constants_as_reviewed :
    Gen.Fd.EINTR = 4 ∧ Gen.Fd.EAGAIN = 11 ∧ Gen.Fd.ETIMEDOUT = 110 ∧ Gen.Fd.EBADF = 9 ∧ Gen.Fd.EIO = 5 ∧ Gen.Fd.EINVAL = 22 ∧
    Gen.Fd.POLLIN = 1 ∧ Gen.Fd.POLLOUT = 4 ∧ Gen.Fd.POLLERR = 8 ∧ Gen.Fd.POLLHUP = 16 ∧ Gen.Fd.POLLNVAL = 32 ∧
    Gen.Fd.MUNGE_SOCKET_TIMEOUT_MSECS = 2000 ∧ Gen.Fd.degraded = false := by
  decide

/-! ### the remaining-time computation and the deadline -/

/-- Rounding of `_fd_get_poll_timeout` (for a deadline and a clock reading within ±2·10⁶ s of each other, tv_usec
    normalised): if the deadline `ws·10⁶ + wu` has passed at the reading `w`, the timeout is 0 (poll does not block);
    otherwise the timeout in milliseconds is never shorter than the remaining time (no early time-out, no spinning just
    before the deadline) and exceeds it by at most 1998 µs -- not the 999 µs the comment "round up to the next
    millisecond" suggests, because `(when->tv_usec - now.tv_usec + 999) / 1000` truncates towards zero when the
    microsecond difference is negative. -/
theorem poll_timeout_rounding (wp ws wu w : Int) (hp : wp ≠ 0) (hz : ¬(ws = 0 ∧ wu = 0)) (h : InRange ws wu w) :
    (ws * 1000000 + wu - w ≤ 0 → (tmoGen wp ws wu (w / 1000000) (w % 1000000)).1 = 0) ∧
    (ws * 1000000 + wu - w > 0 →
      ws * 1000000 + wu - w ≤ 1000 * (tmoGen wp ws wu (w / 1000000) (w % 1000000)).1 ∧
      1000 * (tmoGen wp ws wu (w / 1000000) (w % 1000000)).1 ≤ ws * 1000000 + wu - w + 1998) := by
  rw [tmo_is_spec]
  have hb := rawMsecs_bounds h
  unfold Spec.tmo
  simp only [hp, hz, if_false]
  constructor
  · intro h0; have := hb.1 h0; split <;> omega
  · intro h0; have := hb.2 h0; split <;> omega

/-- The rounding bound is attained: deadline 11.000000 s, clock 10.001998 s: 998.002 ms remain, poll is given 1000 ms. -/
theorem poll_timeout_rounding_tight : (tmoGen 1 11 0 10 1998).1 = 1000 := by decide

/-- `_get_timeval (&tv, msecs)` of m_msg.c, for a sane clock and 0 < msecs: the result is normalised and is exactly
    now + msecs (the microsecond carry is right); msecs ≤ 0 leaves `now`. -/
theorem get_timeval_sum (now msecs : Int) (h0 : 0 ≤ now) (h1 : now ≤ 4000000000000000000)
    (hm : msecs ≤ 2147483647) :
    (0 < msecs → 0 ≤ (getTimeval now msecs).2 ∧ (getTimeval now msecs).2 < 1000000 ∧
      (getTimeval now msecs).1 * 1000000 + (getTimeval now msecs).2 = now + 1000 * msecs) ∧
    (msecs ≤ 0 → getTimeval now msecs = (now / 1000000, now % 1000000)) := by
  constructor
  · intro hpos
    have e1 : cmod msecs 1000 = msecs % 1000 := Int.tmod_eq_emod_of_nonneg (by omega)
    have e2 : cdiv msecs 1000 = msecs / 1000 := Int.tdiv_eq_ediv_of_nonneg (by omega)
    have hu : wrapS64 (now % 1000000 + msecs % 1000 * 1000) = now % 1000000 + msecs % 1000 * 1000 := by
      simp only [wrapS64]; omega
    have e3 : cmod (now % 1000000 + msecs % 1000 * 1000) 1000000 = (now % 1000000 + msecs % 1000 * 1000) % 1000000 :=
      Int.tmod_eq_emod_of_nonneg (by omega)
    have e4 : cdiv (now % 1000000 + msecs % 1000 * 1000) 1000000 = (now % 1000000 + msecs % 1000 * 1000) / 1000000 :=
      Int.tdiv_eq_ediv_of_nonneg (by omega)
    simp only [getTimeval, Gen.Fd.get_timeval, KOut.get, KOut.written, List.find?, e1, e2, hu, e3, e4,
      show ¬ ((0 : Int) < 0) by omega, if_false, hpos, if_true]
    by_cases hc : now % 1000000 + msecs % 1000 * 1000 ≥ 1000000
    · simp [hc, wrapS64, wrapS32]; omega
    · simp [hc, wrapS64, wrapS32]; omega
  · intro hle
    have hn : ¬ (msecs > 0) := by omega
    simp [getTimeval, Gen.Fd.get_timeval, KOut.get, KOut.written, hn]

/-! ### bounded wait -/

/-- **bounded_wait.**  For every routine, every parameter set with a real deadline `D = ws·10⁶ + wu` (µs) and every
    environment script: the time spent blocked inside poll() -- the only place the routine can wait, the descriptor
    being non-blocking -- is at most

        slack D start + credit pollQ

    where `slack D start` = the time from the clock at entry to the deadline plus 1998 µs of rounding (0 if the deadline
    has already passed) and `credit pollQ` = Σ over the BACKWARD clock steps in the script of (size of the step +
    1998 µs).  Forward steps and everything else (EINTR at any time, EAGAIN, spurious readiness, data trickling in) add
    nothing: the remaining time is recomputed from a fresh clock reading before every poll.  Hypothesis: the clock
    readings the routine obtains stay within the range in which `_fd_get_poll_timeout`'s `int` arithmetic is exact
    (`sane`; fd.c notes the overflow otherwise). -/
theorem bounded_wait (k : Kind) (cfg : Cfg) (pq : List PollEv) (iq : List IoEv)
    (hw : cfg.whenP ≠ 0) (hz : ¬(cfg.ws = 0 ∧ cfg.wu = 0)) :
    sane cfg.ws cfg.wu (run (routineOf k) cfg pq iq).st.trace →
    (run (routineOf k) cfg pq iq).st.blocked ≤ slack (cfg.ws * 1000000 + cfg.wu) cfg.start + credit pq := by
  rw [kernels_are_spec]
  exact bounded_wait_gen _ cfg pq iq (spec_tmo k) hw hz

/-- With a clock that is not stepped backwards the wait is at most (deadline − clock at entry) + 1998 µs, and nothing
    if the deadline has passed at entry. -/
theorem bounded_wait_steady_clock (k : Kind) (cfg : Cfg) (pq : List PollEv) (iq : List IoEv)
    (hw : cfg.whenP ≠ 0) (hz : ¬(cfg.ws = 0 ∧ cfg.wu = 0)) (hj : ∀ d, PollEv.jump d ∈ pq → 0 ≤ d) :
    sane cfg.ws cfg.wu (run (routineOf k) cfg pq iq).st.trace →
    (run (routineOf k) cfg pq iq).st.blocked ≤
      (if cfg.ws * 1000000 + cfg.wu - cfg.start > 0 then cfg.ws * 1000000 + cfg.wu - cfg.start + 1998 else 0) := by
  intro hs
  have h := bounded_wait k cfg pq iq hw hz hs
  have hc : credit pq = 0 := by
    clear h hs
    induction pq with
    | nil => rfl
    | cons e q ih =>
      have ih' := ih (fun d hd => hj d (List.mem_cons_of_mem _ hd))
      cases e with
      | ready dt rev => simpa [credit] using ih'
      | fail dt e => simpa [credit] using ih'
      | jump d =>
        have := hj d (by simp)
        simp only [credit, ih']; split <;> omega
  rw [hc] at h
  simpa [slack] using h

/-- m_msg_send / m_msg_recv: the deadline is `_get_timeval (now, MUNGE_SOCKET_TIMEOUT_MSECS)`; with a steady clock a
    whole message (header and body share the one deadline) blocks the calling thread for at most 2.001998 s. -/
theorem socket_timeout_bound (k : Kind) (cfg : Cfg) (pq : List PollEv) (iq : List IoEv)
    (h0 : 0 ≤ cfg.start) (h1 : cfg.start ≤ 4000000000000000000) (hw : cfg.whenP ≠ 0)
    (hd : (cfg.ws, cfg.wu) = getTimeval cfg.start Gen.Fd.MUNGE_SOCKET_TIMEOUT_MSECS)
    (hj : ∀ d, PollEv.jump d ∈ pq → 0 ≤ d) :
    sane cfg.ws cfg.wu (run (routineOf k) cfg pq iq).st.trace →
    (run (routineOf k) cfg pq iq).st.blocked ≤ 2001998 := by
  intro hs
  have hg := (get_timeval_sum cfg.start Gen.Fd.MUNGE_SOCKET_TIMEOUT_MSECS h0 h1 (by decide)).1 (by decide)
  have e1 : cfg.ws = (getTimeval cfg.start Gen.Fd.MUNGE_SOCKET_TIMEOUT_MSECS).1 := congrArg Prod.fst hd
  have e2 : cfg.wu = (getTimeval cfg.start Gen.Fd.MUNGE_SOCKET_TIMEOUT_MSECS).2 := congrArg Prod.snd hd
  rw [← e1, ← e2] at hg
  have hm : Gen.Fd.MUNGE_SOCKET_TIMEOUT_MSECS = 2000 := rfl
  rw [hm] at hg
  have hz : ¬(cfg.ws = 0 ∧ cfg.wu = 0) := by omega
  have := bounded_wait_steady_clock k cfg pq iq hw hz hj hs
  split at this <;> omega

/-! ### what is returned -/

/-- **returns_count_or_error.**  For every script (requested total `N` within `ssize_t`): the call returns, and either
    * it returns -1 and errno is a real error -- never EINTR, never EAGAIN (those lead back to poll); or
    * it returns the number of bytes actually transferred, `0 ≤ ret ≤ N` (`N - nleft`, and `progress_preserved` /
      `write_exact` / `iov_exact` say which bytes those are); a routine-signalled time-out is a SHORT count with
      errno = ETIMEDOUT, never -1 and never a complete count: errno = ETIMEDOUT implies ret < N. -/
theorem returns_count_or_error (k : Kind) (cfg : Cfg) (pq : List PollEv) (iq : List IoEv) (hpre : Pre k cfg) :
    (run (routineOf k) cfg pq iq).diverged = false ∧
    (((run (routineOf k) cfg pq iq).ret = -1 ∧ (run (routineOf k) cfg pq iq).errno ≠ Gen.Fd.EINTR ∧
        (run (routineOf k) cfg pq iq).errno ≠ Gen.Fd.EAGAIN) ∨
     ((run (routineOf k) cfg pq iq).ret = total (routineOf k) cfg - (run (routineOf k) cfg pq iq).st.nleft ∧
      0 ≤ (run (routineOf k) cfg pq iq).ret ∧ (run (routineOf k) cfg pq iq).ret ≤ total (routineOf k) cfg ∧
      ((run (routineOf k) cfg pq iq).errno = Gen.Fd.ETIMEDOUT →
        (run (routineOf k) cfg pq iq).ret < total (routineOf k) cfg))) := by
  rw [kernels_are_spec]
  have ht := run_terminates k cfg pq iq
  obtain ⟨hc, -⟩ := ctl_run k cfg pq iq
  obtain ⟨d0, d1, -⟩ := data_run k cfg pq iq hpre
  obtain ⟨p0, p1, -⟩ := hpre
  refine ⟨ht, ?_⟩
  rcases hc ht with h | ⟨h1, h2⟩
  · exact Or.inl h
  · right
    have hr : Spec.ret (total (Spec.routine k) cfg) (run (Spec.routine k) cfg pq iq).st.nleft =
        total (Spec.routine k) cfg - (run (Spec.routine k) cfg pq iq).st.nleft := by
      simp only [Spec.ret, wrapS64, wrapU64]; omega
    rw [hr] at h1
    refine ⟨h1, by omega, by omega, fun he => ?_⟩
    have := h2 he; omega

/-- A time-out detected by the routine (its last call is a poll that returned 0) is reported exactly as m_msg.c expects:
    a non-negative short count and errno = ETIMEDOUT. -/
theorem timeout_is_short_count (k : Kind) (cfg : Cfg) (pq : List PollEv) (iq : List IoEv) (hpre : Pre k cfg)
    (m sl : Int) (hl : (run (routineOf k) cfg pq iq).st.trace.getLast? = some (Call.poll m 0 sl)) :
    (run (routineOf k) cfg pq iq).errno = Gen.Fd.ETIMEDOUT ∧ 0 ≤ (run (routineOf k) cfg pq iq).ret ∧
    (run (routineOf k) cfg pq iq).ret < total (routineOf k) cfg := by
  rw [kernels_are_spec] at hl ⊢
  obtain ⟨-, hc⟩ := ctl_run k cfg pq iq
  obtain ⟨d0, d1, -⟩ := data_run k cfg pq iq hpre
  obtain ⟨p0, p1, -⟩ := hpre
  obtain ⟨h1, h2, h3⟩ := hc m sl hl
  have hr : Spec.ret (total (Spec.routine k) cfg) (run (Spec.routine k) cfg pq iq).st.nleft =
      total (Spec.routine k) cfg - (run (Spec.routine k) cfg pq iq).st.nleft := by
    simp only [Spec.ret, wrapS64, wrapU64]; omega
  rw [hr] at h1
  exact ⟨h2, by omega, by omega⟩

/-- How m_msg_send / m_msg_recv read the result (`n < 0` -> error text, `errno == ETIMEDOUT` -> "Timed-out",
    `n != wanted` -> "incomplete"; chain extracted from m_msg.c as `Gen.Fd.callerClass`, errno being 0 at entry):
    the message is accepted as complete iff every requested byte was transferred; "failed" iff the routine returned -1;
    "timed out" and "incomplete" both mean a short count. -/
theorem caller_classification (k : Kind) (cfg : Cfg) (pq : List PollEv) (iq : List IoEv) (hpre : Pre k cfg) :
    (Gen.Fd.callerClass (run (routineOf k) cfg pq iq).ret (run (routineOf k) cfg pq iq).errno (total (routineOf k) cfg) = 0 ↔
      (run (routineOf k) cfg pq iq).st.nleft = 0 ∧ (run (routineOf k) cfg pq iq).ret = total (routineOf k) cfg) ∧
    (Gen.Fd.callerClass (run (routineOf k) cfg pq iq).ret (run (routineOf k) cfg pq iq).errno (total (routineOf k) cfg) = 1 ↔
      (run (routineOf k) cfg pq iq).ret = -1) ∧
    (Gen.Fd.callerClass (run (routineOf k) cfg pq iq).ret (run (routineOf k) cfg pq iq).errno (total (routineOf k) cfg) ≥ 2 →
      0 ≤ (run (routineOf k) cfg pq iq).ret ∧ (run (routineOf k) cfg pq iq).ret < total (routineOf k) cfg) := by
  obtain ⟨-, h⟩ := returns_count_or_error k cfg pq iq hpre
  have hN := hpre.1
  rw [← kernels_are_spec] at hN
  unfold Gen.Fd.callerClass
  simp only [Gen.Fd.ETIMEDOUT] at h
  rcases h with ⟨h1, -, -⟩ | ⟨h1, h2, h3, h4⟩
  · refine ⟨?_, ?_, ?_⟩ <;> (repeat' split) <;> omega
  · refine ⟨?_, ?_, ?_⟩ <;> (repeat' split) <;> omega

/-! ### no busy spinning -/

/-- **no_busy_spin.**  With a real deadline, for every script: the routine returns; every trip around the loop that is
    followed by another one has consumed an event of the environment (an EINTR, an EAGAIN, some bytes ...), so
    #polls ≤ #events consumed + 1 -- the routine never iterates on its own; every I/O attempt except a possible first
    one (do_skip_first_poll) is preceded by its own poll (#I/O calls ≤ #polls + 1), and every poll by its own clock
    reading (#readings = #polls) with a non-negative (finite) timeout: an EINTR or EAGAIN leads back to a poll whose
    timeout is recomputed, never to an immediate retry. -/
theorem no_busy_spin (k : Kind) (cfg : Cfg) (pq : List PollEv) (iq : List IoEv)
    (hw : cfg.whenP ≠ 0) (hz : ¬(cfg.ws = 0 ∧ cfg.wu = 0)) :
    (run (routineOf k) cfg pq iq).diverged = false ∧
    npolls (run (routineOf k) cfg pq iq).st.trace + remaining (run (routineOf k) cfg pq iq).st ≤ pq.length + iq.length + 1 ∧
    nios (run (routineOf k) cfg pq iq).st.trace ≤ npolls (run (routineOf k) cfg pq iq).st.trace + 1 ∧
    ngets (run (routineOf k) cfg pq iq).st.trace = npolls (run (routineOf k) cfg pq iq).st.trace ∧
    tmoNonneg (run (routineOf k) cfg pq iq).st.trace := by
  rw [kernels_are_spec]
  exact ⟨run_terminates k cfg pq iq, cnt_run k cfg pq iq hw hz⟩

/-- The routines return on every script, with or without a deadline. -/
theorem terminates (k : Kind) (cfg : Cfg) (pq : List PollEv) (iq : List IoEv) :
    (run (routineOf k) cfg pq iq).diverged = false := by
  rw [kernels_are_spec]; exact run_terminates k cfg pq iq

/-! ### the bytes -/

/-- **progress_preserved** (fd_timed_read_n).  For every script, whatever the interleaving of EINTR, EAGAIN, short reads
    and time-outs: with `c = n - nleft` the count at return (the return value whenever it is not -1), the user buffer
    holds exactly the first `c` bytes of the peer's stream, in order, followed by untouched bytes, and the bytes still
    unread in the socket are exactly the rest of the stream -- nothing lost, nothing read twice, nothing misplaced. -/
theorem progress_preserved (cfg : Cfg) (pq : List PollEv) (iq : List IoEv) (h0 : 0 ≤ cfg.n) (h1 : cfg.n < 9223372036854775808) :
    0 ≤ cfg.n - (run readN cfg pq iq).st.nleft ∧ cfg.n - (run readN cfg pq iq).st.nleft ≤ cfg.n ∧
    (run readN cfg pq iq).st.buf =
      cfg.data.take (cfg.n - (run readN cfg pq iq).st.nleft).toNat ++
        List.replicate (cfg.n.toNat - (cfg.n - (run readN cfg pq iq).st.nleft).toNat) 0 ∧
    (run readN cfg pq iq).st.src = cfg.data.drop (cfg.n - (run readN cfg pq iq).st.nleft).toNat := by
  rw [readN_is_spec]
  have hpre : Pre .readN cfg := ⟨by simpa [total, Spec.routine] using h0, by simpa [total, Spec.routine] using h1, by simp⟩
  obtain ⟨d0, d1, d2, d3, d4⟩ := data_run .readN cfg pq iq hpre
  have ht : total (Spec.routine .readN) cfg = cfg.n := rfl
  rw [ht] at d1 d2 d3 d4
  exact ⟨by omega, by omega, d4, d3⟩

/-- **write_exact** (fd_timed_write_n).  For every script the peer has received exactly the first `n - nleft` bytes of
    the user buffer, each once, in order. -/
theorem write_exact (cfg : Cfg) (pq : List PollEv) (iq : List IoEv) (h0 : 0 ≤ cfg.n) (h1 : cfg.n < 9223372036854775808)
    (h2 : cfg.n ≤ cfg.data.length) :
    (run writeN cfg pq iq).st.sink = cfg.data.take (cfg.n - (run writeN cfg pq iq).st.nleft).toNat := by
  rw [writeN_is_spec]
  have hpre : Pre .writeN cfg :=
    ⟨by simpa [total, Spec.routine] using h0, by simpa [total, Spec.routine] using h1, fun _ => by simpa [total, Spec.routine] using h2⟩
  obtain ⟨-, -, -, d4⟩ := data_run .writeN cfg pq iq hpre
  have ht : total (Spec.routine .writeN) cfg = cfg.n := rfl
  rw [ht] at d4
  exact d4

/-- **iov_exact** (fd_timed_write_iov).  For every iovec (any number of elements, empty ones included) and every split
    of the kernel's short writes, interleaved with EINTR / EAGAIN / time-outs: the peer has received exactly the first
    `total - nleft` bytes of the concatenation of the elements -- every byte once, in order; the private iovec copy is
    advanced by exactly what was written. -/
theorem iov_exact (cfg : Cfg) (pq : List PollEv) (iq : List IoEv) (h1 : (cfg.chunks.flatten.length : Int) < 9223372036854775808) :
    (run writeIov cfg pq iq).st.sink =
      cfg.chunks.flatten.take ((cfg.chunks.flatten.length : Int) - (run writeIov cfg pq iq).st.nleft).toNat := by
  rw [writeIov_is_spec]
  have hpre : Pre .writeIov cfg := ⟨by rw [total_iov]; omega, by rw [total_iov]; exact h1, by simp⟩
  obtain ⟨-, -, -, d4⟩ := data_run .writeIov cfg pq iq hpre
  rw [total_iov] at d4
  exact d4

/-- the advance loop on its own: after a short write of `nw` bytes the private iovec copy designates exactly the bytes
    it designated before minus the first `nw` -/
theorem iov_advance_exact (arena : List UInt8) (iov : List (Int × Int)) (nw : Int)
    (hwf : IovWF arena iov) (ht : (iovTotal iov : Int) < 9223372036854775808) (h0 : 0 ≤ nw) (hn : nw ≤ iovTotal iov) :
    flatAll arena (iovAdvance writeIov (iov.length : Nat) 0 iov nw) = (flatAll arena iov).drop nw.toNat := by
  rw [writeIov_is_spec]
  exact (adv_flat arena _ iov 0 nw hwf ht (by omega) h0 hn).1

/-! ### non-vacuity: concrete runs of the generated routines (the hypotheses above are satisfiable, the outcomes are
     the intended ones) -/

def ex_stalled_client : Result :=
  run readN { n := 4, skip := 1, ws := 12, wu := 0, start := 10000000, data := [1, 2, 3, 4, 5] }
            [.ready 1000 1, .ready 9000000 1] [.fail 11, .xfer 2, .xfer 5]

/-- a client that stalls after 2 of 4 bytes is dropped at the deadline: short count 2, errno ETIMEDOUT; blocked 2.001 s
    for a 2 s deadline -- the second poll is given 2000 ms although 1999.000 ms remain (the rounding of
    `poll_timeout_rounding`: the microsecond difference is negative) -/
theorem run_stalled_client :
    ex_stalled_client.ret = 2 ∧ ex_stalled_client.errno = 110 ∧ ex_stalled_client.st.buf = [1, 2, 0, 0] ∧ ex_stalled_client.st.blocked = 2001000 ∧ ex_stalled_client.st.src = [3, 4, 5] := by decide

def ex_eintr_storm : Result :=
  run readN { n := 4, ws := 12, wu := 0, start := 10000000, data := [1, 2, 3, 4] }
            [.fail 1900000 4, .fail 1900000 4, .fail 1900000 4, .fail 1900000 4, .fail 1900000 4] [.xfer 4]

/-- an EINTR storm does not extend the deadline: signals 1.9 s apart, the call still ends 2.001 s after entry
    (after the first signal the timeout is recomputed: 100 ms) -/
theorem run_eintr_storm :
    ex_eintr_storm.ret = 0 ∧ ex_eintr_storm.errno = 110 ∧ ex_eintr_storm.st.blocked = 2001000 ∧ npolls ex_eintr_storm.st.trace = 2 := by decide

def ex_arrives_in_time : Result :=
  run readN { n := 4, ws := 12, wu := 0, start := 10000000, data := [1, 2, 3, 4] }
            [.ready 5 1, .fail 7 4, .ready 0 1, .ready 100 1, .ready 3 1] [.xfer 1, .fail 11, .xfer 2, .xfer 9]

/-- everything arrives in time, in three pieces with an EINTR and a spurious wake-up in between: complete count -/
theorem run_arrives_in_time :
    ex_arrives_in_time.ret = 4 ∧ ex_arrives_in_time.st.buf = [1, 2, 3, 4] ∧ ex_arrives_in_time.st.nleft = 0 ∧ Gen.Fd.callerClass ex_arrives_in_time.ret ex_arrives_in_time.errno 4 = 0 := by decide

def ex_iov_short_writes : Result :=
  run writeIov { chunks := [[1, 2], [3], [4, 5, 6]], skip := 1, ws := 12, wu := 0, start := 10000000 }
            [.ready 1 4, .ready 1 4, .ready 1 4] [.xfer 1, .fail 11, .xfer 3, .xfer 2]

/-- a 3-element iovec written in short writes of 1, 3 and 2 bytes with an EAGAIN in between -/
theorem run_iov_short_writes :
    ex_iov_short_writes.ret = 6 ∧ ex_iov_short_writes.st.sink = [1, 2, 3, 4, 5, 6] := by decide

def ex_backward_clock_step : Result :=
  run writeN { n := 1, ws := 12, wu := 0, start := 10000000, data := [7] }
            [.fail 1500000 4, .jump (-1000000)] []

/-- a backward clock step of 1 s extends the wait by that second (plus rounding) and no more: within the bound of `bounded_wait` -/
theorem run_backward_clock_step :
    ex_backward_clock_step.st.blocked = 3001000 ∧ slack 12000000 10000000 + credit [.fail 1500000 4, .jump (-1000000)] = 3003996 := by decide

/-- a hard error is -1 with the errno of the failing call; EOF is a short count without ETIMEDOUT -/
theorem run_hard_error_and_eof : (run readN { n := 4, ws := 12, wu := 0, start := 10000000, data := [1, 2, 3, 4] } [.ready 0 1] [.fail 104]).ret = -1 ∧
    (run readN { n := 4, ws := 12, wu := 0, start := 10000000, data := [1, 2, 3, 4] } [.ready 0 1] [.fail 104]).errno = 104 ∧
    (run readN { n := 4, ws := 12, wu := 0, start := 10000000, data := [1, 2] } [.ready 0 1, .ready 0 1] [.xfer 2, .xfer 0]).ret = 2 ∧
    (run readN { n := 4, ws := 12, wu := 0, start := 10000000, data := [1, 2] } [.ready 0 1, .ready 0 1] [.xfer 2, .xfer 0]).errno = 0 := by
  decide

end Munge.C08Fd
