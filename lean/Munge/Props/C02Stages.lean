import Munge.Gen.Stages
import Munge.Model.Cred
/-!
# C02 / C09 (decode stages that drive the primitives): `dec_validate_mac` and `dec_decrypt` as translated from dec.c

Every primitive call is an event carrying the lengths (and buffer identities) it is given; its return value, and what it stores
through `&n`, are inputs - so the theorems hold for every behaviour of the primitives.
-/
namespace Munge.C02Stages
open Munge.C Munge.Gen.Stages

/-! ## `dec_validate_mac` -/

/-- **A credential passes the MAC stage exactly when** every MAC primitive call succeeded, the digest has the length the
    credential's MAC field has, the comparison over it reports equality, AND no earlier stage left an error in the message
    (the deferred padding failure of `dec_decrypt`).  Nothing else leads to `return 0`. -/
theorem mac_stage_accepts_iff (mac en ol il ml kl op ip kp mp ri ru rc ru2 nf rf rc2 rm : Int) :
    (dec_validate_mac mac en ol il ml kl op ip kp mp ri ru rc ru2 nf rf rc2 rm).ret = 0 ↔
      0 ≤ ri ∧ 0 ≤ ru ∧ 0 ≤ ru2 ∧ 0 ≤ rf ∧ 0 ≤ rc2 ∧ nf = ml ∧ rm = 0 ∧ en = 0 := by
  unfold dec_validate_mac
  simp only [apply_ite KOut.ret]
  constructor
  · intro h; repeat' (first | split at h | omega)
  · intro h; repeat' (first | split | omega)

/-- **What is authenticated**: on the accepting path the MAC is keyed with the daemon's MAC key, of the credential's MAC type,
    fed the outer layer (all `outer_len` bytes) and then the inner layer (all `inner_len` bytes), finalised, and compared with
    the received MAC over `mac_len` bytes - in that order, each exactly once. -/
theorem mac_covers_outer_then_inner (mac en ol il ml kl op ip kp mp ri ru rc ru2 nf rf rc2 rm : Int)
    (h : (dec_validate_mac mac en ol il ml kl op ip kp mp ri ru rc ru2 nf rf rc2 rm).ret = 0) :
    (dec_validate_mac mac en ol il ml kl op ip kp mp ri ru rc ru2 nf rf rc2 rm).events =
      [("mac_init", [mac, kl]), ("mac_update", [op, ol]), ("mac_update", [ip, il]), ("mac_final", []), ("mac_cleanup", []),
       ("crypto_memcmp", [wrapU64 ml])] := by
  have hh := (mac_stage_accepts_iff mac en ol il ml kl op ip kp mp ri ru rc ru2 nf rf rc2 rm).mp h
  unfold dec_validate_mac
  simp only [apply_ite KOut.events]
  repeat' (first | split | omega)
  rfl

/-- **A wrong MAC is the generic invalid-credential error**: with working primitives, a digest of another length or a
    comparison reporting a difference gives -1 with `EMUNGE_CRED_INVALID` (14), whatever else is in the message. -/
theorem mac_mismatch_is_invalid (mac en ol il ml kl op ip kp mp ri ru rc ru2 nf rf rc2 rm : Int)
    (hp : 0 ≤ ri ∧ 0 ≤ ru ∧ 0 ≤ ru2 ∧ 0 ≤ rf ∧ 0 ≤ rc2) (hm : nf ≠ ml ∨ rm ≠ 0) :
    let o := dec_validate_mac mac en ol il ml kl op ip kp mp ri ru rc ru2 nf rf rc2 rm
    o.ret = -1 ∧ o.err = 14 := by
  dsimp only
  unfold dec_validate_mac
  simp only [apply_ite KOut.ret, apply_ite KOut.err]
  constructor
  · repeat' (first | split | omega)
  · repeat' (first | split | omega | rfl)

/-- **A deferred error refuses a credential whose MAC is right** (the padding failure that `dec_decrypt` recorded): -1, and
    no further error is set here - the reply keeps the earlier (generic) one. -/
theorem deferred_error_refuses (mac en ol il ml kl op ip kp mp ri ru rc ru2 nf rf rc2 : Int)
    (hp : 0 ≤ ri ∧ 0 ≤ ru ∧ 0 ≤ ru2 ∧ 0 ≤ rf ∧ 0 ≤ rc2) (he : en ≠ 0) :
    let o := dec_validate_mac mac en ol il ml kl op ip kp mp ri ru rc ru2 ml rf rc2 0
    o.ret = -1 ∧ o.count "m_msg_set_err" = 0 ∧ o.count "crypto_memcmp" = 1 := by
  dsimp only
  unfold dec_validate_mac
  simp only [apply_ite KOut.ret, apply_ite (fun o => KOut.count o "m_msg_set_err"), apply_ite (fun o => KOut.count o "crypto_memcmp")]
  simp only [KOut.count, List.filter, String.reduceBEq, List.length]
  omega

/-- **The MAC context is released exactly once** on every path on which it was initialised (never when `mac_init` failed). -/
theorem mac_context_released_once (mac en ol il ml kl op ip kp mp ri ru rc ru2 nf rf rc2 rm : Int) :
    (dec_validate_mac mac en ol il ml kl op ip kp mp ri ru rc ru2 nf rf rc2 rm).count "mac_cleanup" = if ri < 0 then 0 else 1 := by
  unfold dec_validate_mac
  simp only [apply_ite (fun o => KOut.count o "mac_cleanup")]
  simp only [KOut.count, List.filter, String.reduceBEq, List.length]
  repeat' (first | split | omega)

/-! ## `dec_decrypt` -/

/-- **An unencrypted credential is not touched** (no key derivation, no buffer). -/
theorem cipher_none_untouched (mac il ml dl dp ip mr nd rb ri nu ru rc nfn rf rc2 : Int) (ms bs : Int → Int) :
    dec_decrypt 0 mac il ml dl dp ip mr nd rb ri nu ru rc nfn rf rc2 ms bs = { ret := 0, writes := [], events := [] } := by
  unfold dec_decrypt; simp

/-- **A padding failure is deferred behind the MAC** (Vaudenay): when only `cipher_final` fails, `dec_decrypt` records
    `EMUNGE_CRED_INVALID` but RETURNS 0 with the plaintext produced so far, so the MAC is still computed - over the same
    kind of data as for a good credential - and the reply is the one a MAC mismatch gets. -/
theorem padding_failure_is_deferred (c mac il ml dl dp ip mr nd rb ri nu ru rc nfn rf rc2 : Int) (ms bs : Int → Int)
    (hc : c ≠ 0) (hms : 0 < ms mac) (hbs : 0 < bs c) (hmr : mr ≠ 0)
    (hok : 0 ≤ rb ∧ 0 ≤ ri ∧ 0 ≤ ru ∧ 0 ≤ rc2) (hf : rf < 0) :
    let o := dec_decrypt c mac il ml dl dp ip mr nd rb ri nu ru rc nfn rf rc2 ms bs
    o.ret = 0 ∧ o.err = 14 ∧ o.count "free" = 0 ∧ o.count "cipher_cleanup" = 1 := by
  dsimp only
  unfold dec_decrypt
  simp only [apply_ite KOut.ret, apply_ite KOut.err, apply_ite (fun o => KOut.count o "free"),
    apply_ite (fun o => KOut.count o "cipher_cleanup")]
  simp only [KOut.count, KOut.err, List.filter, List.find?, String.reduceBEq, List.length]
  refine ⟨?_, ?_, ?_, ?_⟩ <;> repeat' (first | split | omega | rfl)

/-- **Key derivation and buffer sizes**: on success the DEK is `mac_block` over the received MAC (`mac_len` bytes) under the
    daemon's DEK key, the scratch buffer has `inner_len + block size` bytes, the cipher is fed the whole inner layer once, and
    the plaintext length handed on is what `cipher_update` and `cipher_final` reported. -/
theorem decrypt_success_shape (c mac il ml dl dp ip mr nd rb ri nu ru rc nfn rf rc2 : Int) (ms bs : Int → Int)
    (hil : 0 ≤ il ∧ il ≤ 2147480000) (hbs : bs c ≤ 64) (hn : 0 ≤ nu ∧ 0 ≤ nfn ∧ nu + nfn ≤ il + bs c) (hf : 0 ≤ rf)
    (h : (dec_decrypt c mac il ml dl dp ip mr nd rb ri nu ru rc nfn rf rc2 ms bs).ret = 0) (hc : c ≠ 0) :
    let o := dec_decrypt c mac il ml dl dp ip mr nd rb ri nu ru rc nfn rf rc2 ms bs
    o.events = [("mac_block", [dl, ml]), ("malloc", [il + bs c]), ("cipher_init", [c, 0]), ("cipher_update", [il]),
                ("cipher_final", []), ("cipher_cleanup", [])] ∧
    o.get "c.inner_len" (-1) = nu + nfn ∧ o.get "c.inner_mem_len" (-1) = il + bs c ∧
    o.get "c.inner_len" (-1) ≤ o.get "c.inner_mem_len" (-1) := by
  dsimp only
  unfold dec_decrypt at h ⊢
  simp only [apply_ite KOut.ret] at h
  simp only [apply_ite KOut.events, apply_ite (fun o => KOut.get o "c.inner_len" (-1)), apply_ite (fun o => KOut.get o "c.inner_mem_len" (-1))]
  simp only [KOut.get, KOut.written, List.find?, String.reduceBEq, wrapS32, wrapU64] at h ⊢
  repeat' (first | split at h | omega)
  all_goals (simp [*] ; omega)

/-- **Every failure after the allocation wipes and frees the scratch buffer exactly once**, and reports -1. -/
theorem decrypt_failure_frees (c mac il ml dl dp ip mr nd rb ri nu ru rc nfn rf rc2 : Int) (ms bs : Int → Int)
    (hc : c ≠ 0) (hms : 0 < ms mac) (hbs : 0 < bs c) (hmr : mr ≠ 0) (hrb : 0 ≤ rb)
    (h : (dec_decrypt c mac il ml dl dp ip mr nd rb ri nu ru rc nfn rf rc2 ms bs).ret ≠ 0) :
    let o := dec_decrypt c mac il ml dl dp ip mr nd rb ri nu ru rc nfn rf rc2 ms bs
    o.ret = -1 ∧ o.count "free" = 1 ∧ o.count "set:buf" = 1 := by
  dsimp only
  unfold dec_decrypt at h ⊢
  simp only [apply_ite KOut.ret] at h
  simp only [apply_ite KOut.ret, apply_ite (fun o => KOut.count o "free"), apply_ite (fun o => KOut.count o "set:buf")]
  simp only [KOut.count, List.filter, String.reduceBEq, List.length] at h ⊢
  omega

/-! ## `enc_compress` (C01 / C10): the zip byte of the outer header says NONE exactly when the inner layer is left uncompressed -/

/-- the outer header's zip byte is overwritten (through `outer_zip_ref`) with NONE -/
def patchesHeader (o : KOut) : Prop := ("wr", [0, 1, 0, 0]) ∈ o.events
instance (o : KOut) : Decidable (patchesHeader o) := by unfold patchesHeader; infer_instance

/-- **Compression that does not shrink the inner layer falls back to "not compressed" consistently**: the request's zip type
    becomes NONE, the zip byte already packed into the outer header is overwritten with NONE through `outer_zip_ref`, the
    compressed scratch buffer is wiped and freed, and the inner layer is left as it was. -/
theorem fallback_patches_header (z il iml ip imp mr rl nz rb : Int) (zr : Int → Int)
    (hz : z ≠ 0) (hok : 0 ≤ rl ∧ mr ≠ 0 ∧ 0 ≤ rb) (hbig : nz ≥ il) :
    let o := enc_compress z il iml ip imp mr rl nz rb zr
    o.ret = 0 ∧ o.get "c.msg.zip" z = 0 ∧ patchesHeader o ∧ o.written "c.inner" = none ∧ o.written "c.inner_len" = none ∧
    o.count "free:buf" = 1 ∧ o.count "free:c.inner_mem" = 0 := by
  obtain ⟨h1, h2, h3⟩ := hok
  have h1' : ¬ rl < 0 := by omega
  have h3' : ¬ rb < 0 := by omega
  dsimp only
  unfold enc_compress patchesHeader
  simp [hz, h1', h2, h3', hbig, KOut.get, KOut.written, KOut.count]

/-- **Compression that shrinks it replaces the inner layer**: the inner layer becomes the compressed block of the reported
    length, the old one is wiped and freed, the zip type and the outer header stay as packed. -/
theorem compressed_replaces_inner (z il iml ip imp mr rl nz rb : Int) (zr : Int → Int)
    (hz : z ≠ 0) (hok : 0 ≤ rl ∧ mr ≠ 0 ∧ 0 ≤ rb) (hsmall : nz < il) :
    let o := enc_compress z il iml ip imp mr rl nz rb zr
    o.ret = 0 ∧ o.written "c.msg.zip" = none ∧ ¬ patchesHeader o ∧ o.get "c.inner" 0 = mr ∧ o.get "c.inner_len" (-1) = nz ∧
    o.count "free:c.inner_mem" = 1 ∧ o.count "free:buf" = 0 := by
  obtain ⟨h1, h2, h3⟩ := hok
  have h1' : ¬ rl < 0 := by omega
  have h3' : ¬ rb < 0 := by omega
  have h4 : ¬ nz ≥ il := by omega
  dsimp only
  unfold enc_compress patchesHeader
  simp [hz, h1', h2, h3', h4, KOut.get, KOut.written, KOut.count]

/-- **A failing compression fails the encode** (it never silently emits an inconsistent credential): -1, an error is set, the
    zip type, the outer header and the inner layer are untouched, and the scratch buffer - if it was allocated - is freed once. -/
theorem compression_failure_is_an_error (z il iml ip imp mr rl nz rb : Int) (zr : Int → Int)
    (hz : z ≠ 0) (hfail : rl < 0 ∨ mr = 0 ∨ rb < 0) :
    let o := enc_compress z il iml ip imp mr rl nz rb zr
    o.ret = -1 ∧ 0 < o.count "m_msg_set_err" ∧ o.writes = [] ∧ ¬ patchesHeader o ∧
    o.count "free:buf" = (if 0 < rl ∧ mr ≠ 0 then 1 else 0) := by
  dsimp only
  unfold enc_compress patchesHeader
  simp only [apply_ite KOut.ret, apply_ite KOut.writes, apply_ite KOut.events, apply_ite (fun o => KOut.count o "m_msg_set_err"),
    apply_ite (fun o => KOut.count o "free:buf")]
  simp only [KOut.count, List.filter, String.reduceBEq, List.length]
  refine ⟨?_, ?_, ?_, ?_, ?_⟩
  · repeat' (first | split | omega)
  · repeat' (first | split | omega)
  · repeat' (first | split | rfl | omega)
  · repeat' (first | split | omega | (simp; done))
  · repeat' (first | split | omega)

/-- **Success says which of the two it was**: after a successful `enc_compress` of a compressed request, the header was
    patched exactly when the inner layer was NOT replaced. -/
theorem header_says_what_the_inner_is (z il iml ip imp mr rl nz rb : Int) (zr : Int → Int) (hz : z ≠ 0)
    (h : (enc_compress z il iml ip imp mr rl nz rb zr).ret = 0) :
    patchesHeader (enc_compress z il iml ip imp mr rl nz rb zr) ↔ (enc_compress z il iml ip imp mr rl nz rb zr).written "c.inner" = none := by
  by_cases hf : rl < 0 ∨ mr = 0 ∨ rb < 0
  · have := (compression_failure_is_an_error z il iml ip imp mr rl nz rb zr hz hf).1
    omega
  · have hok : 0 ≤ rl ∧ mr ≠ 0 ∧ 0 ≤ rb := by omega
    by_cases hb : nz ≥ il
    · have t := fallback_patches_header z il iml ip imp mr rl nz rb zr hz hok hb
      exact ⟨fun _ => t.2.2.2.1, fun _ => t.2.2.1⟩
    · have t := compressed_replaces_inner z il iml ip imp mr rl nz rb zr hz hok (by omega)
      constructor
      · intro hp; exact absurd hp t.2.2.1
      · intro hw
        have : (enc_compress z il iml ip imp mr rl nz rb zr).get "c.inner" 0 = 0 := by simp [KOut.get, hw]
        omega

/-! ## `enc_mac`: the encoder authenticates the same bytes, in the same order -/

/-- the MAC-feeding calls of an event list (initialisation and updates, with their arguments) -/
def macFeed (evs : List (String × List Int)) : List (String × List Int) :=
  evs.filter fun e => e.1 == "mac_init" || e.1 == "mac_update"

/-- **The encoder MACs the outer layer, then the inner layer, each whole, under the daemon's MAC key**, and its digest length is
    what `mac_size` reports for the requested type. -/
theorem enc_mac_covers_outer_then_inner (mac ol il kl op ip kp ri ru rc ru2 nf rf rc2 : Int) (ms : Int → Int)
    (h : (enc_mac mac ol il kl op ip kp ri ru rc ru2 nf rf rc2 ms).ret = 0) :
    macFeed (enc_mac mac ol il kl op ip kp ri ru rc ru2 nf rf rc2 ms).events =
      [("mac_init", [mac, kl]), ("mac_update", [op, ol]), ("mac_update", [ip, il])] ∧
    (enc_mac mac ol il kl op ip kp ri ru rc ru2 nf rf rc2 ms).get "c.mac_len" (-1) = ms mac ∧ 0 < ms mac ∧
    (enc_mac mac ol il kl op ip kp ri ru rc ru2 nf rf rc2 ms).count "mac_final" = 1 ∧
    (enc_mac mac ol il kl op ip kp ri ru rc ru2 nf rf rc2 ms).count "mac_cleanup" = 1 := by
  unfold enc_mac at h ⊢
  simp only [apply_ite KOut.ret] at h
  simp only [apply_ite KOut.events, apply_ite (macFeed), apply_ite (fun o => KOut.get o "c.mac_len" (-1)),
    apply_ite (fun o => KOut.count o "mac_final"), apply_ite (fun o => KOut.count o "mac_cleanup")]
  repeat' (first | split at h | omega)
  all_goals (simp [*, macFeed, KOut.get, KOut.written, KOut.count] ; try omega)

/-- **Encoder and decoder feed their MACs identically**: for the same layers and key, the initialisation and update calls of a
    successful `enc_mac` and of an accepting `dec_validate_mac` are the same list. -/
theorem encoder_and_decoder_mac_the_same_bytes (mac ol il kl op ip kp : Int)
    (ri ru rc ru2 nf rf rc2 : Int) (ms : Int → Int) (en ml mp ri' ru' rc' ru2' nf' rf' rc2' rm' : Int)
    (he : (enc_mac mac ol il kl op ip kp ri ru rc ru2 nf rf rc2 ms).ret = 0)
    (hd : (dec_validate_mac mac en ol il ml kl op ip kp mp ri' ru' rc' ru2' nf' rf' rc2' rm').ret = 0) :
    macFeed (enc_mac mac ol il kl op ip kp ri ru rc ru2 nf rf rc2 ms).events =
    macFeed (dec_validate_mac mac en ol il ml kl op ip kp mp ri' ru' rc' ru2' nf' rf' rc2' rm').events := by
  rw [(enc_mac_covers_outer_then_inner mac ol il kl op ip kp ri ru rc ru2 nf rf rc2 ms he).1,
    mac_covers_outer_then_inner mac en ol il ml kl op ip kp mp ri' ru' rc' ru2' nf' rf' rc2' rm' hd]
  rfl

/-! ## `enc_encrypt`: the mirror image of `dec_decrypt` -/

/-- **Encryption derives its key the way decryption does and replaces the plaintext**: on success the DEK is `mac_block` over
    the credential's MAC (`mac_len` bytes) under the daemon's DEK key - the same call with the same arguments as in
    `dec_decrypt` -, the cipher is initialised for ENCRYPTION and fed the whole inner layer once, the scratch buffer has
    `inner_len + block size` bytes, and the plaintext inner buffer is wiped and freed exactly once. -/
theorem encrypt_success_shape (c mac il iml ml dl dp ip imp mr nd rb ri nu ru rc nfn rf rc2 : Int) (ms bs : Int → Int)
    (hil : 0 ≤ il ∧ il ≤ 2147480000) (hbs : bs c ≤ 64) (hn : 0 ≤ nu ∧ 0 ≤ nfn ∧ nu + nfn ≤ il + bs c)
    (h : (enc_encrypt c mac il iml ml dl dp ip imp mr nd rb ri nu ru rc nfn rf rc2 ms bs).ret = 0) (hc : c ≠ 0) :
    let o := enc_encrypt c mac il iml ml dl dp ip imp mr nd rb ri nu ru rc nfn rf rc2 ms bs
    o.events = [("mac_block", [dl, ml]), ("malloc", [il + bs c]), ("cipher_init", [c, 1]), ("cipher_update", [il]),
                ("cipher_final", []), ("cipher_cleanup", []), ("set:c.inner_mem", [0, wrapU64 iml]), ("free:c.inner_mem", [])] ∧
    o.get "c.inner_len" (-1) = nu + nfn ∧ o.get "c.inner_len" (-1) ≤ o.get "c.inner_mem_len" (-1) := by
  dsimp only
  unfold enc_encrypt at h ⊢
  simp only [apply_ite KOut.ret] at h
  simp only [apply_ite KOut.events, apply_ite (fun o => KOut.get o "c.inner_len" (-1)), apply_ite (fun o => KOut.get o "c.inner_mem_len" (-1))]
  simp only [KOut.get, KOut.written, List.find?, String.reduceBEq, wrapS32] at h ⊢
  repeat' (first | split at h | omega)
  all_goals (simp [*, wrapU64] ; omega)

/-- **Unlike decryption, a failing `cipher_final` fails the encode**, and every failure after the allocation wipes and frees
    the scratch buffer once while the plaintext inner layer stays in place (no half-encrypted credential is emitted). -/
theorem encrypt_failure_is_an_error (c mac il iml ml dl dp ip imp mr nd rb ri nu ru rc nfn rf rc2 : Int) (ms bs : Int → Int)
    (hc : c ≠ 0) (hms : 0 < ms mac) (hbs : 0 < bs c) (hmr : mr ≠ 0) (hrb : 0 ≤ rb)
    (hf : ri < 0 ∨ ru < 0 ∨ rf < 0 ∨ rc2 < 0) :
    let o := enc_encrypt c mac il iml ml dl dp ip imp mr nd rb ri nu ru rc nfn rf rc2 ms bs
    o.ret = -1 ∧ o.count "free:buf" = 1 ∧ o.count "free:c.inner_mem" = 0 ∧ o.written "c.inner" = none := by
  dsimp only
  unfold enc_encrypt
  simp only [apply_ite KOut.ret, apply_ite (fun o => KOut.count o "free:buf"), apply_ite (fun o => KOut.count o "free:c.inner_mem"),
    apply_ite (fun o => KOut.written o "c.inner")]
  simp only [KOut.count, KOut.written, List.filter, List.find?, String.reduceBEq, List.length]
  refine ⟨?_, ?_, ?_, ?_⟩ <;> repeat' (first | split | omega | rfl)

/-! ## `enc_init`, `enc_timestamp` (C05, C06): fresh salt and IV of the right lengths, the daemon's clock -/

/-- **Every credential gets `MUNGE_CRED_SALT_LEN` = 8 fresh salt bytes - drawn AFTER the length is set - and, when encrypted, an
    IV of exactly the cipher's IV length** (identical requests in one second therefore differ: C05's "distinct credentials");
    an unencrypted credential has no IV. -/
theorem salt_and_iv_are_drawn (c sp ip sl0 il0 r1 r2 : Int) (ivs : Int → Int) (h : (enc_init c sp ip sl0 il0 r1 r2 ivs).ret = 0) :
    (enc_init c sp ip sl0 il0 r1 r2 ivs).get "c.salt_len" (-1) = 8 ∧
    (enc_init c sp ip sl0 il0 r1 r2 ivs).events.head? = some ("random_pseudo_bytes", [sp, 8]) ∧
    (enc_init c sp ip sl0 il0 r1 r2 ivs).get "c.iv_len" (-1) = (if c = 0 then 0 else ivs c) ∧
    ((enc_init c sp ip sl0 il0 r1 r2 ivs).count "random_pseudo_bytes" = if c ≠ 0 ∧ 0 < ivs c then 2 else 1) ∧
    (c ≠ 0 → 0 < ivs c → (enc_init c sp ip sl0 il0 r1 r2 ivs).events.getLast? = some ("random_pseudo_bytes", [ip, ivs c])) := by
  unfold enc_init at h ⊢
  by_cases h0 : c = 0
  · simp [h0, KOut.get, KOut.written, KOut.count]
  · by_cases h1 : ivs c < 0
    · simp [h0, h1] at h
    · by_cases h2 : ivs c > 0 <;> simp [h0, h1, h2, KOut.get, KOut.written, KOut.count] <;> omega

/-- **The encode time is the daemon's clock** (truncated to the 32-bit field), the decode time is cleared; a failing clock
    fails the encode. -/
theorem encode_time_is_the_clock (now rt : Int) :
    (rt ≠ -1 → (enc_timestamp now rt).ret = 0 ∧ (enc_timestamp now rt).get "c.msg.time0" (-1) = now % 4294967296 ∧
               (enc_timestamp now rt).get "c.msg.time1" (-1) = 0) ∧
    (rt = -1 → (enc_timestamp now rt).ret = -1 ∧ (enc_timestamp now rt).writes = []) := by
  unfold enc_timestamp
  constructor
  · intro h; simp [h, KOut.get, KOut.written, wrapU32]
  · intro h; simp [h]

/-! ## `enc_authenticate`, `dec_authenticate`, `dec_timestamp` (C03, C06): identity from the kernel query, time from the clock -/

/-- **The client identity of an encode is exactly what `auth_recv` (the kernel's peer-credential query) stored** - no other
    value is written to `client_uid` / `client_gid` by this stage - and a failing query fails the request. -/
theorem enc_identity_is_the_kernels (ku kg r : Int) :
    (enc_authenticate ku kg r).count "auth_recv" = 1 ∧
    (r = 0 → (enc_authenticate ku kg r).ret = 0 ∧ (enc_authenticate ku kg r).writes = [("c.msg.client_uid", ku), ("c.msg.client_gid", kg)]) ∧
    (r ≠ 0 → (enc_authenticate ku kg r).ret = -1 ∧ (enc_authenticate ku kg r).err = 1) := by
  unfold enc_authenticate
  by_cases h : r = 0 <;> simp [h, KOut.count, KOut.err]

/-- the same for a decode -/
theorem dec_identity_is_the_kernels (ku kg r : Int) :
    (dec_authenticate ku kg r).count "auth_recv" = 1 ∧
    (r = 0 → (dec_authenticate ku kg r).ret = 0 ∧ (dec_authenticate ku kg r).writes = [("c.msg.client_uid", ku), ("c.msg.client_gid", kg)]) ∧
    (r ≠ 0 → (dec_authenticate ku kg r).ret = -1 ∧ (dec_authenticate ku kg r).err = 1) := by
  unfold dec_authenticate
  by_cases h : r = 0 <;> simp [h, KOut.count, KOut.err]

/-- **The decode time is the daemon's clock** (32-bit field), the encode-time field is cleared until the credential supplies it. -/
theorem decode_time_is_the_clock (now rt : Int) :
    (rt ≠ -1 → (dec_timestamp now rt).ret = 0 ∧ (dec_timestamp now rt).get "c.msg.time1" (-1) = now % 4294967296 ∧
               (dec_timestamp now rt).get "c.msg.time0" (-1) = 0) ∧
    (rt = -1 → (dec_timestamp now rt).ret = -1 ∧ (dec_timestamp now rt).writes = []) := by
  unfold dec_timestamp
  constructor
  · intro h; simp [h, KOut.get, KOut.written, wrapU32]
  · intro h; simp [h]

/-- **Encoder and decoder derive the data-encryption key by the same call**: `mac_block` under the daemon's DEK key over the
    credential's MAC, `mac_len` bytes - the first primitive call of a successful `enc_encrypt` and of a successful
    `dec_decrypt` carry the same arguments. -/
theorem encoder_and_decoder_derive_the_same_dek
    (c mac il iml ml dl dp ip imp mr nd rb ri nu ru rc nfn rf rc2 : Int) (ms bs : Int → Int)
    (mr' nd' rb' ri' nu' ru' rc' nfn' rf' rc2' il' ip' : Int)
    (hil : 0 ≤ il ∧ il ≤ 2147480000) (hbs : bs c ≤ 64) (hn : 0 ≤ nu ∧ 0 ≤ nfn ∧ nu + nfn ≤ il + bs c)
    (hil' : 0 ≤ il' ∧ il' ≤ 2147480000) (hn' : 0 ≤ nu' ∧ 0 ≤ nfn' ∧ nu' + nfn' ≤ il' + bs c) (hf' : 0 ≤ rf') (hc : c ≠ 0)
    (he : (enc_encrypt c mac il iml ml dl dp ip imp mr nd rb ri nu ru rc nfn rf rc2 ms bs).ret = 0)
    (hd : (dec_decrypt c mac il' ml dl dp ip' mr' nd' rb' ri' nu' ru' rc' nfn' rf' rc2' ms bs).ret = 0) :
    (enc_encrypt c mac il iml ml dl dp ip imp mr nd rb ri nu ru rc nfn rf rc2 ms bs).events.head? =
    (dec_decrypt c mac il' ml dl dp ip' mr' nd' rb' ri' nu' ru' rc' nfn' rf' rc2' ms bs).events.head? := by
  rw [(encrypt_success_shape c mac il iml ml dl dp ip imp mr nd rb ri nu ru rc nfn rf rc2 ms bs hil hbs hn he hc).1,
    (decrypt_success_shape c mac il' ml dl dp ip' mr' nd' rb' ri' nu' ru' rc' nfn' rf' rc2' ms bs hil' hbs hn' hf' hd hc).1]
  rfl

/-! ## `enc_armor` (C10 / C19): PREFIX ‖ base64 (OUTER ‖ MAC ‖ INNER) ‖ SUFFIX, inside its buffer -/

/-- **The armor is the prefix, then the base64 stream fed the outer layer, the MAC and the inner layer - in that order, each whole,
    each output placed right after the previous one - then the final quantum and the suffix**; the credential length reported
    counts the terminating NUL; both binary layers are wiped and freed. -/
theorem armor_layout (ol ml il oml iml op mp ip omp imp mr r0 n1 r1 rc n2 r2 n3 r3 nf rf rc2 : Int) (bl : Int → Int)
    (hsz : 0 ≤ ol ∧ 0 ≤ ml ∧ 0 ≤ il ∧ ol + ml + il ≤ 1500000) (hbl : 0 ≤ bl (ol + ml + il) ∧ bl (ol + ml + il) ≤ 2147480000)
    (hn : 0 ≤ n1 ∧ 0 ≤ n2 ∧ 0 ≤ n3 ∧ 0 ≤ nf ∧ n1 + n2 + n3 + nf + 1 ≤ bl (ol + ml + il))
    (h : (enc_armor ol ml il oml iml op mp ip omp imp mr r0 n1 r1 rc n2 r2 n3 r3 nf rf rc2 bl).ret = 0) :
    let o := enc_armor ol ml il oml iml op mp ip omp imp mr r0 n1 r1 rc n2 r2 n3 r3 nf rf rc2 bl
    o.events = [("malloc", [6 + bl (ol + ml + il) + 1]), ("wr", [0, 7, 2, 0]), ("base64_init", []),
                ("base64_encode_update", [6, op, ol]), ("base64_encode_update", [6 + n1, mp, ml]),
                ("base64_encode_update", [6 + n1 + n2, ip, il]), ("base64_encode_final", [6 + n1 + n2 + n3]), ("base64_cleanup", []),
                ("wr", [6 + n1 + n2 + n3 + nf, 2, 2, 1]),
                ("set:c.outer_mem", [0, wrapU64 oml]), ("free:c.outer_mem", []), ("set:c.inner_mem", [0, wrapU64 iml]), ("free:c.inner_mem", [])] ∧
    o.get "c.outer_len" (-1) = 6 + n1 + n2 + n3 + nf + 1 + 1 ∧
    -- the last store (suffix and its NUL) ends inside the allocation
    6 + n1 + n2 + n3 + nf + 2 ≤ 6 + bl (ol + ml + il) + 1 := by
  have e : wrapS32 ((wrapS32 (ol + ml)) + il) = ol + ml + il := by unfold wrapS32; omega
  dsimp only
  unfold enc_armor at h ⊢
  simp only [e] at h ⊢
  simp only [apply_ite KOut.ret] at h
  simp only [apply_ite KOut.events, apply_ite (fun o => KOut.get o "c.outer_len" (-1))]
  simp only [KOut.get, KOut.written, List.find?, String.reduceBEq, wrapS32] at h ⊢
  repeat' (first | split at h | omega)
  all_goals (simp [*, wrapU64] ; omega)

example : enc_armor_srcNames = ["literal:MUNGE:", "literal::"] := by decide

/-- **A failing base64 step fails the encode and frees the armor buffer once**; the binary layers are left alone. -/
theorem armor_failure_is_an_error (ol ml il oml iml op mp ip omp imp mr r0 n1 r1 rc n2 r2 n3 r3 nf rf rc2 : Int) (bl : Int → Int)
    (hmr : mr ≠ 0) (hf : r0 < 0 ∨ r1 < 0 ∨ r2 < 0 ∨ r3 < 0 ∨ rf < 0 ∨ rc2 < 0) :
    let o := enc_armor ol ml il oml iml op mp ip omp imp mr r0 n1 r1 rc n2 r2 n3 r3 nf rf rc2 bl
    o.ret = -1 ∧ o.count "free:buf" = 1 ∧ o.count "free:c.outer_mem" = 0 ∧ o.count "free:c.inner_mem" = 0 := by
  dsimp only
  unfold enc_armor
  simp only [apply_ite KOut.ret, apply_ite (fun o => KOut.count o "free:buf"), apply_ite (fun o => KOut.count o "free:c.outer_mem"),
    apply_ite (fun o => KOut.count o "free:c.inner_mem")]
  simp only [KOut.count, List.filter, String.reduceBEq, List.length]
  refine ⟨?_, ?_, ?_, ?_⟩ <;> repeat' (first | split | omega)

/-! ## `dec_decompress` -/

/-- **A compressed inner layer that does not decompress is the generic invalid-credential error, and its scratch buffer is
    freed** (the repair of F4: the buffer used to leak on this path): -1, `EMUNGE_CRED_INVALID`, exactly one `free` of the
    buffer, the inner layer untouched. -/
theorem decompress_failure_frees_buffer (z il iml ip imp mr rl nz rb : Int)
    (hz : z ≠ 0) (hl : 0 < rl) (hm : mr ≠ 0) (hb : rb < 0) :
    let o := dec_decompress z il iml ip imp mr rl nz rb
    o.ret = -1 ∧ o.err = 14 ∧ o.count "free:buf" = 1 ∧ o.writes = [] := by
  have hl' : ¬ rl ≤ 0 := by omega
  dsimp only
  unfold dec_decompress
  simp [hz, hl', hm, hb, KOut.err, KOut.count]

/-- **Successful decompression replaces the inner layer** by the buffer of the length the header announced, with the length
    the back end reported; the previous inner buffer (the plaintext, for an encrypted credential) is wiped and freed exactly
    when there was one. -/
theorem decompress_success_shape (z il iml ip imp mr rl nz rb : Int)
    (hz : z ≠ 0) (hl : 0 < rl) (hm : mr ≠ 0) (hb : 0 ≤ rb) :
    let o := dec_decompress z il iml ip imp mr rl nz rb
    o.ret = 0 ∧ o.get "c.inner" 0 = mr ∧ o.get "c.inner_len" (-1) = nz ∧ o.get "c.inner_mem_len" (-1) = rl ∧
    o.count "free:c.inner_mem" = (if imp ≠ 0 then 1 else 0) ∧ o.count "free:buf" = 0 := by
  have hl' : ¬ rl ≤ 0 := by omega
  have hb' : ¬ rb < 0 := by omega
  dsimp only
  unfold dec_decompress
  by_cases hi : imp = 0 <;> simp [hz, hl', hm, hb', hi, KOut.get, KOut.written, KOut.count]

/-- **Anything the length header does not vouch for is refused before a buffer exists**: a non-positive announced length
    gives -1 without allocation. -/
theorem decompress_bad_length_refused (z il iml ip imp mr rl nz rb : Int) (hz : z ≠ 0) (hl : rl ≤ 0) :
    let o := dec_decompress z il iml ip imp mr rl nz rb
    o.ret = -1 ∧ o.count "malloc" = 0 ∧ o.writes = [] := by
  dsimp only
  unfold dec_decompress
  simp [hz, hl, KOut.count]

/-! ## the model's MAC stage is the code's -/

open Munge.Cred in
/-- **`Cred.decValidateMac` accepts exactly when the translated `dec_validate_mac` does**, the primitives being total in the
    model (every call succeeds), `n` after `mac_final` being the length of the recomputed MAC and `crypto_memcmp` reporting 0
    exactly for equal byte strings: the model recomputes over `outer ++ inner` - the two `mac_update` calls of
    `mac_covers_outer_then_inner` - and compares with the received MAC over `mac_len` bytes. -/
theorem model_mac_stage_is_the_code (P : Prims) (cf : Conf) (m : Msg) (s : Scratch) (kl op ip kp mp : Int) :
    (∃ m', decValidateMac P cf m s = .ok m') ↔
      (dec_validate_mac m.mac m.errorNum s.outer.length s.inner.length s.macLen kl op ip kp mp 0 0 0 0
        (P.mac m.mac cf.macKey (s.outer ++ s.inner)).length 0 0
        (if P.mac m.mac cf.macKey (s.outer ++ s.inner) = s.mac then 0 else 1)).ret = 0 := by
  rw [mac_stage_accepts_iff]
  unfold decValidateMac
  generalize P.mac m.mac cf.macKey (s.outer ++ s.inner) = macv
  by_cases h3 : m.errorNum = 0
  · by_cases h2 : macv = s.mac
    · subst h2
      by_cases h1 : s.mac.length = s.macLen
      · simp [h1, h3]
      · simp [h1, h3]; omega
    · simp [h2, h3]
  · by_cases h2 : macv = s.mac
    · subst h2
      by_cases h1 : s.mac.length = s.macLen <;> simp [h1, h3]
    · simp [h2, h3]

end Munge.C02Stages
