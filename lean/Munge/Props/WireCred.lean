import Munge.Model.Wire
import Munge.Gen.Wire
import Munge.Model.Cred
import Munge.Lemmas.Wire
import Munge.Lemmas.CredA
import Munge.Lemmas.WireCred
/-
WireCred — the credential model's wire handling is an instance of the generated-descriptor interpreters.

`Munge.Model.Cred` parses requests (`recvMsg`) and packs replies (`hdrBytes`, `errWire`, `encRsp`, `decRsp`) by
hand; `Munge.Model.Wire` interprets the field-descriptor lists that tools/gen/g_wire.py regenerates from
`src/libcommon/m_msg.c` on every run (`Munge.Gen.Wire`: `unpackTable`, `packTable`, `lengthTable`, the header
constants, the `m_msg_recv` chain and its gate).  Each model is diffed against the C; the theorems below tie
the two models to each other, so a change of the C's field lists that the generator picks up but the
hand-written parser does not (or vice versa) breaks this file.

Vocabulary (definitions in `Munge/Lemmas/WireCred.lean`):
* `reqOf : Wire.Msg → Cred.Msg` — the credential model's view of a received `struct m_msg`;
  `wireOf : Cred.Msg → Wire.Msg` — the `struct m_msg` a credential-model message stands for
  (`error_len = (strlen + 1) mod 256` or 0, `error_str` = text ‖ NUL or NULL, exactly as `m_msg_set_err`).
* `wireHdr mok req`        = `_msg_unpack (m, MUNGE_MSG_HDR, hdr, 11)` on a fresh message (first 11 bytes);
  `wireBody mok req`       = the `pkt_len` bytes after the header;
  `HdrPass mok req`        = complete header ∧ header unpack succeeds ∧ length gate passed ∧ complete body;
  `wireBodyUnpack mok req` = `_msg_unpack (m, m->type, m->pkt, m->pkt_len)` as `m_msg_recv` calls it.
* `mok : Nat → Bool` is "does `malloc (n)` succeed"; the credential model has no allocation failure, so the
  theorems that reach an `_alloc` assume `∀ n, mok n = true`.
* lengths travel as C `int`: `cInt`; a `data_len ≥ 2^31` leaves the Wire chain through `nomem` (return code 5),
  a `realm_len`/`data_len` beyond the packet through `err` (return code 1); the credential model drops the
  connection in both cases ("unpack").  Bytes after the last field are ignored by both.
-/
namespace Munge.WireCred
open Munge.Wire Munge.Gen.Wire Munge.C

/-! ### (a) the header -/

/-- `Cred.recvMsg`'s verdict on the 11-byte header agrees with `m_msg_recv`'s header steps on the generated
    data: a short read drops; `_msg_unpack` of the generated header list (with its post-switch magic / version
    checks) succeeds exactly when the model accepts magic and version, and then holds the model's type, retry
    and length; the generated length gate against `MUNGE_MAXIMUM_REQ_LEN` is the model's "length" test; a
    short body is the model's "incomplete body"; a type other than ENC_REQ / DEC_REQ / HDR is dropped. -/
theorem recvMsg_header_is_wire (mok : Nat → Bool) (req : Bytes) :
    ((req.take recvHdrLen).length ≠ recvHdrLen → Cred.recvMsg req = .drop "incomplete header") ∧
    ((req.take recvHdrLen).length = recvHdrLen →
      ((wireHdr mok req).1 = EMUNGE_SUCCESS ↔
        Cred.rd32 (req.take 4) = MAGIC ∧ (req.getD 4 0).toNat = VERSION) ∧
      ((wireHdr mok req).1 ≠ EMUNGE_SUCCESS →
        Cred.recvMsg req = .drop (if Cred.rd32 (req.take 4) ≠ MAGIC then "magic" else "version")) ∧
      ((wireHdr mok req).1 = EMUNGE_SUCCESS →
        (wireHdr mok req).2.m.int "type" = (req.getD 5 0).toNat ∧
        (wireHdr mok req).2.m.int "retry" = (req.getD 6 0).toNat ∧
        (wireHdr mok req).2.m.int "pkt_len" = Cred.rd32 ((req.drop 7).take 4) ∧
        (recvGate (MAXIMUM_REQ_LEN : Nat) ((wireHdr mok req).2.m.int "pkt_len" : Nat) →
          Cred.recvMsg req = .drop "length") ∧
        (¬ recvGate (MAXIMUM_REQ_LEN : Nat) ((wireHdr mok req).2.m.int "pkt_len" : Nat) →
          (wireBody mok req).length ≠ (wireHdr mok req).2.m.int "pkt_len" →
          Cred.recvMsg req = .drop "incomplete body") ∧
        (HdrPass mok req → (wireHdr mok req).2.m.int "type" ≠ MUNGE_MSG_ENC_REQ →
          (wireHdr mok req).2.m.int "type" ≠ MUNGE_MSG_DEC_REQ → (wireHdr mok req).2.m.int "type" ≠ MUNGE_MSG_HDR →
          Cred.recvMsg req = .drop "type"))) := by
  refine ⟨fun hs => ?_, fun h11' => ?_⟩
  · have : ¬ 11 ≤ req.length := fun h => hs ((take_hdr_len req).mpr h)
    rw [recvMsg_eq, if_pos (by omega)]
  have h11 := (take_hdr_len req).mp h11'
  have hiff := wireHdr_ok_iff mok req h11
  refine ⟨hiff, fun hbad => ?_, fun hok => ?_⟩
  · have hb : ¬ (hMagic req = MAGIC ∧ hVer req = VERSION) := fun h => hbad (hiff.mpr h)
    rw [recvMsg_eq, if_neg (by omega)]
    by_cases hmg : hMagic req ≠ 6319435
    · rw [if_pos hmg]
      have : Cred.rd32 (req.take 4) ≠ MAGIC := hmg
      rw [if_pos this]
    · rw [if_neg hmg]
      have hv : hVer req ≠ 4 := fun hv => hb ⟨Decidable.not_not.mp hmg, hv⟩
      have : ¬ Cred.rd32 (req.take 4) ≠ MAGIC := hmg
      rw [if_pos hv, if_neg this]
  · have hm := wireHdr_msg mok req h11 hok
    have hi := hdrMsg_ints (hMagic req) (hVer req) (hType req) (hRetry req) (hLen req)
    obtain ⟨hmg, hv⟩ := hiff.mp hok
    have hn : (wireHdr mok req).2.m.int "pkt_len" = hLen req := by rw [hm]; exact hi.2.2.1
    have hb : wireBody mok req = (req.drop 11).take (hLen req) := by unfold wireBody; rw [hn]; rfl
    refine ⟨by rw [hm]; exact hi.1, by rw [hm]; exact hi.2.1, hn, fun hg => ?_, fun hg hsb => ?_,
      fun hp h2 h4 h1 => ?_⟩
    · rw [hn] at hg
      rw [recvMsg_eq, if_neg (by omega), if_neg (by rw [hmg]; decide), if_neg (by rw [hv]; decide),
        if_pos ((gate_iff _).mp hg)]
    · rw [hn] at hg hsb
      rw [hb] at hsb
      have hle : ((req.drop 11).take (hLen req)).length ≤ hLen req := by
        simp only [List.length_take]; omega
      rw [recvMsg_eq, if_neg (by omega), if_neg (by rw [hmg]; decide), if_neg (by rw [hv]; decide),
        if_neg (fun h => hg ((gate_iff _).mpr h)), if_pos (by omega)]
    · have ht : (wireHdr mok req).2.m.int "type" = hType req := by rw [hm]; exact hi.1
      rw [ht] at h2 h4 h1
      rw [recvMsg_of_pass mok req hp, if_neg (show ¬ hType req = 2 from h2), if_neg (show ¬ hType req = 4 from h4),
        if_neg (show ¬ hType req = 1 from h1)]

/-! ### (b) the request bodies -/

/-- ENC_REQ.  For a request that passes the header steps with type 2, `Cred.recvMsg` yields `.enc m` exactly
    when `_msg_unpack` of the generated ENC_REQ list succeeds, and then `m` is the unpacked message as the
    credential model sees it (`reqOf`: cipher, mac, zip, realm_len, realm bytes, ttl, auth_uid, auth_gid,
    data_len, data bytes from the body chain; type and retry from the header; everything else as
    `m_msg_create` left it; `error_str` NULL); it yields `.drop` (reason "unpack") exactly when the unpack
    reports an error (`err`: a field or a declared length runs past the packet; `nomem`: `data_len ≥ 2^31`
    is negative as an `int`). -/
theorem recvMsg_enc_is_wire (mok : Nat → Bool) (hmok : ∀ n, mok n = true) (req : Bytes)
    (hp : HdrPass mok req) (ht : (wireHdr mok req).2.m.int "type" = MUNGE_MSG_ENC_REQ) :
    ((wireBodyUnpack mok req).1 = EMUNGE_SUCCESS ↔ ∃ m, Cred.recvMsg req = .enc m) ∧
    ((wireBodyUnpack mok req).1 = EMUNGE_SUCCESS →
      Cred.recvMsg req = .enc (reqOf (wireBodyUnpack mok req).2.m) ∧
      (wireBodyUnpack mok req).2.m.buf "error_str" = none) ∧
    ((wireBodyUnpack mok req).1 ≠ EMUNGE_SUCCESS ↔ ∃ why, Cred.recvMsg req = .drop why) ∧
    ((wireBodyUnpack mok req).1 ≠ EMUNGE_SUCCESS → Cred.recvMsg req = .drop "unpack") := by
  have h11 := (take_hdr_len req).mp hp.1
  have hm := wireHdr_msg mok req h11 hp.2.1
  have hty : hType req = 2 := by
    rw [hm, (hdrMsg_ints _ _ _ _ _).1] at ht; exact ht
  have hR := recvMsg_of_pass mok req hp
  rw [if_pos hty] at hR
  have hU := wireBodyUnpack_of_pass mok req hp
  rw [hty] at hU
  rw [hR, hU]
  rcases unpack_enc mok hmok (hMagic req) (hVer req) (hRetry req) (hLen req) (wireBody mok req) with
    ⟨h1, h2, h3⟩ | ⟨h1, h2⟩
  · exact ⟨⟨fun _ => ⟨_, h2⟩, fun _ => h1⟩, fun _ => ⟨h2, h3⟩, ⟨fun h => absurd h1 h, fun ⟨w, hw⟩ => by
      rw [h2] at hw; cases hw⟩, fun h => absurd h1 h⟩
  · exact ⟨⟨fun h => absurd h h1, fun ⟨m, hm⟩ => by rw [h2] at hm; cases hm⟩, fun h => absurd h h1,
      ⟨fun _ => ⟨_, h2⟩, fun _ => h1⟩, fun _ => h2⟩

/-- ENC_REQ, field by field: whenever `Cred.recvMsg` yields `.enc m` for a request that passes the header steps
    with type 2, every field of `m` is the member the generated chain unpacked, and type / retry are the
    header's. -/
theorem recvMsg_enc_fields (mok : Nat → Bool) (hmok : ∀ n, mok n = true) (req : Bytes)
    (hp : HdrPass mok req) (ht : (wireHdr mok req).2.m.int "type" = MUNGE_MSG_ENC_REQ)
    (m : Cred.Msg) (hm : Cred.recvMsg req = .enc m) :
    (wireBodyUnpack mok req).1 = EMUNGE_SUCCESS ∧
    m.cipher = (wireBodyUnpack mok req).2.m.int "cipher" ∧ m.mac = (wireBodyUnpack mok req).2.m.int "mac" ∧
    m.zip = (wireBodyUnpack mok req).2.m.int "zip" ∧
    m.realmLen = (wireBodyUnpack mok req).2.m.int "realm_len" ∧
    m.realm = (wireBodyUnpack mok req).2.m.bytesOf "realm_str" .heap ∧
    m.ttl = (wireBodyUnpack mok req).2.m.int "ttl" ∧
    m.authUid = (wireBodyUnpack mok req).2.m.int "auth_uid" ∧
    m.authGid = (wireBodyUnpack mok req).2.m.int "auth_gid" ∧
    m.dataLen = (wireBodyUnpack mok req).2.m.int "data_len" ∧
    m.data = (wireBodyUnpack mok req).2.m.bytesOf "data" .heap ∧
    m.type = (wireHdr mok req).2.m.int "type" ∧ m.retry = (wireHdr mok req).2.m.int "retry" := by
  obtain ⟨h1, h2, _, _⟩ := recvMsg_enc_is_wire mok hmok req hp ht
  have hok := h1.mpr ⟨m, hm⟩
  have he := (h2 hok).1
  rw [hm] at he
  cases he
  refine ⟨hok, rfl, rfl, rfl, rfl, rfl, rfl, rfl, rfl, rfl, rfl, ?_, ?_⟩
  · have ht' : (wireHdr mok req).2.m.int "type" = 2 := ht
    have hf := (unpack_keeps_hdr mok 2 (by omega) (wireHdr mok req).2.m (wireBody mok req)
      (cInt ((wireHdr mok req).2.m.int "pkt_len"))).1
    show (wireBodyUnpack mok req).2.m.int "type" = _
    unfold wireBodyUnpack
    rw [ht']
    exact hf.trans ht'
  · have ht' : (wireHdr mok req).2.m.int "type" = 2 := ht
    have hf := (unpack_keeps_hdr mok 2 (by omega) (wireHdr mok req).2.m (wireBody mok req)
      (cInt ((wireHdr mok req).2.m.int "pkt_len"))).2
    show (wireBodyUnpack mok req).2.m.int "retry" = _
    unfold wireBodyUnpack
    rw [ht']
    exact hf

/-- DEC_REQ.  As `recvMsg_enc_is_wire`, for type 4 and the generated DEC_REQ list (data_len, data). -/
theorem recvMsg_dec_is_wire (mok : Nat → Bool) (hmok : ∀ n, mok n = true) (req : Bytes)
    (hp : HdrPass mok req) (ht : (wireHdr mok req).2.m.int "type" = MUNGE_MSG_DEC_REQ) :
    ((wireBodyUnpack mok req).1 = EMUNGE_SUCCESS ↔ ∃ m, Cred.recvMsg req = .dec m) ∧
    ((wireBodyUnpack mok req).1 = EMUNGE_SUCCESS →
      Cred.recvMsg req = .dec (reqOf (wireBodyUnpack mok req).2.m) ∧
      (wireBodyUnpack mok req).2.m.buf "error_str" = none) ∧
    ((wireBodyUnpack mok req).1 ≠ EMUNGE_SUCCESS ↔ ∃ why, Cred.recvMsg req = .drop why) ∧
    ((wireBodyUnpack mok req).1 ≠ EMUNGE_SUCCESS → Cred.recvMsg req = .drop "unpack") := by
  have h11 := (take_hdr_len req).mp hp.1
  have hm := wireHdr_msg mok req h11 hp.2.1
  have hty : hType req = 4 := by
    rw [hm, (hdrMsg_ints _ _ _ _ _).1] at ht; exact ht
  have hR := recvMsg_of_pass mok req hp
  rw [if_neg (by omega), if_pos hty] at hR
  have hU := wireBodyUnpack_of_pass mok req hp
  rw [hty] at hU
  rw [hR, hU]
  rcases unpack_dec mok hmok (hMagic req) (hVer req) (hRetry req) (hLen req) (wireBody mok req) with
    ⟨h1, h2, h3⟩ | ⟨h1, h2⟩
  · exact ⟨⟨fun _ => ⟨_, h2⟩, fun _ => h1⟩, fun _ => ⟨h2, h3⟩, ⟨fun h => absurd h1 h, fun ⟨w, hw⟩ => by
      rw [h2] at hw; cases hw⟩, fun h => absurd h1 h⟩
  · exact ⟨⟨fun h => absurd h h1, fun ⟨m, hm⟩ => by rw [h2] at hm; cases hm⟩, fun h => absurd h h1,
      ⟨fun _ => ⟨_, h2⟩, fun _ => h1⟩, fun _ => h2⟩

/-- DEC_REQ, field by field. -/
theorem recvMsg_dec_fields (mok : Nat → Bool) (hmok : ∀ n, mok n = true) (req : Bytes)
    (hp : HdrPass mok req) (ht : (wireHdr mok req).2.m.int "type" = MUNGE_MSG_DEC_REQ)
    (m : Cred.Msg) (hm : Cred.recvMsg req = .dec m) :
    (wireBodyUnpack mok req).1 = EMUNGE_SUCCESS ∧
    m.dataLen = (wireBodyUnpack mok req).2.m.int "data_len" ∧
    m.data = (wireBodyUnpack mok req).2.m.bytesOf "data" .heap ∧
    m.type = (wireHdr mok req).2.m.int "type" ∧ m.retry = (wireHdr mok req).2.m.int "retry" := by
  obtain ⟨h1, h2, _, _⟩ := recvMsg_dec_is_wire mok hmok req hp ht
  have hok := h1.mpr ⟨m, hm⟩
  have he := (h2 hok).1
  rw [hm] at he
  cases he
  refine ⟨hok, rfl, rfl, ?_, ?_⟩
  · have ht' : (wireHdr mok req).2.m.int "type" = 4 := ht
    have hf := (unpack_keeps_hdr mok 4 (by omega) (wireHdr mok req).2.m (wireBody mok req)
      (cInt ((wireHdr mok req).2.m.int "pkt_len"))).1
    show (wireBodyUnpack mok req).2.m.int "type" = _
    unfold wireBodyUnpack
    rw [ht']
    exact hf.trans ht'
  · have ht' : (wireHdr mok req).2.m.int "type" = 4 := ht
    have hf := (unpack_keeps_hdr mok 4 (by omega) (wireHdr mok req).2.m (wireBody mok req)
      (cInt ((wireHdr mok req).2.m.int "pkt_len"))).2
    show (wireBodyUnpack mok req).2.m.int "retry" = _
    unfold wireBodyUnpack
    rw [ht']
    exact hf

/-- A request whose header says MUNGE_MSG_HDR (type 1).  `m_msg_recv` unpacks the body with the header list,
    which checks a second magic / version and overwrites `m->type` and `m->retry`; `_job_exec` dispatches on
    the second type with every other member as `m_msg_create` left it.  `Cred.recvMsg` (`recvHdrBody`) does the
    same: a failing unpack drops; otherwise the result is `.enc` / `.dec` of the unpacked message when the
    second type is 2 / 4, and a drop ("type") else. -/
theorem recvMsg_hdr_is_wire (mok : Nat → Bool) (req : Bytes)
    (hp : HdrPass mok req) (ht : (wireHdr mok req).2.m.int "type" = MUNGE_MSG_HDR) :
    ((wireBodyUnpack mok req).1 ≠ EMUNGE_SUCCESS → ∃ why, Cred.recvMsg req = .drop why) ∧
    ((wireBodyUnpack mok req).1 = EMUNGE_SUCCESS →
      ((wireBodyUnpack mok req).2.m.int "type" = MUNGE_MSG_ENC_REQ →
        Cred.recvMsg req = .enc (reqOf (wireBodyUnpack mok req).2.m)) ∧
      ((wireBodyUnpack mok req).2.m.int "type" = MUNGE_MSG_DEC_REQ →
        Cred.recvMsg req = .dec (reqOf (wireBodyUnpack mok req).2.m)) ∧
      ((wireBodyUnpack mok req).2.m.int "type" ≠ MUNGE_MSG_ENC_REQ →
        (wireBodyUnpack mok req).2.m.int "type" ≠ MUNGE_MSG_DEC_REQ → Cred.recvMsg req = .drop "type")) := by
  have h11 := (take_hdr_len req).mp hp.1
  have hm := wireHdr_msg mok req h11 hp.2.1
  have hty : hType req = 1 := by
    rw [hm, (hdrMsg_ints _ _ _ _ _).1] at ht; exact ht
  have hR := recvMsg_of_pass mok req hp
  rw [if_neg (by omega), if_neg (by omega), if_pos hty] at hR
  have hU := wireBodyUnpack_of_pass mok req hp
  rw [hty] at hU
  rw [hR, hU]
  rcases unpack_hdrbody mok (hMagic req) (hVer req) (hRetry req) (hLen req) (wireBody mok req) with
    ⟨h1, h2⟩ | ⟨h1, h2, h3⟩
  · exact ⟨fun _ => h2, fun h => absurd h h1⟩
  · refine ⟨fun h => absurd h1 h, fun _ => ?_⟩
    rw [h2]
    rcases h3 with ⟨k, e⟩ | ⟨k, e⟩ | ⟨k2, k4, e⟩
    · exact ⟨fun _ => e, fun h => absurd (k.symm.trans h) (by decide), fun h => absurd k h⟩
    · exact ⟨fun h => absurd (k.symm.trans h) (by decide), fun _ => e, fun _ h => absurd k h⟩
    · exact ⟨fun h => absurd h k2, fun h => absurd h k4, fun _ _ => e⟩

/-! ### (a)+(b) together: `Cred.recvMsg` against `m_msg_recv` + the dispatch of `_job_exec` -/

/-- For EVERY byte string: `Cred.recvMsg` yields `.enc m` / `.dec m` exactly when
    `m_msg_recv (m, MUNGE_MSG_UNDEF, MUNGE_MAXIMUM_REQ_LEN)` (over the generated lists, chain and gate, on a
    fresh message, `malloc` succeeding) returns success with `m->type` = ENC_REQ / DEC_REQ, and then `m` is
    the received message; it yields `.drop` exactly when the receive fails or leaves another type (the
    `default:` of `_job_exec`'s switch: no reply).  The three right-hand sides are exclusive and exhaustive. -/
theorem recvMsg_is_wire_recv (mok : Nat → Bool) (hmok : ∀ n, mok n = true) (req : Bytes) :
    match Cred.recvMsg req with
    | .enc m =>
        (recv mok Msg.fresh MUNGE_MSG_UNDEF (MAXIMUM_REQ_LEN : Nat) req).rc = EMUNGE_SUCCESS ∧
        (recv mok Msg.fresh MUNGE_MSG_UNDEF (MAXIMUM_REQ_LEN : Nat) req).m.int "type" = MUNGE_MSG_ENC_REQ ∧
        m = reqOf (recv mok Msg.fresh MUNGE_MSG_UNDEF (MAXIMUM_REQ_LEN : Nat) req).m
    | .dec m =>
        (recv mok Msg.fresh MUNGE_MSG_UNDEF (MAXIMUM_REQ_LEN : Nat) req).rc = EMUNGE_SUCCESS ∧
        (recv mok Msg.fresh MUNGE_MSG_UNDEF (MAXIMUM_REQ_LEN : Nat) req).m.int "type" = MUNGE_MSG_DEC_REQ ∧
        m = reqOf (recv mok Msg.fresh MUNGE_MSG_UNDEF (MAXIMUM_REQ_LEN : Nat) req).m
    | .drop _ =>
        (recv mok Msg.fresh MUNGE_MSG_UNDEF (MAXIMUM_REQ_LEN : Nat) req).rc ≠ EMUNGE_SUCCESS ∨
        ((recv mok Msg.fresh MUNGE_MSG_UNDEF (MAXIMUM_REQ_LEN : Nat) req).m.int "type" ≠ MUNGE_MSG_ENC_REQ ∧
         (recv mok Msg.fresh MUNGE_MSG_UNDEF (MAXIMUM_REQ_LEN : Nat) req).m.int "type" ≠ MUNGE_MSG_DEC_REQ) := by
  obtain ⟨hA, hB, hC⟩ := recv_pieces mok hmok req
  by_cases hp : HdrPass mok req
  · have hR := recvMsg_of_pass mok req hp
    have hU := wireBodyUnpack_of_pass mok req hp
    have hi := hdrMsg_ints (hMagic req) (hVer req) (hType req) (hRetry req) (hLen req)
    by_cases h2 : hType req = 2
    · rw [if_pos h2] at hR
      rw [h2] at hU hi
      have hk := (unpack_keeps_hdr mok 2 (by omega) (hdrMsg (hMagic req) (hVer req) 2 (hRetry req) (hLen req))
        (wireBody mok req) ((wireBody mok req).length : Int)).1
      rcases unpack_enc mok hmok (hMagic req) (hVer req) (hRetry req) (hLen req) (wireBody mok req) with
        ⟨u1, u2, _⟩ | ⟨u1, u2⟩
      · rw [← hU] at u1 u2 hk
        obtain ⟨r1, r2⟩ := hC hp u1
        rw [hR, u2]
        exact ⟨r1, by rw [r2]; exact hk.trans hi.1, by rw [r2, reqOf_setInt_pkt_len]⟩
      · rw [← hU] at u1
        rw [hR, u2]
        exact .inl (hB hp u1)
    · by_cases h4 : hType req = 4
      · rw [if_neg h2, if_pos h4] at hR
        rw [h4] at hU hi
        have hk := (unpack_keeps_hdr mok 4 (by omega) (hdrMsg (hMagic req) (hVer req) 4 (hRetry req) (hLen req))
          (wireBody mok req) ((wireBody mok req).length : Int)).1
        rcases unpack_dec mok hmok (hMagic req) (hVer req) (hRetry req) (hLen req) (wireBody mok req) with
          ⟨u1, u2, _⟩ | ⟨u1, u2⟩
        · rw [← hU] at u1 u2 hk
          obtain ⟨r1, r2⟩ := hC hp u1
          rw [hR, u2]
          exact ⟨r1, by rw [r2]; exact hk.trans hi.1, by rw [r2, reqOf_setInt_pkt_len]⟩
        · rw [← hU] at u1
          rw [hR, u2]
          exact .inl (hB hp u1)
      · by_cases h1 : hType req = 1
        · rw [if_neg h2, if_neg h4, if_pos h1] at hR
          rw [h1] at hU
          rcases unpack_hdrbody mok (hMagic req) (hVer req) (hRetry req) (hLen req) (wireBody mok req) with
            ⟨u1, w, u2⟩ | ⟨u1, u2, u3⟩
          · rw [← hU] at u1
            rw [hR, u2]
            exact .inl (hB hp u1)
          · rw [← hU] at u1 u2 u3
            obtain ⟨r1, r2⟩ := hC hp u1
            have ht : (recv mok Msg.fresh MUNGE_MSG_UNDEF (MAXIMUM_REQ_LEN : Nat) req).m.int "type" =
                hType (wireBody mok req) := by rw [r2]; exact u2
            rcases u3 with ⟨k, e⟩ | ⟨k, e⟩ | ⟨k2, k4, e⟩
            · rw [hR, e]
              exact ⟨r1, by rw [ht]; exact k, by rw [r2, reqOf_setInt_pkt_len]⟩
            · rw [hR, e]
              exact ⟨r1, by rw [ht]; exact k, by rw [r2, reqOf_setInt_pkt_len]⟩
            · rw [hR, e]
              exact .inr ⟨by rw [ht]; exact k2, by rw [ht]; exact k4⟩
        · rw [if_neg h2, if_neg h4, if_neg h1] at hR
          rw [hR]
          have hk := unpack_type_frame mok (hType req) h1
            (hdrMsg (hMagic req) (hVer req) (hType req) (hRetry req) (hLen req))
            (wireBody mok req) ((wireBody mok req).length : Int)
          rw [← hU] at hk
          by_cases hs : (wireBodyUnpack mok req).1 = EMUNGE_SUCCESS
          · obtain ⟨r1, r2⟩ := hC hp hs
            have ht : (recv mok Msg.fresh MUNGE_MSG_UNDEF (MAXIMUM_REQ_LEN : Nat) req).m.int "type" = hType req := by
              rw [r2]; exact hk.trans hi.1
            exact .inr ⟨by rw [ht]; exact h2, by rw [ht]; exact h4⟩
          · exact .inl (hB hp hs)
  · obtain ⟨w, hw⟩ := recvMsg_not_pass mok req hp
    rw [hw]
    exact .inl (hA hp)

/-! ### (c) the replies -/

/-- ENC_RSP.  For a credential-model message `m` with `data_len ≤ |data|` whose reply body (2 + error_len + 4 +
    data_len bytes, `encRspLen`) fits a C `int`: with `w` the `struct m_msg` `m` stands for (`wireOf`), `pkt_len`
    and `type` set as `m_msg_send` sets them, `_msg_length` over the generated list is the body size,
    `_msg_pack` of the generated header list and of the generated ENC_RSP list both succeed, and the bytes
    `Cred.encRsp m` are exactly header ‖ body; so `m_msg_send (m, MUNGE_MSG_ENC_RSP, 0)` writes `Cred.encRsp m`.
    No range condition on the integer members is needed (`_pack` truncates exactly as `UInt8.ofNat` / `be32`
    do), none on the error text (`error_len` wraps mod 256 on both sides). -/
theorem encRsp_is_wire_pack (mok : Nat → Bool) (hmok : ∀ n, mok n = true) (m : Cred.Msg)
    (hd : m.dataLen ≤ m.data.length) (hsz : encRspLen m < 2147483648) :
    Wire.length MUNGE_MSG_ENC_RSP (wireOf m) = (encRspLen m : Int) ∧
    ∃ hdr body,
      Wire.pack MUNGE_MSG_HDR (((wireOf m).setInt "pkt_len" (encRspLen m)).setInt "type" MUNGE_MSG_ENC_RSP)
        (HDR_SIZE : Nat) =
        (EMUNGE_SUCCESS, ((wireOf m).setInt "pkt_len" (encRspLen m)).setInt "type" MUNGE_MSG_ENC_RSP, hdr) ∧
      Wire.pack MUNGE_MSG_ENC_RSP (((wireOf m).setInt "pkt_len" (encRspLen m)).setInt "type" MUNGE_MSG_ENC_RSP)
        (encRspLen m : Nat) =
        (EMUNGE_SUCCESS, ((wireOf m).setInt "pkt_len" (encRspLen m)).setInt "type" MUNGE_MSG_ENC_RSP, body) ∧
      Cred.encRsp m = hdr ++ body ∧
      Wire.send mok (wireOf m) MUNGE_MSG_ENC_RSP 0 =
        (EMUNGE_SUCCESS, ((wireOf m).setInt "pkt_len" (encRspLen m)).setInt "type" MUNGE_MSG_ENC_RSP,
          Cred.encRsp m) := by
  obtain ⟨k1, k2, k3, k4, k5⟩ := encRsp_send mok hmok m hd hsz
  exact ⟨k1, _, _, k3, k2, k4.symm, k5⟩

/-- DEC_RSP.  As `encRsp_is_wire_pack`, for the 19 fields of the generated DEC_RSP list; side conditions:
    `realm_len ≤ |realm|`, `addr_len ≤ |addr|`, `data_len ≤ |data|` (each declared length is covered by its
    member — otherwise the C would read past the member and the header would announce more bytes than are
    sent), and the body size `decRspLen m` = 39 + error_len + realm_len + addr_len + data_len fits an `int`. -/
theorem decRsp_is_wire_pack (mok : Nat → Bool) (hmok : ∀ n, mok n = true) (m : Cred.Msg)
    (hr : m.realmLen ≤ m.realm.length) (ha : m.addrLen ≤ m.addr.length) (hd : m.dataLen ≤ m.data.length)
    (hsz : decRspLen m < 2147483648) :
    Wire.length MUNGE_MSG_DEC_RSP (wireOf m) = (decRspLen m : Int) ∧
    ∃ hdr body,
      Wire.pack MUNGE_MSG_HDR (((wireOf m).setInt "pkt_len" (decRspLen m)).setInt "type" MUNGE_MSG_DEC_RSP)
        (HDR_SIZE : Nat) =
        (EMUNGE_SUCCESS, ((wireOf m).setInt "pkt_len" (decRspLen m)).setInt "type" MUNGE_MSG_DEC_RSP, hdr) ∧
      Wire.pack MUNGE_MSG_DEC_RSP (((wireOf m).setInt "pkt_len" (decRspLen m)).setInt "type" MUNGE_MSG_DEC_RSP)
        (decRspLen m : Nat) =
        (EMUNGE_SUCCESS, ((wireOf m).setInt "pkt_len" (decRspLen m)).setInt "type" MUNGE_MSG_DEC_RSP, body) ∧
      Cred.decRsp m = hdr ++ body ∧
      Wire.send mok (wireOf m) MUNGE_MSG_DEC_RSP 0 =
        (EMUNGE_SUCCESS, ((wireOf m).setInt "pkt_len" (decRspLen m)).setInt "type" MUNGE_MSG_DEC_RSP,
          Cred.decRsp m) := by
  obtain ⟨k1, k2, k3, k4, k5⟩ := decRsp_send mok hmok m hr ha hd hsz
  exact ⟨k1, _, _, k3, k2, k4.symm, k5⟩

/-- Every message `enc_process_msg` hands to `m_msg_send` (success or failure exit) satisfies the length
    condition of `encRsp_is_wire_pack`: what `Cred.jobExec` sends for an encode request is what `m_msg_send`
    over the generated lists writes, provided the reply fits an `int` (the size of a credential depends on the
    cryptographic primitives, which are parameters here). -/
theorem encProcess_reply_is_wire_pack (mok : Nat → Bool) (hmok : ∀ n, mok n = true)
    (P : Cred.Prims) (cf : Cred.Conf) (env : Cred.Env) (m0 : Cred.Msg)
    (hsz : encRspLen (Cred.encProcess P cf env m0).1 < 2147483648) :
    Wire.send mok (wireOf (Cred.encProcess P cf env m0).1) MUNGE_MSG_ENC_RSP 0 =
      (EMUNGE_SUCCESS,
        ((wireOf (Cred.encProcess P cf env m0).1).setInt "pkt_len" (encRspLen (Cred.encProcess P cf env m0).1)).setInt
          "type" MUNGE_MSG_ENC_RSP,
        Cred.encRsp (Cred.encProcess P cf env m0).1) :=
  (encRsp_send mok hmok _ (encProcess_lens P cf env m0) hsz).2.2.2.2

/-- Every message `dec_process_msg` hands to `m_msg_send` (hard failure: reset; soft failure; success) satisfies
    the three length conditions of `decRsp_is_wire_pack` (realm_len = (|realm|+1) mod 256 ≤ |realm ‖ NUL| or 0;
    addr_len ∈ {0, 4} with a 4-byte `addr`; data_len = |data|): what `Cred.jobExec` sends for a decode request
    is what `m_msg_send` over the generated lists writes, provided the reply fits an `int`. -/
theorem decProcess_reply_is_wire_pack (mok : Nat → Bool) (hmok : ∀ n, mok n = true)
    (P : Cred.Prims) (cf : Cred.Conf) (env : Cred.Env) (rs : Cred.ReplaySet) (m0 : Cred.Msg)
    (hsz : decRspLen (Cred.decProcess P cf env rs m0).msg < 2147483648) :
    Wire.send mok (wireOf (Cred.decProcess P cf env rs m0).msg) MUNGE_MSG_DEC_RSP 0 =
      (EMUNGE_SUCCESS,
        ((wireOf (Cred.decProcess P cf env rs m0).msg).setInt "pkt_len"
          (decRspLen (Cred.decProcess P cf env rs m0).msg)).setInt "type" MUNGE_MSG_DEC_RSP,
        Cred.decRsp (Cred.decProcess P cf env rs m0).msg) := by
  obtain ⟨h1, h2, h3⟩ := decProcess_lens P cf env rs m0
  exact (decRsp_send mok hmok _ h1 h2 h3 hsz).2.2.2.2

/-! ### regression: the request on which the two models used to disagree -/

/-- header (magic, version 4, type 1 = MUNGE_MSG_HDR, retry 0, pkt_len 11) followed by a second header
    (magic, version 4, type 2, retry 0, pkt_len 0) -/
def nestedHdrReq : Bytes :=
  [0x00, 0x60, 0x6d, 0x4b, 4, 1, 0, 0, 0, 0, 11, 0x00, 0x60, 0x6d, 0x4b, 4, 2, 0, 0, 0, 0, 0]

/-- The real daemon answers `nestedHdrReq` with an ENC_RSP ("Invalid MAC type 0"): the body is unpacked with the
    header chain, which overwrites `m->type` with 2.  Both models now agree on it: an ENC_REQ whose every
    field is zero.  (Before `recvHdrBody` was added, `Cred.recvMsg` answered `.drop "type"` here while
    `Wire.recv` returned success with type 2.) -/
theorem nestedHdrReq_agrees (mok : Nat → Bool) (hmok : ∀ n, mok n = true) :
    Cred.recvMsg nestedHdrReq = .enc { type := 2, retry := 0 } ∧
    (recv mok Msg.fresh MUNGE_MSG_UNDEF (MAXIMUM_REQ_LEN : Nat) nestedHdrReq).rc = EMUNGE_SUCCESS ∧
    (recv mok Msg.fresh MUNGE_MSG_UNDEF (MAXIMUM_REQ_LEN : Nat) nestedHdrReq).m.int "type" = MUNGE_MSG_ENC_REQ ∧
    reqOf (recv mok Msg.fresh MUNGE_MSG_UNDEF (MAXIMUM_REQ_LEN : Nat) nestedHdrReq).m = { type := 2, retry := 0 } := by
  have h1 : Cred.recvMsg nestedHdrReq = .enc { type := 2, retry := 0 } := by
    rw [recvMsg_eq]
    simp [nestedHdrReq, hMagic, hVer, hLen, hType, Cred.rd32, Munge.Gen.Dec.MUNGE_MAXIMUM_REQ_LEN,
      Cred.recvHdrBody]
  have := recvMsg_is_wire_recv mok hmok nestedHdrReq
  rw [h1] at this
  exact ⟨h1, this.1, this.2.1, this.2.2.symm⟩

end Munge.WireCred
