import Munge.Model.Sys
import Munge.Model.ToyPrims
import Munge.Lemmas.Sys
/-
C11 — concurrent requests are isolated from one another and race-free (PARTIAL by nature).

What is proved here is about `Munge.Sys`: m in-flight requests, each a private record with a program counter
over atomic steps (recv+private stages ; gids lookup ; salt / iv draw ; replay insert ; send ; replay remove),
over one shared state (replay set, installed gid map, PRNG position), run under an ARBITRARY schedule, with the
timer thread's actions (gid-map swap, replay purge) interleaved.  Each step is `Cred.decFront / decMid /
decTail / encProcess …` — the request pipeline is the one the other credential properties are proved about.

What ties the model to the C on every run:
* `Munge.Gen.Sys` (tools/gen/g_sys.py): the list of every mutable file-scope / static variable of the daemon with
  its protection and the lock…unlock event paths of every function that touches a mutex-guarded one; the
  shared-state calls reachable from `_job_exec`; the absence of any other access to a mutable global on the
  request path.  `shared_vars_covered`, `request_path_touches_only_interface`, `shared_calls_modelled` below are
  statements about that generated data (a new unguarded global, a dropped lock, a new shared call falsifies them).
* harness/h_sys.c runs the real `_job_exec` on k threads with gates at exactly the model's steps; for forced
  schedules the model predicts every reply byte.

What the model CANNOT exhibit, and no theorem here claims: data races, static scratch buffers, non-reentrant libc
calls.  Those are looked for in the C with ThreadSanitizer and a per-client oracle (tools/props/c11.py).  The
certificates are a structural check of the lock discipline, not a proof of race freedom.
-/
set_option linter.unusedVariables false
namespace Munge.C11
open Munge.Cred Munge.Sys Munge.Gen.Sys

/-! ### isolation -/

/-- ISOLATION (frame property, by induction over the schedule).  Take two systems whose daemons agree on the
    primitives and the configuration (keys) — their group databases, PRNG streams, lists of requests, initial
    replay sets and schedules (including swaps and purges) are ARBITRARY — in which request `r` occurs (as number
    `i1` in one, `i2` in the other).  If `r` made the same observations of the shared state in both runs (the
    bytes its PRNG draws returned, the answer of its membership lookup, whether its own replay key was present at
    its insert), then its private record — in particular the reply it receives — is the same in both runs.
    Nothing else about the other requests (their number, payloads, identities, clocks, errors, metadata,
    progress) can influence it. -/
theorem isolation (W1 W2 : World) (hP : W1.P = W2.P) (hcf : W1.cf = W2.cf)
    (reqs1 reqs2 : List Req) (rs1 rs2 : ReplaySet) (sched1 sched2 : List Act)
    (i1 i2 : Nat) (r : Req) (h1 : reqs1[i1]? = some r) (h2 : reqs2[i2]? = some r)
    (hobs : (run W1 reqs1 (initState rs1) sched1).obs i1 = (run W2 reqs2 (initState rs2) sched2).obs i2) :
    (run W1 reqs1 (initState rs1) sched1).locals i1 = (run W2 reqs2 (initState rs2) sched2).locals i2 ∧
    outOf (run W1 reqs1 (initState rs1) sched1) i1 = outOf (run W2 reqs2 (initState rs2) sched2) i2 := by
  have a := reach_run W1 reqs1 sched1 (initState rs1) (fun _ _ _ => .start) i1 r h1
  have b := reach_run W2 reqs2 sched2 (initState rs2) (fun _ _ _ => .start) i2 r h2
  rw [hobs] at a
  have := reach_functional W1 W2 hP hcf r _ _ _ a b
  exact ⟨this, by simp only [outOf, this]⟩

/-- NO FOREIGN BYTES (non-interference bound).  Whatever the other requests are and however the schedule
    interleaves them, what client `i` receives is what `Cred.jobExec` — the transaction of ONE request, a
    function of that request's bytes, peer identity and clock — returns for it, for some membership answer
    (one bit), some PRNG bytes, and a replay set of AT MOST ONE key.  So the rest of the system reaches the
    reply through two bits and the random bytes only: no payload, uid/gid, error text or metadata of another
    request can occur in it. -/
theorem no_foreign_bytes (W : World) (reqs : List Req) (rs0 : ReplaySet) (sched : List Act) (i : Nat) (r : Req)
    (hr : reqs[i]? = some r) (out : Option Bytes) (hd : (run W reqs (initState rs0) sched).locals i = .done out) :
    ∃ (ans : Bool) (drawn : Bytes) (rs' : ReplaySet), rs'.length ≤ 1 ∧
      out = (jobExec W.P W.cf (envOf r drawn ans) rs' r.bytes r.sendOk).1 := by
  have a := reach_run W reqs sched (initState rs0) (fun _ _ _ => .start) i r hr
  have s := reach_solo W r _ _ a
  rw [hd] at s
  obtain ⟨ans, drawn, rs', hl, he⟩ := s
  exact ⟨ans, drawn, rs', hl, he.symm⟩

/-! ### serialisability -/

/-- SERIALISABLE UP TO ROLL-BACK (the exact statement that holds when sends may fail).  For every system and
    every schedule, let `lin` be the recorded linearisation order: one item per request that has completed its
    reply, placed at the step that completed it (for a decode that gets that far: its `replay_insert`), carrying
    the membership answer and PRNG bytes it obtained; one item per purge; and one item `undo k` per executed
    `replay_remove`, placed where it ran.  Then
    (1) the shared replay set is the one the SEQUENTIAL execution of `lin` produces, where each request item is
        the whole transaction `Cred.jobExec` run as if its reply were deliverable, and `undo k` erases `k`;
    (2) every reply that was delivered is the reply of its request in that sequential execution;
    (3) each request occurs at most once in `lin`, exactly once when it has finished;
    (4) every `undo` item belongs to a finished request whose reply could not be delivered.
    What is MISSING for plain serialisability: an undeliverable decode appears as TWO items — its decode at its
    insert point and the withdrawal of its record at its remove point — and the requests linearised in between
    see the record (`rollback_anomaly`). -/
theorem serializable_with_rollback_partial (W : World) (reqs : List Req) (rs0 : ReplaySet) (sched : List Act) :
    let σ := run W reqs (initState rs0) sched
    (seqRun W reqs allDeliver rs0 σ.lin).1 = σ.sh.replay ∧
    (∀ i b, σ.locals i = .done (some b) → (i, b) ∈ (seqRun W reqs allDeliver rs0 σ.lin).2) ∧
    (∀ i, countReq i σ.lin ≤ 1 ∧ (finished σ i = true → i < reqs.length → countReq i σ.lin = 1)) ∧
    (∀ k, LinItem.undo k ∈ σ.lin → ∃ i r, reqs[i]? = some r ∧ r.sendOk = false ∧ σ.locals i = .done none) := by
  intro σ
  have inv := inv_run W reqs rs0 sched _ (inv_init W reqs rs0)
  refine ⟨by rw [inv.sim], fun i b h => by rw [inv.sim]; exact inv.dlv i b h, fun i => ⟨?_, fun hf hi => ?_⟩, inv.und⟩
  · have := inv.cnt i
    show countReq i σ.lin ≤ 1
    rw [this]; split <;> omega
  · have := inv.cnt i
    show countReq i σ.lin = 1
    rw [this]
    have hl : isPre (σ.locals i) = false := by
      have hf' : finished σ i = true := hf
      unfold finished at hf'
      cases hloc : σ.locals i <;> rw [hloc] at hf' <;> simp at hf' <;> rfl
    simp [show isPre ((run W reqs (initState rs0) sched).locals i) = false from hl]

/-- SERIALISABLE.  When every reply is deliverable (no send fails), for every schedule: the recorded order `lin`
    contains no withdrawals — it is an ordering of the requests (each at most once, each finished one exactly
    once) and of the purges — and the SEQUENTIAL execution of that ordering, one whole transaction
    (`Cred.jobExec` with the request's own clock, peer, deliverability, and the membership answer / PRNG bytes it
    obtained) after the other, yields the same final replay set and, for every client, the reply it received.
    The ordering is that of the requests' linearisation points (the `replay_insert` of a decode that reaches it).
    Membership answers and PRNG bytes are inputs of the sequential execution: gid-map refreshes and PRNG draws
    are not serialised with the requests (a request uses the map installed at ITS lookup). -/
theorem serializable (W : World) (reqs : List Req) (rs0 : ReplaySet) (sched : List Act)
    (hall : ∀ r ∈ reqs, r.sendOk = true) :
    let σ := run W reqs (initState rs0) sched
    (∀ it ∈ σ.lin, it.isUndo = false) ∧
    (∀ i, countReq i σ.lin ≤ 1 ∧ (finished σ i = true → i < reqs.length → countReq i σ.lin = 1)) ∧
    (seqRun W reqs (fun r => r.sendOk) rs0 σ.lin).1 = σ.sh.replay ∧
    (∀ i b, outOf σ i = some b → (i, b) ∈ (seqRun W reqs (fun r => r.sendOk) rs0 σ.lin).2) := by
  intro σ
  obtain ⟨h1, h2, h3, h4⟩ := serializable_with_rollback_partial W reqs rs0 sched
  rw [seqRun_deliver_eq W reqs hall]
  refine ⟨fun it hit => ?_, h3, h1, fun i b ho => ?_⟩
  · cases it with
    | undo k =>
      obtain ⟨i, r, hr, hs, _⟩ := h4 k hit
      have := hall r (List.mem_of_getElem? hr)
      rw [hs] at this; cases this
    | req _ _ _ => rfl
    | purge _ => rfl
  · apply h2 i b
    have ho' : outOf σ i = some b := ho
    unfold outOf at ho'
    cases hl : σ.locals i <;> rw [hl] at ho' <;> simp at ho'
    rw [ho']

/-! ### the roll-back anomaly (finding F10): full-strength serialisability is FALSE when a send fails

The full-strength statement would be `serializable` WITHOUT the hypothesis `hall`:

    theorem serializable_full (W reqs rs0 sched) (hdone : ∀ i < reqs.length, finished σ i) :
        ∃ order, (each request exactly once, the purges, no other item) ∧
          ∀ i b, outOf σ i = some b → (i, b) ∈ (seqRun W reqs (fun r => r.sendOk) rs0 order).2

It is false of the current code: `dec_process_msg` calls `replay_insert` before `m_msg_send` and withdraws the
record only after the send has failed, so a second decode of the same credential that runs in between is told
REPLAYED although in NEITHER sequential order of {A (undeliverable), B} is B refused.  (Acknowledged in a comment
in dec_process_msg.)  The witness below is that schedule on a concrete system. -/

/-- toy primitives, fixed keys, a PRNG stream -/
def anomalyWorld : World :=
  { P := ToyPrims.prims, cf := { macKey := [1, 2, 3, 4], dekKey := [5, 6, 7, 8] },
    gidMaps := fun _ _ _ => false, stream := fun i => UInt8.ofNat (i * 7 + 3) }

/-- a valid credential (MAC type 2, no cipher, no compression; encoded at 1000000 with ttl 300, payload "hi") -/
def anomalyCred : Bytes :=
  forge anomalyWorld.P anomalyWorld.cf 0 2 0 [] []
    ([1, 2, 3, 4, 5, 6, 7, 8] ++ [4] ++ [127, 0, 0, 1] ++ be32 1000000 ++ be32 300 ++ be32 1000 ++ be32 1000 ++
      be32 4294967295 ++ be32 4294967295 ++ be32 2 ++ [104, 105])

def anomalyReq : Bytes := hdrBytes 4 0 (4 + anomalyCred.length) ++ be32 anomalyCred.length ++ anomalyCred

/-- A's reply cannot be delivered; B's can -/
def anomalyReqs : List Req :=
  [{ bytes := anomalyReq, peer := some (1000, 1000), now := 1000010, sendOk := false },
   { bytes := anomalyReq, peer := some (2000, 2000), now := 1000020, sendOk := true }]

/-- A inserts; B inserts (sees A's record); B is answered; A's send fails; A withdraws its record -/
def anomalySched : List Act :=
  [.req 0 .recv, .req 0 .lookup, .req 0 .insert, .req 1 .recv, .req 1 .lookup, .req 1 .insert, .req 1 .send,
   .req 0 .send, .req 0 .remove]

/-- error code of a reply (byte 11 of the wire message) -/
def errCode (o : Option Bytes) : Option UInt8 := o.map (fun b => b.getD 11 255)

/-- ROLL-BACK ANOMALY.  In the concurrent run B is answered EMUNGE_CRED_REPLAYED (17), A receives nothing and
    the replay set ends EMPTY; yet in both sequential orders of the two transactions B is answered SUCCESS (0):
    no sequential execution of {A, B} produces the concurrent outcome.  The negation of the full-strength
    statement on a concrete witness. -/
theorem rollback_anomaly :
    let σ := run anomalyWorld anomalyReqs (initState []) anomalySched
    let seqAB := seqRun anomalyWorld anomalyReqs (fun r => r.sendOk) [] [.req 0 false [], .req 1 false []]
    let seqBA := seqRun anomalyWorld anomalyReqs (fun r => r.sendOk) [] [.req 1 false [], .req 0 false []]
    finished σ 0 = true ∧ finished σ 1 = true ∧
    outOf σ 0 = none ∧ errCode (outOf σ 1) = some 17 ∧ σ.sh.replay = [] ∧
    seqAB.2.map (fun x => (x.1, x.2.getD 11 255)) = [(1, 0)] ∧
    seqBA.2.map (fun x => (x.1, x.2.getD 11 255)) = [(1, 0)] := by
  decide +kernel

/-- … and the partial theorem's reading of the same run: A as two items around B -/
example :
    (run anomalyWorld anomalyReqs (initState []) anomalySched).lin.map
      (fun it => match it with | .req i _ _ => some i | _ => none) = [some 0, some 1, none] := by
  decide +kernel

/-! ### the generated facts about the C -/

/-- unguarded variables that are acknowledged, with the justification (anything else unguarded falsifies
    `shared_vars_covered`):
    `_daemonpipe_fd_write` is written by the main thread in `daemonize_fini` (start-up, the timer thread already
    exists) and otherwise only read by `daemonpipe_write` on the fatal-error path `_log_die`, whose thread then
    exits the process. -/
def acknowledged : List String := ["daemonpipe.c:_daemonpipe_fd_write"]

/-- SHARED VARIABLES COVERED.  Every non-const file-scope / function-static variable of the daemon (struct-typed
    ones field by field) is written only by start-up / shutdown code, or lazily under a flag set at start-up, or
    is a mutex / condition variable, or a `volatile sig_atomic_t` flag, or is confined to one thread, or is
    guarded by a mutex — in which case every function that touches it (and runs while other threads exist)
    has a certificate: on each of its acyclic control-flow paths all accesses lie between lock and unlock, lock
    state is loop-invariant, helpers that expect the mutex are only called with it, no return while it is held. -/
theorem shared_vars_covered :
    ∀ v ∈ sharedVars, guardCovered certs v.2.2 = true ∨ v.1 ∈ acknowledged := by
  decide +kernel

/-- the request path relies on the per-object mutexes of the replay table and the gid map: their functions
    touch the object only inside lock/unlock (same path check; C05 / C17 certify them in their own way too) -/
theorem request_path_mutexes_certified :
    heapCerts.map (·.fn) = ["hash_find", "hash_insert", "hash_remove", "hash_delete_if", "gids_is_member"] ∧
    heapCerts.all (fun c => c.paths.all (pathOk c.mode [] []) && c.paths.any (·.contains .lock)) = true := by
  decide +kernel

/-- the model's `insert` / `remove` steps are single atomic steps of the C: on every control-flow path
    `replay_insert` / `replay_remove` perform at most one operation on the replay table, and each certified
    table / gid-map function takes its mutex at most once -/
theorem steps_are_single_critical_sections :
    tableOps.map (·.1) = ["replay_insert", "replay_remove"] ∧
    tableOps.all (fun t => t.2.all (fun p => p.length ≤ 1)) = true ∧
    heapCerts.all (fun c => c.paths.all (fun p => (p.filter (· == .lock)).length ≤ 1)) = true := by
  decide +kernel

/-- THE REQUEST PATH TOUCHES SHARED STATE ONLY THROUGH THE INTERFACE.  Between `_job_exec` and the interface
    functions no function of the call closure reads or writes a mutable global (other than start-up-only ones)
    or takes a mutex, and nothing that runs while other threads exist writes through the global `conf`. -/
theorem request_path_touches_only_interface :
    strayAccesses = [] ∧ confWrites = [] ∧ threadRoots.lookup "worker" = some ["_job_exec"] := by
  decide +kernel

/-- … and the interface functions reached are exactly the ones the model's steps stand for (plus the two
    without a modelled effect): the claim "a request touches shared state only at these points" is extracted. -/
theorem shared_calls_modelled :
    (∀ c ∈ sharedCalls, c ∈ noEffectCalls ∨ ∃ s ∈ allSteps, c ∈ stepCalls s) ∧
    (∀ s ∈ allSteps, ∀ c ∈ stepCalls s, c ∈ sharedCalls) := by
  decide +kernel

/-! ### non-vacuity -/

/-- a run in which two clients decode the same credential concurrently and all replies are delivered:
    exactly one SUCCESS, one REPLAYED, whichever inserts first wins (both interleavings shown) -/
example :
    let reqs := anomalyReqs.map (fun r => { r with sendOk := true })
    let s1 := run anomalyWorld reqs (initState []) (program 0 ++ program 1)
    let s2 := run anomalyWorld reqs (initState [])
      [.req 0 .recv, .req 1 .recv, .req 1 .lookup, .req 0 .lookup, .req 1 .insert, .req 0 .insert, .req 0 .send, .req 1 .send]
    (errCode (outOf s1 0), errCode (outOf s1 1)) = (some 0, some 17) ∧
    (errCode (outOf s2 0), errCode (outOf s2 1)) = (some 17, some 0) ∧
    s1.lin.length = 2 ∧ s2.lin = [.req 1 false [], .req 0 false []] := by
  decide +kernel

/-- an encode draws its salt and IV from the shared stream: two interleaved encodes get disjoint bytes -/
example :
    let enc : Bytes := hdrBytes 2 0 22 ++ [4, 5, 0, 0] ++ be32 0 ++ be32 4294967295 ++ be32 4294967295 ++ be32 2 ++ [104, 105]
    let reqs : List Req := [{ bytes := enc, peer := some (1, 1), now := 5 }, { bytes := enc, peer := some (2, 2), now := 6 }]
    let σ := run anomalyWorld reqs (initState []) [.req 0 .recv, .req 1 .recv, .req 0 .salt, .req 1 .salt, .req 1 .iv, .req 0 .iv]
    σ.sh.rndPos = 48 ∧ σ.lin = [.req 1 false (draw anomalyWorld 8 8 ++ draw anomalyWorld 16 16),
                                .req 0 false (draw anomalyWorld 0 8 ++ draw anomalyWorld 32 16)] := by
  decide +kernel

/-- the certificate checker is not vacuous: it rejects an access outside the critical section, a return with
    the mutex held, a helper called without the mutex, and a loop body that leaves the lock state changed -/
example : pathOk .takesLock [] [] [.lock, .unlock, .touch "x", .ret] = false ∧
    pathOk .takesLock [] [] [.lock, .touch "x", .ret] = false ∧
    pathOk .takesLock ["helper"] [] [.call "helper", .ret] = false ∧
    pathOk .takesLock [] [] [.lock, .head 1, .unlock, .back 1, .cut] = false ∧
    pathOk .takesLock ["helper"] [] [.lock, .call "helper", .touch "x", .unlock, .ret] = true := by
  decide

end Munge.C11
