import Munge.Model.Wire
import Munge.Lemmas.Wire
/-
C14 — the client–daemon message codec is lossless and never trusts a length.

Property theorems only; the generic lemmas (about arbitrary descriptor lists) live in
`Munge/Lemmas/Wire.lean`.  The descriptor lists `lengthTable`, `packTable`, `unpackTable`, the
header constants, the exit codes, the `m_msg_recv` chain and its length gate are `Munge.Gen.Wire.*`,
regenerated from `src/libcommon/m_msg.c` on every run; each theorem below ends in a `decide` of a
decidable side condition on that generated data, so it is re-checked against what the C says now.

`mok : Nat → Bool` is "does `malloc (n)` succeed"; the safety theorems hold for every `mok`.
-/
namespace Munge.C14
open Munge.Wire Munge.Gen.Wire Munge.C

/-! ### the three field lists describe the same messages -/

/-- what a link says about the wire: an integer field is (name, width) — a header local is named by
    its declared type, as `_msg_length` does with `sizeof (m_msg_magic_t)` —, a variable-length
    field is (its length member, 0); `_alloc`s and interposed tests say nothing -/
def sig : Fld → Option (String × Nat)
  | .int f w => some ((localTypes.lookup f).getD f, w)
  | .bytes _ l _ => some (l, 0)
  | .var l => some (l, 0)
  | _ => none

def sameFields (_t : Nat) (L P U : List Fld) : Bool :=
  decide (L.filterMap sig = P.filterMap sig) && decide (P.filterMap sig = U.filterMap sig) &&
  decide (core P = core U)

/-- For each of the 6 message types, `_msg_length`, `_msg_pack` and `_msg_unpack` name the same
    fields in the same order (and pack and unpack move the same members); every enumerator of
    `enum m_msg_type` except UNDEF has its three lists. -/
theorem lists_agree :
    unpackTable.length = 6 ∧
    lengthTable.map (·.1) = packTable.map (·.1) ∧ packTable.map (·.1) = unpackTable.map (·.1) ∧
    (∀ e ∈ msgTypes, e.2 ≠ MUNGE_MSG_UNDEF → (lookup unpackTable e.2).isSome = true) ∧
    ∀ t L P U, lookup lengthTable t = some L → lookup packTable t = some P → lookup unpackTable t = some U →
      L.filterMap sig = P.filterMap sig ∧ P.filterMap sig = U.filterMap sig ∧ core P = core U := by
  refine ⟨by decide, by decide, by decide, by decide, ?_⟩
  intro t L P U hL hP hU
  have h : tablesAll sameFields = true := by decide
  obtain ⟨L', P', hL', hP', hp⟩ := tablesAll_spec h hU
  rw [hL] at hL'; rw [hP] at hP'
  cases hL'; cases hP'
  simp only [sameFields, Bool.and_eq_true, decide_eq_true_eq] at hp
  exact ⟨hp.1.1, hp.1.2, hp.2⟩

/-! ### lossless -/

/-- A message a sender may hold for type `t`: the type has lists, and (`WellFormedFor`) every
    integer member fits its width, every length is below 2^31 and does not exceed what its member
    holds, no interposed test of the pack or unpack chain fires, the total size fits an `int`, and
    the two header locals (modelled as pseudo-members) hold the values `_msg_pack` gives them. -/
def WellFormed (t : Nat) (m : Msg) : Prop :=
  ∃ P U, lookup packTable t = some P ∧ lookup unpackTable t = some U ∧ WellFormedFor P U m

def roundTripOk (t : Nat) (L P U : List Fld) : Bool :=
  typeOk L P U && (t != postCheckType || postOk U)

/-- For every message type and every well-formed message `m`: the length computed by
    `_msg_length` equals the number of bytes `_msg_pack` produces into a buffer of that length,
    and `_msg_unpack` of those bytes (also when followed by arbitrary trailing bytes, and whatever
    the receiving message `m0` held before) succeeds with every field of the type equal to `m`'s
    (`got`: integer members equal; variable-length members equal over their length). -/
theorem unpack_pack (mok : Nat → Bool) (hmok : ∀ n, mok n = true) (t : Nat) (m m0 : Msg)
    (hwf : WellFormed t m) (extra : List UInt8) :
    ∃ bytes st U, lookup unpackTable t = some U ∧
      pack t m (length t m) = (EMUNGE_SUCCESS, m, bytes) ∧
      length t m = (bytes.length : Nat) ∧
      unpack mok t m0 (bytes ++ extra) ((bytes ++ extra).length : Nat) = (EMUNGE_SUCCESS, st) ∧
      ∀ fld ∈ U, got m st.m fld := by
  obtain ⟨P, U, hP, hU, hw⟩ := hwf
  have h : tablesAll roundTripOk = true := by decide
  obtain ⟨L, P', hL, hP', hp⟩ := tablesAll_spec h hU
  rw [hP] at hP'; cases hP'
  simp only [roundTripOk, Bool.and_eq_true, Bool.or_eq_true, bne_iff_ne, ne_eq] at hp
  have hpost : t = postCheckType → postOk U = true := by
    intro ht
    rcases hp.2 with h1 | h1
    · exact absurd ht h1
    · exact h1
  obtain ⟨h1, h2, st, h3, h4⟩ := roundtrip_gen mok hmok t L P U hL hP hU hp.1 hpost m m0 hw extra
  have hpo : packOk = EMUNGE_SUCCESS := by decide
  have huo : unpackOk = EMUNGE_SUCCESS := by decide
  exact ⟨chunks m P, st, U, hU, by rw [h2, hpo], h1, by rw [h3, huo], h4⟩

/-! ### never trusts a length -/

/-- For EVERY type code `t` (the daemon unpacks whatever type the client's header names), EVERY
    byte string `b`, every previous content `m` of the message object and every behaviour of
    `malloc`: `_msg_unpack (m, t, b, |b|)` reads only indices below `|b|`, writes every
    variable-length field only inside its destination (the heap block `_alloc` made, or the
    in-struct member), and ends in success or in a non-success code with an error recorded.
    Holds for the header (`t = MUNGE_MSG_HDR`) as for the bodies.

    Proof: every generated unpack list is `guarded` (each heap copy-in is preceded by the matching
    `_alloc` on the same unchanged length member; each copy-in to an in-struct member is preceded
    by a test bounding its length by `sizeof` of the member) — decided on the generated lists —
    and `guarded` lists are safe (`unpack_safe_of_guarded`).  On a tree where the DEC_RSP chain copies
    `addr_len` bytes into the 4-byte `addr` without a test this `decide` fails: then e.g.
    `unpack _ 5 _ [0,0,0,0,0,0,0,0,0,0,5,1,2,3,4,5] 16` has `oob = true` (defect F2). -/
theorem unpack_safe (mok : Nat → Bool) (t : Nat) (m : Msg) (b : List UInt8) :
    let r := unpack mok t m b (b.length : Nat)
    r.2.oob b.length = false ∧
    (∀ rd ∈ r.2.reads, rd.1 + rd.2 ≤ b.length) ∧
    (∀ w ∈ r.2.writes, w.2.1 ≤ w.2.2) ∧
    (r.1 = EMUNGE_SUCCESS ∨ (r.1 ≠ EMUNGE_SUCCESS ∧ r.2.m.int "error_num" ≠ 0)) := by
  have hg : ∀ fl ∈ unpackTable.map (·.2), guarded fl = true := by decide
  have hc : codesOk = true := by decide
  have h := unpack_safe_of_guarded hg mok t m b b.length b.length (Int.le_refl _)
  exact ⟨h.oob, h.1, h.2, unpack_outcome hc mok t m b b.length⟩

/-- The same when the packet length handed to `_msg_unpack` is smaller than the buffer (as in
    `m_msg_recv`, where a `pkt_len ≥ 2^31` becomes a negative `int`): still no access outside. -/
theorem unpack_safe_srclen (mok : Nat → Bool) (t : Nat) (m : Msg) (b : List UInt8) (srclen : Int)
    (h : srclen ≤ (b.length : Nat)) :
    (unpack mok t m b srclen).2.oob b.length = false := by
  have hg : ∀ fl ∈ unpackTable.map (·.2), guarded fl = true := by decide
  exact (unpack_safe_of_guarded hg mok t m b srclen b.length h).oob

/-- A header is accepted only with the right magic and version: whenever `_msg_unpack` of type
    MUNGE_MSG_HDR succeeds, the 4-byte magic and the 1-byte version it read equal MUNGE_MSG_MAGIC and
    MUNGE_MSG_VERSION (and these are the values `_msg_pack` writes). -/
theorem header_strict (mok : Nat → Bool) (m : Msg) (b : List UInt8) (srclen : Int)
    (h : (unpack mok MUNGE_MSG_HDR m b srclen).1 = EMUNGE_SUCCESS) :
    (unpack mok MUNGE_MSG_HDR m b srclen).2.m.int "local.magic" = MAGIC ∧
    (unpack mok MUNGE_MSG_HDR m b srclen).2.m.int "local.version" = VERSION ∧
    packInits = [("local.magic", MAGIC), ("local.version", VERSION)] := by
  have hc : codesOk = true := by decide
  have ht : MUNGE_MSG_HDR = postCheckType := by decide
  have h1 : ("local.magic", MAGIC, EMUNGE_SOCKET, EMUNGE_SOCKET) ∈ postChecks := by decide
  have h2 : ("local.version", VERSION, EMUNGE_SOCKET, EMUNGE_SOCKET) ∈ postChecks := by decide
  rw [ht] at h ⊢
  exact ⟨unpack_post hc mok m b srclen h _ h1, unpack_post hc mok m b srclen h _ h2, by decide⟩

/-! ### `m_msg_recv`: the length gate comes first -/

/-- the order of the `else if` chain of `m_msg_recv` that `Munge.Wire.recv` follows is the order in
    the C source, and the gate's exit is (`m_msg_set_err` EMUNGE_SOCKET, `return` EMUNGE_BAD_LENGTH) -/
theorem recv_chain_order :
    recvChain.map (·.1) = ["read_hdr", "timeout", "short_hdr", "unpack_hdr", "type_check", "gate", "malloc",
      "read_body", "timeout", "short_body", "unpack_body"] ∧
    chainExit "gate" = (EMUNGE_SOCKET, EMUNGE_BAD_LENGTH) ∧ recvHdrLen = HDR_SIZE := by decide

/-- With a positive `maxlen`: (1) whenever `m_msg_recv` allocates a body buffer, reads past the
    header or unpacks a body, the header's declared body length was at most `maxlen`; (2) a valid
    header of an acceptable type that declares more than `maxlen` yields EMUNGE_BAD_LENGTH with
    nothing allocated and nothing read beyond the header. -/
theorem recv_gate (mok : Nat → Bool) (m : Msg) (type : Nat) (maxlen : Int) (s : List UInt8)
    (h0 : 0 < maxlen) (h1 : maxlen < 2147483648) :
    let r := recv mok m type maxlen s
    let hdr := unpack mok MUNGE_MSG_HDR m (s.take recvHdrLen) recvHdrLen
    ((r.pktAllocs ≠ [] ∨ recvHdrLen < r.consumed ∨ r.body.isSome = true) → (hdr.2.m.int "pkt_len" : Int) ≤ maxlen) ∧
    (recvHdrLen ≤ s.length → hdr.1 = EMUNGE_SUCCESS → (type = MUNGE_MSG_UNDEF ∨ hdr.2.m.int "type" = type) →
      (hdr.2.m.int "pkt_len" : Int) > maxlen →
      r.rc = EMUNGE_BAD_LENGTH ∧ r.pktAllocs = [] ∧ r.consumed = recvHdrLen ∧ r.body = none ∧ r.pktSet = false) := by
  have hexit : (chainExit "gate").2 = EMUNGE_BAD_LENGTH := by decide
  have hgate : ∀ pl : Nat, recvGate maxlen pl ↔ (pl : Int) > maxlen := by
    intro pl; unfold recvGate wrapU32; constructor <;> intro h <;> omega
  dsimp only
  generalize hh : unpack mok MUNGE_MSG_HDR m (s.take recvHdrLen) recvHdrLen = hdr
  generalize hr' : recv mok m type maxlen s = r
  have hr := hr'.symm
  clear hr'
  unfold recv at hr
  simp only [hh] at hr
  by_cases c1 : (s.take recvHdrLen).length ≠ recvHdrLen
  · rw [if_pos c1] at hr
    subst hr
    refine ⟨?_, ?_⟩
    · intro h; simp [List.length_take] at h; omega
    · intro hl; exfalso; apply c1; simp [List.length_take]; omega
  · rw [if_neg c1] at hr
    obtain ⟨hrc, hst⟩ := hdr
    simp only at hr ⊢
    by_cases c2 : hrc ≠ EMUNGE_SUCCESS
    · rw [if_pos c2] at hr
      subst hr
      exact ⟨by simp, fun _ h => absurd h c2⟩
    · rw [if_neg c2] at hr
      by_cases c3 : type ≠ MUNGE_MSG_UNDEF ∧ hst.m.int "type" ≠ type
      · rw [if_pos c3] at hr
        subst hr
        refine ⟨by simp, fun _ _ h => ?_⟩
        rcases h with h | h
        · exact absurd h c3.1
        · exact absurd h c3.2
      · rw [if_neg c3] at hr
        by_cases c4 : recvGate maxlen (hst.m.int "pkt_len")
        · rw [if_pos c4] at hr
          subst hr
          refine ⟨by simp, fun _ _ _ _ => ?_⟩
          simp [hexit]
        · rw [if_neg c4] at hr
          have hle : (hst.m.int "pkt_len" : Int) ≤ maxlen := by
            have : ¬ ((hst.m.int "pkt_len" : Int) > maxlen) := fun h => c4 ((hgate (hst.m.int "pkt_len")).mpr h)
            omega
          exact ⟨fun _ => hle, fun _ _ _ h => by omega⟩

/-! ### `m_msg_send`: nothing leaves when the body is longer than `maxlen` -/

/-- With a positive `maxlen`, a message whose computed body length exceeds it is not written to the
    socket at all (and the call does not report success). -/
theorem send_gate (mok : Nat → Bool) (m : Msg) (t : Nat) (maxlen : Int) (h0 : 0 < maxlen)
    (h1 : maxlen < 2147483648) (hlen : length t m > maxlen) :
    (send mok m t maxlen).2.2 = [] ∧ (send mok m t maxlen).1 ≠ EMUNGE_SUCCESS := by
  have hpe : packErr.2 ≠ EMUNGE_SUCCESS := by decide
  have hex : sendGateExit.2 ≠ EMUNGE_SUCCESS := by decide
  have hsn : EMUNGE_SNAFU ≠ EMUNGE_SUCCESS ∧ EMUNGE_NO_MEMORY ≠ EMUNGE_SUCCESS := by decide
  have hgate : ∀ pl : Nat, (pl : Int) > maxlen → sendGate maxlen pl := by
    intro pl h; unfold sendGate wrapU32; omega
  unfold send
  simp only
  split
  · exact ⟨rfl, hsn.1⟩
  · split
    · exact ⟨rfl, hsn.2⟩
    · generalize hm' : (m.setInt "pkt_len" (length t m).toNat).setInt "type" t = m'
      have hpl : m'.int "pkt_len" = (length t m).toNat := by
        rw [← hm']; simp [Msg.setInt]
      cases hp : pack t m' (length t m) with
      | mk e rest =>
        obtain ⟨m2, body⟩ := rest
        simp only
        split
        · rename_i he; exact ⟨rfl, he⟩
        · rename_i he
          have hm2 : m2 = m' := by
            unfold pack at hp
            split at hp
            · simp only [Prod.mk.injEq] at hp; exact absurd (hp.1 ▸ (Classical.not_not.mp he)) hpe
            · split at hp
              · simp only [Prod.mk.injEq] at hp; exact hp.2.1.symm
              · simp only [Prod.mk.injEq] at hp; exact absurd (hp.1 ▸ (Classical.not_not.mp he)) hpe
          have hg : sendGate maxlen (m2.int "pkt_len") := by
            rw [hm2, hpl]; apply hgate; omega
          rw [if_pos hg]
          exact ⟨rfl, hex⟩

/-! ### `m_msg_set_err` (used by the credential model): the first error wins -/

/-- once an error is recorded, later `m_msg_set_err` calls change neither code nor string, and
    every call returns -1 -/
theorem set_err_first_wins (m : Msg) (e1 e2 : Nat) (s1 s2 : Option (List UInt8))
    (hm : m.int "error_num" = EMUNGE_SUCCESS) (h1 : e1 % 256 ≠ 0) :
    let m1 := (setErr m e1 s1).1
    m1.int "error_num" = e1 % 256 ∧ (setErr m1 e2 s2).1.int "error_num" = e1 % 256 ∧
    (setErr m1 e2 s2).1.buf "error_str" = m1.buf "error_str" ∧
    (setErr m e1 s1).2 = -1 ∧ (setErr m1 e2 s2).2 = -1 := by
  have h0 : EMUNGE_SUCCESS = 0 := by decide
  have he1 : e1 ≠ EMUNGE_SUCCESS := by rw [h0]; intro h; subst h; simp at h1
  have hm1 : (setErr m e1 s1).1.int "error_num" = e1 % 256 := by
    unfold setErr; rw [if_pos ⟨hm, he1⟩]; simp [Msg.setInt, Msg.setBuf]
  have hne : ¬ ((setErr m e1 s1).1.int "error_num" = EMUNGE_SUCCESS ∧ e2 ≠ EMUNGE_SUCCESS) := by
    rw [hm1, h0]; intro h; exact h1 h.1
  have hnoop : ∀ (m' : Msg), ¬ (m'.int "error_num" = EMUNGE_SUCCESS ∧ e2 ≠ EMUNGE_SUCCESS) →
      setErr m' e2 s2 = (m', -1) := by
    intro m' h; unfold setErr; rw [if_neg h]
  have h2 : setErr (setErr m e1 s1).1 e2 s2 = ((setErr m e1 s1).1, -1) := hnoop _ hne
  refine ⟨hm1, by rw [h2]; exact hm1, by rw [h2], ?_, by rw [h2]⟩
  unfold setErr; split <;> rfl

/-! ### `m_msg_reset` (used by the credential model): what is cleared, to what -/

set_option linter.unusedSimpArgs false in
/-- After `m_msg_reset` — whatever the message held, and whether or not its blocks were copies —
    cipher, mac, zip are 0 (NONE), realm and data are gone (length 0, pointer NULL), ttl is 0
    (MUNGE_TTL_DEFAULT), addr_len, time0, time1 are 0 and the four credential uid/gid members are
    0xffffffff (MUNGE_UID_ANY / MUNGE_GID_ANY).  Read off the kernel translated from the C source. -/
theorem reset_clears (m : Msg) :
    (∀ f ∈ ["cipher", "mac", "zip", "realm_len", "ttl", "addr_len", "time0", "time1", "data_len"],
      (reset m).int f = 0) ∧
    (∀ f ∈ ["cred_uid", "cred_gid", "auth_uid", "auth_gid"], (reset m).int f = 4294967295) ∧
    (reset m).buf "realm_str" = none ∧ (reset m).buf "data" = none := by
  have key : ∀ a b c d : Int,
      (∀ f ∈ ["cipher", "mac", "zip", "realm_len", "ttl", "addr_len", "time0", "time1", "data_len"],
        lastInt f (m_msg_reset a b c d).writes = some 0) ∧
      (∀ f ∈ ["cred_uid", "cred_gid", "auth_uid", "auth_gid"],
        lastInt f (m_msg_reset a b c d).writes = some 4294967295) ∧
      (a ≠ 0 → nullW "realm_str" (m_msg_reset a b c d).writes = true) ∧
      (c ≠ 0 → nullW "data" (m_msg_reset a b c d).writes = true) := by
    intro a b c d
    -- make the write list closed: decide `realm_str`/`data` NULL or not, then the remaining branches
    rcases Decidable.em (a = 0) with rfl | ha <;> rcases Decidable.em (c = 0) with rfl | hc <;>
      unfold m_msg_reset <;>
      (try simp only [*, ne_eq, eq_self, not_true_eq_false, not_false_eq_true, ite_true, ite_false, if_true,
        if_false, ite_self]) <;>
      (repeat' split) <;>
      (refine ⟨by decide, by decide, ?_, ?_⟩ <;> first | (intro _; decide) | (intro h; exact absurd rfl h))
  unfold reset
  obtain ⟨h1, h2, h3, h4⟩ := key (ptrVal m "realm_str") (m.int "realm_is_copy") (ptrVal m "data") (m.int "data_is_copy")
  refine ⟨fun f hf => by rw [reset_int, h1 f hf]; rfl, fun f hf => by rw [reset_int, h2 f hf]; rfl, ?_, ?_⟩
  · rw [reset_buf]
    cases hb : m.buf "realm_str" with
    | none => split <;> rfl
    | some v => rw [h3 (by simp [ptrVal, hb])]; rfl
  · rw [reset_buf]
    cases hb : m.buf "data" with
    | none => split <;> rfl
    | some v => rw [h4 (by simp [ptrVal, hb])]; rfl

/-! ### non-vacuity -/

/-- a DEC_REQ carrying two bytes -/
def demo : Msg := (Msg.fresh.setInt "data_len" 2).setBuf "data" (some [65, 66])

instance (m : Msg) (fld : Fld) : Decidable (fldOk m fld) := by
  cases fld <;> simp only [fldOk] <;> infer_instance
instance (m : Msg) (fld : Fld) : Decidable (ufldOk m fld) := by
  cases fld <;> simp only [ufldOk] <;> infer_instance

example : WellFormed MUNGE_MSG_DEC_REQ (withLocals demo) :=
  ⟨_, _, rfl, rfl, by decide, by decide, by decide, by decide⟩
example : length MUNGE_MSG_DEC_REQ demo = 6 ∧
    (pack MUNGE_MSG_DEC_REQ demo 6).2.2 = [0, 0, 0, 2, 65, 66] := by decide
example : (unpack (fun _ => true) MUNGE_MSG_DEC_REQ Msg.fresh [0, 0, 0, 2, 65, 66, 99] 7).1 = EMUNGE_SUCCESS ∧
    (unpack (fun _ => true) MUNGE_MSG_DEC_REQ Msg.fresh [0, 0, 0, 2, 65, 66, 99] 7).2.m.buf "data" = some [65, 66] := by
  decide
/-- a length the packet cannot satisfy is an error, a length ≥ 2^31 is refused before any allocation -/
example : (unpack (fun _ => true) MUNGE_MSG_DEC_REQ Msg.fresh [0, 0, 0, 3, 65, 66] 6).1 = EMUNGE_SNAFU ∧
    (unpack (fun _ => true) MUNGE_MSG_DEC_REQ Msg.fresh [128, 0, 0, 0, 65] 5).1 = EMUNGE_NO_MEMORY ∧
    (unpack (fun _ => true) MUNGE_MSG_DEC_REQ Msg.fresh [128, 0, 0, 0, 65] 5).2.allocs = [] := by decide
/-- the `guarded` predicate has teeth: a chain that copies `addr_len` bytes into the 4-byte `addr`
    without a test is rejected, and the interpreter then really leaves the destination (F2) -/
example : guarded [.int "addr_len" 1, .bytes "addr" "addr_len" (.fixed 4)] = false ∧
    guarded [.int "addr_len" 1, .guard "addr_len" .gt 4, .bytes "addr" "addr_len" (.fixed 4)] = true ∧
    (urun (fun _ => true) [5, 1, 2, 3, 4, 5] 6 [.int "addr_len" 1, .bytes "addr" "addr_len" (.fixed 4)]
      (USt.init Msg.fresh)).2.oob 6 = true := by decide
/-- the receive gate fires on a valid header that declares one byte too many -/
example : (recv (fun _ => true) Msg.fresh MUNGE_MSG_UNDEF 16 [0, 96, 109, 75, 4, 4, 0, 0, 0, 0, 17, 1, 2, 3]).rc
    = EMUNGE_BAD_LENGTH := by decide

end Munge.C14
