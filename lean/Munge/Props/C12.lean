import Munge.Model.Work
import Munge.Lemmas.Work
/-
C12 — accepted work is done exactly once; "wait for backlog" returns only when idle; a graceful stop drains the
queue before any worker is cancelled; no interleaving deadlocks or loses a wake-up.

Property theorems only (helper lemmas: `Munge/Lemmas/Work.lean`).  The model is the transition system of
`Munge/Model/Work.lean` (atomic steps = the mutex-protected sections of `src/munged/work.c`), for any number
`n ≥ 1` of workers, any number of items, and every interleaving (`Reachable` quantifies over all step sequences).
Everything below is about `genParams`, i.e. the wait/signal predicates, idle test, wait guard and event order that
`tools/gen/g_work.py` extracts from `work.c` and `job.c` on every run: an edit of those changes the statements.

Finding F3 (DESIGN §6): with `while (n_working != 0 && work_head != NULL)` in `work_wait`/`work_fini` the obligations
`waitPred_work_wait`, `waitPred_work_fini`, `waitPred_negates_signalPred` fail, and with them `wait_returns_idle`,
`drain` and `waiter_not_forgotten` (each re-derives the predicate facts it needs, so it fails itself); the theorems
that do not depend on the wait predicates (`exactly_once`, `no_lost_wakeup`, `progress`, …) still check.
-/
namespace Munge.C12
open Munge.Work Munge.Gen.Work

/-- discharges a specification of a generated predicate: case split on "queue non-empty", then arithmetic -/
macro "work_pred" : tactic =>
  `(tactic| (intro N n q hn; cases q <;>
      simp [genParams, waitPredWait, waitPredFini, signalPred, recvWaitPred, idleTest] <;> omega))

/-- builds `Sound True genParams` from scratch (so that a theorem using it fails itself when a generated predicate is
    not what it must be) -/
macro "gen_sound_tac" : tactic =>
  `(tactic| exact
      { recv := by intro N n q; cases q <;> simp [genParams, recvWaitPred]
        idle := by intro N n q hn; cases q <;> simp [genParams, idleTest] <;> omega
        masked := by decide
        waitW := fun _ => by work_pred
        waitF := fun _ => by work_pred
        signal := fun _ => by work_pred
        finiWaits := fun _ => by decide })

/-! ### obligations on the generated predicates and event order -/

/-- `work_wait` waits exactly while something is queued or in progress (`n_working` is never negative) -/
theorem waitPred_work_wait :
    ∀ (N n : Int) (q : Bool), 0 ≤ n → (waitPredWait N n q = true ↔ ¬ (n = 0 ∧ q = false)) := by
  work_pred

/-- the waiting phase of `work_fini` waits exactly while something is queued or in progress -/
theorem waitPred_work_fini :
    ∀ (N n : Int) (q : Bool), 0 ≤ n → (waitPredFini N n q = true ↔ ¬ (n = 0 ∧ q = false)) := by
  work_pred

/-- a worker signals `finished_work` whenever nothing is queued and nothing is in progress (what `drain` and
    `waiter_not_forgotten` need; additional signals would be harmless, the waiter re-tests its condition) -/
theorem signalPred_idle :
    ∀ (N n : Int) (q : Bool), 0 ≤ n → (n = 0 ∧ q = false) → signalPred N n q = true := by
  work_pred

/-- … and only then: the signal condition is exactly "idle" -/
theorem signalPred_exact :
    ∀ (N n : Int) (q : Bool), 0 ≤ n → (signalPred N n q = true ↔ (n = 0 ∧ q = false)) := by
  work_pred

/-- both wait loops wait for exactly the negation of the condition under which the signal is sent -/
theorem waitPred_negates_signalPred (N n : Int) (q : Bool) (hn : 0 ≤ n) :
    waitPredWait N n q = !signalPred N n q ∧ waitPredFini N n q = !signalPred N n q := by
  have h1 := waitPred_work_wait N n q hn
  have h2 := waitPred_work_fini N n q hn
  have h3 := signalPred_exact N n q hn
  cases hs : signalPred N n q <;> cases hw : waitPredWait N n q <;> cases hf : waitPredFini N n q <;> simp_all

/-- a worker blocks on `received_work` exactly while the queue is empty -/
theorem recvWait_spec : RecvOk genParams := by
  intro N n q; cases q <;> simp [genParams, recvWaitPred]

/-- `work_queue` signals `received_work` whenever some worker is not busy -/
theorem idleTest_spec : ∀ (N n : Int) (q : Bool), 0 ≤ n → n < N → genParams.idle N n q = true := by
  work_pred

/-- the cancel-disable bracket: `work_func` is called only with cancellation disabled, and every iteration ends with
    cancellation enabled again (so the worker stays cancellable at `pthread_testcancel` / `pthread_cond_wait`) -/
theorem cancel_bracket :
    maskedOf execLoop = true ∧ endsEnabled execLoop = true := by
  decide

/-- atomicity certificate: in `_work_exec`, `work_queue`, `work_wait`, `work_fini` every access to the shared state and
    every condition wait happens with the mutex held, `work_func` / `pthread_cancel` / `pthread_join` with the mutex free;
    the worker loop starts and ends each iteration holding the mutex, the cleanup handler releases it, and the
    state-changing events of an iteration come in the order the model's `wrk` step executes them -/
theorem atomic_sections :
    lockScan false execPre = some true ∧ execPre.contains .cleanupPush = true ∧
    lockScan true execLoop = some true ∧
    lockScan true cleanupEvents = some false ∧
    lockScan false queueEvents = some false ∧ lockScan false waitEvents = some false ∧
    lockScan false finiEvents = some false ∧
    semanticOrder execLoop = [.waitRecv, .dequeue, .incWorking, .call, .decWorking, .signalFinished] ∧
    finiEvents = [.lock, .setFini, .waitFinished, .unlock, .cancel, .join] := by
  decide

/-- the stop path of `job_accept` is `work_fini (w, 1)`, and `work_fini (wp, 1)` does enter the wait loop -/
theorem graceful_stop_waits : jobStopDoWait = true ∧ finiWaits true = true := by
  decide

/-- the generated parameters satisfy the part of `Sound` that does not concern the wait/signal predicates -/
theorem gen_sound_base : Sound False genParams :=
  { recv := recvWait_spec, idle := idleTest_spec, masked := cancel_bracket.1,
    waitW := False.elim, waitF := False.elim, signal := False.elim, finiWaits := False.elim }

/-! ### exactly once -/

/-- run a list of actions from the initial state -/
def run (n : Nat) (as : List Act) : Option State :=
  as.foldlM (step genParams) (init n)


/-- In every reachable state (any `n ≥ 1`, any step sequence): the accepted items are pairwise distinct and are,
    as a multiset, exactly the queued ones plus the ones held by workers plus the finished ones (nothing is lost,
    nothing is duplicated); the dequeue log contains every held or finished item exactly once, i.e. each item is
    dequeued once, by one worker; a worker holding an item is the one that dequeued it; `n_working` counts the
    holders; and no worker ever calls `work_func (NULL)`. -/
theorem exactly_once {n : Nat} {s : State} (hr : Reachable genParams n s) :
    s.accepted.Nodup ∧
    s.accepted.Perm (s.queue ++ held s.w ++ s.done) ∧
    s.lost = [] ∧
    (s.taken.map Prod.snd).Nodup ∧
    (s.taken.map Prod.snd).Perm (held s.w ++ s.done) ∧
    (∀ (k i : Nat), s.w[k]? = some (WPc.working i) → (k, i) ∈ s.taken) ∧
    s.nWorking = (held s.w).length ∧
    (∀ k : Nat, s.w[k]? ≠ some WPc.crashed) := by
  have h := reachable_invA recvWait_spec hr
  have hl : s.lost = [] := h.lostm cancel_bracket.1
  have hc := h.cons
  have ht := h.tak
  have hcnt := h.cnt
  simp only [hl, List.count_nil, Nat.add_zero, List.length_nil] at hc ht hcnt
  refine ⟨List.nodup_iff_count.mpr h.nodup, ?_, hl, ?_, ?_, h.own, by simpa using hcnt, h.nocrash⟩
  · exact List.perm_iff_count.mpr (fun x => by simp only [List.count_append]; rw [hc x])
  · refine List.nodup_iff_count.mpr (fun x => ?_)
    have := h.nodup x; have := hc x; have := ht x; omega
  · exact List.perm_iff_count.mpr (fun x => by simp only [List.count_append]; rw [ht x])

/-! ### "wait for backlog" returns only when idle -/

/-- Whenever `work_wait` returns, or the waiting phase of `work_fini (wp, 1)` is left — on the first test of the
    loop condition or after any (also spurious) wake-up — nothing is queued and nothing is in progress. -/
theorem wait_returns_idle {n : Nat} {s s' : State} {a : Act} (hr : Reachable genParams n s)
    (hs : step genParams s a = some s')
    (ha : a = .waitCall ∨ a = .fini true ∨ a = .mainWake)
    (hleft : ∀ b wk, s'.main ≠ .waitFin b wk) :
    s'.queue = [] ∧ s'.nWorking = 0 ∧ ∀ (k i : Nat), s'.w[k]? ≠ some (WPc.working i) := by
  have waitPred_work_wait : ∀ (N n : Int) (q : Bool), 0 ≤ n → (genParams.waitW N n q = true ↔ ¬ (n = 0 ∧ q = false)) := by
    work_pred
  have waitPred_work_fini : ∀ (N n : Int) (q : Bool), 0 ≤ n → (genParams.waitF N n q = true ↔ ¬ (n = 0 ∧ q = false)) := by
    work_pred
  have hnn : 0 ≤ s.nWorking := IA.nWorking_nonneg (reachable_invA recvWait_spec hr)
  have hidle : s'.queue = [] ∧ s'.nWorking = 0 := by
    have key : ∀ (p : Int → Int → Bool → Bool), (∀ N n q, 0 ≤ n → (p N n q = true ↔ ¬ (n = 0 ∧ q = false))) →
        ¬ p s.nWorkers s.nWorking s.qne = true → s.queue = [] ∧ s.nWorking = 0 := by
      intro p hp hn
      have := Classical.not_not.mp (fun hc => hn ((hp _ _ _ hnn).mpr hc))
      simp [State.qne] at this
      exact ⟨this.2, this.1⟩
    rcases ha with rfl | rfl | rfl
    · simp only [step] at hs
      split at hs
      · simp at hs; subst hs
        split at hleft
        · exact absurd rfl (hleft false false)
        · next hp => split; · contradiction
                     · exact key _ waitPred_work_wait hp
      · simp at hs
    · simp only [step] at hs
      split at hs
      · simp at hs; subst hs
        split at hleft
        · exact absurd rfl (hleft true false)
        · next hp =>
          split; · contradiction
          · have : ¬ genParams.waitF s.nWorkers s.nWorking s.qne = true := by
              intro hc; exact hp ⟨graceful_stop_waits.2, hc⟩
            exact key _ waitPred_work_fini this
      · simp at hs
    · simp only [step] at hs
      split at hs
      · next b wk hm =>
        simp at hs; subst hs
        have hpspec : ∀ N n q, 0 ≤ n → ((if b = true then genParams.waitF else genParams.waitW) N n q = true ↔
            ¬ (n = 0 ∧ q = false)) := by
          cases b
          · exact waitPred_work_wait
          · exact waitPred_work_fini
        generalize (if b = true then genParams.waitF else genParams.waitW) = p at hpspec hleft ⊢
        split at hleft
        · exact absurd rfl (hleft b false)
        · next hp =>
          split; · contradiction
          · exact key p hpspec hp
      · simp at hs
  have hA := reachable_invA recvWait_spec (Reachable.step a hr hs)
  refine ⟨hidle.1, hidle.2, ?_⟩
  intro k i hk
  have := IA.nWorking_pos hA hk
  omega

/- non-vacuity -/
/-- `work_wait` with one item in progress blocks (the hypothesis of `wait_returns_idle` is not vacuous) and returns
    after the worker's signal -/
example :
    (run 1 [.enq 5, .sig 0, .wrk 0, .waitCall]).map (·.main) = some (.waitFin false false) ∧
    (run 1 [.enq 5, .sig 0, .wrk 0, .waitCall, .wrk 0, .mainWake]).map (fun s => (s.main, s.queue, s.nWorking)) =
      some (.accepting, [], 0) := by decide

/-! ### a graceful stop drains -/

/-- all hypotheses on the generated parameters, including the wait/signal predicates -/
theorem gen_sound : Sound True genParams := by
  gen_sound_tac

/-- Once `work_fini (wp, 1)` — the call `job_accept` makes on SIGTERM/SIGINT, see `graceful_stop_waits` — is at or past
    its first `pthread_cancel`, every accepted item has been finished: nothing is queued, nothing is in progress,
    nothing was lost to cancellation, and the finished items are exactly the accepted ones, each once.  (Nothing can
    be accepted after `got_fini` is set: the stopping thread is the accepting thread.) -/
theorem drain {n : Nat} (hn : 0 < n) {s : State} (hr : Reachable genParams n s)
    (hfini : s.finiArg = true) (hpast : s.main.postWait = true) :
    s.queue = [] ∧ s.nWorking = 0 ∧ (∀ (k i : Nat), s.w[k]? ≠ some (WPc.working i)) ∧ s.lost = [] ∧
    s.done.Perm s.accepted ∧ s.done.Nodup := by
  have hS : Sound True genParams := by gen_sound_tac
  obtain ⟨hA, hB⟩ := reachable_inv hn hS hr
  obtain ⟨hq, hw⟩ := hB.b7 trivial hfini hpast
  have hl : s.lost = [] := hA.lostm cancel_bracket.1
  have hheld : held s.w = [] := by
    have := hA.cnt
    simp only [hl, hw, List.length_nil] at this
    exact List.eq_nil_of_length_eq_zero (by omega)
  have hc := hA.cons
  simp only [hl, hq, hheld, List.count_nil, Nat.add_zero, Nat.zero_add] at hc
  refine ⟨hq, hw, ?_, hl, List.perm_iff_count.mpr (fun x => (hc x).symm), ?_⟩
  · intro k i hk
    have := mem_held.mpr ⟨k, hk⟩
    simp [hheld] at this
  · exact List.nodup_iff_count.mpr (fun x => by rw [← hc x]; exact hA.nodup x)

/- non-vacuity -/
/-- 2 workers, 3 items, graceful stop arriving while two items are in progress and one is queued: the stop
    waits, the workers drain the queue, all three items are done exactly once, all workers are cancelled -/
example :
    (run 2 [.enq 10, .sig 0, .enq 11, .sig 0, .enq 12, .sig 0, .wrk 0, .wrk 1, .fini true,
            .wrk 0, .wrk 1, .wrk 0, .mainWake, .cancelOne, .cancelOne, .wrk 0, .wrk 1, .join]).map
      (fun s => (s.main, s.queue, s.done, s.lost, s.w)) =
    some (.finished, [], [10, 11, 12], [], [.cancelled, .cancelled]) := by decide

/-- an immediate stop without waiting (`work_fini (wp, 0)`) leaves the queue untouched: `drain` really needs `do_wait` -/
example :
    (run 1 [.wrk 0, .enq 5, .sig 0, .fini false, .cancelOne, .wrk 0, .join]).map (fun s => (s.main, s.queue, s.done)) =
      some (.finished, [5], []) := by decide

/-- Whatever the argument of `work_fini`: no item held by a worker is lost to cancellation — when `work_fini` has
    returned every accepted item is either finished or still in the queue (never started). -/
theorem no_item_lost {n : Nat} (hn : 0 < n) {s : State} (hr : Reachable genParams n s) (hfin : s.main = .finished) :
    s.accepted.Perm (s.queue ++ s.done) ∧ s.lost = [] := by
  obtain ⟨hA, hB⟩ := reachable_inv hn gen_sound_base hr
  have hl : s.lost = [] := hA.lostm cancel_bracket.1
  have hheld : held s.w = [] := by
    cases hh : held s.w with
    | nil => rfl
    | cons i t =>
      have : i ∈ held s.w := by simp [hh]
      obtain ⟨k, hk⟩ := mem_held.mp this
      have := hB.b4 hfin _ (List.mem_of_getElem? hk)
      simp at this
  have hc := hA.cons
  simp only [hl, hheld, List.count_nil, Nat.add_zero] at hc
  exact ⟨List.perm_iff_count.mpr (fun x => by simp only [List.count_append]; rw [hc x]), hl⟩

/-! ### no lost wake-up, no deadlock, termination measure -/

/-- Before the stop has left its wait: if the queue is non-empty then the acceptor is about to signal, or some
    worker will run without needing a spurious wake-up (it has not blocked yet, a signal was delivered to it, or it
    is in `work_func`).  Does not depend on the wait/signal predicates of `work_wait`/`work_fini`. -/
theorem no_lost_wakeup {n : Nat} (hn : 0 < n) {s : State} (hr : Reachable genParams n s)
    (hpre : s.main.postWait = false) (hq : s.queue ≠ []) :
    s.main = .signalling ∨ ∃ (k : Nat) (pc : WPc), s.w[k]? = some pc ∧ pc.runnable = true :=
  (reachable_inv hn gen_sound_base hr).2.b5 hpre hq

/-- A thread blocked in `work_wait` / `work_fini` to which no signal has been delivered is not waiting in vain:
    something is still queued or in progress (so, by `progress`, a worker will get to send the signal). -/
theorem waiter_not_forgotten {n : Nat} (hn : 0 < n) {s : State} (hr : Reachable genParams n s) {b : Bool}
    (hw : s.main = .waitFin b false) : ¬ (s.nWorking = 0 ∧ s.queue = []) := by
  have hS : Sound True genParams := by gen_sound_tac
  exact (reachable_inv hn hS hr).2.b6 trivial b hw

/-- Deadlock freedom with a measure: before the stop has left its wait, while work remains (queued or in progress)
    the acceptor is about to signal or some runnable worker has an enabled step that strictly decreases
    `2 * queue.length + nWorking`. -/
theorem progress {n : Nat} (hn : 0 < n) {s : State} (hr : Reachable genParams n s)
    (hpre : s.main.postWait = false) (hwork : s.queue ≠ [] ∨ s.nWorking ≠ 0) :
    s.main = .signalling ∨
    ∃ (k : Nat) (pc : WPc) (s' : State), s.w[k]? = some pc ∧ pc.runnable = true ∧
      step genParams s (.wrk k) = some s' ∧ measure s' < measure s := by
  obtain ⟨hA, hB⟩ := reachable_inv hn gen_sound_base hr
  by_cases hnw : s.nWorking = 0
  · have hq : s.queue ≠ [] := by rcases hwork with h | h; exact h; exact absurd hnw h
    rcases hB.b5 hpre hq with h | ⟨k, pc, hk, hrun⟩
    · exact Or.inl h
    · obtain ⟨s', h1, h2⟩ := wrk_productive recvWait_spec hpre hk hrun (Or.inr hq)
      exact Or.inr ⟨k, pc, s', hk, hrun, h1, h2⟩
  · right
    have hl : s.lost = [] := hA.lostm cancel_bracket.1
    have hcnt := hA.cnt
    simp only [hl, List.length_nil] at hcnt
    have : 0 < (held s.w).length := by omega
    obtain ⟨i, hi⟩ := List.exists_mem_of_length_pos this
    obtain ⟨k, hk⟩ := mem_held.mp hi
    obtain ⟨s', h1, h2⟩ := wrk_productive recvWait_spec hpre hk rfl (Or.inl rfl)
    exact ⟨k, _, s', hk, rfl, h1, h2⟩

/-- `2 * queue.length + nWorking` is a variant of the worker steps: every worker step strictly decreases it, or
    changes neither the queue, nor `nWorking`, nor the finished items (a fruitless wake-up, or the worker exiting). -/
theorem worker_variant {s s' : State} {k : Nat} (hs : step genParams s (.wrk k) = some s') :
    measure s' < measure s ∨ (s'.queue = s.queue ∧ s'.nWorking = s.nWorking ∧ s'.done = s.done) :=
  wrkStep_var recvWait_spec hs

/-- The stop itself does not hang: while `work_fini` is joining, either all workers have exited (the join completes)
    or some worker that has not exited has an enabled step. -/
theorem stop_not_stuck {n : Nat} {s : State} (hr : Reachable genParams n s) (hj : s.main = .joining) :
    (∃ s', step genParams s .join = some s') ∨
    ∃ (k : Nat) (s' : State), s.w[k]? ≠ some WPc.cancelled ∧ step genParams s (.wrk k) = some s' := by
  have hA := reachable_invA recvWait_spec hr
  by_cases hall : s.w.all (· == .cancelled) = true
  · left
    simp only [step]
    rw [if_pos ⟨hj, hall⟩]
    exact ⟨_, rfl⟩
  · right
    simp only [List.all_eq_true, beq_iff_eq] at hall
    have ⟨pc, hpc, hne⟩ : ∃ pc, pc ∈ s.w ∧ pc ≠ .cancelled := by
      apply Classical.byContradiction; intro hc; apply hall; intro x hx
      apply Classical.byContradiction; intro hx'; exact hc ⟨x, hx, hx'⟩
    obtain ⟨k, hk, rfl⟩ := List.mem_iff_getElem.mp hpc
    have hk' : s.w[k]? = some s.w[k] := List.getElem?_eq_getElem hk
    have hne' : s.w[k]? ≠ some WPc.cancelled := by rw [hk']; simpa using hne
    refine ⟨k, ?_⟩
    simp only [step, wrkStep, hk']
    cases hpc' : s.w[k] with
    | starting => exact ⟨_, by simp, rfl⟩
    | waitRecv b => exact ⟨_, by simp, rfl⟩
    | working i =>
      simp only []
      split
      · exact ⟨_, by simp, rfl⟩
      · exact ⟨_, by simp, rfl⟩
    | cancelled => exact absurd hpc' hne
    | crashed => exact absurd (hk'.trans (by rw [hpc'])) (hA.nocrash k)

end Munge.C12
