import Munge.Gen.ReplayIns
/-!
# C05 / C07 (what the replay cache records): `replay_insert` as translated from replay.c
-/
namespace Munge.C05Insert
open Munge.C Munge.Gen.ReplayIns

/-- **The replay record of a credential is its first 16 MAC bytes and the second it stops being valid**: with the cache in
    place, a record is allocated, given `t_expired = (time0 + ttl) mod 2^32` - the encode time plus the (already capped)
    lifetime, in the 32-bit arithmetic of the credential's fields - and 16 bytes copied from the credential's MAC, and then
    offered to the hash exactly once. -/
theorem record_is_mac_and_expiry (rh gb cp rp t0 ttl ei rhi : Int) (h : rh ≠ 0 ∧ cp ≠ 0 ∧ rp ≠ 0) :
    let o := replay_insert rh gb cp rp t0 ttl ei rhi
    o.get "r.data.t_expired" (-1) = (t0 + ttl) % 4294967296 ∧
    o.events.take 3 = [("replay_alloc", []), ("copy:r.data.mac<-c.mac", [16]), ("hash_insert", [])] ∧
    o.count "hash_insert" = 1 := by
  obtain ⟨h1, h2, h3⟩ := h
  dsimp only
  unfold replay_insert
  by_cases a : rhi ≠ 0
  · simp [h1, h2, h3, a, KOut.get, KOut.written, KOut.count, wrapU32]
  · by_cases b : ei = 17
    · simp [h1, h2, h3, a, b, KOut.get, KOut.written, KOut.count, wrapU32]
    · by_cases c : ei = 22 <;> simp [h1, h2, h3, a, b, c, KOut.get, KOut.written, KOut.count, wrapU32]

/-- **Its three answers**: 0 = recorded (the hash took the record, which is NOT freed), 1 = a record with this key is already
    there (`EEXIST`; the new record is freed), -1 = failure (record freed); nothing else. -/
theorem insert_answers (rh gb cp rp t0 ttl ei rhi : Int) (h : rh ≠ 0 ∧ cp ≠ 0 ∧ rp ≠ 0) :
    let o := replay_insert rh gb cp rp t0 ttl ei rhi
    (rhi ≠ 0 → o.ret = 0 ∧ o.count "replay_free" = 0) ∧
    (rhi = 0 → ei = 17 → o.ret = 1 ∧ o.count "replay_free" = 1) ∧
    (rhi = 0 → ei ≠ 17 → o.ret = -1 ∧ o.count "replay_free" = 1) := by
  obtain ⟨h1, h2, h3⟩ := h
  dsimp only
  unfold replay_insert
  refine ⟨?_, ?_, ?_⟩
  · intro a; simp [h1, h2, h3, a, KOut.count]
  · intro a b; simp [h1, h2, h3, a, b, KOut.count]
  · intro a b
    by_cases c : ei = 22 <;> simp [h1, h2, h3, a, b, c, KOut.count]

/-- without a cache (benchmark mode) nothing is recorded and the caller is told "inserted"; without a cache otherwise, an error -/
theorem no_cache (gb cp rp t0 ttl ei rhi : Int) :
    (gb ≠ 0 → replay_insert 0 gb cp rp t0 ttl ei rhi = { ret := 0, writes := [], events := [] }) ∧
    (gb = 0 → (replay_insert 0 gb cp rp t0 ttl ei rhi).ret = -1 ∧ (replay_insert 0 gb cp rp t0 ttl ei rhi).events = []) := by
  unfold replay_insert
  constructor
  · intro a; simp [a]
  · intro a; simp [a]

/-- **The roll-back rebuilds exactly the key the insertion stored** (C13's "a reply that could not be delivered withdraws the
    record"): `replay_remove` looks up `(first 16 MAC bytes, (time0 + ttl) mod 2^32)` - the same expiry expression and the same
    16-byte copy from the credential's MAC as `replay_insert` - once, and frees the record exactly when one was found. -/
theorem remove_rebuilds_the_insert_key (rh gb cp rp t0 ttl ei rhi rhr : Int) (h : rh ≠ 0 ∧ cp ≠ 0 ∧ rp ≠ 0) :
    (replay_remove rh gb cp t0 ttl rhr).get "rnode.data.t_expired" (-1) = (replay_insert rh gb cp rp t0 ttl ei rhi).get "r.data.t_expired" (-2) ∧
    (replay_remove rh gb cp t0 ttl rhr).events.take 2 = [("copy:rnode.data.mac<-c.mac", [16]), ("hash_remove", [])] ∧
    ((replay_remove rh gb cp t0 ttl rhr).ret = if rhr ≠ 0 then 0 else -1) ∧
    ((replay_remove rh gb cp t0 ttl rhr).count "replay_free" = if rhr ≠ 0 then 1 else 0) := by
  have hi := (record_is_mac_and_expiry rh gb cp rp t0 ttl ei rhi h).1
  obtain ⟨h1, h2, h3⟩ := h
  have hi' : (replay_insert rh gb cp rp t0 ttl ei rhi).get "r.data.t_expired" (-2) = (t0 + ttl) % 4294967296 := by
    unfold replay_insert
    by_cases a : rhi ≠ 0
    · simp [h1, h2, h3, a, KOut.get, KOut.written, wrapU32]
    · by_cases b : ei = 17
      · simp [h1, h2, h3, a, b, KOut.get, KOut.written, wrapU32]
      · by_cases c : ei = 22 <;> simp [h1, h2, h3, a, b, c, KOut.get, KOut.written, wrapU32]
  rw [hi']
  unfold replay_remove
  by_cases a : rhr ≠ 0 <;> simp [h1, h2, a, KOut.get, KOut.written, KOut.count, wrapU32]

example : (replay_insert 1 0 1 1 1000000 300 0 1).get "r.data.t_expired" (-1) = 1000300 := by decide
example : (replay_insert 1 0 1 1 4294967295 300 0 1).get "r.data.t_expired" (-1) = 299 := by decide

end Munge.C05Insert
