import Munge.Model.Cred
import Munge.Lemmas.ConfReads
import Munge.Lemmas.CredC
/-
C03 — credential identity is the kernel-attested identity of the requester.
In the model the peer identity (`Env.peer`, the result of SO_PEERCRED via `auth_recv`) is a parameter
distinct from the request bytes.  The theorems say that nothing in a request can set or influence the
UID/GID written into a credential or used for the authorisation decision.
-/
namespace Munge.C03
open Munge.Cred Munge.Cred.C Munge.Gen.Dec

/-- Whatever bytes a client sends as an encode or decode request — any field of any well-formed or
    crafted message — the received message has no client/credential identity set: the wire format has no
    such field. -/
theorem request_carries_no_identity (req : Bytes) :
    (∀ m, recvMsg req = .enc m → m.clientUid = 0 ∧ m.clientGid = 0 ∧ m.credUid = 0 ∧ m.credGid = 0) ∧
    (∀ m, recvMsg req = .dec m → m.clientUid = 0 ∧ m.clientGid = 0 ∧ m.credUid = 0 ∧ m.credGid = 0) := by
  constructor <;> intro m h <;> unfold recvMsg at h <;> dsimp only at h <;> (repeat' split at h) <;>
  first
  | contradiction
  | (cases h <;> simp)
  | (unfold recvHdrBody at h; dsimp only at h; (repeat' split at h) <;> first | contradiction | (cases h <;> simp))

/-- the inner layer of the credential built for request `m` under environment `env`, before compression
    and encryption, and the offset at which the 32-bit UID and GID sit in it (salt, addr_len, addr,
    time0, ttl precede them) -/
def idOffset : Nat := MUNGE_CRED_SALT_LEN.toNat + 1 + 4 + 4 + 4

/-- The UID and GID packed into the credential are exactly the peer's, for EVERY request: the inner layer
    carries `be32 uid ‖ be32 gid` at the documented offset, whatever the request contains. -/
theorem cred_identity_is_peer (cf : Conf) (m : Msg) (salt : Bytes) (uid gid : Nat)
    (hs : salt.length = MUNGE_CRED_SALT_LEN.toNat) (ha : cf.addr.length ≥ 4) :
    ((packInner cf { m with clientUid := uid, clientGid := gid, addrLen := 4 } salt).drop idOffset).take 8 = be32 uid ++ be32 gid := by
  have hs' : salt.length = 8 := hs
  have e : packInner cf { m with clientUid := uid, clientGid := gid, addrLen := 4 } salt =
      (salt ++ [4] ++ cf.addr.take 4 ++ be32 m.time0 ++ be32 m.ttl) ++ ((be32 uid ++ be32 gid) ++
        (be32 m.authUid ++ be32 m.authGid ++ be32 m.dataLen ++ m.data.take m.dataLen)) := by
    simp [packInner]
  have hl : (salt ++ [4] ++ cf.addr.take 4 ++ be32 m.time0 ++ be32 m.ttl).length = idOffset := by
    simp [idOffset, MUNGE_CRED_SALT_LEN, hs']; omega
  rw [e, ← hl, List.drop_left]
  have : (be32 uid ++ be32 gid).length = 8 := by simp
  rw [← this, List.take_left]

/-- `encProcess` packs the inner layer from the message whose client identity was just set from the
    peer: after a successful encode the message's client identity IS the peer's, independent of the request. -/
theorem encode_identity_from_peer (P : Prims) (cf : Conf) (env : Env) (m : Msg) (uid gid : Nat)
    (hp : env.peer = some (uid, gid)) (hok : (encProcess P cf env m).2 = 0) :
    (encProcess P cf env m).1.clientUid = uid ∧ (encProcess P cf env m).1.clientGid = gid := by
  unfold encProcess at hok ⊢
  simp only [hp] at hok ⊢
  split at hok
  · simp at hok
  · rename_i h1
    simp only [h1, if_false] at ⊢
    split at hok
    · simp at hok
    · rename_i h2
      simp only [h2, if_false] at ⊢
      split at hok
      · simp at hok
      · rename_i h3
        simp only [h3, if_false] at ⊢
        constructor <;> simp only [apply_ite Msg.clientUid, apply_ite Msg.clientGid, ite_self]

/-- NON-INTERFERENCE.  Two requests that differ only in identity-looking fields of the message record
    (the fields a crafted request might hope to smuggle in) get THE SAME reply bytes — same credential,
    same error — under the same environment: the reply is a function of the peer, never of those fields. -/
theorem request_identity_fields_ignored (P : Prims) (cf : Conf) (env : Env) (m : Msg) (a b c d a' b' c' d' : Nat) :
    let r1 := encProcess P cf env { m with clientUid := a, clientGid := b, credUid := c, credGid := d }
    let r2 := encProcess P cf env { m with clientUid := a', clientGid := b', credUid := c', credGid := d' }
    encRsp r1.1 = encRsp r2.1 ∧ r1.2 = r2.2 := by
  intro r1 r2
  have h1 := encProcess_withId P cf env m a b c d
  have h2 := encProcess_withId P cf env m a' b' c' d'
  exact ⟨h1.1.trans h2.1.symm, h1.2.trans h2.2.symm⟩

/-- … while changing the peer changes the identity in the credential accordingly (and nothing else of
    the inner layer): the packed inner layers for two peers differ exactly in the 8 identity bytes. -/
theorem peer_determines_identity (cf : Conf) (m : Msg) (salt : Bytes) (u1 g1 u2 g2 : Nat)
    (hs : salt.length = MUNGE_CRED_SALT_LEN.toNat) (ha : cf.addr.length ≥ 4) :
    let i1 := packInner cf { m with clientUid := u1, clientGid := g1, addrLen := 4 } salt
    let i2 := packInner cf { m with clientUid := u2, clientGid := g2, addrLen := 4 } salt
    i1.take idOffset = i2.take idOffset ∧ i1.drop (idOffset + 8) = i2.drop (idOffset + 8) := by
  have hs' : salt.length = 8 := hs
  have e : ∀ uid gid, packInner cf { m with clientUid := uid, clientGid := gid, addrLen := 4 } salt =
      (salt ++ [4] ++ cf.addr.take 4 ++ be32 m.time0 ++ be32 m.ttl) ++ ((be32 uid ++ be32 gid) ++
        (be32 m.authUid ++ be32 m.authGid ++ be32 m.dataLen ++ m.data.take m.dataLen)) := by
    intro uid gid; simp [packInner]
  have hl : (salt ++ [4] ++ cf.addr.take 4 ++ be32 m.time0 ++ be32 m.ttl).length = idOffset := by
    simp [idOffset, MUNGE_CRED_SALT_LEN, hs']; omega
  have h8 : ∀ uid gid, (be32 uid ++ be32 gid).length = 8 := by intro _ _; simp
  intro i1 i2
  simp only [i1, i2, e]
  constructor
  · rw [← hl, List.take_left, List.take_left]
  · rw [← List.drop_drop, ← List.drop_drop, ← hl, List.drop_left, List.drop_left,
      ← h8 u1 g1, List.drop_left, h8 u1 g1, ← h8 u2 g2, List.drop_left]

/-- Without an attested identity there is no credential: if the kernel query fails the encode fails. -/
theorem no_peer_no_credential (P : Prims) (cf : Conf) (env : Env) (m : Msg) (hp : env.peer = none) :
    (encProcess P cf env m).2 ≠ 0 := by
  unfold encProcess
  simp only [hp]
  split <;> simp

/-- The identity used for the decode authorisation is the peer's as well: whatever the decode request
    contains, the message that reaches the authorisation stage has its client identity set from
    `env.peer`, and the verdict is the authorisation kernel's on exactly that identity. -/
theorem decode_authorises_peer (P : Prims) (cf : Conf) (env : Env) (rs : ReplaySet) (m0 m1 : Msg) (s1 : Scratch)
    (uid gid : Nat) (hp : env.peer = some (uid, gid)) (hf : decFront P env rs m0 = .inr (m1, s1)) :
    m1.clientUid = uid ∧ m1.clientGid = gid := by
  obtain ⟨u, g, hp', h1, h2, _⟩ := decFront_inr P env rs m0 m1 s1 hf
  rw [hp] at hp'
  cases hp'
  exact ⟨h1, h2⟩

/-- … and the middle stages (decrypt, MAC, decompress, unpack) never touch it. -/
theorem mid_preserves_client_identity (P : Prims) (cf : Conf) (rs : ReplaySet) (m m' : Msg) (s s' : Scratch)
    (h : decMid P cf rs m s = .inr (m', s')) : m'.clientUid = m.clientUid ∧ m'.clientGid = m.clientGid := by
  exact decMid_inr P cf rs m m' s s' h

/-- the verdict: UNAUTHORIZED exactly when the kernel refuses the peer identity -/
theorem tail_verdict_is_kernel_on_client (cf : Conf) (env : Env) (rs : ReplaySet) (m : Msg) (s : Scratch)
    (he : m.errorNum = 0) :
    ((dec_validate_auth m.authUid m.authGid m.clientUid m.clientGid (b2int cf.gotRootAuth)
        (fun u g => b2int (env.member u.toNat g.toNat))).ret < 0 ↔
      (decTail cf env rs m s).msg.errorNum = EMUNGE_CRED_UNAUTHORIZED.toNat) := by
  obtain ⟨ha1, _⟩ := dec_validate_auth_err m.authUid m.authGid m.clientUid m.clientGid (b2int cf.gotRootAuth)
        (fun u g => b2int (env.member u.toNat g.toNat))
  unfold decTail
  dsimp only
  by_cases ha : (dec_validate_auth m.authUid m.authGid m.clientUid m.clientGid (b2int cf.gotRootAuth)
        (fun u g => b2int (env.member u.toNat g.toNat))).ret < 0
  · rw [if_pos ha]
    refine ⟨fun _ => ?_, fun _ => ha⟩
    show (setErr m _ _).errorNum = _
    rw [setErr_errorNum m _ _ he (by show (dec_validate_auth _ _ _ _ _ _).err ≠ 0; rw [ha1 ha]; decide)]
    show (dec_validate_auth _ _ _ _ _ _).err.toNat = _
    rw [ha1 ha]
    rfl
  · rw [if_neg ha]
    refine ⟨fun h => absurd h ha, fun h => ?_⟩
    exfalso
    revert h
    have hte := dec_validate_time_err (↑m.ttl) (↑m.time0) (↑m.time1) cf.maxTtl (b2int cf.gotClockSkew)
    generalize dec_validate_time (↑m.ttl) (↑m.time0) (↑m.time1) cf.maxTtl (b2int cf.gotClockSkew) = t at hte ⊢
    by_cases h1 : t.ret < 0
    · rw [if_pos h1]
      exact setErr_ne18 _ _ _ he (by omega)
    · rw [if_neg h1]
      have hre := fun a b c d e f => dec_validate_replay_err a b c d e f
      generalize hr : dec_validate_replay _ _ _ _ _ _ = rp
      have hre' : rp.err = 0 ∨ rp.err = 17 ∨ rp.err = 5 ∨ rp.err = 1 := by rw [← hr]; exact hre _ _ _ _ _ _
      by_cases h2 : rp.ret < 0
      · rw [if_pos h2]
        exact setErr_ne18 _ _ _ he (by omega)
      · rw [if_neg h2]
        show m.errorNum = 18 → False
        omega

/-- The pipeline's source files consult exactly the configuration fields that the model's `Conf` carries (table regenerated
    from the source on every run): the theorems above, stated for every `cf`, cover every configuration switch that can
    influence the identity a credential carries.  A new `conf->…` dependence in enc.c / dec.c / cred.c / m_msg.c breaks this. -/
theorem conf_fields_as_modelled : Munge.Gen.Dec.confReads = Munge.Cred.confAsModelled :=
  Munge.Cred.conf_reads_as_modelled

end Munge.C03
