import Munge.Model.Retry
import Munge.Lemmas.Retry
import Munge.Props.C01
import Munge.Model.ToyPrims
import Munge.Lemmas.ToyLaws
/-
C13 — broken connections are retried safely and never burn a credential.

Theorems about `Munge/Model/Retry.lean`: the loop of `m_msg_client_xfer` (its shape — initial counter, which
failures are retried, exit tests, retry byte, counter update — regenerated from src/libmunge/m_msg_client.c
into `Munge.Gen.Retry` on every run) driving, per attempt, the daemon's request path of `Munge/Model/Cred.lean`
(kernels `dec_check_retry`, `enc_check_retry`, `dec_validate_replay`, orchestration `dec_process_msg`
regenerated from src/munged/{dec,enc}.c into `Munge.Gen.Dec`).  A fault schedule lists, per attempt, how the
connection breaks: `q n` (after `n` request bytes reached the daemon), `f` (the daemon's reply cannot be
sent), `p n` (the client receives `n` bytes of a reply the daemon sent completely), `ok`.  Offsets are
arbitrary naturals (clamped to a strict prefix), so "for every schedule" is "at any byte of the request or of
the reply".  Generic in the primitives under `PrimLaws` exactly where C01 is.

The numbers 4 and 5 below are the property's ("up to four times in succession"; the fifth fault is a socket
error): the proofs obtain them from the generated exit test `i >= MUNGE_SOCKET_RETRY_ATTEMPTS`, the generated
initial value of `i` and the generated gates `retry > 5` / `retry <= 5` of the daemon.
-/
set_option linter.unusedVariables false
set_option linter.unusedSimpArgs false
namespace Munge.C13
open Munge.Cred Munge.Retry Munge.C Munge.Gen.Retry

/-! ### reception is all-or-nothing -/

/-- `m_msg_recv` yields a message only from a complete header + body.  For EVERY byte string `s` (daemon side)
    and every expected type (client side): if `s` is shorter than a header, or shorter than the header plus the
    body length that header declares, nothing is received — the daemon drops the connection without a reply and
    without touching its state, the client's call fails.  In particular every strict prefix of a well-framed
    packet is rejected on both sides.  This is what makes the three fault classes exhaustive: a break at any
    byte offset of the request is `q`, at any byte offset of the reply `f` or `p`. -/
theorem recv_all_or_nothing :
    (∀ s : Bytes, (s.length < 11 ∨ s.length < 11 + rd32 ((s.drop 7).take 4)) → ∃ w, recvMsg s = .drop w) ∧
    (∀ (expect : Nat) (s : Bytes), (s.length < 11 ∨ s.length < 11 + rd32 ((s.drop 7).take 4)) →
        ∃ e, clientRecv expect s = .error e) ∧
    (∀ (P : Prims) (cf : Conf) (env : Env) (rs : ReplaySet) (t r : Nat) (body : Bytes) (sendOk : Bool) (k : Nat),
        body.length ≤ 1048576 → k < (reqBytes t r body).length →
        daemon P cf env rs ((reqBytes t r body).take k) sendOk = (none, rs)) ∧
    (∀ (expect t r : Nat) (body : Bytes) (k : Nat), body.length < 4294967296 → k < (hdrBytes t r body.length ++ body).length →
        clientRecv expect ((hdrBytes t r body.length ++ body).take k) = .error EMUNGE_SOCKET) :=
  ⟨recvMsg_short, clientRecv_short,
   fun P cf env rs t r body s k hb hk => daemon_prefix P cf env rs t r body s hb k hk,
   fun expect t r body k hb hk => clientRecv_prefix expect t r body hb k hk⟩

/-! ### the retry byte -/

/-- The client never emits a retry byte above 4 and makes at most 5 attempts — for EVERY request (type, body),
    daemon state, fault schedule of any length and any outcome of the attempts; the loop always ends inside the
    padded schedule.  The exit test of the loop is `i >= MUNGE_SOCKET_RETRY_ATTEMPTS` (the probed constant)
    or `e == EMUNGE_BAD_LENGTH`.  The daemon refuses a request whose retry byte exceeds
    MUNGE_SOCKET_RETRY_ATTEMPTS with EMUNGE_SOCKET, in decode and in encode, and accepts every smaller one. -/
theorem retry_header_range :
    (∀ (P : Prims) (cf : Conf) (env : Env) (rs : ReplaySet) (type : Nat) (body : Bytes) (sched : List Fault),
        (xfer P cf env rs type body sched).trace.length ≤ 5 ∧
        (∀ p ∈ (xfer P cf env rs type body sched).trace, p.1 ≤ 4) ∧
        (xfer P cf env rs type body sched).err ≠ -1) ∧
    (∀ i e : Int, stop i e = true ↔ (i ≥ MUNGE_SOCKET_RETRY_ATTEMPTS ∨ e = EMUNGE_BAD_LENGTH)) ∧
    (∀ retry uid gid : Int,
        ((Munge.Gen.Dec.dec_check_retry retry uid gid).ret < 0 ↔ retry > MUNGE_SOCKET_RETRY_ATTEMPTS) ∧
        ((Munge.Gen.Dec.enc_check_retry retry uid gid).ret < 0 ↔ retry > MUNGE_SOCKET_RETRY_ATTEMPTS) ∧
        ((Munge.Gen.Dec.dec_check_retry retry uid gid).ret < 0 → (Munge.Gen.Dec.dec_check_retry retry uid gid).err = EMUNGE_SOCKET) ∧
        ((Munge.Gen.Dec.enc_check_retry retry uid gid).ret < 0 → (Munge.Gen.Dec.enc_check_retry retry uid gid).err = EMUNGE_SOCKET)) := by
  refine ⟨fun P cf env rs type body sched => ?_, fun i e => ?_, fun retry uid gid => ?_⟩
  · have h := xferLoop_trace P cf env type body (padded sched) 0 rs [] [] (by omega) rfl (fun p hp => by cases hp)
    unfold xfer
    rw [show loopInit = iOf 0 from rfl]
    refine ⟨h.1, h.2.1, h.2.2 ?_ ?_⟩
    · rw [padded_eq]; intro hn; cases sched <;> cases hn
    · rw [padded_eq, List.length_append]; simp only [List.length_cons, List.length_replicate]; omega
  · rw [stop_iff]; rfl
  · unfold Munge.Gen.Dec.dec_check_retry Munge.Gen.Dec.enc_check_retry MUNGE_SOCKET_RETRY_ATTEMPTS
    by_cases h : retry > 5
    · simp only [h, if_true]
      exact ⟨⟨fun _ => trivial, fun _ => by decide⟩, ⟨fun _ => trivial, fun _ => by decide⟩, fun _ => rfl, fun _ => rfl⟩
    · simp only [h, if_false]
      exact ⟨⟨fun h' => absurd h' (by decide), fun h' => absurd h' id⟩, ⟨fun h' => absurd h' (by decide), fun h' => absurd h' id⟩,
        fun h' => absurd h' (by decide), fun h' => absurd h' (by decide)⟩

/-! ### the roll-back -/

/-- OBLIGATION on the source: when its final `m_msg_send` fails, `dec_process_msg` (as translated from dec.c)
    calls `replay_remove` exactly when the request succeeded AND its own `replay_insert` returned 0 — so the
    daemon of this model is the `jobExec` of the credential model that C05 / C08 / C09 speak about. -/
theorem rollback_only_own_insert :
    (∀ (rc : Int) (inserted : Bool), genRollback rc inserted = true ↔ (rc = 0 ∧ inserted = true)) ∧
    (∀ (P : Prims) (cf : Conf) (env : Env) (rs : ReplaySet) (req : Bytes) (sendOk : Bool),
        daemon P cf env rs req sendOk = jobExec P cf env rs req sendOk) := by
  refine ⟨fun rc ins => ?_, daemon_eq_jobExec⟩
  rw [genRollback_spec]
  simp

/-- For EVERY request whatsoever (encode, decode, malformed, truncated), every daemon state, environment and
    primitive table: a transaction whose reply cannot be sent leaves the replay cache exactly as it found it.
    (A first decode withdraws the record it inserted; a retry-flagged request that was exempted inserted nothing
    and withdraws nothing; everything else never touched the cache.) -/
theorem undeliverable_changes_nothing (P : Prims) (cf : Conf) (env : Env) (rs : ReplaySet) (req : Bytes) :
    daemon P cf env rs req false = (none, rs) :=
  daemon_undeliverable P cf env rs req

section Decode
open Munge.Cred.B Munge.SpecV3

/-- UNDELIVERED ⇒ NOT BURNED.  The daemon receives libmunge's whole decode request for a fresh credential
    (record absent), processes it — the decode succeeds and inserts the record — but cannot send the reply, and
    the client never retries.  Then the record is withdrawn (the cache is what it was), and a later decode on a
    fresh connection (retry 0, no faults, any later environment `env'` that still satisfies the decode
    preconditions) returns SUCCESS with the payload. -/
theorem undelivered_not_burned (P : Prims) (cf : Conf) (env env' : Env) (f : Fields) (uid gid uid' gid' : Nat)
    (S : DecSetup P cf env f uid gid) (S' : DecSetup P cf env' f uid' gid') (rs : ReplaySet) (hk : specKey P cf f ∉ rs) :
    let req := reqBytes 4 0 (decBody (credOf P cf f))
    -- the daemon did process it, successfully, and would have answered
    (∃ b, (daemon P cf env rs req true).1 = some b) ∧ specKey P cf f ∈ (daemon P cf env rs req true).2 ∧
    -- the reply is undeliverable: the record is withdrawn
    (daemon P cf env rs req false).2 = rs ∧ specKey P cf f ∉ (daemon P cf env rs req false).2 ∧
    -- a later fresh decode succeeds
    (mungeDecode P cf env' (daemon P cf env rs req false).2 (credOf P cf f) []).1.err = 0 ∧
    (mungeDecode P cf env' (daemon P cf env rs req false).2 (credOf P cf f) []).1.len = f.payload.length ∧
    (mungeDecode P cf env' (daemon P cf env rs req false).2 (credOf P cf f) []).1.data =
      (if f.payload.length > 0 then some f.payload else none) := by
  intro req
  obtain ⟨d1, d2⟩ := dec_daemon P cf env f uid gid S rs rs hk 0 (by omega) (.inl rfl)
  have hreq : req = reqBytes 4 0 (decBody (credOf P cf f)) := rfl
  rw [hreq, d1, d2]
  refine ⟨⟨_, rfl⟩, List.mem_cons_self, rfl, hk, ?_⟩
  obtain ⟨x1, x2, r, hr, x3⟩ := decode_xfer P cf env' f uid' gid' S' rs hk [] (by simp)
  rw [mungeDecode_ok P cf env' rs _ [] _ x1 x3 rfl]
  refine ⟨rfl, rfl, ?_⟩
  show (if f.payload.length > 0 then some (f.payload.take f.payload.length) else none) = _
  rw [List.take_length]

/-- A RETRY-FLAGGED REQUEST DOES NOT WITHDRAW.  The record of the credential is present (an earlier attempt's
    reply was sent), the request carries retry byte 1..5: the daemon exempts it (it would answer SUCCESS), it
    inserts nothing, and when its own reply is undeliverable too the record STAYS — the behaviour since commit
    c0c9ceb (before it, this request removed a record it had not inserted, and a later unflagged replay was
    accepted: F7). -/
theorem flagged_retry_does_not_withdraw (P : Prims) (cf : Conf) (env : Env) (f : Fields) (uid gid : Nat)
    (S : DecSetup P cf env f uid gid) (rs : ReplaySet) (hk : specKey P cf f ∉ rs) (r : Nat) (h1 : 1 ≤ r) (h5 : r ≤ 5) :
    let req := reqBytes 4 r (decBody (credOf P cf f))
    let recorded := specKey P cf f :: rs
    (daemon P cf env recorded req true).1 = some (decRsp (okMsg P cf env f uid gid r)) ∧
    (okMsg P cf env f uid gid r).errorNum = 0 ∧
    (daemon P cf env recorded req false).2 = recorded ∧ specKey P cf f ∈ (daemon P cf env recorded req false).2 := by
  intro req recorded
  obtain ⟨d1, d2⟩ := dec_daemon P cf env f uid gid S rs recorded hk r h5 (.inr ⟨rfl, h1⟩)
  have hreq : req = reqBytes 4 r (decBody (credOf P cf f)) := rfl
  rw [hreq, d1, d2]
  exact ⟨rfl, rfl, rfl, List.mem_cons_self⟩

/-- RETRY, DECODE.  For every primitive table under `PrimLaws`, every well-formed credential `f` (any cipher,
    MAC, zip, payload, restriction), every authorised client inside the validity window, every daemon state that
    has not seen the credential, and EVERY schedule of at most 4 faults (each `q n`, `f` or `p n` at any offset,
    in any order; also with clean attempts in between): `munge_decode` returns SUCCESS — never REPLAYED, also
    when an earlier attempt's reply was lost after the daemon had recorded the credential (`p n`), because the
    retried request carries retry byte ≥ 1 and is exempted — with the byte-identical payload and length, the
    encoder's UID and GID, the credential's metadata; indeed with exactly the outputs of the same call over a
    clean connection.  Afterwards the credential is recorded. -/
theorem retry_correct_decode (P : Prims) (cf : Conf) (env : Env) (f : Fields) (uid gid : Nat)
    (S : DecSetup P cf env f uid gid) (rs : ReplaySet) (hk : specKey P cf f ∉ rs) (sched : List Fault)
    (hlen : sched.length ≤ 4) :
    let r := (mungeDecode P cf env rs (credOf P cf f) sched).1
    r.err = 0 ∧ r.len = f.payload.length ∧ r.data = (if f.payload.length > 0 then some f.payload else none) ∧
    r.uid = f.uid ∧ r.gid = f.gid ∧ r.cipher = f.cipher ∧ r.mac = f.mac ∧ r.zip = f.zip ∧
    r.ttl = capT cf f.ttl ∧ r.time0 = f.time0 ∧ r.authUid = f.authUid ∧ r.authGid = f.authGid ∧
    r = (mungeDecode P cf env rs (credOf P cf f) []).1 ∧
    (mungeDecode P cf env rs (credOf P cf f) sched).2.rs = specKey P cf f :: rs := by
  have key : ∀ sch : List Fault, sch.length ≤ 4 →
      (mungeDecode P cf env rs (credOf P cf f) sch).1 = decodeRsp (decView (okMsg P cf env f uid gid 0)) ∧
      (mungeDecode P cf env rs (credOf P cf f) sch).2.rs = specKey P cf f :: rs := by
    intro sch hs
    obtain ⟨x1, x2, r, hr, x3⟩ := decode_xfer P cf env f uid gid S rs hk sch hs
    rw [mungeDecode_ok P cf env rs _ sch _ x1 x3 rfl]
    exact ⟨rfl, x2⟩
  intro r
  have hr : r = decodeRsp (decView (okMsg P cf env f uid gid 0)) := (key sched hlen).1
  rw [hr]
  refine ⟨rfl, rfl, ?_, rfl, rfl, rfl, rfl, rfl, rfl, rfl, rfl, rfl, (key [] (by simp)).1.symm, (key sched hlen).2⟩
  show (if f.payload.length > 0 then some (f.payload.take f.payload.length) else none) = _
  rw [List.take_length]

/-- the headline case spelled out: the first attempt's reply is lost after the daemon recorded the credential
    (`p n`, any `n`); the retry is answered SUCCESS, whereas the same request WITHOUT the retry flag would now
    be answered REPLAYED by the kernel `dec_validate_replay` (duplicate ⇒ error 17 unless retry ∈ 1..5). -/
theorem lost_reply_retry_is_exempted (P : Prims) (cf : Conf) (env : Env) (f : Fields) (uid gid : Nat)
    (S : DecSetup P cf env f uid gid) (rs : ReplaySet) (hk : specKey P cf f ∉ rs) (n : Nat) :
    (mungeDecode P cf env rs (credOf P cf f) [.p n]).1.err = 0 ∧
    (mungeDecode P cf env rs (credOf P cf f) [.p n]).2.trace.map (·.1) = [0, 1] ∧
    (∀ gsr uid gid : Int, (Munge.Gen.Dec.dec_validate_replay 0 gsr 0 uid gid 1).ret < 0 ∧
        (Munge.Gen.Dec.dec_validate_replay 0 gsr 0 uid gid 1).err = Munge.Gen.Dec.EMUNGE_CRED_REPLAYED) := by
  have hb := credOf_fits P cf env f uid gid S
  refine ⟨(retry_correct_decode P cf env f uid gid S rs hk [.p n] (by simp)).1, ?_, fun gsr u g => ?_⟩
  · -- attempt 1 (retry 0) fails at the client, attempt 2 (retry 1) succeeds
    obtain ⟨d1, _⟩ := dec_daemon P cf env f uid gid S rs rs hk 0 (by omega) (.inl rfl)
    obtain ⟨e1, _⟩ := dec_daemon P cf env f uid gid S rs (specKey P cf f :: rs) hk 1 (by omega) (.inr ⟨rfl, by omega⟩)
    have hc := cutReply_fails (rspType 4) n (some (decRsp (okMsg P cf env f uid gid 0))) (by
      intro x hx
      injection hx with hx
      obtain ⟨body, hs, hl⟩ := decRsp_fits _ (okMsg_RspOk P cf env f uid gid 0 S (by omega))
      exact ⟨_, _, body, hx ▸ hs, hl⟩)
    have a1 : attempt P cf env rs 4 0 (decBody (credOf P cf f)) (.p n) =
        { err := EMUNGE_SOCKET, link := "m_msg_recv", rsp := none, rs := specKey P cf f :: rs,
          delivered := (reqBytes 4 0 (decBody (credOf P cf f))).length } := by
      rw [attempt_p _ _ _ _ _ _ _ _ hb, d1, finish_error 4 _ _ _ _ hc]
    have hv := clientRecv_decRsp _ (okMsg_RspOk P cf env f uid gid 1 S (by omega))
    have a2 : attempt P cf env (specKey P cf f :: rs) 4 1 (decBody (credOf P cf f)) .ok =
        { err := EMUNGE_SUCCESS, link := "", rsp := some (decView (okMsg P cf env f uid gid 1)), rs := specKey P cf f :: rs,
          delivered := (reqBytes 4 1 (decBody (credOf P cf f))).length } := by
      rw [attempt_ok _ _ _ _ _ _ _ hb, e1, finish_ok 4 _ _ _ _ (by rw [rspType_dec]; exact hv)]
    have hx : (xfer P cf env rs 4 (decBody (credOf P cf f)) [.p n]).trace.map (·.1) = [0, 1] := by
      unfold xfer
      rw [padded_eq, show loopInit = iOf 0 from rfl, List.cons_append, List.nil_append,
        xferLoop_fail P cf env 4 _ (.p n) _ 0 rs [] [] (by omega) (by rw [a1]) (by rw [a1]; exact linkRetries_recv), a1,
        xferLoop_succ P cf env 4 _ .ok _ _ 1 _ _ _ (by rw [a2]), a2]
      rfl
    have x1 := (decode_xfer P cf env f uid gid S rs hk [.p n] (by simp)).1
    obtain ⟨r, _, x3⟩ := (decode_xfer P cf env f uid gid S rs hk [.p n] (by simp)).2.2
    rw [mungeDecode_ok P cf env rs _ [.p n] _ x1 x3 rfl]
    exact hx
  · unfold Munge.Gen.Dec.dec_validate_replay
    simp only [show ¬ ((1 : Int) = 0) by decide, if_false, show ¬ ((0 : Int) > 0) by decide, and_false, false_and,
      not_false_eq_true, and_true, if_true, show (1 : Int) > 0 by decide]
    exact ⟨by decide, rfl⟩

end Decode

section Encode
open Munge.Cred.B

/-- RETRY, ENCODE.  For every primitive table, configuration, environment, daemon state, every encode call the
    daemon accepts, and EVERY schedule of at most 4 faults: `munge_encode` returns SUCCESS and exactly the
    credential the daemon mints for this request over a clean connection (same salt, same second), and the
    daemon's replay state is untouched. -/
theorem retry_correct_encode (P : Prims) (cf : Conf) (env : Env) (m : Msg) (S : EncSetup P cf env m) (rs : ReplaySet)
    (sched : List Fault) (hlen : sched.length ≤ 4) :
    (mungeEncode P cf env rs m sched).1 = { err := 0, cred := some (encProcess P cf env (encReqMsg 0 m)).1.data } ∧
    (mungeEncode P cf env rs m sched).1 = (mungeEncode P cf env rs m []).1 ∧
    (mungeEncode P cf env rs m sched).2.rs = rs := by
  obtain ⟨e0, el⟩ := encOk_facts P cf env m S
  have key : ∀ sch : List Fault, sch.length ≤ 4 →
      (mungeEncode P cf env rs m sch).1 = { err := 0, cred := some (encProcess P cf env (encReqMsg 0 m)).1.data } ∧
      (mungeEncode P cf env rs m sch).2.rs = rs := by
    intro sch hs
    obtain ⟨x1, x2, r, hr, x3⟩ := encode_xfer P cf env m S rs sch hs
    obtain ⟨uid, gid, hp, hv, hnow, he⟩ := encProcess_ok P cf env _ S.ok
    have hpos : (encProcess P cf env (encReqMsg 0 m)).1.dataLen ≠ 0 := by
      rw [el, he, encBody_eq]
      show (encCred P cf env _ uid gid).length ≠ 0
      unfold encCred armor
      simp only [List.length_append, List.length_cons, List.length_nil]
      omega
    rw [mungeEncode_ok P cf env rs m sch _ x1 x3 rfl hpos]
    refine ⟨?_, x2⟩
    show ({ err := ((encProcess P cf env (encReqMsg 0 m)).1.errorNum : Int),
            cred := some ((encProcess P cf env (encReqMsg 0 m)).1.data.take (encProcess P cf env (encReqMsg 0 m)).1.dataLen) } : EncResult) = _
    rw [e0, el, List.take_length]
    rfl
  exact ⟨(key sched hlen).1, (key sched hlen).1.trans (key [] (by simp)).1.symm, (key sched hlen).2⟩

end Encode

/-! ### encode, then decode, both over faulty connections -/

section RoundTrip
open Munge.Cred.B Munge.SpecV3

/-- ROUND TRIP UNDER FAULTS.  `munge_encode` over a connection that breaks up to four times, then `munge_decode`
    of the returned string over a connection that breaks up to four times (any faults, any offsets, any order):
    the decode returns SUCCESS with the byte-identical payload and the encoder's UID and GID.  `SD` states, for the
    fields `f` of the credential the daemon minted, what C01.roundtrip asks of the decoding side (authorised client,
    inside the validity window, daemon has not seen it, it fits the request limit); that `f` is well-formed is
    `CredB.encF_WF`. -/
theorem retry_roundtrip (P : Prims) (cf : Conf) (envE envD : Env) (call : Msg) (SE : EncSetup P cf envE call)
    (uid gid : Nat) (hpe : envE.peer = some (uid, gid)) (ha : cf.addr.length = 4) (duid dgid : Nat)
    (SD : DecSetup P cf envD
      (encF P cf envE (applyWrites (encReqMsg 0 call) (encValidate P cf (encReqMsg 0 call)) "m.") uid gid) duid dgid)
    (rsE rsD : ReplaySet)
    (hfresh : specKey P cf
      (encF P cf envE (applyWrites (encReqMsg 0 call) (encValidate P cf (encReqMsg 0 call)) "m.") uid gid) ∉ rsD)
    (sE sD : List Fault) (hE : sE.length ≤ 4) (hD : sD.length ≤ 4) :
    ∃ c, (mungeEncode P cf envE rsE call sE).1 = { err := 0, cred := some c } ∧
      (mungeDecode P cf envD rsD c sD).1.err = 0 ∧
      (mungeDecode P cf envD rsD c sD).1.len = call.dataLen ∧
      (mungeDecode P cf envD rsD c sD).1.data = (if call.dataLen > 0 then some (call.data.take call.dataLen) else none) ∧
      (mungeDecode P cf envD rsD c sD).1.uid = uid ∧ (mungeDecode P cf envD rsD c sD).1.gid = gid := by
  obtain ⟨uid', gid', hp', hv, hnow, he⟩ := encProcess_ok P cf envE _ SE.ok
  have hug : uid' = uid ∧ gid' = gid := by
    rw [hpe] at hp'; injection hp' with h; injection h with h1 h2; exact ⟨h1.symm, h2.symm⟩
  rw [hug.1, hug.2] at he
  have ld : (call.data.take call.dataLen).length = call.dataLen := by
    rw [List.length_take]; exact Nat.min_eq_left SE.call.data
  have lr : (call.realm.take call.realmLen).length = call.realmLen := by
    rw [List.length_take]; exact Nat.min_eq_left SE.call.realm
  have hc : (encProcess P cf envE (encReqMsg 0 call)).1.data =
      credOf P cf (encF P cf envE (applyWrites (encReqMsg 0 call) (encValidate P cf (encReqMsg 0 call)) "m.") uid gid) := by
    rw [he, encBody_eq]
    exact encCred_spec P cf envE _ uid gid ld lr ha
  refine ⟨_, (retry_correct_encode P cf envE call SE rsE sE hE).1, ?_⟩
  rw [hc]
  have hdec := retry_correct_decode P cf envD _ duid dgid SD rsD hfresh sD hD
  simp only [] at hdec
  obtain ⟨d1, d2, d3, d4, d5, _⟩ := hdec
  refine ⟨d1, ?_, ?_, d4, d5⟩
  · rw [d2]; exact ld
  · rw [d3]
    show (if (call.data.take call.dataLen).length > 0 then some (call.data.take call.dataLen) else none) = _
    rw [ld]

end RoundTrip

/-! ### exhaustion -/

/-- EXHAUSTED ⇒ SOCKET ERROR.  For EVERY request (any type, any body that passes the client's length gate), every
    daemon state, and every schedule whose first five entries are faults (`q`, `f`, `p` at any offsets):
    `m_msg_client_xfer` gives up after exactly five attempts with EMUNGE_SOCKET and hands no reply to its caller.
    (`hfit`: the daemon's replies are shorter than 4 GiB — with a reply that long `m_msg_send` fails in the C;
    the model's daemon does not bound its replies.) -/
theorem exhausted_is_socket_error (P : Prims) (cf : Conf) (env : Env) (rs : ReplaySet) (type : Nat) (body : Bytes)
    (hb : body.length ≤ 1048576)
    (hfit : ∀ rs' r b, (daemon P cf env rs' (reqBytes type r body) true).1 = some b → b.length < 4294967296 + 11)
    (sched : List Fault) (h5 : 5 ≤ sched.length) (hno : ∀ ft ∈ sched.take 5, ft ≠ .ok) :
    (xfer P cf env rs type body sched).err = EMUNGE_SOCKET ∧ (xfer P cf env rs type body sched).rsp = none ∧
    (xfer P cf env rs type body sched).trace.length = 5 :=
  xfer_exhausted P cf env rs type body hb hfit sched h5 hno

/-- … hence `munge_decode` returns EMUNGE_SOCKET with EVERY output still at its initial value (NULL buffer,
    length 0, UID/GID sentinels, ctx fields -1 / 0): never a wrong or partial result — for any credential string -/
theorem exhausted_decode_untouched (P : Prims) (cf : Conf) (env : Env) (rs : ReplaySet) (cred : Bytes)
    (hb : (decBody cred).length ≤ 1048576)
    (hfit : ∀ rs' r b, (daemon P cf env rs' (reqBytes 4 r (decBody cred)) true).1 = some b → b.length < 4294967296 + 11)
    (sched : List Fault) (h5 : 5 ≤ sched.length) (hno : ∀ ft ∈ sched.take 5, ft ≠ .ok) :
    (mungeDecode P cf env rs cred sched).1 = { err := EMUNGE_SOCKET } := by
  obtain ⟨h1, _, _⟩ := xfer_exhausted P cf env rs 4 (decBody cred) hb hfit sched h5 hno
  rw [mungeDecode_fail P cf env rs cred sched (by rw [h1]; decide), h1]

/-- … and `munge_encode` returns EMUNGE_SOCKET and a NULL credential — for any options and payload -/
theorem exhausted_encode_untouched (P : Prims) (cf : Conf) (env : Env) (rs : ReplaySet) (m : Msg)
    (hb : (encBody m).length ≤ 1048576)
    (hfit : ∀ rs' r b, (daemon P cf env rs' (reqBytes 2 r (encBody m)) true).1 = some b → b.length < 4294967296 + 11)
    (sched : List Fault) (h5 : 5 ≤ sched.length) (hno : ∀ ft ∈ sched.take 5, ft ≠ .ok) :
    (mungeEncode P cf env rs m sched).1 = { err := EMUNGE_SOCKET, cred := none } := by
  obtain ⟨h1, _, _⟩ := xfer_exhausted P cf env rs 2 (encBody m) hb hfit sched h5 hno
  rw [mungeEncode_fail P cf env rs m sched (by rw [h1]; decide), h1]

section NonVacuity
open Munge.Cred.B Munge.SpecV3

/-! ### non-vacuity: the hypotheses are satisfiable and the scenarios occur (toy primitives, evaluated) -/
namespace Example
def cf : Conf := { macKey := [1, 2, 3, 4, 5, 6, 7, 8], dekKey := [9, 8, 7, 6, 5, 4, 3, 2] }
def envE : Env := { now := 1000000, peer := some (1000, 1000) }
def envD : Env := { now := 1000001, peer := some (7, 8) }
def call : Msg := { cipher := 0, mac := 2, zip := 0, ttl := 0, authUid := 4294967295, authGid := 4294967295,
                    dataLen := 2, data := [104, 105] }
def f : Fields := encF ToyPrims.prims cf envE (applyWrites (encReqMsg 0 call) (encValidate ToyPrims.prims cf (encReqMsg 0 call)) "m.") 1000 1000
def cred : Bytes := ((mungeEncode ToyPrims.prims cf envE [] call []).1.cred).getD []
end Example

set_option maxRecDepth 100000 in
/-- the hypotheses of `retry_correct_encode` hold for a concrete call -/
example : EncSetup ToyPrims.prims Example.cf Example.envE Example.call :=
  ⟨⟨by decide, by decide, by decide, by decide, by decide +kernel⟩, by decide +kernel, by decide +kernel⟩

set_option maxRecDepth 100000 in
/-- the hypotheses of `retry_correct_decode` hold for the credential that call yields -/
example : DecSetup ToyPrims.prims Example.cf Example.envD Example.f 7 8 ∧ specKey ToyPrims.prims Example.cf Example.f ∉ [] :=
  ⟨⟨ToyPrims.toy_laws,
    ⟨by decide +kernel, by decide +kernel, by decide +kernel, by decide +kernel, by decide +kernel, by decide +kernel,
     by decide +kernel, by decide +kernel, by decide +kernel⟩,
    rfl, by decide, by decide, by decide, by decide +kernel, by decide +kernel, rfl, by decide +kernel⟩, by simp⟩

set_option maxRecDepth 100000 in
/-- four faults of all three kinds, the reply of the first attempt lost after the daemon recorded the credential:
    SUCCESS with the payload; a fifth fault: EMUNGE_SOCKET and untouched outputs; the credential string is the
    reference credential of `f` -/
example :
    Example.cred = credOf ToyPrims.prims Example.cf Example.f ∧
    (mungeDecode ToyPrims.prims Example.cf Example.envD [] Example.cred [.p 30, .f, .q 12, .p 0]).1.err = 0 ∧
    (mungeDecode ToyPrims.prims Example.cf Example.envD [] Example.cred [.p 30, .f, .q 12, .p 0]).1.data = some [104, 105] ∧
    ((mungeDecode ToyPrims.prims Example.cf Example.envD [] Example.cred [.p 30, .f, .q 12, .p 0]).2.trace.map (·.1)) = [0, 1, 2, 3, 4] ∧
    (mungeDecode ToyPrims.prims Example.cf Example.envD [] Example.cred [.p 30, .f, .q 12, .p 0, .f]).1 = { err := 6 } := by
  decide +kernel

end NonVacuity

end Munge.C13
