import Munge.Gen.Msg
/-!
# C14 / C08 / C01 (receive side): `m_msg_recv` as translated from m_msg.c - the order of its checks and the length gate

The two timed reads, the two `_msg_unpack` calls, `malloc` and `free` are events; their results, `errno` after each read and
the header fields (`m->type`, `m->pkt_len`) the first unpack stores are inputs: the theorems hold for every peer behaviour.
-/
namespace Munge.C14Recv
open Munge.C Munge.Gen.Msg

theorem ite_intro {c : Prop} [Decidable c] {P Q : Prop} (hp : c → P) (hq : ¬c → Q) : if c then P else Q := by
  by_cases h : c
  · rw [if_pos h]; exact hp h
  · rw [if_neg h]; exact hq h

/-- case split along the kernel's if-chain, then arithmetic on each leaf -/
macro "kchain" : tactic =>
  `(tactic| (repeat' (first | with_reducible apply ite_intro | intro _)
             all_goals (try simp only [wrapU32, wrapS32] at *)
             all_goals (first | omega | (simp [KOut.count, KOut.written] <;> omega))))

/-- **The length gate comes before the allocation and before any body byte is read**: with a positive limit, a header that
    announces more than the limit is answered `EMUNGE_BAD_LENGTH` (3) - nothing is allocated, the body is never read, whatever
    the header said otherwise.  (The comparison is the C's: `m->pkt_len` is a `uint32_t`, so a length ≥ 2^31 cannot pass as
    "negative".) -/
theorem length_gate_before_allocation (sd mr ty ml eh ht pl eb r2 u2 : Int)
    (hml : 0 < ml ∧ ml ≤ 2147483647) (hpl : ml < pl ∧ pl ≤ 4294967295) (hty : ty = 0 ∨ ht = ty) (heh : eh ≠ 110) :
    let o := m_msg_recv sd mr ty ml eh 11 ht pl 0 eb r2 u2
    o.ret = 3 ∧ o.count "malloc" = 0 ∧ o.count "fd_timed_read_n" = 1 ∧ o.written "m.pkt" = none := by
  dsimp only
  unfold m_msg_recv
  simp only [apply_ite (fun o : KOut => o.ret = 3 ∧ o.count "malloc" = 0 ∧ o.count "fd_timed_read_n" = 1 ∧ o.written "m.pkt" = none)]
  kchain

/-- **What a successful receive did, in order**: a complete 11-byte header, its unpack, the expected type, the length gate,
    an allocation of exactly the announced length, a complete body of that length, its unpack with the announced type and
    length, and the packet buffer freed once; under a positive limit the announced length did not exceed it. -/
theorem recv_success_shape (sd mr ty ml eh r1 ht pl u1 eb r2 u2 : Int)
    (hml : 0 ≤ ml ∧ ml ≤ 2147483647) (hpl : 0 ≤ pl ∧ pl ≤ 4294967295) (hr2 : -2147483648 ≤ r2 ∧ r2 ≤ 2147483647) (hmr : 0 ≤ mr)
    (h : (m_msg_recv sd mr ty ml eh r1 ht pl u1 eb r2 u2).ret = 0) :
    (m_msg_recv sd mr ty ml eh r1 ht pl u1 eb r2 u2).events =
      [("fd_timed_read_n", [11]), ("_msg_unpack", [1, 11]), ("malloc", [pl]), ("fd_timed_read_n", [pl]),
       ("_msg_unpack", [ht, wrapS32 pl]), ("free:m.pkt", [])] ∧
    r1 = 11 ∧ u1 = 0 ∧ (ty ≠ 0 → ht = ty) ∧ (0 < ml → pl ≤ ml) ∧ mr ≠ 0 ∧ r2 = pl ∧ u2 = 0 := by
  revert h
  unfold m_msg_recv
  simp only [apply_ite (fun o : KOut => o.ret = 0 → (o.events =
      [("fd_timed_read_n", [11]), ("_msg_unpack", [1, 11]), ("malloc", [pl]), ("fd_timed_read_n", [pl]),
       ("_msg_unpack", [ht, wrapS32 pl]), ("free:m.pkt", [])] ∧
    r1 = 11 ∧ u1 = 0 ∧ (ty ≠ 0 → ht = ty) ∧ (0 < ml → pl ≤ ml) ∧ mr ≠ 0 ∧ r2 = pl ∧ u2 = 0))]
  kchain

/-- **Only four outcomes**: success, socket error, bad length, out of memory. -/
theorem recv_outcomes (sd mr ty ml eh r1 ht pl u1 eb r2 u2 : Int) :
    let r := (m_msg_recv sd mr ty ml eh r1 ht pl u1 eb r2 u2).ret
    r = 0 ∨ r = 6 ∨ r = 3 ∨ r = 5 := by
  dsimp only
  unfold m_msg_recv
  simp only [apply_ite (fun o : KOut => o.ret = 0 ∨ o.ret = 6 ∨ o.ret = 3 ∨ o.ret = 5)]
  kchain

/-- **An unexpected message type is refused before the gate and the allocation** (libmunge, which names the type it expects). -/
theorem unexpected_type_refused (sd mr ty ml eh ht pl eb r2 u2 : Int) (hty : ty ≠ 0 ∧ ht ≠ ty) (heh : eh ≠ 110) :
    let o := m_msg_recv sd mr ty ml eh 11 ht pl 0 eb r2 u2
    o.ret = 6 ∧ o.count "malloc" = 0 := by
  dsimp only
  unfold m_msg_recv
  simp only [apply_ite (fun o : KOut => o.ret = 6 ∧ o.count "malloc" = 0)]
  kchain

/-! ## `m_msg_send` (C13, C01, C14) -/

/-- number of header packs (`_msg_pack (m, MUNGE_MSG_HDR, hdr, 11)`) among the events -/
def hdrPacks (o : KOut) : Int := ((o.events.filter (· == ("_msg_pack", [1, 11]))).length : Nat)

/-- **The header is packed afresh on every send - also when the packed body is reused** (a retried request is the same
    message object sent again with a new retry count in its header: the retry count reaches the wire because the 11 header
    bytes are rebuilt each time; the body, which does not contain it, may be cached).  Every successful send packs the
    header exactly once, immediately before the single write, and that write moved 11 + body-length bytes. -/
theorem header_packed_on_every_send (sd ct pp cpl pic mr ty ml rl rp rp2 ew rw : Int) (hty : ty ≠ 1)
    (h : (m_msg_send sd ct pp cpl pic mr ty ml rl rp rp2 ew rw).ret = 0) :
    hdrPacks (m_msg_send sd ct pp cpl pic mr ty ml rl rp rp2 ew rw) = 1 ∧
    (m_msg_send sd ct pp cpl pic mr ty ml rl rp rp2 ew rw).count "fd_timed_write_iov" = 1 ∧
    (m_msg_send sd ct pp cpl pic mr ty ml rl rp rp2 ew rw).events.getLast? = some ("fd_timed_write_iov", [2]) := by
  revert h
  unfold m_msg_send
  simp only [apply_ite (fun o : KOut => o.ret = 0 → (hdrPacks o = 1 ∧ o.count "fd_timed_write_iov" = 1 ∧
    o.events.getLast? = some ("fd_timed_write_iov", [2])))]
  repeat' (first | with_reducible apply ite_intro | intro _)
  all_goals (try simp only [wrapU32, wrapS32] at *)
  all_goals (first | omega | (simp [hdrPacks, KOut.count, hty] <;> omega) | (simp [hdrPacks, KOut.count, hty]))

/-- **The send-side length gate**: with a positive limit, a message whose packed body exceeds it is not written at all -
    `EMUNGE_BAD_LENGTH`, no write (a payload too large to be carried gives a length error, never truncated data). -/
theorem send_length_gate (sd ct pp cpl pic mr ty ml rl rp rp2 ew rw : Int)
    (hml : 0 < ml ∧ ml ≤ 2147483647) (hnew : pp = 0) (hrl : ml < rl ∧ rl ≤ 2147483647) (hmr : mr ≠ 0) (hrp : rp = 0) :
    let o := m_msg_send sd ct pp cpl pic mr ty ml rl rp rp2 ew rw
    o.ret = 3 ∧ o.count "fd_timed_write_iov" = 0 := by
  dsimp only
  unfold m_msg_send
  simp only [apply_ite (fun o : KOut => o.ret = 3 ∧ o.count "fd_timed_write_iov" = 0)]
  kchain

/-- non-vacuity: a 20-byte DEC_REQ under the 1 MiB limit is received; a 2 MiB announcement is refused at the gate -/
example : (m_msg_recv 3 1 0 1048576 0 11 4 20 0 0 20 0).ret = 0 := by decide
example : (m_msg_recv 3 1 0 1048576 0 11 4 2097152 0 0 20 0).ret = 3 := by decide
example : (m_msg_recv 3 1 0 1048576 0 11 4 4294967295 0 0 20 0).ret = 3 := by decide

end Munge.C14Recv
