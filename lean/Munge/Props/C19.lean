import Munge.Model.Base64
import Munge.Lemmas.Base64
/-
C19 — Base64 armor is a strict, bounded, chunking-independent inverse pair.

Property theorems only; helper lemmas live in `Munge/Lemmas/Base64.lean`.
The tables `bin2asc`/`asc2bin`, the class constants and the two length formulas
are `Munge.Gen.Base64.*`, regenerated from `src/munged/base64.c` on every run, so
each theorem below is re-checked against what the C source says now.
-/
namespace Munge.C19
open Munge.Base64 Munge.Gen.Base64 Munge.C

/-- An independent definition of canonical RFC 4648 base64 (no bit operations, its own
    alphabet literal): three octets form a 24-bit number that is cut into four sextets. -/
def rfcAlphabet : List UInt8 :=
  "ABCDEFGHIJKLMNOPQRSTUVWXYZabcdefghijklmnopqrstuvwxyz0123456789+/".toList.map (fun c => UInt8.ofNat c.toNat)
def rfcChar (n : Nat) : UInt8 := rfcAlphabet.getD n 0
def rfcEncode : List UInt8 → List UInt8
  | a :: b :: c :: rest =>
      let n := a.toNat * 65536 + b.toNat * 256 + c.toNat
      rfcChar (n / 262144) :: rfcChar (n / 4096 % 64) :: rfcChar (n / 64 % 64) :: rfcChar (n % 64) :: rfcEncode rest
  | [a, b] =>
      let n := a.toNat * 65536 + b.toNat * 256
      [rfcChar (n / 262144), rfcChar (n / 4096 % 64), rfcChar (n / 64 % 64), 61]
  | [a] =>
      let n := a.toNat * 65536
      [rfcChar (n / 262144), rfcChar (n / 4096 % 64), 61, 61]
  | [] => []

/-- the six characters C's `isspace` accepts in the "C" locale -/
def isSpace (c : UInt8) : Prop := c = 9 ∨ c = 10 ∨ c = 11 ∨ c = 12 ∨ c = 13 ∨ c = 32
instance (c : UInt8) : Decidable (isSpace c) := by unfold isSpace; infer_instance

/-- strict well-formedness: after deleting whitespace, alphabet characters followed by
    0–2 `=` with `(chars + pads) mod 4 = 0` -/
def WellFormed (src : List UInt8) : Prop :=
  ∃ (body : List UInt8) (p : Nat),
    src.filter (fun ch => !decide (isSpace ch)) = body ++ List.replicate p 61 ∧
    (∀ ch ∈ body, ch ∈ rfcAlphabet) ∧ p ≤ 2 ∧ (body.length + p) % 4 = 0

/-! ### generated tables -/

set_option maxRecDepth 1000000 in
/-- `asc2bin` inverts `bin2asc` on all 64 sextets, and the images are not class markers. -/
theorem table_inverse : ∀ i : Fin 64, a2b (b2a (UInt8.ofNat i)) = UInt8.ofNat i := by
  decide +kernel

set_option maxRecDepth 1000000 in
/-- every other byte is classified exactly as the statement says: `=` is the pad, the six
    `isspace` characters are ignored, the 64 alphabet characters map to their index, and all
    remaining bytes are errors; the encoder's alphabet is the RFC 4648 one. -/
theorem table_classes :
    bin2asc = rfcAlphabet ∧ PADCHAR = 61 ∧
    ∀ c : Fin 256,
      let ch := UInt8.ofNat c
      (a2b ch = PAD ↔ ch = 61) ∧ (a2b ch = IGN ↔ isSpace ch) ∧
      ((a2b ch).toNat < 64 ↔ ch ∈ rfcAlphabet) ∧
      (a2b ch = ERR ↔ ¬ (ch = 61 ∨ isSpace ch ∨ ch ∈ rfcAlphabet)) := by
  refine ⟨by decide +kernel, by decide +kernel, ?_⟩
  decide +kernel

/-! ### inverse pair -/

/-- decoding the encoding of any byte string returns it unchanged, with success -/
theorem decode_encode (x : List UInt8) : decodeBlock (encodeBlock x) = (0, x) := by
  exact decodeBlock_encodeBlock x

/-- the encoder's output is canonical RFC 4648 base64 -/
theorem encode_rfc4648 (x : List UInt8) : encodeBlock x = rfcEncode x := by
  have hb : ∀ v : UInt8, b2a v = rfcChar v.toNat := by
    intro v; unfold b2a rfcChar; rw [table_classes.1]
  have hp : PADCHAR = 61 := rfl
  fun_induction encodeBlock x with
  | case1 a b c rest ih =>
    have := a.toNat_lt; have := b.toNat_lt; have := c.toNat_lt
    have e0 : (a.toNat * 65536 + b.toNat * 256 + c.toNat) / 262144 = a.toNat / 4 := by omega
    have e1 : (a.toNat * 65536 + b.toNat * 256 + c.toNat) / 4096 % 64
        = a.toNat % 4 * 16 + b.toNat / 16 := by omega
    have e2 : (a.toNat * 65536 + b.toNat * 256 + c.toNat) / 64 % 64
        = b.toNat % 16 * 4 + c.toNat / 64 := by omega
    have e3 : (a.toNat * 65536 + b.toNat * 256 + c.toNat) % 64 = c.toNat % 64 := by omega
    simp only [rfcEncode, hb, sx0_toNat, sx1_toNat, sx2_toNat, sx3_toNat, e0, e1, e2, e3, ih]
  | case2 a b =>
    have := a.toNat_lt; have := b.toNat_lt
    have e0 : (a.toNat * 65536 + b.toNat * 256) / 262144 = a.toNat / 4 := by omega
    have e1 : (a.toNat * 65536 + b.toNat * 256) / 4096 % 64 = a.toNat % 4 * 16 + b.toNat / 16 := by omega
    have e2 : (a.toNat * 65536 + b.toNat * 256) / 64 % 64 = b.toNat % 16 * 4 := by omega
    simp only [rfcEncode, hb, hp, sx0_toNat, sx1_toNat, sx2'_toNat, e0, e1, e2]
  | case3 a =>
    have := a.toNat_lt
    have e0 : (a.toNat * 65536) / 262144 = a.toNat / 4 := by omega
    have e1 : (a.toNat * 65536) / 4096 % 64 = a.toNat % 4 * 16 := by omega
    simp only [rfcEncode, hb, hp, sx0_toNat, sx1'_toNat, e0, e1]
  | case4 => rfl

/-- … identical however the input is split across streaming calls -/
theorem chunking (chunks : List (List UInt8)) : encodeChunks chunks = encodeBlock chunks.flatten := by
  exact encodeChunks_eq chunks

/-! ### bounds (what the C writes, against what it advertises) -/

/-- bytes written by `base64_encode_block` (characters and the NUL) are exactly the advertised
    bound `base64_encode_length n`, for every length whose bound is representable in `int` -/
theorem encode_bound (x : List UInt8) (h : x.length ≤ 1610612730) :
    (encodeBlockWritten x : Int) = (base64_encode_length x.length).ret := by
  have hl := encodeBlock_length x
  simp only [encodeBlockWritten, hl, base64_encode_length, wrapS32, cdiv]
  rw [Int.tdiv_eq_ediv_of_nonneg (by omega)]
  omega

/-- the streaming encoder produces the same characters, hence stays within the same bound -/
theorem encode_bound_streaming (chunks : List (List UInt8)) (h : chunks.flatten.length ≤ 1610612730) :
    ((encodeChunks chunks).length + 1 : Int) = (base64_encode_length chunks.flatten.length).ret := by
  have hl := encodeBlock_length chunks.flatten
  rw [encodeChunks_eq]
  simp only [hl, base64_encode_length, wrapS32, cdiv]
  rw [Int.tdiv_eq_ediv_of_nonneg (by omega)]
  omega

/-- the decoder never writes beyond the advertised decode bound, for **every** input string
    (valid or not): the highest byte it touches (partial byte / NUL at `*pdst`) is inside -/
theorem decode_bound (s : List UInt8) (h : s.length ≤ 2147483000) :
    (decodeBlockWritten s : Int) ≤ (base64_decode_length s.length).ret := by
  have hl := decodeBlock_out_bound s
  simp only [decodeBlockWritten, base64_decode_length, wrapS32, cdiv]
  rw [Int.tdiv_eq_ediv_of_nonneg (by omega)]
  omega

/-! ### strictness -/

/-- the decoder accepts exactly the well-formed strings: whitespace is ignored; any character
    outside the alphabet, misplaced or miscounted padding, or data after padding is rejected -/
theorem decode_strict (s : List UInt8) : (decodeBlock s).1 = 0 ↔ WellFormed s := by
  have T : ∀ ch : UInt8, (a2b ch = IGN ↔ isSpace ch) ∧ ((a2b ch).toNat < 64 ↔ ch ∈ rfcAlphabet) := by
    intro ch
    have h := table_classes.2.2 ⟨ch.toNat, ch.toNat_lt⟩
    simp only [UInt8.ofNat_toNat] at h
    exact ⟨h.2.1, h.2.2.1⟩
  have hf : (fun ch => a2b ch != IGN) = (fun ch => !decide (isSpace ch)) := by
    funext ch
    by_cases c : a2b ch = IGN
    · simp [c, (T ch).1.mp c]
    · have : ¬ isSpace ch := fun h => c ((T ch).1.mpr h)
      simp [c, this]
  rw [decodeBlock_strict]
  unfold WF WellFormed
  rw [hf]
  constructor
  · rintro ⟨body, p, h1, h2, h3, h4⟩
    exact ⟨body, p, h1, fun ch hc => (T ch).2.mp (h2 ch hc), h3, h4⟩
  · rintro ⟨body, p, h1, h2, h3, h4⟩
    exact ⟨body, p, h1, fun ch hc => (T ch).2.mpr (h2 ch hc), h3, h4⟩

/-- the streaming decoder (any chunking, then `final`) accepts exactly the same strings and
    yields the same bytes as the block decoder -/
theorem decode_chunking (chunks : List (List UInt8)) :
    let r := chunks.foldl (fun (acc : DecCtx × List UInt8 × Bool) ch =>
      if acc.2.2 then acc else
      let (rc, o, x') := decodeUpdate acc.1 ch
      (x', acc.2.1 ++ o, rc != 0)) ({}, [], false)
    (decodeBlock chunks.flatten).1 = 0 ↔ (r.2.2 = false ∧ decodeFinal r.1 = 0) := by
  exact decode_chunking_aux chunks

/-! ### non-vacuity -/

example : decodeBlock (encodeBlock [0x14, 0xfb, 0x9c, 0x03, 0xd9]) = (0, [0x14, 0xfb, 0x9c, 0x03, 0xd9]) := by decide
example : WellFormed [70, 80, 10, 115, 61] := by
  refine ⟨[70, 80, 115], 1, by decide, ?_, by decide, by decide⟩
  intro ch h; revert ch; decide
example : (decodeBlock [70, 80, 61, 115]).1 = -1 := by decide

end Munge.C19
