import Munge.Gen.Pack
/-!
# C10 / C01 / C08 (packers): what `enc_pack_outer` and `enc_pack_inner` write is exactly their allocation, in the v3 order

`Munge.Gen.Pack.enc_pack_outer` / `enc_pack_inner` are regenerated from `src/munged/enc.c` on every run by the K+cursor
translator: the allocation is a `("malloc", [size])` event, every store through the cursor a `("wr", [off, n, kind, v])`
event (kind 0: the byte `v`; kind 1: the big-endian 32-bit word `v`; kind 2: `n` bytes copied from the source named by
`<kernel>_srcNames[v]`).
-/
namespace Munge.C10Pack
open Munge.C Munge.Gen.Pack

/-- the stores of an event list tile `[pos, cap)`: the buffer is allocated first with `cap` bytes, each store begins where the
    previous one ended, has a non-negative length, and the last one ends exactly at `cap` -/
def tiles : Int → Option Int → List (String × List Int) → Prop
  | pos, cap, [] => cap = some pos
  | pos, cap, (nm, args) :: t =>
    if nm = "malloc" then cap = none ∧ pos = 0 ∧ 0 < args.getD 0 0 ∧ tiles 0 (some (args.getD 0 0)) t
    else if nm = "wr" then cap.isSome ∧ args.getD 0 (-1) = pos ∧ 0 ≤ args.getD 1 (-1) ∧ tiles (pos + args.getD 1 0) cap t
    else tiles pos cap t

/-- the stores, as (kind, value-or-source, length) in order -/
def layout (evs : List (String × List Int)) : List (Int × Int × Int) :=
  (evs.filter (·.1 == "wr")).map fun e => (e.2.getD 2 (-1), e.2.getD 3 (-1), e.2.getD 1 (-1))

theorem ite_intro {c : Prop} [Decidable c] {P Q : Prop} (hp : c → P) (hq : ¬c → Q) : if c then P else Q := by
  by_cases h : c
  · rw [if_pos h]; exact hp h
  · rw [if_neg h]; exact hq h

/-- **`enc_pack_outer` initialises exactly the bytes it allocates** (no byte of the outer layer is left uninitialised, none
    is written outside): for a fresh credential (`outer_mem_len = 0`), every `uint8` realm length and every IV length a
    cipher can report, the allocation has `5 + realm_len + iv_len` bytes and the stores tile it in order. -/
theorem outer_writes_tile (version cipher mac zip realm_len iv_len : Int) (outer : Int → Int)
    (hr : 0 ≤ realm_len ∧ realm_len ≤ 255) (hi : 0 ≤ iv_len ∧ iv_len ≤ 2147483000) :
    tiles 0 none (enc_pack_outer 0 version cipher mac zip realm_len iv_len 1 outer).events := by
  unfold enc_pack_outer
  simp only [apply_ite KOut.events, apply_ite (tiles 0 none)]
  repeat' (first | with_reducible apply ite_intro | intro _)
  all_goals (try simp only [wrapS32, wrapU64] at *)
  all_goals (simp [tiles] <;> omega)

/-- **The outer layer is written in the v3 order**: version, cipher, MAC, zip, realm length (one byte each), then the realm
    string (if any) and the IV (if any); and the place remembered for the compression fall-back (`outer_zip_ref`) is
    the zip byte, offset 3. -/
theorem outer_layout (version cipher mac zip realm_len iv_len : Int) (outer : Int → Int)
    (hr : 0 ≤ realm_len ∧ realm_len ≤ 255) (hi : 0 ≤ iv_len ∧ iv_len ≤ 2147483000) :
    let o := enc_pack_outer 0 version cipher mac zip realm_len iv_len 1 outer
    o.ret = 0 ∧ o.get "c.outer_zip_ref.off" (-1) = 3 ∧ o.get "c.outer_len" (-1) = 5 + realm_len + iv_len ∧
    layout o.events = [(0, version, 1), (0, cipher, 1), (0, mac, 1), (0, zip, 1), (0, realm_len, 1)] ++
      (if realm_len > 0 then [(2, 0, realm_len)] else []) ++ (if iv_len > 0 then [(2, 1, iv_len)] else []) := by
  dsimp only
  unfold enc_pack_outer
  by_cases h1 : realm_len > 0 <;> by_cases h2 : iv_len > 0 <;>
    simp [h1, h2, layout, KOut.get, KOut.written, wrapS32, wrapU64] <;> omega

example : enc_pack_outer_srcNames = ["c.msg.realm_str", "c.iv"] := by decide

/-- **`enc_pack_inner` initialises exactly the bytes it allocates**: salt, address length and address, seven big-endian
    words, payload - `salt_len + 1 + 4 + 28 + data_len` bytes, tiled in order, for every payload length the request
    gate admits. -/
theorem inner_writes_tile (salt_len time0 ttl cu cg au ag data_len : Int) (inner : Int → Int)
    (hs : 0 < salt_len ∧ salt_len ≤ 8) (hd : 0 ≤ data_len ∧ data_len ≤ 2147483000) :
    tiles 0 none (enc_pack_inner 0 salt_len time0 ttl cu cg au ag data_len 1 inner).events := by
  unfold enc_pack_inner
  simp only [apply_ite KOut.events, apply_ite (tiles 0 none)]
  repeat' (first | with_reducible apply ite_intro | intro _)
  all_goals (try simp only [wrapS32, wrapU64, wrapU32] at *)
  all_goals (simp [tiles] <;> omega)

/-- **The inner layer is written in the v3 order**: salt, address length (= 4), address (from the daemon's configuration),
    encode time, TTL, client UID, client GID, UID restriction, GID restriction, payload length (big-endian words), payload. -/
theorem inner_layout (salt_len time0 ttl cu cg au ag data_len : Int) (inner : Int → Int)
    (hs : 0 < salt_len ∧ salt_len ≤ 8) (hd : 0 ≤ data_len ∧ data_len ≤ 2147483000) :
    let o := enc_pack_inner 0 salt_len time0 ttl cu cg au ag data_len 1 inner
    o.ret = 0 ∧ o.get "c.inner_len" (-1) = salt_len + 33 + data_len ∧ o.get "c.msg.addr_len" (-1) = 4 ∧
    layout o.events = [(2, 0, salt_len), (0, 4, 1), (2, 1, 4), (1, time0, 4), (1, ttl, 4), (1, cu, 4), (1, cg, 4), (1, au, 4),
      (1, ag, 4), (1, data_len, 4)] ++ (if data_len > 0 then [(2, 2, data_len)] else []) := by
  dsimp only
  unfold enc_pack_inner
  by_cases h1 : data_len > 0 <;>
    simp [h1, layout, KOut.get, KOut.written, wrapS32, wrapU64, wrapU32] <;> omega

example : enc_pack_inner_srcNames = ["c.salt", "conf.addr", "c.msg.data"] := by decide

/-- non-vacuity: a realm of 2 bytes and an IV of 16 -/
example : (enc_pack_outer 0 3 4 5 0 2 16 1 (fun _ => 0)).events =
    [("malloc", [23]), ("wr", [0, 1, 0, 3]), ("wr", [1, 1, 0, 4]), ("wr", [2, 1, 0, 5]), ("wr", [3, 1, 0, 0]), ("wr", [4, 1, 0, 2]),
     ("wr", [5, 2, 2, 0]), ("wr", [7, 16, 2, 1])] := by decide +kernel

end Munge.C10Pack
