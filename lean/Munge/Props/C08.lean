import Munge.Model.Cred
import Munge.Lemmas.CredA
/-
C08 — no input can crash, corrupt, leak or wedge the daemon (PARTIAL: the bounds and state logic).

What is proved here is about the model's parsers, which test a bound exactly where the C tests one and
route every access through `byteAt` / `takeN` (an out-of-range access yields `PR.oob`).  Memory safety,
leak-freedom and liveness of the C itself are established by the sanitizers in the correspondence run on
the explored inputs; that the C has this check structure is what the byte-exact correspondence shows.
-/
namespace Munge.C08
open Munge.Cred Munge.Gen.Dec

def isOob {α : Type} : PR α → Bool
  | .oob => true
  | _ => false

/-- For EVERY byte string as the unarmored credential body, every message state and every primitive
    table, the outer-layer parser never reads outside the buffer (version, cipher, MAC and zip types,
    realm, IV and MAC — the MAC copy is bounded by the bytes that remain). -/
theorem unpackOuter_no_oob (P : Prims) (m : Msg) (buf : Bytes) : isOob (unpackOuter P m buf) = false := by
  have := unpackOuter_ne_oob P m buf
  cases h : unpackOuter P m buf <;> simp_all [isOob]

/-- For EVERY byte string as the (decrypted, decompressed) inner layer — in particular validly MAC'd
    ones with a malformed interior: any truncation, any address length, any data length — the inner
    parser never reads outside it, and the payload it hands to the reply lies inside it. -/
theorem unpackInner_no_oob (m : Msg) (buf : Bytes) : isOob (unpackInner m buf) = false := by
  have := unpackInner_ne_oob m buf
  cases h : unpackInner m buf <;> simp_all [isOob]

/-- the payload returned by a successful inner parse is a sub-range of the buffer of exactly `data_len` bytes -/
theorem unpackInner_payload_inside (m m' : Msg) (buf : Bytes) (h : unpackInner m buf = .ok m') :
    m'.data.length = m'.dataLen ∧ m'.dataLen ≤ buf.length := by
  have := PR.sat_ok (unpackInner_sat m buf) h
  exact ⟨this.2.2.2.2.2.1, this.2.2.2.2.2.2⟩

/-- Hence a whole decode never reads out of bounds, for every request, environment, cache state and
    primitive table. -/
theorem decode_no_oob (P : Prims) (cf : Conf) (env : Env) (rs : ReplaySet) (m : Msg) :
    (decProcess P cf env rs m).oob = false := by
  exact (exit_facts (decProcess_spec P cf env rs m)).1

/-- The length limit is applied to the header alone: a request whose declared length exceeds the
    maximum is refused whatever follows it (nothing of the body is looked at, let alone buffered). -/
theorem refuse_before_buffering (hdr body1 body2 : Bytes) (h : hdr.length = 11)
    (hl : (rd32 ((hdr.drop 7).take 4) : Int) > MUNGE_MAXIMUM_REQ_LEN) :
    (∃ why, recvMsg (hdr ++ body1) = .drop why) ∧ recvMsg (hdr ++ body1) = recvMsg (hdr ++ body2) := by
  rw [recvMsg_long hdr body1 h hl, recvMsg_long hdr body2 h hl]
  refine ⟨?_, rfl⟩
  split
  · exact ⟨_, rfl⟩
  split
  · exact ⟨_, rfl⟩
  · exact ⟨_, rfl⟩

/-- A request that is not answered with success never changes the shared replay state, and a
    successful one adds exactly its own key: one hostile input cannot corrupt what later requests see. -/
theorem failed_request_leaves_state (P : Prims) (cf : Conf) (env : Env) (rs : ReplaySet) (m : Msg) :
    let o := decProcess P cf env rs m
    (o.rc ≠ 0 → o.replay = rs) ∧
    (o.rc = 0 → ∃ k, o.key = some k ∧ (o.replay = rs ∨ o.replay = k :: rs)) := by
  intro o
  have := exit_facts (decProcess_spec P cf env rs m)
  exact ⟨fun h => (this.2.2.1 h).2, fun h => (this.2.2.2 h).2⟩

/-- Every transaction ends in exactly one of: a reply (a well-formed ENC_RSP / DEC_RSP header + body) or
    a closed connection; encode requests never touch the replay state.  (`hfit`: the reply body fits the
    32-bit length field — the primitives are unconstrained here, so a 4 GiB "MAC" must be excluded.) -/
theorem always_an_answer (P : Prims) (cf : Conf) (env : Env) (rs : ReplaySet) (req : Bytes) (sendOk : Bool)
    (hfit : ∀ b, (jobExec P cf env rs req sendOk).1 = some b → b.length < 4294967296 + 11) :
    let r := jobExec P cf env rs req sendOk
    (r.1 = none ∨ ∃ b, r.1 = some b ∧ 11 ≤ b.length ∧ b.take 5 = [0, 96, 109, 75, 4] ∧
        ((b.getD 5 0 = 3) ∨ (b.getD 5 0 = 5)) ∧ rd32 ((b.drop 7).take 4) = b.length - 11) ∧
    ((∃ m, recvMsg req = .enc m) → r.2 = rs) := by
  intro r
  have hr : r = jobExec P cf env rs req sendOk := rfl
  have hfit' : ∀ b, r.1 = some b → b.length < 4294967296 + 11 := hfit
  clear_value r
  clear hfit
  have key : ∀ (t retry : Nat) (body : Bytes), (t = 3 ∨ t = 5) →
      r.1 = some (hdrBytes t retry body.length ++ body) →
      ∃ b, r.1 = some b ∧ 11 ≤ b.length ∧ b.take 5 = [0, 96, 109, 75, 4] ∧
        ((b.getD 5 0 = 3) ∨ (b.getD 5 0 = 5)) ∧ rd32 ((b.drop 7).take 4) = b.length - 11 := by
    intro t retry body ht hr
    have w := rsp_wellformed t retry body (hfit' _ hr)
    refine ⟨_, hr, w.1, w.2.1, ?_, w.2.2.2⟩
    rw [w.2.2.1]
    rcases ht with rfl | rfl
    · exact .inl rfl
    · exact .inr rfl
  clear hfit'
  unfold jobExec at hr
  generalize recvMsg req = rv at hr ⊢
  rcases rv with m | m | why
  · -- encode
    simp only [] at hr
    refine ⟨?_, fun _ => by rw [hr]⟩
    cases sendOk
    · exact .inl (by rw [hr]; rfl)
    · obtain ⟨body, hb⟩ := encRsp_shape (encProcess P cf env m).1
      exact .inr (key 3 _ body (.inl rfl) (by rw [hr, ← hb]; rfl))
  · -- decode
    simp only [] at hr
    refine ⟨?_, fun h => by obtain ⟨_, h⟩ := h; cases h⟩
    cases sendOk
    · exact .inl (by rw [hr]; rfl)
    · obtain ⟨body, hb⟩ := decRsp_shape (decProcess P cf env rs m).msg
      exact .inr (key 5 _ body (.inr rfl) (by rw [hr, ← hb]; rfl))
  · simp only [] at hr
    exact ⟨.inl (by rw [hr]), fun _ => by rw [hr]⟩


/-! ### the check sites the model was written against -/

/-- The `m_msg_set_err` call sites of every stage function of dec.c and enc.c, in source order (code,
    message literal; "" = NULL), as they were when the hand-written parsers of `Munge/Model/Cred.lean`
    were written against them.  (Sites with code 5 / internal-failure texts are allocation or primitive
    failures the model does not exhibit.) -/
def sitesAsModelled : List (String × List (Int × String)) := [
  ("dec_validate_msg", [(1, "No credential specified in decode request")]),
  ("dec_timestamp", [(1, "Failed to query current time")]),
  ("dec_authenticate", [(1, "Failed to determine client identity")]),
  ("dec_check_retry", [(6, "Exceeded maximum number of decode attempts")]),
  ("dec_unarmor", [(2, "No credential specified"), (8, "Failed to match armor prefix"), (8, "Failed to match armor suffix"), (5, ""), (8, "Failed to base64-decode credential")]),
  ("dec_unpack_outer", [(8, "Truncated credential version"), (9, "Invalid credential version %d"), (8, "Truncated cipher type"), (10, "Invalid cipher type %d"), (1, "Failed to determine IV length for cipher type %d"), (8, "Truncated MAC type"), (11, "Invalid MAC type %d"), (1, "Failed to determine digest length for MAC type %d"), (11, "Invalid MAC type %d with cipher type %d"), (8, "Truncated compression type"), (12, "Invalid compression type %d"), (8, "Truncated security realm length"), (8, "Truncated security realm string"), (5, ""), (8, "Truncated cipher IV"), (8, "Truncated MAC")]),
  ("dec_decrypt", [(1, "Failed to determine DEK key length for MAC type %d"), (1, "Failed to compute DEK"), (1, "Failed to determine block size for cipher type %d"), (5, ""), (14, ""), (1, "Failed to decrypt credential")]),
  ("dec_validate_mac", [(14, ""), (1, "Failed to MAC credential")]),
  ("dec_decompress", [(5, ""), (14, ""), (1, "Failed to decompress credential")]),
  ("dec_unpack_inner", [(8, "Truncated salt"), (8, "Truncated origin IP addr length"), (8, "Truncated origin IP addr"), (8, "Invalid origin IP addr length"), (8, "Truncated encode time"), (8, "Truncated time-to-live"), (8, "Truncated UID"), (8, "Truncated GID"), (8, "Truncated UID restriction"), (8, "Truncated GID restriction"), (8, "Truncated data length"), (8, "Truncated data")]),
  ("dec_validate_auth", [(18, "Unauthorized credential for client UID=%u GID=%u")]),
  ("dec_validate_time", [(16, ""), (15, "")]),
  ("dec_validate_replay", [(17, ""), (5, ""), (1, "")]),
  ("enc_validate_msg", [(10, "Invalid cipher type %d"), (11, "Invalid MAC type %d"), (11, "Invalid MAC type %d with cipher type %d"), (12, "Invalid compression type %d")]),
  ("enc_init", [(1, "Failed to determine IV length for cipher type %d")]),
  ("enc_authenticate", [(1, "Failed to determine client identity")]),
  ("enc_check_retry", [(6, "Exceeded maximum number of encode attempts")]),
  ("enc_timestamp", [(1, "Failed to query current time")]),
  ("enc_pack_outer", [(5, "")]),
  ("enc_pack_inner", [(5, "")]),
  ("enc_compress", [(5, ""), (1, "Failed to compress credential")]),
  ("enc_mac", [(1, "Failed to determine digest length for MAC type %d"), (1, "Failed to MAC credential")]),
  ("enc_encrypt", [(1, "Failed to determine DEK key length for MAC type %d"), (1, "Failed to compute DEK"), (1, "Failed to determine block size for cipher type %d"), (5, ""), (1, "Failed to encrypt credential")]),
  ("enc_armor", [(5, ""), (1, "Failed to base64-encode credential")]),
  ("enc_fini", [])]

/-- The check sites of the C source are still exactly those: a bounds check or validation removed from,
    added to, reordered in or re-worded in dec.c / enc.c changes the generated list and breaks this. -/
theorem check_sites_as_modelled : errorSites = sitesAsModelled := by
  decide

/-! ### non-vacuity: the parsers do reach their deepest branches -/
example : isOob (unpackInner {} ((List.replicate 8 0) ++ [4, 127, 0, 0, 1] ++ be32 5 ++ be32 300 ++ be32 1 ++ be32 2 ++
    be32 4294967295 ++ be32 4294967295 ++ be32 2 ++ [104, 105])) = false := by decide

end Munge.C08
