import Munge.Gen.Dec
import Munge.Lemmas.ConfReads
/-
C06 — Credentials are valid exactly inside their time window; TTLs are bounded.

Every theorem is about `Munge.Gen.Dec.dec_validate_time` / `enc_validate_msg` /
`dec_process_msg`, which tools/gen/g_dec.py re-translates from src/munged/dec.c and
enc.c on every run (clang's typed AST: the `uint32_t` arithmetic and the widening to
`time_t` appear exactly as the compiler sees them).  Proof recipe: push the projection
through the decision tree (`apply_ite`), unfold the C wrap functions, `omega`.
-/
namespace Munge.C06
open Munge.C Munge.Gen.Dec

/-- the TTL the decoding daemon honours: the credential's TTL capped by `--max-ttl` -/
def cap (ttl maxTtl : Int) : Int := if ttl > maxTtl then maxTtl else ttl
/-- allowed backwards skew: the capped TTL, or 1 s when skew tolerance is compiled out -/
def skew (ttl maxTtl gotSkew : Int) : Int := if gotSkew ≠ 0 then cap ttl maxTtl else 1

/-- ranges of the quantities as C holds them: three `uint32_t`, `--max-ttl` in 1..MUNGE_MAXIMUM_TTL,
    a 1-bit flag -/
def Ranges (ttl t0 t1 maxTtl gotSkew : Int) : Prop :=
  0 ≤ ttl ∧ ttl < 4294967296 ∧ 0 ≤ t0 ∧ t0 < 4294967296 ∧ 0 ≤ t1 ∧ t1 < 4294967296 ∧
  1 ≤ maxTtl ∧ maxTtl ≤ MUNGE_MAXIMUM_TTL ∧ 0 ≤ gotSkew ∧ gotSkew ≤ 1

/-- Decoding is accepted ONLY inside the window `t0 - skew ≤ t1 ≤ t0 + ttl'` over the integers —
    unconditionally, i.e. also where the 32-bit arithmetic wraps (there the code only rejects more). -/
theorem ok_only_in_window (ttl t0 t1 maxTtl gotSkew : Int) (h : Ranges ttl t0 t1 maxTtl gotSkew)
    (hok : (dec_validate_time ttl t0 t1 maxTtl gotSkew).ret = 0) :
    t0 - skew ttl maxTtl gotSkew ≤ t1 ∧ t1 ≤ t0 + cap ttl maxTtl := by
  unfold Ranges MUNGE_MAXIMUM_TTL at h
  unfold dec_validate_time at hok
  simp only [apply_ite KOut.ret] at hok
  unfold skew cap wrapU32 wrapS32 at *
  omega

/-- No credential is honoured for longer than the decoding daemon's `--max-ttl`, whatever TTL the
    credential carries (e.g. one minted by a daemon with a larger maximum). -/
theorem never_longer_than_max_ttl (ttl t0 t1 maxTtl gotSkew : Int) (h : Ranges ttl t0 t1 maxTtl gotSkew)
    (hok : (dec_validate_time ttl t0 t1 maxTtl gotSkew).ret = 0) : t1 ≤ t0 + maxTtl := by
  have := (ok_only_in_window ttl t0 t1 maxTtl gotSkew h hok).2
  unfold cap at this; split at this <;> omega

/-- Contrapositive: outside the window the kernel always rejects, wrap-around or not. -/
theorem outside_window_rejected (ttl t0 t1 maxTtl gotSkew : Int) (h : Ranges ttl t0 t1 maxTtl gotSkew)
    (hout : t1 < t0 - skew ttl maxTtl gotSkew ∨ t1 > t0 + cap ttl maxTtl) :
    (dec_validate_time ttl t0 t1 maxTtl gotSkew).ret ≠ 0 := by
  intro hok
  have := ok_only_in_window ttl t0 t1 maxTtl gotSkew h hok
  omega

/-- Where no 32-bit wrap occurs (encode time not within `skew` seconds of 1970-01-01 nor within
    `ttl'` seconds of 2106-02-07) the verdict is EXACTLY the window, both boundaries inclusive:
    inside ⇒ accepted, no error; later ⇒ EXPIRED; earlier ⇒ REWOUND. -/
theorem window_exact (ttl t0 t1 maxTtl gotSkew : Int) (h : Ranges ttl t0 t1 maxTtl gotSkew)
    (hlo : skew ttl maxTtl gotSkew ≤ t0) (hhi : t0 + cap ttl maxTtl < 4294967296) :
    let r := dec_validate_time ttl t0 t1 maxTtl gotSkew
    (t0 - skew ttl maxTtl gotSkew ≤ t1 ∧ t1 ≤ t0 + cap ttl maxTtl → r.ret = 0 ∧ r.err = 0) ∧
    (t1 > t0 + cap ttl maxTtl → r.ret = -1 ∧ r.err = EMUNGE_CRED_EXPIRED) ∧
    (t1 < t0 - skew ttl maxTtl gotSkew → r.ret = -1 ∧ r.err = EMUNGE_CRED_REWOUND) := by
  unfold Ranges MUNGE_MAXIMUM_TTL at h
  unfold dec_validate_time EMUNGE_CRED_EXPIRED EMUNGE_CRED_REWOUND
  simp only [apply_ite KOut.ret, apply_ite KOut.err]
  simp only [KOut.err, List.find?, String.reduceBEq]
  unfold skew cap wrapU32 wrapS32 at *
  omega

/-- On decode the TTL field of the reply is the capped one: never above the decoder's maximum. -/
theorem decode_caps_ttl (ttl t0 t1 maxTtl gotSkew : Int) (h : Ranges ttl t0 t1 maxTtl gotSkew) :
    (dec_validate_time ttl t0 t1 maxTtl gotSkew).get "c.msg.ttl" ttl = cap ttl maxTtl := by
  unfold Ranges MUNGE_MAXIMUM_TTL at h
  unfold dec_validate_time
  simp only [apply_ite (fun o => KOut.get o "c.msg.ttl" ttl)]
  simp only [KOut.get, KOut.written, List.find?, Option.map, Option.getD, String.reduceBEq]
  unfold cap wrapU32 at *
  omega

/-- On encode: TTL 0 selects the daemon default; any other TTL above the maximum (including the
    `MUNGE_TTL_MAXIMUM` sentinel 0xFFFFFFFF) is clamped to it; otherwise it is unchanged.  For every
    cipher/MAC/zip request and every primitive table. -/
theorem encode_ttl (cipher mac zip dl ttl dc dm dz defTtl maxTtl : Int) (f1 f2 f3 f4 f5 : Int → Int)
    (h : 0 ≤ ttl ∧ ttl < 4294967296 ∧ 1 ≤ maxTtl ∧ maxTtl ≤ MUNGE_MAXIMUM_TTL ∧ 0 ≤ defTtl ∧ defTtl ≤ MUNGE_MAXIMUM_TTL)
    (hok : (enc_validate_msg cipher mac zip dl ttl dc dm dz defTtl maxTtl f1 f2 f3 f4 f5).ret = 0) :
    (enc_validate_msg cipher mac zip dl ttl dc dm dz defTtl maxTtl f1 f2 f3 f4 f5).get "m.ttl" ttl =
      if ttl = 0 then defTtl else if ttl > maxTtl then maxTtl else ttl := by
  unfold MUNGE_MAXIMUM_TTL at h
  have e1 : wrapU32 maxTtl = maxTtl := by unfold wrapU32; omega
  have e2 : wrapU32 defTtl = defTtl := by unfold wrapU32; omega
  unfold enc_validate_msg at *
  simp only [apply_ite KOut.ret, apply_ite (fun o => KOut.get o "m.ttl" ttl)] at *
  simp only [KOut.get, KOut.written, List.find?, Option.map, Option.getD, String.reduceBEq, e1, e2] at *
  -- the only `if`s nested inside conditions are the default resolutions of cipher and MAC
  by_cases hc : cipher = 1 <;> by_cases hm : mac = 1 <;> simp only [hc, hm, if_true, if_false] at hok ⊢
  -- every early-return leaf has ret = -1, contradicting `hok`; the last leaf carries the TTL resolution
  all_goals (repeat' (split at hok))
  all_goals (first | omega | (simp only [*, if_false]))

/-- Consequently an encoded TTL is always within 1..max(default, maximum); with the shipped default
    (300 ≤ maximum) it is within 1..maximum unless `--max-ttl` was lowered below the default. -/
theorem encode_ttl_bounded (cipher mac zip dl ttl dc dm dz defTtl maxTtl : Int) (f1 f2 f3 f4 f5 : Int → Int)
    (h : 0 ≤ ttl ∧ ttl < 4294967296 ∧ 1 ≤ maxTtl ∧ maxTtl ≤ MUNGE_MAXIMUM_TTL ∧ 1 ≤ defTtl ∧ defTtl ≤ maxTtl)
    (hok : (enc_validate_msg cipher mac zip dl ttl dc dm dz defTtl maxTtl f1 f2 f3 f4 f5).ret = 0) :
    let t := (enc_validate_msg cipher mac zip dl ttl dc dm dz defTtl maxTtl f1 f2 f3 f4 f5).get "m.ttl" ttl
    1 ≤ t ∧ t ≤ maxTtl := by
  have := encode_ttl cipher mac zip dl ttl dc dm dz defTtl maxTtl f1 f2 f3 f4 f5 (by omega) hok
  simp only [this]
  split <;> (try split) <;> omega

/-- EXPIRED, REWOUND (and REPLAYED) are "soft": `dec_process_msg` does not reset the message for them,
    so the authenticated payload and metadata are still returned; for every other failure the message
    is reset exactly once before it is sent. -/
theorem soft_errors_keep_payload
    (e r1 r2 r3 r4 r5 r6 r7 r8 r9 r10 r11 r12 r13 r14 rs ri : Int) :
    let out := dec_process_msg e r2 ri r1 r3 r4 r5 r6 r7 r8 r9 r10 r11 r12 r13 r14 rs
    ((e = EMUNGE_CRED_EXPIRED ∨ e = EMUNGE_CRED_REWOUND ∨ e = EMUNGE_CRED_REPLAYED) →
        out.count "m_msg_reset" = 0) ∧
    (out.ret ≠ 0 → rs = 0 → e ≠ EMUNGE_CRED_EXPIRED → e ≠ EMUNGE_CRED_REWOUND → e ≠ EMUNGE_CRED_REPLAYED →
        out.count "m_msg_reset" = 1) ∧
    out.count "m_msg_send" = 1 := by
  unfold EMUNGE_CRED_EXPIRED EMUNGE_CRED_REWOUND EMUNGE_CRED_REPLAYED
  unfold dec_process_msg
  simp only [apply_ite KOut.ret, apply_ite (fun o => KOut.count o "m_msg_reset"),
    apply_ite (fun o => KOut.count o "m_msg_send")]
  simp only [KOut.count, List.filter, String.reduceBEq, List.length]
  omega

/-- **The clock decides every presentation of an out-of-window credential.**  In `dec_process_msg` (translated from
    dec.c) the time check runs before the replay stage - the only stage that records a credential - and when it refuses
    (EXPIRED / REWOUND, `r13 < 0`) the replay stage is not run at all and nothing is withdrawn: presenting a credential
    too early or too late leaves the replay cache untouched, so a second late presentation is EXPIRED again (not
    REPLAYED) and a credential first presented too early is still valid once inside its window. -/
theorem out_of_window_is_not_recorded
    (e r1 r2 r3 r4 r5 r6 r7 r8 r9 r10 r11 r12 r13 r14 rs ri : Int) (htime : r13 < 0) :
    let out := dec_process_msg e r2 ri r1 r3 r4 r5 r6 r7 r8 r9 r10 r11 r12 r13 r14 rs
    out.count "dec_validate_replay" = 0 ∧ out.count "replay_remove" = 0 ∧ out.ret = -1 := by
  unfold dec_process_msg
  simp only [apply_ite KOut.ret, apply_ite (fun o => KOut.count o "dec_validate_replay"),
    apply_ite (fun o => KOut.count o "replay_remove")]
  simp only [KOut.count, List.filter, String.reduceBEq, List.length]
  omega

/-- … and the time check is reached only by a credential that passed the MAC and the authorisation check, exactly once. -/
theorem time_check_runs_once_after_auth
    (e r1 r2 r3 r4 r5 r6 r7 r8 r9 r10 r11 r12 r13 r14 rs ri : Int) :
    let out := dec_process_msg e r2 ri r1 r3 r4 r5 r6 r7 r8 r9 r10 r11 r12 r13 r14 rs
    out.count "dec_validate_time" ≤ 1 ∧
    (out.count "dec_validate_replay" = 1 → out.count "dec_validate_time" = 1 ∧ r13 ≥ 0 ∧ r12 ≥ 0) := by
  unfold dec_process_msg
  simp only [apply_ite (fun o => KOut.count o "dec_validate_replay"), apply_ite (fun o => KOut.count o "dec_validate_time")]
  simp only [KOut.count, List.filter, String.reduceBEq, List.length]
  omega

/-! ### non-vacuity: concrete points of the window, evaluated on the generated kernel -/

example : Ranges 300 1000000 1000300 3600 1 := by unfold Ranges MUNGE_MAXIMUM_TTL; omega
example : (dec_validate_time 300 1000000 1000300 3600 1).ret = 0 := by decide
example : (dec_validate_time 300 1000000 1000301 3600 1).err = EMUNGE_CRED_EXPIRED := by decide
example : (dec_validate_time 300 1000000 999699 3600 1).err = EMUNGE_CRED_REWOUND := by decide
example : (dec_validate_time 300 1000000 999700 3600 1).ret = 0 := by decide
example : (dec_validate_time 4294967295 1000000 1003601 3600 1).err = EMUNGE_CRED_EXPIRED := by decide
/-- wrap region (encode time 10 s after the epoch, ttl 300): fails closed as REWOUND -/
example : (dec_validate_time 300 10 20 3600 1).ret = -1 := by decide

/-- The pipeline's source files consult exactly the configuration fields that the model's `Conf` carries (table regenerated
    from the source on every run): the theorems above, stated for every `cf`, cover every configuration switch that can
    influence the validity window.  A new `conf->…` dependence in enc.c / dec.c / cred.c / m_msg.c breaks this. -/
theorem conf_fields_as_modelled : Munge.Gen.Dec.confReads = Munge.Cred.confAsModelled :=
  Munge.Cred.conf_reads_as_modelled

end Munge.C06
