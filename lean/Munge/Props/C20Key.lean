import Munge.Gen.Key
/-!
# C20 (key creation): a key is written only after every step of the derivation succeeded

`Munge.Gen.Key.create_key_secret` is `_create_key_secret` of `src/mungekey/key.c`, re-translated on every run (C integer
semantics explicit: `int` results compared with `size_t` constants go through the usual conversions).  The results of the
entropy source, of the distinguisher formatting and of the HKDF context calls are inputs; each call is an event.
`create_key` treats a return value of -1 as fatal before anything is written to the key file.
-/
namespace Munge.C20Key
open Munge.C Munge.Gen.Key

/-- the calls of a successful derivation, in order -/
def allSteps : List (String × List Int) :=
  [("entropy_read", []), ("entropy_read_uint", []), ("munge_enum_int_to_str", []), ("snprintf", []), ("hkdf_ctx_create", []),
   ("hkdf_ctx_set_md", []), ("hkdf_ctx_set_key", []), ("hkdf_ctx_set_salt", []), ("hkdf_ctx_set_info", []), ("hkdf", []),
   ("hkdf_ctx_destroy", [])]

/-- **No entropy, no key.**  If the kernel entropy read (`entropy_read`, 256 bytes of input keying material) or the salt
    read (`entropy_read_uint`) reports failure, `_create_key_secret` returns -1 (which `create_key` treats as fatal) and
    HKDF is never run on whatever the key buffer happens to contain. -/
theorem no_entropy_no_key (buflen re ru rs r1 r2 r3 r4 rh md hp : Int) (h : re = -1 ∨ ru = -1) :
    let o := create_key_secret buflen re ru rs r1 r2 r3 r4 rh md hp
    o.ret = -1 ∧ o.count "hkdf" = 0 ∧ o.count "hkdf_ctx_set_key" = 0 := by
  dsimp only
  unfold create_key_secret
  simp only [apply_ite KOut.ret, apply_ite (fun o => KOut.count o "hkdf"), apply_ite (fun o => KOut.count o "hkdf_ctx_set_key")]
  simp only [KOut.count, List.filter, String.reduceBEq, List.length]
  omega

/-- **A key comes out only of the complete derivation**: a return value of 0 means every step ran exactly once, in the order
    entropy, salt, distinguisher, HKDF context (digest, key, salt, info), HKDF, clean-up - and every one of them succeeded. -/
theorem success_means_every_step (buflen re ru rs r1 r2 r3 r4 rh md hp : Int) (hrs : -2147483648 ≤ rs ∧ rs ≤ 2147483647)
    (h : (create_key_secret buflen re ru rs r1 r2 r3 r4 rh md hp).ret = 0) :
    (create_key_secret buflen re ru rs r1 r2 r3 r4 rh md hp).events = allSteps ∧
    re ≠ -1 ∧ ru ≠ -1 ∧ md ≠ 0 ∧ 0 ≤ rs ∧ rs < 1024 ∧ hp ≠ 0 ∧ r1 ≠ -1 ∧ r2 ≠ -1 ∧ r3 ≠ -1 ∧ r4 ≠ -1 ∧ rh = 0 := by
  unfold create_key_secret at h ⊢
  simp only [apply_ite KOut.ret, apply_ite KOut.events] at h ⊢
  unfold wrapU64 at h ⊢
  repeat' (first | split at h | omega)
  all_goals (simp [*, allSteps]; omega)

/-- **Any failing step means no key** (each step returns -1 on failure, a NULL pointer for the two look-ups): the function
    returns -1. -/
theorem failing_step_no_key (buflen re ru rs r1 r2 r3 r4 rh md hp : Int)
    (h : re = -1 ∨ ru = -1 ∨ md = 0 ∨ rs < 0 ∨ 1024 ≤ rs ∧ rs < 2147483648 ∨ hp = 0 ∨ r1 = -1 ∨ r2 = -1 ∨ r3 = -1 ∨ r4 = -1 ∨ rh = -1) :
    (create_key_secret buflen re ru rs r1 r2 r3 r4 rh md hp).ret = -1 := by
  unfold create_key_secret
  simp only [apply_ite KOut.ret]
  unfold wrapU64
  omega

/-- **The HKDF context (which holds the input keying material) is destroyed on every path**, exactly once. -/
theorem context_destroyed_once (buflen re ru rs r1 r2 r3 r4 rh md hp : Int) :
    (create_key_secret buflen re ru rs r1 r2 r3 r4 rh md hp).count "hkdf_ctx_destroy" = 1 := by
  unfold create_key_secret
  simp only [apply_ite (fun o => KOut.count o "hkdf_ctx_destroy")]
  simp only [KOut.count, List.filter, String.reduceBEq, List.length]
  omega

/-- non-vacuity: the successful run, and the run on a machine without an entropy source -/
example : (create_key_secret 128 256 0 21 0 0 0 0 0 1 1).ret = 0 ∧ (create_key_secret 128 256 0 21 0 0 0 0 0 1 1).events = allSteps := by decide
example : (create_key_secret 128 (-1) 0 21 0 0 0 0 0 1 1).events = [("entropy_read", []), ("hkdf_ctx_destroy", [])] := by decide

end Munge.C20Key
