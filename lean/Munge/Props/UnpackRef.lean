import Munge.Lemmas.Unpack
import Munge.Props.C08Unpack
import Munge.Model.ToyPrims
/-!
# The hand-written credential parsers ARE the code (C02, C08, C10: the tie of `Cred.unpackOuter` / `unpackInner`)

`Munge.Cred.unpackOuter` and `Munge.Cred.unpackInner` are the hand-written parsers on which the credential theorems
(C01, C02, C08, C09, C10) are stated.  `Munge.Gen.Unpack.dec_unpack_outer` / `dec_unpack_inner` are regenerated from
`src/munged/dec.c` on every run by the K+cursor translator.  The theorems below show, for **every** byte string (up to
INT_MAX bytes), every message and every primitive table, that the model's result is the translated kernel's result:
the same success / failure, the same error code, the same header fields, and the model's slices (outer layer, IV, MAC,
inner layer, payload, origin address, realm) are exactly the byte ranges the kernel's offsets describe.  A semantic
edit of either parser in dec.c changes the generated kernel and breaks these proofs even when no correspondence stream
happens to contain the distinguishing input.

The relation itself (`OuterRef`, `InnerRef`) is defined in `Lemmas/Unpack.lean`; it is restated in the docstrings.
-/
namespace Munge.UnpackRef
open Munge.C Munge.Cred Munge.Unpack Munge.Gen.Unpack

/-- **`Cred.unpackOuter` refines the translated `dec_unpack_outer`.**  With the kernel run on the same bytes
    (`kOuter`: length `buf.length`, buffer `bufOf buf`, table answers of `P`, allocation succeeding):
    * the model never answers `oob`;
    * the model fails with code `e` ⇔ the kernel returns -1 and its first `m_msg_set_err` carries `e`;
    * the model succeeds with `(m', s)` ⇔ the kernel returns 0, and then `m'.cipher / mac / zip / realmLen` are the
      values the kernel writes to `m->cipher / mac / zip / realm_len`, `s.macLen = c->mac_len`, `|s.iv| = c->iv_len`,
      `s.outer = buf[0 .. c->outer_len)`, `s.iv` = the last `iv_len` bytes of that, `s.mac = buf[c->outer_len ..
      +mac_len)`, `s.inner = buf[c->inner ..]`, and the realm is `buf[5 .. 5+realm_len) ‖ NUL` when present. -/
theorem unpackOuter_is_the_code (P : Prims) (m : Msg) (buf : Bytes) (hlen : buf.length ≤ 2147483647) :
    OuterRef m buf (kOuter P buf) (unpackOuter P m buf) :=
  unpackOuter_refines P m buf hlen

/-- **`Cred.unpackInner` refines the translated `dec_unpack_inner`**: same outcome and error code; on success
    `addrLen, time0, ttl, credUid, credGid, authUid, authGid, dataLen` are the values the kernel stores (big-endian
    reads at the kernel's offsets), the address is `buf[9 .. 13)` or zero, and the payload is `buf[m->data ..
    +data_len)` (NULL / empty when `data_len = 0`). -/
theorem unpackInner_is_the_code (m : Msg) (cipher : Nat) (buf : Bytes) (hlen : buf.length ≤ 2147483647) :
    InnerRef buf (kInner cipher buf) (unpackInner m buf) :=
  unpackInner_refines m cipher buf hlen

/-- Corollary (outer): the model accepts exactly when the code accepts. -/
theorem outer_accepts_iff (P : Prims) (m : Msg) (buf : Bytes) (hlen : buf.length ≤ 2147483647) :
    (∃ r, unpackOuter P m buf = .ok r) ↔ (kOuter P buf).ret = 0 := by
  have h := unpackOuter_refines P m buf hlen
  cases hr : unpackOuter P m buf with
  | oob => rw [hr] at h; exact absurd h (by simp [OuterRef])
  | err e => rw [hr] at h; simp only [OuterRef] at h; constructor
             · rintro ⟨r, hr'⟩; cases hr'
             · intro h0; omega
  | ok r => rw [hr] at h; obtain ⟨m', s⟩ := r; simp only [OuterRef] at h; exact ⟨fun _ => h.1, fun _ => ⟨_, rfl⟩⟩

/-- Corollary (inner): the model accepts exactly when the code accepts. -/
theorem inner_accepts_iff (m : Msg) (cipher : Nat) (buf : Bytes) (hlen : buf.length ≤ 2147483647) :
    (∃ r, unpackInner m buf = .ok r) ↔ (kInner cipher buf).ret = 0 := by
  have h := unpackInner_refines m cipher buf hlen
  cases hr : unpackInner m buf with
  | oob => rw [hr] at h; exact absurd h (by simp [InnerRef])
  | err e => rw [hr] at h; simp only [InnerRef] at h; constructor
             · rintro ⟨r, hr'⟩; cases hr'
             · intro h0; omega
  | ok r => rw [hr] at h; simp only [InnerRef] at h; exact ⟨fun _ => h.1, fun _ => ⟨_, rfl⟩⟩

/-- Corollary: what the model hands to MAC verification is what the code hands to it - the MAC the model compares is
    `mac_len` bytes starting at `c->outer_len`, and with `C08Unpack.outer_result_tiles` those bytes and the inner layer
    lie inside the credential. -/
theorem outer_mac_region (P : Prims) (m : Msg) (buf : Bytes) (hlen : buf.length ≤ 2147483647) (m' : Msg) (s : Scratch)
    (h : unpackOuter P m buf = .ok (m', s)) :
    s.mac = (buf.drop ((kOuter P buf).get "c.outer_len" (-1)).toNat).take s.macLen ∧
    s.outer = buf.take ((kOuter P buf).get "c.outer_len" (-1)).toNat ∧
    s.inner = buf.drop ((kOuter P buf).get "c.inner.off" (-1)).toNat := by
  have hh := unpackOuter_refines P m buf hlen
  rw [h] at hh
  simp only [OuterRef] at hh
  exact ⟨hh.2.2.2.2.2.2.2.2.2.2.1, hh.2.2.2.2.2.2.2.2.1, hh.2.2.2.2.2.2.2.2.2.2.2.1⟩

/-- **`Cred.zipLength` (the model's reading of the compression header) is the translated `zip_decompress_length`** on the same
    bytes, for every byte string. -/
theorem zipLength_is_the_code (src : Bytes) (hlen : src.length ≤ 2147483647) :
    zipLength src = (zip_decompress_length 0 src.length (bufOf src)).ret := by
  rw [Munge.C08Unpack.zip_length_spec 0 src.length (bufOf src) ⟨by omega, by omega⟩]
  unfold zipLength
  by_cases h8 : src.length < 8
  · have : (src.length : Int) < 8 := by omega
    simp [h8, this]
  · have h8' : ¬ (src.length : Int) < 8 := by omega
    have e0 := rd32_bufOf (b := src) (k := 0) (j := 0) rfl (by omega)
    have e4 := rd32_bufOf (b := src) (k := 4) (j := 4) rfl (by omega)
    simp only [List.drop_zero] at e0
    rw [if_neg h8]
    simp only [h8', false_or]
    rw [← e0, ← e4]
    have hz : Munge.Gen.Dec.ZIP_MAGIC.toNat = 3402287818 := by decide
    have hz2 : ZIP_MAGIC = 3402287818 := rfl
    rw [hz, hz2]
    by_cases hmag : rd32 (List.take 4 src) = 3402287818
    · have : (rd32 (List.take 4 src) : Int) = 3402287818 := by omega
      simp [hmag, this]
    · have : ¬ (rd32 (List.take 4 src) : Int) = 3402287818 := by omega
      simp [hmag, this]

/-- non-vacuity: a 42-byte credential body on which both sides succeed -/
example : ∃ r, unpackOuter Munge.ToyPrims.prims {} ([3, 0, 5, 0, 2, 97, 98] ++ List.replicate 32 7 ++ [1, 2, 3]) = .ok r :=
  (outer_accepts_iff _ _ _ (by decide)).mpr (by decide +kernel)

end Munge.UnpackRef
