/- Hex / byte-list helpers shared by models and the driver (no proofs depend on these). -/
namespace Munge.Hex

def hexDigit (n : Nat) : Char :=
  if n < 10 then Char.ofNat (48 + n) else Char.ofNat (87 + n)

def byteToHex (b : UInt8) : String :=
  String.ofList [hexDigit (b.toNat / 16), hexDigit (b.toNat % 16)]

def toHex (bs : List UInt8) : String :=
  String.join (bs.map byteToHex)

def hexVal (c : Char) : Option Nat :=
  if '0' ≤ c ∧ c ≤ '9' then some (c.toNat - 48)
  else if 'a' ≤ c ∧ c ≤ 'f' then some (c.toNat - 87)
  else if 'A' ≤ c ∧ c ≤ 'F' then some (c.toNat - 55)
  else none

def ofHexChars : List Char → Option (List UInt8)
  | [] => some []
  | [_] => none
  | a :: b :: rest => do
    let x ← hexVal a
    let y ← hexVal b
    let r ← ofHexChars rest
    pure (UInt8.ofNat (x * 16 + y) :: r)

/-- "-" denotes the empty byte string on the wire protocol -/
def ofHex (s : String) : Option (List UInt8) :=
  if s == "-" then some [] else ofHexChars s.toList

def showHex (bs : List UInt8) : String :=
  if bs.isEmpty then "-" else toHex bs

end Munge.Hex
