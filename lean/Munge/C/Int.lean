/-
C integer semantics used by the generated kernels (`Munge/Gen/*.lean`) and the
hand-written models.  Every C value is an `Int`; an operation performed at C type
`T` is followed by `wrap T`.  Signed overflow is modelled as two's-complement
wrap (UBSan in the harness reports real signed overflow).
-/
namespace Munge.C

/-- value of an unsigned `bits`-bit C integer holding `x` -/
@[reducible] def wrapU8  (x : Int) : Int := x % 256
@[reducible] def wrapU16 (x : Int) : Int := x % 65536
@[reducible] def wrapU32 (x : Int) : Int := x % 4294967296
@[reducible] def wrapU64 (x : Int) : Int := x % 18446744073709551616

/-- value of a signed two's-complement C integer holding `x` -/
@[reducible] def wrapS8 (x : Int) : Int := (x + 128) % 256 - 128
@[reducible] def wrapS16 (x : Int) : Int := (x + 32768) % 65536 - 32768
@[reducible] def wrapS32 (x : Int) : Int := (x + 2147483648) % 4294967296 - 2147483648
@[reducible] def wrapS64 (x : Int) : Int :=
  (x + 9223372036854775808) % 18446744073709551616 - 9223372036854775808

/-- C truth value of a proposition -/
@[reducible] def b2i (p : Prop) [Decidable p] : Int := if p then 1 else 0

/-- C division truncates toward zero -/
@[reducible] def cdiv (a b : Int) : Int := Int.tdiv a b
@[reducible] def cmod (a b : Int) : Int := Int.tmod a b

/-- bitwise operations on non-negative values (the generated code only uses them on
    values already wrapped to an unsigned type or on non-negative constants) -/
def band (a b : Int) : Int := Int.ofNat (a.toNat &&& b.toNat)
def bor  (a b : Int) : Int := Int.ofNat (a.toNat ||| b.toNat)
def bxor (a b : Int) : Int := Int.ofNat (a.toNat ^^^ b.toNat)
def shl  (a b : Int) : Int := Int.ofNat (a.toNat <<< b.toNat)
def shr  (a b : Int) : Int := Int.ofNat (a.toNat >>> b.toNat)
/-- `~a` at an unsigned width of `bits` -/
def bnotU (bits : Nat) (a : Int) : Int := (2 : Int) ^ bits - 1 - a % (2 : Int) ^ bits

theorem wrapU32_range (x : Int) : 0 ≤ wrapU32 x ∧ wrapU32 x < 4294967296 := by
  unfold wrapU32; omega

theorem wrapU32_id {x : Int} (h0 : 0 ≤ x) (h1 : x < 4294967296) : wrapU32 x = x := by
  unfold wrapU32; omega

theorem wrapS32_id {x : Int} (h0 : -2147483648 ≤ x) (h1 : x < 2147483648) : wrapS32 x = x := by
  unfold wrapS32; omega

theorem wrapS64_id {x : Int} (h0 : -9223372036854775808 ≤ x) (h1 : x < 9223372036854775808) :
    wrapS64 x = x := by
  unfold wrapS64; omega

end Munge.C
