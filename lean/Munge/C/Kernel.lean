import Munge.C.Int
/- Result record of a translated loop-free C kernel (see tools/gen/ktrans.py). -/
namespace Munge.C

structure KOut where
  ret : Int
  writes : List (String × Int)
  events : List (String × List Int)
deriving Repr, DecidableEq

def KOut.render (o : KOut) : String :=
  let w := o.writes.map fun (p, v) => s!"{p}={v}"
  let e := o.events.map fun (n, a) => s!"{n}({String.intercalate "," (a.map toString)})"
  s!"ret={o.ret} writes=[{String.intercalate ";" w}] events=[{String.intercalate ";" e}]"

/-- last value written to `path`, if any -/
def KOut.written (o : KOut) (path : String) : Option Int :=
  (o.writes.find? (·.1 == path)).map (·.2)

/-- error code of the first `m_msg_set_err` event (0 if none): since `m_msg_set_err` keeps the first
    error, this is the code the kernel leaves in a message that had no error before -/
def KOut.err (o : KOut) : Int :=
  match o.events.find? (·.1 == "m_msg_set_err") with
  | some (_, c :: _) => c
  | _ => 0

/-- final value of `path`: the value written, else the given old value -/
def KOut.get (o : KOut) (path : String) (old : Int) : Int := (o.written path).getD old

/-- number of calls to `name` (as an `Int`, so that `omega` can reason about it) -/
def KOut.count (o : KOut) (name : String) : Int := ((o.events.filter (·.1 == name)).length : Nat)

/-- does the kernel call `name`? -/
def KOut.calls (o : KOut) (name : String) : Bool := o.events.any (·.1 == name)

end Munge.C
