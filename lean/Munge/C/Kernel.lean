import Munge.C.Int
/- Result record of a translated loop-free C kernel (see tools/gen/ktrans.py). -/
namespace Munge.C

structure KOut where
  ret : Int
  writes : List (String × Int)
  events : List (String × List Int)
deriving Repr, DecidableEq

def KOut.render (o : KOut) : String :=
  let w := o.writes.map fun (p, v) => s!"{p}={v}"
  let e := o.events.map fun (n, a) => s!"{n}({String.intercalate "," (a.map toString)})"
  s!"ret={o.ret} writes=[{String.intercalate ";" w}] events=[{String.intercalate ";" e}]"

/-- last value written to `path`, if any -/
def KOut.written (o : KOut) (path : String) : Option Int :=
  (o.writes.find? (·.1 == path)).map (·.2)

end Munge.C
