import Munge.C.Int
/-
Reads through a cursor, as emitted by the K+cursor translator (tools/gen/kcursor.py).  A buffer is a function
`Int → Int` (offset ↦ stored value); `rdU8` reduces whatever it returns to a byte, so generated kernels need no
range assumption on the buffer.
-/
namespace Munge.C

/-- `*p` at offset `i` -/
def rdU8 (buf : Int → Int) (i : Int) : Int := buf i % 256

/-- `memcpy (&u, p, 4); ntohl (u)` at offset `i`: the four bytes as a big-endian number -/
def rdBE32 (buf : Int → Int) (i : Int) : Int :=
  rdU8 buf i * 16777216 + rdU8 buf (i + 1) * 65536 + rdU8 buf (i + 2) * 256 + rdU8 buf (i + 3)

/-- `memcpy (&u, p, 4)` used without `ntohl` (little-endian host, probed) -/
def rdNat32 (buf : Int → Int) (i : Int) : Int :=
  rdU8 buf (i + 3) * 16777216 + rdU8 buf (i + 2) * 65536 + rdU8 buf (i + 1) * 256 + rdU8 buf i

/-- `htonl (x)` on the (little-endian, probed) host; generated kernels only ever store it through the cursor,
    where the event carries `x` itself -/
def bswap32 (x : Int) : Int :=
  (x % 256) * 16777216 + (x / 256 % 256) * 65536 + (x / 65536 % 256) * 256 + (x / 16777216 % 256)

theorem rdU8_range (buf : Int → Int) (i : Int) : 0 ≤ rdU8 buf i ∧ rdU8 buf i ≤ 255 := by
  unfold rdU8; omega

theorem rdBE32_range (buf : Int → Int) (i : Int) : 0 ≤ rdBE32 buf i ∧ rdBE32 buf i ≤ 4294967295 := by
  have a := rdU8_range buf i; have b := rdU8_range buf (i + 1)
  have c := rdU8_range buf (i + 2); have d := rdU8_range buf (i + 3)
  unfold rdBE32; omega

/-- the buffer function of a byte list (0 outside) -/
def bufOf (b : List UInt8) : Int → Int := fun i => if i < 0 then 0 else ((b.getD i.toNat 0).toNat : Int)

end Munge.C
