import Munge.Model.Hash
/-
Helper lemmas for `Munge.Hash`: sorted chains, the table invariant, and the set-level
specification of find / insert / remove / deleteIf.  The first lemma (`walk_std`) is where the
regenerated walk tests enter: if the source's tests change, it (and everything below) is
re-checked against the new tests.
-/
set_option linter.unusedSimpArgs false
set_option linter.unusedSectionVars false
set_option linter.unnecessarySimpa false
namespace Munge.Hash
open Munge.Gen.Hash

variable {κ : Type}

/-- a comparator that is a strict total order with `0` meaning identity -/
structure CmpOrder (cmp : κ → κ → Int) : Prop where
  eq_iff : ∀ a b, cmp a b = 0 ↔ a = b
  lt_gt : ∀ a b, cmp a b < 0 ↔ 0 < cmp b a
  trans : ∀ a b c, cmp a b < 0 → cmp b c < 0 → cmp a c < 0

/-- chain strictly increasing under the comparator -/
def Sorted (cmp : κ → κ → Int) (l : List κ) : Prop := l.Pairwise (fun a b => cmp a b < 0)

/-- the walk tests read from `hash.c` are the ones of a sorted-chain search -/
theorem walk_std :
    (∀ c, find_skip c ↔ c < 0) ∧ (∀ c, find_match c ↔ c = 0) ∧ find_nodeFirst = true ∧
    (∀ c, insert_skip c ↔ c < 0) ∧ (∀ c, insert_match c ↔ c = 0) ∧ insert_nodeFirst = true ∧
    (∀ c, remove_skip c ↔ c < 0) ∧ (∀ c, remove_match c ↔ c = 0) ∧ remove_nodeFirst = true := by
  refine ⟨fun c => ?_, fun c => ?_, rfl, fun c => ?_, fun c => ?_, rfl, fun c => ?_, fun c => ?_, rfl⟩
  · unfold find_skip; omega
  · unfold find_match; omega
  · unfold insert_skip; omega
  · unfold insert_match; omega
  · unfold remove_skip; omega
  · unfold remove_match; omega

theorem delete_sel_std (v : Int) : delete_sel v ↔ v > 0 := by unfold delete_sel; omega

section chain
variable {cmp : κ → κ → Int} (ho : CmpOrder cmp)
include ho

theorem cmp_self (a : κ) : cmp a a = 0 := (ho.eq_iff a a).2 rfl

/-- in a sorted chain whose head is above `k`, `k` does not occur -/
theorem not_mem_of_head_gt {p k : κ} {rest : List κ} (hs : Sorted cmp (p :: rest)) (h : 0 < cmp p k) :
    k ∉ p :: rest := by
  intro hm
  rcases List.mem_cons.1 hm with rfl | hm
  · have := cmp_self ho k; omega
  · have := (List.pairwise_cons.1 hs).1 k hm; omega

theorem chainFind_spec (k : κ) : ∀ (l : List κ), Sorted cmp l →
    (k ∈ l → chainFind cmp k l = some k) ∧ (k ∉ l → chainFind cmp k l = none)
  | [], _ => by simp [chainFind]
  | p :: rest, hs => by
    obtain ⟨hsk, hm, hnf, -⟩ := walk_std
    have ih := chainFind_spec k rest (List.pairwise_cons.1 hs).2
    simp only [chainFind, cmpAt, hnf, if_true, hsk, hm]
    by_cases h1 : cmp p k < 0
    · have hne : k ≠ p := by rintro rfl; have := cmp_self ho k; omega
      simp only [h1, if_true, List.mem_cons, hne, false_or]
      exact ih
    · by_cases h2 : cmp p k = 0
      · have : p = k := (ho.eq_iff p k).1 h2
        subst this
        simp [h1, h2]
      · have hgt : 0 < cmp p k := by omega
        have := not_mem_of_head_gt ho hs hgt
        simp [h1, h2, this]

theorem chainInsert_spec (k : κ) : ∀ (l : List κ), Sorted cmp l →
    (k ∈ l → chainInsert cmp k l = none) ∧
    (k ∉ l → ∃ l', chainInsert cmp k l = some l' ∧ Sorted cmp l' ∧ ∀ x, x ∈ l' ↔ x = k ∨ x ∈ l)
  | [], _ => by simp [chainInsert, Sorted]
  | p :: rest, hs => by
    obtain ⟨-, -, -, hsk, hm, hnf, -⟩ := walk_std
    have hs' := List.pairwise_cons.1 hs
    have ih := chainInsert_spec k rest hs'.2
    simp only [chainInsert, cmpAt, hnf, if_true, hsk, hm]
    by_cases h1 : cmp p k < 0
    · have hne : k ≠ p := by rintro rfl; have := cmp_self ho k; omega
      simp only [h1, if_true, List.mem_cons, hne, false_or]
      refine ⟨fun hin => by simp [ih.1 hin], fun hnin => ?_⟩
      obtain ⟨l', he, hsl, hmem⟩ := ih.2 hnin
      refine ⟨p :: l', by simp [he], ?_, ?_⟩
      · refine List.pairwise_cons.2 ⟨fun x hx => ?_, hsl⟩
        rcases (hmem x).1 hx with rfl | hx
        · exact h1
        · exact hs'.1 x hx
      · intro x; simp only [List.mem_cons, hmem]
        constructor
        · rintro (h | h | h) <;> simp [h]
        · rintro (h | h | h) <;> simp [h]
    · by_cases h2 : cmp p k = 0
      · have : p = k := (ho.eq_iff p k).1 h2
        subst this
        simp [h1, h2]
      · have hgt : 0 < cmp p k := by omega
        have hnot := not_mem_of_head_gt ho hs hgt
        simp only [h1, h2, if_false]
        refine ⟨fun hin => absurd hin hnot, fun _ => ⟨_, rfl, ?_, fun x => by simp⟩⟩
        have hkp : cmp k p < 0 := (ho.lt_gt k p).2 hgt
        refine List.pairwise_cons.2 ⟨fun x hx => ?_, hs⟩
        rcases List.mem_cons.1 hx with rfl | hx
        · exact hkp
        · exact ho.trans _ _ _ hkp (hs'.1 x hx)

theorem chainRemove_spec (k : κ) : ∀ (l : List κ), Sorted cmp l →
    (k ∉ l → chainRemove cmp k l = none) ∧
    (k ∈ l → ∃ l', chainRemove cmp k l = some (k, l') ∧ Sorted cmp l' ∧ ∀ x, x ∈ l' ↔ x ∈ l ∧ x ≠ k)
  | [], _ => by simp [chainRemove]
  | p :: rest, hs => by
    obtain ⟨-, -, -, -, -, -, hsk, hm, hnf⟩ := walk_std
    have hs' := List.pairwise_cons.1 hs
    have ih := chainRemove_spec k rest hs'.2
    simp only [chainRemove, cmpAt, hnf, if_true, hsk, hm]
    by_cases h1 : cmp p k < 0
    · have hne : k ≠ p := by rintro rfl; have := cmp_self ho k; omega
      simp only [h1, if_true, List.mem_cons, hne, false_or]
      refine ⟨fun hnin => by simp [ih.1 hnin], fun hin => ?_⟩
      obtain ⟨l', he, hsl, hmem⟩ := ih.2 hin
      refine ⟨p :: l', by simp [he], ?_, ?_⟩
      · exact List.pairwise_cons.2 ⟨fun x hx => hs'.1 x ((hmem x).1 hx).1, hsl⟩
      · intro x; simp only [List.mem_cons, hmem]
        constructor
        · rintro (rfl | ⟨h, h'⟩)
          · exact ⟨Or.inl rfl, fun h => hne h.symm⟩
          · exact ⟨Or.inr h, h'⟩
        · rintro ⟨rfl | h, h'⟩
          · exact Or.inl rfl
          · exact Or.inr ⟨h, h'⟩
    · by_cases h2 : cmp p k = 0
      · rw [if_neg h1, if_pos h2]
        have : p = k := (ho.eq_iff p k).1 h2
        subst this
        refine ⟨fun hn => absurd (List.mem_cons_self) hn, fun _ => ⟨rest, rfl, hs'.2, fun x => ⟨fun hx => ⟨List.mem_cons_of_mem _ hx, ?_⟩, ?_⟩⟩⟩
        · rintro rfl; have := hs'.1 x hx; have := cmp_self ho x; omega
        · rintro ⟨hx, hne⟩
          rcases List.mem_cons.1 hx with rfl | hx
          · exact absurd rfl hne
          · exact hx
      · have hgt : 0 < cmp p k := by omega
        have hnot := not_mem_of_head_gt ho hs hgt
        rw [if_neg h1, if_neg h2]
        exact ⟨fun _ => rfl, fun hin => absurd hin hnot⟩

end chain

/-! ### tables -/

namespace Table

theorem size_setChain (t : Table κ) (i : Nat) (c : List κ) : (t.setChain i c).size = t.size := by
  simp [setChain, size]

theorem chain_setChain (t : Table κ) (i j : Nat) (c : List κ) :
    (t.setChain i c).chain j = if i = j ∧ i < t.size then c else t.chain j := by
  simp only [chain, setChain, size, Array.getElem?_setIfInBounds]
  by_cases h : i = j
  · subst h
    by_cases h2 : i < t.buckets.size
    · simp [h2]
    · have : t.buckets[i]? = none := by simp; omega
      simp [h2, this]
  · simp [h]

theorem chain_of_size_le (t : Table κ) {i : Nat} (h : t.size ≤ i) : t.chain i = [] := by
  have : t.buckets[i]? = none := by simp [size] at h; simp; omega
  simp [chain, this]

theorem mem_toList (t : Table κ) (k : κ) : k ∈ t.toList ↔ ∃ i, k ∈ t.chain i := by
  simp only [toList, List.mem_flatten, chain]
  constructor
  · rintro ⟨l, hl, hk⟩
    obtain ⟨i, hi⟩ := List.mem_iff_getElem?.1 hl
    refine ⟨i, ?_⟩
    have : t.buckets[i]? = some l := by simpa using hi
    simp [this, hk]
  · rintro ⟨i, hk⟩
    cases h : t.buckets[i]? with
    | none => simp [h] at hk
    | some l =>
      refine ⟨l, ?_, by simpa [h] using hk⟩
      exact List.mem_iff_getElem?.2 ⟨i, by simpa using h⟩

theorem chain_empty (n i : Nat) : (empty n : Table κ).chain i = [] := by
  simp only [chain, empty, Array.getElem?_replicate]
  split <;> simp

theorem size_empty (n : Nat) : (empty n : Table κ).size = n := by simp [size, empty]

theorem toList_empty (n : Nat) : (empty n : Table κ).toList = [] := by
  simp [toList, empty]

end Table

theorem Table.count_eq (t : Table κ) : t.count = t.toList.length := by
  unfold Table.count Table.toList
  rw [← Array.foldl_toList]
  suffices h : ∀ (L : List (List κ)) (n : Nat), L.foldl (fun n c => n + c.length) n = n + L.flatten.length by
    simpa using h t.buckets.toList 0
  intro L
  induction L with
  | nil => simp
  | cons a l ih => intro n; simp [ih]; omega

/-- invariant of a table: positive size, sorted chains, every item in the slot its hash selects -/
structure Inv (cmp : κ → κ → Int) (hf : κ → Nat) (t : Table κ) : Prop where
  pos : 0 < t.size
  sorted : ∀ i, Sorted cmp (t.chain i)
  home : ∀ i k, k ∈ t.chain i → hf k % t.size = i

theorem inv_empty (cmp : κ → κ → Int) (hf : κ → Nat) {n : Nat} (h : 0 < n) : Inv cmp hf (Table.empty n) :=
  ⟨by simpa [Table.size_empty] using h, fun i => by simp [Table.chain_empty, Sorted],
   fun i k hk => by simp [Table.chain_empty] at hk⟩

section table
variable {cmp : κ → κ → Int} {hf : κ → Nat} {t : Table κ}

/-- an item is in the table iff it is in the chain of its own slot -/
theorem mem_iff_home (hi : Inv cmp hf t) (k : κ) : k ∈ t.toList ↔ k ∈ t.chain (slot hf t k) := by
  rw [Table.mem_toList]
  constructor
  · rintro ⟨i, h⟩
    have := hi.home i k h
    simpa [slot, this] using h
  · exact fun h => ⟨_, h⟩

theorem slot_lt (hi : Inv cmp hf t) (k : κ) : slot hf t k < t.size := Nat.mod_lt _ hi.pos

variable (ho : CmpOrder cmp)
include ho

/-- `hash_find` returns the item iff it is in the table -/
theorem find_spec (hi : Inv cmp hf t) (k : κ) :
    (k ∈ t.toList → find cmp hf t k = some k) ∧ (k ∉ t.toList → find cmp hf t k = none) := by
  rw [mem_iff_home hi]
  exact chainFind_spec ho k _ (hi.sorted _)

/-- `hash_insert` on a present key: `EEXIST`, table untouched -/
theorem insert_dup (hi : Inv cmp hf t) (k : κ) (h : k ∈ t.toList) : insert cmp hf t k = (t, false) := by
  have := (chainInsert_spec ho k _ (hi.sorted (slot hf t k))).1 ((mem_iff_home hi k).1 h)
  simp [insert, this]

/-- `hash_insert` on an absent key: inserted; the table gains exactly that key and stays well-formed -/
theorem insert_new (hi : Inv cmp hf t) (k : κ) (h : k ∉ t.toList) :
    ∃ t', insert cmp hf t k = (t', true) ∧ Inv cmp hf t' ∧ ∀ x, x ∈ t'.toList ↔ x = k ∨ x ∈ t.toList := by
  have hnot : k ∉ t.chain (slot hf t k) := fun hc => h ((mem_iff_home hi k).2 hc)
  obtain ⟨l', he, hsl, hmem⟩ := (chainInsert_spec ho k _ (hi.sorted (slot hf t k))).2 hnot
  have hlt := slot_lt hi k
  refine ⟨t.setChain (slot hf t k) l', by simp [insert, he], ⟨?_, ?_, ?_⟩, ?_⟩
  · simpa [Table.size_setChain] using hi.pos
  · intro i
    rw [Table.chain_setChain]
    split
    · exact hsl
    · exact hi.sorted i
  · intro i x hx
    rw [Table.chain_setChain] at hx
    rw [Table.size_setChain]
    split at hx
    · rename_i hc
      rcases (hmem x).1 hx with rfl | hx
      · exact hc.1
      · exact hc.1 ▸ hi.home _ x hx
    · exact hi.home i x hx
  · intro x
    simp only [Table.mem_toList, Table.chain_setChain]
    constructor
    · rintro ⟨i, hx⟩
      split at hx
      · rcases (hmem x).1 hx with rfl | hx
        · exact Or.inl rfl
        · exact Or.inr ⟨_, hx⟩
      · exact Or.inr ⟨i, hx⟩
    · rintro (rfl | ⟨i, hx⟩)
      · exact ⟨slot hf t x, by simp [hlt, (hmem x).2 (Or.inl rfl)]⟩
      · refine ⟨i, ?_⟩
        split
        · rename_i hc
          exact (hmem x).2 (Or.inr (hc.1 ▸ hx))
        · exact hx

/-- `hash_remove` on an absent key: nothing happens -/
theorem remove_absent (hi : Inv cmp hf t) (k : κ) (h : k ∉ t.toList) : remove cmp hf t k = (t, none) := by
  have hnot : k ∉ t.chain (slot hf t k) := fun hc => h ((mem_iff_home hi k).2 hc)
  have := (chainRemove_spec ho k _ (hi.sorted (slot hf t k))).1 hnot
  simp [remove, this]

/-- `hash_remove` on a present key: returns it; the table loses exactly that key -/
theorem remove_present (hi : Inv cmp hf t) (k : κ) (h : k ∈ t.toList) :
    ∃ t', remove cmp hf t k = (t', some k) ∧ Inv cmp hf t' ∧ ∀ x, x ∈ t'.toList ↔ x ∈ t.toList ∧ x ≠ k := by
  obtain ⟨l', he, hsl, hmem⟩ := (chainRemove_spec ho k _ (hi.sorted (slot hf t k))).2 ((mem_iff_home hi k).1 h)
  have hlt := slot_lt hi k
  refine ⟨t.setChain (slot hf t k) l', by simp [remove, he], ⟨?_, ?_, ?_⟩, ?_⟩
  · simpa [Table.size_setChain] using hi.pos
  · intro i
    rw [Table.chain_setChain]
    split
    · exact hsl
    · exact hi.sorted i
  · intro i x hx
    rw [Table.chain_setChain] at hx
    rw [Table.size_setChain]
    split at hx
    · rename_i hc
      exact hc.1 ▸ hi.home _ x ((hmem x).1 hx).1
    · exact hi.home i x hx
  · intro x
    simp only [Table.mem_toList, Table.chain_setChain]
    constructor
    · rintro ⟨i, hx⟩
      split at hx
      · exact ⟨⟨_, ((hmem x).1 hx).1⟩, ((hmem x).1 hx).2⟩
      · rename_i hc
        refine ⟨⟨i, hx⟩, ?_⟩
        rintro rfl
        exact hc ⟨(hi.home i x hx).symm ▸ rfl, hlt⟩
    · rintro ⟨⟨i, hx⟩, hne⟩
      refine ⟨i, ?_⟩
      split
      · rename_i hc
        exact (hmem x).2 ⟨hc.1 ▸ hx, hne⟩
      · exact hx

end table

/-- `hash_delete_if`: chain `i` afterwards is chain `i` before with the selected nodes dropped (order kept) -/
theorem chain_deleteIf (f : κ → Int) (t : Table κ) (i : Nat) :
    (deleteIf f t).1.chain i = (t.chain i).filter (fun p => !decide (delete_sel (f p))) := by
  simp only [deleteIf, Table.chain, Array.getElem?_map]
  cases t.buckets[i]? <;> simp

theorem size_deleteIf (f : κ → Int) (t : Table κ) : (deleteIf f t).1.size = t.size := by
  simp [deleteIf, Table.size]

/-- … and so is the whole item list -/
theorem toList_deleteIf (f : κ → Int) (t : Table κ) :
    (deleteIf f t).1.toList = t.toList.filter (fun p => !decide (delete_sel (f p))) := by
  simp only [deleteIf, Table.toList, Array.toList_map]
  induction t.buckets.toList with
  | nil => simp
  | cons a l ih => simp only [List.map_cons, List.flatten_cons, List.filter_append, ih]

theorem inv_deleteIf {cmp : κ → κ → Int} {hf : κ → Nat} {t : Table κ} (hi : Inv cmp hf t) (f : κ → Int) :
    Inv cmp hf (deleteIf f t).1 := by
  refine ⟨by simpa [size_deleteIf] using hi.pos, fun i => ?_, fun i k hk => ?_⟩
  · rw [chain_deleteIf]; exact List.Pairwise.filter _ (hi.sorted i)
  · rw [chain_deleteIf] at hk; rw [size_deleteIf]
    exact hi.home i k (List.mem_filter.1 hk).1

theorem mem_deleteIf (f : κ → Int) (t : Table κ) (x : κ) :
    x ∈ (deleteIf f t).1.toList ↔ x ∈ t.toList ∧ ¬ (f x > 0) := by
  rw [toList_deleteIf, List.mem_filter]
  have := delete_sel_std (f x)
  simp only [Bool.not_eq_true', decide_eq_false_iff_not, this]

/-! ### operation sequences against a finite-set specification -/

inductive Op (κ : Type) where
  | insert (k : κ)
  | remove (k : κ)
  | find (k : κ)
  | deleteIf (f : κ → Int)

/-- what the caller of the table sees -/
inductive Res (κ : Type) where
  | inserted | exists | removed (k : κ) | absent | found (k : κ) | notFound | deleted
deriving DecidableEq

def stepTable (cmp : κ → κ → Int) (hf : κ → Nat) (t : Table κ) : Op κ → Table κ × Res κ
  | .insert k => match insert cmp hf t k with
    | (t', true) => (t', .inserted)
    | (t', false) => (t', .exists)
  | .remove k => match remove cmp hf t k with
    | (t', some d) => (t', .removed d)
    | (t', none) => (t', .absent)
  | .find k => (t, match find cmp hf t k with | some d => .found d | none => .notFound)
  | .deleteIf f => ((deleteIf f t).1, .deleted)

/-- the specification: a set of keys (as its characteristic function) -/
def stepSet [DecidableEq κ] (s : κ → Bool) : Op κ → (κ → Bool) × Res κ
  | .insert k => if s k then (s, .exists) else (fun x => x == k || s x, .inserted)
  | .remove k => if s k then (fun x => s x && x != k, .removed k) else (s, .absent)
  | .find k => (s, if s k then .found k else .notFound)
  | .deleteIf f => (fun x => s x && !decide (f x > 0), .deleted)

def runTable (cmp : κ → κ → Int) (hf : κ → Nat) : Table κ → List (Op κ) → Table κ × List (Res κ)
  | t, [] => (t, [])
  | t, o :: os =>
    let r := stepTable cmp hf t o
    let rs := runTable cmp hf r.1 os
    (rs.1, r.2 :: rs.2)

def runSet [DecidableEq κ] : (κ → Bool) → List (Op κ) → (κ → Bool) × List (Res κ)
  | s, [] => (s, [])
  | s, o :: os =>
    let r := stepSet s o
    let rs := runSet r.1 os
    (rs.1, r.2 :: rs.2)

theorem step_refines [DecidableEq κ] {cmp : κ → κ → Int} (ho : CmpOrder cmp) {hf : κ → Nat} {t : Table κ}
    (hi : Inv cmp hf t) {s : κ → Bool} (hr : ∀ x, x ∈ t.toList ↔ s x = true) (o : Op κ) :
    (stepTable cmp hf t o).2 = (stepSet s o).2 ∧ Inv cmp hf (stepTable cmp hf t o).1 ∧
    ∀ x, x ∈ (stepTable cmp hf t o).1.toList ↔ (stepSet s o).1 x = true := by
  cases o with
  | insert k =>
    by_cases hk : k ∈ t.toList
    · have hs : s k = true := (hr k).1 hk
      simp only [stepTable, insert_dup ho hi k hk, stepSet, hs, if_true]
      exact ⟨by first | rfl | trivial, hi, hr⟩
    · have hs : ¬ s k = true := fun h => hk ((hr k).2 h)
      obtain ⟨t', he, hi', hm⟩ := insert_new ho hi k hk
      simp only [stepTable, he, stepSet, hs, if_false]
      refine ⟨by first | rfl | trivial, hi', fun x => ?_⟩
      rw [hm, hr]; simp
  | remove k =>
    by_cases hk : k ∈ t.toList
    · have hs : s k = true := (hr k).1 hk
      obtain ⟨t', he, hi', hm⟩ := remove_present ho hi k hk
      simp only [stepTable, he, stepSet, hs, if_true]
      refine ⟨by first | rfl | trivial, hi', fun x => ?_⟩
      rw [hm, hr]; simp
    · have hs : ¬ s k = true := fun h => hk ((hr k).2 h)
      simp only [stepTable, remove_absent ho hi k hk, stepSet, hs, if_false]
      exact ⟨by first | rfl | trivial, hi, hr⟩
  | find k =>
    by_cases hk : k ∈ t.toList
    · have hs : s k = true := (hr k).1 hk
      simp only [stepTable, (find_spec ho hi k).1 hk, stepSet, hs, if_true]
      exact ⟨by first | rfl | trivial, hi, hr⟩
    · have hs : ¬ s k = true := fun h => hk ((hr k).2 h)
      simp only [stepTable, (find_spec ho hi k).2 hk, stepSet, hs, if_false]
      exact ⟨by first | rfl | trivial, hi, hr⟩
  | deleteIf f =>
    simp only [stepTable, stepSet]
    refine ⟨by first | rfl | trivial, inv_deleteIf hi f, fun x => ?_⟩
    rw [mem_deleteIf, hr]; simp

theorem run_refines [DecidableEq κ] {cmp : κ → κ → Int} (ho : CmpOrder cmp) {hf : κ → Nat} :
    ∀ (ops : List (Op κ)) (t : Table κ) (s : κ → Bool), Inv cmp hf t → (∀ x, x ∈ t.toList ↔ s x = true) →
      (runTable cmp hf t ops).2 = (runSet s ops).2 ∧ Inv cmp hf (runTable cmp hf t ops).1 ∧
      ∀ x, x ∈ (runTable cmp hf t ops).1.toList ↔ (runSet s ops).1 x = true
  | [], _, _, hi, hr => ⟨rfl, hi, hr⟩
  | o :: os, t, s, hi, hr => by
    obtain ⟨h1, h2, h3⟩ := step_refines ho hi hr o
    obtain ⟨g1, g2, g3⟩ := run_refines ho os _ _ h2 h3
    simp only [runTable, runSet]
    exact ⟨by rw [h1, g1], g2, g3⟩

end Munge.Hash
