import Munge.Model.Retry
import Munge.Model.PrimLaws
import Munge.Lemmas.CredA
import Munge.Lemmas.CredB
/-
Helper lemmas for Props/C13.lean (the retry model).
-/
set_option linter.unusedSimpArgs false
set_option linter.unusedVariables false
namespace Munge.Retry
open Munge.Cred Munge.C Munge.Gen.Retry

/-! ### what the generated loop shape says -/

theorem stop_iff (i e : Int) : stop i e = true ↔ (i ≥ 5 ∨ e = 3) := by
  unfold stop stopTests
  simp only [List.any, Bool.or_false, Bool.or_eq_true, decide_eq_true_eq, Bool.not_eq_true', decide_eq_false_iff_not] <;> omega

theorem linkRetries_send : linkRetries "m_msg_send" = true := by decide
theorem linkRetries_recv : linkRetries "m_msg_recv" = true := by decide

/-- the roll-back of `dec_process_msg` fires exactly for a successful request that itself inserted -/
theorem genRollback_spec (rc : Int) (ins : Bool) : genRollback rc ins = (decide (rc = 0) && ins) := by
  unfold genRollback
  by_cases h : rc = 0 <;> cases ins <;> simp [h, b2int] <;> decide

theorem daemon_eq_jobExec (P : Prims) (cf : Conf) (env : Env) (rs : ReplaySet) (req : Bytes) (s : Bool) :
    daemon P cf env rs req s = jobExec P cf env rs req s := by
  unfold daemon jobExec
  cases recvMsg req with
  | drop w => rfl
  | enc m => rfl
  | dec m =>
    simp only [genRollback_spec]
    cases s
    · simp only [Bool.false_eq_true, if_false, Bool.and_eq_true, decide_eq_true_eq]
      congr 1
    · rfl

/-! ### framing -/

/-- header fields of a packet `header ‖ b` whose header declares `len` body bytes -/
theorem hdr_fields (t r len : Nat) (b : Bytes) (hl : len < 4294967296) :
    (hdrBytes t r len ++ b).length = 11 + b.length ∧ rd32 ((hdrBytes t r len ++ b).take 4) = 6319435 ∧
    (hdrBytes t r len ++ b).getD 4 0 = 4 ∧ (hdrBytes t r len ++ b).getD 5 0 = UInt8.ofNat t ∧
    (hdrBytes t r len ++ b).getD 6 0 = UInt8.ofNat r ∧ rd32 (((hdrBytes t r len ++ b).drop 7).take 4) = len ∧
    (hdrBytes t r len ++ b).drop 11 = b := by
  have e : hdrBytes t r len ++ b =
      0 :: 96 :: 109 :: 75 :: 4 :: UInt8.ofNat t :: UInt8.ofNat r :: (be32 len ++ b) := by
    unfold hdrBytes; rw [be32_magic]; rfl
  rw [e]
  have l4 : (be32 len).length = 4 := rfl
  refine ⟨by simp only [List.length_cons, List.length_append]; omega,
    (by show rd32 [0, 96, 109, 75] = 6319435; decide), rfl, rfl, rfl, ?_, ?_⟩
  · simp only [List.drop_succ_cons, List.drop_zero]
    rw [List.take_append_of_le_length (by omega), List.take_of_length_le (by omega), Munge.Cred.rd32_be32 _ hl]
  · simp only [List.drop_succ_cons, List.drop_zero]
    rw [List.drop_append_of_le_length (by omega), List.drop_of_length_le (by omega)]
    rfl

theorem hdrBytes_length (t r len : Nat) : (hdrBytes t r len).length = 11 := rfl

/-- a strict prefix of `header ‖ body` is a short header, or a header followed by a short body -/
theorem take_packet (t r : Nat) (body : Bytes) (k : Nat) (hk : 11 ≤ k) :
    (hdrBytes t r body.length ++ body).take k = hdrBytes t r body.length ++ body.take (k - 11) := by
  rw [List.take_append, hdrBytes_length, List.take_of_length_le (by rw [hdrBytes_length]; omega)]

/-- `m_msg_recv` on the daemon side yields nothing from an incomplete message -/
theorem recvMsg_prefix (t r : Nat) (body : Bytes) (hb : (body.length : Int) ≤ Munge.Gen.Dec.MUNGE_MAXIMUM_REQ_LEN)
    (k : Nat) (hk : k < (hdrBytes t r body.length ++ body).length) :
    ∃ w, recvMsg ((hdrBytes t r body.length ++ body).take k) = .drop w := by
  have hb' : body.length ≤ 1048576 := by unfold Munge.Gen.Dec.MUNGE_MAXIMUM_REQ_LEN at hb; omega
  have hlen : (hdrBytes t r body.length ++ body).length = 11 + body.length := by
    rw [List.length_append, hdrBytes_length]
  by_cases h11 : k < 11
  · refine ⟨"incomplete header", ?_⟩
    unfold recvMsg
    rw [if_pos (by rw [List.length_take]; omega)]
  · rw [take_packet t r body k (by omega)]
    obtain ⟨f1, f2, f3, f4, f5, f6, f7⟩ := hdr_fields t r body.length (body.take (k - 11)) (by omega)
    refine ⟨"incomplete body", ?_⟩
    unfold recvMsg
    simp only [f1, f2, f3, f6, f7]
    rw [if_neg (by omega), if_neg (fun h => h rfl), if_neg (fun h => h (by decide)),
      if_neg (by unfold Munge.Gen.Dec.MUNGE_MAXIMUM_REQ_LEN; omega),
      if_pos (by simp only [List.length_take]; omega)]

/-! ### the client's `m_msg_recv` -/

theorem takeField_append (a b : Bytes) (n : Nat) (h : a.length = n) (hn : n < 2147483648) :
    takeField (a ++ b) n = some (a, b) := by
  unfold takeField
  rw [if_neg (by omega), if_neg (by rw [List.length_append]; omega), ← h, List.take_left', List.drop_left']
  all_goals rfl

theorem rd32_be32' (n : Nat) (h : n < 4294967296) :
    rd32 [UInt8.ofNat (n / 16777216 % 256), UInt8.ofNat (n / 65536 % 256), UInt8.ofNat (n / 256 % 256), UInt8.ofNat (n % 256)] = n :=
  Munge.Cred.rd32_be32 n h

theorem clientUnpack_dec (retry : Nat) (en el c mc z rl al : UInt8) (estr realm addr data tail : Bytes)
    (ttl t0 t1 cu cg au ag dl : Nat)
    (he : estr.length = el.toNat) (hr : realm.length = rl.toNat) (ha : addr.length = al.toNat) (ha4 : al.toNat ≤ 4)
    (hd : data.length = dl) (hdl : dl < 2147483648)
    (h1 : ttl < 4294967296) (h2 : t0 < 4294967296) (h3 : t1 < 4294967296) (h4 : cu < 4294967296) (h5 : cg < 4294967296)
    (h6 : au < 4294967296) (h7 : ag < 4294967296) :
    clientUnpack 5 retry (en :: el :: (estr ++ c :: mc :: z :: rl :: (realm ++ (be32 ttl ++ al :: (addr ++ (be32 t0 ++
      (be32 t1 ++ (be32 cu ++ (be32 cg ++ (be32 au ++ (be32 ag ++ (be32 dl ++ (data ++ tail))))))))))))) =
    some { type := 5, retry := retry, errorNum := en.toNat, cipher := c.toNat, mac := mc.toNat, zip := z.toNat,
           realmLen := rl.toNat, realm := realm, ttl := ttl, addrLen := al.toNat,
           addr := addr ++ List.replicate (4 - addr.length) 0, time0 := t0, time1 := t1, credUid := cu, credGid := cg,
           authUid := au, authGid := ag, dataLen := dl, data := data } := by
  have e5 : MUNGE_MSG_DEC_RSP.toNat = 5 := rfl
  have e3 : MUNGE_MSG_ENC_RSP.toNat = 3 := rfl
  have e4 : ADDR_SIZE = 4 := rfl
  unfold clientUnpack
  simp only [takeField_append estr _ el.toNat he (by have := el.toNat_lt; omega), e5, e3, show ¬ (5 = 3) by decide, if_false, if_true]
  simp only [takeField_append realm _ rl.toNat hr (by have := rl.toNat_lt; omega)]
  simp only [be32, List.cons_append, List.nil_append, List.length_cons, List.drop_succ_cons, List.drop_zero,
    List.take_succ_cons, List.take_zero]
  rw [if_neg (by omega)]
  simp only [e4]
  rw [if_neg (by omega)]
  simp only [takeField_append addr _ al.toNat ha (by omega)]
  simp only [List.cons_append, List.nil_append, List.length_cons, List.drop_succ_cons, List.drop_zero,
    List.take_succ_cons, List.take_zero]
  rw [if_neg (by omega)]
  simp only [rd32_be32' _ h1, rd32_be32' _ h2, rd32_be32' _ h3, rd32_be32' _ h4, rd32_be32' _ h5, rd32_be32' _ h6,
    rd32_be32' _ h7, rd32_be32' _ (show dl < 4294967296 by omega)]
  simp only [takeField_append data tail dl hd hdl]
  rfl

theorem take4_be32 (n : Nat) (x : Bytes) : (be32 n ++ x).take 4 = be32 n := by unfold be32; rfl
theorem drop4_be32 (n : Nat) (x : Bytes) : (be32 n ++ x).drop 4 = x := by unfold be32; rfl
theorem length_be32_append (n : Nat) (x : Bytes) : (be32 n ++ x).length = x.length + 4 := by unfold be32; rfl

theorem clientUnpack_enc (retry : Nat) (en el : UInt8) (estr data tail : Bytes) (dl : Nat)
    (he : estr.length = el.toNat) (hd : data.length = dl) (hdl : dl < 2147483648) :
    clientUnpack 3 retry (en :: el :: (estr ++ (be32 dl ++ (data ++ tail)))) =
    some { type := 3, retry := retry, errorNum := en.toNat, dataLen := dl, data := data } := by
  have e3 : MUNGE_MSG_ENC_RSP.toNat = 3 := rfl
  unfold clientUnpack
  simp only [takeField_append estr _ el.toNat he (by have := el.toNat_lt; omega), e3, if_true]
  rw [if_neg (by rw [length_be32_append]; omega), take4_be32, drop4_be32, Munge.Cred.rd32_be32 _ (show dl < 4294967296 by omega)]
  simp only [takeField_append data tail dl hd hdl]
/-- the error string on the wire is a length byte followed by exactly that many bytes -/
theorem errWire_shape (m : Msg) : ∃ el estr, errWire m = el :: estr ∧ estr.length = el.toNat := by
  unfold errWire
  split
  · exact ⟨0, [], rfl, rfl⟩
  · refine ⟨_, _, rfl, ?_⟩
    have : (strBytes m.errorStr ++ [0]).length % 256 < 256 := Nat.mod_lt _ (by omega)
    show (List.take _ _).length = _
    rw [List.length_take, B.toNat_ofNat_lt _ this]
    exact Nat.min_eq_left (Nat.mod_le _ _)

/-- the client's `m_msg_recv` on a complete, well-framed packet: header checks pass, the body is unpacked -/
theorem clientRecv_packet (t r : Nat) (body : Bytes) (ht : t < 256) (hr : r < 256) (hb : body.length < 4294967296) :
    clientRecv t (hdrBytes t r body.length ++ body) =
      match clientUnpack t r body with
      | none => .error EMUNGE_SOCKET
      | some m => .ok m := by
  obtain ⟨f1, f2, f3, f4, f5, f6, f7⟩ := hdr_fields t r body.length body hb
  have e11 : MUNGE_MSG_HDR_SIZE.toNat = 11 := rfl
  unfold clientRecv
  simp only [f1, f2, f3, f4, f5, f6, f7, e11, B.toNat_ofNat_lt _ ht, B.toNat_ofNat_lt _ hr]
  rw [if_neg (by omega), if_neg (fun h => h rfl), if_neg (fun h => h (by decide)), if_neg (fun h => h rfl),
    if_neg (by unfold recvMaxLen; omega), if_neg (by rw [List.take_length]; omega), List.take_length]
  cases clientUnpack t r body <;> rfl

/-- … and yields EMUNGE_SOCKET, never a message, on every strict prefix of one -/
theorem clientRecv_prefix (expect t r : Nat) (body : Bytes) (hb : body.length < 4294967296)
    (k : Nat) (hk : k < (hdrBytes t r body.length ++ body).length) :
    clientRecv expect ((hdrBytes t r body.length ++ body).take k) = .error EMUNGE_SOCKET := by
  have hlen : (hdrBytes t r body.length ++ body).length = 11 + body.length := by
    rw [List.length_append, hdrBytes_length]
  have e11 : MUNGE_MSG_HDR_SIZE.toNat = 11 := rfl
  by_cases h11 : k < 11
  · unfold clientRecv
    rw [if_pos (by rw [List.length_take, e11]; omega)]
  · rw [take_packet t r body k (by omega)]
    obtain ⟨f1, f2, f3, f4, f5, f6, f7⟩ := hdr_fields t r body.length (body.take (k - 11)) hb
    unfold clientRecv
    simp only [f1, f2, f3, f6, f7, e11]
    rw [if_neg (by omega), if_neg (fun h => h rfl), if_neg (fun h => h (by decide))]
    split
    · rfl
    · rw [if_neg (by unfold recvMaxLen; omega), if_pos (by simp only [List.length_take]; omega)]

/-- the fields of a reply message that the wire carries, as the client unpacks them -/
structure RspOk (m : Msg) : Prop where
  retry : m.retry < 256
  err : m.errorNum < 256
  small : m.cipher < 256 ∧ m.mac < 256 ∧ m.zip < 256 ∧ m.realmLen < 256 ∧ m.addrLen ≤ 4
  realm : m.realmLen ≤ m.realm.length
  addr : m.addrLen ≤ m.addr.length
  u32 : m.ttl < 4294967296 ∧ m.time0 < 4294967296 ∧ m.time1 < 4294967296 ∧ m.credUid < 4294967296 ∧
        m.credGid < 4294967296 ∧ m.authUid < 4294967296 ∧ m.authGid < 4294967296
  data : m.dataLen ≤ m.data.length ∧ m.dataLen < 2147483648

/-- what `m_msg_recv` + `_msg_unpack` make of the DEC_RSP for `m` -/
def decView (m : Msg) : Msg :=
  { type := 5, retry := m.retry, errorNum := m.errorNum, cipher := m.cipher, mac := m.mac, zip := m.zip,
    realmLen := m.realmLen, realm := m.realm.take m.realmLen, ttl := m.ttl, addrLen := m.addrLen,
    addr := m.addr.take m.addrLen ++ List.replicate (4 - (m.addr.take m.addrLen).length) 0,
    time0 := m.time0, time1 := m.time1, credUid := m.credUid, credGid := m.credGid, authUid := m.authUid,
    authGid := m.authGid, dataLen := m.dataLen, data := m.data.take m.dataLen }

theorem clientRecv_decRsp (m : Msg) (h : RspOk m) : clientRecv 5 (decRsp m) = .ok (decView m) := by
  obtain ⟨el, estr, he, hl⟩ := errWire_shape m
  obtain ⟨s1, s2, s3, s4, s5⟩ := h.small
  obtain ⟨u1, u2, u3, u4, u5, u6, u7⟩ := h.u32
  have hbody : [UInt8.ofNat m.errorNum] ++ errWire m ++
      [UInt8.ofNat m.cipher, UInt8.ofNat m.mac, UInt8.ofNat m.zip, UInt8.ofNat m.realmLen] ++ m.realm.take m.realmLen ++
      be32 m.ttl ++ [UInt8.ofNat m.addrLen] ++ m.addr.take m.addrLen ++
      be32 m.time0 ++ be32 m.time1 ++ be32 m.credUid ++ be32 m.credGid ++ be32 m.authUid ++ be32 m.authGid ++
      be32 m.dataLen ++ m.data.take m.dataLen =
      UInt8.ofNat m.errorNum :: el :: (estr ++ UInt8.ofNat m.cipher :: UInt8.ofNat m.mac :: UInt8.ofNat m.zip ::
        UInt8.ofNat m.realmLen :: (m.realm.take m.realmLen ++ (be32 m.ttl ++ UInt8.ofNat m.addrLen :: (m.addr.take m.addrLen ++
        (be32 m.time0 ++ (be32 m.time1 ++ (be32 m.credUid ++ (be32 m.credGid ++ (be32 m.authUid ++ (be32 m.authGid ++
        (be32 m.dataLen ++ (m.data.take m.dataLen ++ [])))))))))))) := by
    rw [he]
    simp only [List.append_assoc, List.cons_append, List.nil_append, List.append_nil]
  have lr : (m.realm.take m.realmLen).length = m.realmLen := by rw [List.length_take]; exact Nat.min_eq_left h.realm
  have la : (m.addr.take m.addrLen).length = m.addrLen := by rw [List.length_take]; exact Nat.min_eq_left h.addr
  have ld : (m.data.take m.dataLen).length = m.dataLen := by rw [List.length_take]; exact Nat.min_eq_left h.data.1
  have hU := clientUnpack_dec m.retry (UInt8.ofNat m.errorNum) el (UInt8.ofNat m.cipher) (UInt8.ofNat m.mac)
    (UInt8.ofNat m.zip) (UInt8.ofNat m.realmLen) (UInt8.ofNat m.addrLen) estr (m.realm.take m.realmLen)
    (m.addr.take m.addrLen) (m.data.take m.dataLen) [] m.ttl m.time0 m.time1 m.credUid m.credGid m.authUid m.authGid m.dataLen
    hl (by rw [lr, B.toNat_ofNat_lt _ s4]) (by rw [la, B.toNat_ofNat_lt _ (by omega)])
    (by rw [B.toNat_ofNat_lt _ (by omega)]; exact s5) ld h.data.2 u1 u2 u3 u4 u5 u6 u7
  unfold decRsp
  simp only []
  rw [hbody]
  have hlen : (UInt8.ofNat m.errorNum :: el :: (estr ++ UInt8.ofNat m.cipher :: UInt8.ofNat m.mac :: UInt8.ofNat m.zip ::
        UInt8.ofNat m.realmLen :: (m.realm.take m.realmLen ++ (be32 m.ttl ++ UInt8.ofNat m.addrLen :: (m.addr.take m.addrLen ++
        (be32 m.time0 ++ (be32 m.time1 ++ (be32 m.credUid ++ (be32 m.credGid ++ (be32 m.authUid ++ (be32 m.authGid ++
        (be32 m.dataLen ++ (m.data.take m.dataLen ++ []))))))))))))).length < 4294967296 := by
    have : el.toNat < 256 := el.toNat_lt
    have hd2 := h.data.2
    simp only [List.length_cons, List.length_append, lr, la, ld, B.be32_length, List.length_nil]
    omega
  rw [clientRecv_packet 5 m.retry _ (by omega) h.retry hlen, hU]
  simp only [B.toNat_ofNat_lt _ h.err, B.toNat_ofNat_lt _ s1, B.toNat_ofNat_lt _ s2, B.toNat_ofNat_lt _ s3,
    B.toNat_ofNat_lt _ s4, B.toNat_ofNat_lt _ (show m.addrLen < 256 by omega)]
  rfl

/-- what `m_msg_recv` + `_msg_unpack` make of the ENC_RSP for `m` -/
def encView (m : Msg) : Msg :=
  { type := 3, retry := m.retry, errorNum := m.errorNum, dataLen := m.dataLen, data := m.data.take m.dataLen }

theorem clientRecv_encRsp (m : Msg) (hr : m.retry < 256) (he : m.errorNum < 256)
    (hd : m.dataLen ≤ m.data.length ∧ m.dataLen < 2147483648) : clientRecv 3 (encRsp m) = .ok (encView m) := by
  obtain ⟨el, estr, hw, hl⟩ := errWire_shape m
  have hbody : [UInt8.ofNat m.errorNum] ++ errWire m ++ be32 m.dataLen ++ m.data.take m.dataLen =
      UInt8.ofNat m.errorNum :: el :: (estr ++ (be32 m.dataLen ++ (m.data.take m.dataLen ++ []))) := by
    rw [hw]
    simp only [List.append_assoc, List.cons_append, List.nil_append, List.append_nil]
  have ld : (m.data.take m.dataLen).length = m.dataLen := by rw [List.length_take]; exact Nat.min_eq_left hd.1
  have hU := clientUnpack_enc m.retry (UInt8.ofNat m.errorNum) el estr (m.data.take m.dataLen) [] m.dataLen hl ld hd.2
  unfold encRsp
  simp only []
  rw [hbody]
  have hlen : (UInt8.ofNat m.errorNum :: el :: (estr ++ (be32 m.dataLen ++ (m.data.take m.dataLen ++ [])))).length < 4294967296 := by
    have : el.toNat < 256 := el.toNat_lt
    have hd2 := hd.2
    simp only [List.length_cons, List.length_append, ld, B.be32_length, List.length_nil]
    omega
  rw [clientRecv_packet 3 m.retry _ (by omega) hr hlen, hU]
  simp only [B.toNat_ofNat_lt _ he]
  rfl

/-! ### the daemon's `m_msg_recv` on libmunge's complete requests -/

/-- the DEC_REQ the daemon unpacks from libmunge's request for the credential string `cred` -/
def decReqMsg (r : Nat) (cred : Bytes) : Msg := { type := 4, retry := r, dataLen := cred.length, data := cred }

theorem recvMsg_decReq (r : Nat) (cred : Bytes) (hr : r < 256) (hc : cred.length + 4 ≤ 1048576) :
    recvMsg (reqBytes 4 r (decBody cred)) = .dec (decReqMsg r cred) := by
  have hbl : (decBody cred).length = cred.length + 4 := by
    unfold decBody; rw [List.length_append, B.be32_length]; omega
  obtain ⟨f1, f2, f3, f4, f5, f6, f7⟩ := hdr_fields 4 r (decBody cred).length (decBody cred) (by omega)
  unfold reqBytes recvMsg
  simp only [f1, f2, f3, f4, f5, f6, f7, B.toNat_ofNat_lt _ hr]
  rw [if_neg (by omega), if_neg (fun h => h rfl), if_neg (fun h => h (by decide)),
    if_neg (by unfold Munge.Gen.Dec.MUNGE_MAXIMUM_REQ_LEN; omega), List.take_length, if_neg (by omega),
    if_neg (by decide), if_pos (by decide), if_neg (by omega)]
  unfold decBody
  rw [take4_be32, drop4_be32, Munge.Cred.rd32_be32 _ (by omega)]
  have := takeField_append cred [] cred.length rfl (by omega)
  rw [List.append_nil] at this
  rw [this]
  rfl

/-- the ENC_REQ the daemon unpacks from libmunge's request built from the ctx options and payload in `m` -/
def encReqMsg (r : Nat) (m : Msg) : Msg :=
  { type := 2, retry := r, cipher := m.cipher, mac := m.mac, zip := m.zip, realmLen := m.realmLen,
    realm := m.realm.take m.realmLen, ttl := m.ttl, authUid := m.authUid, authGid := m.authGid,
    dataLen := m.dataLen, data := m.data.take m.dataLen }

/-- the ctx options and the payload are representable on the wire -/
structure CallOk (m : Msg) : Prop where
  small : m.cipher < 256 ∧ m.mac < 256 ∧ m.zip < 256 ∧ m.realmLen < 256
  realm : m.realmLen ≤ m.realm.length
  u32 : m.ttl < 4294967296 ∧ m.authUid < 4294967296 ∧ m.authGid < 4294967296
  data : m.dataLen ≤ m.data.length
  fits : (encBody m).length ≤ 1048576

theorem encBody_length (m : Msg) (h : CallOk m) : (encBody m).length = 20 + m.realmLen + m.dataLen := by
  unfold encBody
  simp only [List.length_append, List.length_cons, List.length_nil, B.be32_length, List.length_take,
    Nat.min_eq_left h.realm, Nat.min_eq_left h.data]
  omega

theorem recvMsg_encReq (r : Nat) (m : Msg) (hr : r < 256) (h : CallOk m) :
    recvMsg (reqBytes 2 r (encBody m)) = .enc (encReqMsg r m) := by
  obtain ⟨s1, s2, s3, s4⟩ := h.small
  obtain ⟨u1, u2, u3⟩ := h.u32
  have hbl := encBody_length m h
  have hfit := h.fits
  obtain ⟨f1, f2, f3, f4, f5, f6, f7⟩ := hdr_fields 2 r (encBody m).length (encBody m) (by omega)
  have lr : (m.realm.take m.realmLen).length = m.realmLen := by rw [List.length_take]; exact Nat.min_eq_left h.realm
  have ld : (m.data.take m.dataLen).length = m.dataLen := by rw [List.length_take]; exact Nat.min_eq_left h.data
  unfold reqBytes recvMsg
  simp only [f1, f2, f3, f4, f5, f6, f7, B.toNat_ofNat_lt _ hr]
  rw [if_neg (by omega), if_neg (fun h => h rfl), if_neg (fun h => h (by decide)),
    if_neg (by unfold Munge.Gen.Dec.MUNGE_MAXIMUM_REQ_LEN; omega), List.take_length, if_neg (by omega),
    if_pos (by decide)]
  have hb : encBody m = UInt8.ofNat m.cipher :: UInt8.ofNat m.mac :: UInt8.ofNat m.zip :: UInt8.ofNat m.realmLen ::
      (m.realm.take m.realmLen ++ (be32 m.ttl ++ (be32 m.authUid ++ (be32 m.authGid ++ (be32 m.dataLen ++ (m.data.take m.dataLen ++ [])))))) := by
    unfold encBody
    simp only [List.append_assoc, List.cons_append, List.nil_append, List.append_nil]
  rw [hb]
  simp only [takeField_append (m.realm.take m.realmLen) _ (UInt8.ofNat m.realmLen).toNat (by rw [lr, B.toNat_ofNat_lt _ s4])
    (by rw [B.toNat_ofNat_lt _ s4]; omega)]
  rw [if_neg (by simp only [List.length_append, B.be32_length]; omega)]
  simp only [take4_be32, drop4_be32]
  have d8 : ∀ (a b c : Nat) (x : Bytes), (be32 a ++ (be32 b ++ (be32 c ++ x))).drop 8 = be32 c ++ x := fun _ _ _ _ => by unfold be32; rfl
  have d12 : ∀ (a b c : Nat) (x : Bytes), (be32 a ++ (be32 b ++ (be32 c ++ x))).drop 12 = x := fun _ _ _ _ => by unfold be32; rfl
  simp only [d8, d12, take4_be32, drop4_be32]
  rw [if_neg (by simp only [List.length_append, B.be32_length]; omega)]
  simp only [take4_be32, drop4_be32, Munge.Cred.rd32_be32 _ u1, Munge.Cred.rd32_be32 _ u2, Munge.Cred.rd32_be32 _ u3,
    Munge.Cred.rd32_be32 _ (show m.dataLen < 4294967296 by omega)]
  simp only [takeField_append (m.data.take m.dataLen) [] m.dataLen ld (by omega)]
  simp only [B.toNat_ofNat_lt _ s1, B.toNat_ofNat_lt _ s2, B.toNat_ofNat_lt _ s3, B.toNat_ofNat_lt _ s4]
  rfl

/-! ### the decoder on a retry-flagged request for a recorded credential -/
section Tail
open Munge.Cred.B Munge.Gen.Dec

/-- the retry gate of `dec_validate_replay`: a duplicate is let through when retries are enabled and the
    header's retry byte is in 1..5 -/
theorem replay_gate_open (retry gsr uid gid : Int) (hg : wrapS32 gsr ≠ 0) (h1 : 0 < retry) (h5 : retry ≤ 5) :
    dec_validate_replay retry gsr 0 uid gid 1 = { ret := 0, writes := [], events := [("replay_insert", [])] } := by
  unfold dec_validate_replay
  rw [if_neg (by decide), if_pos ⟨by decide, ⟨⟨hg, h1⟩, h5⟩⟩]

/-- `dec_process_msg`'s tail for a credential whose replay record exists, presented by a retry-flagged request -/
theorem decTail_exempt (cf : Conf) (env : Env) (rs : ReplaySet) (m : Msg) (s : Scratch)
    (hr : m.authUid < 4294967296 ∧ m.authGid < 4294967296 ∧ m.clientUid < 4294967296 ∧ m.clientGid < 4294967296 ∧
          m.ttl < 4294967296 ∧ m.time0 < 4294967296 ∧ m.time1 < 4294967296)
    (hcf : 1 ≤ cf.maxTtl ∧ cf.maxTtl ≤ MUNGE_MAXIMUM_TTL)
    (hauth : (m.authUid = UID_ANY ∨ m.authUid = m.clientUid ∨ (cf.gotRootAuth = true ∧ m.clientUid = 0)) ∧
             (m.authGid = GID_ANY ∨ m.authGid = m.clientGid ∨ env.member m.clientUid m.authGid = true))
    (hwin : let ttl' : Int := if (m.ttl : Int) > cf.maxTtl then cf.maxTtl else m.ttl
            let sk : Int := if cf.gotClockSkew then ttl' else 1
            sk ≤ m.time0 ∧ m.time0 + ttl' < 4294967296 ∧ (m.time0 : Int) - sk ≤ m.time1 ∧ (m.time1 : Int) ≤ m.time0 + ttl')
    (hgsr : cf.gotSocketRetry = true) (hretry : 0 < m.retry ∧ m.retry ≤ 5)
    (hpres : replayKey { m with ttl := (if (m.ttl : Int) > cf.maxTtl then cf.maxTtl else (m.ttl : Int)).toNat } s ∈ rs) :
    decTail cf env rs m s =
      { msg := { m with ttl := (if (m.ttl : Int) > cf.maxTtl then cf.maxTtl else (m.ttl : Int)).toNat }, rc := 0, inserted := false,
        key := some (replayKey { m with ttl := (if (m.ttl : Int) > cf.maxTtl then cf.maxTtl else (m.ttl : Int)).toNat } s),
        replay := rs } := by
  have hA : ¬ (dec_validate_auth m.authUid m.authGid m.clientUid m.clientGid (b2int cf.gotRootAuth)
            (fun u g => b2int (env.member u.toNat g.toNat))).ret < 0 := by
    have h0 : (dec_validate_auth m.authUid m.authGid m.clientUid m.clientGid (b2int cf.gotRootAuth)
            (fun u g => b2int (env.member u.toNat g.toNat))).ret = 0 := by
      rw [C04.auth_spec]
      · unfold C04.Authorized MUNGE_UID_ANY MUNGE_GID_ANY
        unfold UID_ANY GID_ANY MUNGE_UID_ANY MUNGE_GID_ANY at hauth
        simp only [Int.toNat_natCast]
        obtain ⟨ha, hb⟩ := hauth
        constructor
        · rcases ha with h | h | ⟨h1, h2⟩
          · left; rw [h]; rfl
          · right; left; rw [h]
          · right; right; simp [b2int, h1, h2]
        · rcases hb with h | h | h
          · left; rw [h]; rfl
          · right; left; rw [h]
          · right; right; simp [b2int, h]
      · unfold C04.Ranges b2int; split <;> omega
    omega
  have hR : C06.Ranges m.ttl m.time0 m.time1 cf.maxTtl (b2int cf.gotClockSkew) := by
    unfold C06.Ranges b2int; split <;> omega
  have hcap : C06.cap m.ttl cf.maxTtl = if (m.ttl : Int) > cf.maxTtl then cf.maxTtl else (m.ttl : Int) := rfl
  have hsk : C06.skew m.ttl cf.maxTtl (b2int cf.gotClockSkew) =
      if cf.gotClockSkew then (if (m.ttl : Int) > cf.maxTtl then cf.maxTtl else (m.ttl : Int)) else 1 := by
    unfold C06.skew b2int; rw [hcap]; cases cf.gotClockSkew <;> simp
  simp only [] at hwin
  have hT := (C06.window_exact m.ttl m.time0 m.time1 cf.maxTtl (b2int cf.gotClockSkew) hR
    (by rw [hsk]; exact hwin.1) (by rw [hcap]; exact hwin.2.1)).1 (by rw [hsk, hcap]; exact ⟨hwin.2.2.1, hwin.2.2.2⟩)
  have hG := C06.decode_caps_ttl m.ttl m.time0 m.time1 cf.maxTtl (b2int cf.gotClockSkew) hR
  rw [hcap] at hG
  unfold decTail
  simp only [hA, if_false, hG, hT.1, show ¬ ((0 : Int) < 0) by omega]
  have hc : rs.contains (replayKey { m with ttl := (if (m.ttl : Int) > cf.maxTtl then cf.maxTtl else (m.ttl : Int)).toNat } s) = true := by
    simpa using hpres
  simp only [hc, if_true]
  have hgate := replay_gate_open (m.retry : Int) (b2int cf.gotSocketRetry) (m.clientUid : Int) (m.clientGid : Int)
    (by rw [hgsr]; decide) (by omega) (by omega)
  simp [hgate]

end Tail

section Tail2
open Munge.Cred.B Munge.Gen.Dec Munge.SpecV3

/-- the replay key of the reference credential of `f` -/
def specKey (P : Prims) (cf : Conf) (f : Fields) : ReplayKey :=
  ((specTag P cf.macKey f).take 16, (f.time0 + capT cf f.ttl) % 4294967296)

/-- `decode_emit` for a credential that is already recorded, presented by a retry-flagged request:
    SUCCESS with the same message, nothing inserted, the cache unchanged -/
theorem decode_emit_exempt (P : Prims) (L : PrimLaws P) (cf : Conf) (env : Env) (rs : ReplaySet) (f : Fields) (hf : WF P f)
    (uid gid : Nat) (hp : env.peer = some (uid, gid)) (hid : uid < 4294967296 ∧ gid < 4294967296)
    (hcf : 1 ≤ cf.maxTtl ∧ cf.maxTtl ≤ MUNGE_MAXIMUM_TTL)
    (hnow : 0 ≤ env.now ∧ env.now < 4294967296)
    (hauth : (f.authUid = UID_ANY ∨ f.authUid = uid ∨ (cf.gotRootAuth = true ∧ uid = 0)) ∧
             (f.authGid = GID_ANY ∨ f.authGid = gid ∨ env.member uid f.authGid = true))
    (hwin : let ttl' : Int := if (f.ttl : Int) > cf.maxTtl then cf.maxTtl else f.ttl
            let sk : Int := if cf.gotClockSkew then ttl' else 1
            sk ≤ f.time0 ∧ f.time0 + ttl' < 4294967296 ∧ (f.time0 : Int) - sk ≤ env.now ∧ env.now ≤ f.time0 + ttl')
    (m0 : Msg) (t : Bytes) (ht : (58 : UInt8) ∉ t) (hd : m0.data.take m0.dataLen = emit P cf.macKey cf.dekKey f ++ t)
    (hgsr : cf.gotSocketRetry = true) (hretry : 0 < m0.retry ∧ m0.retry ≤ 5) (herr : m0.errorNum = 0)
    (hpres : specKey P cf f ∈ rs) :
    decProcess P cf env rs m0 =
      { msg := decodedMsg cf env m0 uid gid f, rc := 0, inserted := false, key := some (specKey P cf f), replay := rs } := by
  obtain ⟨r1, r2, r3, r4, r5, r6, r7, r8, r9, r10⟩ := hf.ranges
  have hil := inner_length f
  have hal := hf.addr_len
  have hsl := hf.salt_len
  unfold decProcess
  have h1 : decFront P env rs m0 = .inr (frontMsg env m0 uid gid f, frontScr P cf f) :=
    decFront_ok P L cf env rs f hf uid gid hp (by omega) m0 t ht hd hretry.2
  have h2 : decMid P cf rs (frontMsg env m0 uid gid f) (frontScr P cf f) =
      .inr (midMsg env m0 uid gid f, { frontScr P cf f with inner := inner f }) :=
    decMid_ok P L cf rs (frontMsg env m0 uid gid f) (midMsg env m0 uid gid f) (frontScr P cf f) (compressed P f) (inner f)
      hf.cipher_ok hf.zip_ok herr rfl rfl rfl rfl
      (by intro h; rw [h] at hil; simp at hil; omega) (by omega)
      (unpackInner_ok (frontMsg env m0 uid gid f) f.salt f.addr f.payload f.time0 f.ttl f.uid f.gid f.authUid f.authGid hsl hal
        (by omega) (by omega) (by omega) (by omega) (by omega) (by omega) (by omega))
  have hw := wrapU32_id hnow.1 hnow.2
  have h3 := decTail_exempt cf env rs (midMsg env m0 uid gid f) { frontScr P cf f with inner := inner f }
    ⟨by show f.authUid < _; omega, by show f.authGid < _; omega, hid.1, hid.2, by show f.ttl < _; omega,
      by show f.time0 < _; omega, by show (wrapU32 env.now).toNat < _; omega⟩ hcf hauth
    (by show (let ttl' : Int := if (f.ttl : Int) > cf.maxTtl then cf.maxTtl else f.ttl
              let sk : Int := if cf.gotClockSkew then ttl' else 1
              sk ≤ f.time0 ∧ f.time0 + ttl' < 4294967296 ∧ (f.time0 : Int) - sk ≤ ((wrapU32 env.now).toNat : Int) ∧
                (((wrapU32 env.now).toNat : Nat) : Int) ≤ f.time0 + ttl')
        rw [Int.toNat_of_nonneg (by omega), hw]; exact hwin) hgsr hretry hpres
  rw [h1]; simp only []
  rw [h2]; simp only []
  rw [h3]
  rfl

/-- `decode_emit` restated with `specKey` -/
theorem decode_emit_fresh (P : Prims) (L : PrimLaws P) (cf : Conf) (env : Env) (rs : ReplaySet) (f : Fields) (hf : WF P f)
    (uid gid : Nat) (hp : env.peer = some (uid, gid)) (hid : uid < 4294967296 ∧ gid < 4294967296)
    (hcf : 1 ≤ cf.maxTtl ∧ cf.maxTtl ≤ MUNGE_MAXIMUM_TTL)
    (hnow : 0 ≤ env.now ∧ env.now < 4294967296)
    (hauth : (f.authUid = UID_ANY ∨ f.authUid = uid ∨ (cf.gotRootAuth = true ∧ uid = 0)) ∧
             (f.authGid = GID_ANY ∨ f.authGid = gid ∨ env.member uid f.authGid = true))
    (hwin : let ttl' : Int := if (f.ttl : Int) > cf.maxTtl then cf.maxTtl else f.ttl
            let sk : Int := if cf.gotClockSkew then ttl' else 1
            sk ≤ f.time0 ∧ f.time0 + ttl' < 4294967296 ∧ (f.time0 : Int) - sk ≤ env.now ∧ env.now ≤ f.time0 + ttl')
    (m0 : Msg) (t : Bytes) (ht : (58 : UInt8) ∉ t) (hd : m0.data.take m0.dataLen = emit P cf.macKey cf.dekKey f ++ t)
    (hretry : m0.retry ≤ 5) (herr : m0.errorNum = 0) (hfresh : specKey P cf f ∉ rs) :
    decProcess P cf env rs m0 =
      { msg := decodedMsg cf env m0 uid gid f, rc := 0, inserted := true, key := some (specKey P cf f),
        replay := specKey P cf f :: rs } :=
  decode_emit P L cf env rs f hf uid gid hp hid hcf hnow hauth hwin m0 t ht hd hretry herr hfresh

end Tail2

/-! ### the loop -/

theorem nextI_eq (i e : Int) : nextI i e = i + 1 := rfl
theorem retryOf_eq (i e retry : Int) : retryOf i e retry = wrapU8 i := rfl
theorem loopInit_eq : loopInit = 1 := rfl

/-- the attempt counter `i` while the header carries retry byte `r` -/
def iOf (r : Nat) : Int := (r : Int) + 1

/-- one more failed, retryable attempt: the loop goes round with the next counter and retry byte -/
theorem xferLoop_fail (P : Prims) (cf : Conf) (env : Env) (type : Nat) (body : Bytes) (ft : Fault) (rest : List Fault)
    (r : Nat) (rs : ReplaySet) (tr : List (Nat × Nat)) (sl : List Int) (hr : r + 1 < 5)
    (he : (attempt P cf env rs type r body ft).err = EMUNGE_SOCKET)
    (hl : linkRetries (attempt P cf env rs type r body ft).link = true) :
    xferLoop P cf env type body (ft :: rest) (iOf r) r rs tr sl =
      xferLoop P cf env type body rest (iOf (r + 1)) (r + 1) (attempt P cf env rs type r body ft).rs
        (tr ++ [(r, (attempt P cf env rs type r body ft).delivered)]) (sl ++ [sleepMsecs (iOf r) EMUNGE_SOCKET]) := by
  rw [xferLoop]
  simp only [he, hl]
  rw [if_neg (by decide), if_neg (by simp),
    if_neg (by rw [Bool.not_eq_true, ← Bool.not_eq_true, stop_iff]; unfold EMUNGE_SOCKET iOf; omega)]
  rw [nextI_eq, retryOf_eq]
  have h1 : (wrapU8 (iOf r)).toNat = r + 1 := by unfold wrapU8 iOf; omega
  have h2 : iOf r + 1 = iOf (r + 1) := by unfold iOf; omega
  rw [h1, h2]

/-- a successful attempt ends the loop -/
theorem xferLoop_succ (P : Prims) (cf : Conf) (env : Env) (type : Nat) (body : Bytes) (ft : Fault) (rest : List Fault)
    (i : Int) (r : Nat) (rs : ReplaySet) (tr : List (Nat × Nat)) (sl : List Int)
    (he : (attempt P cf env rs type r body ft).err = EMUNGE_SUCCESS) :
    xferLoop P cf env type body (ft :: rest) i r rs tr sl =
      { err := EMUNGE_SUCCESS, rsp := (attempt P cf env rs type r body ft).rsp, rs := (attempt P cf env rs type r body ft).rs,
        trace := tr ++ [(r, (attempt P cf env rs type r body ft).delivered)], sleeps := sl } := by
  rw [xferLoop]
  simp only [he, if_true]

/-- the fifth failed attempt ends the loop with its error -/
theorem xferLoop_last (P : Prims) (cf : Conf) (env : Env) (type : Nat) (body : Bytes) (ft : Fault) (rest : List Fault)
    (r : Nat) (rs : ReplaySet) (tr : List (Nat × Nat)) (sl : List Int) (hr : 5 ≤ r + 1)
    (he : (attempt P cf env rs type r body ft).err = EMUNGE_SOCKET)
    (hl : linkRetries (attempt P cf env rs type r body ft).link = true) :
    xferLoop P cf env type body (ft :: rest) (iOf r) r rs tr sl =
      { err := EMUNGE_SOCKET, rsp := none, rs := (attempt P cf env rs type r body ft).rs,
        trace := tr ++ [(r, (attempt P cf env rs type r body ft).delivered)], sleeps := sl } := by
  rw [xferLoop]
  simp only [he, hl]
  rw [if_neg (by decide), if_neg (by simp), if_pos (by rw [stop_iff]; unfold iOf; omega)]

/-- SURVIVAL, generically.  `Inv r rs`: the daemon state before the attempt that carries retry byte `r`;
    `Good m rs`: the reply the caller is entitled to, and the daemon state that goes with it. -/
theorem xferLoop_survives (P : Prims) (cf : Conf) (env : Env) (type : Nat) (body : Bytes)
    (Inv : Nat → ReplaySet → Prop) (Good : Msg → ReplaySet → Prop)
    (hstep : ∀ r rs ft, r ≤ 4 → Inv r rs →
      ((attempt P cf env rs type r body ft).err = EMUNGE_SUCCESS ∧
        ∃ m, (attempt P cf env rs type r body ft).rsp = some m ∧ Good m (attempt P cf env rs type r body ft).rs) ∨
      ((attempt P cf env rs type r body ft).err = EMUNGE_SOCKET ∧
        linkRetries (attempt P cf env rs type r body ft).link = true ∧ Inv (r + 1) (attempt P cf env rs type r body ft).rs))
    (hok : ∀ r rs, r ≤ 4 → Inv r rs →
      (attempt P cf env rs type r body .ok).err = EMUNGE_SUCCESS ∧
        ∃ m, (attempt P cf env rs type r body .ok).rsp = some m ∧ Good m (attempt P cf env rs type r body .ok).rs) :
    ∀ (sched rest : List Fault) (r : Nat) (rs : ReplaySet) (tr : List (Nat × Nat)) (sl : List Int),
      sched.length + r ≤ 4 → Inv r rs →
      (xferLoop P cf env type body (sched ++ .ok :: rest) (iOf r) r rs tr sl).err = EMUNGE_SUCCESS ∧
      ∃ m, (xferLoop P cf env type body (sched ++ .ok :: rest) (iOf r) r rs tr sl).rsp = some m ∧
           Good m (xferLoop P cf env type body (sched ++ .ok :: rest) (iOf r) r rs tr sl).rs := by
  intro sched
  induction sched with
  | nil =>
    intro rest r rs tr sl hlen hinv
    obtain ⟨h1, m, h2, h3⟩ := hok r rs (by simpa using hlen) hinv
    rw [List.nil_append, xferLoop_succ _ _ _ _ _ _ _ _ _ _ _ _ h1]
    exact ⟨rfl, m, h2, h3⟩
  | cons ft sched ih =>
    intro rest r rs tr sl hlen hinv
    have hr : r ≤ 3 := by simp only [List.length_cons] at hlen; omega
    rcases hstep r rs ft (by omega) hinv with ⟨h1, m, h2, h3⟩ | ⟨h1, h2, h3⟩
    · rw [List.cons_append, xferLoop_succ _ _ _ _ _ _ _ _ _ _ _ _ h1]
      exact ⟨rfl, m, h2, h3⟩
    · rw [List.cons_append, xferLoop_fail P cf env type body ft (sched ++ .ok :: rest) r rs tr sl (by omega) h1 h2]
      exact ih rest (r + 1) _ _ _ (by simp only [List.length_cons] at hlen; omega) h3

/-- EXHAUSTION, generically: if every faulty attempt fails with a retryable EMUNGE_SOCKET, five faults in a
    row end the loop with EMUNGE_SOCKET, no reply, after exactly five attempts -/
theorem xferLoop_exhausted (P : Prims) (cf : Conf) (env : Env) (type : Nat) (body : Bytes)
    (hfail : ∀ r rs ft, ft ≠ .ok → (attempt P cf env rs type r body ft).err = EMUNGE_SOCKET ∧
      linkRetries (attempt P cf env rs type r body ft).link = true) :
    ∀ (sched : List Fault) (r : Nat) (rs : ReplaySet) (tr : List (Nat × Nat)) (sl : List Int),
      r ≤ 4 → 5 - r ≤ sched.length → (∀ ft ∈ sched.take (5 - r), ft ≠ .ok) →
      (xferLoop P cf env type body sched (iOf r) r rs tr sl).err = EMUNGE_SOCKET ∧
      (xferLoop P cf env type body sched (iOf r) r rs tr sl).rsp = none ∧
      (xferLoop P cf env type body sched (iOf r) r rs tr sl).trace.length = tr.length + (5 - r) := by
  intro sched
  induction sched with
  | nil => intro r rs tr sl hr hlen _; simp only [List.length_nil] at hlen; omega
  | cons ft sched ih =>
    intro r rs tr sl hr hlen hno
    have hft : ft ≠ .ok := hno ft (by
      rw [show 5 - r = (4 - r) + 1 by omega, List.take_succ_cons]; exact List.mem_cons_self)
    obtain ⟨h1, h2⟩ := hfail r rs ft hft
    by_cases h4 : r = 4
    · subst h4
      rw [xferLoop_last P cf env type body ft sched 4 rs tr sl (by omega) h1 h2]
      refine ⟨rfl, rfl, ?_⟩
      simp only [List.length_append, List.length_cons, List.length_nil]
    · rw [xferLoop_fail P cf env type body ft sched r rs tr sl (by omega) h1 h2]
      have ih' := ih (r + 1) (attempt P cf env rs type r body ft).rs (tr ++ [(r, (attempt P cf env rs type r body ft).delivered)])
        (sl ++ [sleepMsecs (iOf r) EMUNGE_SOCKET]) (by omega) (by simp only [List.length_cons] at hlen; omega)
        (fun x hx => hno x (by
          rw [show 5 - r = (5 - (r + 1)) + 1 by omega, List.take_succ_cons]; exact List.mem_cons_of_mem _ hx))
      refine ⟨ih'.1, ih'.2.1, ?_⟩
      rw [ih'.2.2]
      simp only [List.length_append, List.length_cons, List.length_nil]
      omega

/-- the only error codes `m_msg_recv` yields on the client side -/
theorem clientRecv_err (expect : Nat) (s : Bytes) (e : Int) (h : clientRecv expect s = .error e) :
    e = EMUNGE_SOCKET ∨ e = EMUNGE_BAD_LENGTH := by
  unfold clientRecv at h
  by_cases c0 : s.length < MUNGE_MSG_HDR_SIZE.toNat
  · rw [if_pos c0] at h; injection h with h; exact .inl h.symm
  rw [if_neg c0] at h
  dsimp only at h
  by_cases c1 : (rd32 (s.take 4) : Int) ≠ MUNGE_MSG_MAGIC
  · rw [if_pos c1] at h; injection h with h; exact .inl h.symm
  rw [if_neg c1] at h
  by_cases c2 : ((s.getD 4 0).toNat : Int) ≠ MUNGE_MSG_VERSION
  · rw [if_pos c2] at h; injection h with h; exact .inl h.symm
  rw [if_neg c2] at h
  by_cases c3 : (s.getD 5 0).toNat ≠ expect
  · rw [if_pos c3] at h; injection h with h; exact .inl h.symm
  rw [if_neg c3] at h
  by_cases c4 : recvMaxLen > 0 ∧ (rd32 ((s.drop 7).take 4) : Int) > recvMaxLen
  · rw [if_pos c4] at h; injection h with h; exact .inr h.symm
  rw [if_neg c4] at h
  split at h
  · injection h with h; exact .inl h.symm
  · split at h
    · injection h with h; exact .inl h.symm
    · cases h

/-! ### one attempt, fault by fault -/

theorem gate_open (body : Bytes) (hb : body.length ≤ 1048576) : ¬ (sendMaxLen > 0 ∧ (body.length : Int) > sendMaxLen) := by
  unfold sendMaxLen; omega

theorem attempt_q (P : Prims) (cf : Conf) (env : Env) (rs : ReplaySet) (type r : Nat) (body : Bytes) (n : Nat)
    (hb : body.length ≤ 1048576) :
    attempt P cf env rs type r body (.q n) =
      { err := EMUNGE_SOCKET, link := "m_msg_send", rsp := none,
        rs := (daemon P cf env rs ((reqBytes type r body).take (min n ((reqBytes type r body).length - 1))) false).2,
        delivered := min n ((reqBytes type r body).length - 1) } := by
  unfold attempt; rw [if_neg (gate_open body hb)]

theorem attempt_f (P : Prims) (cf : Conf) (env : Env) (rs : ReplaySet) (type r : Nat) (body : Bytes)
    (hb : body.length ≤ 1048576) :
    attempt P cf env rs type r body .f =
      { err := EMUNGE_SOCKET, link := "m_msg_recv", rsp := none, rs := (daemon P cf env rs (reqBytes type r body) false).2,
        delivered := (reqBytes type r body).length } := by
  unfold attempt; rw [if_neg (gate_open body hb)]

theorem attempt_p (P : Prims) (cf : Conf) (env : Env) (rs : ReplaySet) (type r : Nat) (body : Bytes) (n : Nat)
    (hb : body.length ≤ 1048576) :
    attempt P cf env rs type r body (.p n) =
      finish type (daemon P cf env rs (reqBytes type r body) true).2
        (cutReply n (daemon P cf env rs (reqBytes type r body) true).1) (reqBytes type r body).length := by
  unfold attempt; rw [if_neg (gate_open body hb)]

theorem attempt_ok (P : Prims) (cf : Conf) (env : Env) (rs : ReplaySet) (type r : Nat) (body : Bytes)
    (hb : body.length ≤ 1048576) :
    attempt P cf env rs type r body .ok =
      finish type (daemon P cf env rs (reqBytes type r body) true).2
        ((daemon P cf env rs (reqBytes type r body) true).1.getD []) (reqBytes type r body).length := by
  unfold attempt; rw [if_neg (gate_open body hb)]

theorem finish_error (type : Nat) (rs : ReplaySet) (got : Bytes) (d : Nat) (e : Int)
    (h : clientRecv (rspType type) got = .error e) :
    finish type rs got d = { err := e, link := "m_msg_recv", rsp := none, rs := rs, delivered := d } := by
  unfold finish; rw [h]

theorem finish_ok (type : Nat) (rs : ReplaySet) (got : Bytes) (d : Nat) (m : Msg)
    (h : clientRecv (rspType type) got = .ok m) :
    finish type rs got d = { err := EMUNGE_SUCCESS, link := "", rsp := some m, rs := rs, delivered := d } := by
  unfold finish; rw [h]

theorem finish_err_ne (type : Nat) (rs : ReplaySet) (got : Bytes) (d : Nat) : (finish type rs got d).err ≠ -1 := by
  cases h : clientRecv (rspType type) got with
  | error e =>
    rw [finish_error _ _ _ _ _ h]
    rcases clientRecv_err _ _ _ h with h' | h' <;> (show e ≠ -1; rw [h']; decide)
  | ok m => rw [finish_ok _ _ _ _ _ h]; show EMUNGE_SUCCESS ≠ -1; decide

/-- an attempt never yields the model's out-of-schedule value -/
theorem attempt_err_ne (P : Prims) (cf : Conf) (env : Env) (rs : ReplaySet) (type r : Nat) (body : Bytes) (ft : Fault) :
    (attempt P cf env rs type r body ft).err ≠ -1 := by
  unfold attempt
  by_cases c : sendMaxLen > 0 ∧ (body.length : Int) > sendMaxLen
  · rw [if_pos c]; show EMUNGE_BAD_LENGTH ≠ -1; decide
  · rw [if_neg c]
    cases ft with
    | q n => show EMUNGE_SOCKET ≠ -1; decide
    | f => show EMUNGE_SOCKET ≠ -1; decide
    | p n => exact finish_err_ne _ _ _ _
    | ok => exact finish_err_ne _ _ _ _

/-- RANGE of the header's retry byte, for every schedule and every outcome of the attempts: the loop makes at
    most five attempts and the retry byte never exceeds 4 -/
theorem xferLoop_trace (P : Prims) (cf : Conf) (env : Env) (type : Nat) (body : Bytes) :
    ∀ (sched : List Fault) (r : Nat) (rs : ReplaySet) (tr : List (Nat × Nat)) (sl : List Int),
      r ≤ 4 → tr.length = r → (∀ p ∈ tr, p.1 ≤ 4) →
      (xferLoop P cf env type body sched (iOf r) r rs tr sl).trace.length ≤ 5 ∧
      (∀ p ∈ (xferLoop P cf env type body sched (iOf r) r rs tr sl).trace, p.1 ≤ 4) ∧
      (sched ≠ [] → 5 - r ≤ sched.length → (xferLoop P cf env type body sched (iOf r) r rs tr sl).err ≠ -1) := by
  intro sched
  induction sched with
  | nil =>
    intro r rs tr sl hr hl hp
    rw [xferLoop]
    exact ⟨by dsimp only; omega, hp, fun h => absurd rfl h⟩
  | cons ft sched ih =>
    intro r rs tr sl hr hl hp
    have hp' : ∀ p ∈ tr ++ [(r, (attempt P cf env rs type r body ft).delivered)], p.1 ≤ 4 := by
      intro p hp2
      rcases List.mem_append.mp hp2 with h | h
      · exact hp p h
      · rw [List.mem_singleton] at h; rw [h]; exact hr
    have hl' : (tr ++ [(r, (attempt P cf env rs type r body ft).delivered)]).length = r + 1 := by
      rw [List.length_append, hl]; rfl
    rw [xferLoop]
    by_cases c1 : (attempt P cf env rs type r body ft).err = EMUNGE_SUCCESS
    · rw [if_pos c1]
      exact ⟨by dsimp only; omega, hp', fun _ _ => by dsimp only; decide⟩
    · rw [if_neg c1]
      have hne := attempt_err_ne P cf env rs type r body ft
      by_cases c2 : ¬ linkRetries (attempt P cf env rs type r body ft).link = true
      · rw [if_pos c2]
        exact ⟨by dsimp only; omega, hp', fun _ _ => hne⟩
      · rw [if_neg c2]
        by_cases c3 : stop (iOf r) (attempt P cf env rs type r body ft).err = true
        · rw [if_pos c3]
          exact ⟨by dsimp only; omega, hp', fun _ _ => hne⟩
        · rw [if_neg c3]
          have hlt : r + 1 < 5 := by
            have : ¬ (iOf r ≥ 5 ∨ (attempt P cf env rs type r body ft).err = 3) := fun h => c3 ((stop_iff _ _).mpr h)
            unfold iOf at this; omega
          rw [nextI_eq, retryOf_eq]
          have h1 : (wrapU8 (iOf r)).toNat = r + 1 := by unfold wrapU8 iOf; omega
          have h2 : iOf r + 1 = iOf (r + 1) := by unfold iOf; omega
          rw [h1, h2]
          have ih' := ih (r + 1) (attempt P cf env rs type r body ft).rs _ (sl ++ [sleepMsecs (iOf r) (attempt P cf env rs type r body ft).err])
            (by omega) hl' hp'
          refine ⟨ih'.1, ih'.2.1, fun _ hlen => ih'.2.2 ?_ ?_⟩
          · intro h; rw [h] at hlen; simp only [List.length_cons, List.length_nil] at hlen; omega
          · simp only [List.length_cons] at hlen; omega

/-! ### the daemon on incomplete requests; the shape of its replies -/

theorem reqBytes_length (t r : Nat) (body : Bytes) : (reqBytes t r body).length = 11 + body.length := by
  unfold reqBytes; rw [List.length_append, hdrBytes_length]

theorem daemon_prefix (P : Prims) (cf : Conf) (env : Env) (rs : ReplaySet) (t r : Nat) (body : Bytes) (s : Bool)
    (hb : body.length ≤ 1048576) (k : Nat) (hk : k < (reqBytes t r body).length) :
    daemon P cf env rs ((reqBytes t r body).take k) s = (none, rs) := by
  obtain ⟨w, hw⟩ := recvMsg_prefix t r body (by unfold Munge.Gen.Dec.MUNGE_MAXIMUM_REQ_LEN; omega) k hk
  unfold daemon reqBytes
  rw [hw]

theorem cut_lt (n len : Nat) (h : 0 < len) : min n (len - 1) < len := by omega

/-- whatever the daemon sends is a header followed by the body it declares -/
theorem daemon_reply_shape (P : Prims) (cf : Conf) (env : Env) (rs : ReplaySet) (req b : Bytes)
    (h : (daemon P cf env rs req true).1 = some b) : ∃ t r body, b = hdrBytes t r body.length ++ body := by
  unfold daemon at h
  cases hr : recvMsg req with
  | drop w => rw [hr] at h; cases h
  | enc m =>
    rw [hr] at h
    simp only [if_true, Option.some.injEq] at h
    obtain ⟨body, hb⟩ := encRsp_shape (encProcess P cf env m).1
    exact ⟨_, _, body, h ▸ hb⟩
  | dec m =>
    rw [hr] at h
    simp only [if_true, Option.some.injEq] at h
    obtain ⟨body, hb⟩ := decRsp_shape (decProcess P cf env rs m).msg
    exact ⟨_, _, body, h ▸ hb⟩

/-- under `p n` the client's `m_msg_recv` fails with EMUNGE_SOCKET whatever the daemon sent -/
theorem cutReply_fails (expect n : Nat) (b : Option Bytes)
    (hshape : ∀ x, b = some x → ∃ t r body, x = hdrBytes t r body.length ++ body ∧ body.length < 4294967296) :
    clientRecv expect (cutReply n b) = .error EMUNGE_SOCKET := by
  cases b with
  | none =>
    show clientRecv expect [] = _
    unfold clientRecv
    rw [if_pos (by decide)]
  | some x =>
    obtain ⟨t, r, body, hx, hl⟩ := hshape x rfl
    unfold cutReply
    dsimp only
    rw [hx]
    exact clientRecv_prefix expect t r body hl _ (cut_lt _ _ (by rw [List.length_append, hdrBytes_length]; omega))

/-- EXHAUSTION for `m_msg_client_xfer`: any request, any five faults -/
theorem xfer_exhausted (P : Prims) (cf : Conf) (env : Env) (rs : ReplaySet) (type : Nat) (body : Bytes)
    (hb : body.length ≤ 1048576)
    (hfit : ∀ rs' r b, (daemon P cf env rs' (reqBytes type r body) true).1 = some b → b.length < 4294967296 + 11)
    (sched : List Fault) (h5 : 5 ≤ sched.length) (hno : ∀ ft ∈ sched.take 5, ft ≠ .ok) :
    (xfer P cf env rs type body sched).err = EMUNGE_SOCKET ∧ (xfer P cf env rs type body sched).rsp = none ∧
    (xfer P cf env rs type body sched).trace.length = 5 := by
  have hfail : ∀ r rs' ft, ft ≠ .ok → (attempt P cf env rs' type r body ft).err = EMUNGE_SOCKET ∧
      linkRetries (attempt P cf env rs' type r body ft).link = true := by
    intro r rs' ft hft
    cases ft with
    | q n => rw [attempt_q _ _ _ _ _ _ _ _ hb]; exact ⟨rfl, linkRetries_send⟩
    | f => rw [attempt_f _ _ _ _ _ _ _ hb]; exact ⟨rfl, linkRetries_recv⟩
    | ok => exact absurd rfl hft
    | p n =>
      rw [attempt_p _ _ _ _ _ _ _ _ hb]
      have hc := cutReply_fails (rspType type) n (daemon P cf env rs' (reqBytes type r body) true).1 (by
        intro x hx
        obtain ⟨t, r', body', hs⟩ := daemon_reply_shape P cf env rs' _ x hx
        refine ⟨t, r', body', hs, ?_⟩
        have := hfit rs' r x hx
        rw [hs, List.length_append, hdrBytes_length] at this
        omega)
      rw [finish_error _ _ _ _ _ hc]
      exact ⟨rfl, linkRetries_recv⟩
  have h := xferLoop_exhausted P cf env type body hfail (padded sched) 0 rs [] [] (by omega)
    (by unfold padded; rw [List.length_append]; omega)
    (by unfold padded; rw [show 5 - 0 = 5 from rfl, List.take_append_of_le_length h5]; exact hno)
  unfold xfer
  rw [show loopInit = iOf 0 from rfl]
  simpa using h

theorem daemon_dec_true (P : Prims) (cf : Conf) (env : Env) (rs : ReplaySet) (req : Bytes) (m : Msg)
    (h : recvMsg req = .dec m) :
    daemon P cf env rs req true = (some (decRsp (decProcess P cf env rs m).msg), (decProcess P cf env rs m).replay) := by
  unfold daemon; rw [h]; rfl

theorem daemon_dec_false (P : Prims) (cf : Conf) (env : Env) (rs : ReplaySet) (req : Bytes) (m : Msg)
    (h : recvMsg req = .dec m) :
    daemon P cf env rs req false =
      (none, if (decProcess P cf env rs m).rc = 0 ∧ (decProcess P cf env rs m).inserted = true then
               (match (decProcess P cf env rs m).key with
                | some k => (decProcess P cf env rs m).replay.erase k
                | none => (decProcess P cf env rs m).replay)
             else (decProcess P cf env rs m).replay) := by
  rw [daemon_eq_jobExec]; unfold jobExec; rw [h]; rfl

theorem daemon_enc (P : Prims) (cf : Conf) (env : Env) (rs : ReplaySet) (req : Bytes) (m : Msg) (s : Bool)
    (h : recvMsg req = .enc m) :
    daemon P cf env rs req s = (if s then some (encRsp (encProcess P cf env m).1) else none, rs) := by
  unfold daemon; rw [h]

/-- ANY byte string that is shorter than a header, or shorter than the header plus the body length the header
    declares, yields no message on the daemon side -/
theorem recvMsg_short (s : Bytes) (h : s.length < 11 ∨ s.length < 11 + rd32 ((s.drop 7).take 4)) :
    ∃ w, recvMsg s = .drop w := by
  unfold recvMsg
  by_cases c0 : s.length < 11
  · exact ⟨_, if_pos c0⟩
  rw [if_neg c0]
  simp only []
  by_cases c1 : rd32 (s.take 4) ≠ 6319435
  · exact ⟨_, if_pos c1⟩
  rw [if_neg c1]
  by_cases c2 : (s.getD 4 0).toNat ≠ 4
  · exact ⟨_, if_pos c2⟩
  rw [if_neg c2]
  by_cases c3 : (rd32 ((s.drop 7).take 4) : Int) > Munge.Gen.Dec.MUNGE_MAXIMUM_REQ_LEN
  · exact ⟨_, if_pos c3⟩
  rw [if_neg c3]
  have hl : ((s.drop 11).take (rd32 ((s.drop 7).take 4))).length < rd32 ((s.drop 7).take 4) := by
    rw [List.length_take, List.length_drop]; omega
  exact ⟨_, if_pos hl⟩

/-- … and none on the client side -/
theorem clientRecv_short (expect : Nat) (s : Bytes) (h : s.length < 11 ∨ s.length < 11 + rd32 ((s.drop 7).take 4)) :
    ∃ e, clientRecv expect s = .error e := by
  have e11 : MUNGE_MSG_HDR_SIZE.toNat = 11 := rfl
  unfold clientRecv
  rw [e11]
  by_cases c0 : s.length < 11
  · exact ⟨_, if_pos c0⟩
  rw [if_neg c0]
  simp only []
  by_cases c1 : (rd32 (s.take 4) : Int) ≠ MUNGE_MSG_MAGIC
  · exact ⟨_, if_pos c1⟩
  rw [if_neg c1]
  by_cases c2 : ((s.getD 4 0).toNat : Int) ≠ MUNGE_MSG_VERSION
  · exact ⟨_, if_pos c2⟩
  rw [if_neg c2]
  by_cases c3 : (s.getD 5 0).toNat ≠ expect
  · exact ⟨_, if_pos c3⟩
  rw [if_neg c3]
  by_cases c4 : recvMaxLen > 0 ∧ (rd32 ((s.drop 7).take 4) : Int) > recvMaxLen
  · exact ⟨_, if_pos c4⟩
  rw [if_neg c4]
  have hl : ((s.drop 11).take (rd32 ((s.drop 7).take 4))).length < rd32 ((s.drop 7).take 4) := by
    rw [List.length_take, List.length_drop]; omega
  exact ⟨_, if_pos hl⟩

/-! ### `munge_decode` / `munge_encode` from the outcome of the transfer -/

theorem mungeDecode_ok (P : Prims) (cf : Conf) (env : Env) (rs : ReplaySet) (cred : Bytes) (sched : List Fault) (m : Msg)
    (h1 : (xfer P cf env rs 4 (decBody cred) sched).err = EMUNGE_SUCCESS)
    (h3 : (xfer P cf env rs 4 (decBody cred) sched).rsp = some m) (ht : m.type = 5) :
    mungeDecode P cf env rs cred sched = (decodeRsp m, xfer P cf env rs 4 (decBody cred) sched) := by
  unfold mungeDecode
  rw [show MUNGE_MSG_DEC_REQ.toNat = 4 from rfl]
  simp only [h1, h3, ne_eq, not_true_eq_false, if_false]
  rw [if_neg (by rw [ht]; decide)]

theorem mungeDecode_fail (P : Prims) (cf : Conf) (env : Env) (rs : ReplaySet) (cred : Bytes) (sched : List Fault)
    (h1 : (xfer P cf env rs 4 (decBody cred) sched).err ≠ EMUNGE_SUCCESS) :
    mungeDecode P cf env rs cred sched =
      ({ err := (xfer P cf env rs 4 (decBody cred) sched).err }, xfer P cf env rs 4 (decBody cred) sched) := by
  unfold mungeDecode
  rw [show MUNGE_MSG_DEC_REQ.toNat = 4 from rfl]
  simp only []
  rw [if_pos h1]

theorem mungeEncode_ok (P : Prims) (cf : Conf) (env : Env) (rs : ReplaySet) (c : Msg) (sched : List Fault) (m : Msg)
    (h1 : (xfer P cf env rs 2 (encBody c) sched).err = EMUNGE_SUCCESS)
    (h3 : (xfer P cf env rs 2 (encBody c) sched).rsp = some m) (ht : m.type = 3) (hd : m.dataLen ≠ 0) :
    mungeEncode P cf env rs c sched = ({ err := m.errorNum, cred := some m.data }, xfer P cf env rs 2 (encBody c) sched) := by
  unfold mungeEncode
  rw [show MUNGE_MSG_ENC_REQ.toNat = 2 from rfl]
  simp only [h1, h3, ne_eq, not_true_eq_false, if_false]
  rw [if_neg (by rw [ht]; decide), if_neg hd]

theorem mungeEncode_fail (P : Prims) (cf : Conf) (env : Env) (rs : ReplaySet) (c : Msg) (sched : List Fault)
    (h1 : (xfer P cf env rs 2 (encBody c) sched).err ≠ EMUNGE_SUCCESS) :
    mungeEncode P cf env rs c sched =
      ({ err := (xfer P cf env rs 2 (encBody c) sched).err, cred := none }, xfer P cf env rs 2 (encBody c) sched) := by
  unfold mungeEncode
  rw [show MUNGE_MSG_ENC_REQ.toNat = 2 from rfl]
  simp only []
  rw [if_pos h1]

/-! ### a transaction whose reply cannot be sent -/

/-- how a decode leaves the cache: a request that inserted succeeded and added exactly its own key;
    every other request leaves the cache as it was -/
def ReplayKept (rs : ReplaySet) (o : DecOut) : Prop :=
  (o.inserted = true → o.rc = 0 ∧ ∃ k, o.key = some k ∧ o.replay = k :: rs) ∧ (o.inserted = false → o.replay = rs)

theorem decTail_replay (cf : Conf) (env : Env) (rs : ReplaySet) (m : Msg) (s : Scratch) :
    ReplayKept rs (decTail cf env rs m s) := by
  unfold decTail
  simp only []
  refine ite_pred (ReplayKept rs) (fun hv => ?_) (fun _ => ?_)
  · exact ⟨fun h => (by cases h), fun _ => rfl⟩
  refine ite_pred (ReplayKept rs) (fun hv => ?_) (fun _ => ?_)
  · exact ⟨fun h => (by cases h), fun _ => rfl⟩
  generalize List.contains rs _ = c
  generalize replayKey _ s = key
  cases c
  · simp only [Bool.false_eq_true, if_false]
    refine ite_pred (ReplayKept rs) (fun hv => ?_) (fun hv => ?_)
    · exfalso
      have := Munge.Cred.dec_validate_replay_err _ _ _ _ _ 0 (.inl rfl) hv
      omega
    · exact ⟨fun _ => ⟨rfl, key, rfl, rfl⟩, fun h => by simp at h⟩
  · simp only [if_true]
    refine ite_pred (ReplayKept rs) (fun hv => ?_) (fun hv => ?_)
    · exact ⟨fun h => (by cases h), fun _ => rfl⟩
    · exact ⟨fun h => (by simp at h), fun _ => rfl⟩

theorem decProcess_replay (P : Prims) (cf : Conf) (env : Env) (rs : ReplaySet) (m : Msg) :
    ReplayKept rs (decProcess P cf env rs m) := by
  unfold decProcess
  have hf := decFront_spec P env rs m
  generalize decFront P env rs m = fr at hf
  rcases fr with o | ⟨m1, s1⟩
  · obtain ⟨m', ho, _, _⟩ := hf
    subst ho
    exact ⟨fun h => (by cases h), fun _ => rfl⟩
  simp only []
  have hm := decMid_spec P cf rs m1 s1
  generalize decMid P cf rs m1 s1 = fr at hm
  rcases fr with o | ⟨m2, s2⟩
  · obtain ⟨m', ho, _, _⟩ := hm
    subst ho
    exact ⟨fun h => (by cases h), fun _ => rfl⟩
  simp only []
  exact decTail_replay cf env rs m2 s2

/-- a transaction whose reply cannot be sent leaves the replay cache exactly as it found it -/
theorem daemon_undeliverable (P : Prims) (cf : Conf) (env : Env) (rs : ReplaySet) (req : Bytes) :
    daemon P cf env rs req false = (none, rs) := by
  cases hr : recvMsg req with
  | drop w => unfold daemon; rw [hr]
  | enc m => rw [daemon_enc _ _ _ _ _ _ _ hr]; rfl
  | dec m =>
    rw [daemon_dec_false _ _ _ _ _ _ hr]
    obtain ⟨h1, h2⟩ := decProcess_replay P cf env rs m
    cases hi : (decProcess P cf env rs m).inserted with
    | false =>
      rw [if_neg (by simp), h2 hi]
    | true =>
      obtain ⟨hrc, k, hk, hrep⟩ := h1 hi
      rw [if_pos ⟨hrc, rfl⟩, hk, hrep]
      show (none, (k :: rs).erase k) = _
      rw [List.erase_cons_head]

/-! ### decode over a faulty connection -/

theorem decRsp_fits (m : Msg) (h : RspOk m) :
    ∃ body, decRsp m = hdrBytes 5 m.retry body.length ++ body ∧ body.length < 4294967296 := by
  obtain ⟨el, estr, he, hl⟩ := errWire_shape m
  refine ⟨_, rfl, ?_⟩
  have lr : (m.realm.take m.realmLen).length = m.realmLen := by rw [List.length_take]; exact Nat.min_eq_left h.realm
  have la : (m.addr.take m.addrLen).length = m.addrLen := by rw [List.length_take]; exact Nat.min_eq_left h.addr
  have ld : (m.data.take m.dataLen).length = m.dataLen := by rw [List.length_take]; exact Nat.min_eq_left h.data.1
  have : el.toNat < 256 := el.toNat_lt
  have hd2 := h.data.2
  obtain ⟨s1, s2, s3, s4, s5⟩ := h.small
  rw [he]
  simp only [List.length_cons, List.length_append, lr, la, ld, B.be32_length, List.length_nil]
  omega

section Decode
open Munge.Cred.B Munge.Gen.Dec Munge.SpecV3

/-- everything `decode_emit` asks of the credential `f`, the decoding client and the daemon -/
structure DecSetup (P : Prims) (cf : Conf) (env : Env) (f : Fields) (uid gid : Nat) : Prop where
  laws : PrimLaws P
  wf : WF P f
  peer : env.peer = some (uid, gid)
  id : uid < 4294967296 ∧ gid < 4294967296
  maxTtl : 1 ≤ cf.maxTtl ∧ cf.maxTtl ≤ MUNGE_MAXIMUM_TTL
  now : 0 ≤ env.now ∧ env.now < 4294967296
  auth : (f.authUid = UID_ANY ∨ f.authUid = uid ∨ (cf.gotRootAuth = true ∧ uid = 0)) ∧
         (f.authGid = GID_ANY ∨ f.authGid = gid ∨ env.member uid f.authGid = true)
  win : let ttl' : Int := if (f.ttl : Int) > cf.maxTtl then cf.maxTtl else f.ttl
        let sk : Int := if cf.gotClockSkew then ttl' else 1
        sk ≤ f.time0 ∧ f.time0 + ttl' < 4294967296 ∧ (f.time0 : Int) - sk ≤ env.now ∧ env.now ≤ f.time0 + ttl'
  retries : cf.gotSocketRetry = true
  fits : (emit P cf.macKey cf.dekKey f ++ [0]).length + 4 ≤ 1048576

/-- the credential string libmunge passes: the armored credential and its NUL -/
def credOf (P : Prims) (cf : Conf) (f : Fields) : Bytes := emit P cf.macKey cf.dekKey f ++ [0]

/-- the reply message of a successful decode of `f` to a request carrying retry byte `r` -/
def okMsg (P : Prims) (cf : Conf) (env : Env) (f : Fields) (uid gid r : Nat) : Msg :=
  decodedMsg cf env (decReqMsg r (credOf P cf f)) uid gid f

theorem okMsg_RspOk (P : Prims) (cf : Conf) (env : Env) (f : Fields) (uid gid r : Nat) (S : DecSetup P cf env f uid gid)
    (hr : r ≤ 5) : RspOk (okMsg P cf env f uid gid r) := by
  obtain ⟨r1, r2, r3, r4, r5, r6, r7, r8, r9, r10⟩ := S.wf.ranges
  have hrl := S.wf.realm_len
  have hal := S.wf.addr_len
  have hcap : capT cf f.ttl < 4294967296 := by
    have := S.maxTtl; unfold MUNGE_MAXIMUM_TTL at this
    unfold capT; split <;> omega
  have hnow : (wrapU32 env.now).toNat < 4294967296 := by have := S.now; unfold wrapU32; omega
  unfold okMsg decodedMsg decReqMsg
  constructor
  · show r < 256; omega
  · show 0 < 256; omega
  · refine ⟨r1, r2, r3, ?_, ?_⟩
    · show (if f.realm.length > 0 then (f.realm.length + 1) % 256 else f.realm.length) < 256
      split <;> omega
    · show f.addr.length ≤ 4; omega
  · show (if f.realm.length > 0 then (f.realm.length + 1) % 256 else f.realm.length) ≤
      (if f.realm.length > 0 then f.realm ++ [0] else []).length
    split
    · rw [List.length_append]; simp only [List.length_cons, List.length_nil]; omega
    · omega
  · show f.addr.length ≤ (if f.addr.length = 4 then f.addr else [0, 0, 0, 0]).length
    split
    · omega
    · simp only [List.length_cons, List.length_nil]; omega
  · exact ⟨hcap, by show f.time0 < _; omega, hnow, by show f.uid < _; omega, by show f.gid < _; omega,
      by show f.authUid < _; omega, by show f.authGid < _; omega⟩
  · exact ⟨by show f.payload.length ≤ f.payload.length; omega, by show f.payload.length < _; omega⟩

theorem credOf_fits (P : Prims) (cf : Conf) (env : Env) (f : Fields) (uid gid : Nat) (S : DecSetup P cf env f uid gid) :
    (decBody (credOf P cf f)).length ≤ 1048576 := by
  have := S.fits
  unfold decBody credOf
  rw [List.length_append, B.be32_length]; omega

/-- the daemon's two answers to libmunge's decode request with retry byte `r`, on a cache that either does not
    hold the credential's record or holds it while `r ≥ 1` -/
theorem dec_daemon (P : Prims) (cf : Conf) (env : Env) (f : Fields) (uid gid : Nat) (S : DecSetup P cf env f uid gid)
    (rs rs' : ReplaySet) (hk : specKey P cf f ∉ rs) (r : Nat) (hr : r ≤ 5)
    (hinv : rs' = rs ∨ (rs' = specKey P cf f :: rs ∧ 1 ≤ r)) :
    daemon P cf env rs' (reqBytes 4 r (decBody (credOf P cf f))) true =
      (some (decRsp (okMsg P cf env f uid gid r)), specKey P cf f :: rs) ∧
    daemon P cf env rs' (reqBytes 4 r (decBody (credOf P cf f))) false = (none, rs') := by
  have hrecv := recvMsg_decReq r (credOf P cf f) (by omega) (by have := S.fits; unfold credOf; omega)
  have hd : (decReqMsg r (credOf P cf f)).data.take (decReqMsg r (credOf P cf f)).dataLen =
      emit P cf.macKey cf.dekKey f ++ [0] := by
    show (credOf P cf f).take (credOf P cf f).length = _
    rw [List.take_length]; rfl
  rcases hinv with h | ⟨h, h1⟩
  · subst h
    have hp := decode_emit_fresh P S.laws cf env rs' f S.wf uid gid S.peer S.id S.maxTtl S.now S.auth S.win
      (decReqMsg r (credOf P cf f)) [0] (by decide) hd hr rfl hk
    rw [daemon_dec_true _ _ _ _ _ _ hrecv, daemon_dec_false _ _ _ _ _ _ hrecv, hp]
    refine ⟨rfl, ?_⟩
    show (none, if (0 : Int) = 0 ∧ true = true then (specKey P cf f :: rs').erase (specKey P cf f) else _) = _
    rw [if_pos ⟨rfl, rfl⟩, List.erase_cons_head]
  · subst h
    have hp := decode_emit_exempt P S.laws cf env (specKey P cf f :: rs) f S.wf uid gid S.peer S.id S.maxTtl S.now S.auth S.win
      (decReqMsg r (credOf P cf f)) [0] (by decide) hd S.retries ⟨h1, hr⟩ rfl List.mem_cons_self
    rw [daemon_dec_true _ _ _ _ _ _ hrecv, daemon_dec_false _ _ _ _ _ _ hrecv, hp]
    refine ⟨rfl, ?_⟩
    show (none, if (0 : Int) = 0 ∧ false = true then _ else specKey P cf f :: rs) = _
    rw [if_neg (by simp)]

theorem padded_eq (sched : List Fault) : padded sched = sched ++ Fault.ok :: List.replicate 5 Fault.ok := rfl

theorem rspType_dec : rspType 4 = 5 := rfl
theorem rspType_enc : rspType 2 = 3 := rfl

/-- SURVIVAL of a decode: after at most four faults of any kind the transfer succeeds, the reply is the successful
    decode of the credential, and the credential is recorded -/
theorem decode_xfer (P : Prims) (cf : Conf) (env : Env) (f : Fields) (uid gid : Nat) (S : DecSetup P cf env f uid gid)
    (rs : ReplaySet) (hk : specKey P cf f ∉ rs) (sched : List Fault) (hlen : sched.length ≤ 4) :
    (xfer P cf env rs 4 (decBody (credOf P cf f)) sched).err = Munge.Gen.Retry.EMUNGE_SUCCESS ∧
    (xfer P cf env rs 4 (decBody (credOf P cf f)) sched).rs = specKey P cf f :: rs ∧
    ∃ r, r ≤ 4 ∧ (xfer P cf env rs 4 (decBody (credOf P cf f)) sched).rsp = some (decView (okMsg P cf env f uid gid r)) := by
  have hb := credOf_fits P cf env f uid gid S
  have hgood : ∀ r rs', r ≤ 4 → (rs' = rs ∨ (rs' = specKey P cf f :: rs ∧ 1 ≤ r)) →
      (attempt P cf env rs' 4 r (decBody (credOf P cf f)) .ok).err = Munge.Gen.Retry.EMUNGE_SUCCESS ∧
      ∃ m, (attempt P cf env rs' 4 r (decBody (credOf P cf f)) .ok).rsp = some m ∧
        ((attempt P cf env rs' 4 r (decBody (credOf P cf f)) .ok).rs = specKey P cf f :: rs ∧
          ∃ r', r' ≤ 4 ∧ m = decView (okMsg P cf env f uid gid r')) := by
    intro r rs' hr hinv
    obtain ⟨d1, _⟩ := dec_daemon P cf env f uid gid S rs rs' hk r (by omega) hinv
    have hc := clientRecv_decRsp _ (okMsg_RspOk P cf env f uid gid r S (by omega))
    rw [attempt_ok _ _ _ _ _ _ _ hb, d1]
    rw [finish_ok 4 _ _ _ _ (by rw [rspType_dec]; exact hc)]
    exact ⟨rfl, _, rfl, rfl, r, hr, rfl⟩
  have h := xferLoop_survives P cf env 4 (decBody (credOf P cf f))
    (fun r rs' => rs' = rs ∨ (rs' = specKey P cf f :: rs ∧ 1 ≤ r))
    (fun m rs' => rs' = specKey P cf f :: rs ∧ ∃ r, r ≤ 4 ∧ m = decView (okMsg P cf env f uid gid r))
    (by
      intro r rs' ft hr hinv
      obtain ⟨d1, d2⟩ := dec_daemon P cf env f uid gid S rs rs' hk r (by omega) hinv
      cases ft with
      | ok => exact .inl (hgood r rs' hr hinv)
      | q n =>
        right
        rw [attempt_q _ _ _ _ _ _ _ _ hb, daemon_prefix _ _ _ _ _ _ _ _ hb _ (cut_lt _ _ (by rw [reqBytes_length]; omega))]
        refine ⟨rfl, linkRetries_send, ?_⟩
        rcases hinv with h | ⟨h, h1⟩
        · exact .inl h
        · exact .inr ⟨h, by omega⟩
      | f =>
        right
        rw [attempt_f _ _ _ _ _ _ _ hb, d2]
        refine ⟨rfl, linkRetries_recv, ?_⟩
        rcases hinv with h | ⟨h, h1⟩
        · exact .inl h
        · exact .inr ⟨h, by omega⟩
      | p n =>
        right
        rw [attempt_p _ _ _ _ _ _ _ _ hb, d1]
        have hc := cutReply_fails (rspType 4) n (some (decRsp (okMsg P cf env f uid gid r))) (by
          intro x hx
          injection hx with hx
          obtain ⟨body, hs, hl⟩ := decRsp_fits _ (okMsg_RspOk P cf env f uid gid r S (by omega))
          exact ⟨_, _, body, hx ▸ hs, hl⟩)
        rw [finish_error 4 _ _ _ _ hc]
        exact ⟨rfl, linkRetries_recv, .inr ⟨rfl, by omega⟩⟩)
    hgood sched (List.replicate 5 .ok) 0 rs [] [] (by omega) (.inl rfl)
  unfold xfer
  rw [padded_eq, show loopInit = iOf 0 from rfl]
  obtain ⟨h1, m, h2, h3, r, h4, h5⟩ := h
  exact ⟨h1, h3, r, h4, h5 ▸ h2⟩

end Decode

/-! ### encode over a faulty connection -/
section Encode
open Munge.Cred.B Munge.Gen.Dec

theorem enc_check_retry_ok (r uid gid : Int) (h : r ≤ 5) : ¬ (enc_check_retry r uid gid).ret < 0 := by
  unfold enc_check_retry
  rw [if_neg (by omega)]
  decide

/-- the success path of `encProcess`, computed from its preconditions -/
theorem encProcess_of (P : Prims) (cf : Conf) (env : Env) (m0 : Msg) (uid gid : Nat)
    (hp : env.peer = some (uid, gid)) (hv : 0 ≤ (encValidate P cf m0).ret) (hr : m0.retry ≤ 5) (hnow : env.now ≠ -1) :
    encProcess P cf env m0 = (B.encBody P cf env (applyWrites m0 (encValidate P cf m0) "m.") uid gid, 0) := by
  unfold encProcess
  simp only [show ¬ (encValidate P cf m0).ret < 0 by omega, if_false, hp]
  rw [if_neg (enc_check_retry_ok _ _ _ (by show ((m0.retry : Nat) : Int) ≤ 5; omega)), if_neg hnow]
  rfl

/-- … which does not look at the header's retry byte other than to carry it along -/
theorem encProcess_retry (P : Prims) (cf : Conf) (env : Env) (m : Msg) (r : Nat) (hr : r ≤ 5)
    (hok : (encProcess P cf env (encReqMsg 0 m)).2 = 0) :
    encProcess P cf env (encReqMsg r m) = ({ (encProcess P cf env (encReqMsg 0 m)).1 with retry := r }, 0) := by
  obtain ⟨uid, gid, hp, hv, hnow, he⟩ := encProcess_ok P cf env _ hok
  rw [he]
  rw [encProcess_of P cf env (encReqMsg r m) uid gid hp hv hr hnow, encBody_eq, encBody_eq]
  rfl

/-- what the encode theorems ask of the call: options and payload representable, the daemon accepts the request,
    and the credential's length fits a C `int` (as `_msg_length` requires for the reply to be sent at all) -/
structure EncSetup (P : Prims) (cf : Conf) (env : Env) (m : Msg) : Prop where
  call : CallOk m
  ok : (encProcess P cf env (encReqMsg 0 m)).2 = 0
  small : (encProcess P cf env (encReqMsg 0 m)).1.dataLen < 2147483648

/-- the reply message to the attempt carrying retry byte `r` -/
def encOkMsg (P : Prims) (cf : Conf) (env : Env) (m : Msg) (r : Nat) : Msg :=
  { (encProcess P cf env (encReqMsg 0 m)).1 with retry := r }

theorem encOk_facts (P : Prims) (cf : Conf) (env : Env) (m : Msg) (S : EncSetup P cf env m) :
    (encProcess P cf env (encReqMsg 0 m)).1.errorNum = 0 ∧
    (encProcess P cf env (encReqMsg 0 m)).1.dataLen = (encProcess P cf env (encReqMsg 0 m)).1.data.length := by
  obtain ⟨uid, gid, hp, hv, hnow, he⟩ := encProcess_ok P cf env _ S.ok
  rw [he, encBody_eq]
  exact ⟨rfl, rfl⟩

theorem enc_daemon (P : Prims) (cf : Conf) (env : Env) (m : Msg) (S : EncSetup P cf env m) (rs : ReplaySet) (r : Nat)
    (hr : r ≤ 5) :
    daemon P cf env rs (reqBytes 2 r (Munge.Retry.encBody m)) true = (some (encRsp (encOkMsg P cf env m r)), rs) ∧
    daemon P cf env rs (reqBytes 2 r (Munge.Retry.encBody m)) false = (none, rs) := by
  rw [daemon_enc _ _ _ _ _ _ _ (recvMsg_encReq r m (by omega) S.call), daemon_enc _ _ _ _ _ _ _ (recvMsg_encReq r m (by omega) S.call),
    encProcess_retry P cf env m r hr S.ok]
  exact ⟨rfl, rfl⟩

theorem encRsp_fits (m : Msg) (hd : m.dataLen ≤ m.data.length ∧ m.dataLen < 2147483648) :
    ∃ body, encRsp m = hdrBytes 3 m.retry body.length ++ body ∧ body.length < 4294967296 := by
  obtain ⟨el, estr, he, hl⟩ := errWire_shape m
  refine ⟨_, rfl, ?_⟩
  have ld : (m.data.take m.dataLen).length = m.dataLen := by rw [List.length_take]; exact Nat.min_eq_left hd.1
  have : el.toNat < 256 := el.toNat_lt
  have hd2 := hd.2
  rw [he]
  simp only [List.length_cons, List.length_append, ld, B.be32_length, List.length_nil]
  omega

theorem encode_xfer (P : Prims) (cf : Conf) (env : Env) (m : Msg) (S : EncSetup P cf env m) (rs : ReplaySet)
    (sched : List Fault) (hlen : sched.length ≤ 4) :
    (xfer P cf env rs 2 (Munge.Retry.encBody m) sched).err = Munge.Gen.Retry.EMUNGE_SUCCESS ∧
    (xfer P cf env rs 2 (Munge.Retry.encBody m) sched).rs = rs ∧
    ∃ r, r ≤ 4 ∧ (xfer P cf env rs 2 (Munge.Retry.encBody m) sched).rsp = some (encView (encOkMsg P cf env m r)) := by
  have hb := S.call.fits
  obtain ⟨e0, el⟩ := encOk_facts P cf env m S
  have hsmall := S.small
  have hview : ∀ r, r ≤ 4 → clientRecv 3 (encRsp (encOkMsg P cf env m r)) = .ok (encView (encOkMsg P cf env m r)) := by
    intro r hr
    exact clientRecv_encRsp _ (by show r < 256; omega)
      (by show (encProcess P cf env (encReqMsg 0 m)).1.errorNum < 256; omega)
      ⟨by show (encProcess P cf env (encReqMsg 0 m)).1.dataLen ≤ (encProcess P cf env (encReqMsg 0 m)).1.data.length; omega,
       hsmall⟩
  have hgood : ∀ r rs', r ≤ 4 → rs' = rs →
      (attempt P cf env rs' 2 r (Munge.Retry.encBody m) .ok).err = Munge.Gen.Retry.EMUNGE_SUCCESS ∧
      ∃ m', (attempt P cf env rs' 2 r (Munge.Retry.encBody m) .ok).rsp = some m' ∧
        ((attempt P cf env rs' 2 r (Munge.Retry.encBody m) .ok).rs = rs ∧
          ∃ r', r' ≤ 4 ∧ m' = encView (encOkMsg P cf env m r')) := by
    intro r rs' hr hinv
    rw [attempt_ok _ _ _ _ _ _ _ hb, (enc_daemon P cf env m S rs' r (by omega)).1]
    rw [finish_ok 2 _ _ _ _ (by rw [rspType_enc]; exact hview r hr)]
    exact ⟨rfl, _, rfl, hinv, r, hr, rfl⟩
  have h := xferLoop_survives P cf env 2 (Munge.Retry.encBody m) (fun _ rs' => rs' = rs)
    (fun m' rs' => rs' = rs ∧ ∃ r, r ≤ 4 ∧ m' = encView (encOkMsg P cf env m r))
    (by
      intro r rs' ft hr hinv
      cases ft with
      | ok => exact .inl (hgood r rs' hr hinv)
      | q n =>
        right
        rw [attempt_q _ _ _ _ _ _ _ _ hb, daemon_prefix _ _ _ _ _ _ _ _ hb _ (cut_lt _ _ (by rw [reqBytes_length]; omega))]
        exact ⟨rfl, linkRetries_send, hinv⟩
      | f =>
        right
        rw [attempt_f _ _ _ _ _ _ _ hb, (enc_daemon P cf env m S rs' r (by omega)).2]
        exact ⟨rfl, linkRetries_recv, hinv⟩
      | p n =>
        right
        rw [attempt_p _ _ _ _ _ _ _ _ hb, (enc_daemon P cf env m S rs' r (by omega)).1]
        have hc := cutReply_fails (rspType 2) n (some (encRsp (encOkMsg P cf env m r))) (by
          intro x hx
          injection hx with hx
          obtain ⟨body, hs, hl⟩ := encRsp_fits (encOkMsg P cf env m r)
            ⟨by show (encProcess P cf env (encReqMsg 0 m)).1.dataLen ≤ (encProcess P cf env (encReqMsg 0 m)).1.data.length; omega,
             hsmall⟩
          exact ⟨_, _, body, hx ▸ hs, hl⟩)
        rw [finish_error 2 _ _ _ _ hc]
        exact ⟨rfl, linkRetries_recv, hinv⟩)
    hgood sched (List.replicate 5 .ok) 0 rs [] [] (by omega) rfl
  unfold xfer
  rw [padded_eq, show loopInit = iOf 0 from rfl]
  obtain ⟨h1, m', h2, h3, r, h4, h5⟩ := h
  exact ⟨h1, h3, r, h4, h5 ▸ h2⟩

end Encode

end Munge.Retry
