import Munge.Model.Cred
import Munge.Model.PrimLaws
import Munge.Model.SpecV3
import Munge.Lemmas.Base64
/- Helper lemmas about the credential model (group A). -/
namespace Munge.Cred
open Munge.Gen.Dec Munge.C

/-- `0 < (CODE, text).1` for a concrete error code -/
macro "pos_code" : tactic => `(tactic| first | decide | (dsimp only; decide))

/-! ### bounds: `byteAt`, `takeN`, `take32` -/

theorem byteAt_some {b : Bytes} {i : Nat} (h : i < b.length) : byteAt b i = some b[i] := by
  unfold byteAt; exact List.getElem?_eq_getElem h

theorem takeN_some {b : Bytes} {n : Nat} (h : n ≤ b.length) : takeN b n = some (b.take n, b.drop n) := by
  unfold takeN; simp [h]

theorem takeN_eq_some {b : Bytes} {n : Nat} {x r : Bytes} (h : takeN b n = some (x, r)) :
    n ≤ b.length ∧ x = b.take n ∧ r = b.drop n := by
  unfold takeN at h
  split at h
  · simp at h; exact ⟨by assumption, h.1.symm, h.2.symm⟩
  · simp at h

theorem take32_ne_oob (rest : Bytes) (w : String) : take32 rest w ≠ .oob := by
  unfold take32
  split
  · simp
  · rw [takeN_some (by omega)]; simp

theorem take32_ok {rest : Bytes} {w : String} {v : Nat} {r : Bytes} (h : take32 rest w = .ok (v, r)) :
    4 ≤ rest.length ∧ r = rest.drop 4 ∧ v = rd32 (rest.take 4) := by
  unfold take32 at h
  split at h
  · simp at h
  · rw [takeN_some (by omega)] at h
    simp at h
    exact ⟨by omega, h.2.symm, h.1.symm⟩

theorem take32_err {rest : Bytes} {w : String} {e : Int × String} (h : take32 rest w = .err e) : 0 < e.1 := by
  unfold take32 at h
  split at h
  · cases h; pos_code
  · rw [takeN_some (by omega)] at h
    cases h

theorem take32_len {rest : Bytes} {w : String} {v : Nat} {r : Bytes} (h : take32 rest w = .ok (v, r)) :
    r.length + 4 = rest.length := by
  have := take32_ok h
  rw [this.2.1, List.length_drop]; omega

/-- the parser result is not `oob`, and a successful result satisfies `p` -/
def PR.sat {α : Type} (p : α → Prop) : PR α → Prop
  | .ok a => p a
  | .err e => 0 < e.1
  | .oob => False

theorem PR.sat_err {α : Type} {p : α → Prop} {r : PR α} {e : Int × String} (h : r.sat p) (he : r = .err e) : 0 < e.1 := by
  subst he; exact h

theorem sat_mk_err {α : Type} {p : α → Prop} {e : Int × String} (h : 0 < e.1) : (PR.err e : PR α).sat p := h

theorem PR.sat_ne_oob {α : Type} {p : α → Prop} {r : PR α} (h : r.sat p) : r ≠ .oob := by
  intro e; subst e; exact h

theorem PR.sat_ok {α : Type} {p : α → Prop} {r : PR α} {a : α} (h : r.sat p) (e : r = .ok a) : p a := by
  subst e; exact h

theorem ite_sat {α : Type} {p : α → Prop} {c : Prop} [Decidable c] {a b : PR α} (ha : c → a.sat p) (hb : ¬ c → b.sat p) :
    (if c then a else b).sat p := by
  split
  · exact ha ‹_›
  · exact hb ‹_›

/-- what a successful outer parse leaves untouched -/
def OuterKeeps (m : Msg) (r : Msg × Scratch) : Prop :=
  r.1.errorNum = m.errorNum ∧ r.1.errorStr = m.errorStr ∧ r.1.retry = m.retry ∧
  r.1.clientUid = m.clientUid ∧ r.1.clientGid = m.clientGid

theorem unpackOuter_sat (P : Prims) (m : Msg) (buf : Bytes) : (unpackOuter P m buf).sat (OuterKeeps m) := by
  unfold unpackOuter
  refine ite_sat (fun _ => sat_mk_err (by pos_code)) (fun h0 => ?_)
  rw [byteAt_some (by omega)]; simp only []
  refine ite_sat (fun _ => sat_mk_err (by pos_code)) (fun _ => ?_)
  refine ite_sat (fun _ => sat_mk_err (by pos_code)) (fun h1 => ?_)
  rw [byteAt_some (by omega)]; simp only []
  refine ite_sat (fun _ => sat_mk_err (by pos_code)) (fun _ => ?_)
  refine ite_sat (fun _ => sat_mk_err (by pos_code)) (fun hiv => ?_)
  refine ite_sat (fun _ => sat_mk_err (by pos_code)) (fun h2 => ?_)
  rw [byteAt_some (by omega)]; simp only []
  refine ite_sat (fun _ => sat_mk_err (by pos_code)) (fun _ => ?_)
  refine ite_sat (fun _ => sat_mk_err (by pos_code)) (fun hml => ?_)
  refine ite_sat (fun _ => sat_mk_err (by pos_code)) (fun _ => ?_)
  refine ite_sat (fun _ => sat_mk_err (by pos_code)) (fun h3 => ?_)
  rw [byteAt_some (by omega)]; simp only []
  refine ite_sat (fun _ => sat_mk_err (by pos_code)) (fun _ => ?_)
  refine ite_sat (fun _ => sat_mk_err (by pos_code)) (fun h4 => ?_)
  rw [byteAt_some (by omega)]; simp only []
  refine ite_sat (fun _ => sat_mk_err (by pos_code)) (fun hr => ?_)
  rw [takeN_some (by omega)]; simp only []
  refine ite_sat (fun _ => sat_mk_err (by pos_code)) (fun hi => ?_)
  rw [takeN_some (by omega)]; simp only []
  refine ite_sat (fun _ => sat_mk_err (by pos_code)) (fun hm => ?_)
  rw [takeN_some (by omega)]; simp only []
  show OuterKeeps m _
  unfold OuterKeeps
  split <;> exact ⟨rfl, rfl, rfl, rfl, rfl⟩

theorem unpackOuter_ne_oob (P : Prims) (m : Msg) (buf : Bytes) : unpackOuter P m buf ≠ .oob :=
  PR.sat_ne_oob (unpackOuter_sat P m buf)

/-- what a successful inner parse leaves untouched, and where its payload lies -/
def InnerKeeps (m : Msg) (buf : Bytes) (r : Msg) : Prop :=
  r.errorNum = m.errorNum ∧ r.errorStr = m.errorStr ∧ r.retry = m.retry ∧
  r.clientUid = m.clientUid ∧ r.clientGid = m.clientGid ∧
  r.data.length = r.dataLen ∧ r.dataLen ≤ buf.length

theorem unpackInner_sat (m : Msg) (buf : Bytes) : (unpackInner m buf).sat (InnerKeeps m buf) := by
  unfold unpackInner
  simp only []
  refine ite_sat (fun _ => sat_mk_err (by pos_code)) (fun h0 => ?_)
  rw [takeN_some (by omega)]; simp only []
  refine ite_sat (fun _ => sat_mk_err (by pos_code)) (fun h1 => ?_)
  rw [byteAt_some (by omega)]; simp only []
  refine ite_sat (fun _ => sat_mk_err (by pos_code)) (fun h2 => ?_)
  refine ite_sat (fun _ => sat_mk_err (by pos_code)) (fun h3 => ?_)
  rw [takeN_some (by omega)]; simp only []
  generalize h : take32 _ "Truncated encode time" = t
  rcases t with ⟨v, r⟩ | e | _
  rotate_left
  · exact sat_mk_err (take32_err h)
  · exact absurd h (take32_ne_oob _ _)
  have l1 := take32_len h
  simp only [List.length_drop] at l1
  clear h
  simp only []
  generalize h : take32 _ "Truncated time-to-live" = t
  rcases t with ⟨v, r⟩ | e | _
  rotate_left
  · exact sat_mk_err (take32_err h)
  · exact absurd h (take32_ne_oob _ _)
  have l2 := take32_len h
  clear h
  simp only []
  generalize h : take32 _ "Truncated UID" = t
  rcases t with ⟨v, r⟩ | e | _
  rotate_left
  · exact sat_mk_err (take32_err h)
  · exact absurd h (take32_ne_oob _ _)
  have l3 := take32_len h
  clear h
  simp only []
  generalize h : take32 _ "Truncated GID" = t
  rcases t with ⟨v, r⟩ | e | _
  rotate_left
  · exact sat_mk_err (take32_err h)
  · exact absurd h (take32_ne_oob _ _)
  have l4 := take32_len h
  clear h
  simp only []
  generalize h : take32 _ "Truncated UID restriction" = t
  rcases t with ⟨v, r⟩ | e | _
  rotate_left
  · exact sat_mk_err (take32_err h)
  · exact absurd h (take32_ne_oob _ _)
  have l5 := take32_len h
  clear h
  simp only []
  generalize h : take32 _ "Truncated GID restriction" = t
  rcases t with ⟨v, r⟩ | e | _
  rotate_left
  · exact sat_mk_err (take32_err h)
  · exact absurd h (take32_ne_oob _ _)
  have l6 := take32_len h
  clear h
  simp only []
  generalize h : take32 _ "Truncated data length" = t
  rcases t with ⟨v, r⟩ | e | _
  rotate_left
  · exact sat_mk_err (take32_err h)
  · exact absurd h (take32_ne_oob _ _)
  have l7 := take32_len h
  clear h
  simp only []
  refine ite_sat (fun _ => sat_mk_err (by pos_code)) (fun hd => ?_)
  rw [takeN_some (by omega)]; simp only []
  show InnerKeeps m buf _
  unfold InnerKeeps
  refine ⟨rfl, rfl, rfl, rfl, rfl, ?_, ?_⟩
  · simp only [List.length_take]; omega
  · simp only []; omega

theorem unpackInner_ne_oob (m : Msg) (buf : Bytes) : unpackInner m buf ≠ .oob :=
  PR.sat_ne_oob (unpackInner_sat m buf)

/-! ### the translated kernels: which error code goes with a failure -/

theorem dec_validate_msg_err (a b : Int) (h : (dec_validate_msg a b).ret < 0) : (dec_validate_msg a b).err = 1 := by
  revert h
  unfold dec_validate_msg
  simp only [apply_ite KOut.ret, apply_ite KOut.err]
  simp only [KOut.err, List.find?, String.reduceBEq]
  omega

theorem dec_check_retry_err (a b c : Int) (h : (dec_check_retry a b c).ret < 0) : (dec_check_retry a b c).err = 6 := by
  revert h
  unfold dec_check_retry
  simp only [apply_ite KOut.ret, apply_ite KOut.err]
  simp only [KOut.err, List.find?, String.reduceBEq]
  omega

theorem enc_check_retry_err (a b c : Int) (h : (enc_check_retry a b c).ret < 0) : (enc_check_retry a b c).err = 6 := by
  revert h
  unfold enc_check_retry
  simp only [apply_ite KOut.ret, apply_ite KOut.err]
  simp only [KOut.err, List.find?, String.reduceBEq]
  omega

theorem dec_validate_auth_err (a b c d e : Int) (f : Int → Int → Int) (h : (dec_validate_auth a b c d e f).ret < 0) :
    (dec_validate_auth a b c d e f).err = 18 := by
  revert h
  unfold dec_validate_auth
  simp only [apply_ite KOut.ret, apply_ite KOut.err]
  simp only [KOut.err, List.find?, String.reduceBEq]
  omega

theorem dec_validate_time_err (a b c d e : Int) (h : (dec_validate_time a b c d e).ret < 0) :
    (dec_validate_time a b c d e).err = 15 ∨ (dec_validate_time a b c d e).err = 16 := by
  revert h
  unfold dec_validate_time
  simp only [apply_ite KOut.ret, apply_ite KOut.err]
  simp only [KOut.err, List.find?, String.reduceBEq]
  omega

theorem dec_validate_replay_err (a b c d e ins : Int) (hi : ins = 0 ∨ ins = 1)
    (h : (dec_validate_replay a b c d e ins).ret < 0) :
    (dec_validate_replay a b c d e ins).err = 17 ∧ ins = 1 := by
  revert h
  unfold dec_validate_replay
  simp only [apply_ite KOut.ret, apply_ite KOut.err]
  simp only [KOut.err, List.find?, String.reduceBEq]
  omega

theorem dec_validate_replay_ret (a b c d e ins : Int) :
    (dec_validate_replay a b c d e ins).ret < 0 ∨ (dec_validate_replay a b c d e ins).ret = 0 := by
  unfold dec_validate_replay
  simp only [apply_ite KOut.ret]
  omega

theorem enc_validate_msg_err (a b c d e f g h i j : Int) (f1 f2 f3 f4 f5 : Int → Int)
    (hr : (enc_validate_msg a b c d e f g h i j f1 f2 f3 f4 f5).ret < 0) :
    0 < (enc_validate_msg a b c d e f g h i j f1 f2 f3 f4 f5).err := by
  revert hr
  unfold enc_validate_msg
  simp only [apply_ite KOut.ret, apply_ite KOut.err]
  simp only [KOut.err, List.find?, String.reduceBEq]
  omega

/-! ### `setErr`, `reset` -/

theorem setErr_retry (m : Msg) (e : Int) (s : Option String) : (setErr m e s).retry = m.retry := by
  unfold setErr; split <;> rfl

theorem setErr_errorNum_ne_zero (m : Msg) {e : Int} (s : Option String) (he : 0 < e) : (setErr m e s).errorNum ≠ 0 := by
  unfold setErr
  split
  · simp only []; omega
  · rename_i h; intro h0; exact h ⟨h0, by omega⟩

theorem setErr_of_zero (m : Msg) {e : Int} (s : Option String) (hm : m.errorNum = 0) (he : 0 < e) :
    (setErr m e s).errorNum = e.toNat ∧ (setErr m e s).errorStr = s.getD (strerrorTbl.getD e.toNat "Unknown") := by
  unfold setErr
  rw [if_pos ⟨hm, by omega⟩]
  exact ⟨rfl, rfl⟩

theorem setErr_of_nonzero (m : Msg) (e : Int) (s : Option String) (hm : m.errorNum ≠ 0) : setErr m e s = m := by
  unfold setErr
  rw [if_neg (fun h => hm h.1)]

/-! ### the stages of `dec_process_msg` -/

theorem unarmor_err (m : Msg) (e : Int × String) (h : unarmor m = .error e) : 0 < e.1 := by
  unfold unarmor at h
  simp only [] at h
  split at h
  · cases h; decide
  split at h
  · cases h; decide
  split at h
  · cases h; decide
  split at h
  · cases h; decide
  · cases h

/-- the hard-failure exit: the message is reset (keeping retry and a non-zero error), nothing recorded -/
def HardFail (rs : ReplaySet) (retry : Nat) (o : DecOut) : Prop :=
  ∃ m', o = decFail rs m' ∧ m'.retry = retry ∧ m'.errorNum ≠ 0

theorem hardFail_decErr (rs : ReplaySet) (m : Msg) (e : Int × String) (he : 0 < e.1) :
    HardFail rs m.retry (decErr rs m e) :=
  ⟨_, rfl, setErr_retry _ _ _, setErr_errorNum_ne_zero _ _ he⟩

theorem ite_pred {α : Type} (p : α → Prop) {c : Prop} [Decidable c] {a b : α} (ha : c → p a) (hb : ¬ c → p b) :
    p (if c then a else b) := by
  split
  · exact ha ‹_›
  · exact hb ‹_›

/-- outcome of a stage: a hard failure, or a message that kept retry / error state / client identity -/
def StageSpec (rs : ReplaySet) (m0 : Msg) (q : Msg → Prop) : DecOut ⊕ (Msg × Scratch) → Prop
  | .inl o => HardFail rs m0.retry o
  | .inr (m, _) => m.retry = m0.retry ∧ q m

theorem decFront_spec (P : Prims) (env : Env) (rs : ReplaySet) (m0 : Msg) :
    StageSpec rs m0 (fun m => m.errorNum = m0.errorNum ∧ m.errorStr = m0.errorStr) (decFront P env rs m0) := by
  unfold decFront
  simp only []
  refine ite_pred (StageSpec rs m0 _) (fun hv => ?_) (fun _ => ?_)
  · exact hardFail_decErr rs m0 _ (by rw [dec_validate_msg_err _ _ hv]; decide)
  refine ite_pred (StageSpec rs m0 _) (fun _ => ?_) (fun _ => ?_)
  · exact hardFail_decErr rs m0 _ (by decide)
  generalize env.peer = pr
  rcases pr with _ | ⟨uid, gid⟩
  · exact hardFail_decErr rs { m0 with time0 := 0, time1 := (wrapU32 env.now).toNat } _ (by decide)
  simp only []
  refine ite_pred (StageSpec rs m0 _) (fun hv => ?_) (fun _ => ?_)
  · exact hardFail_decErr rs { m0 with time0 := 0, time1 := (wrapU32 env.now).toNat, clientUid := uid, clientGid := gid } _
      (by rw [dec_check_retry_err _ _ _ hv]; decide)
  generalize hu : unarmor _ = u
  rcases u with e | raw
  · exact hardFail_decErr rs { m0 with time0 := 0, time1 := (wrapU32 env.now).toNat, clientUid := uid, clientGid := gid } _
      (unarmor_err _ _ hu)
  simp only []
  have hs := unpackOuter_sat P { m0 with time0 := 0, time1 := (wrapU32 env.now).toNat, clientUid := uid, clientGid := gid,
                                          data := [], dataLen := 0 } raw
  generalize unpackOuter P _ raw = t at hs
  rcases t with ⟨m, s⟩ | e | _
  · exact ⟨hs.2.2.1, hs.1, hs.2.1⟩
  · exact hardFail_decErr rs { m0 with time0 := 0, time1 := (wrapU32 env.now).toNat, clientUid := uid, clientGid := gid,
                                          data := [], dataLen := 0 } _ hs
  · exact hs.elim

theorem decDecrypt_retry (P : Prims) (cf : Conf) (m : Msg) (s : Scratch) : (decDecrypt P cf m s).1.retry = m.retry := by
  unfold decDecrypt
  split
  · rfl
  · simp only []
    split
    · rfl
    · exact setErr_retry _ _ _

theorem decValidateMac_error (P : Prims) (cf : Conf) (m m' : Msg) (s : Scratch)
    (h : decValidateMac P cf m s = .error m') : m'.retry = m.retry ∧ m'.errorNum ≠ 0 := by
  unfold decValidateMac at h
  simp only [] at h
  split at h
  · cases h; exact ⟨setErr_retry _ _ _, setErr_errorNum_ne_zero _ _ (by decide)⟩
  split at h
  · cases h; exact ⟨rfl, by assumption⟩
  · cases h

theorem decValidateMac_ok (P : Prims) (cf : Conf) (m m' : Msg) (s : Scratch)
    (h : decValidateMac P cf m s = .ok m') : m' = m ∧ m.errorNum = 0 := by
  unfold decValidateMac at h
  simp only [] at h
  split at h
  · cases h
  split at h
  · cases h
  · cases h; exact ⟨rfl, by omega⟩

theorem decDecompress_error (P : Prims) (m : Msg) (s : Scratch) (e : Int × Option String)
    (h : decDecompress P m s = .error e) : 0 < e.1 := by
  unfold decDecompress at h
  simp only [] at h
  split at h
  · cases h
  split at h
  · cases h; decide
  split at h
  · cases h; decide
  · cases h

theorem decMid_spec (P : Prims) (cf : Conf) (rs : ReplaySet) (m : Msg) (s : Scratch) :
    StageSpec rs m (fun m' => m'.errorNum = 0 ∧ m'.clientUid = (decDecrypt P cf m s).1.clientUid ∧
      m'.clientGid = (decDecrypt P cf m s).1.clientGid) (decMid P cf rs m s) := by
  unfold decMid
  have hr := decDecrypt_retry P cf m s
  generalize decDecrypt P cf m s = d at hr ⊢
  rcases d with ⟨m1, s1⟩
  simp only [] at hr ⊢
  generalize hv : decValidateMac P cf m1 s1 = v
  rcases v with m2 | m2
  · have := decValidateMac_error _ _ _ _ _ hv
    exact ⟨m2, rfl, by rw [this.1, hr], this.2⟩
  have := decValidateMac_ok _ _ _ _ _ hv
  rcases this with ⟨rfl, h0⟩
  simp only []
  generalize hz : decDecompress P m2 s1 = z
  rcases z with e | s2
  · exact ⟨_, rfl, by rw [setErr_retry, hr], setErr_errorNum_ne_zero _ _ (decDecompress_error _ _ _ _ hz)⟩
  simp only []
  have hs := unpackInner_sat m2 s2.inner
  generalize unpackInner m2 s2.inner = t at hs
  rcases t with m3 | e | _
  · exact ⟨by rw [hs.2.2.1, hr], by rw [hs.1, h0], hs.2.2.2.1, hs.2.2.2.2.1⟩
  · show HardFail rs m.retry _
    rw [← hr]; exact hardFail_decErr rs m2 _ hs
  · exact hs.elim

/-- the other exits of `dec_process_msg`: success, or a soft error (expired / rewound / replayed) -/
def SoftExit (rs : ReplaySet) (retry : Nat) (o : DecOut) : Prop :=
  o.msg.retry = retry ∧ o.oob = false ∧
  (o.msg.errorNum = 0 ∨ o.msg.errorNum = 15 ∨ o.msg.errorNum = 16 ∨ o.msg.errorNum = 17) ∧
  (o.rc ≠ 0 → o.msg.errorNum ≠ 0 ∧ o.replay = rs) ∧
  (o.rc = 0 → o.msg.errorNum = 0 ∧ ∃ k, o.key = some k ∧ (o.replay = rs ∨ o.replay = k :: rs))

def Exit (rs : ReplaySet) (retry : Nat) (o : DecOut) : Prop := HardFail rs retry o ∨ SoftExit rs retry o

theorem softExit_setErr (rs rs' : ReplaySet) (m : Msg) (e : Int) (k : Option ReplayKey) (h0 : m.errorNum = 0)
    (he : e = 15 ∨ e = 16 ∨ e = 17) (hrs : rs' = rs) :
    SoftExit rs m.retry { msg := setErr m e none, rc := -1, inserted := false, key := k, replay := rs' } := by
  have h1 := (setErr_of_zero m none h0 (by omega : 0 < e)).1
  refine ⟨setErr_retry _ _ _, rfl, ?_, fun _ => ⟨?_, hrs⟩, fun h => absurd h (by dsimp only; decide)⟩
  · show _ ∨ _ ∨ _ ∨ _
    simp only [h1]
    omega
  · simp only [h1]
    omega

theorem decTail_spec (cf : Conf) (env : Env) (rs : ReplaySet) (m : Msg) (s : Scratch) (h0 : m.errorNum = 0) :
    Exit rs m.retry (decTail cf env rs m s) := by
  unfold decTail
  simp only []
  refine ite_pred (Exit rs m.retry) (fun hv => ?_) (fun _ => ?_)
  · exact .inl (hardFail_decErr rs m _ (by dsimp only; rw [dec_validate_auth_err _ _ _ _ _ _ hv]; decide))
  refine ite_pred (Exit rs m.retry) (fun hv => ?_) (fun _ => ?_)
  · have := dec_validate_time_err _ _ _ _ _ hv
    exact .inr (softExit_setErr rs rs _ _ _ h0 (by omega) rfl)
  generalize List.contains rs _ = c
  generalize replayKey _ s = key
  cases c
  · -- not present: inserted, the kernel accepts
    simp only [Bool.false_eq_true, if_false]
    refine ite_pred (Exit rs m.retry) (fun hv => ?_) (fun hv => ?_)
    · have := dec_validate_replay_err _ _ _ _ _ 0 (.inl rfl) hv
      omega
    · exact .inr ⟨rfl, rfl, .inl h0, fun h => absurd rfl h, fun _ => ⟨h0, key, rfl, .inr rfl⟩⟩
  · simp only [if_true]
    refine ite_pred (Exit rs m.retry) (fun hv => ?_) (fun hv => ?_)
    · have := dec_validate_replay_err _ _ _ _ _ 1 (.inr rfl) hv
      exact .inr (softExit_setErr rs _ _ _ _ h0 (by omega) rfl)
    · exact .inr ⟨rfl, rfl, .inl h0, fun h => absurd rfl h, fun _ => ⟨h0, key, rfl, .inl rfl⟩⟩

theorem decProcess_spec (P : Prims) (cf : Conf) (env : Env) (rs : ReplaySet) (m : Msg) :
    Exit rs m.retry (decProcess P cf env rs m) := by
  unfold decProcess
  have hf := decFront_spec P env rs m
  generalize decFront P env rs m = f at hf
  rcases f with o | ⟨m1, s1⟩
  · exact .inl hf
  simp only []
  have hm := decMid_spec P cf rs m1 s1
  generalize decMid P cf rs m1 s1 = f at hm
  rcases f with o | ⟨m2, s2⟩
  · rw [← hf.1]; exact .inl hm
  simp only []
  have := decTail_spec cf env rs m2 s2 hm.2.1
  rw [hm.1, hf.1] at this
  exact this

theorem reset_retry (m : Msg) : (reset m).retry = m.retry := rfl
theorem reset_errorNum (m : Msg) : (reset m).errorNum = m.errorNum := rfl
theorem reset_errorStr (m : Msg) : (reset m).errorStr = m.errorStr := rfl

/-- facts about every exit that the property files use -/
theorem exit_facts {rs : ReplaySet} {retry : Nat} {o : DecOut} (h : Exit rs retry o) :
    o.oob = false ∧ o.msg.retry = retry ∧ (o.rc ≠ 0 → o.msg.errorNum ≠ 0 ∧ o.replay = rs) ∧
    (o.rc = 0 → o.msg.errorNum = 0 ∧ ∃ k, o.key = some k ∧ (o.replay = rs ∨ o.replay = k :: rs)) := by
  rcases h with ⟨m', rfl, hr, he⟩ | ⟨h1, h2, _, h4, h5⟩
  · exact ⟨rfl, hr, fun _ => ⟨he, rfl⟩, fun h => absurd (show (-1 : Int) = 0 from h) (by decide)⟩
  · exact ⟨h2, h1, h4, h5⟩

/-! ### `m_msg_recv`: the header decides before the body is looked at -/

theorem recvMsg_long (hdr body : Bytes) (h : hdr.length = 11)
    (hl : (rd32 ((hdr.drop 7).take 4) : Int) > MUNGE_MAXIMUM_REQ_LEN) :
    recvMsg (hdr ++ body) =
      if rd32 (hdr.take 4) ≠ 6319435 then .drop "magic"
      else if (hdr.getD 4 0).toNat ≠ 4 then .drop "version" else .drop "length" := by
  have e1 : (hdr ++ body).take 4 = hdr.take 4 := List.take_append_of_le_length (by omega)
  have e2 : (hdr ++ body).getD 4 0 = hdr.getD 4 0 := by
    simp only [List.getD_eq_getElem?_getD]
    rw [List.getElem?_append_left (by omega)]
  have e3 : ((hdr ++ body).drop 7).take 4 = (hdr.drop 7).take 4 := by
    rw [List.drop_append_of_le_length (by omega)]
    exact List.take_append_of_le_length (by simp only [List.length_drop]; omega)
  unfold recvMsg
  simp only []
  rw [if_neg (by simp only [List.length_append]; omega)]
  simp only [e1, e2, e3]
  by_cases hm : rd32 (hdr.take 4) ≠ 6319435
  · rw [if_pos hm, if_pos hm]
  rw [if_neg hm, if_neg hm]
  by_cases hv : (hdr.getD 4 0).toNat ≠ 4
  · rw [if_pos hv, if_pos hv]
  rw [if_neg hv, if_neg hv, if_pos hl]

/-! ### padding failure and MAC failure -/

theorem decValidateMac_of_err (P : Prims) (cf : Conf) (m : Msg) (s : Scratch) (h : m.errorNum ≠ 0) :
    decValidateMac P cf m s = .error m := by
  unfold decValidateMac
  simp only []
  split
  · rw [setErr_of_nonzero _ _ _ h]
  all_goals first | rfl | (rw [if_pos h])

theorem decDecrypt_pad (P : Prims) (cf : Conf) (m : Msg) (s : Scratch) (hc : m.cipher ≠ 0)
    (hpad : (P.decrypt m.cipher (P.mac m.mac cf.dekKey s.mac) s.iv s.inner).2 = false) :
    decDecrypt P cf m s = (setErr m EMUNGE_CRED_INVALID none,
      { s with inner := (P.decrypt m.cipher (P.mac m.mac cf.dekKey s.mac) s.iv s.inner).1 }) := by
  unfold decDecrypt
  rw [if_neg hc]
  simp only [hpad, Bool.false_eq_true, if_false]

theorem decDecrypt_nopad (P : Prims) (cf : Conf) (m : Msg) (s : Scratch) (hc : m.cipher ≠ 0)
    (hpad : (P.decrypt m.cipher (P.mac m.mac cf.dekKey s.mac) s.iv s.inner).2 = true) :
    decDecrypt P cf m s = (m,
      { s with inner := (P.decrypt m.cipher (P.mac m.mac cf.dekKey s.mac) s.iv s.inner).1 }) := by
  unfold decDecrypt
  rw [if_neg hc]
  simp only [hpad, if_true]

theorem setErr_invalid (m : Msg) (h0 : m.errorNum = 0) :
    (setErr m EMUNGE_CRED_INVALID none).errorNum = 14 ∧ (setErr m EMUNGE_CRED_INVALID none).errorStr = "Invalid credential" := by
  have := setErr_of_zero m none h0 (by decide : 0 < EMUNGE_CRED_INVALID)
  rw [this.1, this.2]
  exact ⟨by decide, by decide⟩

theorem decMid_bad (P : Prims) (cf : Conf) (rs : ReplaySet) (m : Msg) (s : Scratch) (hc : m.cipher ≠ 0) (h0 : m.errorNum = 0)
    (hbad : (P.decrypt m.cipher (P.mac m.mac cf.dekKey s.mac) s.iv s.inner).2 = false ∨
            P.mac m.mac cf.macKey (s.outer ++ (P.decrypt m.cipher (P.mac m.mac cf.dekKey s.mac) s.iv s.inner).1) ≠ s.mac) :
    decMid P cf rs m s = .inl (decFail rs (setErr m EMUNGE_CRED_INVALID none)) := by
  unfold decMid
  by_cases hpad : (P.decrypt m.cipher (P.mac m.mac cf.dekKey s.mac) s.iv s.inner).2 = false
  · rw [decDecrypt_pad P cf m s hc hpad]
    simp only []
    rw [decValidateMac_of_err _ _ _ _ (by rw [(setErr_invalid m h0).1]; decide)]
  · have hpad' : (P.decrypt m.cipher (P.mac m.mac cf.dekKey s.mac) s.iv s.inner).2 = true := by
      revert hpad; cases (P.decrypt m.cipher (P.mac m.mac cf.dekKey s.mac) s.iv s.inner).2 <;> simp
    have hmac := hbad.resolve_left hpad
    rw [decDecrypt_nopad P cf m s hc hpad']
    simp only []
    unfold decValidateMac
    simp only []
    rw [if_pos (.inr hmac)]

/-! ### encode -/

theorem encProcess_cases (P : Prims) (cf : Conf) (env : Env) (m : Msg) :
    (∃ m', encProcess P cf env m = (reset m', -1) ∧ m'.errorNum ≠ 0) ∨ (encProcess P cf env m).2 = 0 := by
  unfold encProcess
  simp only []
  refine ite_pred (fun r : Msg × Int => (∃ m', r = (reset m', -1) ∧ m'.errorNum ≠ 0) ∨ r.2 = 0) (fun hv => ?_) (fun _ => ?_)
  · exact .inl ⟨_, rfl, setErr_errorNum_ne_zero _ _ (enc_validate_msg_err _ _ _ _ _ _ _ _ _ _ _ _ _ _ _ hv)⟩
  generalize env.peer = pr
  rcases pr with _ | ⟨uid, gid⟩
  · exact .inl ⟨_, rfl, setErr_errorNum_ne_zero _ _ (by decide)⟩
  simp only []
  refine ite_pred (fun r : Msg × Int => (∃ m', r = (reset m', -1) ∧ m'.errorNum ≠ 0) ∨ r.2 = 0) (fun hv => ?_) (fun _ => ?_)
  · exact .inl ⟨_, rfl, setErr_errorNum_ne_zero _ _ (by rw [enc_check_retry_err _ _ _ hv]; decide)⟩
  refine ite_pred (fun r : Msg × Int => (∃ m', r = (reset m', -1) ∧ m'.errorNum ≠ 0) ∨ r.2 = 0) (fun hv => ?_) (fun _ => ?_)
  · exact .inl ⟨_, rfl, setErr_errorNum_ne_zero _ _ (by decide)⟩
  exact .inr rfl

/-! ### replies -/

theorem rd32_be32 (n : Nat) (h : n < 4294967296) : rd32 (be32 n) = n := by
  unfold be32 rd32
  simp only [UInt8.toNat_ofNat']
  omega

theorem be32_magic : be32 6319435 = [0, 96, 109, 75] := by decide

theorem rsp_wellformed (t retry : Nat) (body : Bytes)
    (hfit : (hdrBytes t retry body.length ++ body).length < 4294967296 + 11) :
    11 ≤ (hdrBytes t retry body.length ++ body).length ∧
    (hdrBytes t retry body.length ++ body).take 5 = [0, 96, 109, 75, 4] ∧
    (hdrBytes t retry body.length ++ body).getD 5 0 = UInt8.ofNat t ∧
    rd32 (((hdrBytes t retry body.length ++ body).drop 7).take 4) = (hdrBytes t retry body.length ++ body).length - 11 := by
  have hb : body.length < 4294967296 := by
    simp [hdrBytes, be32] at hfit; omega
  have e : hdrBytes t retry body.length ++ body =
      0 :: 96 :: 109 :: 75 :: 4 :: UInt8.ofNat t :: UInt8.ofNat retry :: (be32 body.length ++ body) := by
    unfold hdrBytes; rw [be32_magic]; rfl
  rw [e]
  have l4 : (be32 body.length).length = 4 := rfl
  refine ⟨by simp only [List.length_cons, List.length_append]; omega, rfl, rfl, ?_⟩
  simp only [List.drop_succ_cons, List.drop_zero]
  rw [List.take_append_of_le_length (by simp [be32]), List.take_of_length_le (by simp [be32]), rd32_be32 _ hb]
  simp [be32]

/-- a message whose credential-bearing fields are all at their "nothing" value is sent as the
    error-only reply: a function of (retry, code, text) alone -/
theorem decRsp_of_blank (m : Msg)
    (h : m.cipher = 0 ∧ m.mac = 0 ∧ m.zip = 0 ∧ m.realmLen = 0 ∧ m.realm = [] ∧ m.ttl = 0 ∧ m.addrLen = 0 ∧
      m.time0 = 0 ∧ m.time1 = 0 ∧ m.credUid = UID_ANY ∧ m.credGid = GID_ANY ∧ m.authUid = UID_ANY ∧
      m.authGid = GID_ANY ∧ m.dataLen = 0 ∧ m.data = []) :
    decRsp m = decRsp { (reset {}) with retry := m.retry, errorNum := m.errorNum, errorStr := m.errorStr } := by
  obtain ⟨h1, h2, h3, h4, h5, h6, h7, h8, h9, h10, h11, h12, h13, h14, h15⟩ := h
  unfold decRsp errWire
  simp only [h1, h2, h3, h4, h5, h6, h7, h8, h9, h10, h11, h12, h13, h14, h15, reset, List.take_zero]

theorem encRsp_shape (m : Msg) : ∃ body, encRsp m = hdrBytes 3 m.retry body.length ++ body := ⟨_, rfl⟩
theorem decRsp_shape (m : Msg) : ∃ body, decRsp m = hdrBytes 5 m.retry body.length ++ body := ⟨_, rfl⟩

end Munge.Cred
