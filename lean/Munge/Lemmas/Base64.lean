import Munge.Model.Base64
/- Helper lemmas for the C19 theorems. -/
namespace Munge.Base64
open Munge.Gen.Base64

/-! ### bit-level facts about sextets (finite case analysis) -/

def hn (b : UInt8) : UInt8 := (b >>> (4 : UInt8)) &&& 0x0f
def tc (c : UInt8) : UInt8 := (c >>> (6 : UInt8)) &&& 0x03

theorem sx1_eq (a b : UInt8) : sx1 a b = sx1' a ||| hn b := rfl
theorem sx2_eq (b c : UInt8) : sx2 b c = sx2' b ||| tc c := rfl

set_option maxRecDepth 1000000 in
theorem hn_fin : ∀ b : Fin 256, ∃ h : Fin 16, hn (UInt8.ofNat b) = UInt8.ofNat h ∧ h.val = b.val / 16 := by
  decide +kernel
set_option maxRecDepth 1000000 in
theorem tc_fin : ∀ c : Fin 256, ∃ t : Fin 4, tc (UInt8.ofNat c) = UInt8.ofNat t ∧ t.val = c.val / 64 := by
  decide +kernel
set_option maxRecDepth 1000000 in
theorem sx1'_fin : ∀ a : Fin 256, ∃ p : Fin 4, sx1' (UInt8.ofNat a) = UInt8.ofNat (16 * p) ∧ p.val = a.val % 4 := by
  decide +kernel
set_option maxRecDepth 1000000 in
theorem sx2'_fin : ∀ b : Fin 256, ∃ k : Fin 16, sx2' (UInt8.ofNat b) = UInt8.ofNat (4 * k) ∧ k.val = b.val % 16 := by
  decide +kernel

theorem hn_cases (b : UInt8) : ∃ h : Fin 16, hn b = UInt8.ofNat h ∧ h.val = b.toNat / 16 := by
  have := hn_fin ⟨b.toNat, b.toNat_lt⟩; simpa using this
theorem tc_cases (c : UInt8) : ∃ t : Fin 4, tc c = UInt8.ofNat t ∧ t.val = c.toNat / 64 := by
  have := tc_fin ⟨c.toNat, c.toNat_lt⟩; simpa using this
theorem sx1'_cases (a : UInt8) : ∃ p : Fin 4, sx1' a = UInt8.ofNat (16 * p) ∧ p.val = a.toNat % 4 := by
  have := sx1'_fin ⟨a.toNat, a.toNat_lt⟩; simpa using this
theorem sx2'_cases (b : UInt8) : ∃ k : Fin 16, sx2' b = UInt8.ofNat (4 * k) ∧ k.val = b.toNat % 16 := by
  have := sx2'_fin ⟨b.toNat, b.toNat_lt⟩; simpa using this

/-! reassembly of the three octets from the four sextets -/
set_option maxRecDepth 1000000 in
theorem q1_fin : ∀ a : Fin 256, ∀ h : Fin 16,
    dc0 (sx0 (UInt8.ofNat a)) ||| dc1a (sx1' (UInt8.ofNat a) ||| UInt8.ofNat h) = UInt8.ofNat a := by
  decide +kernel
set_option maxRecDepth 1000000 in
theorem q2_fin : ∀ p : Fin 4, ∀ b : Fin 256, ∀ t : Fin 4,
    dc1b (UInt8.ofNat (16 * p) ||| hn (UInt8.ofNat b)) ||| dc2a (sx2' (UInt8.ofNat b) ||| UInt8.ofNat t)
      = UInt8.ofNat b := by
  decide +kernel
set_option maxRecDepth 1000000 in
theorem q3_fin : ∀ k : Fin 16, ∀ c : Fin 256,
    dc2b (UInt8.ofNat (4 * k) ||| tc (UInt8.ofNat c)) ||| dc3 (sx3 (UInt8.ofNat c)) = UInt8.ofNat c := by
  decide +kernel
set_option maxRecDepth 1000000 in
theorem q1t_fin : ∀ a : Fin 256,
    dc0 (sx0 (UInt8.ofNat a)) ||| dc1a (sx1' (UInt8.ofNat a)) = UInt8.ofNat a := by
  decide +kernel
set_option maxRecDepth 1000000 in
theorem q2t_fin : ∀ p : Fin 4, ∀ b : Fin 256,
    dc1b (UInt8.ofNat (16 * p) ||| hn (UInt8.ofNat b)) ||| dc2a (sx2' (UInt8.ofNat b)) = UInt8.ofNat b := by
  decide +kernel

theorem q1 (a b : UInt8) : dc0 (sx0 a) ||| dc1a (sx1 a b) = a := by
  obtain ⟨h, hh, -⟩ := hn_cases b
  rw [sx1_eq, hh]
  have := q1_fin ⟨a.toNat, a.toNat_lt⟩ h; simpa using this
theorem q2 (a b c : UInt8) : dc1b (sx1 a b) ||| dc2a (sx2 b c) = b := by
  obtain ⟨p, hp, -⟩ := sx1'_cases a
  obtain ⟨t, ht, -⟩ := tc_cases c
  rw [sx1_eq, sx2_eq, hp, ht]
  have := q2_fin p ⟨b.toNat, b.toNat_lt⟩ t; simpa using this
theorem q3 (b c : UInt8) : dc2b (sx2 b c) ||| dc3 (sx3 c) = c := by
  obtain ⟨k, hk, -⟩ := sx2'_cases b
  rw [sx2_eq, hk]
  have := q3_fin k ⟨c.toNat, c.toNat_lt⟩; simpa using this
theorem q1t (a : UInt8) : dc0 (sx0 a) ||| dc1a (sx1' a) = a := by
  have := q1t_fin ⟨a.toNat, a.toNat_lt⟩; simpa using this
theorem q2t (a b : UInt8) : dc1b (sx1 a b) ||| dc2a (sx2' b) = b := by
  obtain ⟨p, hp, -⟩ := sx1'_cases a
  rw [sx1_eq, hp]
  have := q2t_fin p ⟨b.toNat, b.toNat_lt⟩; simpa using this

/-! numeric values of the sextets -/
set_option maxRecDepth 1000000 in
theorem sx0_fin : ∀ a : Fin 256, (sx0 (UInt8.ofNat a)).toNat = a.val / 4 := by decide +kernel
set_option maxRecDepth 1000000 in
theorem sx3_fin : ∀ c : Fin 256, (sx3 (UInt8.ofNat c)).toNat = c.val % 64 := by decide +kernel
set_option maxRecDepth 1000000 in
theorem or1_fin : ∀ p : Fin 4, ∀ h : Fin 16,
    (UInt8.ofNat (16 * p) ||| UInt8.ofNat h : UInt8).toNat = 16 * p.val + h.val := by decide +kernel
set_option maxRecDepth 1000000 in
theorem or2_fin : ∀ k : Fin 16, ∀ t : Fin 4,
    (UInt8.ofNat (4 * k) ||| UInt8.ofNat t : UInt8).toNat = 4 * k.val + t.val := by decide +kernel
set_option maxRecDepth 1000000 in
theorem m1_fin : ∀ p : Fin 4, (UInt8.ofNat (16 * p) : UInt8).toNat = 16 * p.val := by decide +kernel
set_option maxRecDepth 1000000 in
theorem m2_fin : ∀ k : Fin 16, (UInt8.ofNat (4 * k) : UInt8).toNat = 4 * k.val := by decide +kernel

theorem sx0_toNat (a : UInt8) : (sx0 a).toNat = a.toNat / 4 := by
  have := sx0_fin ⟨a.toNat, a.toNat_lt⟩; simpa using this
theorem sx3_toNat (c : UInt8) : (sx3 c).toNat = c.toNat % 64 := by
  have := sx3_fin ⟨c.toNat, c.toNat_lt⟩; simpa using this
theorem sx1'_toNat (a : UInt8) : (sx1' a).toNat = a.toNat % 4 * 16 := by
  obtain ⟨p, hp, hv⟩ := sx1'_cases a
  rw [hp, m1_fin p, hv]; omega
theorem sx2'_toNat (b : UInt8) : (sx2' b).toNat = b.toNat % 16 * 4 := by
  obtain ⟨k, hk, hv⟩ := sx2'_cases b
  rw [hk, m2_fin k, hv]; omega
theorem sx1_toNat (a b : UInt8) : (sx1 a b).toNat = a.toNat % 4 * 16 + b.toNat / 16 := by
  obtain ⟨p, hp, hv⟩ := sx1'_cases a
  obtain ⟨h, hh, hw⟩ := hn_cases b
  rw [sx1_eq, hp, hh, or1_fin p h, hv, hw]; omega
theorem sx2_toNat (b c : UInt8) : (sx2 b c).toNat = b.toNat % 16 * 4 + c.toNat / 64 := by
  obtain ⟨k, hk, hv⟩ := sx2'_cases b
  obtain ⟨t, ht, hw⟩ := tc_cases c
  rw [sx2_eq, hk, ht, or2_fin k t, hv, hw]; omega

theorem sx0_lt (a : UInt8) : (sx0 a).toNat < 64 := by
  have := sx0_toNat a; have := a.toNat_lt; omega
theorem sx1_lt (a b : UInt8) : (sx1 a b).toNat < 64 := by
  have := sx1_toNat a b; have := b.toNat_lt; omega
theorem sx2_lt (b c : UInt8) : (sx2 b c).toNat < 64 := by
  have := sx2_toNat b c; have := c.toNat_lt; omega
theorem sx3_lt (c : UInt8) : (sx3 c).toNat < 64 := by
  have := sx3_toNat c; omega
theorem sx1'_lt (a : UInt8) : (sx1' a).toNat < 64 := by
  have := sx1'_toNat a; omega
theorem sx2'_lt (b : UInt8) : (sx2' b).toNat < 64 := by
  have := sx2'_toNat b; omega

/-! ### table facts -/
set_option maxRecDepth 1000000 in
theorem a2b_b2a_fin : ∀ i : Fin 64, a2b (b2a (UInt8.ofNat i)) = UInt8.ofNat i := by decide +kernel

theorem a2b_b2a (x : UInt8) (h : x.toNat < 64) : a2b (b2a x) = x := by
  have := a2b_b2a_fin ⟨x.toNat, h⟩; simpa using this

set_option maxRecDepth 1000000 in
theorem a2b_class_fin : ∀ c : Fin 256,
    (a2b (UInt8.ofNat c)).toNat < 64 ∨ a2b (UInt8.ofNat c) = IGN ∨
    (a2b (UInt8.ofNat c) = PAD ∧ UInt8.ofNat c = 61) ∨ a2b (UInt8.ofNat c) = ERR := by decide +kernel

theorem a2b_class (ch : UInt8) :
    (a2b ch).toNat < 64 ∨ a2b ch = IGN ∨ (a2b ch = PAD ∧ ch = 61) ∨ a2b ch = ERR := by
  have := a2b_class_fin ⟨ch.toNat, ch.toNat_lt⟩; simpa using this

theorem a2b_61 : a2b 61 = PAD := by decide

theorem val_ne (c : UInt8) (h : c.toNat < 64) : c ≠ IGN ∧ c ≠ PAD ∧ c ≠ ERR := by
  refine ⟨?_, ?_, ?_⟩ <;> intro e <;> rw [e] at h <;> revert h <;> decide

/-! ### single decoder steps -/
theorem decStep_ign (s : DecSt) (ch : UInt8) (h : a2b ch = IGN) : decStep s ch = s := by
  simp [decStep, h]

theorem decStep_pad (s : DecSt) (h : s.pad < 2) : decStep s 61 = { s with pad := s.pad + 1 } := by
  have : PAD ≠ IGN := by decide
  simp [decStep, a2b_61, h, this]

theorem decStep_val0 (s : DecSt) (ch : UInt8) (h : (a2b ch).toNat < 64) (hp : s.pad = 0) (hi : s.i = 0) :
    decStep s ch = { s with cur := dc0 (a2b ch), i := 1 } := by
  obtain ⟨h1, h2, h3⟩ := val_ne _ h
  simp [decStep, h1, h2, h3, hp, hi]
theorem decStep_val1 (s : DecSt) (ch : UInt8) (h : (a2b ch).toNat < 64) (hp : s.pad = 0) (hi : s.i = 1) :
    decStep s ch = { s with out := s.out ++ [s.cur ||| dc1a (a2b ch)], cur := dc1b (a2b ch), i := 2 } := by
  obtain ⟨h1, h2, h3⟩ := val_ne _ h
  simp [decStep, h1, h2, h3, hp, hi]
theorem decStep_val2 (s : DecSt) (ch : UInt8) (h : (a2b ch).toNat < 64) (hp : s.pad = 0) (hi : s.i = 2) :
    decStep s ch = { s with out := s.out ++ [s.cur ||| dc2a (a2b ch)], cur := dc2b (a2b ch), i := 3 } := by
  obtain ⟨h1, h2, h3⟩ := val_ne _ h
  simp [decStep, h1, h2, h3, hp, hi]
theorem decStep_val3 (s : DecSt) (ch : UInt8) (h : (a2b ch).toNat < 64) (hp : s.pad = 0) (hi : s.i = 3) :
    decStep s ch = { s with out := s.out ++ [s.cur ||| dc3 (a2b ch)], i := 0 } := by
  obtain ⟨h1, h2, h3⟩ := val_ne _ h
  simp [decStep, h1, h2, h3, hp, hi]

theorem decStep_val_err (s : DecSt) (ch : UInt8) (h : (a2b ch).toNat < 64) (hp : 0 < s.pad) :
    (decStep s ch).err = true := by
  obtain ⟨h1, h2, h3⟩ := val_ne _ h
  simp [decStep, h1, h2, h3, hp]

theorem decStep_err (s : DecSt) (ch : UInt8) (h : a2b ch = ERR) : (decStep s ch).err = true := by
  have h1 : ERR ≠ IGN := by decide
  have h2 : ERR ≠ PAD := by decide
  simp [decStep, h, h1, h2]

theorem decStep_pad_err (s : DecSt) (h : 2 ≤ s.pad) : (decStep s 61).err = true := by
  have h1 : PAD ≠ IGN := by decide
  have : ¬ s.pad < 2 := by omega
  have : 0 < s.pad := by omega
  simp [decStep, a2b_61, *]

/-! ### decoding an encoding -/
theorem decLoop_cons_ok (s : DecSt) (ch : UInt8) (rest : List UInt8) (h : (decStep s ch).err = false) :
    decLoop s (ch :: rest) = decLoop (decStep s ch) rest := by
  simp [decLoop, h]

theorem decLoop_cons_err (s : DecSt) (ch : UInt8) (rest : List UInt8) (h : (decStep s ch).err = true) :
    decLoop s (ch :: rest) = decStep s ch := by
  simp [decLoop, h]

/-- one full quantum -/
theorem decLoop_quantum (out : List UInt8) (cur a b c : UInt8) (rest : List UInt8) :
    decLoop { i := 0, pad := 0, out := out, cur := cur, err := false }
      (b2a (sx0 a) :: b2a (sx1 a b) :: b2a (sx2 b c) :: b2a (sx3 c) :: rest)
    = decLoop { i := 0, pad := 0, out := out ++ [a, b, c], cur := dc2b (sx2 b c), err := false } rest := by
  have e0 := a2b_b2a _ (sx0_lt a)
  have e1 := a2b_b2a _ (sx1_lt a b)
  have e2 := a2b_b2a _ (sx2_lt b c)
  have e3 := a2b_b2a _ (sx3_lt c)
  rw [decLoop_cons_ok _ _ _ (by rw [decStep_val0 _ _ (by rw [e0]; exact sx0_lt a) rfl rfl])]
  rw [decStep_val0 _ _ (by rw [e0]; exact sx0_lt a) rfl rfl]
  rw [decLoop_cons_ok _ _ _ (by rw [decStep_val1 _ _ (by rw [e1]; exact sx1_lt a b) rfl rfl])]
  rw [decStep_val1 _ _ (by rw [e1]; exact sx1_lt a b) rfl rfl]
  rw [decLoop_cons_ok _ _ _ (by rw [decStep_val2 _ _ (by rw [e2]; exact sx2_lt b c) rfl rfl])]
  rw [decStep_val2 _ _ (by rw [e2]; exact sx2_lt b c) rfl rfl]
  rw [decLoop_cons_ok _ _ _ (by rw [decStep_val3 _ _ (by rw [e3]; exact sx3_lt c) rfl rfl])]
  rw [decStep_val3 _ _ (by rw [e3]; exact sx3_lt c) rfl rfl]
  simp only [e0, e1, e2, e3, q1, q2, q3, List.append_assoc, List.cons_append, List.nil_append]


theorem padchar_eq : PADCHAR = 61 := rfl

theorem decLoop_encode (x : List UInt8) : ∀ (out : List UInt8) (cur : UInt8),
    ∃ s', decLoop { i := 0, pad := 0, out := out, cur := cur, err := false } (encodeBlock x) = s' ∧
      s'.err = false ∧ (s'.i + s'.pad) % 4 = 0 ∧ s'.out = out ++ x := by
  fun_induction encodeBlock x with
  | case1 a b c rest ih =>
    intro out cur
    rw [decLoop_quantum]
    obtain ⟨s', h1, h2, h3, h4⟩ := ih (out ++ [a, b, c]) (dc2b (sx2 b c))
    exact ⟨s', h1, h2, h3, by simp [h4]⟩
  | case2 a b =>
    intro out cur
    have e0 := a2b_b2a _ (sx0_lt a)
    have e1 := a2b_b2a _ (sx1_lt a b)
    have e2 := a2b_b2a _ (sx2'_lt b)
    rw [decLoop_cons_ok _ _ _ (by rw [decStep_val0 _ _ (by rw [e0]; exact sx0_lt a) rfl rfl])]
    rw [decStep_val0 _ _ (by rw [e0]; exact sx0_lt a) rfl rfl]
    rw [decLoop_cons_ok _ _ _ (by rw [decStep_val1 _ _ (by rw [e1]; exact sx1_lt a b) rfl rfl])]
    rw [decStep_val1 _ _ (by rw [e1]; exact sx1_lt a b) rfl rfl]
    rw [decLoop_cons_ok _ _ _ (by rw [decStep_val2 _ _ (by rw [e2]; exact sx2'_lt b) rfl rfl])]
    rw [decStep_val2 _ _ (by rw [e2]; exact sx2'_lt b) rfl rfl]
    rw [padchar_eq]
    rw [decLoop_cons_ok _ _ _ (by rw [decStep_pad _ (by simp)])]
    rw [decStep_pad _ (by simp)]
    simp [decLoop, e0, e1, e2, q1, q2t]
  | case3 a =>
    intro out cur
    have e0 := a2b_b2a _ (sx0_lt a)
    have e1 := a2b_b2a _ (sx1'_lt a)
    rw [decLoop_cons_ok _ _ _ (by rw [decStep_val0 _ _ (by rw [e0]; exact sx0_lt a) rfl rfl])]
    rw [decStep_val0 _ _ (by rw [e0]; exact sx0_lt a) rfl rfl]
    rw [decLoop_cons_ok _ _ _ (by rw [decStep_val1 _ _ (by rw [e1]; exact sx1'_lt a) rfl rfl])]
    rw [decStep_val1 _ _ (by rw [e1]; exact sx1'_lt a) rfl rfl]
    rw [padchar_eq]
    rw [decLoop_cons_ok _ _ _ (by rw [decStep_pad _ (by simp)])]
    rw [decStep_pad _ (by simp)]
    rw [decLoop_cons_ok _ _ _ (by rw [decStep_pad _ (by simp)])]
    rw [decStep_pad _ (by simp)]
    simp [decLoop, e0, e1, q1t]
  | case4 =>
    intro out cur
    simp [decLoop]

theorem decodeBlock_encodeBlock (x : List UInt8) : decodeBlock (encodeBlock x) = (0, x) := by
  obtain ⟨s', h1, h2, h3, h4⟩ := decLoop_encode x [] 0
  have : ({} : DecSt) = { i := 0, pad := 0, out := [], cur := 0, err := false } := rfl
  simp only [decodeBlock, h1, h2, h3, h4]
  simp

/-! ### encoder: length, append, streaming -/
theorem encodeBlock_length (x : List UInt8) : (encodeBlock x).length = (x.length + 2) / 3 * 4 := by
  fun_induction encodeBlock x with
  | case1 a b c rest ih => simp only [List.length_cons, ih]; omega
  | case2 a b => simp
  | case3 a => simp
  | case4 => simp

theorem encodeBlock_append (p q : List UInt8) (h : p.length % 3 = 0) :
    encodeBlock (p ++ q) = encodeBlock p ++ encodeBlock q := by
  fun_induction encodeBlock p with
  | case1 a b c rest ih =>
    have : rest.length % 3 = 0 := by simp only [List.length_cons] at h; omega
    simp [encodeBlock, ih this]
  | case2 a b => simp at h
  | case3 a => simp at h
  | case4 => simp

theorem encodeBlock_take_drop (l : List UInt8) :
    encodeBlock (l.take (l.length / 3 * 3)) ++ encodeBlock (l.drop (l.length / 3 * 3)) = encodeBlock l := by
  rw [← encodeBlock_append, List.take_append_drop]
  rw [List.length_take]; omega

theorem if_take3 (l : List UInt8) :
    (if l.length ≥ 3 then encodeBlock (l.take (l.length / 3 * 3)) else []) =
      encodeBlock (l.take (l.length / 3 * 3)) := by
  by_cases h : l.length ≥ 3
  · simp [h]
  · have : l.length / 3 * 3 = 0 := by omega
    simp [h, this, encodeBlock]

theorem if_drop3 (l : List UInt8) :
    (if l.length ≥ 3 then l.drop (l.length / 3 * 3) else l) = l.drop (l.length / 3 * 3) := by
  by_cases h : l.length ≥ 3
  · simp [h]
  · have : l.length / 3 * 3 = 0 := by omega
    simp [h, this]

theorem take3_append (A B : List UInt8) (h : A.length = 3) :
    (A ++ B).take ((A ++ B).length / 3 * 3) = A ++ B.take (B.length / 3 * 3) := by
  have : (A ++ B).length / 3 * 3 = A.length + B.length / 3 * 3 := by
    rw [List.length_append]; omega
  rw [this, List.take_length_add_append]

theorem drop3_append (A B : List UInt8) (h : A.length = 3) :
    (A ++ B).drop ((A ++ B).length / 3 * 3) = B.drop (B.length / 3 * 3) := by
  have : (A ++ B).length / 3 * 3 = A.length + B.length / 3 * 3 := by
    rw [List.length_append]; omega
  rw [this, List.drop_length_add_append]

theorem encodeUpdate_spec (x : EncCtx) (src : List UInt8) (h : x.buf.length < 3) :
    encodeUpdate x src =
      ({ buf := (x.buf ++ src).drop ((x.buf ++ src).length / 3 * 3) },
       encodeBlock ((x.buf ++ src).take ((x.buf ++ src).length / 3 * 3))) := by
  obtain ⟨buf⟩ := x
  simp only at h
  unfold encodeUpdate
  by_cases h0 : src.length = 0
  · have : src = [] := List.eq_nil_of_length_eq_zero h0
    subst this
    have : buf.length / 3 * 3 = 0 := by omega
    simp [this, encodeBlock]
  · simp only [h0, if_false]
    by_cases hf : buf.length > 0 ∧ src.length ≥ 3 - buf.length
    · simp only [hf, and_self, if_true, if_take3, if_drop3, List.nil_append]
      have hA : (buf ++ src.take (3 - buf.length)).length = 3 := by
        rw [List.length_append, List.length_take]; omega
      have e : buf ++ src = (buf ++ src.take (3 - buf.length)) ++ src.drop (3 - buf.length) := by
        rw [List.append_assoc, List.take_append_drop]
      rw [e, take3_append _ _ hA, drop3_append _ _ hA,
        encodeBlock_append (buf ++ List.take (3 - buf.length) src) _ (by rw [hA])]
    · simp only [hf, if_false, if_take3, if_drop3, List.nil_append]
      by_cases hb : buf.length = 0
      · have : buf = [] := List.eq_nil_of_length_eq_zero hb
        subst this
        simp
      · have hs : src.length / 3 * 3 = 0 := by omega
        have ht : (buf.length + src.length) / 3 * 3 = 0 := by omega
        simp [hs, ht]

def encFold : EncCtx × List UInt8 → List UInt8 → EncCtx × List UInt8 :=
  fun (acc : EncCtx × List UInt8) ch =>
    let (x', o) := encodeUpdate acc.1 ch; (x', acc.2 ++ o)

theorem encFold_spec (chunks : List (List UInt8)) : ∀ (x : EncCtx) (o : List UInt8), x.buf.length < 3 →
    (chunks.foldl encFold (x, o)).2 ++ encodeFinal (chunks.foldl encFold (x, o)).1
      = o ++ encodeBlock (x.buf ++ chunks.flatten) := by
  induction chunks with
  | nil =>
    intro x o h
    simp only [List.foldl_nil, List.flatten_nil, List.append_nil, encodeFinal]
    by_cases hb : x.buf.length > 0
    · simp [hb]
    · have : x.buf = [] := List.eq_nil_of_length_eq_zero (by omega)
      simp [this, encodeBlock]
  | cons ch rest ih =>
    intro x o h
    rw [List.foldl_cons]
    have e : encFold (x, o) ch =
        ({ buf := (x.buf ++ ch).drop ((x.buf ++ ch).length / 3 * 3) },
          o ++ encodeBlock ((x.buf ++ ch).take ((x.buf ++ ch).length / 3 * 3))) := by
      simp only [encFold, encodeUpdate_spec x ch h]
    rw [e, ih _ _ (by simp only [List.length_drop]; omega)]
    simp only [List.flatten_cons]
    rw [List.append_assoc, ← encodeBlock_append _ _ (by rw [List.length_take]; omega)]
    rw [← List.append_assoc (List.take _ _), List.take_append_drop, List.append_assoc]

theorem encodeChunks_eq (chunks : List (List UInt8)) :
    encodeChunks chunks = encodeBlock chunks.flatten := by
  have := encFold_spec chunks {} [] (by decide)
  exact this

/-! ### decode bound -/
def BoundInv (s : DecSt) (n : Nat) : Prop :=
  s.i < 4 ∧ ∃ q, s.out.length = 3 * q + (s.i - 1) ∧ 4 * q + s.i ≤ n

theorem decStep_bound (s : DecSt) (ch : UInt8) (n : Nat) (h : BoundInv s n) :
    BoundInv (decStep s ch) (n + 1) := by
  obtain ⟨hi, q, h1, h2⟩ := h
  unfold BoundInv
  by_cases c1 : a2b ch = IGN
  · rw [decStep_ign _ _ c1]; exact ⟨hi, q, h1, by omega⟩
  · by_cases c2 : a2b ch = PAD ∧ s.pad < 2
    · have hne : PAD ≠ IGN := by decide
      simp only [decStep, c2.1, c2.2, hne, and_self, if_true, if_false]; exact ⟨hi, q, h1, by omega⟩
    · by_cases c3 : a2b ch = ERR ∨ s.pad > 0
      · simp only [decStep, c1, c2, c3, if_true, if_false]; exact ⟨hi, q, h1, by omega⟩
      · obtain ⟨i, pad, out, cur, err⟩ := s
        simp only at hi h1 h2 c2 c3
        match i, hi with
        | 0, _ =>
          simp only [decStep, c1, c2, c3, if_false]
          exact ⟨by omega, q, by simpa using h1, by omega⟩
        | 1, _ =>
          simp only [decStep, c1, c2, c3, if_false]
          exact ⟨by omega, q, by simp at h1 ⊢; omega, by omega⟩
        | 2, _ =>
          simp only [decStep, c1, c2, c3, if_false]
          exact ⟨by omega, q, by simp at h1 ⊢; omega, by omega⟩
        | 3, _ =>
          simp only [decStep, c1, c2, c3, if_false]
          exact ⟨by omega, q + 1, by simp at h1 ⊢; omega, by omega⟩

theorem decLoop_bound (l : List UInt8) : ∀ (s : DecSt) (n : Nat), BoundInv s n →
    BoundInv (decLoop s l) (n + l.length) := by
  induction l with
  | nil => intro s n h; simpa [decLoop] using h
  | cons ch rest ih =>
    intro s n h
    have h' := decStep_bound s ch n h
    by_cases e : (decStep s ch).err = true
    · rw [decLoop_cons_err _ _ _ e]
      obtain ⟨hi, q, h1, h2⟩ := h'
      exact ⟨hi, q, h1, by simp only [List.length_cons]; omega⟩
    · rw [decLoop_cons_ok _ _ _ (by simpa using e)]
      have := ih _ _ h'
      simpa [Nat.add_assoc, Nat.add_comm 1] using this

theorem decodeBlock_out_bound (src : List UInt8) :
    (decodeBlock src).2.length ≤ (src.length + 3) / 4 * 3 := by
  have h := decLoop_bound src {} 0 ⟨by decide, 0, by decide, by decide⟩
  obtain ⟨hi, q, h1, h2⟩ := h
  simp only [decodeBlock]
  omega

/-! ### strictness -/

theorem decLoop_filter (l : List UInt8) : ∀ (s : DecSt), s.err = false →
    decLoop s l = decLoop s (l.filter (fun ch => a2b ch != IGN)) := by
  induction l with
  | nil => intro s _; rfl
  | cons ch rest ih =>
    intro s hs
    by_cases c : a2b ch = IGN
    · rw [decLoop_cons_ok _ _ _ (by rw [decStep_ign _ _ c]; exact hs), decStep_ign _ _ c]
      simp only [List.filter_cons, c, bne_self_eq_false, Bool.false_eq_true, if_false]
      exact ih s hs
    · have : (a2b ch != IGN) = true := by simpa using c
      simp only [List.filter_cons, this, if_true]
      by_cases e : (decStep s ch).err = true
      · rw [decLoop_cons_err _ _ _ e, decLoop_cons_err _ _ _ e]
      · have e' : (decStep s ch).err = false := by simpa using e
        rw [decLoop_cons_ok _ _ _ e', decLoop_cons_ok _ _ _ e']
        exact ih _ e'

/-- value characters advance the quantum position and keep `pad = 0`, `err = false` -/
theorem decStep_val_ctl (s : DecSt) (ch : UInt8) (h : (a2b ch).toNat < 64) (hp : s.pad = 0)
    (hi : s.i < 4) :
    (decStep s ch).pad = 0 ∧ (decStep s ch).err = s.err ∧ (decStep s ch).i = (s.i + 1) % 4 := by
  obtain ⟨i, pad, out, cur, err⟩ := s
  simp only at hp hi
  match i, hi with
  | 0, _ => rw [decStep_val0 _ _ h hp rfl]; simp [hp]
  | 1, _ => rw [decStep_val1 _ _ h hp rfl]; simp [hp]
  | 2, _ => rw [decStep_val2 _ _ h hp rfl]; simp [hp]
  | 3, _ => rw [decStep_val3 _ _ h hp rfl]; simp [hp]

theorem decLoop_body (body : List UInt8) : ∀ (s : DecSt) (rest : List UInt8),
    (∀ ch ∈ body, (a2b ch).toNat < 64) → s.pad = 0 → s.err = false → s.i < 4 →
    ∃ s', decLoop s (body ++ rest) = decLoop s' rest ∧ s'.pad = 0 ∧ s'.err = false ∧
      s'.i = (s.i + body.length) % 4 := by
  induction body with
  | nil => intro s rest _ hp he hi; exact ⟨s, rfl, hp, he, by simp; omega⟩
  | cons ch body ih =>
    intro s rest hb hp he hi
    obtain ⟨k1, k2, k3⟩ := decStep_val_ctl s ch (hb ch (by simp)) hp hi
    rw [he] at k2
    obtain ⟨s', e1, e2, e3, e4⟩ := ih (decStep s ch) rest (fun c hc => hb c (by simp [hc])) k1 k2
      (by rw [k3]; omega)
    refine ⟨s', ?_, e2, e3, ?_⟩
    · rw [List.cons_append, decLoop_cons_ok _ _ _ k2, e1]
    · rw [e4, k3]; simp only [List.length_cons]; omega

theorem decLoop_pads (p : Nat) (hp2 : p ≤ 2) (s : DecSt) (hp : s.pad = 0) (he : s.err = false) :
    (decLoop s (List.replicate p 61)).err = false ∧ (decLoop s (List.replicate p 61)).pad = p ∧
    (decLoop s (List.replicate p 61)).i = s.i := by
  match p, hp2 with
  | 0, _ => simp [decLoop, he, hp]
  | 1, _ =>
    have h1 : decStep s 61 = { s with pad := s.pad + 1 } := decStep_pad s (by omega)
    simp [List.replicate, decLoop, h1, he, hp]
  | 2, _ =>
    have h1 : decStep s 61 = { s with pad := s.pad + 1 } := decStep_pad s (by omega)
    have h2 : decStep { s with pad := s.pad + 1 } 61 = { s with pad := s.pad + 1 + 1 } :=
      decStep_pad _ (by simp [hp])
    rw [show List.replicate 2 (61 : UInt8) = [61, 61] from rfl,
      decLoop_cons_ok _ _ _ (by rw [h1]; exact he), h1,
      decLoop_cons_ok _ _ _ (by rw [h2]; exact he), h2]
    simp [decLoop, he, hp]

/-- abstract well-formedness, phrased with the decoder's own classification table -/
def WF (src : List UInt8) : Prop :=
  ∃ (body : List UInt8) (p : Nat),
    src.filter (fun ch => a2b ch != IGN) = body ++ List.replicate p 61 ∧
    (∀ ch ∈ body, (a2b ch).toNat < 64) ∧ p ≤ 2 ∧ (body.length + p) % 4 = 0

/-- a run without error over IGN-free input has the shape body ++ pads -/
theorem decLoop_shape (l : List UInt8) : ∀ (s : DecSt), (∀ ch ∈ l, a2b ch ≠ IGN) →
    s.err = false → s.pad ≤ 2 → s.i < 4 → (decLoop s l).err = false →
    ∃ (body : List UInt8) (p : Nat), l = body ++ List.replicate p 61 ∧
      (∀ ch ∈ body, (a2b ch).toNat < 64) ∧ (0 < s.pad → body = []) ∧ s.pad + p ≤ 2 ∧
      (decLoop s l).pad = s.pad + p ∧ (decLoop s l).i = (s.i + body.length) % 4 := by
  induction l with
  | nil =>
    intro s _ he hp hi _
    exact ⟨[], 0, rfl, by simp, fun _ => rfl, by omega, by simp [decLoop], by simp [decLoop]; omega⟩
  | cons ch rest ih =>
    intro s hl he hp hi hfin
    have hne : a2b ch ≠ IGN := hl ch (by simp)
    have hl' : ∀ c ∈ rest, a2b c ≠ IGN := fun c hc => hl c (by simp [hc])
    by_cases e : (decStep s ch).err = true
    · rw [decLoop_cons_err _ _ _ e] at hfin; rw [e] at hfin; exact absurd hfin (by decide)
    · have e' : (decStep s ch).err = false := by simpa using e
      rw [decLoop_cons_ok _ _ _ e'] at hfin ⊢
      rcases a2b_class ch with hv | hign | ⟨hpad, h61⟩ | herr
      · -- value character
        by_cases hp0 : 0 < s.pad
        · rw [decStep_val_err s ch hv hp0] at e'; exact absurd e' (by decide)
        · have hp0' : s.pad = 0 := by omega
          obtain ⟨k1, k2, k3⟩ := decStep_val_ctl s ch hv hp0' hi
          obtain ⟨body, p, r1, r2, r3, r4, r5, r6⟩ :=
            ih (decStep s ch) hl' e' (by omega) (by rw [k3]; omega) hfin
          refine ⟨ch :: body, p, by rw [r1]; rfl, ?_, fun h => absurd h hp0, by omega, by omega, ?_⟩
          · intro c hc
            rcases List.mem_cons.mp hc with rfl | hc
            · exact hv
            · exact r2 c hc
          · rw [r6, k3]; simp only [List.length_cons]; omega
      · exact absurd hign hne
      · subst h61
        by_cases hp2 : s.pad < 2
        · have hs : decStep s 61 = { s with pad := s.pad + 1 } := decStep_pad s hp2
          rw [hs] at hfin ⊢
          obtain ⟨body, p, r1, r2, r3, r4, r5, r6⟩ :=
            ih { s with pad := s.pad + 1 } hl' he (by simp; omega) hi hfin
          have hb : body = [] := r3 (by simp)
          subst hb
          refine ⟨[], p + 1, ?_, by simp, fun _ => rfl, by simp at r4; omega, ?_, ?_⟩
          · rw [r1]; simp [List.replicate_succ]
          · rw [r5]; simp; omega
          · rw [r6]
        · rw [decStep_pad_err s (by omega)] at e'; exact absurd e' (by decide)
      · rw [decStep_err s ch herr] at e'; exact absurd e' (by decide)

theorem decodeBlock_strict (src : List UInt8) : (decodeBlock src).1 = 0 ↔ WF src := by
  have h0 : (decodeBlock src).1 = 0 ↔
      ((decLoop {} src).err = false ∧ ((decLoop {} src).i + (decLoop {} src).pad) % 4 = 0) := by
    simp only [decodeBlock]
    by_cases e : (decLoop {} src).err = true
    · simp [e]
    · have e' : (decLoop {} src).err = false := by simpa using e
      by_cases m : ((decLoop {} src).i + (decLoop {} src).pad) % 4 = 0
      · simp [e', m]
      · simp [e', m]
  rw [h0, decLoop_filter src {} rfl]
  constructor
  · rintro ⟨h1, h2⟩
    obtain ⟨body, p, r1, r2, r3, r4, r5, r6⟩ :=
      decLoop_shape _ {} (by intro ch hc; simpa using (List.mem_filter.mp hc).2) rfl (by decide) (by decide) h1
    refine ⟨body, p, r1, r2, by simpa using r4, ?_⟩
    rw [r5, r6] at h2
    simp at h2; omega
  · rintro ⟨body, p, r1, r2, r3, r4⟩
    rw [r1]
    obtain ⟨s', e1, e2, e3, e4⟩ := decLoop_body body {} (List.replicate p 61) r2 rfl rfl (by decide)
    obtain ⟨k1, k2, k3⟩ := decLoop_pads p r3 s' e2 e3
    rw [e1, k1, k2, k3, e4]
    simp; omega

/-! ### streaming decoder -/

/-- two decoder states that agree on the control part (`i`, `pad`, `err`) -/
def Ctl (s t : DecSt) : Prop := s.i = t.i ∧ s.pad = t.pad ∧ s.err = t.err

theorem decStep_ctl (s t : DecSt) (ch : UInt8) (h : Ctl s t) : Ctl (decStep s ch) (decStep t ch) := by
  obtain ⟨i, pad, out, cur, err⟩ := s
  obtain ⟨i', pad', out', cur', err'⟩ := t
  obtain ⟨h1, h2, h3⟩ := h
  simp only at h1 h2 h3
  subst h1 h2 h3
  unfold Ctl decStep
  simp only
  by_cases c1 : a2b ch = IGN
  · simp [c1]
  · by_cases c2 : a2b ch = PAD ∧ pad < 2
    · have hne : PAD ≠ IGN := by decide
      simp [c2.1, c2.2, hne]
    · by_cases c3 : a2b ch = ERR ∨ pad > 0
      · simp [c1, c2, c3]
      · simp only [c1, c2, c3, if_false]
        split <;> simp

theorem decLoop_ctl (l : List UInt8) : ∀ (s t : DecSt), Ctl s t → Ctl (decLoop s l) (decLoop t l) := by
  induction l with
  | nil => intro s t h; exact h
  | cons ch rest ih =>
    intro s t h
    have h' := decStep_ctl s t ch h
    by_cases e : (decStep s ch).err = true
    · have e2 : (decStep t ch).err = true := by rw [← h'.2.2]; exact e
      rw [decLoop_cons_err _ _ _ e, decLoop_cons_err _ _ _ e2]; exact h'
    · have e1 : (decStep s ch).err = false := by simpa using e
      have e2 : (decStep t ch).err = false := by rw [← h'.2.2]; exact e1
      rw [decLoop_cons_ok _ _ _ e1, decLoop_cons_ok _ _ _ e2]; exact ih _ _ h'

theorem decLoop_append (a b : List UInt8) : ∀ (s : DecSt), s.err = false →
    decLoop s (a ++ b) = if (decLoop s a).err then decLoop s a else decLoop (decLoop s a) b := by
  induction a with
  | nil => intro s hs; simp [decLoop, hs]
  | cons ch rest ih =>
    intro s hs
    rw [List.cons_append]
    by_cases e : (decStep s ch).err = true
    · rw [decLoop_cons_err _ _ _ e, decLoop_cons_err _ _ _ e]; simp [e]
    · have e1 : (decStep s ch).err = false := by simpa using e
      rw [decLoop_cons_ok _ _ _ e1, decLoop_cons_ok _ _ _ e1]; exact ih _ e1

def decFold : DecCtx × List UInt8 × Bool → List UInt8 → DecCtx × List UInt8 × Bool :=
  fun (acc : DecCtx × List UInt8 × Bool) ch =>
      if acc.2.2 then acc else
      let (rc, o, x') := decodeUpdate acc.1 ch
      (x', acc.2.1 ++ o, rc != 0)

def Accept (s : DecSt) : Prop := s.err = false ∧ (s.i + s.pad) % 4 = 0

theorem accept_ctl (s t : DecSt) (h : Ctl s t) : Accept s ↔ Accept t := by
  obtain ⟨h1, h2, h3⟩ := h
  unfold Accept; rw [h1, h2, h3]

theorem decFold_spec (chunks : List (List UInt8)) : ∀ (x : DecCtx) (o : List UInt8) (e : Bool),
    ((chunks.foldl decFold (x, o, e)).2.2 = false ∧ decodeFinal (chunks.foldl decFold (x, o, e)).1 = 0) ↔
    (e = false ∧ Accept (decLoop { i := x.num, pad := x.pad, cur := x.buf0 } chunks.flatten)) := by
  induction chunks with
  | nil =>
    intro x o e
    simp only [List.foldl_nil, List.flatten_nil, decLoop, Accept, decodeFinal]
    by_cases m : (x.num + x.pad) % 4 = 0
    · simp [m]
    · simp [m]
  | cons ch rest ih =>
    intro x o e
    rw [List.foldl_cons]
    cases e with
    | true =>
      have : decFold (x, o, true) ch = (x, o, true) := by simp [decFold]
      rw [this, ih]; simp
    | false =>
      have hstep : decFold (x, o, false) ch =
          ({ num := (decLoop { i := x.num, pad := x.pad, cur := x.buf0 } ch).i,
             pad := (decLoop { i := x.num, pad := x.pad, cur := x.buf0 } ch).pad,
             buf0 := (decLoop { i := x.num, pad := x.pad, cur := x.buf0 } ch).cur },
           o ++ (decLoop { i := x.num, pad := x.pad, cur := x.buf0 } ch).out,
           (decLoop { i := x.num, pad := x.pad, cur := x.buf0 } ch).err) := by
        simp only [decFold, decodeUpdate]
        by_cases k : (decLoop { i := x.num, pad := x.pad, cur := x.buf0 } ch).err = true
        · simp [k]
        · have k' : (decLoop { i := x.num, pad := x.pad, cur := x.buf0 } ch).err = false := by simpa using k
          simp [k']
      rw [hstep, ih, List.flatten_cons, decLoop_append _ _ _ rfl]
      generalize decLoop { i := x.num, pad := x.pad, cur := x.buf0 } ch = s1
      by_cases k : s1.err = true
      · simp [k, Accept]
      · have k' : s1.err = false := by simpa using k
        simp only [k', true_and, Bool.false_eq_true, if_false]
        apply accept_ctl
        apply decLoop_ctl
        exact ⟨rfl, rfl, k'.symm⟩

theorem decodeBlock_accept (src : List UInt8) : (decodeBlock src).1 = 0 ↔ Accept (decLoop {} src) := by
  simp only [decodeBlock, Accept]
  by_cases e : (decLoop {} src).err = true
  · simp [e]
  · have e' : (decLoop {} src).err = false := by simpa using e
    by_cases m : ((decLoop {} src).i + (decLoop {} src).pad) % 4 = 0
    · simp [e', m]
    · simp [e', m]

theorem decode_chunking_aux (chunks : List (List UInt8)) :
    (decodeBlock chunks.flatten).1 = 0 ↔
      ((chunks.foldl decFold ({}, [], false)).2.2 = false ∧
        decodeFinal (chunks.foldl decFold ({}, [], false)).1 = 0) := by
  rw [decodeBlock_accept, decFold_spec]
  simp only [true_and]

end Munge.Base64
