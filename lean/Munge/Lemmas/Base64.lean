import Munge.Model.Base64
/- Helper lemmas for the C19 theorems. -/
namespace Munge.Base64

end Munge.Base64
