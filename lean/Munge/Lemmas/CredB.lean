import Munge.Model.Cred
import Munge.Model.PrimLaws
import Munge.Model.SpecV3
import Munge.Lemmas.Base64
import Munge.Props.C19
import Munge.Props.C04
import Munge.Props.C06
/- Helper lemmas about the credential model (group B): the decoder inverts the encoder, and the
   model's byte-level helpers agree with the independent reference `Munge.SpecV3`. -/
namespace Munge.Cred.B
open Munge.Gen.Dec Munge.C

/-! ### bytes -/
theorem be32_length (n : Nat) : (be32 n).length = 4 := rfl
theorem be32_eq_u32be (n : Nat) : be32 n = SpecV3.u32be n := rfl
theorem rd32_be32 (n : Nat) (h : n < 4294967296) : rd32 (be32 n) = n := by
  simp only [be32, rd32, UInt8.toNat_ofNat']
  omega
theorem toNat_ofNat_lt (n : Nat) (h : n < 256) : (UInt8.ofNat n).toNat = n := by
  rw [UInt8.toNat_ofNat']; omega

theorem prefixB_eq : prefixB = [77, 85, 78, 71, 69, 58] := by decide +kernel
theorem suffixB_eq : suffixB = [58] := by decide +kernel

/-! ### the reference's base64 is the model's -/
theorem b64Char_fin : ∀ i : Fin 64, SpecV3.b64Char i = C19.rfcChar i := by decide +kernel
theorem b64Char_eq (n : Nat) (h : n < 64) : SpecV3.b64Char n = C19.rfcChar n := b64Char_fin ⟨n, h⟩

theorem base64_eq_rfc (x : Bytes) : SpecV3.base64 x = C19.rfcEncode x := by
  fun_induction SpecV3.base64 x with
  | case1 a b c rest n ih =>
    have := a.toNat_lt; have := b.toNat_lt; have := c.toNat_lt
    simp only [C19.rfcEncode, ih]
    rw [b64Char_eq _ (by omega), b64Char_eq _ (by omega), b64Char_eq _ (by omega), b64Char_eq _ (by omega)]
  | case2 a b n =>
    have := a.toNat_lt; have := b.toNat_lt
    simp only [C19.rfcEncode]
    rw [b64Char_eq _ (by omega), b64Char_eq _ (by omega), b64Char_eq _ (by omega)]
  | case3 a n =>
    have := a.toNat_lt
    simp only [C19.rfcEncode]
    rw [b64Char_eq _ (by omega), b64Char_eq _ (by omega)]
  | case4 => rfl

theorem encodeBlock_eq_base64 (x : Bytes) : Base64.encodeBlock x = SpecV3.base64 x := by
  rw [C19.encode_rfc4648, base64_eq_rfc]

theorem encodeChunks3 (o t i : Bytes) : Base64.encodeChunks [o, t, i] = Base64.encodeBlock (o ++ t ++ i) := by
  rw [C19.chunking]; simp

theorem armor_rfc (o t i : Bytes) : Base64.encodeChunks [o, t, i] = SpecV3.base64 (o ++ t ++ i) := by
  rw [encodeChunks3, encodeBlock_eq_base64]

/-! ### `dec_unarmor` on an armored string -/
theorem find_range_ext (p : Nat → Bool) (n : Nat) : ∀ k, (∀ i, n ≤ i → i < n + k → p i = false) →
    (List.range (n + k)).reverse.find? p = (List.range n).reverse.find? p := by
  intro k
  induction k with
  | zero => intro _; rfl
  | succ k ih =>
    intro h
    rw [← Nat.add_assoc, List.range_succ, List.reverse_append, List.reverse_singleton, List.singleton_append,
      List.find?_cons, h (n + k) (by omega) (by omega)]
    exact ih (fun i h1 h2 => h i h1 (by omega))

/-- the suffix search finds the LAST occurrence: whatever precedes it -/
theorem lastIndexOf_append (b t : Bytes) (ch : UInt8) (ht : ch ∉ t) :
    lastIndexOf (b ++ ch :: t) ch = some b.length := by
  unfold lastIndexOf
  have hl : (b ++ ch :: t).length = (b.length + 1) + t.length := by simp; omega
  rw [hl, find_range_ext]
  · rw [List.range_succ, List.reverse_append, List.reverse_singleton, List.singleton_append, List.find?_cons]
    simp
  · intro i h1 h2
    have : (b ++ ch :: t).getD i 0 = t.getD (i - (b.length + 1)) 0 := by
      rw [List.getD_eq_getElem?_getD, List.getD_eq_getElem?_getD, List.getElem?_append_right (by omega)]
      have : i - b.length = (i - (b.length + 1)) + 1 := by omega
      rw [this, List.getElem?_cons_succ]
    rw [this]
    have hi : i - (b.length + 1) < t.length := by omega
    rw [List.getD_eq_getElem?_getD, List.getElem?_eq_getElem hi]
    simp only [Option.getD_some, beq_eq_false_iff_ne, ne_eq]
    intro he
    exact ht (he ▸ List.getElem_mem hi)

/-- `dec_unarmor` of prefix ‖ base64 (x) ‖ ':' ‖ t, where `t` (the NUL, or nothing) has no ':' -/
theorem unarmor_ok (m : Msg) (x t : Bytes) (ht : (58 : UInt8) ∉ t)
    (hd : m.data.take m.dataLen = prefixB ++ Base64.encodeBlock x ++ 58 :: t) : unarmor m = .ok x := by
  unfold unarmor
  simp only [hd, prefixB_eq, suffixB_eq]
  have h1 : List.dropWhile isSpaceC ([77, 85, 78, 71, 69, 58] ++ Base64.encodeBlock x ++ 58 :: t)
      = [77, 85, 78, 71, 69, 58] ++ Base64.encodeBlock x ++ 58 :: t := by
    simp [isSpaceC]
  rw [h1]
  have h2 : ([77, 85, 78, 71, 69, 58] ++ Base64.encodeBlock x ++ 58 :: t).drop ([77, 85, 78, 71, 69, 58] : Bytes).length
      = Base64.encodeBlock x ++ 58 :: t := by simp
  rw [h2]
  have h3 : ([58] : Bytes).getD 0 58 = 58 := rfl
  rw [h3, lastIndexOf_append _ _ _ ht]
  simp [C19.decode_encode]

/-! ### the encoder on its success path -/
theorem enc_validate_msg_ok (cipher mac zip dl ttl dc dm dz defTtl maxTtl : Int) (f1 f2 f3 f4 f5 : Int → Int)
    (h : 0 ≤ (enc_validate_msg cipher mac zip dl ttl dc dm dz defTtl maxTtl f1 f2 f3 f4 f5).ret) :
    ¬ ((¬ (cipher = 1)) ∧ ((¬ (cipher = 0)) ∧ ((f1 cipher) < 0))) ∧
    ¬ ((¬ (mac = 1)) ∧ ((f2 mac) < 0)) ∧
    ¬ ((f3 (if mac = 1 then wrapU8 dm else mac)) < (f4 (if cipher = 1 then wrapU8 dc else cipher))) ∧
    ¬ ((¬ (zip = 1)) ∧ ((¬ (zip = 0)) ∧ (¬ ((f5 zip) ≠ 0)))) ∧
    enc_validate_msg cipher mac zip dl ttl dc dm dz defTtl maxTtl f1 f2 f3 f4 f5 =
      { ret := 0, writes := [("m.cipher", if cipher = 1 then wrapU8 dc else cipher), ("m.mac", if mac = 1 then wrapU8 dm else mac), ("m.zip", if dl = 0 then 0 else if zip = 1 then wrapU8 dz else zip), ("m.ttl", if ttl = 0 then wrapU32 defTtl else if ttl > (wrapU32 maxTtl) then wrapU32 maxTtl else ttl)], events := [] } := by
  unfold enc_validate_msg at h ⊢
  by_cases c1 : ((¬ (cipher = 1)) ∧ ((¬ (cipher = 0)) ∧ ((f1 cipher) < 0)))
  · rw [if_pos c1] at h; simp at h
  rw [if_neg c1] at h ⊢
  by_cases c2 : ((¬ (mac = 1)) ∧ ((f2 mac) < 0))
  · rw [if_pos c2] at h; simp at h
  rw [if_neg c2] at h ⊢
  by_cases c3 : ((f3 (if mac = 1 then wrapU8 dm else mac)) < (f4 (if cipher = 1 then wrapU8 dc else cipher)))
  · rw [if_pos c3] at h; simp at h
  rw [if_neg c3] at h ⊢
  by_cases c4 : ((¬ (zip = 1)) ∧ ((¬ (zip = 0)) ∧ (¬ ((f5 zip) ≠ 0))))
  · rw [if_pos c4] at h; simp at h
  rw [if_neg c4] at h ⊢
  exact ⟨c1, c2, c3, c4, rfl⟩

theorem encValidate_ok (P : Prims) (cf : Conf) (m0 : Msg) (h : 0 ≤ (encValidate P cf m0).ret) :
    (applyWrites m0 (encValidate P cf m0) "m.").cipher = (if m0.cipher = 1 then cf.defCipher % 256 else m0.cipher) ∧
    (applyWrites m0 (encValidate P cf m0) "m.").mac = (if m0.mac = 1 then cf.defMac % 256 else m0.mac) ∧
    (applyWrites m0 (encValidate P cf m0) "m.").zip =
      (if m0.dataLen = 0 then 0 else if m0.zip = 1 then cf.defZip % 256 else m0.zip) ∧
    ((applyWrites m0 (encValidate P cf m0) "m.").ttl : Int) =
      (if m0.ttl = 0 then wrapU32 cf.defTtl else if (m0.ttl : Int) > wrapU32 cf.maxTtl then wrapU32 cf.maxTtl else m0.ttl) ∧
    (m0.cipher = 1 ∨ m0.cipher = 0 ∨ P.cipherValid m0.cipher = true) ∧
    (m0.mac = 1 ∨ P.macValid m0.mac = true) ∧
    P.keyLen (if m0.cipher = 1 then cf.defCipher % 256 else m0.cipher) ≤ P.macLen (if m0.mac = 1 then cf.defMac % 256 else m0.mac) ∧
    (m0.zip = 1 ∨ m0.zip = 0 ∨ P.zipValid m0.zip = true) := by
  unfold encValidate at h ⊢
  obtain ⟨c1, c2, c3, c4, e⟩ := enc_validate_msg_ok _ _ _ _ _ _ _ _ _ _ _ _ _ _ _ h
  unfold applyWrites
  rw [e]
  simp only [KOut.get, KOut.written, List.find?, Option.map, Option.getD, String.reduceBEq, String.reduceAppend]
  have hc : (if (m0.cipher : Int) = 1 then wrapU8 (cf.defCipher : Int) else (m0.cipher : Int)).toNat
      = (if m0.cipher = 1 then cf.defCipher % 256 else m0.cipher) := by
    unfold wrapU8; split <;> split <;> omega
  have hm : (if (m0.mac : Int) = 1 then wrapU8 (cf.defMac : Int) else (m0.mac : Int)).toNat
      = (if m0.mac = 1 then cf.defMac % 256 else m0.mac) := by
    unfold wrapU8; split <;> split <;> omega
  rw [hc, hm] at c3
  refine ⟨hc, hm, ?_, ?_, ?_, ?_, ?_, ?_⟩
  · unfold wrapU8; split <;> split <;> (try split) <;> (try split) <;> omega
  · have := wrapU32_range cf.defTtl; have := wrapU32_range cf.maxTtl
    split <;> split <;> (try split) <;> (try split) <;> omega
  · by_cases a : m0.cipher = 1
    · exact Or.inl a
    by_cases b : m0.cipher = 0
    · exact Or.inr (Or.inl b)
    · refine Or.inr (Or.inr ?_)
      cases hv : P.cipherValid m0.cipher with
      | true => rfl
      | false =>
        exfalso; apply c1
        refine ⟨by omega, by omega, ?_⟩
        simp [hv]
  · by_cases a : m0.mac = 1
    · exact Or.inl a
    · refine Or.inr ?_
      cases hv : P.macValid m0.mac with
      | true => rfl
      | false =>
        exfalso; apply c2
        refine ⟨by omega, ?_⟩
        simp [hv]
  · omega
  · by_cases a : m0.zip = 1
    · exact Or.inl a
    by_cases b : m0.zip = 0
    · exact Or.inr (Or.inl b)
    · refine Or.inr (Or.inr ?_)
      cases hv : P.zipValid m0.zip with
      | true => rfl
      | false =>
        exfalso; apply c4
        refine ⟨by omega, by omega, ?_⟩
        simp [hv, b2int]

/-- the success path of `encProcess` from the validated message `m1` on -/
def encBody (P : Prims) (cf : Conf) (env : Env) (m1 : Msg) (uid gid : Nat) : Msg :=
  let salt := rndTake env.rnd 0 MUNGE_CRED_SALT_LEN.toNat
  let ivLen := if m1.cipher = 0 then 0 else (P.ivLen m1.cipher).toNat
  let iv := rndTake env.rnd MUNGE_CRED_SALT_LEN.toNat ivLen
  let m := { m1 with clientUid := uid, clientGid := gid, time0 := (wrapU32 env.now).toNat, time1 := 0, addrLen := 4 }
  let inner := packInner cf m salt
  let z := if m.zip = 0 then inner else zipCompress P m.zip inner
  let useZip := m.zip ≠ 0 ∧ z.length < inner.length
  let m := if m.zip ≠ 0 ∧ ¬ useZip then { m with zip := 0 } else m
  let outer := packOuter m iv
  let inner := if useZip then z else inner
  let macv := P.mac m.mac cf.macKey (outer ++ inner)
  let inner := if m.cipher = 0 then inner else
    let dek := P.mac m.mac cf.dekKey macv
    P.encrypt m.cipher dek iv inner
  let cred := armor outer macv inner
  { m with data := cred, dataLen := cred.length }

theorem encProcess_ok (P : Prims) (cf : Conf) (env : Env) (m0 : Msg) (hok : (encProcess P cf env m0).2 = 0) :
    ∃ uid gid, env.peer = some (uid, gid) ∧ 0 ≤ (encValidate P cf m0).ret ∧ env.now ≠ -1 ∧
      (encProcess P cf env m0).1 = encBody P cf env (applyWrites m0 (encValidate P cf m0) "m.") uid gid := by
  unfold encProcess at hok ⊢
  by_cases hv : (encValidate P cf m0).ret < 0
  · simp [hv] at hok
  · simp only [hv, if_false] at hok ⊢
    cases hp : env.peer with
    | none => simp [hp] at hok
    | some ug =>
      obtain ⟨uid, gid⟩ := ug
      simp only [hp] at hok ⊢
      split at hok
      · simp at hok
      · split at hok
        · simp at hok
        · rename_i h1 h2
          refine ⟨uid, gid, rfl, by omega, h2, ?_⟩
          simp only [h1, h2, if_false]
          rfl

/-! ### the decoder on a well-formed credential, stage by stage -/
theorem takeN_append (a b : Bytes) (n : Nat) (h : a.length = n) : takeN (a ++ b) n = some (a, b) := by
  unfold takeN
  subst h
  simp

theorem unpackOuter_ok (P : Prims) (L : PrimLaws P) (m : Msg) (c mc z : Nat) (realm iv macv inner : Bytes)
    (hc : c < 256) (hmc : mc < 256) (hz : z < 256) (hr : realm.length < 255)
    (hcv : c = 0 ∨ P.cipherValid c = true) (hmv : P.macValid mc = true) (hk : P.keyLen c ≤ P.macLen mc)
    (hzv : z = 0 ∨ P.zipValid z = true)
    (hiv : (iv.length : Int) = if c = 0 then 0 else P.ivLen c)
    (hmac : (macv.length : Int) = P.macLen mc) :
    unpackOuter P m ([3, UInt8.ofNat c, UInt8.ofNat mc, UInt8.ofNat z, UInt8.ofNat realm.length] ++ realm ++ iv ++ macv ++ inner) =
      .ok (if realm.length > 0 then { m with cipher := c, mac := mc, zip := z, realm := realm ++ [0], realmLen := (realm.length + 1) % 256 }
           else { m with cipher := c, mac := mc, zip := z, realmLen := realm.length },
           { outer := [3, UInt8.ofNat c, UInt8.ofNat mc, UInt8.ofNat z, UInt8.ofNat realm.length] ++ realm ++ iv,
             mac := macv, inner := inner, iv := iv, macLen := macv.length }) := by
  have hml := L.macLen_range mc hmv
  unfold unpackOuter
  simp only [List.cons_append, List.nil_append, List.length_cons, byteAt, List.getElem?_cons_zero, List.getElem?_cons_succ,
    toNat_ofNat_lt _ hc, toNat_ofNat_lt _ hmc, toNat_ofNat_lt _ hz, toNat_ofNat_lt _ (show realm.length < 256 by omega),
    List.drop_succ_cons, List.drop_zero, ← hiv, ← hmac, Int.toNat_natCast, List.append_assoc]
  rw [if_neg (by omega), if_neg (by decide), if_neg (by omega),
    if_neg (by rcases hcv with h | h <;> simp [h]), if_neg (by omega), if_neg (by omega),
    if_neg (by simp [hmv]), if_neg (by omega), if_neg (by omega), if_neg (by omega),
    if_neg (by rcases hzv with h | h <;> simp [h]), if_neg (by omega),
    if_neg (by simp only [List.length_append]; omega)]
  rw [takeN_append _ _ _ rfl]
  simp only []
  rw [if_neg (by simp only [List.length_append]; omega), takeN_append _ _ _ rfl]
  simp only []
  rw [if_neg (by simp only [List.length_append]; omega), takeN_append _ _ _ rfl]
  simp only []
  congr 3
  have : (realm ++ (iv ++ (macv ++ inner))).length + 1 + 1 + 1 + 1 + 1 - (macv ++ inner).length = 5 + (realm ++ iv).length := by
    simp only [List.length_append]; omega
  rw [this, show 5 + (realm ++ iv).length = (realm ++ iv).length + 1 + 1 + 1 + 1 + 1 by omega]
  simp only [List.take_succ_cons, ← List.append_assoc]
  rw [List.append_assoc (realm ++ iv), List.take_left' rfl]

theorem take32_be32 (n : Nat) (h : n < 4294967296) (rest : Bytes) (what : String) :
    take32 (be32 n ++ rest) what = .ok (n, rest) := by
  unfold take32
  rw [if_neg (by simp only [List.length_append, be32_length]; omega), takeN_append _ _ _ (be32_length n)]
  simp only [rd32_be32 n h]

theorem unpackInner_ok (m : Msg) (salt addr payload : Bytes) (t0 ttl uid gid au ag : Nat)
    (hs : salt.length = 8) (ha : addr.length = 4 ∨ addr.length = 0)
    (h0 : t0 < 4294967296) (h1 : ttl < 4294967296) (h2 : uid < 4294967296) (h3 : gid < 4294967296)
    (h4 : au < 4294967296) (h5 : ag < 4294967296) (h6 : payload.length < 4294967296) :
    unpackInner m (salt ++ [UInt8.ofNat addr.length] ++ addr ++ be32 t0 ++ be32 ttl ++ be32 uid ++ be32 gid ++
        be32 au ++ be32 ag ++ be32 payload.length ++ payload) =
      .ok { m with addrLen := addr.length, addr := if addr.length = 4 then addr else [0, 0, 0, 0], time0 := t0, ttl := ttl,
                   credUid := uid, credGid := gid, authUid := au, authGid := ag, dataLen := payload.length, data := payload } := by
  unfold unpackInner
  have hsl : MUNGE_CRED_SALT_LEN.toNat = 8 := rfl
  simp only [List.append_assoc, hsl]
  rw [if_neg (by simp only [List.length_append]; omega), takeN_append _ _ _ hs]
  simp only [List.cons_append, List.nil_append, List.length_cons, byteAt, List.getElem?_cons_zero, List.drop_succ_cons, List.drop_zero,
    toNat_ofNat_lt _ (show addr.length < 256 by omega)]
  rw [if_neg (by omega), if_neg (by simp only [List.length_append]; omega), if_neg (by omega), takeN_append _ _ _ rfl]
  simp only [take32_be32 _ h0, take32_be32 _ h1, take32_be32 _ h2, take32_be32 _ h3, take32_be32 _ h4, take32_be32 _ h5,
    take32_be32 _ h6]
  rw [if_neg (by omega)]
  have : takeN payload payload.length = some (payload, []) := by
    have := takeN_append payload [] _ rfl
    rwa [List.append_nil] at this
  rw [this]

theorem zipLength_header (n : Nat) (h : n < 2147483648) (x : Bytes) :
    zipLength (be32 3402287818 ++ be32 n ++ x) = n := by
  unfold zipLength
  have hz : ZIP_MAGIC.toNat = 3402287818 := rfl
  rw [if_neg (by simp only [List.length_append, be32_length]; omega)]
  rw [List.append_assoc, List.take_left' (be32_length _), List.drop_left' (be32_length _), List.take_left' (be32_length _),
    rd32_be32 _ (by omega), rd32_be32 _ (by omega), hz]
  simp only [ne_eq, not_true_eq_false, if_false]
  unfold wrapS32; omega

theorem decMid_ok (P : Prims) (L : PrimLaws P) (cf : Conf) (rs : ReplaySet) (m m' : Msg) (s : Scratch)
    (plain inner : Bytes)
    (hcv : m.cipher = 0 ∨ P.cipherValid m.cipher = true) (hzv : m.zip = 0 ∨ P.zipValid m.zip = true)
    (he : m.errorNum = 0)
    (hmac : s.mac = P.mac m.mac cf.macKey (s.outer ++ plain)) (hml : s.macLen = s.mac.length)
    (hin : s.inner = if m.cipher = 0 then plain else P.encrypt m.cipher (P.mac m.mac cf.dekKey s.mac) s.iv plain)
    (hpl : plain = if m.zip = 0 then inner else be32 3402287818 ++ be32 inner.length ++ P.deflate m.zip inner)
    (hne : inner ≠ []) (hlen : inner.length < 2147483648)
    (hu : unpackInner m inner = .ok m') :
    decMid P cf rs m s = .inr (m', { s with inner := inner }) := by
  have hd : decDecrypt P cf m s = (m, { s with inner := plain }) := by
    unfold decDecrypt
    by_cases hc : m.cipher = 0
    · rw [if_pos hc]; rw [if_pos hc] at hin; rw [← hin]
    · rw [if_neg hc]; rw [if_neg hc] at hin
      have hv : P.cipherValid m.cipher = true := by rcases hcv with h | h; exact absurd h hc; exact h
      simp only [hin, L.dec_enc _ _ _ _ hv, if_true]
  have hv : decValidateMac P cf m { s with inner := plain } = .ok m := by
    unfold decValidateMac
    simp only [← hmac, hml, ne_eq, not_true_eq_false, or_self, if_false, he]
  have hz : decDecompress P m { s with inner := plain } = .ok { s with inner := inner } := by
    unfold decDecompress
    by_cases hc : m.zip = 0
    · rw [if_pos hc]; rw [if_pos hc] at hpl; rw [hpl]
    · rw [if_neg hc]; rw [if_neg hc] at hpl
      have hv : P.zipValid m.zip = true := by rcases hzv with h | h; exact absurd h hc; exact h
      have hl0 : 0 < inner.length := List.length_pos_iff.mpr hne
      simp only [hpl, zipLength_header _ hlen]
      rw [if_neg (by omega)]
      have : (be32 3402287818 ++ be32 inner.length ++ P.deflate m.zip inner).drop 8 = P.deflate m.zip inner := by
        rw [List.drop_left' (by simp [be32_length])]
      rw [this, Int.toNat_natCast, L.inflate_deflate _ _ hv hne]
  unfold decMid
  simp only [hd, hv, hz, hu]

theorem decTail_ok (cf : Conf) (env : Env) (rs : ReplaySet) (m : Msg) (s : Scratch)
    (hr : m.authUid < 4294967296 ∧ m.authGid < 4294967296 ∧ m.clientUid < 4294967296 ∧ m.clientGid < 4294967296 ∧
          m.ttl < 4294967296 ∧ m.time0 < 4294967296 ∧ m.time1 < 4294967296)
    (hcf : 1 ≤ cf.maxTtl ∧ cf.maxTtl ≤ MUNGE_MAXIMUM_TTL)
    (hauth : (m.authUid = UID_ANY ∨ m.authUid = m.clientUid ∨ (cf.gotRootAuth = true ∧ m.clientUid = 0)) ∧
             (m.authGid = GID_ANY ∨ m.authGid = m.clientGid ∨ env.member m.clientUid m.authGid = true))
    (hwin : let ttl' : Int := if (m.ttl : Int) > cf.maxTtl then cf.maxTtl else m.ttl
            let sk : Int := if cf.gotClockSkew then ttl' else 1
            sk ≤ m.time0 ∧ m.time0 + ttl' < 4294967296 ∧ (m.time0 : Int) - sk ≤ m.time1 ∧ (m.time1 : Int) ≤ m.time0 + ttl')
    (hfresh : replayKey { m with ttl := (if (m.ttl : Int) > cf.maxTtl then cf.maxTtl else (m.ttl : Int)).toNat } s ∉ rs) :
    decTail cf env rs m s =
      { msg := { m with ttl := (if (m.ttl : Int) > cf.maxTtl then cf.maxTtl else (m.ttl : Int)).toNat }, rc := 0, inserted := true,
        key := some (replayKey { m with ttl := (if (m.ttl : Int) > cf.maxTtl then cf.maxTtl else (m.ttl : Int)).toNat } s),
        replay := replayKey { m with ttl := (if (m.ttl : Int) > cf.maxTtl then cf.maxTtl else (m.ttl : Int)).toNat } s :: rs } := by
  have hA : ¬ (dec_validate_auth m.authUid m.authGid m.clientUid m.clientGid (b2int cf.gotRootAuth)
            (fun u g => b2int (env.member u.toNat g.toNat))).ret < 0 := by
    have h0 : (dec_validate_auth m.authUid m.authGid m.clientUid m.clientGid (b2int cf.gotRootAuth)
            (fun u g => b2int (env.member u.toNat g.toNat))).ret = 0 := by
      rw [C04.auth_spec]
      · unfold C04.Authorized MUNGE_UID_ANY MUNGE_GID_ANY
        unfold UID_ANY GID_ANY MUNGE_UID_ANY MUNGE_GID_ANY at hauth
        simp only [Int.toNat_natCast]
        obtain ⟨ha, hb⟩ := hauth
        constructor
        · rcases ha with h | h | ⟨h1, h2⟩
          · left; rw [h]; rfl
          · right; left; rw [h]
          · right; right; simp [b2int, h1, h2]
        · rcases hb with h | h | h
          · left; rw [h]; rfl
          · right; left; rw [h]
          · right; right; simp [b2int, h]
      · unfold C04.Ranges b2int; split <;> omega
    omega
  have hR : C06.Ranges m.ttl m.time0 m.time1 cf.maxTtl (b2int cf.gotClockSkew) := by
    unfold C06.Ranges b2int; split <;> omega
  have hcap : C06.cap m.ttl cf.maxTtl = if (m.ttl : Int) > cf.maxTtl then cf.maxTtl else (m.ttl : Int) := rfl
  have hsk : C06.skew m.ttl cf.maxTtl (b2int cf.gotClockSkew) =
      if cf.gotClockSkew then (if (m.ttl : Int) > cf.maxTtl then cf.maxTtl else (m.ttl : Int)) else 1 := by
    unfold C06.skew b2int; rw [hcap]; cases cf.gotClockSkew <;> simp
  simp only [] at hwin
  have hT := (C06.window_exact m.ttl m.time0 m.time1 cf.maxTtl (b2int cf.gotClockSkew) hR
    (by rw [hsk]; exact hwin.1) (by rw [hcap]; exact hwin.2.1)).1 (by rw [hsk, hcap]; exact ⟨hwin.2.2.1, hwin.2.2.2⟩)
  have hG := C06.decode_caps_ttl m.ttl m.time0 m.time1 cf.maxTtl (b2int cf.gotClockSkew) hR
  rw [hcap] at hG
  unfold decTail
  simp only [hA, if_false, hG, hT.1, show ¬ ((0 : Int) < 0) by omega]
  have hc : rs.contains (replayKey { m with ttl := (if (m.ttl : Int) > cf.maxTtl then cf.maxTtl else (m.ttl : Int)).toNat } s) = false := by
    simpa using hfresh
  simp only [hc]
  have hrp : ∀ a b c d, (dec_validate_replay a b 0 c d 0).ret = 0 := by
    intros; unfold dec_validate_replay; simp
  simp [hrp]

section
open Munge.SpecV3
theorem unpackOuter_ok' (P : Prims) (L : PrimLaws P) (m : Msg) (c mc z : Nat) (realm iv macv inner : Bytes)
    (hc : c < 256) (hmc : mc < 256) (hz : z < 256) (hr : realm.length < 255)
    (hcv : c = 0 ∨ P.cipherValid c = true) (hmv : P.macValid mc = true) (hk : P.keyLen c ≤ P.macLen mc)
    (hzv : z = 0 ∨ P.zipValid z = true)
    (hiv : (iv.length : Int) = if c = 0 then 0 else P.ivLen c)
    (hmac : (macv.length : Int) = P.macLen mc) :
    unpackOuter P m ([3, UInt8.ofNat c, UInt8.ofNat mc, UInt8.ofNat z, UInt8.ofNat realm.length] ++ realm ++ iv ++ macv ++ inner) =
      .ok ({ m with cipher := c, mac := mc, zip := z, realm := if realm.length > 0 then realm ++ [0] else m.realm,
                    realmLen := if realm.length > 0 then (realm.length + 1) % 256 else realm.length },
           { outer := [3, UInt8.ofNat c, UInt8.ofNat mc, UInt8.ofNat z, UInt8.ofNat realm.length] ++ realm ++ iv,
             mac := macv, inner := inner, iv := iv, macLen := macv.length }) := by
  rw [unpackOuter_ok P L m c mc z realm iv macv inner hc hmc hz hr hcv hmv hk hzv hiv hmac]
  by_cases h : realm.length > 0
  · simp only [h, if_true]
  · simp only [h, if_false]

theorem munge_lit : "MUNGE:".toUTF8.toList = ([77, 85, 78, 71, 69, 58] : Bytes) := by decide +kernel
theorem colon_lit : ":".toUTF8.toList = ([58] : Bytes) := by decide +kernel

/-- the MAC and the (encrypted) body of the reference credential -/
def specTag (P : Prims) (macKey : Bytes) (f : Fields) : Bytes := P.mac f.mac macKey (outer f ++ compressed P f)
def specBody (P : Prims) (macKey dekKey : Bytes) (f : Fields) : Bytes :=
  if f.cipher = 0 then compressed P f else P.encrypt f.cipher (P.mac f.mac dekKey (specTag P macKey f)) f.iv (compressed P f)

theorem emit_eq (P : Prims) (macKey dekKey : Bytes) (f : Fields) :
    emit P macKey dekKey f = prefixB ++ Base64.encodeBlock (outer f ++ specTag P macKey f ++ specBody P macKey dekKey f) ++ [58] := by
  unfold emit specBody specTag
  simp only [munge_lit, colon_lit, prefixB_eq, encodeBlock_eq_base64]

theorem decFront_ok (P : Prims) (L : PrimLaws P) (cf : Conf) (env : Env) (rs : ReplaySet) (f : Fields) (hf : WF P f)
    (uid gid : Nat) (hp : env.peer = some (uid, gid)) (hnow : env.now ≠ -1)
    (m0 : Msg) (t : Bytes) (ht : (58 : UInt8) ∉ t) (hd : m0.data.take m0.dataLen = emit P cf.macKey cf.dekKey f ++ t)
    (hretry : m0.retry ≤ 5) :
    decFront P env rs m0 = .inr
      ({ m0 with time0 := 0, time1 := (wrapU32 env.now).toNat, clientUid := uid, clientGid := gid, data := [], dataLen := 0,
                 cipher := f.cipher, mac := f.mac, zip := f.zip,
                 realm := if f.realm.length > 0 then f.realm ++ [0] else m0.realm,
                 realmLen := if f.realm.length > 0 then (f.realm.length + 1) % 256 else f.realm.length },
       { outer := outer f, mac := specTag P cf.macKey f, inner := specBody P cf.macKey cf.dekKey f, iv := f.iv,
         macLen := (specTag P cf.macKey f).length }) := by
  have hdl : m0.dataLen ≠ 0 := by
    intro h0
    rw [h0, List.take_zero, emit_eq, prefixB_eq] at hd
    simp at hd
  unfold decFront
  have hv : ¬ (dec_validate_msg m0.dataLen (if m0.dataLen > 0 then 1 else 0)).ret < 0 := by
    unfold dec_validate_msg
    have hpos : m0.dataLen > 0 := by omega
    simp only [hpos, if_true]
    rw [if_neg (by omega)]; simp
  have hr : ∀ a b : Int, ¬ (dec_check_retry m0.retry a b).ret < 0 := by
    intro a b; unfold dec_check_retry; rw [if_neg (by omega)]; simp
  simp only [hv, if_false, hnow, hp, hr]
  rw [unarmor_ok _ (outer f ++ specTag P cf.macKey f ++ specBody P cf.macKey cf.dekKey f) t ht
    (by simp only [hd, emit_eq, List.append_assoc, List.cons_append, List.nil_append])]
  simp only []
  have hmacl := L.mac_length f.mac cf.macKey (outer f ++ compressed P f) hf.mac_ok
  obtain ⟨r1, r2, r3, _⟩ := hf.ranges
  have := unpackOuter_ok' P L { m0 with time0 := 0, time1 := (wrapU32 env.now).toNat, clientUid := uid, clientGid := gid, data := [], dataLen := 0 }
    f.cipher f.mac f.zip f.realm f.iv (specTag P cf.macKey f) (specBody P cf.macKey cf.dekKey f)
    r1 r2 r3 hf.realm_len hf.cipher_ok hf.mac_ok hf.dek_ok hf.zip_ok hf.iv_len hmacl
  unfold outer
  rw [this]
/-- the TTL the decoder reports: capped by its maximum -/
def capT (cf : Conf) (ttl : Nat) : Nat := (if (ttl : Int) > cf.maxTtl then cf.maxTtl else (ttl : Int)).toNat

def frontMsg (env : Env) (m0 : Msg) (uid gid : Nat) (f : Fields) : Msg :=
  { m0 with
    time0 := 0, time1 := (wrapU32 env.now).toNat, clientUid := uid, clientGid := gid, data := [], dataLen := 0,
    cipher := f.cipher, mac := f.mac, zip := f.zip,
    realm := if f.realm.length > 0 then f.realm ++ [0] else m0.realm,
    realmLen := if f.realm.length > 0 then (f.realm.length + 1) % 256 else f.realm.length }
def frontScr (P : Prims) (cf : Conf) (f : Fields) : Scratch :=
  { outer := outer f, mac := specTag P cf.macKey f, inner := specBody P cf.macKey cf.dekKey f, iv := f.iv,
    macLen := (specTag P cf.macKey f).length }
def midMsg (env : Env) (m0 : Msg) (uid gid : Nat) (f : Fields) : Msg :=
  { frontMsg env m0 uid gid f with
    addrLen := f.addr.length, addr := if f.addr.length = 4 then f.addr else [0, 0, 0, 0], time0 := f.time0, ttl := f.ttl,
    credUid := f.uid, credGid := f.gid, authUid := f.authUid, authGid := f.authGid, dataLen := f.payload.length, data := f.payload }

theorem inner_length (f : Fields) : (inner f).length = f.salt.length + 1 + f.addr.length + 28 + f.payload.length := by
  unfold inner u32be
  simp only [List.length_append, List.length_cons, List.length_nil]

/-- what the decoder returns for the reference credential of `f` -/
def decodedMsg (cf : Conf) (env : Env) (m0 : Msg) (uid gid : Nat) (f : Fields) : Msg :=
  { m0 with
    time0 := f.time0, time1 := (wrapU32 env.now).toNat, clientUid := uid, clientGid := gid,
    cipher := f.cipher, mac := f.mac, zip := f.zip,
    realm := if f.realm.length > 0 then f.realm ++ [0] else m0.realm,
    realmLen := if f.realm.length > 0 then (f.realm.length + 1) % 256 else f.realm.length,
    addrLen := f.addr.length, addr := if f.addr.length = 4 then f.addr else [0, 0, 0, 0],
    ttl := capT cf f.ttl, credUid := f.uid, credGid := f.gid, authUid := f.authUid, authGid := f.authGid,
    dataLen := f.payload.length, data := f.payload }

theorem decode_emit (P : Prims) (L : PrimLaws P) (cf : Conf) (env : Env) (rs : ReplaySet) (f : Fields) (hf : WF P f)
    (uid gid : Nat) (hp : env.peer = some (uid, gid)) (hid : uid < 4294967296 ∧ gid < 4294967296)
    (hcf : 1 ≤ cf.maxTtl ∧ cf.maxTtl ≤ MUNGE_MAXIMUM_TTL)
    (hnow : 0 ≤ env.now ∧ env.now < 4294967296)
    (hauth : (f.authUid = UID_ANY ∨ f.authUid = uid ∨ (cf.gotRootAuth = true ∧ uid = 0)) ∧
             (f.authGid = GID_ANY ∨ f.authGid = gid ∨ env.member uid f.authGid = true))
    (hwin : let ttl' : Int := if (f.ttl : Int) > cf.maxTtl then cf.maxTtl else f.ttl
            let sk : Int := if cf.gotClockSkew then ttl' else 1
            sk ≤ f.time0 ∧ f.time0 + ttl' < 4294967296 ∧ (f.time0 : Int) - sk ≤ env.now ∧ env.now ≤ f.time0 + ttl')
    (m0 : Msg) (t : Bytes) (ht : (58 : UInt8) ∉ t) (hd : m0.data.take m0.dataLen = emit P cf.macKey cf.dekKey f ++ t)
    (hretry : m0.retry ≤ 5) (herr : m0.errorNum = 0)
    (hfresh : ((specTag P cf.macKey f).take 16, (f.time0 + capT cf f.ttl) % 4294967296) ∉ rs) :
    decProcess P cf env rs m0 =
      { msg := decodedMsg cf env m0 uid gid f,
        rc := 0, inserted := true,
        key := some ((specTag P cf.macKey f).take 16, (f.time0 + capT cf f.ttl) % 4294967296),
        replay := ((specTag P cf.macKey f).take 16, (f.time0 + capT cf f.ttl) % 4294967296) :: rs } := by
  obtain ⟨r1, r2, r3, r4, r5, r6, r7, r8, r9, r10⟩ := hf.ranges
  have hil := inner_length f
  have hal := hf.addr_len
  have hsl := hf.salt_len
  unfold decProcess
  have h1 : decFront P env rs m0 = .inr (frontMsg env m0 uid gid f, frontScr P cf f) :=
    decFront_ok P L cf env rs f hf uid gid hp (by omega) m0 t ht hd hretry
  have h2 : decMid P cf rs (frontMsg env m0 uid gid f) (frontScr P cf f) =
      .inr (midMsg env m0 uid gid f, { frontScr P cf f with inner := inner f }) :=
    decMid_ok P L cf rs (frontMsg env m0 uid gid f) (midMsg env m0 uid gid f) (frontScr P cf f) (compressed P f) (inner f)
      hf.cipher_ok hf.zip_ok herr rfl rfl rfl rfl
      (by intro h; rw [h] at hil; simp at hil; omega) (by omega)
      (unpackInner_ok (frontMsg env m0 uid gid f) f.salt f.addr f.payload f.time0 f.ttl f.uid f.gid f.authUid f.authGid hsl hal
        (by omega) (by omega) (by omega) (by omega) (by omega) (by omega) (by omega))
  have hw := wrapU32_id hnow.1 hnow.2
  have h3 := decTail_ok cf env rs (midMsg env m0 uid gid f) { frontScr P cf f with inner := inner f }
    ⟨by show f.authUid < _; omega, by show f.authGid < _; omega, hid.1, hid.2, by show f.ttl < _; omega,
      by show f.time0 < _; omega, by show (wrapU32 env.now).toNat < _; omega⟩ hcf hauth
    (by show (let ttl' : Int := if (f.ttl : Int) > cf.maxTtl then cf.maxTtl else f.ttl
              let sk : Int := if cf.gotClockSkew then ttl' else 1
              sk ≤ f.time0 ∧ f.time0 + ttl' < 4294967296 ∧ (f.time0 : Int) - sk ≤ ((wrapU32 env.now).toNat : Int) ∧
                (((wrapU32 env.now).toNat : Nat) : Int) ≤ f.time0 + ttl')
        rw [Int.toNat_of_nonneg (by omega), hw]; exact hwin) hfresh
  rw [h1]; simp only []
  rw [h2]; simp only []
  rw [h3]
  rfl
/-! ### the encoder emits the reference credential -/
def encMsg (env : Env) (m1 : Msg) (uid gid : Nat) : Msg :=
  { m1 with clientUid := uid, clientGid := gid, time0 := (wrapU32 env.now).toNat, time1 := 0, addrLen := 4 }
def encSalt (env : Env) : Bytes := rndTake env.rnd 0 MUNGE_CRED_SALT_LEN.toNat
def encIv (P : Prims) (env : Env) (c : Nat) : Bytes :=
  rndTake env.rnd MUNGE_CRED_SALT_LEN.toNat (if c = 0 then 0 else (P.ivLen c).toNat)
def encInner (cf : Conf) (env : Env) (m1 : Msg) (uid gid : Nat) : Bytes := packInner cf (encMsg env m1 uid gid) (encSalt env)
/-- compression is used: requested and strictly shorter -/
def encUseZip (P : Prims) (cf : Conf) (env : Env) (m1 : Msg) (uid gid : Nat) : Prop :=
  m1.zip ≠ 0 ∧ (zipCompress P m1.zip (encInner cf env m1 uid gid)).length < (encInner cf env m1 uid gid).length
instance (P : Prims) (cf : Conf) (env : Env) (m1 : Msg) (uid gid : Nat) : Decidable (encUseZip P cf env m1 uid gid) := by
  unfold encUseZip; infer_instance
def encZip (P : Prims) (cf : Conf) (env : Env) (m1 : Msg) (uid gid : Nat) : Nat :=
  if encUseZip P cf env m1 uid gid then m1.zip else 0
def encPlain (P : Prims) (cf : Conf) (env : Env) (m1 : Msg) (uid gid : Nat) : Bytes :=
  if encUseZip P cf env m1 uid gid then zipCompress P m1.zip (encInner cf env m1 uid gid) else encInner cf env m1 uid gid
def encOuter (P : Prims) (cf : Conf) (env : Env) (m1 : Msg) (uid gid : Nat) : Bytes :=
  packOuter { m1 with zip := encZip P cf env m1 uid gid } (encIv P env m1.cipher)
def encTag (P : Prims) (cf : Conf) (env : Env) (m1 : Msg) (uid gid : Nat) : Bytes :=
  P.mac m1.mac cf.macKey (encOuter P cf env m1 uid gid ++ encPlain P cf env m1 uid gid)
def encCred (P : Prims) (cf : Conf) (env : Env) (m1 : Msg) (uid gid : Nat) : Bytes :=
  armor (encOuter P cf env m1 uid gid) (encTag P cf env m1 uid gid)
    (if m1.cipher = 0 then encPlain P cf env m1 uid gid else
      P.encrypt m1.cipher (P.mac m1.mac cf.dekKey (encTag P cf env m1 uid gid)) (encIv P env m1.cipher) (encPlain P cf env m1 uid gid))

theorem encBody_eq (P : Prims) (cf : Conf) (env : Env) (m1 : Msg) (uid gid : Nat) :
    encBody P cf env m1 uid gid =
      { encMsg env m1 uid gid with zip := encZip P cf env m1 uid gid, data := encCred P cf env m1 uid gid,
                                   dataLen := (encCred P cf env m1 uid gid).length } := by
  unfold encBody encCred encTag encOuter encPlain encZip
  by_cases hz : m1.zip = 0
  · have hu : ¬ encUseZip P cf env m1 uid gid := fun h => h.1 hz
    simp only [hu, if_false]
    simp [hz, encMsg, encInner, encSalt, encIv, packOuter]
  · by_cases hu : encUseZip P cf env m1 uid gid
    · simp only [hu, if_true]
      have hu' := hu
      unfold encUseZip encInner encSalt encMsg at hu'
      simp [hz, hu'.2, encMsg, encInner, encSalt, encIv, packOuter]
    · simp only [hu, if_false]
      have hu' := hu
      unfold encUseZip encInner encSalt encMsg at hu'
      simp only [ne_eq, hz, not_false_eq_true, true_and] at hu'
      simp [hz, hu', encMsg, encInner, encSalt, encIv, packOuter]
/-- the fields of the credential a successful encode returns (cf. `C10.fieldsOf`) -/
def encFieldsOf (P : Prims) (cf : Conf) (env : Env) (e : Msg) (payload : Bytes) : Fields :=
  { cipher := e.cipher, mac := e.mac, zip := e.zip, realm := e.realm.take e.realmLen,
    iv := rndTake env.rnd MUNGE_CRED_SALT_LEN.toNat (if e.cipher = 0 then 0 else (P.ivLen e.cipher).toNat),
    salt := rndTake env.rnd 0 MUNGE_CRED_SALT_LEN.toNat, addr := cf.addr.take 4,
    time0 := e.time0, ttl := e.ttl, uid := e.clientUid, gid := e.clientGid,
    authUid := e.authUid, authGid := e.authGid, payload := payload }

def encF (P : Prims) (cf : Conf) (env : Env) (m1 : Msg) (uid gid : Nat) : Fields :=
  { cipher := m1.cipher, mac := m1.mac, zip := encZip P cf env m1 uid gid, realm := m1.realm.take m1.realmLen,
    iv := encIv P env m1.cipher, salt := encSalt env, addr := cf.addr.take 4,
    time0 := (wrapU32 env.now).toNat, ttl := m1.ttl, uid := uid, gid := gid,
    authUid := m1.authUid, authGid := m1.authGid, payload := m1.data }

theorem encFieldsOf_body (P : Prims) (cf : Conf) (env : Env) (m1 : Msg) (uid gid : Nat) :
    encFieldsOf P cf env (encBody P cf env m1 uid gid) m1.data = encF P cf env m1 uid gid := by
  rw [encBody_eq]; rfl

theorem encCred_spec (P : Prims) (cf : Conf) (env : Env) (m1 : Msg) (uid gid : Nat)
    (hd : m1.data.length = m1.dataLen) (hr : m1.realm.length = m1.realmLen) (ha : cf.addr.length = 4) :
    encCred P cf env m1 uid gid = emit P cf.macKey cf.dekKey (encF P cf env m1 uid gid) ++ [0] := by
  have hO : encOuter P cf env m1 uid gid = outer (encF P cf env m1 uid gid) := by
    unfold encOuter packOuter outer encF
    simp only [List.length_take, hr, Nat.min_self]
    rfl
  have hI : encInner cf env m1 uid gid = inner (encF P cf env m1 uid gid) := by
    unfold encInner packInner inner encF encMsg
    simp only [List.length_take, ha, Nat.min_self, ← hd, List.take_length]
    rfl
  have hP : encPlain P cf env m1 uid gid = compressed P (encF P cf env m1 uid gid) := by
    unfold encPlain compressed
    rw [← hI]
    show _ = if encZip P cf env m1 uid gid = 0 then _ else u32be 3402287818 ++ _ ++ P.deflate (encZip P cf env m1 uid gid) _
    unfold encZip
    by_cases hu : encUseZip P cf env m1 uid gid
    · simp only [hu, if_true, hu.1, if_false]; rfl
    · simp only [hu, if_false, if_true]
  unfold encCred encTag emit armor
  rw [hO, hP, armor_rfc, munge_lit, colon_lit, prefixB_eq, suffixB_eq]
  simp only [List.append_assoc]
  rfl
theorem rndTake_length (rnd : Bytes) (pos n : Nat) : (rndTake rnd pos n).length = n := by
  unfold rndTake; split <;> simp

theorem encF_WF (P : Prims) (L : PrimLaws P) (cf : Conf) (env : Env) (m : Msg) (uid gid : Nat)
    (hv : 0 ≤ (encValidate P cf m).ret)
    (hdc : cf.defCipher = 0 ∨ P.cipherValid cf.defCipher = true) (hdm : P.macValid cf.defMac = true)
    (hdz : cf.defZip = 0 ∨ P.zipValid cf.defZip = true)
    (small : cf.defCipher < 256 ∧ cf.defMac < 256 ∧ cf.defZip < 256)
    (hc : m.cipher < 256) (hmc : m.mac < 256) (hz : m.zip < 256) (hrl : m.realmLen < 255)
    (httl : m.ttl < 4294967296) (hau : m.authUid < 4294967296 ∧ m.authGid < 4294967296)
    (hid : uid < 4294967296 ∧ gid < 4294967296) (hdata : m.data.length ≤ 1048576) (ha : cf.addr.length = 4) :
    WF P (encF P cf env (applyWrites m (encValidate P cf m) "m.") uid gid) := by
  obtain ⟨v1, v2, v3, v4, v5, v6, v7, v8⟩ := encValidate_ok P cf m hv
  obtain ⟨s1, s2, s3⟩ := small
  rw [Nat.mod_eq_of_lt s1] at v1 v7
  rw [Nat.mod_eq_of_lt s2] at v2 v7
  rw [Nat.mod_eq_of_lt s3] at v3
  have hcok : (applyWrites m (encValidate P cf m) "m.").cipher = 0 ∨
      P.cipherValid (applyWrites m (encValidate P cf m) "m.").cipher = true := by
    rw [v1]; split
    · exact hdc
    · rename_i h; rcases v5 with h' | h' | h'
      · exact absurd h' h
      · exact Or.inl h'
      · exact Or.inr h'
  have hzok : (applyWrites m (encValidate P cf m) "m.").zip = 0 ∨
      P.zipValid (applyWrites m (encValidate P cf m) "m.").zip = true := by
    rw [v3]; split
    · exact Or.inl rfl
    · split
      · exact hdz
      · rename_i h; rcases v8 with h' | h' | h'
        · exact absurd h' h
        · exact Or.inl h'
        · exact Or.inr h'
  refine ⟨hcok, ?_, ?_, ?_, ?_, ?_, ?_, ?_, ?_⟩
  · show P.macValid (applyWrites m (encValidate P cf m) "m.").mac = true
    rw [v2]; split
    · exact hdm
    · rename_i h; rcases v6 with h' | h'
      · exact absurd h' h
      · exact h'
  · show P.keyLen (applyWrites m (encValidate P cf m) "m.").cipher ≤ P.macLen (applyWrites m (encValidate P cf m) "m.").mac
    rw [v1, v2]; exact v7
  · show encZip P cf env _ uid gid = 0 ∨ P.zipValid (encZip P cf env _ uid gid) = true
    unfold encZip; split
    · exact hzok
    · exact Or.inl rfl
  · show (m.realm.take m.realmLen).length < 255
    rw [List.length_take]; omega
  · show ((encIv P env (applyWrites m (encValidate P cf m) "m.").cipher).length : Int) = _
    unfold encIv; rw [rndTake_length]
    rcases hcok with h | h
    · rw [if_pos h]; show ((0 : Nat) : Int) = if (applyWrites m (encValidate P cf m) "m.").cipher = 0 then 0 else _
      rw [if_pos h]; rfl
    · have := (L.ivLen_range _ h).1
      split
      · rename_i h0; show _ = if (applyWrites m (encValidate P cf m) "m.").cipher = 0 then 0 else _
        rw [if_pos h0]; rfl
      · rename_i h0; show _ = if (applyWrites m (encValidate P cf m) "m.").cipher = 0 then 0 else _
        rw [if_neg h0]; exact Int.toNat_of_nonneg this
  · exact rndTake_length _ _ _
  · left; show (cf.addr.take 4).length = 4
    rw [List.length_take]; omega
  · have hw := wrapU32_range env.now
    refine ⟨?_, ?_, ?_, ?_, ?_, hid.1, hid.2, hau.1, hau.2, hdata⟩
    · show (applyWrites m (encValidate P cf m) "m.").cipher < 256
      rw [v1]; split <;> omega
    · show (applyWrites m (encValidate P cf m) "m.").mac < 256
      rw [v2]; split <;> omega
    · show encZip P cf env _ uid gid < 256
      unfold encZip; split
      · rw [v3]; split
        · omega
        · split <;> omega
      · omega
    · show (wrapU32 env.now).toNat < 2 ^ 32
      omega
    · show (applyWrites m (encValidate P cf m) "m.").ttl < 2 ^ 32
      have h1 := wrapU32_range cf.defTtl; have h2 := wrapU32_range cf.maxTtl
      have : ((applyWrites m (encValidate P cf m) "m.").ttl : Int) < 4294967296 := by
        rw [v4]; split
        · omega
        · split <;> omega
      omega
end

end Munge.Cred.B
