import Munge.Model.Wire
/-
Helper definitions and lemmas for C14 (message codec).  Generic over descriptor lists: the
property theorems in `Munge/Props/C14.lean` instantiate them with the lists generated from the
C source and discharge the decidable side conditions with `decide`.
-/
namespace Munge.Wire
open Munge.C Munge.Gen.Wire

/-! ### integers on the wire -/

theorem beBytes_length (w v : Nat) : (beBytes w v).length = w := by
  induction w generalizing v with
  | zero => rfl
  | succ w ih => simp [beBytes, ih]

theorem beVal_snoc (a : List UInt8) (b : UInt8) : beVal (a ++ [b]) = beVal a * 256 + b.toNat := by
  simp [beVal, List.foldl_append]

theorem beVal_beBytes (w v : Nat) : beVal (beBytes w v) = v % 256 ^ w := by
  induction w generalizing v with
  | zero => simp [beBytes, beVal, Nat.mod_one]
  | succ w ih =>
    rw [beBytes, beVal_snoc, ih, UInt8.toNat_ofNat']
    have h : 256 ^ (w + 1) = 256 * 256 ^ w := by rw [Nat.pow_succ, Nat.mul_comm]
    rw [h, Nat.mod_mul]
    omega

theorem lookup_mem {tab : List (Nat × List Fld)} {t : Nat} {fl : List Fld}
    (h : lookup tab t = some fl) : fl ∈ tab.map (·.2) := by
  unfold lookup at h
  cases hf : tab.find? (fun e => e.1 == t) with
  | none => simp [hf] at h
  | some e =>
    simp [hf] at h
    exact List.mem_map.mpr ⟨e, List.mem_of_find?_eq_some hf, h⟩

/-! ### safety of an unpack chain: the decidable `guarded` predicate and its soundness -/

/-- what is known while walking an unpack chain: `al` — pairs (pointer member, length member) such
    that the block behind the pointer has room for the current value of the length member
    (or that value is not positive); `bd` — pairs (length member, k) with current value ≤ k -/
structure Abs where
  al : List (String × String)
  bd : List (String × Nat)

/-- effect of one link on that knowledge; `none` = the link copies into a destination whose
    capacity is not known to suffice -/
def absStep (a : Abs) : Fld → Option Abs
  | .int f _ => some { al := a.al.filter (fun e => e.2 != f), bd := a.bd.filter (fun e => e.1 != f) }
  | .alloc f l => some { a with al := (f, l) :: a.al.filter (fun e => e.1 != f) }
  | .bytes f l .heap => if a.al.contains (f, l) then some a else none
  | .bytes _ l (.fixed cap) => if a.bd.any (fun e => e.1 == l && decide (e.2 ≤ cap)) then some a else none
  | .guard l .gt k => some { a with bd := (l, k) :: a.bd }
  | .guard l .ge k => some { a with bd := (l, k - 1) :: a.bd }
  | .guard l .ne k => some { a with bd := (l, k) :: a.bd }
  | .guard _ _ _ => some a
  | .var _ => some a

def guardedFrom (a : Abs) : List Fld → Bool
  | [] => true
  | f :: fs => match absStep a f with
    | none => false
    | some a' => guardedFrom a' fs

/-- every heap copy-in is preceded by the matching `_alloc` on the same, unchanged length member;
    every copy-in to an in-struct destination is preceded by a test bounding the (unchanged)
    length member by the destination's size -/
def guarded (fl : List Fld) : Bool := guardedFrom ⟨[], []⟩ fl

def Inv (a : Abs) (st : USt) : Prop :=
  (∀ e ∈ a.al, cInt (st.m.int e.2) ≤ 0 ∨ cInt (st.m.int e.2) < st.caps e.1) ∧
  (∀ e ∈ a.bd, st.m.int e.1 ≤ e.2)

/-- all logged accesses are inside the packet of `n` bytes / inside their destination -/
def Safe (n : Nat) (st : USt) : Prop :=
  (∀ r ∈ st.reads, r.1 + r.2 ≤ n) ∧ (∀ w ∈ st.writes, w.2.1 ≤ w.2.2)

theorem Safe.oob {n : Nat} {st : USt} (h : Safe n st) : st.oob n = false := by
  unfold USt.oob
  simp only [Bool.or_eq_false_iff, List.any_eq_false]
  refine ⟨fun r hr => ?_, fun w hw => ?_⟩
  · have := h.1 r hr; simp; omega
  · have := h.2 w hw; simp; omega

theorem cInt_pos_le (v : Nat) (h : 0 < cInt v) : cInt v ≤ v := by
  unfold cInt at *; unfold wrapS32 at *; omega

theorem ustep_safe (mok : Nat → Bool) (src : List UInt8) (srclen : Int) (n : Nat) (hn : srclen ≤ n)
    (a a' : Abs) (fld : Fld) (st st' : USt) (rc : Rc)
    (ha : absStep a fld = some a') (hi : Inv a st) (hs : Safe n st)
    (hr : ustep mok src srclen st fld = (rc, st')) : Safe n st' ∧ (rc = .ok → Inv a' st') := by
  cases fld with
  | int f w =>
    simp only [absStep, Option.some.injEq] at ha
    subst ha
    simp only [ustep] at hr
    split at hr
    · simp only [Prod.mk.injEq] at hr; obtain ⟨rfl, rfl⟩ := hr; exact ⟨hs, by simp⟩
    · split at hr
      · simp only [Prod.mk.injEq] at hr; obtain ⟨rfl, rfl⟩ := hr; exact ⟨hs, by simp⟩
      · simp only [Prod.mk.injEq] at hr; obtain ⟨rfl, rfl⟩ := hr
        rename_i h1 _
        refine ⟨⟨?_, hs.2⟩, fun _ => ⟨?_, ?_⟩⟩
        · intro r hr
          simp only [List.mem_append, List.mem_singleton] at hr
          rcases hr with hr | rfl
          · exact hs.1 r hr
          · simp only; omega
        · intro e he
          simp only [List.mem_filter, bne_iff_ne, ne_eq] at he
          have := hi.1 e he.1
          simpa [Msg.setInt, he.2] using this
        · intro e he
          simp only [List.mem_filter, bne_iff_ne, ne_eq] at he
          have := hi.2 e he.1
          simpa [Msg.setInt, he.2] using this
  | alloc f l =>
    simp only [absStep, Option.some.injEq] at ha
    subst ha
    simp only [ustep] at hr
    split at hr
    · simp only [Prod.mk.injEq] at hr; obtain ⟨rfl, rfl⟩ := hr
      rename_i h0
      refine ⟨hs, fun _ => ⟨?_, hi.2⟩⟩
      intro e he
      simp only [List.mem_cons, List.mem_filter, bne_iff_ne, ne_eq] at he
      rcases he with rfl | he
      · left; simp only; omega
      · exact hi.1 e he.1
    · split at hr
      · simp only [Prod.mk.injEq] at hr; obtain ⟨rfl, rfl⟩ := hr; exact ⟨hs, by simp⟩
      · split at hr
        · simp only [Prod.mk.injEq] at hr; obtain ⟨rfl, rfl⟩ := hr; exact ⟨hs, by simp⟩
        · simp only [Prod.mk.injEq] at hr; obtain ⟨rfl, rfl⟩ := hr
          refine ⟨hs, fun _ => ⟨?_, ?_⟩⟩
          · intro e he
            simp only [List.mem_cons, List.mem_filter, bne_iff_ne, ne_eq] at he
            rcases he with rfl | he
            · right; simp [Msg.setBuf]; omega
            · have := hi.1 e he.1
              simpa [Msg.setBuf, he.2] using this
          · intro e he
            have := hi.2 e he
            simpa [Msg.setBuf] using this
  | bytes f l d =>
    simp only [ustep] at hr
    split at hr
    · simp only [Prod.mk.injEq] at hr; obtain ⟨rfl, rfl⟩ := hr; exact ⟨hs, by simp⟩
    · split at hr
      · simp only [Prod.mk.injEq] at hr; obtain ⟨rfl, rfl⟩ := hr
        refine ⟨hs, fun _ => ?_⟩
        cases d <;> simp only [absStep] at ha <;> split at ha <;> simp at ha <;> subst ha <;> exact hi
      · split at hr
        · simp only [Prod.mk.injEq] at hr; obtain ⟨rfl, rfl⟩ := hr; exact ⟨hs, by simp⟩
        · rename_i hneg hzero hfit
          cases d with
          | heap =>
            simp only [Prod.mk.injEq] at hr; obtain ⟨rfl, rfl⟩ := hr
            simp only [absStep] at ha
            split at ha
            · simp only [Option.some.injEq] at ha; subst ha
              rename_i hc
              have hmem : (f, l) ∈ a.al := by simpa using hc
              have hcap := hi.1 _ hmem
              refine ⟨⟨?_, ?_⟩, fun _ => ⟨?_, ?_⟩⟩
              · intro r hr
                simp only [List.mem_append, List.mem_singleton] at hr
                rcases hr with hr | rfl
                · exact hs.1 r hr
                · simp only; omega
              · intro w hw
                simp only [List.mem_append, List.mem_singleton] at hw
                rcases hw with hw | rfl
                · exact hs.2 w hw
                · simp only at hcap ⊢; omega
              · intro e he; have := hi.1 e he; simpa [Msg.setBuf] using this
              · intro e he; have := hi.2 e he; simpa [Msg.setBuf] using this
            · simp at ha
          | fixed cap =>
            simp only [Prod.mk.injEq] at hr; obtain ⟨rfl, rfl⟩ := hr
            simp only [absStep] at ha
            split at ha
            · simp only [Option.some.injEq] at ha; subst ha
              rename_i hc
              simp only [List.any_eq_true, Bool.and_eq_true, beq_iff_eq, decide_eq_true_eq] at hc
              obtain ⟨e, he, hel, hek⟩ := hc
              have hb := hi.2 e he
              have hpos : 0 < cInt (st.m.int l) := by omega
              have hle := cInt_pos_le _ hpos
              refine ⟨⟨?_, ?_⟩, fun _ => ⟨?_, ?_⟩⟩
              · intro r hr
                simp only [List.mem_append, List.mem_singleton] at hr
                rcases hr with hr | rfl
                · exact hs.1 r hr
                · simp only; omega
              · intro w hw
                simp only [List.mem_append, List.mem_singleton] at hw
                rcases hw with hw | rfl
                · exact hs.2 w hw
                · simp only; rw [hel] at hb; omega
              · intro e he; have := hi.1 e he; simpa [Msg.setFix] using this
              · intro e he; have := hi.2 e he; simpa [Msg.setFix] using this
            · simp at ha
  | guard l c k =>
    simp only [ustep] at hr
    split at hr
    · simp only [Prod.mk.injEq] at hr; obtain ⟨rfl, rfl⟩ := hr; exact ⟨hs, by simp⟩
    · simp only [Prod.mk.injEq] at hr; obtain ⟨rfl, rfl⟩ := hr
      rename_i hc
      refine ⟨hs, fun _ => ?_⟩
      cases c <;> simp only [absStep, Option.some.injEq] at ha <;> subst ha <;>
        simp only [Cmp.eval, decide_eq_true_eq] at hc <;>
        first
          | exact hi
          | (refine ⟨hi.1, ?_⟩
             intro e he
             simp only [List.mem_cons] at he
             rcases he with rfl | he
             · simp only; omega
             · exact hi.2 e he)
  | var l =>
    simp only [ustep, Prod.mk.injEq] at hr; obtain ⟨rfl, rfl⟩ := hr; exact ⟨hs, by simp⟩

theorem urun_safe (mok : Nat → Bool) (src : List UInt8) (srclen : Int) (n : Nat) (hn : srclen ≤ n) :
    ∀ (fl : List Fld) (a : Abs) (st st' : USt) (rc : Rc),
      guardedFrom a fl = true → Inv a st → Safe n st →
      urun mok src srclen fl st = (rc, st') → Safe n st' := by
  intro fl
  induction fl with
  | nil =>
    intro a st st' rc _ _ hs hr
    simp only [urun, Prod.mk.injEq] at hr
    obtain ⟨_, rfl⟩ := hr
    exact hs
  | cons fld fs ih =>
    intro a st st' rc hg hi hs hr
    simp only [guardedFrom] at hg
    cases ha : absStep a fld with
    | none => simp [ha] at hg
    | some a1 =>
      simp only [ha] at hg
      simp only [urun] at hr
      cases hu : ustep mok src srclen st fld with
      | mk rc1 st1 =>
        have h1 := ustep_safe mok src srclen n hn a a1 fld st st1 rc1 ha hi hs hu
        rw [hu] at hr
        cases rc1 with
        | ok => exact ih a1 st1 st' rc hg (h1.2 rfl) h1.1 hr
        | err => simp only [Prod.mk.injEq] at hr; obtain ⟨_, rfl⟩ := hr; exact h1.1
        | nomem => simp only [Prod.mk.injEq] at hr; obtain ⟨_, rfl⟩ := hr; exact h1.1

theorem Safe_init (n : Nat) (m : Msg) : Safe n (USt.init m) := by
  simp [Safe, USt.init]

theorem Inv_init (m : Msg) : Inv ⟨[], []⟩ (USt.init m) := by
  simp [Inv]

/-- the logs of `unpack` are those of its chain (the exits only touch the message) -/
theorem unpack_logs (mok : Nat → Bool) (t : Nat) (m : Msg) (src : List UInt8) (srclen : Int) :
    (lookup unpackTable t = none ∧ (unpack mok t m src srclen).2.reads = [] ∧ (unpack mok t m src srclen).2.writes = []) ∨
    (∃ fl rc st, lookup unpackTable t = some fl ∧ urun mok src srclen fl (USt.init m) = (rc, st) ∧
      (unpack mok t m src srclen).2.reads = st.reads ∧ (unpack mok t m src srclen).2.writes = st.writes) := by
  unfold unpack
  cases hl : lookup unpackTable t with
  | none => left; simp [USt.init]
  | some fl =>
    right
    cases hu : urun mok src srclen fl (USt.init m) with
    | mk rc st =>
      refine ⟨fl, rc, st, rfl, hu, ?_⟩
      simp only [hu]
      cases rc with
      | ok =>
        simp only
        split
        · split <;> simp
        · simp
      | err => simp
      | nomem => simp

/-- generic safety: if every list of the table is `guarded`, no unpack — of any type code, of any
    byte string, whatever `malloc` does — reads outside the packet or writes outside a destination -/
theorem unpack_safe_of_guarded (hg : ∀ fl ∈ unpackTable.map (·.2), guarded fl = true)
    (mok : Nat → Bool) (t : Nat) (m : Msg) (src : List UInt8) (srclen : Int) (n : Nat) (hn : srclen ≤ n) :
    Safe n (unpack mok t m src srclen).2 := by
  rcases unpack_logs mok t m src srclen with ⟨_, hr, hw⟩ | ⟨fl, rc, st, hl, hu, hr, hw⟩
  · simp [Safe, hr, hw]
  · have := urun_safe mok src srclen n hn fl ⟨[], []⟩ (USt.init m) st rc (hg fl (lookup_mem hl)) (Inv_init m)
      (Safe_init n m) hu
    simpa [Safe, hr, hw] using this

/-! ### round trip: what a chain contributes to the packet, and what the other side makes of it -/

/-- bytes one link contributes to the packet -/
def chunk (m : Msg) : Fld → List UInt8
  | .int f w => beBytes w (m.int f)
  | .bytes f l d => (m.bytesOf f d).take (m.int l)
  | _ => []

def chunks (m : Msg) : List Fld → List UInt8
  | [] => []
  | f :: fs => chunk m f ++ chunks m fs

/-- the message fits link `fld`: integer members fit their width, lengths fit an `int` and do not
    exceed what the member holds, interposed tests do not fire -/
def fldOk (m : Msg) : Fld → Prop
  | .int f w => m.int f < 256 ^ w
  | .bytes f l d => m.int l < 2147483648 ∧ m.int l ≤ (m.bytesOf f d).length
  | .guard l c k => c.eval (m.int l) k = false
  | .alloc _ _ => True
  | .var _ => True

/-- a pack chain consists of `_pack` (width 1, 2 or 4), `_copy` and tests only -/
def packable : List Fld → Bool
  | [] => true
  | .int _ w :: fs => okWidth w && packable fs
  | .bytes _ _ _ :: fs => packable fs
  | .guard _ _ _ :: fs => packable fs
  | _ :: _ => false

/-- the links that move data -/
def core : List Fld → List Fld
  | [] => []
  | .int f w :: fs => .int f w :: core fs
  | .bytes f l d :: fs => .bytes f l d :: core fs
  | _ :: fs => core fs

theorem chunks_core (m : Msg) (fl : List Fld) : chunks m (core fl) = chunks m fl := by
  induction fl with
  | nil => rfl
  | cons f fs ih => cases f <;> simp [core, chunks, chunk, ih]

theorem cInt_small {v : Nat} (h : v < 2147483648) : cInt v = v := by
  unfold cInt wrapS32; omega

theorem prun_ok (dstlen : Int) (m : Msg) :
    ∀ (P : List Fld) (out : List UInt8), packable P = true → (∀ fld ∈ P, fldOk m fld) →
      ((out.length + (chunks m P).length : Nat) : Int) ≤ dstlen →
      prun dstlen m P out = (.ok, out ++ chunks m P) := by
  intro P
  induction P with
  | nil => intro out _ _ _; simp [prun, chunks]
  | cons fld fs ih =>
    intro out hp hok hlen
    have hfs : ∀ f ∈ fs, fldOk m f := fun f hf => hok f (List.mem_cons_of_mem _ hf)
    have hfld := hok fld List.mem_cons_self
    cases fld with
    | int f w =>
      simp only [packable, Bool.and_eq_true] at hp
      simp only [chunks, chunk, List.length_append, beBytes_length] at hlen
      have h1 : ¬ ((out.length : Int) + (w : Int) > dstlen) := by omega
      have hstep : pstep dstlen m out (.int f w) = (.ok, out ++ beBytes w (m.int f)) := by
        simp [pstep, h1, hp.1]
      rw [prun, hstep]
      simp only
      rw [ih (out ++ beBytes w (m.int f)) hp.2 hfs (by simp [beBytes_length]; omega)]
      simp [chunks, chunk]
    | bytes f l d =>
      simp only [packable] at hp
      simp only [fldOk] at hfld
      have hc := cInt_small hfld.1
      have htl : ((m.bytesOf f d).take (m.int l)).length = m.int l := by
        simp [List.length_take]; omega
      simp only [chunks, chunk, List.length_append, htl] at hlen
      by_cases h0 : m.int l = 0
      · have hstep : pstep dstlen m out (.bytes f l d) = (.ok, out) := by
          have hc0 : cInt (m.int l) = 0 := by rw [hc]; omega
          simp [pstep, hc0]
        rw [prun, hstep]
        simp only
        rw [ih out hp hfs (by omega)]
        simp [chunks, chunk, h0]
      · have hstep : pstep dstlen m out (.bytes f l d) = (.ok, out ++ (m.bytesOf f d).take (m.int l)) := by
          have h2 : ¬ ((out.length : Int) + (m.int l : Int) > dstlen) := by omega
          have h3 : ¬ ((m.int l : Int) < 0) := by omega
          have h4 : ¬ ((m.int l : Int) = 0) := by omega
          simp only [pstep, hc, if_neg h3, if_neg h4, if_neg h2, Int.toNat_natCast]
        rw [prun, hstep]
        simp only
        rw [ih _ hp hfs (by simp [htl]; omega)]
        simp [chunks, chunk]
    | guard l c k =>
      simp only [packable] at hp
      simp only [fldOk] at hfld
      have hstep : pstep dstlen m out (.guard l c k) = (.ok, out) := by simp [pstep, hfld]
      simp only [chunks, chunk, List.nil_append] at hlen
      rw [prun, hstep]
      simp only
      rw [ih out hp hfs hlen]
      simp [chunks, chunk]
    | alloc f l => simp [packable] at hp
    | var l => simp [packable] at hp

/-! #### `_msg_length` -/

def lenShape : Fld → Option (Nat ⊕ String)
  | .int _ w => some (.inl w)
  | .bytes _ l _ => some (.inr l)
  | .var l => some (.inr l)
  | _ => none

def shapeSum (m : Msg) : List (Nat ⊕ String) → Nat
  | [] => 0
  | .inl w :: r => w + shapeSum m r
  | .inr l :: r => m.int l + shapeSum m r

/-- a length list consists of `n += sizeof …` and `n += m->len` only -/
def lengthList : List Fld → Bool
  | [] => true
  | .int _ _ :: fs => lengthList fs
  | .var _ :: fs => lengthList fs
  | _ :: _ => false

theorem chunks_length (m : Msg) : ∀ (P : List Fld), packable P = true → (∀ fld ∈ P, fldOk m fld) →
    (chunks m P).length = shapeSum m (P.filterMap lenShape) := by
  intro P
  induction P with
  | nil => intro _ _; rfl
  | cons fld fs ih =>
    intro hp hok
    have hfld := hok fld List.mem_cons_self
    have hok' : ∀ f ∈ fs, fldOk m f := fun f hf => hok f (List.mem_cons_of_mem _ hf)
    cases fld with
    | int f w =>
      simp only [packable, Bool.and_eq_true] at hp
      simp [chunks, chunk, lenShape, shapeSum, beBytes_length, ih hp.2 hok']
    | bytes f l d =>
      simp only [packable] at hp
      simp only [fldOk] at hfld
      simp [chunks, chunk, lenShape, shapeSum, ih hp hok', List.length_take]; omega
    | guard l c k =>
      simp only [packable] at hp
      simp [chunks, chunk, lenShape, List.filterMap_cons, ih hp hok']
    | alloc f l => simp [packable] at hp
    | var l => simp [packable] at hp

theorem lengthRun_eq (m : Msg) : ∀ (L : List Fld) (n : Int), lengthList L = true → 0 ≤ n →
    n + (shapeSum m (L.filterMap lenShape) : Nat) < 2147483648 →
    lengthRun m L n = n + (shapeSum m (L.filterMap lenShape) : Nat) := by
  intro L
  induction L with
  | nil => intro n _ _ _; simp [lengthRun, shapeSum]
  | cons fld fs ih =>
    intro n hl h0 hlt
    cases fld with
    | int f w =>
      simp only [lengthList] at hl
      simp only [List.filterMap_cons, lenShape, shapeSum] at hlt ⊢
      have hw : wrapS32 (n + (w : Int)) = n + w := by unfold wrapS32; omega
      rw [lengthRun, hw, ih _ hl (by omega) (by omega)]
      omega
    | var l =>
      simp only [lengthList] at hl
      simp only [List.filterMap_cons, lenShape, shapeSum] at hlt ⊢
      have hw : wrapS32 (n + (m.int l : Int)) = n + m.int l := by unfold wrapS32; omega
      rw [lengthRun, hw, ih _ hl (by omega) (by omega)]
      omega
    | bytes f l d => simp [lengthList] at hl
    | guard l c k => simp [lengthList] at hl
    | alloc f l => simp [lengthList] at hl

/-! #### the unpack chain applied to what the pack chain produced -/

/-- every length member used by a link has been unpacked earlier in the chain (so the receiver acts
    on the sender's value), widths are ones `_unpack` handles, no length-list-only descriptor -/
def seenOk (S : List String) : List Fld → Bool
  | [] => true
  | .int f w :: fs => okWidth w && seenOk (f :: S) fs
  | .alloc _ l :: fs => S.contains l && seenOk S fs
  | .bytes _ l _ :: fs => S.contains l && seenOk S fs
  | .guard l _ _ :: fs => S.contains l && seenOk S fs
  | .var _ :: _ => false

def touches (f : String) : Fld → Bool
  | .alloc g _ => g == f
  | .bytes g _ _ => g == f
  | _ => false

/-- once a variable-length member has been filled, no later link allocates or fills it again -/
def noClobber : List Fld → Bool
  | [] => true
  | .bytes f _ _ :: fs => !(fs.any (touches f)) && noClobber fs
  | _ :: fs => noClobber fs

/-- link `fld` of message `m'` carries the value it has in `m` (a variable-length member is
    compared over its length) -/
def got (m m' : Msg) : Fld → Prop
  | .int f _ => m'.int f = m.int f
  | .bytes f l d => (m'.bytesOf f d).take (m.int l) = (m.bytesOf f d).take (m.int l)
  | _ => True

/-- the receiver's side condition on a link (as `fldOk`, plus: an `_alloc` length fits an `int`) -/
def ufldOk (m : Msg) : Fld → Prop
  | .alloc _ l => m.int l < 2147483648
  | fld => fldOk m fld

theorem ustep_frame (mok : Nat → Bool) (src : List UInt8) (srclen : Int) (f : String) (fld : Fld)
    (st st' : USt) (rc : Rc) (ht : touches f fld = false)
    (hr : ustep mok src srclen st fld = (rc, st')) :
    st'.m.buf f = st.m.buf f ∧ st'.m.fix f = st.m.fix f := by
  cases fld with
  | int g w =>
    simp only [ustep] at hr
    split at hr
    · simp only [Prod.mk.injEq] at hr; obtain ⟨_, rfl⟩ := hr; exact ⟨rfl, rfl⟩
    · split at hr <;> (simp only [Prod.mk.injEq] at hr; obtain ⟨_, rfl⟩ := hr) <;> simp [Msg.setInt]
  | alloc g l =>
    simp only [touches, beq_eq_false_iff_ne, ne_eq] at ht
    have hne : ¬ f = g := fun h => ht h.symm
    simp only [ustep] at hr
    split at hr
    · simp only [Prod.mk.injEq] at hr; obtain ⟨_, rfl⟩ := hr; exact ⟨rfl, rfl⟩
    · split at hr
      · simp only [Prod.mk.injEq] at hr; obtain ⟨_, rfl⟩ := hr; exact ⟨rfl, rfl⟩
      · split at hr <;> (simp only [Prod.mk.injEq] at hr; obtain ⟨_, rfl⟩ := hr) <;>
          simp [Msg.setBuf, hne]
  | bytes g l d =>
    simp only [touches, beq_eq_false_iff_ne, ne_eq] at ht
    have hne : ¬ f = g := fun h => ht h.symm
    simp only [ustep] at hr
    split at hr
    · simp only [Prod.mk.injEq] at hr; obtain ⟨_, rfl⟩ := hr; exact ⟨rfl, rfl⟩
    · split at hr
      · simp only [Prod.mk.injEq] at hr; obtain ⟨_, rfl⟩ := hr; exact ⟨rfl, rfl⟩
      · split at hr
        · simp only [Prod.mk.injEq] at hr; obtain ⟨_, rfl⟩ := hr; exact ⟨rfl, rfl⟩
        · cases d <;> (simp only [Prod.mk.injEq] at hr; obtain ⟨_, rfl⟩ := hr) <;>
            simp [Msg.setBuf, Msg.setFix, hne]
  | guard l c k =>
    simp only [ustep] at hr
    split at hr <;> (simp only [Prod.mk.injEq] at hr; obtain ⟨_, rfl⟩ := hr) <;> exact ⟨rfl, rfl⟩
  | var l =>
    simp only [ustep, Prod.mk.injEq] at hr; obtain ⟨_, rfl⟩ := hr; exact ⟨rfl, rfl⟩

theorem urun_frame (mok : Nat → Bool) (src : List UInt8) (srclen : Int) (f : String) :
    ∀ (fs : List Fld) (st st' : USt) (rc : Rc), fs.any (touches f) = false →
      urun mok src srclen fs st = (rc, st') →
      st'.m.buf f = st.m.buf f ∧ st'.m.fix f = st.m.fix f := by
  intro fs
  induction fs with
  | nil =>
    intro st st' rc _ hr
    simp only [urun, Prod.mk.injEq] at hr; obtain ⟨_, rfl⟩ := hr; exact ⟨rfl, rfl⟩
  | cons fld fs ih =>
    intro st st' rc ht hr
    simp only [List.any_cons, Bool.or_eq_false_iff] at ht
    simp only [urun] at hr
    cases hu : ustep mok src srclen st fld with
    | mk rc1 st1 =>
      have h1 := ustep_frame mok src srclen f fld st st1 rc1 ht.1 hu
      rw [hu] at hr
      cases rc1 with
      | ok =>
        have h2 := ih st1 st' rc ht.2 hr
        exact ⟨h2.1.trans h1.1, h2.2.trans h1.2⟩
      | err => simp only [Prod.mk.injEq] at hr; obtain ⟨_, rfl⟩ := hr; exact h1
      | nomem => simp only [Prod.mk.injEq] at hr; obtain ⟨_, rfl⟩ := hr; exact h1

theorem bytesOf_congr {m m' : Msg} {f : String} (h : m'.buf f = m.buf f ∧ m'.fix f = m.fix f) (d : Dest) :
    m'.bytesOf f d = m.bytesOf f d := by
  cases d <;> simp [Msg.bytesOf, h.1, h.2]

theorem urun_chunks (mok : Nat → Bool) (hmok : ∀ n, mok n = true) (m : Msg) (src : List UInt8) :
    ∀ (U : List Fld) (S : List String) (st : USt) (pre post : List UInt8),
      seenOk S U = true → noClobber U = true → (∀ fld ∈ U, ufldOk m fld) →
      (∀ f ∈ S, st.m.int f = m.int f) → st.p = pre.length → src = pre ++ (chunks m U ++ post) →
      ∃ st', urun mok src (src.length : Int) U st = (.ok, st') ∧
        (∀ f ∈ S, st'.m.int f = m.int f) ∧ (∀ fld ∈ U, got m st'.m fld) := by
  intro U
  induction U with
  | nil =>
    intro S st pre post _ _ _ hS _ _
    exact ⟨st, by simp [urun], hS, by simp⟩
  | cons fld fs ih =>
    intro S st pre post hseen hclob hok hS hp hsrc
    have hokfs : ∀ f ∈ fs, ufldOk m f := fun f hf => hok f (List.mem_cons_of_mem _ hf)
    have hfld := hok fld List.mem_cons_self
    cases fld with
    | int f w =>
      simp only [seenOk, Bool.and_eq_true] at hseen
      simp only [noClobber] at hclob
      simp only [ufldOk, fldOk] at hfld
      simp only [chunks, chunk] at hsrc
      have hlen : src.length = pre.length + (w + ((chunks m fs).length + post.length)) := by
        rw [hsrc]; simp [beBytes_length]
      have hdata : (src.drop st.p).take w = beBytes w (m.int f) := by
        rw [hsrc, hp, List.drop_left', List.append_assoc]
        · exact List.take_left' (beBytes_length _ _)
        · rfl
      have hstep : ustep mok src (src.length : Int) st (.int f w) =
          (.ok, { st with m := st.m.setInt f (m.int f), p := st.p + w, reads := st.reads ++ [(st.p, w)] }) := by
        have h1 : ¬ ((st.p : Int) + (w : Int) > (src.length : Int)) := by omega
        simp only [ustep, if_neg h1, hseen.1, Bool.not_true, Bool.false_eq_true, if_false, hdata, beVal_beBytes,
          Nat.mod_eq_of_lt hfld]
      obtain ⟨st', hrun, hS', hgot⟩ := ih (f :: S)
        { st with m := st.m.setInt f (m.int f), p := st.p + w, reads := st.reads ++ [(st.p, w)] }
        (pre ++ beBytes w (m.int f)) post hseen.2 hclob hokfs
        (by
          intro g hg
          simp only [List.mem_cons] at hg
          by_cases hgf : g = f
          · simp [Msg.setInt, hgf]
          · rcases hg with hg | hg
            · exact absurd hg hgf
            · simp [Msg.setInt, hgf, hS g hg])
        (by simp [hp, beBytes_length]) (by rw [hsrc]; simp)
      refine ⟨st', ?_, fun g hg => hS' g (List.mem_cons_of_mem _ hg), ?_⟩
      · rw [urun, hstep]; exact hrun
      · intro fld hmem
        simp only [List.mem_cons] at hmem
        rcases hmem with rfl | hmem
        · exact hS' f List.mem_cons_self
        · exact hgot fld hmem
    | alloc f l =>
      simp only [seenOk, Bool.and_eq_true, List.contains_iff_mem] at hseen
      simp only [noClobber] at hclob
      simp only [ufldOk] at hfld
      simp only [chunks, chunk, List.nil_append] at hsrc
      have hl : st.m.int l = m.int l := hS l hseen.1
      have hc : cInt (st.m.int l) = m.int l := by rw [hl]; exact cInt_small hfld
      by_cases h0 : m.int l = 0
      · have hstep : ustep mok src (src.length : Int) st (.alloc f l) = (.ok, st) := by
          have hc0 : cInt (st.m.int l) = 0 := by rw [hc]; omega
          simp [ustep, hc0]
        obtain ⟨st', hrun, hS', hgot⟩ := ih S st pre post hseen.2 hclob hokfs hS hp hsrc
        refine ⟨st', by rw [urun, hstep]; exact hrun, hS', ?_⟩
        intro fld hmem
        simp only [List.mem_cons] at hmem
        rcases hmem with rfl | hmem
        · trivial
        · exact hgot fld hmem
      · have h3 : ¬ ((m.int l : Int) < 0) := by omega
        have h4 : ¬ ((m.int l : Int) = 0) := by omega
        have hstep : ustep mok src (src.length : Int) st (.alloc f l) =
            (.ok, { st with m := st.m.setBuf f (some []),
                            caps := fun k => if k = f then m.int l + 1 else st.caps k,
                            allocs := st.allocs ++ [(f, m.int l + 1)] }) := by
          simp only [ustep, hc, if_neg h3, if_neg h4, Int.toNat_natCast, hmok, Bool.not_true, Bool.false_eq_true,
            if_false]
        obtain ⟨st', hrun, hS', hgot⟩ := ih S
          { st with m := st.m.setBuf f (some []),
                    caps := fun k => if k = f then m.int l + 1 else st.caps k,
                    allocs := st.allocs ++ [(f, m.int l + 1)] } pre post hseen.2 hclob hokfs
          (by intro g hg; simpa [Msg.setBuf] using hS g hg) hp hsrc
        refine ⟨st', by rw [urun, hstep]; exact hrun, hS', ?_⟩
        intro fld hmem
        simp only [List.mem_cons] at hmem
        rcases hmem with rfl | hmem
        · trivial
        · exact hgot fld hmem
    | bytes f l d =>
      simp only [seenOk, Bool.and_eq_true, List.contains_iff_mem] at hseen
      simp only [noClobber, Bool.and_eq_true, Bool.not_eq_true'] at hclob
      simp only [ufldOk, fldOk] at hfld
      simp only [chunks, chunk] at hsrc
      have hl : st.m.int l = m.int l := hS l hseen.1
      have hc : cInt (st.m.int l) = m.int l := by rw [hl]; exact cInt_small hfld.1
      have htl : ((m.bytesOf f d).take (m.int l)).length = m.int l := by
        simp [List.length_take]; omega
      by_cases h0 : m.int l = 0
      · have hstep : ustep mok src (src.length : Int) st (.bytes f l d) = (.ok, st) := by
          have hc0 : cInt (st.m.int l) = 0 := by rw [hc]; omega
          simp [ustep, hc0]
        obtain ⟨st', hrun, hS', hgot⟩ := ih S st pre post hseen.2 hclob.2 hokfs hS hp
          (by rw [hsrc]; simp [h0])
        refine ⟨st', by rw [urun, hstep]; exact hrun, hS', ?_⟩
        intro fld hmem
        simp only [List.mem_cons] at hmem
        rcases hmem with rfl | hmem
        · simp [got, h0]
        · exact hgot fld hmem
      · have hlen : src.length = pre.length + (m.int l + ((chunks m fs).length + post.length)) := by
          rw [hsrc]; simp [htl]
        have hdata : (src.drop st.p).take (m.int l) = (m.bytesOf f d).take (m.int l) := by
          rw [hsrc, hp, List.drop_left', List.append_assoc]
          · exact List.take_left' htl
          · rfl
        have h2 : ¬ ((st.p : Int) + (m.int l : Int) > (src.length : Int)) := by omega
        have h3 : ¬ ((m.int l : Int) < 0) := by omega
        have h4 : ¬ ((m.int l : Int) = 0) := by omega
        cases d with
        | heap =>
          have hstep : ustep mok src (src.length : Int) st (.bytes f l .heap) =
              (.ok, { st with m := st.m.setBuf f (some ((m.bytesOf f .heap).take (m.int l))), p := st.p + m.int l,
                              reads := st.reads ++ [(st.p, m.int l)],
                              writes := st.writes ++ [(f, m.int l, st.caps f)] }) := by
            simp only [ustep, hc, if_neg h3, if_neg h4, if_neg h2, Int.toNat_natCast, hdata]
          obtain ⟨st', hrun, hS', hgot⟩ := ih S
            { st with m := st.m.setBuf f (some ((m.bytesOf f .heap).take (m.int l))), p := st.p + m.int l,
                      reads := st.reads ++ [(st.p, m.int l)],
                      writes := st.writes ++ [(f, m.int l, st.caps f)] }
            (pre ++ (m.bytesOf f .heap).take (m.int l)) post hseen.2 hclob.2
            hokfs (by intro g hg; simpa [Msg.setBuf] using hS g hg) (by simp [hp, htl]) (by rw [hsrc]; simp)
          refine ⟨st', by rw [urun, hstep]; exact hrun, hS', ?_⟩
          intro fld hmem
          simp only [List.mem_cons] at hmem
          rcases hmem with rfl | hmem
          · have hfr := urun_frame mok src (src.length : Int) f fs _ st' .ok hclob.1 hrun
            simp only [got]
            rw [bytesOf_congr hfr]
            simp [Msg.bytesOf, Msg.setBuf, List.take_take]
          · exact hgot fld hmem
        | fixed cap =>
          have hstep : ustep mok src (src.length : Int) st (.bytes f l (.fixed cap)) =
              (.ok, { st with m := st.m.setFix f ((m.bytesOf f (.fixed cap)).take (m.int l) ++ (st.m.fix f).drop (m.int l)),
                              p := st.p + m.int l,
                              reads := st.reads ++ [(st.p, m.int l)],
                              writes := st.writes ++ [(f, m.int l, cap)] }) := by
            simp only [ustep, hc, if_neg h3, if_neg h4, if_neg h2, Int.toNat_natCast, hdata]
          obtain ⟨st', hrun, hS', hgot⟩ := ih S
            { st with m := st.m.setFix f ((m.bytesOf f (.fixed cap)).take (m.int l) ++ (st.m.fix f).drop (m.int l)),
                      p := st.p + m.int l,
                      reads := st.reads ++ [(st.p, m.int l)],
                      writes := st.writes ++ [(f, m.int l, cap)] }
            (pre ++ (m.bytesOf f (.fixed cap)).take (m.int l)) post hseen.2 hclob.2
            hokfs (by intro g hg; simpa [Msg.setFix] using hS g hg) (by simp [hp, htl]) (by rw [hsrc]; simp)
          refine ⟨st', by rw [urun, hstep]; exact hrun, hS', ?_⟩
          intro fld hmem
          simp only [List.mem_cons] at hmem
          rcases hmem with rfl | hmem
          · have hfr := urun_frame mok src (src.length : Int) f fs _ st' .ok hclob.1 hrun
            simp only [got]
            rw [bytesOf_congr hfr]
            have htl' : ((m.fix f).take (m.int l)).length = m.int l := htl
            simp only [Msg.bytesOf, Msg.setFix, if_true]
            rw [List.take_left' htl']
          · exact hgot fld hmem
    | guard l c k =>
      simp only [seenOk, Bool.and_eq_true, List.contains_iff_mem] at hseen
      simp only [noClobber] at hclob
      simp only [ufldOk, fldOk] at hfld
      simp only [chunks, chunk, List.nil_append] at hsrc
      have hl : st.m.int l = m.int l := hS l hseen.1
      have hstep : ustep mok src (src.length : Int) st (.guard l c k) = (.ok, st) := by
        simp [ustep, hl, hfld]
      obtain ⟨st', hrun, hS', hgot⟩ := ih S st pre post hseen.2 hclob hokfs hS hp hsrc
      refine ⟨st', by rw [urun, hstep]; exact hrun, hS', ?_⟩
      intro fld hmem
      simp only [List.mem_cons] at hmem
      rcases hmem with rfl | hmem
      · trivial
      · exact hgot fld hmem
    | var l => simp [seenOk] at hseen

/-! #### putting the three functions together for one message type -/

def isIntNamed (f : String) : Fld → Bool
  | .int g _ => g == f
  | _ => false

/-- what the round-trip proof needs from the three lists of one message type (decidable) -/
def typeOk (L P U : List Fld) : Bool :=
  lengthList L && packable P && decide (core P = core U) &&
  decide (L.filterMap lenShape = P.filterMap lenShape) && seenOk [] U && noClobber U

/-- the header checks after the switch test locals the chain has unpacked, against the very values
    `_msg_pack` initialises them with -/
def postOk (U : List Fld) : Bool :=
  postChecks.all (fun c => U.any (isIntNamed c.1) && packInits.contains (c.1, c.2.1))

theorem setInt_self (m : Msg) (k : String) (v : Nat) (h : m.int k = v) : m.setInt k v = m := by
  cases m with
  | mk i b f =>
    simp only [Msg.setInt, Msg.mk.injEq, and_true]
    funext k'
    by_cases hk : k' = k
    · simp [hk]; exact h.symm
    · simp [hk]

theorem foldl_setInt_self : ∀ (inits : List (String × Nat)) (m : Msg), (∀ e ∈ inits, m.int e.1 = e.2) →
    inits.foldl (fun m e => m.setInt e.1 e.2) m = m := by
  intro inits
  induction inits with
  | nil => intro m _; rfl
  | cons e es ih =>
    intro m h
    simp only [List.foldl_cons]
    rw [setInt_self m e.1 e.2 (h e List.mem_cons_self)]
    exact ih m (fun e' he' => h e' (List.mem_cons_of_mem _ he'))

theorem withLocals_self (m : Msg) (h : ∀ e ∈ packInits, m.int e.1 = e.2) : withLocals m = m :=
  foldl_setInt_self packInits m h

theorem postFail_none (m : Msg) : ∀ (cs : List (String × Nat × Nat × Nat)), (∀ c ∈ cs, m.int c.1 = c.2.1) →
    postFail m cs = none := by
  intro cs
  induction cs with
  | nil => intro _; rfl
  | cons c cs ih =>
    intro h
    obtain ⟨l, v, e, r⟩ := c
    have := h (l, v, e, r) List.mem_cons_self
    simp only at this
    simp only [postFail, ne_eq, this, not_true_eq_false, if_false]
    exact ih (fun c hc => h c (List.mem_cons_of_mem _ hc))

/-- the message is one a sender may hold for lists `P` (pack) and `U` (unpack): the header locals
    have the values `_msg_pack` gives them, every link is satisfiable, the size fits an `int` -/
def WellFormedFor (P U : List Fld) (m : Msg) : Prop :=
  (∀ e ∈ packInits, m.int e.1 = e.2) ∧ (∀ fld ∈ P, fldOk m fld) ∧ (∀ fld ∈ U, ufldOk m fld) ∧
  shapeSum m (P.filterMap lenShape) < 2147483648

theorem roundtrip_gen (mok : Nat → Bool) (hmok : ∀ n, mok n = true) (t : Nat) (L P U : List Fld)
    (hL : lookup lengthTable t = some L) (hP : lookup packTable t = some P) (hU : lookup unpackTable t = some U)
    (hok : typeOk L P U = true) (hpost : t = postCheckType → postOk U = true)
    (m m0 : Msg) (hwf : WellFormedFor P U m) (extra : List UInt8) :
    length t m = ((chunks m P).length : Nat) ∧
    pack t m (length t m) = (packOk, m, chunks m P) ∧
    ∃ st, unpack mok t m0 (chunks m P ++ extra) ((chunks m P ++ extra).length : Nat) = (unpackOk, st) ∧
      ∀ fld ∈ U, got m st.m fld := by
  simp only [typeOk, Bool.and_eq_true, decide_eq_true_eq] at hok
  obtain ⟨⟨⟨⟨⟨hLL, hPk⟩, hcore⟩, hshape⟩, hseen⟩, hclob⟩ := hok
  obtain ⟨hloc, hPok, hUok, hsize⟩ := hwf
  have hlenP := chunks_length m P hPk hPok
  have hlen : length t m = ((chunks m P).length : Nat) := by
    unfold length
    rw [hL]
    simp only
    rw [lengthRun_eq m L 0 hLL (Int.le_refl 0) (by rw [hshape]; omega), hshape, hlenP]
    omega
  refine ⟨hlen, ?_, ?_⟩
  · unfold pack
    rw [hP]
    simp only
    rw [withLocals_self m hloc, prun_ok (length t m) m P [] hPk hPok (by rw [hlen]; simp)]
    simp
  · have hch : chunks m P = chunks m U := by rw [← chunks_core m P, hcore, chunks_core]
    obtain ⟨st, hrun, _, hgot⟩ := urun_chunks mok hmok m (chunks m P ++ extra) U [] (USt.init m0) [] extra hseen hclob
      hUok (by simp) (by simp [USt.init]) (by simp [hch])
    unfold unpack
    rw [hU]
    simp only
    rw [hrun]
    simp only
    by_cases ht : t = postCheckType
    · have hpo := hpost ht
      simp only [postOk, List.all_eq_true, Bool.and_eq_true, List.any_eq_true, List.contains_iff_mem] at hpo
      have hnone : postFail st.m postChecks = none := by
        apply postFail_none
        intro c hc
        obtain ⟨⟨fld, hmem, hnamed⟩, hinit⟩ := hpo c hc
        cases fld with
        | int g w =>
          simp only [isIntNamed, beq_iff_eq] at hnamed
          have h1 := hgot _ hmem
          simp only [got] at h1
          have h2 := hloc _ hinit
          simp only at h2
          rw [← hnamed, h1, hnamed, h2]
        | alloc _ _ => simp [isIntNamed] at hnamed
        | bytes _ _ _ => simp [isIntNamed] at hnamed
        | guard _ _ _ => simp [isIntNamed] at hnamed
        | var _ => simp [isIntNamed] at hnamed
      simp only [if_pos ht, hnone]
      exact ⟨st, rfl, hgot⟩
    · simp only [if_neg ht]
      exact ⟨st, rfl, hgot⟩

/-! ### how an unpack ends -/

/-- facts about the generated exit codes used by `unpack_outcome` (decidable) -/
def codesOk : Bool :=
  EMUNGE_SUCCESS == 0 && unpackOk == EMUNGE_SUCCESS &&
  unpackErr.2 != EMUNGE_SUCCESS && unpackErr.1 % 256 != 0 &&
  unpackNomem.2 != EMUNGE_SUCCESS && unpackNomem.1 % 256 != 0 &&
  postChecks.all (fun c => c.2.2.2 != EMUNGE_SUCCESS && c.2.2.1 % 256 != 0)

theorem setErr_num (h0 : EMUNGE_SUCCESS = 0) (m : Msg) (e : Nat) (s : Option (List UInt8)) (he : e % 256 ≠ 0) :
    (setErr m e s).1.int "error_num" ≠ 0 := by
  unfold setErr
  split
  · simp [Msg.setInt, Msg.setBuf, he]
  · rename_i hc
    simp only [h0] at hc
    intro hz
    apply hc
    refine ⟨hz, ?_⟩
    intro h; subst h; simp at he

theorem postFail_mem (m : Msg) : ∀ (cs : List (String × Nat × Nat × Nat)) (e r : Nat),
    postFail m cs = some (e, r) → ∃ c ∈ cs, c.2.2.1 = e ∧ c.2.2.2 = r := by
  intro cs
  induction cs with
  | nil => intro e r h; simp [postFail] at h
  | cons c cs ih =>
    intro e r h
    obtain ⟨l, v, e', r'⟩ := c
    simp only [postFail] at h
    split at h
    · simp only [Option.some.injEq, Prod.mk.injEq] at h
      exact ⟨_, List.mem_cons_self, h.1, h.2⟩
    · obtain ⟨c, hc, h1⟩ := ih e r h
      exact ⟨c, List.mem_cons_of_mem _ hc, h1⟩

/-- an unpack ends in success, or in a non-success code with an error recorded in the message -/
theorem unpack_outcome (hc : codesOk = true) (mok : Nat → Bool) (t : Nat) (m : Msg) (src : List UInt8) (srclen : Int) :
    (unpack mok t m src srclen).1 = EMUNGE_SUCCESS ∨
    ((unpack mok t m src srclen).1 ≠ EMUNGE_SUCCESS ∧ (unpack mok t m src srclen).2.m.int "error_num" ≠ 0) := by
  simp only [codesOk, Bool.and_eq_true, beq_iff_eq, bne_iff_ne, ne_eq, List.all_eq_true] at hc
  obtain ⟨⟨⟨⟨⟨⟨h0, hok⟩, he2⟩, he1⟩, hn2⟩, hn1⟩, hpc⟩ := hc
  unfold unpack
  cases hl : lookup unpackTable t with
  | none => right; exact ⟨he2, setErr_num h0 _ _ _ he1⟩
  | some fl =>
    simp only
    cases hu : urun mok src srclen fl (USt.init m) with
    | mk rc st =>
      cases rc with
      | ok =>
        simp only
        split
        · cases hp : postFail st.m postChecks with
          | none => left; exact hok
          | some er =>
            obtain ⟨e, r⟩ := er
            obtain ⟨c, hcm, h1, h2⟩ := postFail_mem _ _ _ _ hp
            have := hpc c hcm
            right
            simp only
            exact ⟨by rw [← h2]; exact this.1, setErr_num h0 _ _ _ (by rw [← h1]; exact this.2)⟩
        · left; exact hok
      | err => right; exact ⟨he2, setErr_num h0 _ _ _ he1⟩
      | nomem => right; exact ⟨hn2, setErr_num h0 _ _ _ hn1⟩

/-! ### quantifying over the generated tables -/

/-- `pred` holds of every message type's three lists (and every type with an unpack list has all three) -/
def tablesAll (pred : Nat → List Fld → List Fld → List Fld → Bool) : Bool :=
  unpackTable.all (fun e =>
    match lookup lengthTable e.1, lookup packTable e.1 with
    | some L, some P => pred e.1 L P e.2
    | _, _ => false)

theorem tablesAll_spec {pred : Nat → List Fld → List Fld → List Fld → Bool} (h : tablesAll pred = true)
    {t : Nat} {U : List Fld} (hU : lookup unpackTable t = some U) :
    ∃ L P, lookup lengthTable t = some L ∧ lookup packTable t = some P ∧ pred t L P U = true := by
  unfold lookup at hU
  cases hf : unpackTable.find? (fun e => e.1 == t) with
  | none => simp [hf] at hU
  | some e =>
    simp only [hf, Option.map_some, Option.some.injEq] at hU
    have hmem := List.mem_of_find?_eq_some hf
    have hkey : e.1 = t := by simpa using List.find?_some hf
    have := (List.all_eq_true.mp h) e hmem
    rw [hkey, hU] at this
    cases hL : lookup lengthTable t with
    | none => simp [hL] at this
    | some L =>
      cases hP : lookup packTable t with
      | none => simp [hL, hP] at this
      | some P =>
        simp only [hL, hP] at this
        exact ⟨L, P, rfl, rfl, this⟩

theorem postFail_none_iff (m : Msg) : ∀ (cs : List (String × Nat × Nat × Nat)), postFail m cs = none →
    ∀ c ∈ cs, m.int c.1 = c.2.1 := by
  intro cs
  induction cs with
  | nil => intro _ c hc; simp at hc
  | cons c cs ih =>
    intro h c' hc'
    obtain ⟨l, v, e, r⟩ := c
    simp only [postFail] at h
    split at h
    · simp at h
    · rename_i hv
      simp only [List.mem_cons] at hc'
      rcases hc' with rfl | hc'
      · simpa using hv
      · exact ih h c' hc'

/-- a successful unpack of the type that has post-switch checks passed every one of them -/
theorem unpack_post (hc : codesOk = true) (mok : Nat → Bool) (m : Msg) (src : List UInt8) (srclen : Int)
    (h : (unpack mok postCheckType m src srclen).1 = EMUNGE_SUCCESS) :
    ∀ c ∈ postChecks, (unpack mok postCheckType m src srclen).2.m.int c.1 = c.2.1 := by
  simp only [codesOk, Bool.and_eq_true, beq_iff_eq, bne_iff_ne, ne_eq, List.all_eq_true] at hc
  obtain ⟨⟨⟨⟨⟨⟨h0, hok⟩, he2⟩, he1⟩, hn2⟩, hn1⟩, hpc⟩ := hc
  unfold unpack at h ⊢
  cases hl : lookup unpackTable postCheckType with
  | none => rw [hl] at h; exact absurd h he2
  | some fl =>
    rw [hl] at h
    simp only at h ⊢
    cases hu : urun mok src srclen fl (USt.init m) with
    | mk rc st =>
      rw [hu] at h
      cases rc with
      | ok =>
        simp only [if_true] at h ⊢
        cases hp : postFail st.m postChecks with
        | none => simp only; exact postFail_none_iff _ _ hp
        | some er =>
          obtain ⟨e, r⟩ := er
          rw [hp] at h
          obtain ⟨c, hcm, h1, h2⟩ := postFail_mem _ _ _ _ hp
          exact absurd (h2 ▸ h) (hpc c hcm).1
      | err => exact absurd h he2
      | nomem => exact absurd h hn2

/-! ### `m_msg_reset`: reading the final value of a member off the translated kernel's write list -/

def wname (w : String × Int) : String := String.ofList (w.1.toList.drop 2)

/-- value last written to integer member `f`, if any -/
def lastInt (f : String) (ws : List (String × Int)) : Option Nat :=
  ws.foldl (fun acc w => if ptrMembers.contains (wname w) then acc else if wname w = f then some w.2.toNat else acc) none

/-- some write stores NULL into pointer member `f` -/
def nullW (f : String) (ws : List (String × Int)) : Bool :=
  ws.any (fun w => ptrMembers.contains (wname w) && (w.2 == 0) && (wname w == f))

theorem applyWrite_eq (m : Msg) (w : String × Int) :
    applyWrite m w = if ptrMembers.contains (wname w) then (if w.2 = 0 then m.setBuf (wname w) none else m)
      else m.setInt (wname w) w.2.toNat := rfl

theorem foldl_applyWrite_int (f : String) : ∀ (ws : List (String × Int)) (m : Msg) (acc : Option Nat),
    (ws.foldl applyWrite (m.setInt f (acc.getD (m.int f)))).int f =
      ((ws.foldl (fun acc w => if ptrMembers.contains (wname w) then acc else if wname w = f then some w.2.toNat
        else acc) acc).getD (m.int f)) := by
  intro ws
  induction ws with
  | nil => intro m acc; simp [Msg.setInt]
  | cons w ws ih =>
    intro m acc
    simp only [List.foldl_cons]
    by_cases hp : ptrMembers.contains (wname w) = true
    · have : applyWrite (m.setInt f (acc.getD (m.int f))) w =
          ((if w.2 = 0 then m.setBuf (wname w) none else m).setInt f (acc.getD (m.int f))) := by
        unfold applyWrite; simp only [wname] at hp ⊢; rw [if_pos hp]
        split <;> rfl
      rw [this, if_pos hp]
      have h2 := ih (if w.2 = 0 then m.setBuf (wname w) none else m) acc
      have h3 : (if w.2 = 0 then m.setBuf (wname w) none else m).int f = m.int f := by split <;> rfl
      rw [h3] at h2
      exact h2
    · have hp' : ptrMembers.contains (wname w) = false := by simpa using hp
      rw [if_neg hp]
      by_cases hf : wname w = f
      · rw [if_pos hf]
        have : applyWrite (m.setInt f (acc.getD (m.int f))) w = m.setInt f ((some w.2.toNat).getD (m.int f)) := by
          unfold applyWrite; simp only [wname] at hp hf ⊢; rw [if_neg hp, hf]
          cases m; simp only [Msg.setInt, Option.getD_some, Msg.mk.injEq, and_true]
          funext k; by_cases hk : k = f <;> simp [hk]
        rw [this]
        exact ih m (some w.2.toNat)
      · rw [if_neg hf]
        have : applyWrite (m.setInt f (acc.getD (m.int f))) w =
            (m.setInt (wname w) w.2.toNat).setInt f (acc.getD ((m.setInt (wname w) w.2.toNat).int f)) := by
          unfold applyWrite; simp only [wname] at hp hf ⊢; rw [if_neg hp]
          have hne : ¬ f = String.ofList (w.1.toList.drop 2) := fun h => hf h.symm
          cases m; simp only [Msg.setInt, hne, if_false, Msg.mk.injEq, and_true]
          funext k
          by_cases hk : k = f
          · subst hk; simp [hne]
          · simp [hk]
        have hne : ¬ f = wname w := fun h => hf h.symm
        have h3 : (m.setInt (wname w) w.2.toNat).int f = m.int f := by
          simp [Msg.setInt, hne]
        have h2 := ih (m.setInt (wname w) w.2.toNat) acc
        rw [h3] at h2
        rw [this, h3]
        exact h2

theorem reset_int (m : Msg) (ws : List (String × Int)) (f : String) :
    (ws.foldl applyWrite m).int f = (lastInt f ws).getD (m.int f) := by
  have := foldl_applyWrite_int f ws m none
  rw [Option.getD_none, setInt_self m f (m.int f) rfl] at this
  exact this

theorem reset_buf (f : String) : ∀ (ws : List (String × Int)) (m : Msg),
    (ws.foldl applyWrite m).buf f = if nullW f ws then none else m.buf f := by
  intro ws
  induction ws with
  | nil => intro m; simp [nullW]
  | cons w ws ih =>
    intro m
    simp only [List.foldl_cons]
    rw [ih (applyWrite m w)]
    have hb : (applyWrite m w).buf f =
        if (ptrMembers.contains (wname w) && (w.2 == 0) && (wname w == f)) = true then none else m.buf f := by
      rw [applyWrite_eq]
      generalize wname w = nm
      by_cases hp : nm ∈ ptrMembers
      · by_cases hz : w.2 = 0
        · by_cases hf : nm = f
          · subst hf; simp [hp, hz, Msg.setBuf]
          · have hne : ¬ f = nm := fun h => hf h.symm
            simp [hp, hz, hf, hne, Msg.setBuf]
        · simp [hp, hz]
      · simp [hp, Msg.setInt]
    rw [hb]
    have hn : nullW f (w :: ws) =
        ((ptrMembers.contains (wname w) && (w.2 == 0) && (wname w == f)) || nullW f ws) := by
      simp [nullW, List.any_cons]
    rw [hn]
    generalize (ptrMembers.contains (wname w) && (w.2 == 0) && (wname w == f)) = c
    generalize nullW f ws = d
    cases c <;> cases d <;> simp

end Munge.Wire
