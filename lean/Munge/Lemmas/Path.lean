import Munge.Model.Path
/-
Helper lemmas for C16: (1) bit masks as arithmetic (`band m mask` for the masks the generated kernels use, so that
`omega` can finish), (2) the string loop of `path_is_secure` visits exactly the ancestors of a canonical path.
-/
namespace Munge.Path
open Munge.C

/-! ### masks -/

theorem nat_and_mask (m k w : Nat) : m &&& ((2^w - 1) * 2^k) = (m / 2^k % 2^w) * 2^k := by
  have h1 : (m &&& ((2^w-1) * 2^k)) % 2^k = 0 := by
    rw [Nat.and_mod_two_pow, Nat.mul_mod_left, Nat.and_zero]
  have h2 : (m &&& ((2^w-1) * 2^k)) / 2^k = m / 2^k % 2^w := by
    rw [Nat.and_div_two_pow, Nat.mul_div_cancel _ (Nat.two_pow_pos k), Nat.and_two_pow_sub_one_eq_mod]
  have h3 := Nat.div_add_mod (m &&& ((2^w-1) * 2^k)) (2^k)
  rw [h1, h2, Nat.add_zero, Nat.mul_comm] at h3
  exact h3.symm

theorem band_mask (m : Int) (h : 0 ≤ m) (k w : Nat) (c : Int) (hc : c = (((2^w - 1) * 2^k : Nat) : Int)) :
    band m c = (m / ((2^k : Nat) : Int) % ((2^w : Nat) : Int)) * ((2^k : Nat) : Int) := by
  obtain ⟨n, rfl⟩ := Int.eq_ofNat_of_zero_le h
  subst hc
  unfold band
  simp only [Int.toNat_natCast]
  rw [nat_and_mask]
  simp [Int.natCast_mul, Int.natCast_ediv, Int.natCast_emod]

/-- file type field `S_IFMT` -/
theorem band_61440 (m : Int) (h : 0 ≤ m) : band m 61440 = (m / 4096 % 16) * 4096 := by
  have := band_mask m h 12 4 61440 (by decide); simpa using this
/-- all permission bits, `07777` -/
theorem band_4095 (m : Int) (h : 0 ≤ m) : band m 4095 = m % 4096 := by
  have := band_mask m h 0 12 4095 (by decide); simpa using this
/-- sticky bit -/
theorem band_512 (m : Int) (h : 0 ≤ m) : band m 512 = (m / 512 % 2) * 512 := by
  have := band_mask m h 9 1 512 (by decide); simpa using this
/-- group read+write -/
theorem band_48 (m : Int) (h : 0 ≤ m) : band m 48 = (m / 16 % 4) * 16 := by
  have := band_mask m h 4 2 48 (by decide); simpa using this
/-- group read -/
theorem band_32 (m : Int) (h : 0 ≤ m) : band m 32 = (m / 32 % 2) * 32 := by
  have := band_mask m h 5 1 32 (by decide); simpa using this
/-- group write -/
theorem band_16 (m : Int) (h : 0 ≤ m) : band m 16 = (m / 16 % 2) * 16 := by
  have := band_mask m h 4 1 16 (by decide); simpa using this
/-- other read+write -/
theorem band_6 (m : Int) (h : 0 ≤ m) : band m 6 = (m / 2 % 4) * 2 := by
  have := band_mask m h 1 2 6 (by decide); simpa using this
/-- other read -/
theorem band_4 (m : Int) (h : 0 ≤ m) : band m 4 = (m / 4 % 2) * 4 := by
  have := band_mask m h 2 1 4 (by decide); simpa using this
/-- other write -/
theorem band_2 (m : Int) (h : 0 ≤ m) : band m 2 = (m / 2 % 2) * 2 := by
  have := band_mask m h 1 1 2 (by decide); simpa using this
/-- lowest bit (`PATH_SECURITY_IGNORE_GROUP_WRITE`) -/
theorem band_1 (m : Int) (h : 0 ≤ m) : band m 1 = m % 2 := by
  have := band_mask m h 0 1 1 (by decide); simpa using this


/-- `kband [h₁, h₂, …]` (each `hᵢ : 0 ≤ mᵢ`): rewrite every mask test `band mᵢ mask` of a generated kernel into
    arithmetic, for all masks the kernels use, and unfold `b2i` -/
syntax "kband" "[" term,* "]" (" at " ident)? : tactic
open Lean in
macro_rules
  | `(tactic| kband [$hs,*] $[at $loc]?) => do
    let names := [`Munge.Path.band_61440, `Munge.Path.band_4095, `Munge.Path.band_512, `Munge.Path.band_48,
      `Munge.Path.band_32, `Munge.Path.band_16, `Munge.Path.band_6, `Munge.Path.band_4, `Munge.Path.band_2,
      `Munge.Path.band_1]
    let mut lemmas : Array (TSyntax `Lean.Parser.Tactic.simpLemma) := #[]
    for h in hs.getElems do
      for nm in names do
        lemmas := lemmas.push (← `(Lean.Parser.Tactic.simpLemma| $(mkIdent nm):ident _ $h))
    lemmas := lemmas.push (← `(Lean.Parser.Tactic.simpLemma| Munge.C.b2i))
    match loc with
    | some l => `(tactic| simp only [$lemmas,*] at $l:ident)
    | none => `(tactic| simp only [$lemmas,*])

/-! ### pushing observers through the `if` trees of the generated kernels -/

theorem fatal_ite (c : Prop) [Decidable c] (a b : KOut) :
    fatal (if c then a else b) = if c then fatal a else fatal b := by
  split <;> rfl

theorem calls_ite (c : Prop) [Decidable c] (a b : KOut) (n : String) :
    (if c then a else b).calls n = if c then a.calls n else b.calls n := by
  split <;> rfl

theorem ite_true_eq_false (c : Prop) [Decidable c] (b : Bool) :
    ((if c then true else b) = false) ↔ (¬ c ∧ b = false) := by
  split <;> simp [*]

theorem ite_false_eq_false (c : Prop) [Decidable c] (b : Bool) :
    ((if c then false else b) = false) ↔ (c ∨ b = false) := by
  split <;> simp [*]

theorem ite_true_eq_true (c : Prop) [Decidable c] (b : Bool) :
    ((if c then true else b) = true) ↔ (c ∨ b = true) := by
  split <;> simp [*]

theorem ite_false_eq_true (c : Prop) [Decidable c] (b : Bool) :
    ((if c then false else b) = true) ↔ (¬ c ∧ b = true) := by
  split <;> simp [*]

theorem bite_eq_true (c : Prop) [Decidable c] (a b : Bool) :
    ((if c then a else b) = true) ↔ ((c → a = true) ∧ (¬ c → b = true)) := by
  split <;> simp [*]

theorem bite_eq_false (c : Prop) [Decidable c] (a b : Bool) :
    ((if c then a else b) = false) ↔ ((c → a = false) ∧ (¬ c → b = false)) := by
  split <;> simp [*]

/-- turn a Boolean `if` tree with literal leaves, compared with a literal, into a proposition `omega` can read -/
macro "kbool" : tactic => `(tactic| simp only [bite_eq_true, bite_eq_false, Bool.false_eq_true, Bool.true_eq_false,
  eq_self_iff_true, imp_false, implies_true, and_true, true_and, not_true_eq_false, not_false_eq_true,
  false_imp_iff, true_imp_iff, and_false, false_and])

/-! ### the string loop -/

theorem lastSlash_append_slash (a c : List Char) (hc : '/' ∉ c) :
    lastSlash (a ++ '/' :: c) = some a.length := by
  have hnone : lastSlash c = none := by
    induction c with
    | nil => rfl
    | cons x xs ih =>
      have hx : x ≠ '/' := fun h => hc (by simp [h])
      have hxs : '/' ∉ xs := fun h => hc (by simp [h])
      simp [lastSlash, ih hxs, hx]
  induction a with
  | nil => simp [lastSlash, hnone]
  | cons x xs ih => simp [lastSlash, ih]

/-- "/c1/c2/…" (empty for no components) -/
def body (cs : List (List Char)) : List Char := cs.flatMap (fun c => '/' :: c)

/-- the canonical absolute path with components `cs` ("/" for none) -/
def render (cs : List (List Char)) : List Char := if cs = [] then ['/'] else body cs

/-- path components: non-empty, without '/' -/
def Comps (cs : List (List Char)) : Prop := ∀ c ∈ cs, c ≠ [] ∧ '/' ∉ c

/-- the directory itself and every ancestor up to "/", deepest first -/
def ancestors (cs : List (List Char)) : List (List Char) :=
  ((List.range (cs.length + 1)).map (fun k => render (cs.take k))).reverse

theorem body_snoc (cs : List (List Char)) (c : List Char) : body (cs ++ [c]) = body cs ++ '/' :: c := by
  simp [body, List.flatMap_append]

theorem render_ne_nil (cs : List (List Char)) : render cs ≠ [] := by
  unfold render
  split
  · simp
  · rename_i h
    cases cs with
    | nil => exact absurd rfl h
    | cons c rest => simp [body]

theorem body_length_pos {cs : List (List Char)} (h : cs ≠ []) : 0 < (body cs).length := by
  cases cs with
  | nil => exact absurd rfl h
  | cons c rest => simp [body]

theorem advance_root : advance ['/'] = some [] := by decide

theorem advance_snoc (cs : List (List Char)) (c : List Char) (hc : c ≠ [] ∧ '/' ∉ c) :
    advance (render (cs ++ [c])) = some (render cs) := by
  have hne : cs ++ [c] ≠ [] := by simp
  unfold render
  rw [if_neg hne, body_snoc]
  unfold advance
  rw [lastSlash_append_slash _ _ hc.2]
  by_cases h : cs = []
  · subst h
    have : 1 < (c.length + 1) := by
      have := List.length_pos_iff.mpr hc.1; omega
    simp [body, this]
  · have hp := body_length_pos h
    have hb : body cs ≠ [] := fun e => by rw [e] at hp; simp at hp
    simp [h, hb]

theorem ancestors_nil : ancestors [] = [['/']] := by decide

theorem ancestors_snoc (cs : List (List Char)) (c : List Char) :
    ancestors (cs ++ [c]) = render (cs ++ [c]) :: ancestors cs := by
  unfold ancestors
  have hl : (cs ++ [c]).length + 1 = (cs.length + 1) + 1 := by simp
  rw [hl, List.range_succ, List.map_append, List.reverse_append]
  simp only [List.map_cons, List.map_nil, List.reverse_cons, List.reverse_nil, List.nil_append,
    List.cons_append]
  congr 1
  · have : List.take (cs.length + 1) (cs ++ [c]) = cs ++ [c] := by
      apply List.take_of_length_le; simp
    rw [this]
  · congr 1
    apply List.map_congr_left
    intro k hk
    have hk' : k ≤ cs.length := by
      have := List.mem_range.mp hk; omega
    rw [List.take_append_of_le_length hk']

/-- the first failing per-directory check along a list of directories -/
def firstFail (flags tgid euid : Int) (env : Env) : List (List Char) → Verdict
  | [] => { rc := 1 }
  | a :: rest =>
    let o := checkDir flags tgid euid env a
    if o.ret ≠ 2 then { rc := o.ret, site := errSite o, at_ := a } else firstFail flags tgid euid env rest

theorem walk_render_rev (flags tgid euid : Int) (env : Env) (rcs : List (List Char)) (h : Comps rcs.reverse)
    (fuel : Nat) (hf : rcs.length + 2 ≤ fuel) :
    walk flags tgid euid env fuel (render rcs.reverse) = firstFail flags tgid euid env (ancestors rcs.reverse) := by
  induction rcs generalizing fuel with
  | nil =>
    obtain ⟨f1, rfl⟩ : ∃ f1, fuel = f1 + 1 := ⟨fuel - 1, by simp at hf; omega⟩
    obtain ⟨f2, rfl⟩ : ∃ f2, f1 = f2 + 1 := ⟨f1 - 1, by simp at hf; omega⟩
    simp only [List.reverse_nil, ancestors_nil]
    have hr : render [] = ['/'] := by decide
    rw [hr]
    simp only [walk, firstFail]
    have : (['/'] : List Char) ≠ [] := by simp
    rw [if_neg this]
    split
    · rfl
    · rw [advance_root]; simp
  | cons c rest ih =>
    obtain ⟨f1, rfl⟩ : ∃ f1, fuel = f1 + 1 := ⟨fuel - 1, by simp at hf; omega⟩
    have hc : c ≠ [] ∧ '/' ∉ c := h c (by simp)
    have hrest : Comps rest.reverse := fun x hx => h x (by simp at hx ⊢; exact Or.inl hx)
    simp only [List.reverse_cons]
    rw [ancestors_snoc]
    simp only [walk, firstFail]
    rw [if_neg (render_ne_nil _)]
    split
    · rfl
    · rw [advance_snoc _ _ hc]
      exact ih hrest f1 (by simp at hf ⊢; omega)

theorem body_length (cs : List (List Char)) (h : Comps cs) : 2 * cs.length ≤ (body cs).length := by
  induction cs with
  | nil => simp [body]
  | cons c rest ih =>
    have hc : c ≠ [] := (h c (by simp)).1
    have hl := List.length_pos_iff.mpr hc
    have ih' := ih (fun x hx => h x (by simp [hx]))
    have : body (c :: rest) = ('/' :: c) ++ body rest := by simp [body]
    rw [this]
    simp only [List.length_append, List.length_cons]
    omega

theorem render_length (cs : List (List Char)) (h : Comps cs) : cs.length + 1 ≤ (render cs).length := by
  unfold render
  split
  · rename_i h0; subst h0; simp
  · rename_i h0
    have := body_length cs h
    have : 0 < cs.length := List.length_pos_iff.mpr h0
    omega

/-- the loop of `path_is_secure`, started on a canonical directory path, applies the per-directory checks to the
    directory and each of its ancestors up to "/", deepest first, and stops at the first failure -/
theorem walk_render (flags tgid euid : Int) (env : Env) (cs : List (List Char)) (h : Comps cs) :
    walk flags tgid euid env ((render cs).length + 1) (render cs) = firstFail flags tgid euid env (ancestors cs) := by
  have := walk_render_rev flags tgid euid env cs.reverse (by simpa using h) ((render cs).length + 1)
    (by have := render_length cs h; simp; omega)
  simpa using this

/-! ### generic facts about the walk (independent of the generated kernels' contents) -/

theorem firstFail_one_iff (flags tgid euid : Int) (env : Env) (l : List (List Char))
    (hne : ∀ a, (checkDir flags tgid euid env a).ret ≠ 1) :
    (firstFail flags tgid euid env l).rc = 1 ↔ ∀ a ∈ l, (checkDir flags tgid euid env a).ret = 2 := by
  induction l with
  | nil => simp [firstFail]
  | cons a rest ih =>
    simp only [firstFail, List.mem_cons, forall_eq_or_imp]
    by_cases h : (checkDir flags tgid euid env a).ret = 2
    · simp [h, ih]
    · simp [h, hne a]

theorem render_head (cs : List (List Char)) (h : Comps cs) : (render cs).head? = some '/' := by
  unfold render
  split
  · rfl
  · cases cs with
    | nil => contradiction
    | cons c rest => simp [body]

end Munge.Path
